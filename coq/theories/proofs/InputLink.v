(* InputLink.v — (worker s2) the screen layer / input path of ScreenSem.v against the acceptors of ScreenMon.v:
   the link between the model's state and the world the observer rebuilds from the events, and ONE proof that
   every session of the model is accepted by chk_C17sep, chk_C07, chk_C18, chk_C06 and chk_once (no input handler
   gets a second ready signal) together ([all_accepted]).
   proofs/C17sepProofs.v, C07Proofs.v, C18Proofs.v, C06Proofs.v project it on the single properties.

   Part 1 (generic in the handlers' state U and the handler table [code]):
     [wpS n p Q s]  "running the handler program p from s with any fuel <= n ends in Q" (semantic weakest
     precondition), with proof rules for every constructor of [prog] ([wpS_seq], [wpS_try], [wpS_st], [wpS_while],
     [wpS_emit], [wpS_api_exact] for API calls that do not re-enter the loop); the API calls that do
     (execute_new_loop, close_loop, process_signals) are discharged by [Spec n], the specification of the
     loop-level calls for fuel <= n ([wpS_api_rec]);
     [spec_all]: ONE induction on fuel over [exec]: if the invariant [Inv] is kept by the loop's own steps
     (hypotheses G_pop, G_ext, ...) and every handler body satisfies its triple given [Spec n] (G_handler), then [Spec n]
     holds for all n.  Outcomes: OFuel / OBlocked leave only [A] (the trace so far is accepted), SystemExit
     leaves [D] (accepted, and the unwinding will be), every other outcome re-establishes [Inv].
   Part 2 (the screen layer):
     [SW typed s] the observer's world; [mw]/[absw]/[mstep]/[mchk_all]: the part of the world the four acceptors
     read, its transformer and the acceptors on it ([abs_step], [chk07_abs] ...: they commute with ScreenMon's);
     [Core m u l ex hs]: the link (ideal stack = concrete stack; outstanding requests, reader running, typed lines;
     error counters; request table / fired callbacks vs. the handlers' one-shot callbacks; the pending
     InputReadySignals of all queues are, as a multiset, announcements of the hand-off list ([PSub]: handler objects
     may be reused, so several entries may carry the same handler); at most one InputReceivedSignal in flight - in
     [ext] (the reader answers when the loop is idle) or already queued (type-ahead) - carrying the line the reader
     took; per handler the last ready signal it got since it last asked ([c_last], for T_WAITED); the handler table;
     and, when every request has a fresh handler ([fresh], [FreshInv]): answered handlers, the handlers of the hand-off
     list and of the request stack are pairwise distinct (for [chk_once]));
     [Inv] = accepted so far + Core + "quiet" (no follow-up pending, no line waiting for its input());
     [At s m u l ex hs]: symbolic state; rules a_rd, a_wr, a_ev, a_enq, ... on it; "Inv-triples" [IT p];
     one lemma per Python method (same names as in ScreenSem.v): IT_push, IT_replace, IT_schedule, IT_push_modal,
     t_handler_get_input (start_input_thread, with and without type-ahead), t_get_input_rest / IT_get_input,
     IT_get_input_blocking, IT_handler_ask / IT_handler_wait / t_waited (the application's own InputHandler objects),
     IT_close_screen, IT_draw_screen (C17), IT_process_screen, t_pir (process_input_result: C07),
     t_process_input, H_ready (input_ready_handler: C06), H_received (the hand-off: C18);
     G_pop ... G_handler: the hypotheses of [spec_all]; [screen_spec_all]; [session_acc].
   Part 3: [Inv_init], [all_accepted].
   Hypothesis of the end result: [wf_session_gen fresh specl quit acts] - every screen id used by the
   session is one of its screens (out of range, upd_scr is a no-op and the model's counters freeze), and, when
   [fresh], the session has no SHandlerAsk (needed for chk_once only: [no_handler_objects], [wf_session_fresh]).
   Both range over ALL command lists of a screen, those of a setup() that runs commands ([sc_setup_cmds]) included:
   no hypothesis on setup() is needed here ([IT_call_setup]: T_SETUP_BEGIN is a plain event for these acceptors - it
   changes only sw_pframes, which [absw] forgets - and the commands are in the situation of those of refresh()).
   The arguments clause of chk_C06 needs no hypothesis: a request's handler carries its arguments ([ih_args],
   invariant [c_cb_req]: the monitor's record of the request = (owner, ih_args)), put in place at delivery (fix of F15). *)
From SL Require Import Tac.
From RecordUpdate Require Import RecordUpdate.
From SL Require Import PyInt LoopSem.
Import ListNotations.

Ltac st_simpl := cbn [qstore levels active handlers tickets run_loop force_quit quit_cb next_sig ext trace ust
                      emit set set_q].

Section Rules.
  Context {U : Type}.
  Variable code : nat -> signal -> nat -> prog U.
  Notation lstate := (lstate U).
  Implicit Types s : lstate.
  Implicit Types Q : outcome -> lstate -> Prop.

  Variable A : lstate -> Prop.          (* holds at every point (the trace so far is accepted) *)
  Variable D : lstate -> Prop.          (* holds while SystemExit unwinds *)

  Definition res (Q : outcome -> lstate -> Prop) (o : outcome) (s' : lstate) : Prop :=
    match o with
    | OFuel | OBlocked => A s'
    | OThrow XSysExit => D s'
    | _ => Q o s'
    end.

  Lemma res_mono (Q Q' : outcome -> lstate -> Prop) o s' :
    (forall o s', Q o s' -> Q' o s') -> res Q o s' -> res Q' o s'.
  Proof. intros H. destruct o as [|[| |]| |]; cbn; auto. Qed.

  Definition wpS (n : nat) (p : prog U) (Q : outcome -> lstate -> Prop) (s : lstate) : Prop :=
    A s /\ forall f, f <= n -> forall o s', exec code f (CProg p) s = (o, s') -> res Q o s'.

  (* ------------------------------------------------------------ rules *)
  Lemma wpS_A n p Q s : wpS n p Q s -> A s.
  Proof. intros [H _]; exact H. Qed.

  Lemma wpS_mono n p (Q Q' : outcome -> lstate -> Prop) s :
    (forall o s', Q o s' -> Q' o s') -> wpS n p Q s -> wpS n p Q' s.
  Proof. intros H [HA HW]. split; [exact HA|]. intros f Hf o s' E. eapply res_mono; [exact H|]. eapply HW; eauto. Qed.

  Ltac fuel0 f Hf E HA :=
    destruct f as [|f]; [cbn in E; inversion E; subst; cbn; exact HA|]; cbn [exec] in E.

  Lemma wpS_ret n Q s : A s -> Q ONormal s -> wpS n PRet Q s.
  Proof. intros HA HQ. split; [exact HA|]. intros f Hf o s' E. fuel0 f Hf E HA. inversion E; subst. exact HQ. Qed.

  Lemma wpS_throw n Q e s : A s -> res Q (OThrow e) s -> wpS n (PThrow e) Q s.
  Proof. intros HA HQ. split; [exact HA|]. intros f Hf o s' E. fuel0 f Hf E HA. inversion E; subst. exact HQ. Qed.

  Lemma wpS_seq n p q Q s :
    wpS n p (fun o s1 => match o with ONormal => wpS n q Q s1 | _ => Q o s1 end) s -> wpS n (PSeq p q) Q s.
  Proof.
    intros [HA HW]. split; [exact HA|]. intros f Hf o s' E. fuel0 f Hf E HA.
    destruct (exec code f (CProg p) s) as [o1 s1] eqn:E1.
    assert (H1 := HW f ltac:(lia) _ _ E1).
    destruct o1 as [|[| |]| |]; cbn in H1; try (inversion E; subst; cbn; exact H1).
    destruct H1 as [_ H1]. apply (H1 f ltac:(lia) _ _ E).
  Qed.

  Lemma wpS_try n p h Q s :
    wpS n p (fun o s1 => match o with OThrow XError => wpS n h Q s1 | _ => Q o s1 end) s -> wpS n (PTry p h) Q s.
  Proof.
    intros [HA HW]. split; [exact HA|]. intros f Hf o s' E. fuel0 f Hf E HA.
    destruct (exec code f (CProg p) s) as [o1 s1] eqn:E1.
    assert (H1 := HW f ltac:(lia) _ _ E1).
    destruct o1 as [|[| |]| |]; cbn in H1; try (inversion E; subst; cbn; exact H1).
    destruct H1 as [_ H1]. apply (H1 f ltac:(lia) _ _ E).
  Qed.

  Lemma wpS_st n g Q s :
    A s -> wpS n (snd (g (ust s))) Q (s <| ust := fst (g (ust s)) |>) -> wpS n (PSt g) Q s.
  Proof.
    intros HA [_ HW]. split; [exact HA|]. intros f Hf o s' E. fuel0 f Hf E HA.
    destruct (g (ust s)) as [u' p']. cbn [fst snd] in HW. apply (HW f ltac:(lia) _ _ E).
  Qed.

  Lemma wpS_emit n e Q s : A s -> A (emit (user_event e) s) -> Q ONormal (emit (user_event e) s) -> wpS n (PEmit e) Q s.
  Proof. intros HA HA' HQ. split; [exact HA|]. intros f Hf o s' E. fuel0 f Hf E HA. inversion E; subst. exact HQ. Qed.

  (* while: an invariant J *)
  Lemma wpS_while n c b Q (J : lstate -> Prop) s :
    J s ->
    (forall s1, J s1 -> A s1) ->
    (forall s1, J s1 -> c (ust s1) = false -> Q ONormal s1) ->
    (forall s1, J s1 -> c (ust s1) = true ->
        wpS n b (fun o s2 => match o with ONormal => J s2 | _ => Q o s2 end) s1) ->
    wpS n (PWhile c b) Q s.
  Proof.
    intros HJ JA Jout Jbody. split; [apply JA, HJ|].
    intros f. revert s HJ. induction f as [|f IH]; intros s HJ Hf o s' E.
    { cbn in E; inversion E; subst; cbn. apply JA, HJ. }
    cbn [exec] in E. destruct (c (ust s)) eqn:C.
    - destruct (exec code f (CProg b) s) as [o1 s1] eqn:E1.
      destruct (Jbody s HJ C) as [_ HW]. assert (H1 := HW f ltac:(lia) _ _ E1).
      destruct o1 as [|[| |]| |]; cbn in H1; try (inversion E; subst; cbn; exact H1).
      apply (IH s1 H1 ltac:(lia) _ _ E).
    - inversion E; subst. cbn. apply Jout; assumption.
  Qed.

  (* API calls that do not re-enter the loop: their effect is computed *)
  Definition api_exact (a : api) (s : lstate) : option lstate :=
    match a with
    | AEnqueue sp => Some (do_enqueue (snd (new_signal s sp)) (fst (new_signal s sp)))
    | AForceQuit => Some (emit EForceQuit (s <| force_quit := true |> <| levels := [] |> <| run_loop := false |>))
    | ARegSource o => Some (emit (ERegSource o (active s)) (set_q s (active s) (q_add_source (get_q s (active s)) o)))
    | ARegHandler cls hid data => Some (emit (ERegHandler cls hid data) (s <| handlers := add_handler (handlers s) cls hid data |>))
    | ASetQuitCb arg => Some (emit (ESetQuitCb arg) (s <| quit_cb := Some arg |>))
    | AExtAdd sp => Some (s <| ext := ext s ++ [sp] |>)
    | _ => None
    end.

  Lemma wpS_api_exact n a Q s s1 : api_exact a s = Some s1 -> A s -> Q ONormal s1 -> wpS n (PApi a) Q s.
  Proof.
    intros X HA HQ. split; [exact HA|]. intros f Hf o s' E. fuel0 f Hf E HA.
    destruct f as [|f]; [cbn in E; inversion E; subst; cbn; exact HA|]. cbn [exec] in E.
    destruct a; cbn [api_exact] in X; try discriminate X; inversion X; subst s1; clear X.
    - unfold new_signal in *. cbn [fst snd] in *. inversion E; subst. exact HQ.
    - inversion E; subst. exact HQ.
    - inversion E; subst. exact HQ.
    - inversion E; subst. exact HQ.
    - inversion E; subst. exact HQ.
    - inversion E; subst. exact HQ.
  Qed.

End Rules.

Section Gen.
  Context {U : Type}.
  Variable code : nat -> signal -> nat -> prog U.
  Notation lstate := (lstate U).
  Implicit Types s : lstate.
  Implicit Types Q : outcome -> lstate -> Prop.
  Variable A : lstate -> Prop.
  Variable D : lstate -> Prop.
  Variable Inv : lstate -> Prop.        (* holds whenever the loop itself is in control *)
  Variable R : lstate -> lstate -> Prop. (* relates the states at two such points *)
  Variable SigPre : signal -> nat -> lstate -> Prop.   (* side condition of _process_signal sg from handler idx *)
  Variable okspec : sigspec -> Prop.    (* signals the handlers may pass to execute_new_loop *)
  Notation res := (res A D).
  Notation wpS := (wpS code A D).

  Definition lcall (c : call U) : Prop :=
    match c with
    | CProg _ => False
    | CApi (ANewLoop sp) => okspec sp
    | CApi ACloseLoop | CApi (AProcess _) => True
    | CApi _ => False
    | _ => True
    end.
  Definition cpre (c : call U) (s : lstate) : Prop :=
    match c with CProcessSignal sg idx => SigPre sg idx s | _ => True end.
  Definition LPost (s : lstate) (o : outcome) (s' : lstate) : Prop := Inv s' /\ R s s'.

  Definition Spec (n : nat) : Prop :=
    forall f, f <= n -> forall c s o s', lcall c -> Inv s -> cpre c s ->
      exec code f c s = (o, s') -> res (LPost s) o s'.


  Ltac fuel0 f Hf E HA :=
    destruct f as [|f]; [cbn in E; inversion E; subst; cbn; exact HA|]; cbn [exec] in E.

  (* API calls that re-enter the loop: by the specification of the loop-level calls *)
  Lemma wpS_api_rec n a (Q : outcome -> lstate -> Prop) s :
    Spec n -> lcall (CApi a) -> Inv s -> A s ->
    (forall o s', LPost s o s' -> Q o s') -> wpS n (PApi a) Q s.
  Proof.
    intros HS LC HI HA HQ. split; [exact HA|]. intros f Hf o s' E. fuel0 f Hf E HA.
    eapply res_mono; [exact HQ|]. apply (HS f ltac:(lia) (CApi a) s o s' LC HI I E).
  Qed.

  (* ------------------------------------------------------------ the loop's own steps *)
  Definition how_of (o : outcome) : option exn := match o with OThrow e => Some e | _ => None end.

  Hypothesis Inv_A : forall s, Inv s -> A s.
  Hypothesis D_A : forall s, D s -> A s.
  Hypothesis R_refl : forall s, R s s.
  Hypothesis R_trans : forall a b c, R a b -> R b c -> R a c.

  (* fields the invariant does not look at *)
  Definition same (s s' : lstate) : Prop :=
    trace s' = trace s /\ ust s' = ust s /\ ext s' = ext s /\ qstore s' = qstore s /\ handlers s' = handlers s /\
    force_quit s' = force_quit s.
  Definition same_fq (s s' : lstate) : Prop :=
    trace s' = trace s /\ ust s' = ust s /\ ext s' = ext s /\ qstore s' = qstore s /\ handlers s' = handlers s.
  Hypothesis G_same : forall s s', same_fq s s' -> Inv s -> Inv s' /\ R s s'.
  Hypothesis G_same_sig : forall s s' sg i, same_fq s s' -> SigPre sg i s -> SigPre sg i s'.

  Definition neutral (e : event) : bool :=
    match e with
    | ERunEnter | EQuitCb _ | ERunReturn | EDispatchEnd _ | ENewLoopReturn _ | EClosePop _
    | EProcEnter _ _ | EProcReturn _ _ | EForceQuit | ENewLoopEnter _ => true
    | _ => false
    end.
  (* the events the induction itself emits "in passing" (execute_new_loop's own event is G_newloop's) *)
  Definition neutral0 (e : event) : bool :=
    match e with
    | ERunEnter | EQuitCb _ | ERunReturn | EDispatchEnd _ | ENewLoopReturn _ | EClosePop _
    | EProcEnter _ _ | EProcReturn _ _ => true
    | _ => false
    end.
  Lemma neutral0_neutral e : neutral0 e = true -> neutral e = true.
  Proof. destruct e; cbn; congruence. Qed.
  Hypothesis G_ev : forall s e, neutral0 e = true -> Inv s -> Inv (emit e s) /\ R s (emit e s).
  Hypothesis G_kill : forall s, Inv s -> D (emit EKill s).
  Hypothesis G_unwind : forall s h sid, D s -> D (emit (EHandlerEnd h sid (Some XSysExit)) s).

  Hypothesis G_pop : forall s p c sg q', Inv s -> q_pop (get_q s (active s)) = Some ((p, c, sg), q') ->
    let s1 := emit (EDispatch (sg_id sg) (active s) (length (levels s))) (set_q s (active s) q') in
    Inv s1 /\ R s s1 /\ SigPre sg 0 s1.
  Hypothesis G_requeue : forall s p c sg q', Inv s -> q_pop (get_q s (active s)) = Some ((p, c, sg), q') ->
    let s1 := emit (ERequeue (sg_id sg) (active s)) (set_q s (active s) (q_put_entry q' (p, c, sg))) in
    Inv s1 /\ R s s1.
  Hypothesis G_ext : forall s sp r, Inv s -> ext s = sp :: r -> q_pop (get_q s (active s)) = None ->
    let '(sg, s1) := new_signal (s <| ext := r |>) sp in
    let s2 := do_enqueue (emit (EExt (sg_id sg)) s1) sg in Inv s2 /\ R s s2.
  Hypothesis G_exc : forall s sg i, Inv s -> SigPre sg i s ->
    let s2 := do_enqueue (snd (new_signal s exception_spec)) (fst (new_signal s exception_spec)) in
    Inv s2 /\ R s s2 /\ SigPre sg i s2.
  Hypothesis G_newsig : forall s sp, okspec sp -> Inv s ->
    let s1 := snd (new_signal s sp) in Inv s1 /\ R s s1.
  Hypothesis G_newloop : forall s sp, okspec sp -> Inv s ->
    let '(sg, s1) := new_signal s sp in
    force_quit s1 = false ->
    let q := length (qstore s1) in
    let s2 := s1 <| qstore := qstore s1 ++ [empty_queue] |> <| active := q |> <| levels := levels s1 ++ [q] |> in
    let s3 := do_enqueue (emit (ENewLoopEnter q) s2) sg in Inv s3 /\ R s s3.

  (* every handler body, started by _process_signal, satisfies its triple *)
  Hypothesis G_handler : forall n, Spec n -> forall s sg idx hs hid data,
    Inv s -> SigPre sg idx s -> force_quit s = false ->
    handlers_of s (sg_cls sg) = Some hs -> nth_error hs idx = Some (hid, data) ->
    wpS n (code hid sg data)
        (fun o s2 => let s3 := emit (EHandlerEnd hid (sg_id sg) (how_of o)) s2 in
                     Inv s3 /\ R s s3 /\ SigPre sg (S idx) s3)
        (emit (EHandler hid (sg_id sg) data) s).

  Lemma same_refl_upd_tickets s t : same_fq s (s <| tickets := t |>).
  Proof. repeat split. Qed.

  Ltac inv_step H := let a := fresh "HI" in let b := fresh "HR" in destruct H as [a b].

  Theorem spec_all : forall n, Spec n.
  Proof.
    induction n as [|n IHn].
    { intros f Hf c s o s' LC HI CP E. assert (f = 0) by lia; subst. cbn in E. inversion E; subst. cbn. apply Inv_A, HI. }
    assert (IH : forall c s0 s o s', lcall c -> Inv s -> cpre c s -> R s0 s -> exec code n c s = (o, s') ->
                 res (LPost s0) o s').
    { intros c s0 s o s' LC HI CP HR E. eapply res_mono; [|apply (IHn n (le_n _) c s o s' LC HI CP E)].
      intros o0 s1 [H1 H2]. split; [exact H1|eapply R_trans; eauto]. }
    assert (HND := G_handler n IHn).
    intros f Hf c s o s' LC HI CP E.
    destruct (Nat.eq_dec f (S n)) as [->|NE]; [|apply (IHn f ltac:(lia) c s o s' LC HI CP E)].
    destruct c; cbn [exec] in E; cbn [lcall cpre] in LC, CP.
    - (* CRun *)
      set (s0 := emit ERunEnter _) in E.
      assert (H0 : Inv s0 /\ R s s0).
      { destruct (G_same s (s <| force_quit := false |> <| run_loop := true |>)) as [a b]; [repeat split|exact HI|].
        destruct (G_ev _ ERunEnter eq_refl a) as [a' b']. split; [exact a'|eapply R_trans; eauto]. }
      destruct H0 as [HI0 HR0].
      destruct (exec code n CMainloop s0) as [o1 s1] eqn:E1.
      assert (H1 := IH CMainloop s s0 o1 s1 I HI0 I HR0 E1).
      assert (FIN : Inv s1 -> R s s1 -> res (LPost s) ONormal (emit ERunReturn match quit_cb s1 with Some a => emit (EQuitCb a) s1 | None => s1 end)).
      { intros a b. cbn.
        assert (X : Inv (match quit_cb s1 with Some a => emit (EQuitCb a) s1 | None => s1 end) /\
                    R s (match quit_cb s1 with Some a => emit (EQuitCb a) s1 | None => s1 end)).
        { destruct (quit_cb s1) as [qa|]; [|split; assumption].
          destruct (G_ev s1 (EQuitCb qa) eq_refl a) as [a' b']. split; [exact a'|eapply R_trans; eauto]. }
        destruct X as [a' b']. destruct (G_ev _ ERunReturn eq_refl a') as [a'' b''].
        split; [exact a''|eapply R_trans; eauto]. }
      destruct o1 as [|[| |]| |]; cbn in H1; inversion E; subst; try exact H1.
      + destruct H1; apply FIN; assumption.
      + destruct H1; apply FIN; assumption.
    - (* CMainloop *)
      destruct (run_loop s).
      + destruct (exec code n CProcLoop s) as [o1 s1] eqn:E1.
        assert (H1 := IH CProcLoop s s o1 s1 I HI I (R_refl s) E1).
        destruct o1 as [|[| |]| |]; cbn in H1; try (inversion E; subst; exact H1).
        destruct H1 as [a b]. apply (IH CMainloop s s1 o s' I a I b E).
      + inversion E; subst. cbn. destruct (force_quit s); [split; [exact HI|apply R_refl]|].
        apply G_same; [repeat split|exact HI].
    - (* CProcLoop *)
      destruct (run_loop s); [|inversion E; subst; cbn; split; [exact HI|apply R_refl]].
      unfold do_get in E. destruct (q_pop (get_q s (active s))) as [[[[p c] sg] q']|] eqn:P.
      + destruct (G_pop s p c sg q' HI P) as (a & b & sp).
        set (s2 := emit _ _) in *.
        destruct (exec code n (CProcessSignal sg 0) s2) as [o1 s3] eqn:E1.
        assert (H1 := IH (CProcessSignal sg 0) s s2 o1 s3 I a sp b E1).
        destruct o1 as [|[| |]| |]; cbn in H1; try (inversion E; subst; exact H1).
        destruct H1 as [a1 b1]. apply (IH CProcLoop s s3 o s' I a1 I b1 E).
      + destruct (ext s) as [|sp r] eqn:X.
        * inversion E; subst. cbn. apply Inv_A, HI.
        * pose proof (G_ext s sp r HI X P) as G.
          destruct (new_signal (s <| ext := r |>) sp) as [sg s1]. destruct G as [a b].
          apply (IH CProcLoop s _ o s' I a I b E).
    - (* CProcWait *)
      destruct (run_loop s); [|inversion E; subst; cbn; split; [exact HI|apply R_refl]].
      unfold do_get in E. destruct (q_pop (get_q s (active s))) as [[[[p c] sg] q']|] eqn:P.
      + destruct (G_pop s p c sg q' HI P) as (a & b & sp).
        set (s2 := emit _ _) in *.
        destruct (exec code n (CProcessSignal sg 0) s2) as [o1 s3] eqn:E1.
        assert (H1 := IH (CProcessSignal sg 0) s s2 o1 s3 I a sp b E1).
        destruct o1 as [|[| |]| |]; cbn in H1; try (inversion E; subst; exact H1).
        destruct H1 as [a1 b1].
        destruct (check_ticket (tickets s3) cls ticket) as [[[|] t']|].
        * inversion E; subst. cbn. destruct (G_same s3 (s3 <| tickets := t' |>)) as [a2 b2]; [repeat split|exact a1|].
          split; [exact a2|eapply R_trans; eauto].
        * apply (IH (CProcWait cls ticket) s s3 o s' I a1 I b1 E).
        * inversion E; subst. cbn. split; assumption.
      + destruct (ext s) as [|sp r] eqn:X.
        * inversion E; subst. cbn. apply Inv_A, HI.
        * pose proof (G_ext s sp r HI X P) as G.
          destruct (new_signal (s <| ext := r |>) sp) as [sg s1]. destruct G as [a b].
          apply (IH (CProcWait cls ticket) s _ o s' I a I b E).
    - (* CProcIter *)
      destruct (negb (q_empty (get_q s (active s))) && run_loop s);
        [|inversion E; subst; cbn; split; [exact HI|apply R_refl]].
      destruct (q_pop (get_q s (active s))) as [[[[p cnt] sg] q']|] eqn:P;
        [|inversion E; subst; cbn; split; [exact HI|apply R_refl]].
      assert (GO : forall o s',
                 (let s1 := set_q s (active s) q' in
                  let s2 := emit (EDispatch (sg_id sg) (active s) (length (levels s))) s1 in
                  let '(o, s3) := exec code n (CProcessSignal sg 0) s2 in
                  match o with ONormal => exec code n (CProcIter (Some p)) s3 | _ => (o, s3) end) = (o, s') ->
                 res (LPost s) o s').
      { clear E. intros o0 s0' E. cbn zeta in E.
        destruct (G_pop s p cnt sg q' HI P) as (a & b & sp).
        set (s2 := emit _ _) in *.
        destruct (exec code n (CProcessSignal sg 0) s2) as [o1 s3] eqn:E1.
        assert (H1 := IH (CProcessSignal sg 0) s s2 o1 s3 I a sp b E1).
        destruct o1 as [|[| |]| |]; cbn in H1; try (inversion E; subst; exact H1).
        destruct H1 as [a1 b1]. apply (IH (CProcIter (Some p)) s s3 o0 s0' I a1 I b1 E). }
      destruct prio as [p0|]; [|apply GO in E; exact E].
      destruct (p =? p0)%Z; [apply GO in E; exact E|].
      inversion E; subst. cbn. destruct (G_requeue s p cnt sg q' HI P) as [a b]. split; assumption.
    - (* CProcessSignal *)
      set (s0 := if (idx =? 0)%nat then _ else s) in E.
      assert (S0 : Inv s0 /\ R s s0 /\ SigPre sg idx s0).
      { unfold s0. destruct (idx =? 0)%nat; [|repeat split; [exact HI|apply R_refl|exact CP]].
        destruct (G_same s (s <| tickets := mark_line_to_go (tickets s) (sg_cls sg) |>)) as [a b]; [repeat split|exact HI|].
        repeat split; [exact a|exact b|]. eapply G_same_sig; [|exact CP]. repeat split. }
      clearbody s0. destruct S0 as (HI0 & HR0 & SP0).
      assert (DE : res (LPost s) ONormal (emit (EDispatchEnd (sg_id sg)) s0)).
      { cbn. destruct (G_ev s0 (EDispatchEnd (sg_id sg)) eq_refl HI0) as [a b]. split; [exact a|eapply R_trans; eauto]. }
      destruct (handlers_of s0 (sg_cls sg)) as [hs|] eqn:HS.
      + destruct (force_quit s0) eqn:FQ; [inversion E; subst; exact DE|].
        destruct (nth_error hs idx) as [[hid data]|] eqn:NE; [|inversion E; subst; exact DE].
        destruct (HND s0 sg idx hs hid data HI0 SP0 FQ HS NE) as [_ HW].
        set (s1 := emit _ s0) in *.
        destruct (exec code n (CProg (code hid sg data)) s1) as [o1 s2] eqn:E1.
        assert (H1 := HW n (le_n _) _ _ E1).
        destruct o1 as [|[| |]| |]; cbn in H1.
        * destruct H1 as (a & b & sp). apply (IH (CProcessSignal sg (S idx)) s _ o s' I a sp (R_trans _ _ _ HR0 b) E).
        * inversion E; subst. cbn. destruct H1 as (a & b & sp). split; [exact a|eapply R_trans; eauto].
        * destruct H1 as (a & b & sp).
          pose proof (G_exc _ sg (S idx) a sp) as G. cbn zeta in G.
          destruct (new_signal (emit (EHandlerEnd hid (sg_id sg) (Some XError)) s2) exception_spec) as [xs s4].
          cbn [fst snd] in G. destruct G as (a1 & b1 & sp1).
          apply (IH (CProcessSignal sg (S idx)) s _ o s' I a1 sp1 (R_trans _ _ _ HR0 (R_trans _ _ _ b b1)) E).
        * inversion E; subst. cbn. apply G_unwind, H1.
        * inversion E; subst. exact H1.
        * inversion E; subst. exact H1.
      + destruct (sg_cls sg =? CLS_EXCEPTION)%nat; inversion E; subst; [cbn; apply G_kill, HI0|exact DE].
    - (* CApi *)
      match goal with a : api |- _ => destruct a end; cbn [lcall] in LC; try contradiction.
      + (* ANewLoop *)
        pose proof (G_newsig s sp LC HI) as G1. pose proof (G_newloop s sp LC HI) as G2.
        destruct (new_signal s sp) as [sg s1]. cbn [snd] in G1. destruct G1 as [a1 b1].
        destruct (force_quit s1) eqn:FQ; [inversion E; subst; cbn; split; assumption|].
        destruct (G2 eq_refl) as [a3 b3]. clear G2.
        set (s3 := do_enqueue _ sg) in *.
        destruct (exec code n CMainloop s3) as [o1 s4] eqn:E1.
        assert (H1 := IH CMainloop s s3 o1 s4 I a3 I b3 E1).
        destruct o1 as [|[| |]| |]; cbn in H1; inversion E; subst; try exact H1.
        cbn. destruct H1 as [a4 b4]. destruct (G_ev s4 (ENewLoopReturn (length (qstore s1))) eq_refl a4) as [a5 b5].
        split; [exact a5|eapply R_trans; eauto].
      + (* ACloseLoop *)
        destruct (G_ev s (EProcEnter None 0) eq_refl HI) as [a0 b0].
        destruct (exec code n (CProcIter None) (emit (EProcEnter None 0) s)) as [o1 s1] eqn:E1.
        assert (H1 := IH (CProcIter None) s _ o1 s1 I a0 I b0 E1).
        destruct o1 as [|[| |]| |]; cbn in H1; try (inversion E; subst; exact H1).
        destruct H1 as [a1 b1].
        destruct (G_ev s1 (EProcReturn None 0) eq_refl a1) as [a2 b2].
        set (s2 := emit (EProcReturn None 0) s1) in *.
        assert (b2' : R s s2) by (eapply R_trans; eauto).
        destruct (rev (levels s2)) as [|top rest_rev] eqn:RV; [inversion E; subst; cbn; split; assumption|].
        destruct (G_same s2 (s2 <| levels := rev rest_rev |>)) as [a3 b3]; [repeat split|exact a2|].
        destruct (G_ev _ (EClosePop top) eq_refl a3) as [a4 b4].
        assert (b4' : R s (emit (EClosePop top) (s2 <| levels := rev rest_rev |>))) by (eapply R_trans; [exact b2'|eapply R_trans; eauto]).
        destruct rest_rev as [|q r]; inversion E; subst; cbn; [split; assumption|].
        destruct (G_same (emit (EClosePop top) (s2 <| levels := rev (q :: r) |>))
                         (emit (EClosePop top) (s2 <| levels := rev (q :: r) |>) <| active := q |> <| run_loop := false |>))
          as [a5 b5]; [repeat split|exact a4|].
        split; [exact a5|eapply R_trans; eauto].
      + (* AProcess *)
        destruct return_after as [cls|].
        * destruct (take_ticket (tickets s) cls) as [t tm].
          destruct (G_same s (s <| tickets := tm |>)) as [a0 b0]; [repeat split|exact HI|].
          destruct (G_ev _ (EProcEnter (Some cls) t) eq_refl a0) as [a1 b1].
          set (s1 := emit _ _) in *.
          assert (b1' : R s s1) by (eapply R_trans; eauto).
          destruct (exec code n (CProcWait cls t) s1) as [o1 s2] eqn:E1.
          assert (H1 := IH (CProcWait cls t) s s1 o1 s2 I a1 I b1' E1).
          destruct o1 as [|[| |]| |]; cbn in H1; inversion E; subst; try exact H1.
          cbn. destruct H1 as [a2 b2]. destruct (G_ev s2 (EProcReturn (Some cls) t) eq_refl a2) as [a3 b3].
          split; [exact a3|eapply R_trans; eauto].
        * destruct (G_ev s (EProcEnter None 0) eq_refl HI) as [a0 b0].
          destruct (exec code n (CProcIter None) (emit (EProcEnter None 0) s)) as [o1 s1] eqn:E1.
          assert (H1 := IH (CProcIter None) s _ o1 s1 I a0 I b0 E1).
          destruct o1 as [|[| |]| |]; cbn in H1; inversion E; subst; try exact H1.
          cbn. destruct H1 as [a1 b1]. destruct (G_ev s1 (EProcReturn None 0) eq_refl a1) as [a2 b2].
          split; [exact a2|eapply R_trans; eauto].
    - contradiction.
  Qed.
End Gen.

(* ====================================================================== Part 2: the screen layer *)
From SL Require Import ScreenSem ScreenMon.

Definition SW (typed : list (option str)) (s : lstate sstate) : sworld :=
  fold_left sworld_step (rev (trace s)) (sworld0 typed).
Arguments SW : simpl never.

Lemma SW_emit typed e (s : lstate sstate) : SW typed (emit e s) = sworld_step (SW typed s) e.
Proof. unfold SW. change (trace (emit e s)) with (e :: trace s). cbn [rev]. rewrite fold_left_app. reflexivity. Qed.
Lemma SW_trace typed (s s' : lstate sstate) : trace s' = trace s -> SW typed s' = SW typed s.
Proof. unfold SW. intros ->. reflexivity. Qed.

Lemma srun_mon_snoc chk t : forall w i e,
  srun_mon chk w (t ++ [e]) i = None <-> srun_mon chk w t i = None /\ chk (fold_left sworld_step t w) e = true.
Proof.
  induction t as [|x r IH]; intros w i e; cbn.
  - destruct (chk w e); split; try tauto; try discriminate. intros [_ H]; discriminate.
  - destruct (chk w x); [apply IH|]. split; [discriminate|intros [H _]; discriminate].
Qed.

Lemma sok_snoc chk typed t e :
  sok chk typed (t ++ [e]) = true <-> sok chk typed t = true /\ chk (fold_left sworld_step t (sworld0 typed)) e = true.
Proof.
  unfold sok. pose proof (srun_mon_snoc chk t (sworld0 typed) 0 e) as H.
  destruct (srun_mon chk (sworld0 typed) (t ++ [e]) 0) as [n|], (srun_mon chk (sworld0 typed) t 0) as [m|]; split; intros X;
    try discriminate; try tauto.
  all: try (destruct H as [H _]; destruct (H eq_refl); discriminate).
  all: try (destruct H as [H _]; destruct (H eq_refl); tauto).
  all: try (destruct H as [_ H]; exfalso; assert (Y : Some n = None) by (apply H; tauto); discriminate).
Qed.

Definition sacc (chk : sworld -> event -> bool) typed (s : lstate sstate) : Prop :=
  sok chk typed (rev (trace s)) = true.
Lemma sacc_emit chk typed e s : sacc chk typed (emit e s) <-> sacc chk typed s /\ chk (SW typed s) e = true.
Proof. unfold sacc, SW. change (trace (emit e s)) with (e :: trace s). cbn [rev]. apply sok_snoc. Qed.
Lemma sacc_trace chk typed (s s' : lstate sstate) : trace s' = trace s -> sacc chk typed s -> sacc chk typed s'.
Proof. unfold sacc. intros ->. auto. Qed.

(* a weaker acceptor accepts what a stronger one accepts *)
Lemma srun_mon_weaken (c1 c2 : sworld -> event -> bool) : (forall w e, c1 w e = true -> c2 w e = true) ->
  forall t w i, srun_mon c1 w t i = None -> srun_mon c2 w t i = None.
Proof.
  intros H t. induction t as [|e r IH]; intros w i; cbn; [auto|].
  destruct (c1 w e) eqn:E; [|discriminate]. rewrite (H _ _ E). apply IH.
Qed.
Lemma sok_weaken (c1 c2 : sworld -> event -> bool) typed t : (forall w e, c1 w e = true -> c2 w e = true) ->
  sok c1 typed t = true -> sok c2 typed t = true.
Proof.
  intros H. unfold sok. destruct (srun_mon c1 (sworld0 typed) t 0) eqn:E; [discriminate|].
  rewrite (srun_mon_weaken c1 c2 H _ _ _ E). auto.
Qed.

(* ---------------------------------------------------------------- the part of the world the four acceptors read *)
Record mw := {
  m_stack : list entry; m_req : list (nat * (nat * nat)); m_typed : list (option str); m_line : str;
  m_istack : list nat; m_proc : bool; m_hand : list (nat * bool * str); m_recv : list nat; m_fired : list nat;
  m_must : option (nat * nat * str); m_err : list (nat * nat); m_follow : option follow;
  m_prev : option (nat * list nat); m_last : list (nat * option (bool * str)) }.
#[export] Instance eta_mw : Settable _ :=
  settable! Build_mw <m_stack; m_req; m_typed; m_line; m_istack; m_proc; m_hand; m_recv; m_fired; m_must; m_err; m_follow; m_prev; m_last>.

Definition absw (w : sworld) : mw :=
  {| m_stack := sw_stack w; m_req := sw_req w; m_typed := sw_typed w; m_line := sw_line w; m_istack := sw_istack w;
     m_proc := sw_processing w; m_hand := sw_handoff w; m_recv := sw_received w; m_fired := sw_fired w;
     m_must := sw_must_input w; m_err := sw_err w; m_follow := sw_follow w; m_prev := sw_prev_user w; m_last := sw_last w |}.

Definition err_in (er : list (nat * nat)) (scr : nat) : nat := match alookup scr er with Some n => n | None => 0 end.
Definition merr_of (m : mw) (scr : nat) : nat := err_in (m_err m) scr.

Definition mk_entry (a : list nat) : entry :=
  {| en_id := nth0 a 1; en_scr := nth0 a 2; en_args := nth0 a 3; en_modal := (nth0 a 4 =? 1)%nat |}.

Definition muser (m : mw) (tag : nat) (a : list nat) (text : str) : mw :=
  let m := m <| m_prev := Some (tag, a) |> in
  if (tag =? T_OP)%nat then
    m <| m_follow := match m_follow m with
                     | Some FClose => None
                     | Some FQuit => if (nth0 a 0 =? O_PUSH_MODAL)%nat then Some (FQuitBack (nth0 a 1)) else None
                     | Some (FQuitBack _) => None
                     | x => x end |>
  else if (tag =? T_STACK)%nat then
    if (nth0 a 0 =? K_APPEND)%nat then m <| m_stack := mk_entry a :: m_stack m |>
    else if (nth0 a 0 =? K_ADD_FIRST)%nat then m <| m_stack := m_stack m ++ [mk_entry a] |>
    else m <| m_stack := tl (m_stack m) |>
  else if (tag =? T_MODAL_RETURN)%nat then
    m <| m_follow := match m_follow m with Some (FQuitBack _) => Some FAfterQuit | x => x end |>
  else if (tag =? T_REQ)%nat then
    m <| m_req := (nth0 a 2, (nth0 a 0, nth0 a 1)) :: m_req m |>
      <| m_follow := match m_follow m with Some FReprompt => None | x => x end |>
  else if (tag =? T_PROMPT)%nat then
    if (nth0 a 1 =? 0)%nat then
      m <| m_istack := nth0 a 0 :: m_istack m |> <| m_last := (nth0 a 0, None) :: m_last m |> <| m_proc := true |>
        <| m_line := match m_typed m with Some l :: _ => l | _ => [] end |> <| m_typed := tl (m_typed m) |>
    else m <| m_istack := nth0 a 0 :: m_istack m |> <| m_last := (nth0 a 0, None) :: m_last m |>
  else if (tag =? T_READY)%nat then
    let n := nth0 a 0 in
    let m1 := m <| m_recv := n :: m_recv m |>
                <| m_last := (n, Some ((nth0 a 1 =? 1)%nat, text)) :: m_last m |>
                <| m_hand := remove_first (fun x => (fst (fst x) =? n)%nat && Bool.eqb (snd (fst x)) (nth0 a 1 =? 1)%nat && streq (snd x) text)
                                          (m_hand m) |> in
    if (nth0 a 1 =? 1)%nat && negb (mem n (m_fired m)) then
      match alookup n (m_req m) with
      | Some (scr, args) => m1 <| m_must := Some (scr, args, text) |> <| m_fired := n :: m_fired m |>
      | None => m1
      end
    else m1
  else if (tag =? T_INPUT)%nat then m <| m_must := None |>
  else if (tag =? T_ACTION)%nat then
    let scr := nth0 a 0 in let act := nth0 a 1 in
    let e := if (act =? 4)%nat then S (merr_of m scr) else 0 in
    m <| m_err := (scr, e) :: m_err m |>
      <| m_follow := Some (if (act =? 0)%nat then FEnd
                            else if (act =? 1)%nat then FRedraw 0
                            else if (act =? 2)%nat then FClose
                            else if (act =? 3)%nat then FQuit
                            else if (Nat.modulo e 5 =? 0)%nat then FRedraw 0 else FReprompt) |>
  else m.

Definition mstep (m : mw) (e : event) : mw :=
  match e with
  | EUser tag a text => muser m tag a text
  | EHandler h sid _ =>
    if (h =? H_RECEIVED)%nat then
      match m_istack m with
      | top :: rest =>
        m <| m_hand := m_hand m ++ (top, true, m_line m) :: map (fun r => (r, false, [])) (rev rest) |>
          <| m_istack := [] |> <| m_proc := false |>
      | [] => m
      end
    else m
  | EHandlerEnd h _ _ => m <| m_follow := None |> <| m_must := None |>
  | ESigNew _ c _ _ =>
    match m_follow m with
    | Some (FRedraw 0) => if (c =? CLS_RENDER)%nat then m <| m_follow := Some (FRedraw 1) |> else m
    | Some FAfterQuit => if (c =? CLS_RENDER)%nat then m <| m_follow := Some (FRedraw 1) |> else m
    | _ => m
    end
  | EEnq _ _ | EDropped _ =>
    match m_follow m with Some (FRedraw 1) => m <| m_follow := Some FEnd |> | _ => m end
  | ETop => m <| m_follow := None |> <| m_must := None |>
  | _ => m
  end.

Lemma abs_user w tag a t : absw (user_step w tag a t) = muser (absw w) tag a t.
Proof.
  unfold user_step, muser.
  destruct (tag =? T_OP)%nat eqn:E1.
  { cbn. destruct (sw_follow w) as [[]|]; reflexivity. }
  destruct (tag =? T_STACK)%nat eqn:E2.
  { destruct (nth0 a 0 =? K_APPEND)%nat.
    - unfold mk_entry. cbn. destruct (sw_replaced w); [reflexivity|]. destruct (nth0 a 4 =? 1)%nat; reflexivity.
    - destruct (nth0 a 0 =? K_ADD_FIRST)%nat; [reflexivity|].
      cbn. destruct (sw_expect w) as [|[[]| |] r]; reflexivity. }
  destruct (tag =? T_SETUP)%nat eqn:E3.
  { apply Nat.eqb_eq in E3; subst tag. cbn. destruct (nth0 a 3 =? 1)%nat; reflexivity. }
  destruct (tag =? T_REFRESH)%nat eqn:E4; [apply Nat.eqb_eq in E4; subst tag; reflexivity|].
  destruct (tag =? T_SHOW)%nat eqn:E5; [apply Nat.eqb_eq in E5; subst tag; reflexivity|].
  destruct (tag =? T_CLOSED)%nat eqn:E6; [apply Nat.eqb_eq in E6; subst tag; reflexivity|].
  destruct (tag =? T_MODAL_RETURN)%nat eqn:E7; [reflexivity|].
  destruct (tag =? T_REQ)%nat eqn:E8; [reflexivity|].
  destruct (tag =? T_ASK)%nat eqn:E9; [apply Nat.eqb_eq in E9; subst tag; reflexivity|].
  destruct (tag =? T_PROMPT)%nat eqn:E10.
  { destruct (nth0 a 1 =? 0)%nat; reflexivity. }
  destruct (tag =? T_READY)%nat eqn:E11.
  { cbn. match goal with |- context [if ?c then _ else _] => destruct c end; [|reflexivity].
    destruct (alookup (nth0 a 0) (sw_req w)) as [[scr args]|]; reflexivity. }
  destruct (tag =? T_INPUT)%nat eqn:E12; [reflexivity|].
  destruct (tag =? T_ACTION)%nat eqn:E13; [reflexivity|].
  destruct (tag =? T_SETUP_BEGIN)%nat eqn:E14; reflexivity.
Qed.

Lemma abs_step w e : absw (sworld_step w e) = mstep (absw w) e.
Proof.
  destruct e; try reflexivity.
  - (* ESigNew *) cbn. destruct (sw_follow w) as [[| [|k] | | | | |]|]; try reflexivity; destruct (cls =? CLS_RENDER)%nat; reflexivity.
  - cbn. destruct (sw_follow w) as [[| [|[|k]] | | | | |]|]; reflexivity.
  - cbn. destruct (sw_follow w) as [[| [|[|k]] | | | | |]|]; reflexivity.
  - (* EHandler *) cbn. destruct (hid =? H_RENDER)%nat eqn:E.
    + apply Nat.eqb_eq in E; subst. reflexivity.
    + destruct (hid =? H_RECEIVED)%nat; [|reflexivity]. destruct (sw_istack w); reflexivity.
  - (* EHandlerEnd *) cbn. destruct (hid =? H_RENDER)%nat; reflexivity.
  - apply abs_user.
Qed.

Definition MW typed (s : lstate sstate) : mw := absw (SW typed s).
Arguments MW : simpl never.
Lemma MW_emit typed e s : MW typed (emit e s) = mstep (MW typed s) e.
Proof. unfold MW. rewrite SW_emit. apply abs_step. Qed.
Lemma MW_trace typed (s s' : lstate sstate) : trace s' = trace s -> MW typed s' = MW typed s.
Proof. unfold MW. intros H. rewrite (SW_trace _ _ _ H). reflexivity. Qed.

(* ---------------------------------------------------------------- the acceptors, on the mini-world *)
Definition hand_has (m : mw) (a : list nat) (text : str) : bool :=
  existsb (fun x => (fst (fst x) =? nth0 a 0)%nat && Bool.eqb (snd (fst x)) (nth0 a 1 =? 1)%nat && streq (snd x) text) (m_hand m).

Definition mchk06 (strict : bool) (m : mw) (e : event) : bool :=
  (match m_must m, e with
   | Some (scr, args, text), EUser tag a t =>
     (tag =? T_INPUT)%nat && (nth0 a 0 =? scr)%nat && (negb strict || (nth0 a 1 =? args)%nat) && streq t text
   | Some _, EHandlerEnd _ _ _ => false
   | _, _ => true end) &&
  match e with
  | EUser tag a text =>
    if (tag =? T_READY)%nat then hand_has m a text
    else if (tag =? T_INPUT)%nat then match m_must m with Some _ => true | None => false end
    else true
  | _ => true
  end.

Definition mtop (m : mw) : option entry := match m_stack m with e :: _ => Some e | [] => None end.

Definition mchk07 (quit : option nat) (m : mw) (e : event) : bool :=
  match m_follow m with
  | None => true
  | Some (FQuitBack _) => true
  | Some f =>
    let is_end := match e with EHandlerEnd _ _ _ => true | _ => false end in
    let is_exit := match e with EHandlerEnd _ _ (Some XExit) => true | _ => false end in
    let empty := match m_stack m with [] => true | _ => false end in
    if empty then is_exit else
    match f with
    | FEnd => is_end
    | FRedraw 0 => match e with ESigNew _ c _ None => (c =? CLS_RENDER)%nat | _ => false end
    | FRedraw _ => match e with EEnq _ _ | EDropped _ => true | _ => false end
    | FClose => match e with EUser tag a _ => (tag =? T_OP)%nat && (nth0 a 0 =? O_CLOSE)%nat && (nth0 a 1 =? 0)%nat | _ => false end
    | FQuit =>
      match quit with
      | Some qs => match e with EUser tag a _ => (tag =? T_OP)%nat && (nth0 a 0 =? O_PUSH_MODAL)%nat && (nth0 a 1 =? qs)%nat | _ => false end
      | None => is_exit
      end
    | FQuitBack _ => true
    | FAfterQuit => is_exit || match e with ESigNew _ c _ None => (c =? CLS_RENDER)%nat | _ => false end
    | FReprompt =>
      match e with
      | EUser tag a _ =>
        (tag =? T_REQ)%nat && match mtop m with Some t => (en_scr t =? nth0 a 0)%nat && (en_args t =? nth0 a 1)%nat | None => false end
      | EHandlerEnd _ _ None => true
      | _ => false
      end
    end
  end.

Definition mchk18 (m : mw) (e : event) : bool :=
  match e with
  | EUser tag a text =>
    if (tag =? T_REFUSED)%nat then
      negb (length (m_istack m) =? 0)%nat && (length a =? S (length (m_istack m)))%nat &&
      forallb (fun p => (fst p =? snd p)%nat) (combine (removelast a) (rev (m_istack m)))
    else if (tag =? T_PROMPT)%nat then Bool.eqb (nth0 a 1 =? 0)%nat (negb (m_proc m))
    else if (tag =? T_READY)%nat then hand_has m a text
    else if (tag =? T_GOT)%nat then mem (nth0 a 1) (m_recv m)
    else if (tag =? T_WAITED)%nat then
      match alookup (nth0 a 1) (m_last m) with
      | Some (Some (ok, v)) =>
        Bool.eqb ok (nth0 a 2 =? 1)%nat && (negb ok || ((nth0 a 3 =? 1)%nat && streq v text))
      | _ => false
      end
    else true
  | _ => true
  end.

Definition mchk17 (nosep : list bool) (m : mw) (e : event) : bool :=
  match e with
  | EUser tag a _ =>
    if (tag =? T_SHOW)%nat then
      let scr := nth0 a 1 in
      let prev_is_sep := match m_prev m with Some (t, pa) => (t =? T_SEPARATOR)%nat && (nth0 pa 0 =? scr)%nat | None => false end in
      Bool.eqb prev_is_sep (negb (nth scr nosep false))
    else if (tag =? T_SEPARATOR)%nat then negb (nth (nth0 a 0) nosep false)
    else true
  | _ => true
  end.

(* chk_C06 without the comparison of the arguments *)
Definition chk_C06_noargs (w : sworld) (e : event) : bool :=
  (match sw_must_input w, e with
   | Some (scr, args, text), EUser tag a t => (tag =? T_INPUT)%nat && (nth0 a 0 =? scr)%nat && streq t text
   | Some _, EHandlerEnd _ _ _ => false
   | _, _ => true end) &&
  match e with
  | EUser tag a text =>
    if (tag =? T_READY)%nat then
      existsb (fun x => (fst (fst x) =? nth0 a 0)%nat && Bool.eqb (snd (fst x)) (nth0 a 1 =? 1)%nat && streq (snd x) text)
              (sw_handoff w)
    else if (tag =? T_INPUT)%nat then match sw_must_input w with Some _ => true | None => false end
    else true
  | _ => true
  end.

Lemma chk06_abs w e : chk_C06 w e = mchk06 true (absw w) e.
Proof. reflexivity. Qed.
Lemma chk06n_abs w e : chk_C06_noargs w e = mchk06 false (absw w) e.
Proof.
  unfold chk_C06_noargs, mchk06. cbn [absw m_must m_hand]. f_equal.
  destruct (sw_must_input w) as [[[scr args] text]|]; [|reflexivity]. destruct e; try reflexivity.
  cbn [negb orb]. rewrite andb_true_r. reflexivity.
Qed.
Lemma chk07_abs q w e : chk_C07 q w e = mchk07 q (absw w) e.
Proof. reflexivity. Qed.
Lemma chk18_abs w e : chk_C18 w e = mchk18 (absw w) e.
Proof. reflexivity. Qed.
Lemma chk17_abs ns w e : chk_C17sep ns w e = mchk17 ns (absw w) e.
Proof. reflexivity. Qed.

(* an additional acceptor: no input handler gets a second ready signal (every requester is answered at most once) *)
Definition chk_once (w : sworld) (e : event) : bool :=
  match e with
  | EUser tag a _ => if (tag =? T_READY)%nat then negb (mem (nth0 a 0) (sw_received w)) else true
  | _ => true
  end.
Definition mchk_once (m : mw) (e : event) : bool :=
  match e with
  | EUser tag a _ => if (tag =? T_READY)%nat then negb (mem (nth0 a 0) (m_recv m)) else true
  | _ => true
  end.
Lemma chk_once_abs w e : chk_once w e = mchk_once (absw w) e.
Proof. reflexivity. Qed.

(* [mchk06 true] = chk_C06 with the comparison of the arguments; [fresh]: with chk_once *)
Definition mchk_all (fresh : bool) (quit : option nat) (nosep : list bool) (m : mw) (e : event) : bool :=
  mchk17 nosep m e && mchk07 quit m e && mchk18 m e && mchk06 true m e && (mchk_once m e || negb fresh).
Definition chk_all (fresh : bool) quit nosep (w : sworld) (e : event) : bool := mchk_all fresh quit nosep (absw w) e.

(* ---------------------------------------------------------------- lists, queues, pending signals *)
From Coq Require Import Permutation.

Lemma streq_refl (a : str) : streq a a = true.
Proof.
  unfold streq. rewrite Nat.eqb_refl. cbn [andb].
  induction a as [|x r IH]; cbn; [reflexivity|]. rewrite N.eqb_refl. exact IH.
Qed.

Lemma upd_nth_length {A} (l : list A) : forall n f, length (upd_nth l n f) = length l.
Proof. induction l as [|a r IH]; intros [|n] f; cbn; auto. Qed.
Lemma nth_upd_nth_eq {A} (l : list A) : forall n f d, n < length l -> nth n (upd_nth l n f) d = f (nth n l d).
Proof. induction l as [|a r IH]; intros [|n] f d H; cbn in *; try lia; auto. apply IH. lia. Qed.
Lemma nth_upd_nth_neq {A} (l : list A) : forall n k f d, n <> k -> nth k (upd_nth l n f) d = nth k l d.
Proof. induction l as [|a r IH]; intros [|n] [|k] f d H; cbn in *; try lia; auto. Qed.
Lemma upd_nth_out {A} (l : list A) : forall n f, length l <= n -> upd_nth l n f = l.
Proof. induction l as [|a r IH]; intros [|n] f H; cbn in *; try lia; auto. f_equal. apply IH. lia. Qed.

Lemma nth_upd_nth {A} (l : list A) k f d j :
  nth j (upd_nth l k f) d = if (j =? k)%nat && (k <? length l)%nat then f (nth j l d) else nth j l d.
Proof.
  destruct (j =? k)%nat eqn:E; cbn [andb].
  - apply Nat.eqb_eq in E. subst k. destruct (j <? length l)%nat eqn:L.
    + apply Nat.ltb_lt in L. apply nth_upd_nth_eq, L.
    + apply Nat.ltb_ge in L. rewrite upd_nth_out by exact L. reflexivity.
  - apply Nat.eqb_neq in E. apply nth_upd_nth_neq. auto.
Qed.

Lemma nth_snoc {A} (l : list A) x d j :
  nth j (l ++ [x]) d = if (j <? length l)%nat then nth j l d else if (j =? length l)%nat then x else d.
Proof.
  destruct (j <? length l)%nat eqn:L.
  - apply Nat.ltb_lt in L. apply app_nth1, L.
  - apply Nat.ltb_ge in L. rewrite app_nth2 by exact L. destruct (j =? length l)%nat eqn:E.
    + apply Nat.eqb_eq in E. subst j. rewrite Nat.sub_diag. reflexivity.
    + apply Nat.eqb_neq in E. destruct (j - length l) as [|k] eqn:X; [lia|]. cbn. destruct k; reflexivity.
Qed.

Lemma nodup_app {A} (a b : list A) : NoDup a -> NoDup b -> (forall x, In x a -> ~ In x b) -> NoDup (a ++ b).
Proof.
  induction a as [|x a IH]; cbn; intros Na Nb D; [exact Nb|]. inversion Na; subst. constructor.
  - intros I. apply in_app_or in I. destruct I as [I|I]; [auto|]. apply (D x); auto.
  - apply IH; auto.
Qed.
Lemma filter_all {A} (f : A -> bool) l : Forall (fun x => f x = true) l -> filter f l = l.
Proof. induction 1; cbn; [reflexivity|]. rewrite H. f_equal. assumption. Qed.
Lemma remove_first_in {A} (f : A -> bool) l x : In x l -> f x = false -> In x (remove_first f l).
Proof.
  induction l as [|y r IH]; cbn; intros I F; [destruct I|]. destruct (f y) eqn:E.
  - destruct I as [<-|I]; [congruence|exact I].
  - destruct I as [<-|I]; [left; reflexivity|right; auto].
Qed.
Lemma remove_first_sub {A} (f : A -> bool) l x : In x (remove_first f l) -> In x l.
Proof.
  induction l as [|y r IH]; cbn; intros I; [destruct I|]. destruct (f y); [right; exact I|].
  destruct I as [<-|I]; [left; reflexivity|right; auto].
Qed.
Lemma remove_first_nodup {A B} (g : A -> B) (f : A -> bool) l : NoDup (map g l) -> NoDup (map g (remove_first f l)).
Proof.
  induction l as [|y r IH]; cbn; intros ND; [constructor|]. inversion ND; subst. destruct (f y); [assumption|].
  cbn. constructor; [|auto]. intros I. apply H1. apply in_map_iff in I. destruct I as (z & E & I).
  apply in_map_iff. exists z. split; [exact E|]. eapply remove_first_sub, I.
Qed.

Lemma upd_nth_snoc {A} (l : list A) x (f : A -> A) : upd_nth (l ++ [x]) (length l) f = l ++ [f x].
Proof. induction l as [|a r IH]; cbn; [reflexivity|]. rewrite IH. reflexivity. Qed.
Lemma upd_nth_comp {A} (l : list A) : forall k (f g : A -> A), upd_nth (upd_nth l k f) k g = upd_nth l k (fun x => g (f x)).
Proof. induction l as [|a r IH]; intros [|k] f g; cbn; auto. f_equal. apply IH. Qed.

Lemma perm_filter {A} (f : A -> bool) (l l' : list A) : Permutation l l' -> Permutation (filter f l) (filter f l').
Proof.
  induction 1; cbn; auto.
  - destruct (f x); auto.
  - destruct (f x), (f y); auto. apply perm_swap.
  - eapply perm_trans; eauto.
Qed.
Lemma length_zero_nil {A} (l : list A) : length l = 0 -> l = [].
Proof. destruct l; [reflexivity|discriminate]. Qed.

Definition qcnt (e : LoopSem.entry) : nat := snd (fst e).
Definition pq (q : equeue) : list signal := map snd (eq_entries q).
Definition pendl (s : lstate sstate) : list signal := flat_map pq (qstore s).
Definition qok (q : equeue) : Prop :=
  NoDup (map qcnt (eq_entries q)) /\ Forall (fun e => qcnt e < eq_counter q) (eq_entries q).
Definition qsok (s : lstate sstate) : Prop := Forall qok (qstore s).

Lemma NoDup_app_l {A} (a r : list A) : NoDup (a ++ r) -> NoDup a.
Proof.
  induction a as [|x a IH]; cbn; intros H; [constructor|]. inversion H; subst. constructor; [|auto].
  intros I. apply H2. apply in_or_app; auto.
Qed.
Lemma NoDup_snoc {A} (l : list A) x : NoDup l -> ~ In x l -> NoDup (l ++ [x]).
Proof.
  induction l as [|y l IH]; cbn; intros ND NI; [constructor; [auto|constructor]|].
  inversion ND; subst. constructor.
  - intros I. apply in_app_or in I. destruct I as [I|[->|[]]]; auto.
  - apply IH; auto.
Qed.

Definition PSub {A} (a l : list A) : Prop := exists r, Permutation l (a ++ r).
Lemma PSub_refl {A} (a : list A) : PSub a a.
Proof. exists []. rewrite app_nil_r. apply Permutation_refl. Qed.
Lemma PSub_cons {A} (a l : list A) x : PSub a l -> PSub a (x :: l).
Proof. intros [r H]. exists (x :: r). eapply perm_trans; [apply perm_skip, H|]. apply Permutation_middle. Qed.
Lemma PSub_cons2 {A} (a a' l : list A) x : Permutation a' (x :: a) -> PSub a l -> PSub a' (x :: l).
Proof.
  intros P [r H]. exists r. eapply perm_trans; [apply perm_skip, H|].
  change (x :: a ++ r) with ((x :: a) ++ r). apply Permutation_app_tail. apply Permutation_sym, P.
Qed.
Lemma PSub_perm {A} (a a' l : list A) : Permutation a a' -> PSub a l -> PSub a' l.
Proof. intros P [r H]. exists r. eapply perm_trans; [exact H|]. apply Permutation_app_tail, P. Qed.
Lemma PSub_drop {A} (a l : list A) x : PSub (x :: a) l -> PSub a l.
Proof. intros [r H]. exists (x :: r). eapply perm_trans; [exact H|]. cbn. apply Permutation_middle. Qed.
Lemma PSub_trans {A} (a b c : list A) : PSub a b -> PSub b c -> PSub a c.
Proof.
  intros [r1 H1] [r2 H2]. exists (r1 ++ r2). eapply perm_trans; [exact H2|].
  rewrite app_assoc. apply Permutation_app_tail, H1.
Qed.
Lemma PSub_in {A} (a l : list A) x : PSub a l -> In x a -> In x l.
Proof. intros [r H] I. eapply Permutation_in; [apply Permutation_sym, H|]. apply in_or_app; auto. Qed.
Lemma PSub_filter {A} (f : A -> bool) (a l : list A) : PSub a l -> PSub (filter f a) (filter f l).
Proof.
  intros [r H]. exists (filter f r). rewrite <- filter_app.
  clear -H. induction H; cbn; auto.
  - destruct (f x); auto.
  - destruct (f x), (f y); auto. apply perm_swap.
  - eapply perm_trans; eauto.
Qed.
Lemma PSub_map {A B} (f : A -> B) (a l : list A) : PSub a l -> PSub (map f a) (map f l).
Proof. intros [r H]. exists (map f r). rewrite <- map_app. apply Permutation_map, H. Qed.
Lemma PSub_nodup {A} (a l : list A) : PSub a l -> NoDup l -> NoDup a.
Proof.
  intros [r H] ND. assert (X : NoDup (a ++ r)) by (eapply Permutation_NoDup; eauto).
  apply NoDup_app_l in X. exact X.
Qed.
Lemma PSub_length {A} (a l : list A) : PSub a l -> length a <= length l.
Proof. intros [r H]. rewrite (Permutation_length H), app_length. lia. Qed.

(* --- the queue primitives on the pending list *)
Lemma min_entry_in' l : forall m, In (min_entry m l) (m :: l).
Proof.
  induction l as [|e r IH]; intros m; cbn; [auto|].
  destruct (IH (if entry_lt e m then e else m)) as [H|H]; [|auto].
  destruct (entry_lt e m); rewrite <- H; auto.
Qed.
Lemma remove_entry_perm' c l : forall m, In m l -> qcnt m = c -> NoDup (map qcnt l) ->
  Permutation l (m :: remove_entry c l).
Proof.
  induction l as [|e r IH]; intros m I E ND; [destruct I|]. cbn [remove_entry].
  inversion ND as [|? ? NI ND']; subst. destruct I as [->|I].
  - fold (qcnt m). rewrite Nat.eqb_refl. apply Permutation_refl.
  - fold (qcnt e). destruct (qcnt e =? qcnt m)%nat eqn:X.
    + apply Nat.eqb_eq in X. exfalso. apply NI. rewrite X. apply in_map, I.
    + eapply perm_trans; [apply perm_skip, (IH m I eq_refl ND')|]. apply perm_swap.
Qed.
Lemma remove_entry_sub c l : forall e, In e (remove_entry c l) -> In e l.
Proof.
  induction l as [|x r IH]; intros e; cbn; [auto|].
  destruct (snd (fst x) =? c)%nat; [auto|]. intros [->|H]; auto.
Qed.
Lemma remove_entry_nodup c l : NoDup (map qcnt l) -> NoDup (map qcnt (remove_entry c l)).
Proof.
  induction l as [|x r IH]; intros ND; cbn; [exact ND|]. inversion ND as [|? ? NI ND']; subst.
  destruct (snd (fst x) =? c)%nat; [exact ND'|]. cbn. constructor; [|apply IH, ND'].
  intros I. apply NI. apply in_map_iff in I. destruct I as (e & E & I). apply in_map_iff. exists e. split; [exact E|].
  eapply remove_entry_sub, I.
Qed.
Lemma remove_entry_notin c l : NoDup (map qcnt l) -> ~ In c (map qcnt (remove_entry c l)).
Proof.
  induction l as [|x r IH]; intros ND; cbn; [auto|]. inversion ND as [|? ? NI ND']; subst.
  destruct (snd (fst x) =? c)%nat eqn:E.
  - apply Nat.eqb_eq in E. subst c. exact NI.
  - cbn. intros [H|H]; [unfold qcnt in H; apply Nat.eqb_neq in E; auto|]. apply (IH ND' H).
Qed.

Lemma q_pop_pq q p c sg q' : qok q -> q_pop q = Some ((p, c, sg), q') ->
  Permutation (pq q) (sg :: pq q') /\ qok q' /\ qok (q_put_entry q' (p, c, sg)) /\
  Permutation (pq (q_put_entry q' (p, c, sg))) (pq q).
Proof.
  intros [ND LT] P. unfold q_pop in P. destruct (eq_entries q) as [|e r] eqn:E; [discriminate|].
  assert (X : min_entry e r = (p, c, sg)) by congruence.
  assert (Y : q' = q <| eq_entries := remove_entry (snd (fst (min_entry e r))) (e :: r) |>) by congruence.
  clear P. subst q'.
  pose proof (min_entry_in' r e) as I. rewrite X in I.
  assert (PM : Permutation (e :: r) ((p, c, sg) :: remove_entry c (e :: r))).
  { apply remove_entry_perm'; [exact I|reflexivity|exact ND]. }
  assert (C : snd (fst (min_entry e r)) = c) by (rewrite X; reflexivity). rewrite C in *.
  assert (EQ : eq_entries (q <| eq_entries := remove_entry c (e :: r) |>) = remove_entry c (e :: r)) by reflexivity.
  assert (CN : eq_counter (q <| eq_entries := remove_entry c (e :: r) |>) = eq_counter q) by reflexivity.
  assert (K1 : qok (q <| eq_entries := remove_entry c (e :: r) |>)).
  { split; rewrite EQ; [apply remove_entry_nodup, ND|]. rewrite CN. rewrite Forall_forall in *. intros x Hx.
    apply LT. eapply remove_entry_sub, Hx. }
  repeat split.
  - unfold pq. rewrite EQ, E. change (sg :: map snd (remove_entry c (e :: r))) with (map snd ((p, c, sg) :: remove_entry c (e :: r))).
    apply Permutation_map, PM.
  - apply K1.
  - apply K1.
  - unfold q_put_entry. cbn [eq_entries set]. rewrite ?EQ. rewrite map_app. cbn [map].
    apply NoDup_snoc; [apply remove_entry_nodup, ND|]. apply (remove_entry_notin c (e :: r) ND).
  - unfold q_put_entry. cbn [eq_entries eq_counter set]. rewrite ?EQ.
    apply Forall_app. split; [apply K1|]. constructor; [|constructor].
    rewrite Forall_forall in LT. apply (LT _ I).
  - unfold pq, q_put_entry. cbn [eq_entries set]. rewrite ?EQ, map_app, E. cbn [map].
    eapply perm_trans; [apply Permutation_sym, Permutation_cons_append|].
    apply Permutation_sym. apply (Permutation_map snd PM).
Qed.

Lemma set_nth_split (l : list equeue) : forall n v, n < length l ->
  exists a b, l = a ++ nth n l empty_queue :: b /\ set_nth l n v = a ++ v :: b.
Proof.
  induction l as [|x r IH]; intros [|n] v H; cbn in *; try lia.
  - exists [], r. split; reflexivity.
  - destruct (IH n v ltac:(lia)) as (a & b & E1 & E2). exists (x :: a), b. cbn. split; congruence.
Qed.
Lemma set_nth_out (l : list equeue) : forall n v, length l <= n -> set_nth l n v = l.
Proof. induction l as [|x r IH]; intros [|n] v H; cbn in *; try lia; auto. f_equal. apply IH. lia. Qed.

Lemma get_q_out (s : lstate sstate) q : length (qstore s) <= q -> get_q s q = empty_queue.
Proof. intros H. unfold get_q. apply nth_overflow, H. Qed.

Lemma qok_nth (s : lstate sstate) q : qsok s -> qok (get_q s q).
Proof.
  intros H. unfold get_q. destruct (Nat.lt_ge_cases q (length (qstore s))) as [L|L].
  - unfold qsok in H. rewrite Forall_forall in H. apply H. apply nth_In, L.
  - rewrite nth_overflow by exact L. split; cbn; constructor.
Qed.

Lemma qsok_set_q (s : lstate sstate) q v : qsok s -> qok v -> qsok (set_q s q v).
Proof.
  intros H K. unfold qsok, set_q. cbn [qstore set].
  destruct (Nat.lt_ge_cases q (length (qstore s))) as [L|L].
  - destruct (set_nth_split (qstore s) q v L) as (a & b & E1 & E2). rewrite E2.
    unfold qsok in H. rewrite E1 in H. apply Forall_app in H. destruct H as [Ha Hb]. inversion Hb; subst.
    apply Forall_app. split; [exact Ha|]. constructor; assumption.
  - rewrite set_nth_out by exact L. exact H.
Qed.

(* replacing queue q: the pending list changes like the queue's own list *)
Lemma pendl_set_q_add (s : lstate sstate) q v x : Permutation (pq v) (x :: pq (get_q s q)) ->
  PSub (pendl (set_q s q v)) (x :: pendl s).
Proof.
  intros P. unfold pendl, set_q. cbn [qstore set].
  destruct (Nat.lt_ge_cases q (length (qstore s))) as [L|L].
  - destruct (set_nth_split (qstore s) q v L) as (a & b & E1 & E2). rewrite E2. rewrite E1 at 1.
    rewrite !flat_map_app. cbn [flat_map]. exists [].
    rewrite app_nil_r. unfold get_q in P.
    eapply perm_trans; [apply Permutation_middle|].
    apply Permutation_app_head. rewrite app_comm_cons. apply Permutation_app_tail. apply Permutation_sym, P.
  - rewrite set_nth_out by exact L. apply PSub_cons, PSub_refl.
Qed.
Lemma pendl_set_q_same (s : lstate sstate) q v : Permutation (pq v) (pq (get_q s q)) ->
  Permutation (pendl (set_q s q v)) (pendl s).
Proof.
  intros P. unfold pendl, set_q. cbn [qstore set].
  destruct (Nat.lt_ge_cases q (length (qstore s))) as [L|L].
  - destruct (set_nth_split (qstore s) q v L) as (a & b & E1 & E2). rewrite E2. rewrite E1 at 1.
    rewrite !flat_map_app. cbn [flat_map]. apply Permutation_app_head, Permutation_app_tail. exact P.
  - rewrite set_nth_out by exact L. apply Permutation_refl.
Qed.
Lemma pendl_set_q_del (s : lstate sstate) q v x : q < length (qstore s) -> Permutation (pq (get_q s q)) (x :: pq v) ->
  Permutation (pendl s) (x :: pendl (set_q s q v)).
Proof.
  intros L P. unfold pendl, set_q. cbn [qstore set].
  destruct (set_nth_split (qstore s) q v L) as (a & b & E1 & E2). rewrite E2. rewrite E1 at 1.
  rewrite !flat_map_app. cbn [flat_map]. unfold get_q in P.
  eapply perm_trans; [|apply Permutation_sym, Permutation_middle].
  apply Permutation_app_head. rewrite app_comm_cons. apply Permutation_app_tail. exact P.
Qed.

Lemma qok_put q sg : qok q -> qok (q_put q sg) /\ pq (q_put q sg) = pq q ++ [sg].
Proof.
  intros [ND LT]. unfold q_put, qok, pq. cbn [eq_entries eq_counter set]. repeat split.
  - rewrite map_app. cbn [map]. apply NoDup_snoc; [exact ND|]. cbn [qcnt fst snd].
    intros I. apply in_map_iff in I. destruct I as (e & E & I). rewrite Forall_forall in LT. specialize (LT e I). lia.
  - apply Forall_app. split.
    + rewrite Forall_forall in *. intros e I. specialize (LT e I). lia.
    + constructor; [cbn; lia|constructor].
  - rewrite map_app. reflexivity.
Qed.
Lemma qok_add_source q o : qok q -> qok (q_add_source q o) /\ pq (q_add_source q o) = pq q.
Proof. intros H. unfold q_add_source. destruct (existsb _ _); split; auto. Qed.

Lemma do_enqueue_facts (s : lstate sstate) sg : qsok s ->
  let s' := do_enqueue s sg in
  ust s' = ust s /\ ext s' = ext s /\ handlers s' = handlers s /\ qsok s' /\ PSub (pendl s') (sg :: pendl s) /\
  (exists e, (e = EDropped (sg_id sg) \/ exists q, e = EEnq (sg_id sg) q) /\ trace s' = e :: trace s).
Proof.
  intros Q. unfold do_enqueue. destruct (force_quit s).
  - cbn. repeat split; auto. { apply PSub_cons, PSub_refl. } eexists; split; [left; reflexivity|reflexivity].
  - set (q := match route s (rev (levels s)) (sg_src sg) with Some q => q | None => active s end).
    destruct (qok_put (get_q s q) sg (qok_nth s q Q)) as [K E].
    cbn [emit ust ext handlers set set_q trace]. repeat split; auto.
    + apply (qsok_set_q s q _ Q K).
    + apply pendl_set_q_add. rewrite E. apply Permutation_sym, Permutation_cons_append.
    + eexists; split; [right; eexists; reflexivity|reflexivity].
Qed.

(* ---------------------------------------------------------------- well-formed sessions: screen ids are in range *)
(* [fresh]: the application has no InputHandler objects of its own (no SHandlerAsk): every request has a fresh handler *)
Fixpoint scmd_wf (N : nat) (fresh : bool) (c : scmd) : bool :=
  match c with
  | SPush s _ | SPushModal s _ | SReplace s _ | SSchedule s _ => (s <? N)%nat
  | SHandlerAsk _ _ => negb fresh
  | SConnect _ k => (k <? 7)%nat                       (* H_CUSTOM k < 10: not the id of an InputHandler's handler *)
  | SIfCount _ t e => forallb (scmd_wf N fresh) t && forallb (scmd_wf N fresh) e
  | _ => true
  end.
Definition cmds_wf N fresh (l : list scmd) : bool := forallb (scmd_wf N fresh) l.
Definition spec_wf N fresh (sp : screen_spec) : bool :=
  cmds_wf N fresh (sc_setup_cmds sp) && cmds_wf N fresh (sc_refresh sp) && cmds_wf N fresh (sc_show sp) && cmds_wf N fresh (sc_closed sp) &&
  forallb (fun x => cmds_wf N fresh (fst (snd x))) (sc_input sp) && cmds_wf N fresh (fst (sc_input_default sp)) &&
  forallb (cmds_wf N fresh) (sc_custom sp).
Definition quit_wf N (quit : option nat) : bool :=
  match quit with Some q => (q <? N)%nat | None => true end.
Definition acts_wf N fresh (acts : list saction) : bool :=
  forallb (fun a => match a with SACmds l => cmds_wf N fresh l | SARun => true end) acts.
Definition wf_session_gen (fresh : bool) (specl : list screen_spec) (quit : option nat) (acts : list saction) : bool :=
  forallb (spec_wf (length specl) fresh) specl && quit_wf (length specl) quit &&
  acts_wf (length specl) fresh acts.
Definition wf_session := wf_session_gen false.

(* the application has no InputHandler objects of its own: no SHandlerAsk anywhere in the session *)
Fixpoint scmd_noask (c : scmd) : bool :=
  match c with
  | SHandlerAsk _ _ => false
  | SIfCount _ t e => forallb scmd_noask t && forallb scmd_noask e
  | _ => true
  end.
Definition spec_noask (sp : screen_spec) : bool :=
  forallb scmd_noask (sc_setup_cmds sp) && forallb scmd_noask (sc_refresh sp) && forallb scmd_noask (sc_show sp) && forallb scmd_noask (sc_closed sp) &&
  forallb (fun x => forallb scmd_noask (fst (snd x))) (sc_input sp) && forallb scmd_noask (fst (sc_input_default sp)) &&
  forallb (forallb scmd_noask) (sc_custom sp).
Definition no_handler_objects (specl : list screen_spec) (acts : list saction) : bool :=
  forallb spec_noask specl &&
  forallb (fun a => match a with SACmds l => forallb scmd_noask l | SARun => true end) acts.

Lemma scmd_ind' (P : scmd -> Prop) :
  (forall c, (match c with SIfCount _ _ _ => False | _ => True end) -> P c) ->
  (forall k t e, Forall P t -> Forall P e -> P (SIfCount k t e)) -> forall c, P c.
Proof.
  intros H1 H2. fix IH 1. intros c. destruct c; try (apply H1; exact I).
  apply H2.
  - induction t as [|x r IHr]; constructor; [apply IH|exact IHr].
  - induction e as [|x r IHr]; constructor; [apply IH|exact IHr].
Qed.

(* the handler table: the scheduler's and the input manager's own handlers, H_READY 0 .. k-1 of the k InputHandler
   objects created so far, and for the application's own signal classes (>= 5) callbacks with ids 3 .. 9 *)
Definition hlist (hs : list (nat * list (nat * nat))) (cls : nat) : list (nat * nat) :=
  match option_map snd (find (fun p : nat * list (nat * nat) => (fst p =? cls)%nat) hs) with Some l => l | None => [] end.
Definition HsOK (k : nat) (hs : list (nat * list (nat * nat))) : Prop :=
  hlist hs CLS_RENDER = [(H_RENDER, 0)] /\ hlist hs CLS_CLOSE = [(H_CLOSE, 0)] /\ hlist hs CLS_RECEIVED = [(H_RECEIVED, 0)] /\
  hlist hs CLS_READY = map (fun j => (H_READY j, 0)) (seq 0 k) /\
  forall cls, (cls = 0 \/ 5 <= cls) -> Forall (fun hd => 3 <= fst hd < 10) (hlist hs cls).
#[local] Arguments H_READY : simpl never.
#[local] Arguments Nat.modulo : simpl never.
Lemma hlist_add hs cls hid data cls' :
  hlist (add_handler hs cls hid data) cls' = if (cls' =? cls)%nat then hlist hs cls ++ [(hid, data)] else hlist hs cls'.
Proof.
  unfold hlist. induction hs as [|[c l] r IH]; cbn [add_handler].
  - cbn [find fst option_map snd]. rewrite (Nat.eqb_sym cls cls'). destruct (cls' =? cls)%nat; reflexivity.
  - destruct (c =? cls)%nat eqn:E.
    + apply Nat.eqb_eq in E. subst c. cbn [find fst]. rewrite Nat.eqb_refl. cbn [option_map snd].
      rewrite (Nat.eqb_sym cls cls'). destruct (cls' =? cls)%nat; reflexivity.
    + cbn [find fst]. rewrite E. destruct (c =? cls')%nat eqn:E2; cbn [option_map snd].
      * apply Nat.eqb_eq in E2. subst c. rewrite E. reflexivity.
      * exact IH.
Qed.
Lemma HsOK_add_ready k hs : HsOK k hs -> HsOK (S k) (add_handler hs CLS_READY (H_READY k) 0).
Proof.
  intros (H1 & H2 & H3 & H4 & H5). unfold HsOK. rewrite !hlist_add. cbn [Nat.eqb CLS_RENDER CLS_CLOSE CLS_RECEIVED CLS_READY].
  repeat split; auto.
  - rewrite H4, (seq_S k 0), map_app. reflexivity.
  - intros cls C. rewrite hlist_add. destruct (cls =? CLS_READY)%nat eqn:E; [|apply H5, C].
    apply Nat.eqb_eq in E. unfold CLS_READY in E. lia.
Qed.
Lemma HsOK_add_custom k hs cls hid data : HsOK k hs -> (cls = 0 \/ 5 <= cls) -> 3 <= hid < 10 -> HsOK k (add_handler hs cls hid data).
Proof.
  intros (H1 & H2 & H3 & H4 & H5) C Hh. unfold HsOK. rewrite !hlist_add.
  assert (E : forall c, 1 <= c < 5 -> (c =? cls)%nat = false) by (intros c L; apply Nat.eqb_neq; lia).
  rewrite !E by (unfold CLS_RENDER, CLS_CLOSE, CLS_RECEIVED, CLS_READY; lia).
  repeat split; auto. intros cls' C'. rewrite hlist_add. destruct (cls' =? cls)%nat; [|apply H5, C'].
  apply Forall_app. split; [apply H5; exact C|]. constructor; [exact Hh|constructor].
Qed.

Definition en_of (d : sdata) : ScreenMon.entry :=
  {| en_id := sd_id d; en_scr := sd_scr d; en_args := sd_args d; en_modal := sd_modal d |}.
Definition isready (sg : signal) : bool := (sg_cls sg =? CLS_READY)%nat.
Definition isrecv (sg : signal) : bool := (sg_cls sg =? CLS_RECEIVED)%nat.
Definition triple (sg : signal) : nat * bool * str := (sg_a sg, sg_b sg, sg_data sg).
Definition hid_of (x : nat * bool * str) : nat := fst (fst x).

(* when every request has a fresh handler: handlers that got their ready signal are gone for good; the handlers of the
   hand-off list and of the request stack are pairwise distinct *)
Record FreshInv (recv : list nat) (hand : list (nat * bool * str)) (ist : list nat) (len : nat) : Prop := {
  f_recv : forall n, mem n recv = true -> n < len /\ ~ In n ist /\ ~ In n (map hid_of hand);
  f_hand_nd : NoDup (map hid_of hand);
  f_hand_lt : forall x, In x hand -> hid_of x < len /\ ~ In (hid_of x) ist;
  f_ist_nd : NoDup ist;
  f_ist_lt : forall n, In n ist -> n < len }.

Lemma FreshInv_len r h i len len' : len <= len' -> FreshInv r h i len -> FreshInv r h i len'.
Proof.
  intros L [A B C D E]. constructor; auto.
  - intros n M. destruct (A n M) as (X & Y & Z). repeat split; auto; lia.
  - intros x I. destruct (C x I). split; auto; lia.
  - intros n I. specialize (E n I). lia.
Qed.

Lemma FreshInv_handoff r h top rest len (ln : str) : FreshInv r h (top :: rest) len ->
  FreshInv r (h ++ (top, true, ln) :: map (fun x : nat => (x, false, [])) (rev rest)) [] len.
Proof.
  intros [A B C D E].
  assert (TNI : ~ In top rest) by (inversion D; assumption).
  assert (RND : NoDup rest) by (inversion D; assumption).
  assert (DISJ : forall x, In x (top :: rest) -> ~ In x (map hid_of h)).
  { intros x I J. apply in_map_iff in J. destruct J as (y & Ey & J). destruct (C y J) as [_ K]. apply K. rewrite Ey. exact I. }
  assert (IDS : map hid_of (h ++ (top, true, ln) :: map (fun x : nat => (x, false, [])) (rev rest)) = map hid_of h ++ top :: rev rest).
  { rewrite map_app. cbn [map hid_of fst]. rewrite map_map. cbn [hid_of fst]. rewrite map_id. reflexivity. }
  constructor.
  - intros n M. destruct (A n M) as (X & Y & Z). split; [exact X|]. split; [intros []|]. rewrite IDS.
    intros I. apply in_app_or in I. destruct I as [I|[<-|I]]; [auto|apply Y; left; reflexivity|].
    rewrite <- in_rev in I. apply Y. right. exact I.
  - rewrite IDS. apply nodup_app; [exact B| |].
    + constructor; [rewrite <- in_rev; exact TNI|]. apply NoDup_rev. exact RND.
    + intros x I [<-|J]; [apply (DISJ top); [left; reflexivity|exact I]|]. rewrite <- in_rev in J. apply (DISJ x); [right; exact J|exact I].
  - intros x I. split; [|auto]. apply in_app_or in I. destruct I as [I|[<-|I]].
    + apply C, I.
    + apply E. left. reflexivity.
    + apply in_map_iff in I. destruct I as (y & <- & I). rewrite <- in_rev in I. apply E. right. exact I.
  - constructor.
  - intros ? [].
Qed.

Lemma PSub_handoff {A} (old hand : list A) (x : A) (m m' : list A) :
  PSub old hand -> Permutation m m' -> PSub (m' ++ x :: old) (hand ++ x :: m).
Proof.
  intros [r P] PM. exists r.
  replace ((m' ++ x :: old) ++ r) with (m' ++ x :: (old ++ r)) by (rewrite <- app_assoc; reflexivity).
  eapply perm_trans; [apply Permutation_app_comm|]. cbn [app].
  eapply perm_trans; [|apply Permutation_middle]. apply perm_skip.
  apply Permutation_app; [exact PM|exact P].
Qed.

Lemma FreshInv_new r h i len : FreshInv r h i len ->
  ~ In len i /\ ~ In len (map hid_of h) /\ mem len r = false.
Proof.
  intros [A B C D E]. repeat split.
  - intros I. specialize (E _ I). lia.
  - intros I. apply in_map_iff in I. destruct I as (x & X & I). destruct (C x I). lia.
  - destruct (mem len r) eqn:M; [|reflexivity]. destruct (A _ M). lia.
Qed.

Lemma FreshInv_push r h i len k : k < len -> ~ In k i -> ~ In k (map hid_of h) -> mem k r = false ->
  FreshInv r h i len -> FreshInv r h (k :: i) len.
Proof.
  intros KL KI KH KR [A B C D E]. constructor; auto.
  - intros n M. destruct (A n M) as (X & Y & Z). repeat split; auto. intros [<-|I]; [congruence|auto].
  - intros x I. destruct (C x I) as [X Y]. split; [exact X|]. intros [E1|I2]; [|auto]. apply KH. rewrite E1. apply in_map, I.
  - constructor; assumption.
  - intros n [<-|I]; auto.
Qed.

Lemma set_ust_same {U} (s : lstate U) : s <| ust := ust s |> = s.
Proof. destruct s; reflexivity. Qed.

Section Scr.
  Variable specs : nat -> screen_spec.
  Variable N : nat.
  Variable typed : list (option str).
  Variable quit : option nat.
  Variable nosep : list bool.
  Variable fresh : bool.
  Hypothesis Hwf : forall scr, spec_wf N fresh (specs scr) = true.
  Hypothesis Hquit : quit_wf N quit = true.
  Hypothesis Hnosep : forall scr, nth scr nosep false = sc_no_separator (specs scr).
  Notation lst := (lstate sstate).
  Implicit Types s : lst.
  Implicit Types Q : outcome -> lst -> Prop.

  Definition mchk := mchk_all fresh quit nosep.
  Definition acc s : Prop := sacc (chk_all fresh quit nosep) typed s.
  Notation MWs := (MW typed).

  Lemma acc_emit e s : acc (emit e s) <-> acc s /\ mchk (MWs s) e = true.
  Proof. unfold acc. rewrite sacc_emit. reflexivity. Qed.
  Lemma acc_trace s s' : trace s' = trace s -> acc s -> acc s'.
  Proof. apply sacc_trace. Qed.

  Record Core (m : mw) (u : sstate) (l : list signal) (ex : list sigspec) (hs : list (nat * list (nat * nat))) : Prop := {
    c_stack : m_stack m = map en_of (st_stack u);
    c_istack : m_istack m = st_istack u;
    c_proc : m_proc m = st_processing u;
    c_typed : m_typed m = st_typed u;
    c_err : forall scr, scr < N -> sc_prompt_none (specs scr) = false -> merr_of m scr = ss_err (scr_of u scr);
    c_cb_req : forall n, ih_cb (ih_of u n) = true ->
       alookup n (m_req m) = Some (ih_owner (ih_of u n), ih_args (ih_of u n)) /\ mem n (m_fired m) = false;
    c_cb_no : forall n, ih_cb (ih_of u n) = false -> alookup n (m_req m) = None \/ mem n (m_fired m) = true;
    c_req_lt : forall n, length (st_ih u) <= n -> alookup n (m_req m) = None /\ mem n (m_fired m) = false;
    c_owner : forall n, ih_cb (ih_of u n) = true ->
       ih_owner (ih_of u n) < N /\ sc_prompt_none (specs (ih_owner (ih_of u n))) = false;
    c_recv : forall n, ih_received (ih_of u n) = true -> mem n (m_recv m) = true;
    c_last : forall n, ih_received (ih_of u n) = true ->
       exists v, alookup n (m_last m) = Some (Some (ih_success (ih_of u n), v)) /\
                 (ih_success (ih_of u n) = true -> ih_value (ih_of u n) = Some v);
    c_fresh : fresh = true -> FreshInv (m_recv m) (m_hand m) (st_istack u) (length (st_ih u));
    c_sep : forall pa, m_prev m = Some (T_SEPARATOR, pa) -> sc_no_separator (specs (nth0 pa 0)) = false;
    c_quit : st_quit u = quit;
    c_nscr : length (st_scr u) = N;
    c_stk_wf : forall d, In d (st_stack u) -> sd_scr d < N;
    c_hs : HsOK (length (st_ih u)) hs;
    c_p_ready : PSub (map triple (filter isready l)) (m_hand m);
    c_p_recv : forall sg, In sg l -> sg_cls sg = CLS_RECEIVED -> sg_data sg = m_line m;
    c_e_recv : forall sp, In sp ex -> sp_cls sp = CLS_RECEIVED /\ sp_data sp = m_line m;
    c_fl_cnt : length (filter isrecv l) + length ex <= 1;
    c_fl_proc : length (filter isrecv l) + length ex = 1 -> st_processing u = true }.

  Lemma Core_sub m u l l' ex hs : PSub l l' -> Core m u l' ex hs -> Core m u l ex hs.
  Proof.
    intros S C. destruct C. constructor; auto.
    - eapply PSub_trans; [|exact c_p_ready0]. apply PSub_map, PSub_filter, S.
    - intros sg I. apply c_p_recv0. eapply PSub_in; eauto.
    - pose proof (PSub_length _ _ (PSub_filter isrecv _ _ S)). lia.
    - intros H. apply c_fl_proc0. pose proof (PSub_length _ _ (PSub_filter isrecv _ _ S)). lia.
  Qed.

  Definition Quiet (m : mw) : Prop :=
    (m_follow m = None \/ exists q, m_follow m = Some (FQuitBack q)) /\ m_must m = None.

  Definition Inv s : Prop :=
    acc s /\ qsok s /\ Core (MWs s) (ust s) (pendl s) (ext s) (handlers s) /\ Quiet (MWs s).
  Definition Dead s : Prop := acc s /\ Quiet (MWs s).
  Definition Keep (m : mw) (u : sstate) (s' : lst) : Prop :=
    m_follow (MWs s') = None \/ (m_follow (MWs s') = m_follow m /\ st_stack (ust s') = st_stack u).
  Definition Rk (s s' : lst) : Prop := Keep (MWs s) (ust s) s'.

  Record At (s : lst) (m : mw) (u : sstate) (l : list signal) (ex : list sigspec) (hs : list (nat * list (nat * nat))) : Prop := {
    at_m : MWs s = m; at_u : ust s = u; at_l : PSub (pendl s) l; at_e : ext s = ex; at_h : handlers s = hs;
    at_q : qsok s; at_a : acc s }.

  Lemma At_self s : Inv s -> At s (MWs s) (ust s) (pendl s) (ext s) (handlers s).
  Proof. intros (a & q & _ & _). constructor; auto. apply PSub_refl. Qed.
  Lemma At_Inv s m u l ex hs : At s m u l ex hs -> Core m u l ex hs -> Quiet m -> Inv s.
  Proof.
    intros [Hm Hu Hl He Hh Hq Ha] C Qt. subst. split; [auto|split; [auto|split; [eapply Core_sub; eauto|exact Qt]]].
  Qed.

  (* ------------------------------------------------------------ rules on views *)
  Definition SigPre (sg : signal) (idx : nat) (s : lst) : Prop :=
    (sg_cls sg = CLS_READY -> idx <= sg_a sg ->
       PSub (triple sg :: map triple (filter isready (pendl s))) (m_hand (MWs s))) /\
    (sg_cls sg = CLS_RECEIVED -> idx = 0 ->
       sg_data sg = m_line (MWs s) /\ filter isrecv (pendl s) = [] /\ ext s = []).
  Definition okspec (sp : sigspec) : Prop := sp_cls sp <> CLS_READY /\ sp_cls sp <> CLS_RECEIVED.

  Notation W := (wpS (screen_code specs) acc Dead).
  Notation SP := (Spec (screen_code specs) acc Dead Inv Rk SigPre okspec).

  Lemma a_rd n (f : sstate -> sprog) Q s m u l ex hs : At s m u l ex hs -> W n (f u) Q s -> W n (rd f) Q s.
  Proof.
    intros H HW. unfold rd. apply wpS_st; [apply (at_a _ _ _ _ _ _ H)|]. cbn [fst snd].
    rewrite set_ust_same. rewrite (at_u _ _ _ _ _ _ H). exact HW.
  Qed.

  Lemma At_wr s m u l ex hs (g : sstate -> sstate) : At s m u l ex hs -> At (s <| ust := g (ust s) |>) m (g u) l ex hs.
  Proof.
    intros [Hm Hu Hl He Hh Hq Ha]. constructor; [| | exact Hl | exact He | exact Hh | exact Hq |].
    - rewrite <- Hm. apply MW_trace. reflexivity.
    - cbn. congruence.
    - eapply acc_trace; [|exact Ha]. reflexivity.
  Qed.

  Lemma a_wr n (g : sstate -> sstate) Q s m u l ex hs :
    At s m u l ex hs -> (forall s', At s' m (g u) l ex hs -> Q ONormal s') -> W n (wr g) Q s.
  Proof.
    intros H HQ. unfold wr. apply wpS_st; [apply (at_a _ _ _ _ _ _ H)|]. cbn [fst snd].
    pose proof (At_wr _ _ _ _ _ _ g H) as H'.
    apply wpS_ret; [apply (at_a _ _ _ _ _ _ H')|]. apply HQ, H'.
  Qed.

  Lemma At_same s s' m u l ex hs : At s m u l ex hs ->
    trace s' = trace s -> ust s' = ust s -> ext s' = ext s -> handlers s' = handlers s -> qstore s' = qstore s ->
    At s' m u l ex hs.
  Proof.
    intros [Hm Hu Hl He Hh Hq Ha] T U1 E H Qs. constructor.
    - rewrite <- Hm. apply MW_trace, T.
    - congruence.
    - unfold pendl. rewrite Qs. exact Hl.
    - congruence.
    - congruence.
    - unfold qsok. rewrite Qs. exact Hq.
    - eapply acc_trace; eauto.
  Qed.

  Lemma At_emit s m u l ex hs e : At s m u l ex hs -> mchk m e = true -> At (emit e s) (mstep m e) u l ex hs.
  Proof.
    intros [Hm Hu Hl He Hh Hq Ha] C. constructor; [| exact Hu | exact Hl | exact He | exact Hh | exact Hq |].
    - rewrite MW_emit. congruence.
    - apply acc_emit. split; [exact Ha|]. rewrite Hm. exact C.
  Qed.

  Lemma a_ev n tag a t Q s m u l ex hs :
    At s m u l ex hs -> mchk m (EUser tag a t) = true ->
    (forall s', At s' (muser m tag a t) u l ex hs -> Q ONormal s') -> W n (evt tag a t) Q s.
  Proof.
    intros H C HQ. unfold evt.
    pose proof (At_emit _ _ _ _ _ _ (EUser tag a t) H C) as H'.
    apply wpS_emit; [apply (at_a _ _ _ _ _ _ H)|apply (at_a _ _ _ _ _ _ H')|]. apply HQ, H'.
  Qed.

  (* enqueue_signal(Signal(...)) *)
  Definition m_signew (m : mw) (sp : sigspec) : mw := mstep m (ESigNew 0 (sp_cls sp) (sp_prio sp) (sp_src sp)).
  Definition m_enq (m : mw) (sp : sigspec) : mw := mstep (m_signew m sp) (EDropped 0).
  Definition c_enq (m : mw) (sp : sigspec) : bool :=
    mchk m (ESigNew 0 (sp_cls sp) (sp_prio sp) (sp_src sp)) && mchk (m_signew m sp) (EDropped 0).

  Lemma At_enq s m u l ex hs sp : At s m u l ex hs -> c_enq m sp = true ->
    At (do_enqueue (snd (new_signal s sp)) (fst (new_signal s sp))) (m_enq m sp) u (mk_signal (next_sig s) sp :: l) ex hs.
  Proof.
    intros H C. apply andb_true_iff in C. destruct C as [C1 C2].
    assert (H1 : At (snd (new_signal s sp)) (m_signew m sp) u l ex hs).
    { unfold new_signal. cbn [snd].
      assert (H0 : At (s <| next_sig := S (next_sig s) |>) m u l ex hs).
      { eapply At_same; [exact H|reflexivity..]. }
      apply (At_emit _ _ _ _ _ _ (ESigNew (next_sig s) (sp_cls sp) (sp_prio sp) (sp_src sp)) H0). exact C1. }
    set (s1 := snd (new_signal s sp)) in *. set (sg := fst (new_signal s sp)).
    assert (SG : sg = mk_signal (next_sig s) sp) by reflexivity.
    destruct (do_enqueue_facts s1 sg (at_q _ _ _ _ _ _ H1)) as (Eu & Ee & Eh & Eq & Ep & (e & Ee2 & Et)).
    destruct H1 as [at_m0 at_u0 at_l0 at_e0 at_h0 at_q0 at_a0]. constructor.
    - unfold MW, SW. rewrite Et. cbn [rev]. rewrite fold_left_app. cbn [fold_left].
      change (fold_left sworld_step (rev (trace s1)) (sworld0 typed)) with (SW typed s1).
      rewrite abs_step. change (absw (SW typed s1)) with (MWs s1). rewrite at_m0.
      destruct Ee2 as [->|[q ->]]; reflexivity.
    - congruence.
    - rewrite <- SG. eapply PSub_trans; [exact Ep|]. destruct at_l0 as [r Pr]. exists r. cbn. apply perm_skip, Pr.
    - congruence.
    - congruence.
    - exact Eq.
    - unfold acc, sacc. rewrite Et. cbn [rev]. apply sok_snoc. split; [exact at_a0|].
      change (fold_left sworld_step (rev (trace s1)) (sworld0 typed)) with (SW typed s1).
      unfold chk_all. change (absw (SW typed s1)) with (MWs s1). rewrite at_m0.
      destruct Ee2 as [->|[q ->]]; exact C2.
  Qed.

  Lemma a_enq n sp Q s m u l ex hs :
    At s m u l ex hs -> c_enq m sp = true ->
    (forall s' id, At s' (m_enq m sp) u (mk_signal id sp :: l) ex hs -> Q ONormal s') -> W n (PApi (AEnqueue sp)) Q s.
  Proof.
    intros H C HQ. eapply wpS_api_exact; [reflexivity|apply (at_a _ _ _ _ _ _ H)|].
    eapply HQ. apply At_enq; eassumption.
  Qed.

  Lemma a_reg_source n o Q s m u l ex hs :
    At s m u l ex hs -> mchk m (ERegSource 0 0) = true ->
    (forall s', At s' m u l ex hs -> Q ONormal s') -> W n (PApi (ARegSource o)) Q s.
  Proof.
    intros H C HQ. eapply wpS_api_exact; [reflexivity|apply (at_a _ _ _ _ _ _ H)|]. apply HQ.
    destruct (qok_add_source (get_q s (active s)) o (qok_nth s (active s) (at_q _ _ _ _ _ _ H))) as [K E].
    assert (H0 : At (set_q s (active s) (q_add_source (get_q s (active s)) o)) m u l ex hs).
    { destruct H as [Hm Hu Hl He Hh Hq Ha]. constructor; [exact Hm|exact Hu| |exact He|exact Hh| |exact Ha].
      - eapply PSub_perm; [apply Permutation_sym, pendl_set_q_same; rewrite E; apply Permutation_refl|exact Hl].
      - apply qsok_set_q; assumption. }
    apply (At_emit _ _ _ _ _ _ (ERegSource o (active s)) H0). exact C.
  Qed.

  Lemma a_reg_handler n cls hid data Q s m u l ex hs :
    At s m u l ex hs -> mchk m (ERegHandler 0 0 0) = true ->
    (forall s', At s' m u l ex (add_handler hs cls hid data) -> Q ONormal s') -> W n (PApi (ARegHandler cls hid data)) Q s.
  Proof.
    intros H C HQ. eapply wpS_api_exact; [reflexivity|apply (at_a _ _ _ _ _ _ H)|]. apply HQ.
    assert (H0 : At (s <| handlers := add_handler (handlers s) cls hid data |>) m u l ex (add_handler hs cls hid data)).
    { destruct H as [Hm Hu Hl He Hh Hq Ha]. constructor; [|exact Hu|exact Hl|exact He| |exact Hq|].
      - rewrite <- Hm. apply MW_trace. reflexivity.
      - cbn. congruence. - eapply acc_trace; [|exact Ha]. reflexivity. }
    apply (At_emit _ _ _ _ _ _ (ERegHandler cls hid data) H0). exact C.
  Qed.

  Lemma a_force_quit n Q s m u l ex hs :
    At s m u l ex hs -> mchk m EForceQuit = true ->
    (forall s', At s' m u l ex hs -> Q ONormal s') -> W n (PApi AForceQuit) Q s.
  Proof.
    intros H C HQ. eapply wpS_api_exact; [reflexivity|apply (at_a _ _ _ _ _ _ H)|]. apply HQ.
    apply (At_emit _ _ _ _ _ _ EForceQuit); [|exact C].
    eapply At_same; [exact H|reflexivity..].
  Qed.

  Lemma a_ext_add n sp Q s m u l ex hs :
    At s m u l ex hs -> (forall s', At s' m u l (ex ++ [sp]) hs -> Q ONormal s') -> W n (PApi (AExtAdd sp)) Q s.
  Proof.
    intros H HQ. eapply wpS_api_exact; [reflexivity|apply (at_a _ _ _ _ _ _ H)|]. apply HQ.
    destruct H as [Hm Hu Hl He Hh Hq Ha]. constructor; [|exact Hu|exact Hl| |exact Hh|exact Hq|].
    - rewrite <- Hm. apply MW_trace. reflexivity. - cbn. congruence.
    - eapply acc_trace; [|exact Ha]. reflexivity.
  Qed.

  Lemma a_rec n a Q s m u l ex hs :
    SP n -> At s m u l ex hs -> Core m u l ex hs -> Quiet m -> lcall (U:=sstate) okspec (CApi a) ->
    (forall o s', Inv s' -> Keep m u s' -> Q o s') -> W n (PApi a) Q s.
  Proof.
    intros HS H C Qt LC HQ.
    eapply wpS_api_rec; [exact HS|exact LC|eapply At_Inv; eauto|apply (at_a _ _ _ _ _ _ H)|].
    intros o s' [HI HR]. apply HQ; [exact HI|]. unfold Rk in HR. rewrite (at_m _ _ _ _ _ _ H), (at_u _ _ _ _ _ _ H) in HR. exact HR.
  Qed.

  Lemma a_ret n Q s m u l ex hs : At s m u l ex hs -> Q ONormal s -> W n PRet Q s.
  Proof. intros H HQ. apply wpS_ret; [apply (at_a _ _ _ _ _ _ H)|exact HQ]. Qed.
  Lemma a_throw n e Q s m u l ex hs : At s m u l ex hs -> res acc Dead Q (OThrow e) s -> W n (PThrow e) Q s.
  Proof. intros H HQ. apply wpS_throw; [apply (at_a _ _ _ _ _ _ H)|exact HQ]. Qed.

  Lemma Inv_open s : Inv s -> exists m u l ex hs, At s m u l ex hs /\ Core m u l ex hs /\ Quiet m.
  Proof. intros HI. exists (MWs s), (ust s), (pendl s), (ext s), (handlers s). split; [apply At_self, HI|]. destruct HI as (_ & _ & C & Qt). auto. Qed.

  (* "Inv-triples": the method keeps the invariant, whatever way it ends *)
  Definition IT (p : sprog) : Prop :=
    forall n Q s, SP n -> Inv s -> (forall o s', Inv s' -> Q o s') -> W n p Q s.

  Lemma IT_seq p q : IT p -> IT q -> IT (p ;; q).
  Proof.
    intros Hp Hq n Q s HS HI HQ. apply wpS_seq. apply Hp; [exact HS|exact HI|].
    intros o s' HI'. destruct o; try (apply HQ; exact HI'). apply Hq; auto.
  Qed.
  Lemma IT_ret : IT PRet.
  Proof. intros n Q s HS HI HQ. apply wpS_ret; [apply HI|apply HQ, HI]. Qed.
  Lemma IT_throw e : IT (PThrow e).
  Proof.
    intros n Q s HS HI HQ. apply wpS_throw; [apply HI|]. destruct e; cbn; try (apply HQ, HI).
    split; [apply HI|apply HI].
  Qed.
  Lemma IT_try p h : IT p -> IT h -> IT (PTry p h).
  Proof.
    intros Hp Hh n Q s HS HI HQ. apply wpS_try. apply Hp; [exact HS|exact HI|].
    intros o s' HI'. destruct o as [|[| |]| |]; try (apply HQ; exact HI'). apply Hh; auto.
  Qed.
  Lemma IT_rd (f : sstate -> sprog) : (forall u, IT (f u)) -> IT (rd f).
  Proof.
    intros Hf n Q s HS HI HQ. eapply a_rd; [apply At_self, HI|]. apply Hf; auto.
  Qed.

  Ltac open_inv HI :=
    let m := fresh "m" in
    destruct (Inv_open _ HI) as (m & u & l & ex & hs & HAt & HC & HQt);
    destruct m as [mstk mreq mty mln mist mpr mhd mrc mfi mmu mer mfo mpv mls];
    destruct HQt as [HQf HQm]; cbn in HQf, HQm; subst mmu;
    pose proof HC as HC0;
    destruct HC0 as [c_stack0 c_istack0 c_proc0 c_typed0 c_err0 c_cb_req0 c_cb_no0 c_req_lt0 c_owner0 c_recv0 c_last0 c_fresh0 c_sep0 c_quit0
                    c_nscr0 c_stk_wf0 c_hs0 c_p_ready0 c_p_recv0 c_e_recv0 c_fl_cnt0 c_fl_proc0];
    cbn [m_stack m_req m_typed m_line m_istack m_proc m_hand m_recv m_fired m_must m_err m_follow m_prev m_last] in *; unfold merr_of, ih_of, scr_of in *; cbn [m_err] in *.

  Lemma Core_cons_other m u l ex hs sg : sg_cls sg <> CLS_READY -> sg_cls sg <> CLS_RECEIVED ->
    Core m u l ex hs -> Core m u (sg :: l) ex hs.
  Proof.
    intros N1 N2 C. destruct C. constructor; auto.
    - cbn [filter]. unfold isready at 1. destruct (sg_cls sg =? CLS_READY)%nat eqn:E; [apply Nat.eqb_eq in E; contradiction|auto].
    - intros sg' [<-|I] E; [contradiction|auto].
    - cbn [filter]. unfold isrecv at 1. destruct (sg_cls sg =? CLS_RECEIVED)%nat eqn:E; [apply Nat.eqb_eq in E; contradiction|auto].
    - cbn [filter]. unfold isrecv at 1. destruct (sg_cls sg =? CLS_RECEIVED)%nat eqn:E; [apply Nat.eqb_eq in E; contradiction|auto].
  Qed.

  Lemma IT_sched_redraw : IT sched_redraw.
  Proof.
    intros n Q s HS HI HQ. open_inv HI. unfold sched_redraw.
    eapply a_enq; [exact HAt| |intros s' id HAt'].
    - destruct HQf as [->|[qq ->]]; reflexivity.
    - apply HQ. eapply At_Inv; [exact HAt'| |].
      + apply Core_cons_other; [discriminate|discriminate|].
        destruct HQf as [->|[qq ->]]; exact HC.
      + destruct HQf as [->|[qq ->]]; split; cbn; eauto.
  Qed.

  Lemma scr_of_upd_scr k f u scr :
    scr_of (upd_scr k f u) scr = if (scr =? k)%nat && (k <? length (st_scr u))%nat then f (scr_of u scr) else scr_of u scr.
  Proof.
    unfold scr_of, upd_scr. cbn [st_scr set].
    destruct (scr =? k)%nat eqn:E; cbn [andb].
    - apply Nat.eqb_eq in E. subst k. destruct (scr <? length (st_scr u))%nat eqn:L.
      + apply Nat.ltb_lt in L. apply nth_upd_nth_eq, L.
      + apply Nat.ltb_ge in L. rewrite upd_nth_out by exact L. reflexivity.
    - apply Nat.eqb_neq in E. apply nth_upd_nth_neq. auto.
  Qed.

  Ltac mnorm H :=
    lazymatch type of H with
    | At ?s ?m ?u ?l ?ex ?hs =>
      let m' := eval cbn in (Build_mw (m_stack m) (m_req m) (m_typed m) (m_line m) (m_istack m) (m_proc m) (m_hand m)
                                      (m_recv m) (m_fired m) (m_must m) (m_err m) (m_follow m) (m_prev m) (m_last m)) in
      change (At s m' u l ex hs) in H
    end.
  Ltac mproj := cbn [m_stack m_req m_typed m_line m_istack m_proc m_hand m_recv m_fired m_must m_err m_follow m_prev m_last];
                unfold merr_of; cbn [m_err].

  Ltac chk_side HQf := first [reflexivity | destruct HQf as [->|[? ->]]; reflexivity].

  Ltac step HAt :=
    lazymatch goal with
    | |- wpS _ _ _ _ (PSeq _ _) _ _ => apply wpS_seq
    | |- wpS _ _ _ _ (rd _) _ _ => eapply a_rd; [exact HAt|]; cbv beta
    | |- wpS _ _ _ _ (wr _) _ _ =>
      let s' := fresh "s" in let H' := fresh "HAt" in
      eapply a_wr; [exact HAt|]; intros s' H'; cbv beta in H'; cbv beta iota; clear HAt; rename H' into HAt
    | |- wpS _ _ _ _ (ev _ _) _ _ =>
      let s' := fresh "s" in let H' := fresh "HAt" in
      eapply a_ev; [exact HAt| |intros s' H'; mnorm H'; cbv beta iota; clear HAt; rename H' into HAt]
    | |- wpS _ _ _ _ (evt _ _ _) _ _ =>
      let s' := fresh "s" in let H' := fresh "HAt" in
      eapply a_ev; [exact HAt| |intros s' H'; mnorm H'; cbv beta iota; clear HAt; rename H' into HAt]
    | |- wpS _ _ _ _ (PApi (AEnqueue _)) _ _ =>
      let s' := fresh "s" in let H' := fresh "HAt" in let id := fresh "id" in
      eapply a_enq; [exact HAt| |intros s' id H'; mnorm H'; cbv beta iota; clear HAt; rename H' into HAt]
    | |- wpS _ _ _ _ (PApi (ARegSource _)) _ _ =>
      let s' := fresh "s" in let H' := fresh "HAt" in
      eapply a_reg_source; [exact HAt| |intros s' H'; cbv beta iota; clear HAt; rename H' into HAt]
    | |- wpS _ _ _ _ (PApi (ARegHandler _ _ _)) _ _ =>
      let s' := fresh "s" in let H' := fresh "HAt" in
      eapply a_reg_handler; [exact HAt| |intros s' H'; cbv beta iota; clear HAt; rename H' into HAt]
    | |- wpS _ _ _ _ (PApi AForceQuit) _ _ =>
      let s' := fresh "s" in let H' := fresh "HAt" in
      eapply a_force_quit; [exact HAt| |intros s' H'; cbv beta iota; clear HAt; rename H' into HAt]
    | |- wpS _ _ _ _ (PApi (AExtAdd _)) _ _ =>
      let s' := fresh "s" in let H' := fresh "HAt" in
      eapply a_ext_add; [exact HAt|intros s' H'; cbv beta iota; clear HAt; rename H' into HAt]
    | |- wpS _ _ _ _ PRet _ _ => eapply a_ret; [exact HAt|]
    end.
  Ltac steps HAt HQf := repeat (step HAt; [chk_side HQf|..] || step HAt).

  Ltac core_auto := constructor; mproj; auto.
  Ltac quiet_auto HQf := first [split; cbn; now eauto | destruct HQf as [->|[? ->]]; split; cbn; now eauto].

  Ltac core_auto ::= constructor; mproj; auto; cbn; auto; try (intros ? E; discriminate E).

  Lemma wf_ok (sc : nat) : (sc <? N)%nat = true -> sc < N.
  Proof. apply Nat.ltb_lt. Qed.

  Lemma IT_enq_other sp : sp_cls sp <> CLS_READY -> sp_cls sp <> CLS_RECEIVED -> IT (PApi (AEnqueue sp)).
  Proof.
    intros N1 N2 n Q s HS HI HQ. open_inv HI.
    eapply a_enq; [exact HAt| |intros s' id HAt'].
    - destruct HQf as [->|[qq ->]]; reflexivity.
    - apply HQ. eapply At_Inv; [exact HAt'| |].
      + apply Core_cons_other; [exact N1|exact N2|].
        destruct HQf as [->|[qq ->]]; exact HC.
      + destruct HQf as [->|[qq ->]]; split; cbn; eauto.
  Qed.

  (* events that only change "previous event" (and end a pending quit-dialog tracking) *)
  Definition plain_tag (t : nat) : bool :=
    (t =? T_SETUP)%nat || (t =? T_SETUP_BEGIN)%nat || (t =? T_REFRESH)%nat || (t =? T_CLOSED)%nat || (t =? T_MARK)%nat || (t =? T_ASK)%nat || (t =? T_OP)%nat || (t =? T_CUSTOM)%nat.
  Lemma IT_ev_plain tag a : plain_tag tag = true -> IT (ev tag a).
  Proof.
    intros P n Q s HS HI HQ. open_inv HI. unfold plain_tag in P.
    repeat (apply orb_true_iff in P; destruct P as [P|P]); apply Nat.eqb_eq in P; subst tag.
    all: step HAt; [chk_side HQf|]; apply HQ; (eapply At_Inv; [exact HAt| |quiet_auto HQf]); core_auto.
  Qed.

  Lemma IT_push (sc a : nat) : scmd_wf N fresh (SPush sc a) = true -> forall cn self cnt, IT (do_scmd specs cn self cnt (SPush sc a)).
  Proof.
    intros WF cn self cnt n Q s0 HS HI HQ. open_inv HI. cbn [do_scmd]. unfold new_sd, ev_stack.
    cbn [scmd_wf] in WF. apply wf_ok in WF. rename WF into WF1.
    steps HAt HQf.
    apply IT_sched_redraw; [exact HS| |exact HQ].
    eapply At_Inv; [exact HAt| |quiet_auto HQf].
    core_auto.
    - rewrite c_stack0. reflexivity.
    - intros d [<-|I]; [cbn; auto|auto].
  Qed.

  Lemma IT_wr_first : IT (wr (fun u => u <| st_first := true |>)).
  Proof. intros n Q s HS HI HQ. open_inv HI. step HAt. apply HQ. eapply At_Inv; [exact HAt|core_auto|quiet_auto HQf]. Qed.

  Lemma IT_schedule (sc a : nat) : scmd_wf N fresh (SSchedule sc a) = true -> forall cn self cnt, IT (do_scmd specs cn self cnt (SSchedule sc a)).
  Proof.
    intros WF cn self cnt n Q s0 HS HI HQ. open_inv HI. cbn [do_scmd]. unfold new_sd, ev_stack.
    cbn [scmd_wf] in WF. apply wf_ok in WF. rename WF into WF1.
    steps HAt HQf.
    assert (HI' : Inv s3).
    { eapply At_Inv; [exact HAt| |quiet_auto HQf]. core_auto.
      - rewrite c_stack0, map_app. reflexivity.
      - intros d I. apply in_app_or in I. destruct I as [I|[<-|[]]]; [auto|cbn; auto]. }
    clear HAt. match goal with |- context [if ?c then _ else _] => destruct c end; [apply IT_ret; auto|].
    apply IT_seq; [apply IT_sched_redraw|apply IT_wr_first|exact HS|exact HI'|exact HQ].
  Qed.

  Ltac finish_inv HAt HQf := eapply At_Inv; [exact HAt| core_auto | quiet_auto HQf].

  Lemma b2n_eqb b : (b2n b =? 1)%nat = b.
  Proof. destruct b; reflexivity. Qed.

  Lemma IT_replace (sc a : nat) : scmd_wf N fresh (SReplace sc a) = true -> forall cn self cnt, IT (do_scmd specs cn self cnt (SReplace sc a)).
  Proof.
    intros WF cn self cnt n Q s0 HS HI HQ. open_inv HI. cbn [do_scmd]. unfold new_sd, ev_stack.
    cbn [scmd_wf] in WF. apply wf_ok in WF. rename WF into WF1.
    steps HAt HQf.
    destruct (st_stack u) as [|top r] eqn:ES.
    - apply IT_throw; [exact HS| |exact HQ]. finish_inv HAt HQf; rewrite ?ES; auto.
    - steps HAt HQf.
      apply IT_sched_redraw; [exact HS| |exact HQ].
      eapply At_Inv; [exact HAt| |quiet_auto HQf].
      core_auto.
      + rewrite c_stack0. unfold mk_entry, nth0. cbn [nth map tl]. rewrite b2n_eqb. reflexivity.
      + intros d [<-|I]; [cbn; auto|apply c_stk_wf0; right; exact I].
  Qed.

  Lemma ih_of_upd_ih k f u j :
    ih_of (upd_ih k f u) j = if (j =? k)%nat && (k <? length (st_ih u))%nat then f (ih_of u j) else ih_of u j.
  Proof.
    unfold ih_of, upd_ih. cbn [st_ih set].
    destruct (j =? k)%nat eqn:E; cbn [andb].
    - apply Nat.eqb_eq in E. subst k. destruct (j <? length (st_ih u))%nat eqn:L.
      + apply Nat.ltb_lt in L. apply nth_upd_nth_eq, L.
      + apply Nat.ltb_ge in L. rewrite upd_nth_out by exact L. reflexivity.
    - apply Nat.eqb_neq in E. apply nth_upd_nth_neq. auto.
  Qed.
  Lemma len_upd_ih k f u : length (st_ih (upd_ih k f u)) = length (st_ih u).
  Proof. unfold upd_ih. cbn [st_ih set]. apply upd_nth_length. Qed.

  Lemma chk_refused_ok (k : nat) (ist : list nat) : ist <> [] ->
    negb (length ist =? 0)%nat && (length (rev (k :: ist)) =? S (length ist))%nat &&
    forallb (fun p => (fst p =? snd p)%nat) (combine (removelast (rev (k :: ist))) (rev ist)) = true.
  Proof.
    intros NE. destruct ist as [|x r]; [contradiction|]. cbn [length Nat.eqb negb andb].
    rewrite rev_length. cbn [length]. rewrite Nat.eqb_refl. cbn [andb].
    change (rev (k :: x :: r)) with (rev (x :: r) ++ [k]). rewrite removelast_last.
    induction (rev (x :: r)) as [|y t IH]; cbn; [reflexivity|]. rewrite Nat.eqb_refl. exact IH.
  Qed.

  Lemma filter_nil_in {A} (f : A -> bool) l x : filter f l = [] -> In x l -> f x = false.
  Proof.
    induction l as [|y r IH]; cbn; intros H I; [destruct I|]. destruct (f y) eqn:E; [discriminate|].
    destruct I as [<-|I]; auto.
  Qed.

  Ltac simp_if := match goal with |- wpS _ _ _ _ (if ?c then _ else _) _ _ => let c' := eval cbn in c in change c with c' end.
  Ltac simp_match := match goal with |- wpS _ _ _ _ (match ?c with _ => _ end) _ _ => let c' := eval cbn in c in change c with c' end.
  Ltac seqs := repeat lazymatch goal with |- wpS _ _ _ _ (PSeq _ _) _ _ => apply wpS_seq end.

  (* InputHandler.get_input: _clear_input(), start_input_thread; when every request has a fresh handler (fresh = true)
     the handler must be one that never asked *)
  Lemma t_handler_get_input k skip nf Q s :
    SP nf -> Inv s ->
    (fresh = true -> k < length (st_ih (ust s)) /\ ~ In k (st_istack (ust s)) /\
                     ~ In k (map hid_of (m_hand (MWs s))) /\ mem k (m_recv (MWs s)) = false) ->
    (forall o s', Inv s' -> Q o s') -> W nf (handler_get_input k skip) Q s.
  Proof.
    intros HS HI KF HQ. open_inv HI.
    rewrite (at_u _ _ _ _ _ _ HAt), (at_m _ _ _ _ _ _ HAt) in KF. cbn [m_hand m_recv] in KF.
    assert (FR : fresh = true -> FreshInv mrc mhd (k :: st_istack u) (length (st_ih u))).
    { intros F. destruct (KF F) as (A & B & C & D). apply FreshInv_push; auto. }
    assert (LC : forall (lst : list (nat * option (bool * str))) j,
              (lst = mls \/ lst = (k, None) :: mls) ->
              ih_received (nth j (upd_nth (st_ih u) k (fun h => h <| ih_received := false |> <| ih_value := None |>))
                 {| ih_src := None; ih_owner := 0; ih_cb := false; ih_received := false; ih_success := false; ih_value := None; ih_args := 0 |}) = true ->
              exists v, alookup j lst = Some (Some (ih_success (nth j (upd_nth (st_ih u) k (fun h => h <| ih_received := false |> <| ih_value := None |>))
                 {| ih_src := None; ih_owner := 0; ih_cb := false; ih_received := false; ih_success := false; ih_value := None; ih_args := 0 |}), v)) /\
                (ih_success (nth j (upd_nth (st_ih u) k (fun h => h <| ih_received := false |> <| ih_value := None |>))
                 {| ih_src := None; ih_owner := 0; ih_cb := false; ih_received := false; ih_success := false; ih_value := None; ih_args := 0 |}) = true ->
                 ih_value (nth j (upd_nth (st_ih u) k (fun h => h <| ih_received := false |> <| ih_value := None |>))
                 {| ih_src := None; ih_owner := 0; ih_cb := false; ih_received := false; ih_success := false; ih_value := None; ih_args := 0 |}) = Some v)).
    { intros lst j HL. rewrite nth_upd_nth. destruct (j =? k)%nat eqn:EJ; cbn [andb].
      - destruct (k <? length (st_ih u))%nat eqn:LK; [cbn; discriminate|].
        apply Nat.eqb_eq in EJ. subst j. apply Nat.ltb_ge in LK. rewrite nth_overflow by exact LK. cbn. discriminate.
      - intros R. destruct (c_last0 j R) as (v & A & B). exists v. split; [|exact B].
        destruct HL as [->| ->]; [exact A|]. cbn [alookup]. rewrite EJ. exact A. }
    unfold handler_get_input, start_input_thread.
    steps HAt HQf. cbn [st_istack set upd_ih] in *.
    destruct (negb (length (k :: st_istack u) =? 1)%nat && negb skip) eqn:CND.
    - (* refused *)
      apply andb_true_iff in CND. destruct CND as [CND _]. apply negb_true_iff, Nat.eqb_neq in CND. cbn [length] in CND.
      assert (NE : st_istack u <> []) by (destruct (st_istack u); [cbn in CND; lia|discriminate]).
      seqs. step HAt.
      { unfold mchk, mchk_all. cbn [mchk17 mchk07 mchk18 mchk06 mchk_once T_REFUSED T_SHOW T_SEPARATOR T_READY T_INPUT T_PROMPT T_GOT T_WAITED Nat.eqb].
        mproj. rewrite c_istack0. rewrite (chk_refused_ok k _ NE).
        destruct HQf as [->|[? ->]]; reflexivity. }
      steps HAt HQf. eapply a_throw; [exact HAt|]. cbn. apply HQ.
      eapply At_Inv; [exact HAt| |quiet_auto HQf].
      core_auto; rewrite ?upd_nth_length; auto; try (intros j; rewrite nth_upd_nth; destruct ((j =? k)%nat && (k <? length (st_ih u))%nat); cbn; auto; discriminate);
          try (intros j; first [apply (LC ((k, None) :: mls)); right; reflexivity | apply (LC mls); left; reflexivity]).
    - (* accepted *)
      apply andb_false_iff in CND.
      seqs. step HAt. cbv beta iota. steps HAt HQf. simp_if.
      destruct (st_processing u) eqn:PR.
      + (* a reader is already running: only the prompt is printed again *)
        step HAt.
        { unfold mchk, mchk_all. cbn [mchk17 mchk07 mchk18 mchk06 mchk_once T_REFUSED T_SHOW T_SEPARATOR T_READY T_INPUT T_PROMPT T_GOT T_WAITED Nat.eqb nth0 nth].
          mproj. rewrite c_proc0. destruct HQf as [->|[? ->]]; reflexivity. }
        apply HQ. eapply At_Inv; [exact HAt| |quiet_auto HQf].
        core_auto; rewrite ?upd_nth_length; auto;
          try (intros j; rewrite nth_upd_nth; destruct ((j =? k)%nat && (k <? length (st_ih u))%nat); cbn; auto; discriminate);
          try (intros j; first [apply (LC ((k, None) :: mls)); right; reflexivity | apply (LC mls); left; reflexivity]).
        * congruence.
        * congruence.
      + (* start the reader thread *)
        assert (NOFL : filter isrecv l = [] /\ ex = []).
        { destruct (filter isrecv l) as [|x r] eqn:F1; destruct ex as [|y r2] eqn:F2; auto; exfalso.
          all: cbn [length] in c_fl_cnt0, c_fl_proc0; try lia.
          all: assert (X : st_processing u = true) by (apply c_fl_proc0; lia); congruence. }
        destruct NOFL as [NF1 NF2].
        steps HAt HQf. unfold start_thread. steps HAt HQf.
        { unfold mchk, mchk_all. cbn [mchk17 mchk07 mchk18 mchk06 mchk_once T_REFUSED T_SHOW T_SEPARATOR T_READY T_INPUT T_PROMPT T_GOT T_WAITED Nat.eqb nth0 nth].
          mproj. rewrite c_proc0. destruct HQf as [->|[? ->]]; reflexivity. }
        simp_match.
        destruct (st_typed u) as [|ln rest] eqn:TY.
        * step HAt. apply HQ. eapply At_Inv; [exact HAt| |quiet_auto HQf].
          core_auto; rewrite ?upd_nth_length; auto;
            try (intros j; rewrite nth_upd_nth; destruct ((j =? k)%nat && (k <? length (st_ih u))%nat); cbn; auto; discriminate);
          try (intros j; first [apply (LC ((k, None) :: mls)); right; reflexivity | apply (LC mls); left; reflexivity]).
          -- congruence.
          -- rewrite c_typed0, ?TY. reflexivity.
          -- intros sg I E. pose proof (filter_nil_in isrecv l sg NF1 I) as X. unfold isrecv in X. rewrite E in X. discriminate X.
          -- subst ex. intros sp [].
        * seqs. step HAt. simp_if. destruct (st_typeahead u).
          -- (* type-ahead: the reader thread's enqueue_signal(InputReceivedSignal) lands at once *)
             eapply a_enq; [exact HAt|chk_side HQf|]. intros s' id HAt'. clear HAt.
             match type of HAt' with At _ (m_enq ?M ?sp) _ _ _ _ =>
               assert (EM : m_enq M sp = M) by (destruct HQf as [->|[? ->]]; reflexivity); rewrite EM in HAt'; clear EM end.
             rename HAt' into HAt.
             apply HQ. eapply At_Inv; [exact HAt| |quiet_auto HQf].
             core_auto; rewrite ?upd_nth_length; auto;
               try (intros j; rewrite nth_upd_nth; destruct ((j =? k)%nat && (k <? length (st_ih u))%nat); cbn; auto; discriminate);
          try (intros j; first [apply (LC ((k, None) :: mls)); right; reflexivity | apply (LC mls); left; reflexivity]).
             ++ congruence.
             ++ rewrite c_typed0, ?TY. reflexivity.
             ++ intros sg [<-|I] E.
                ** cbn. rewrite c_typed0. destruct ln; reflexivity.
                ** pose proof (filter_nil_in isrecv l sg NF1 I) as X. unfold isrecv in X. rewrite E in X. discriminate X.
             ++ subst ex. intros sp [].
             ++ rewrite NF1. subst ex. cbn. lia.
          -- step HAt. apply HQ. eapply At_Inv; [exact HAt| |quiet_auto HQf].
             core_auto; rewrite ?upd_nth_length; auto;
               try (intros j; rewrite nth_upd_nth; destruct ((j =? k)%nat && (k <? length (st_ih u))%nat); cbn; auto; discriminate);
          try (intros j; first [apply (LC ((k, None) :: mls)); right; reflexivity | apply (LC mls); left; reflexivity]).
             ++ congruence.
             ++ rewrite c_typed0, ?TY. reflexivity.
             ++ intros sg I E. pose proof (filter_nil_in isrecv l sg NF1 I) as X. unfold isrecv in X. rewrite E in X. discriminate X.
             ++ subst ex. intros sp [<-|[]]. split; [reflexivity|]. rewrite c_typed0. destruct ln; reflexivity.
             ++ rewrite NF1. subst ex. cbn. lia.
  Qed.

  Definition reprompt_ok (m : mw) (scr args : nat) : Prop :=
    m_follow m = Some FReprompt /\ exists t r, m_stack m = t :: r /\ en_scr t = scr /\ en_args t = args.

  Ltac core_open HC :=
    let HC0 := fresh "HC0" in pose proof HC as HC0;
    destruct HC0 as [c_stack0 c_istack0 c_proc0 c_typed0 c_err0 c_cb_req0 c_cb_no0 c_req_lt0 c_owner0 c_recv0 c_last0 c_fresh0 c_sep0 c_quit0
                    c_nscr0 c_stk_wf0 c_hs0 c_p_ready0 c_p_recv0 c_e_recv0 c_fl_cnt0 c_fl_proc0];
    cbn [m_stack m_req m_typed m_line m_istack m_proc m_hand m_recv m_fired m_must m_err m_follow m_prev m_last] in *;
    unfold merr_of, ih_of, scr_of in *; cbn [m_err] in *.

  (* the rest of InputManager.get_input after the prompt was obtained (T_REQ) *)
  Lemma t_get_input_rest nf scr args Q s mstk mreq mty mln mist mpr mhd mrc mfi mer mfo mfo' mpv mls u l ex hs :
    SP nf ->
    At s {| m_stack := mstk; m_req := (length (st_ih u), (scr, args)) :: mreq; m_typed := mty; m_line := mln;
            m_istack := mist; m_proc := mpr; m_hand := mhd; m_recv := mrc; m_fired := mfi; m_must := None; m_err := mer;
            m_follow := mfo'; m_prev := Some (T_REQ, [scr; args; length (st_ih u)]); m_last := mls |} u l ex hs ->
    Core {| m_stack := mstk; m_req := mreq; m_typed := mty; m_line := mln;
            m_istack := mist; m_proc := mpr; m_hand := mhd; m_recv := mrc; m_fired := mfi; m_must := None; m_err := mer;
            m_follow := mfo; m_prev := mpv; m_last := mls |} u l ex hs ->
    (mfo' = None \/ exists q, mfo' = Some (FQuitBack q)) ->
    sc_prompt_none (specs scr) = false -> scr < N ->
    (forall o s', Inv s' -> Q o s') ->
    W nf (wr (upd_scr scr (fun x => x <| ss_input_args := args |>)) ;;
          new_input_handler (Some scr) scr true (fun n =>
            wr (upd_ih n (fun h => h <| ih_args := args |>)) ;; handler_get_input n (sc_skip_check (specs scr)))) Q s.
  Proof.
    intros HS HAt HC HQf PN SL HQ. core_open HC. unfold new_input_handler.
    steps HAt HQf.
    unfold upd_ih in HAt. cbn [st_ih set] in HAt. rewrite upd_nth_snoc in HAt. cbn [set ih_args] in HAt.
    apply t_handler_get_input; [exact HS| | |exact HQ].
    - eapply At_Inv; [exact HAt| |quiet_auto HQf].
      core_auto.
      + intros j L1 L2. rewrite nth_upd_nth. destruct ((j =? scr)%nat && (scr <? length (st_scr u))%nat); cbn; auto.
      + intros j. rewrite nth_snoc. destruct (j <? length (st_ih u))%nat eqn:L.
        * apply Nat.ltb_lt in L. assert (E : (j =? length (st_ih u))%nat = false) by (apply Nat.eqb_neq; lia). rewrite E. auto.
        * destruct (j =? length (st_ih u))%nat eqn:E; [|cbn; discriminate]. cbn. intros _. split; [reflexivity|].
          apply Nat.eqb_eq in E. subst j. apply c_req_lt0. lia.
      + intros j. rewrite nth_snoc. destruct (j <? length (st_ih u))%nat eqn:L.
        * apply Nat.ltb_lt in L. assert (E : (j =? length (st_ih u))%nat = false) by (apply Nat.eqb_neq; lia). rewrite E. auto.
        * apply Nat.ltb_ge in L. destruct (j =? length (st_ih u))%nat eqn:E; [cbn; discriminate|]. intros _. left. apply c_req_lt0. exact L.
      + intros j. rewrite app_length. cbn [length]. intros L.
        assert (E : (j =? length (st_ih u))%nat = false) by (apply Nat.eqb_neq; lia). rewrite E. apply c_req_lt0. lia.
      + intros j. rewrite nth_snoc. destruct (j <? length (st_ih u))%nat eqn:L; [auto|].
        destruct (j =? length (st_ih u))%nat eqn:E; [|cbn; discriminate]. cbn. auto.
      + intros j. rewrite nth_snoc. destruct (j <? length (st_ih u))%nat eqn:L; [auto|].
        destruct (j =? length (st_ih u))%nat eqn:E; cbn; discriminate.
      + intros j. rewrite nth_snoc. destruct (j <? length (st_ih u))%nat eqn:L; [auto|].
        destruct (j =? length (st_ih u))%nat eqn:E; cbn; discriminate.
      + intros F. rewrite app_length. apply (FreshInv_len _ _ _ (length (st_ih u))); [lia|auto].
      + rewrite upd_nth_length. exact c_nscr0.
      + rewrite app_length. cbn [length]. rewrite Nat.add_1_r. apply HsOK_add_ready, c_hs0.
    - intros F. rewrite (at_u _ _ _ _ _ _ HAt), (at_m _ _ _ _ _ _ HAt). cbn [st_ih st_istack set m_hand m_recv].
      destruct (FreshInv_new _ _ _ _ (c_fresh0 F)) as (A & B & C). rewrite app_length. cbn [length].
      split; [lia|]. split; [exact A|]. split; [exact B|exact C].
  Qed.


  Lemma IT_get_input scr args : scr < N -> IT (get_input specs scr args).
  Proof.
    intros SL n Q s HS HI HQ. open_inv HI. unfold get_input.
    destruct (sc_prompt_none (specs scr)) eqn:PN.
    - step HAt. apply HQ. eapply At_Inv; [exact HAt| |quiet_auto HQf].
      core_auto; rewrite ?upd_nth_length; auto.
      + intros j L1 L2. rewrite nth_upd_nth. destruct ((j =? scr)%nat && (scr <? length (st_scr u))%nat) eqn:C; [|auto].
        apply andb_true_iff in C. destruct C as [C _]. apply Nat.eqb_eq in C. subst j. congruence.
    - seqs. step HAt. step HAt; [chk_side HQf|].
      assert (FQ : match mfo with Some FReprompt => None | x => x end = None \/
                   exists q, match mfo with Some FReprompt => None | x => x end = Some (FQuitBack q)).
      { destruct HQf as [->|[q ->]]; eauto. }
      eapply t_get_input_rest; [exact HS| |exact HC|exact FQ|exact PN|exact SL|exact HQ].
      destruct HQf as [->|[q ->]]; exact HAt.
  Qed.

  Lemma t_got scr k n Q s : Inv s -> ih_received (ih_of (ust s) k) = true ->
    (forall o s', Inv s' -> Q o s') -> W n (ev T_GOT [scr; k]) Q s.
  Proof.
    intros HI C HQ. open_inv HI. rewrite (at_u _ _ _ _ _ _ HAt) in C.
    step HAt.
    { unfold mchk, mchk_all. cbn. unfold ih_of in C. pose proof (c_recv0 _ C) as X. unfold mem in X. rewrite X.
      destruct HQf as [->|[? ->]]; reflexivity. }
    apply HQ. finish_inv HAt HQf.
  Qed.

  Lemma IT_rec a : lcall (U:=sstate) okspec (CApi a) -> IT (PApi a).
  Proof.
    intros LC n Q s HS HI HQ. open_inv HI. eapply a_rec; [exact HS|exact HAt|exact HC|split; auto|exact LC|].
    intros o s' HI' _. apply HQ, HI'.
  Qed.

  Lemma IT_get_input_blocking scr : IT (get_input_blocking specs scr).
  Proof.
    intros n Q s HS HI HQ. open_inv HI. unfold get_input_blocking, new_input_handler.
    steps HAt HQf.
    apply t_handler_get_input; [exact HS| | |].
    - eapply At_Inv; [exact HAt| |quiet_auto HQf].
      core_auto.
      + intros j. rewrite nth_snoc. destruct (j <? length (st_ih u))%nat eqn:L; [auto|].
        destruct (j =? length (st_ih u))%nat eqn:E; cbn; discriminate.
      + intros j. rewrite nth_snoc. destruct (j <? length (st_ih u))%nat eqn:L; [auto|].
        apply Nat.ltb_ge in L. intros _. left. apply c_req_lt0. exact L.
      + intros j. rewrite app_length. cbn [length]. intros L. apply c_req_lt0. lia.
      + intros j. rewrite nth_snoc. destruct (j <? length (st_ih u))%nat eqn:L; [auto|].
        destruct (j =? length (st_ih u))%nat eqn:E; cbn; discriminate.
      + intros j. rewrite nth_snoc. destruct (j <? length (st_ih u))%nat eqn:L; [auto|].
        destruct (j =? length (st_ih u))%nat eqn:E; cbn; discriminate.
      + intros j. rewrite nth_snoc. destruct (j <? length (st_ih u))%nat eqn:L; [auto|].
        destruct (j =? length (st_ih u))%nat eqn:E; cbn; discriminate.
      + intros F. rewrite app_length. apply (FreshInv_len _ _ _ (length (st_ih u))); [lia|auto].
      + rewrite app_length. cbn [length]. rewrite Nat.add_1_r. apply HsOK_add_ready, c_hs0.
    - intros F. rewrite (at_u _ _ _ _ _ _ HAt), (at_m _ _ _ _ _ _ HAt). cbn [st_ih st_istack set m_hand m_recv].
      destruct (FreshInv_new _ _ _ _ (c_fresh0 F)) as (A & B & C). rewrite app_length. cbn [length].
      split; [lia|]. split; [exact A|]. split; [exact B|exact C].
    - set (k0 := length (st_ih u)) in *. clearbody k0.
      intros o s' HI'. destruct o; try (apply HQ; exact HI').
      apply wpS_seq.
      apply (wpS_while _ _ _ n _ _ _ Inv); [exact HI'|intros sa H1; apply H1| |].
      + intros sa HI1 C. apply negb_false_iff in C. apply t_got; [exact HI1|exact C|exact HQ].
      + intros sa HI1 C. apply IT_rec; [exact I|exact HS|exact HI1|].
        intros o sb HI2. destruct o; try (apply HQ; exact HI2). exact HI2.
  Qed.

  (* push_screen_modal after its T_OP: new entry, execute_new_loop, T_MODAL_RETURN *)
  Definition modal_body (sc a : nat) : sprog :=
    new_sd sc a true (fun d => wr (fun u => u <| st_stack := d :: st_stack u |>) ;; ev_stack K_APPEND d ;;
                               PApi (ANewLoop (render_spec None)) ;; ev T_MODAL_RETURN [sd_id d; sc]).

  Lemma t_modal_body nf sc a Q s m u l ex hs :
    SP nf -> At s m u l ex hs -> Core m u l ex hs -> Quiet m -> sc < N ->
    (forall o s', o <> ONormal -> Inv s' -> Q o s') ->
    (forall s' m' u' l' ex' hs', At s' m' u' l' ex' hs' -> Core m' u' l' ex' hs' -> m_must m' = None ->
        (m_follow m' = None \/
         ((exists q, m_follow m = Some (FQuitBack q)) /\ m_follow m' = Some FAfterQuit /\ st_stack u' <> [])) ->
        Q ONormal s') ->
    W nf (modal_body sc a) Q s.
  Proof.
    intros HS HAt HC [HQf HQm] SL HQx HQn.
    destruct m as [mstk mreq mty mln mist mpr mhd mrc mfi mmu mer mfo mpv mls]. cbn in HQf, HQm. subst mmu.
    core_open HC. unfold modal_body, new_sd, ev_stack.
    steps HAt HQf.
    eapply a_rec; [exact HS|exact HAt| | |split; discriminate|].
    - core_auto.
      + rewrite c_stack0. reflexivity.
      + intros d [<-|I]; [cbn; auto|auto].
    - split; [exact HQf|reflexivity].
    - intros o s' HI' KP. destruct o; try (apply HQx; [discriminate|exact HI']).
      clear HAt. unfold Keep in KP. cbn [m_follow] in KP.
      destruct (Inv_open _ HI') as (m' & u' & l' & ex' & hs' & HAt' & HC' & HQt').
      rewrite (at_m _ _ _ _ _ _ HAt'), (at_u _ _ _ _ _ _ HAt') in KP.
      destruct m' as [mstk' mreq' mty' mln' mist' mpr' mhd' mrc' mfi' mmu' mer' mfo' mpv' mls'].
      destruct HQt' as [HQf' HQm']. cbn in HQf', HQm', KP. subst mmu'.
      step HAt'; [chk_side HQf'|].
      eapply HQn; [exact HAt'| |reflexivity|].
      + clear HC c_stack0 c_istack0 c_proc0 c_typed0 c_err0 c_cb_req0 c_cb_no0 c_req_lt0 c_owner0 c_recv0 c_last0 c_fresh0 c_sep0 c_quit0
                    c_nscr0 c_stk_wf0 c_hs0 c_p_ready0 c_p_recv0 c_e_recv0 c_fl_cnt0 c_fl_proc0. core_open HC'. core_auto.
      + cbn [m_follow]. destruct KP as [->|[-> ES]]; [left; reflexivity|].
        destruct HQf as [->|[q ->]]; [left; reflexivity|]. right. split; [eauto|]. split; [reflexivity|].
        cbn in ES. rewrite ES. discriminate.
  Qed.

  Lemma IT_push_modal (sc a : nat) : scmd_wf N fresh (SPushModal sc a) = true ->
    forall cn self cnt, IT (do_scmd specs cn self cnt (SPushModal sc a)).
  Proof.
    intros WF cn self cnt n Q s0 HS HI HQ. open_inv HI.
    cbn [scmd_wf] in WF. apply wf_ok in WF. rename WF into WF1.
    change (do_scmd specs cn self cnt (SPushModal sc a)) with (ev T_OP [O_PUSH_MODAL; sc; a] ;; modal_body sc a).
    step HAt. step HAt; [chk_side HQf|].
    assert (HAt' : At s {| m_stack := mstk; m_req := mreq; m_typed := mty; m_line := mln; m_istack := mist; m_proc := mpr;
                           m_hand := mhd; m_recv := mrc; m_fired := mfi; m_must := None; m_err := mer; m_follow := None;
                           m_prev := Some (T_OP, [O_PUSH_MODAL; sc; a]); m_last := mls |} u l ex hs).
    { destruct HQf as [->|[q ->]]; exact HAt. }
    clear HAt.
    eapply t_modal_body; [exact HS|exact HAt'| | |exact WF1| |].
    - core_auto.
    - split; [left; reflexivity|reflexivity].
    - intros o s' _ HI'. apply HQ, HI'.
    - intros s' m' u' l' ex' hs' A1 C1 M1 [F1|[[q F1] _]]; [|discriminate F1].
      apply HQ. eapply At_Inv; [exact A1|exact C1|]. split; [left; exact F1|exact M1].
  Qed.

  (* ------------------------------------------------------------ the application's own InputHandler objects *)
  Lemma IT_wr_typeahead b : IT (wr (fun u => u <| st_typeahead := b |>)).
  Proof. intros n Q s HS HI HQ. open_inv HI. step HAt. apply HQ. eapply At_Inv; [exact HAt|core_auto|quiet_auto HQf]. Qed.

  Lemma IT_handler_ask self h skip : fresh = false -> IT (handler_ask self h skip).
  Proof.
    intros NF n Q s HS HI HQ. open_inv HI. unfold handler_ask, new_input_handler.
    step HAt. destruct (hlookup h (st_hobj u)) as [k|].
    - apply t_handler_get_input; [exact HS|exact HI| |exact HQ]. intros F. congruence.
    - steps HAt HQf.
      apply t_handler_get_input; [exact HS| | |exact HQ]; [|intros F; congruence].
      eapply At_Inv; [exact HAt| |quiet_auto HQf].
      core_auto.
      + intros j. rewrite nth_snoc. destruct (j <? length (st_ih u))%nat eqn:L; [auto|].
        destruct (j =? length (st_ih u))%nat eqn:E; cbn; discriminate.
      + intros j. rewrite nth_snoc. destruct (j <? length (st_ih u))%nat eqn:L; [auto|].
        apply Nat.ltb_ge in L. intros _. left. apply c_req_lt0. exact L.
      + intros j. rewrite app_length. cbn [length]. intros L. apply c_req_lt0. lia.
      + intros j. rewrite nth_snoc. destruct (j <? length (st_ih u))%nat eqn:L; [auto|].
        destruct (j =? length (st_ih u))%nat eqn:E; cbn; discriminate.
      + intros j. rewrite nth_snoc. destruct (j <? length (st_ih u))%nat eqn:L; [auto|].
        destruct (j =? length (st_ih u))%nat eqn:E; cbn; discriminate.
      + intros j. rewrite nth_snoc. destruct (j <? length (st_ih u))%nat eqn:L; [auto|].
        destruct (j =? length (st_ih u))%nat eqn:E; cbn; discriminate.
      + intros F. congruence.
      + rewrite app_length. cbn [length]. rewrite Nat.add_1_r. apply HsOK_add_ready, c_hs0.
  Qed.

  (* what the application sees after wait_on_input(): the flags / the value of the last ready signal of the handler *)
  Lemma t_waited h k n Q s : Inv s -> ih_received (ih_of (ust s) k) = true ->
    (forall o s', Inv s' -> Q o s') ->
    W n (rd (fun u => evt T_WAITED [h; k; b2n (ih_success (ih_of u k));
                                      b2n (match ih_value (ih_of u k) with Some _ => true | None => false end)]
                          (match ih_value (ih_of u k) with Some v => v | None => [] end))) Q s.
  Proof.
    intros HI C HQ. open_inv HI. rewrite (at_u _ _ _ _ _ _ HAt) in C. unfold ih_of in C.
    destruct (c_last0 _ C) as (v & LA & LV).
    step HAt. unfold ih_of. step HAt.
    { unfold mchk, mchk_all, mchk17, mchk18, mchk06, mchk_once.
      cbn [m_must m_last T_INPUT T_READY T_SHOW T_SEPARATOR T_REFUSED T_PROMPT T_GOT T_WAITED Nat.eqb andb orb nth0 nth].
      rewrite LA. rewrite b2n_eqb, eqb_reflx. cbn [andb].
      destruct (ih_success _) eqn:SU.
      - rewrite (LV eq_refl). cbn [negb orb b2n Nat.eqb andb]. rewrite streq_refl. destruct HQf as [->|[? ->]]; reflexivity.
      - cbn [negb orb andb]. destruct HQf as [->|[? ->]]; reflexivity. }
    apply HQ. eapply At_Inv; [exact HAt|core_auto|quiet_auto HQf].
  Qed.

  Lemma IT_handler_wait h : IT (handler_wait h).
  Proof.
    intros n Q s HS HI HQ. open_inv HI. unfold handler_wait.
    step HAt. destruct (hlookup h (st_hobj u)) as [k|]; [|apply IT_ret; assumption].
    apply wpS_seq.
    apply (wpS_while _ _ _ n _ _ _ Inv); [exact HI|intros sa H1; apply H1| |].
    - intros sa HI1 C. apply negb_false_iff in C. apply t_waited; [exact HI1|exact C|exact HQ].
    - intros sa HI1 C. apply IT_rec; [exact I|exact HS|exact HI1|].
      intros o sb HI2. destruct o; try (apply HQ; exact HI2). exact HI2.
  Qed.

  Lemma IT_force_quit : IT (PApi AForceQuit).
  Proof. intros n Q s HS HI HQ. open_inv HI. step HAt; [chk_side HQf|]. apply HQ. eapply At_Inv; [exact HAt|exact HC|split; auto]. Qed.

  Lemma IT_wr_scr scr (f : scrst -> scrst) :
    (forall x, ss_err (f x) = ss_err x) -> IT (wr (upd_scr scr f)).
  Proof.
    intros F1 n Q s HS HI HQ. open_inv HI. step HAt. apply HQ. eapply At_Inv; [exact HAt| |split; auto].
    core_auto; rewrite ?upd_nth_length; auto.
    - intros j L1 L2. rewrite nth_upd_nth. destruct ((j =? scr)%nat && (scr <? length (st_scr u))%nat); [rewrite F1|]; auto.
  Qed.

  (* the application's own signals: self.connect(Custom_c, callback_k) / self.emit(self.create_signal(Custom_c, prio)) *)
  Lemma IT_connect c k self : k < 7 -> IT (PApi (ARegHandler (CLS_CUSTOM c) (H_CUSTOM k) self)).
  Proof.
    intros K n Q s HS HI HQ. open_inv HI. step HAt; [chk_side HQf|]. apply HQ.
    eapply At_Inv; [exact HAt| |quiet_auto HQf]. core_auto.
    apply HsOK_add_custom; [exact c_hs0|unfold CLS_CUSTOM, CLS_EXCEPTION; destruct (c =? 99)%nat; [left; reflexivity|right; lia]|unfold H_CUSTOM; lia].
  Qed.
  Lemma IT_emit_custom c p self : IT (PApi (AEnqueue {| sp_cls := CLS_CUSTOM c; sp_prio := p; sp_src := Some self; sp_a := 0;
                                                         sp_b := false; sp_data := [] |})).
  Proof. apply IT_enq_other; cbn [sp_cls]; unfold CLS_CUSTOM, CLS_READY, CLS_RECEIVED, CLS_EXCEPTION; destruct (c =? 99)%nat; lia. Qed.

  Lemma forallb_Forall_wf l : forallb (scmd_wf N fresh) l = true -> Forall (fun c => scmd_wf N fresh c = true) l.
  Proof. intros H. apply Forall_forall. intros x I. rewrite forallb_forall in H. auto. Qed.

  Lemma IT_do_scmd cn : IT cn -> forall c, scmd_wf N fresh c = true -> forall self cnt, IT (do_scmd specs cn self cnt c).
  Proof.
    intros Hcn c. induction c using scmd_ind'.
    - intros WF self cnt. destruct c; try contradiction.
      + apply IT_push, WF. + apply IT_push_modal, WF. + apply IT_replace, WF. + apply IT_schedule, WF.
      + apply IT_enq_other; discriminate.
      + exact Hcn.
      + apply IT_enq_other; discriminate.
      + apply IT_sched_redraw.
      + apply IT_throw. + apply IT_throw. + apply IT_force_quit.
      + apply IT_throw.
      + apply IT_enq_other; discriminate.
      + apply IT_enq_other; discriminate.
      + apply IT_connect. cbn [scmd_wf] in WF. apply Nat.ltb_lt, WF.
      + apply IT_emit_custom.
      + apply IT_rec. exact I.                     (* process_signals() from a callback: the loop re-entered, as in wait_on_input *)
      + apply IT_get_input_blocking.
      + apply IT_wr_typeahead.
      + apply IT_handler_ask. cbn [scmd_wf] in WF. destruct fresh; [discriminate WF|reflexivity].
      + apply IT_handler_wait.
      + apply IT_wr_scr; reflexivity.
      + apply IT_wr_scr; reflexivity.
      + apply IT_ev_plain. reflexivity.
    - intros WF self cnt. cbn [scmd_wf] in WF. apply andb_true_iff in WF. destruct WF as [W1 W2].
      apply forallb_Forall_wf in W1. apply forallb_Forall_wf in W2.
      cbn [do_scmd].
      assert (SEQ : forall l, Forall (fun c => scmd_wf N fresh c = true -> forall self cnt, IT (do_scmd specs cn self cnt c)) l ->
                    Forall (fun c => scmd_wf N fresh c = true) l ->
                    IT ((fix seq (l : list scmd) : sprog := match l with [] => PRet | x :: r => do_scmd specs cn self cnt x ;; seq r end) l)).
      { induction l as [|x r IHr]; intros F1 F2; [apply IT_ret|]. inversion F1; subst. inversion F2; subst.
        apply IT_seq; [auto|apply IHr; assumption]. }
      destruct (cnt <? k)%nat; apply SEQ; assumption.
  Qed.

  Lemma IT_do_scmds cn : IT cn -> forall l, cmds_wf N fresh l = true -> forall self cnt, IT (do_scmds specs cn self cnt l).
  Proof.
    intros Hcn l. induction l as [|x r IH]; intros WF self cnt; cbn [do_scmds]; [apply IT_ret|].
    unfold cmds_wf in WF. cbn [forallb] in WF. apply andb_true_iff in WF. destruct WF as [W1 W2].
    apply IT_seq; [apply IT_do_scmd; assumption|apply IH, W2].
  Qed.

  Lemma wf_parts scr : cmds_wf N fresh (sc_refresh (specs scr)) = true /\ cmds_wf N fresh (sc_show (specs scr)) = true /\
    cmds_wf N fresh (sc_closed (specs scr)) = true /\
    (forall x, In x (sc_input (specs scr)) -> cmds_wf N fresh (fst (snd x)) = true) /\
    cmds_wf N fresh (fst (sc_input_default (specs scr))) = true /\
    cmds_wf N fresh (sc_setup_cmds (specs scr)) = true.
  Proof.
    pose proof (Hwf scr) as H. unfold spec_wf in H. apply andb_true_iff in H. destruct H as [H _].
    apply andb_true_iff in H. destruct H as [H H5]. apply andb_true_iff in H. destruct H as [H H4].
    apply andb_true_iff in H. destruct H as [H H3]. apply andb_true_iff in H. destruct H as [H1 H2].
    apply andb_true_iff in H1. destruct H1 as [H0 H1].
    repeat split; auto. intros x I. rewrite forallb_forall in H4. auto.
  Qed.

  Lemma IT_call_closed d : IT (call_closed specs d).
  Proof.
    unfold call_closed. apply IT_rd. intros u0.
    apply IT_seq; [apply IT_wr_scr; reflexivity|]. apply IT_seq; [apply IT_ev_plain; reflexivity|].
    apply IT_do_scmds; [apply IT_ev_plain; reflexivity|apply wf_parts].
  Qed.

  Definition close_body (closed_from : option nat) : sprog :=
    rd (fun u => match st_stack u with
      | [] => PThrow XError
      | top :: r =>
        wr (fun u => u <| st_stack := r |>) ;; ev_stack K_POP top ;;
        call_closed specs top ;;
        (match closed_from with
         | Some c => if (c =? sd_scr top)%nat then PRet else PThrow XError
         | None => PRet end) ;;
        (if sd_modal top then PApi ACloseLoop else PRet) ;;
        rd (fun u => match st_stack u with
                     | _ :: _ => if sd_modal top then PRet else sched_redraw
                     | [] => PRet end) ;;
        rd (fun u => match st_stack u with [] => PThrow XExit | _ => PRet end)
      end).

  Lemma IT_close_body cf : IT (close_body cf).
  Proof.
    intros n Q s HS HI HQ. open_inv HI. unfold close_body, ev_stack.
    step HAt. destruct (st_stack u) as [|top r] eqn:ES.
    - apply IT_throw; [exact HS|exact HI|exact HQ].
    - steps HAt HQf.
      assert (HI' : Inv s1).
      { eapply At_Inv; [exact HAt| |quiet_auto HQf]. core_auto.
        - rewrite c_stack0. reflexivity.
        - intros d I. apply c_stk_wf0. right. exact I. }
      clear HAt.
      assert (ITR : IT ((match cf with
         | Some c => if (c =? sd_scr top)%nat then PRet else PThrow XError
         | None => PRet end) ;;
        (if sd_modal top then PApi ACloseLoop else PRet) ;;
        rd (fun u => match st_stack u with
                     | _ :: _ => if sd_modal top then PRet else sched_redraw
                     | [] => PRet end) ;;
        rd (fun u => match st_stack u with [] => PThrow XExit | _ => PRet end))).
      { apply IT_seq; [destruct cf as [c|]; [destruct (c =? sd_scr top)%nat|]; first [apply IT_ret|apply IT_throw]|].
        apply IT_seq; [destruct (sd_modal top); [apply IT_rec; exact I|apply IT_ret]|].
        apply IT_seq.
        + apply IT_rd. intros u1. destruct (st_stack u1); [apply IT_ret|]. destruct (sd_modal top); [apply IT_ret|apply IT_sched_redraw].
        + apply IT_rd. intros u1. destruct (st_stack u1); [apply IT_throw|apply IT_ret]. }
      apply IT_call_closed; [exact HS|exact HI'|].
      intros o s' HI2. destruct o; try (apply HQ; exact HI2). apply ITR; assumption.
  Qed.

  Lemma IT_close_screen cf : IT (close_screen specs cf).
  Proof.
    change (close_screen specs cf) with (ev T_OP [O_CLOSE; match cf with Some c => S c | None => 0 end; 0] ;; close_body cf).
    apply IT_seq; [apply IT_ev_plain; reflexivity|apply IT_close_body].
  Qed.

  Lemma IT_run_cmds self cnt l : cmds_wf N fresh l = true -> IT (run_cmds specs self cnt l).
  Proof. intros WF. unfold run_cmds. apply IT_do_scmds; [apply IT_close_screen|exact WF]. Qed.

  Lemma IT_reg_source o : IT (PApi (ARegSource o)).
  Proof. intros n Q s HS HI HQ. open_inv HI. step HAt; [chk_side HQf|]. apply HQ. eapply At_Inv; [exact HAt|exact HC|split; auto]. Qed.
  Lemma IT_wr_rb b : IT (wr (fun u => u <| st_rb := b |>)).
  Proof. intros n Q s HS HI HQ. open_inv HI. step HAt. apply HQ. eapply At_Inv; [exact HAt|core_auto|quiet_auto HQf]. Qed.
  Lemma IT_wr_rv b : IT (wr (fun u => u <| st_rv := b |>)).
  Proof. intros n Q s HS HI HQ. open_inv HI. step HAt. apply HQ. eapply At_Inv; [exact HAt|core_auto|quiet_auto HQf]. Qed.

  Lemma IT_call_refresh d : IT (call_refresh specs d).
  Proof.
    unfold call_refresh. apply IT_rd. intros u0.
    apply IT_seq; [apply IT_wr_scr; reflexivity|]. apply IT_seq; [apply IT_ev_plain; reflexivity|].
    apply IT_run_cmds. apply wf_parts.
  Qed.

  Lemma IT_call_setup_plain d : IT (call_setup_plain specs d).
  Proof.
    unfold call_setup_plain. apply IT_rd. intros u0.
    apply IT_seq; [apply IT_wr_scr; reflexivity|]. apply IT_seq; [apply IT_ev_plain; reflexivity|].
    apply IT_seq; [|apply IT_wr_rb].
    destruct (nth_last _ _); [|apply IT_ret].
    apply IT_seq; [apply IT_wr_scr; reflexivity|apply IT_reg_source].
  Qed.

  (* a setup() with commands of its own: the commands are in the same situation as those of refresh() *)
  Lemma IT_call_setup_cmds d cmds : cmds_wf N fresh cmds = true -> IT (call_setup_cmds specs d cmds).
  Proof.
    intros WF. unfold call_setup_cmds. apply IT_rd. intros u0.
    apply IT_seq; [apply IT_wr_scr; reflexivity|]. apply IT_seq; [apply IT_ev_plain; reflexivity|].
    apply IT_seq; [apply IT_run_cmds; exact WF|].
    apply IT_seq; [apply IT_ev_plain; reflexivity|].
    apply IT_seq; [|apply IT_wr_rb].
    destruct (nth_last _ _); [|apply IT_ret].
    apply IT_seq; [apply IT_wr_scr; reflexivity|apply IT_reg_source].
  Qed.

  Lemma IT_call_setup d : IT (call_setup specs d).
  Proof.
    unfold call_setup. pose proof (proj2 (proj2 (proj2 (proj2 (proj2 (wf_parts (sd_scr d))))))) as WF.
    destruct (sc_setup_cmds (specs (sd_scr d))) as [|c l]; [apply IT_call_setup_plain|apply IT_call_setup_cmds; exact WF].
  Qed.

  Lemma IT_ask_pages scr k : IT (ask_pages specs scr k).
  Proof. induction k as [|k IH]; cbn [ask_pages]; [apply IT_ret|]. apply IT_seq; [apply IT_get_input_blocking|exact IH]. Qed.

  Ltac scr_goals :=
    try (rewrite upd_nth_length; assumption);
    try (let j := fresh "j" in intros j ? ?; rewrite nth_upd_nth;
         match goal with |- context [if ?c then _ else _] => destruct c end; cbn; now auto).

  Lemma IT_draw_screen d : IT (draw_screen specs d).
  Proof.
    intros n Q s HS HI HQ. unfold draw_screen. apply wpS_try.
    assert (HQ' : forall o s', Inv s' ->
              match o with OThrow XError => W n raise_exception_signal Q s' | _ => Q o s' end).
    { intros o s' HI'. destruct o as [|[| |]| |]; try (apply HQ; exact HI').
      apply IT_enq_other; [discriminate|discriminate|exact HS|exact HI'|exact HQ]. }
    open_inv HI. unfold call_show_all.
    destruct (sc_no_separator (specs (sd_scr d))) eqn:NS.
    - steps HAt HQf.
      { unfold mchk, mchk_all. cbn. rewrite Hnosep, NS. cbn.
        assert (X : match mpv with Some (t, pa) => (t =? T_SEPARATOR)%nat && (nth0 pa 0 =? sd_scr d)%nat | None => false end = false).
        { destruct mpv as [[t pa]|]; [|reflexivity]. destruct (t =? T_SEPARATOR)%nat eqn:E1; [|reflexivity].
          destruct (nth0 pa 0 =? sd_scr d)%nat eqn:E2; [|reflexivity]. apply Nat.eqb_eq in E1, E2. subst t.
          specialize (c_sep0 pa eq_refl). rewrite E2 in c_sep0. congruence. }
        rewrite X. destruct HQf as [->|[? ->]]; reflexivity. }
      apply IT_ask_pages; [exact HS|eapply At_Inv; [exact HAt|core_auto; scr_goals|quiet_auto HQf]|].
      intros o s' HI'. destruct o as [|[| |]| |]; [ | exact (HQ' (OThrow XExit) _ HI') | exact (HQ' (OThrow XError) _ HI') | exact (HQ' (OThrow XSysExit) _ HI') | exact (HQ' OBlocked _ HI') | exact (HQ' OFuel _ HI')].
      apply IT_run_cmds; [apply wf_parts|exact HS|exact HI'|exact HQ'].
    - steps HAt HQf.
      { unfold mchk, mchk_all. cbn. rewrite Hnosep, NS. destruct HQf as [->|[? ->]]; reflexivity. }
      { unfold mchk, mchk_all. cbn. rewrite Hnosep, NS, Nat.eqb_refl. destruct HQf as [->|[? ->]]; reflexivity. }
      apply IT_ask_pages; [exact HS|eapply At_Inv; [exact HAt|core_auto; scr_goals|quiet_auto HQf]|].
      intros o s' HI'. destruct o as [|[| |]| |]; [ | exact (HQ' (OThrow XExit) _ HI') | exact (HQ' (OThrow XError) _ HI') | exact (HQ' (OThrow XSysExit) _ HI') | exact (HQ' OBlocked _ HI') | exact (HQ' OFuel _ HI')].
      apply IT_run_cmds; [apply wf_parts|exact HS|exact HI'|exact HQ'].
  Qed.

  Lemma IT_pop_top : IT (rd (fun u => match st_stack u with
                       | t :: r => wr (fun u => u <| st_stack := r |>) ;; ev_stack K_POP t
                       | [] => PThrow XError end)).
  Proof.
    intros n Q s HS HI HQ. open_inv HI. step HAt. destruct (st_stack u) as [|t r] eqn:ES.
    - apply IT_throw; [exact HS|exact HI|exact HQ].
    - unfold ev_stack. steps HAt HQf. apply HQ. eapply At_Inv; [exact HAt| |quiet_auto HQf]. core_auto.
      + rewrite c_stack0. reflexivity.
      + intros d I. apply c_stk_wf0. right. exact I.
  Qed.

  Lemma IT_with_top (k : sdata -> sprog) : (forall t, IT (k t)) -> IT (with_top k).
  Proof. intros H. unfold with_top. apply IT_rd. intros u. destruct (st_stack u); [apply IT_throw|apply H]. Qed.

  Lemma IT_process_screen : IT (process_screen specs).
  Proof.
    intros n Q s HS HI HQ. open_inv HI. unfold process_screen, with_top at 1.
    step HAt. destruct (st_stack u) as [|top r] eqn:ES.
    - apply IT_throw; [exact HS|exact HI|exact HQ].
    - pose proof (c_stk_wf0 top (or_introl eq_refl)) as TL.
      revert n Q s HS HI HQ HAt.
      match goal with |- forall n Q s, SP n -> Inv s -> _ -> _ -> wpS _ _ _ n ?p Q s =>
        assert (ITR : IT p); [|intros n Q s HS HI HQ _; apply ITR; assumption] end.
      apply IT_seq.
      + apply IT_rd. intros u1. destruct (ss_ready _); [apply IT_wr_rb|apply IT_call_setup].
      + apply IT_rd. intros u1. destruct (negb (st_rb u1)).
        * apply IT_seq; [apply IT_pop_top|]. destruct (sd_modal top); [apply IT_rec; exact I|apply IT_sched_redraw].
        * apply IT_seq; [apply IT_reg_source|].
          apply IT_try; [|apply IT_enq_other; discriminate].
          apply IT_seq; [apply IT_call_refresh|]. apply IT_with_top. intros top'.
          destruct (sd_id top' =? sd_id top)%nat; [|apply IT_ret].
          apply IT_seq; [apply IT_draw_screen|]. apply IT_rd. intros u2.
          destruct (ss_input_required _); [|apply IT_ret]. apply IT_get_input; assumption.
  Qed.

  (* ------------------------------------------------------------ the hand-off *)
  Lemma quiet_enq m sp : Quiet m -> m_enq m sp = m /\ c_enq m sp = true.
  Proof.
    intros [HQf HQm]. destruct m as [mstk mreq mty mln mist mpr mhd mrc mfi mmu mer mfo mpv mls]. cbn in HQf, HQm. subst mmu.
    destruct HQf as [->|[q ->]]; split; reflexivity.
  Qed.

  Lemma t_emit_ready nf req data ok Q s m u l ex hs :
    At s m u l ex hs -> Quiet m ->
    (forall s' id, At s' m u (mk_signal id (ready_spec (ih_src (ih_of u req)) req data ok) :: l) ex hs -> Q ONormal s') ->
    W nf (emit_ready req data ok) Q s.
  Proof.
    intros HAt HQt HQ. unfold emit_ready. eapply a_rd; [exact HAt|].
    destruct (quiet_enq m (ready_spec (ih_src (ih_of u req)) req data ok) HQt) as [E1 E2].
    eapply a_enq; [exact HAt|exact E2|]. intros s' id H'. rewrite E1 in H'. eapply HQ, H'.
  Qed.

  Lemma t_emit_failed_all nf reqs : forall Q s m u l ex hs,
    At s m u l ex hs -> Quiet m ->
    (forall s' news, At s' m u (news ++ l) ex hs ->
        map triple news = rev (map (fun r => (r, false, ([] : str))) reqs) ->
        Forall (fun sg => sg_cls sg = CLS_READY) news -> Q ONormal s') ->
    W nf (emit_failed_all reqs) Q s.
  Proof.
    induction reqs as [|r rest IH]; intros Q s m u l ex hs HAt HQt HQ; cbn [emit_failed_all].
    - eapply a_ret; [exact HAt|]. apply (HQ s []); [exact HAt|reflexivity|constructor].
    - apply wpS_seq. eapply t_emit_ready; [exact HAt|exact HQt|]. intros s1 id H1. cbv beta iota.
      eapply IH; [exact H1|exact HQt|]. intros s2 news H2 E F.
      apply (HQ s2 (news ++ [mk_signal id (ready_spec (ih_src (ih_of u r)) r [] false)])).
      + rewrite <- app_assoc. exact H2.
      + rewrite map_app, E. cbn [map rev]. reflexivity.
      + apply Forall_app. split; [exact F|]. constructor; [reflexivity|constructor].
  Qed.

  (* ------------------------------------------------------------ the end of a handler *)
  Definition EndOK (o : outcome) (s : lst) : Prop :=
    exists m u l ex hs, At s m u l ex hs /\ Core m u l ex hs /\ m_must m = None /\
                        mchk07 quit m (EHandlerEnd 0 0 (how_of o)) = true.

  Lemma Inv_EndOK o s : Inv s -> EndOK o s.
  Proof.
    intros HI. destruct (Inv_open _ HI) as (m & u & l & ex & hs & HAt & HC & [HQf HQm]).
    exists m, u, l, ex, hs. split; [exact HAt|split; [exact HC|split; [exact HQm|]]]. unfold mchk07. destruct HQf as [E|[q E]]; rewrite E; reflexivity.
  Qed.

  Lemma EndOK_end o s hid sid : EndOK o s ->
    let s3 := emit (EHandlerEnd hid sid (how_of o)) s in
    Inv s3 /\ m_follow (MWs s3) = None /\ pendl s3 = pendl s /\ ext s3 = ext s /\
    m_hand (MWs s3) = m_hand (MWs s) /\ m_line (MWs s3) = m_line (MWs s).
  Proof.
    intros (m & u & l & ex & hs & HAt & HC & HM & H7). cbn zeta.
    destruct m as [mstk mreq mty mln mist mpr mhd mrc mfi mmu mer mfo mpv mls]. cbn in HM. subst mmu.
    assert (C : mchk {| m_stack := mstk; m_req := mreq; m_typed := mty; m_line := mln; m_istack := mist; m_proc := mpr;
                        m_hand := mhd; m_recv := mrc; m_fired := mfi; m_must := None; m_err := mer; m_follow := mfo;
                        m_prev := mpv; m_last := mls |} (EHandlerEnd hid sid (how_of o)) = true).
    { unfold mchk, mchk_all.
      change (mchk07 quit {| m_stack := mstk; m_req := mreq; m_typed := mty; m_line := mln; m_istack := mist; m_proc := mpr;
                        m_hand := mhd; m_recv := mrc; m_fired := mfi; m_must := None; m_err := mer; m_follow := mfo;
                        m_prev := mpv; m_last := mls |} (EHandlerEnd hid sid (how_of o)))
        with (mchk07 quit {| m_stack := mstk; m_req := mreq; m_typed := mty; m_line := mln; m_istack := mist; m_proc := mpr;
                        m_hand := mhd; m_recv := mrc; m_fired := mfi; m_must := None; m_err := mer; m_follow := mfo;
                        m_prev := mpv; m_last := mls |} (EHandlerEnd 0 0 (how_of o))).
      rewrite H7. reflexivity. }
    pose proof (At_emit _ _ _ _ _ _ _ HAt C) as H'. mnorm H'.
    rewrite !MW_emit, (at_m _ _ _ _ _ _ HAt). cbn [mstep m_follow m_hand m_line set].
    split; [|repeat split; reflexivity].
    eapply At_Inv; [exact H'| |split; [left; reflexivity|reflexivity]].
    core_open HC. core_auto.
  Qed.

  Definition HPost (s : lst) (sg : signal) (idx hid : nat) (o : outcome) (s2 : lst) : Prop :=
    let s3 := emit (EHandlerEnd hid (sg_id sg) (how_of o)) s2 in Inv s3 /\ Rk s s3 /\ SigPre sg (S idx) s3.

  Lemma Inv_handler_start s hid sid data : Inv s -> hid <> H_RECEIVED -> Inv (emit (EHandler hid sid data) s).
  Proof.
    intros HI NE. open_inv HI.
    assert (C : mchk {| m_stack := mstk; m_req := mreq; m_typed := mty; m_line := mln; m_istack := mist; m_proc := mpr;
                        m_hand := mhd; m_recv := mrc; m_fired := mfi; m_must := None; m_err := mer; m_follow := mfo;
                        m_prev := mpv; m_last := mls |} (EHandler hid sid data) = true) by (destruct HQf as [->|[q ->]]; reflexivity).
    pose proof (At_emit _ _ _ _ _ _ _ HAt C) as H'.
    eapply At_Inv; [exact H'| |].
    - cbn [mstep]. apply Nat.eqb_neq in NE. rewrite NE. exact HC.
    - cbn [mstep]. apply Nat.eqb_neq in NE. rewrite NE. split; auto.
  Qed.

  (* handlers that keep the invariant and whose signal class carries no side condition *)
  Lemma handler_of_IT p n s sg idx hid data :
    IT p -> SP n -> Inv s -> hid <> H_RECEIVED -> sg_cls sg <> CLS_READY -> sg_cls sg <> CLS_RECEIVED ->
    W n p (HPost s sg idx hid) (emit (EHandler hid (sg_id sg) data) s).
  Proof.
    intros Hp HS HI NE N1 N2. apply Hp; [exact HS|apply Inv_handler_start; assumption|].
    intros o s2 HI2. unfold HPost. cbn zeta.
    destruct (EndOK_end o s2 hid (sg_id sg) (Inv_EndOK o s2 HI2)) as (I3 & F3 & _).
    split; [exact I3|]. split; [left; exact F3|]. split; intros X; contradiction.
  Qed.

  Lemma Inv_open_eq s : Inv s -> exists m u hs, At s m u (pendl s) (ext s) hs /\ Core m u (pendl s) (ext s) hs /\ Quiet m.
  Proof. intros HI. exists (MWs s), (ust s), (handlers s). split; [apply At_self, HI|]. destruct HI as (_ & _ & C & Qt). auto. Qed.

  (* InputThreadManager._input_received_handler *)
  Lemma H_received n s sg data : SP n -> Inv s -> SigPre sg 0 s -> sg_cls sg = CLS_RECEIVED ->
    W n (input_received_handler sg) (HPost s sg 0 H_RECEIVED) (emit (EHandler H_RECEIVED (sg_id sg) data) s).
  Proof.
    intros HS HI [_ SPR] CL. destruct (SPR CL eq_refl) as (SD & NF & NE). clear SPR.
    destruct (Inv_open_eq _ HI) as (m & u & hs & HAt & HC & HQt).
    set (l := pendl s) in *. set (ex := ext s) in *. rewrite (at_m _ _ _ _ _ _ HAt) in SD. clearbody l ex. subst ex.
    destruct m as [mstk mreq mty mln mist mpr mhd mrc mfi mmu mer mfo mpv mls].
    destruct HQt as [HQf HQm]. cbn in HQf, HQm, SD. subst mmu.
    core_open HC.
    assert (C : mchk {| m_stack := mstk; m_req := mreq; m_typed := mty; m_line := mln; m_istack := mist; m_proc := mpr;
                        m_hand := mhd; m_recv := mrc; m_fired := mfi; m_must := None; m_err := mer; m_follow := mfo;
                        m_prev := mpv; m_last := mls |} (EHandler H_RECEIVED (sg_id sg) data) = true) by (destruct HQf as [->|[q ->]]; reflexivity).
    pose proof (At_emit _ _ _ _ _ _ _ HAt C) as H1. clear HAt C.
    unfold input_received_handler. eapply a_rd; [exact H1|].
    destruct (st_istack u) as [|top rest] eqn:EI.
    - (* pop from an empty list *)
      subst mist. cbn [mstep H_RECEIVED Nat.eqb m_istack] in H1.
      eapply a_throw; [exact H1|]. cbn [res].
      unfold HPost. cbn zeta.
      assert (EO : EndOK (OThrow XError) (emit (EHandler H_RECEIVED (sg_id sg) data) s)).
      { eexists _, _, _, _, _. split; [exact H1|]. split; [exact HC|]. split; [reflexivity|].
        unfold mchk07. cbn [m_follow]. destruct HQf as [->|[q ->]]; reflexivity. }
      destruct (EndOK_end _ _ H_RECEIVED (sg_id sg) EO) as (I3 & F3 & _).
      split; [exact I3|]. split; [left; exact F3|]. split; intros X; [rewrite CL in X; discriminate X|]. intros Y; discriminate Y.
    - subst mist. cbn [mstep H_RECEIVED Nat.eqb m_istack] in H1. mnorm H1.
      assert (QT : Quiet {| m_stack := mstk; m_req := mreq; m_typed := mty; m_line := mln; m_istack := []; m_proc := false;
                            m_hand := mhd ++ (top, true, mln) :: map (fun r : nat => (r, false, [])) (rev rest);
                            m_recv := mrc; m_fired := mfi; m_must := None; m_err := mer; m_follow := mfo; m_prev := mpv; m_last := mls |})
        by (split; [exact HQf|reflexivity]).
      apply wpS_seq. step H1. apply wpS_seq. eapply t_emit_ready; [exact H1|exact QT|]. intros s2 id1 H2. cbv beta iota.
      apply wpS_seq. eapply t_emit_failed_all; [exact H2|exact QT|]. intros s3 news H3 EN FN. cbv beta iota.
      step H3.
      lazymatch goal with |- HPost _ _ _ _ _ ?sx => assert (EO : EndOK ONormal sx) end.
      { eexists _, _, _, _, _. split; [exact H3|]. split; [|split; [reflexivity|unfold mchk07; cbn [m_follow]; destruct HQf as [->|[q ->]]; reflexivity]].
        rewrite map_rev, rev_involutive in EN.
        assert (Z : filter isrecv news = []).
        { clear - FN. induction FN as [|a r Ha Hr IH]; [reflexivity|]. cbn. unfold isrecv at 1. rewrite Ha. cbn. exact IH. }
        core_auto.
        - intros F. apply FreshInv_handoff. apply c_fresh0, F.
        - rewrite filter_app. cbn [filter]. unfold isready at 2. cbn [sg_cls mk_signal ready_spec sp_cls]. rewrite Nat.eqb_refl.
          rewrite (filter_all isready news) by (eapply Forall_impl; [|exact FN]; intros a Ha; unfold isready; rewrite Ha; reflexivity).
          rewrite map_app. cbn [map]. rewrite EN.
          replace (triple (mk_signal id1 (ready_spec (ih_src (nth top (st_ih u) {| ih_src := None; ih_owner := 0; ih_cb := false; ih_received := false; ih_success := false; ih_value := None; ih_args := 0 |})) top (sg_data sg) true)))
            with (top, true, mln) by (unfold triple; cbn; rewrite SD; reflexivity).
          apply PSub_handoff; [exact c_p_ready0|]. apply Permutation_map, Permutation_sym, Permutation_rev.
        - intros sg' I CR. apply in_app_or in I. destruct I as [I|[<-|I]].
          + rewrite Forall_forall in FN. rewrite (FN _ I) in CR. discriminate CR.
          + discriminate CR.
          + auto.
        - rewrite filter_app. cbn [filter]. unfold isrecv at 2. cbn [sg_cls mk_signal ready_spec sp_cls Nat.eqb CLS_READY CLS_RECEIVED].
          rewrite app_length, NF, Z. cbn. lia.
        - rewrite filter_app. cbn [filter]. unfold isrecv at 2. cbn [sg_cls mk_signal ready_spec sp_cls Nat.eqb CLS_READY CLS_RECEIVED].
          rewrite app_length, NF, Z. cbn. lia. }
      unfold HPost. cbn zeta.
      destruct (EndOK_end _ _ H_RECEIVED (sg_id sg) EO) as (I3 & F3 & _).
      split; [exact I3|]. split; [left; exact F3|]. split; intros X; [rewrite CL in X; discriminate X|]. intros Y; discriminate Y.
  Qed.

  (* ------------------------------------------------------------ what input() returned decides the follow-up *)
  Definition follow_of (act : action) (sr : bool) : follow :=
    match act with
    | ANoop => FEnd | ARedraw => FRedraw 0 | AClose => FClose | AQuit => FQuit
    | AError => if sr then FRedraw 0 else FReprompt
    end.

  Lemma EndOK_of s o m u l ex hs : At s m u l ex hs -> Core m u l ex hs -> m_must m = None ->
    mchk07 quit m (EHandlerEnd 0 0 (how_of o)) = true -> EndOK o s.
  Proof. intros. exists m, u, l, ex, hs. auto. Qed.

  Lemma t_pir nf act sr Q s mstk mreq mty mln mist mpr mhd mrc mfi mer mpv mls u l ex hs :
    SP nf ->
    At s {| m_stack := mstk; m_req := mreq; m_typed := mty; m_line := mln; m_istack := mist; m_proc := mpr;
            m_hand := mhd; m_recv := mrc; m_fired := mfi; m_must := None; m_err := mer;
            m_follow := Some (follow_of act sr); m_prev := mpv; m_last := mls |} u l ex hs ->
    Core {| m_stack := mstk; m_req := mreq; m_typed := mty; m_line := mln; m_istack := mist; m_proc := mpr;
            m_hand := mhd; m_recv := mrc; m_fired := mfi; m_must := None; m_err := mer;
            m_follow := Some (follow_of act sr); m_prev := mpv; m_last := mls |} u l ex hs ->
    (forall o s', EndOK o s' -> Q o s') -> W nf (process_input_result specs act sr) Q s.
  Proof.
    intros HS HAt HC HQ. core_open HC. unfold process_input_result, with_top.
    eapply a_rd; [exact HAt|]. destruct (st_stack u) as [|top r] eqn:ES.
    - (* the stack is empty: ExitMainLoop *)
      eapply a_throw; [exact HAt|]. cbn [res]. apply HQ. eapply EndOK_of; [exact HAt|exact HC|reflexivity|].
      unfold mchk07. cbn [m_follow m_stack]. rewrite c_stack0. destruct act; [| | | |destruct sr]; reflexivity.
    - pose proof (c_stk_wf0 top (or_introl eq_refl)) as TL.
      assert (HQi : forall o s', Inv s' -> Q o s') by (intros o s' HI'; apply HQ, Inv_EndOK, HI').
      destruct act; cbn [follow_of] in *.
      + (* NOOP *)
        eapply a_ret; [exact HAt|]. apply HQ. eapply EndOK_of; [exact HAt|exact HC|reflexivity|].
        unfold mchk07. cbn [m_follow m_stack]. rewrite c_stack0. reflexivity.
      + (* REDRAW *)
        unfold sched_redraw. eapply a_enq; [exact HAt| |].
        { unfold c_enq, m_signew, mchk, mchk_all. rewrite c_stack0. reflexivity. }
        intros s' id H'. mnorm H'. apply HQ. eapply EndOK_of; [exact H'| |reflexivity|].
        * apply Core_cons_other; [discriminate|discriminate|]. (core_auto; rewrite ?ES; auto).
        * unfold mchk07. cbn [m_follow m_stack]. rewrite c_stack0. reflexivity.
      + (* CLOSE *)
        change (close_screen specs None) with (ev T_OP [O_CLOSE; 0; 0] ;; close_body None).
        apply wpS_seq. step HAt.
        { unfold mchk, mchk_all. cbn. rewrite c_stack0. reflexivity. }
        apply IT_close_body; [exact HS| |exact HQi].
        eapply At_Inv; [exact HAt|core_auto; rewrite ?ES; auto|split; [left; reflexivity|reflexivity]].
      + (* QUIT *)
        eapply a_rd; [exact HAt|]. destruct (st_quit u) as [qs|] eqn:EQ.
        * pose proof Hquit as HQU. rewrite <- c_quit0 in HQU. cbn [quit_wf] in HQU. apply wf_ok in HQU. rename HQU into QL.
          change (push_screen_modal specs qs 0) with (ev T_OP [O_PUSH_MODAL; qs; 0] ;; modal_body qs 0).
          apply wpS_seq. apply wpS_seq. step HAt.
          { unfold mchk, mchk_all. cbn. rewrite <- c_quit0, c_stack0. cbn. rewrite Nat.eqb_refl. reflexivity. }
          eapply t_modal_body; [exact HS|exact HAt|core_auto; rewrite ?ES, ?EQ; auto|split; [right; eexists; reflexivity|reflexivity]|exact QL| |].
          -- intros o s' NO HI'. destruct o; [contradiction|..]; apply HQi, HI'.
          -- intros s' m' u' l' ex' hs' A1 C1 M1 F1. cbv beta iota.
             eapply a_rd; [exact A1|].
             destruct m' as [mstk' mreq' mty' mln' mist' mpr' mhd' mrc' mfi' mmu' mer' mfo' mpv' mls']. cbn in M1, F1. subst mmu'.
             assert (NE : mfo' = None \/ (mfo' = Some FAfterQuit /\ mstk' <> [])).
             { destruct F1 as [->|(_ & -> & NE)]; [left; reflexivity|right; split; [reflexivity|]].
               pose proof (c_stack _ _ _ _ _ C1) as X. cbn in X. rewrite X. destruct (st_stack u'); [contradiction|discriminate]. }
             clear F1.
             assert (XE : W nf (PThrow XExit) Q s').
             { eapply a_throw; [exact A1|]. cbn [res]. apply HQ. eapply EndOK_of; [exact A1|exact C1|reflexivity|].
               unfold mchk07. cbn [m_follow m_stack]. destruct NE as [->|[-> NE]]; [reflexivity|].
               destruct mstk'; [contradiction|reflexivity]. }
             destruct (ss_answer _); [exact XE|exact XE|].
             assert (C1' : forall fo sg', Core {| m_stack := mstk'; m_req := mreq'; m_typed := mty'; m_line := mln'; m_istack := mist';
                       m_proc := mpr'; m_hand := mhd'; m_recv := mrc'; m_fired := mfi'; m_must := None; m_err := mer';
                       m_follow := fo; m_prev := mpv'; m_last := mls' |} u' (mk_signal sg' (render_spec None) :: l') ex' hs').
             { intros fo sg'. apply Core_cons_other; [discriminate|discriminate|].
               clear HC c_stack0 c_istack0 c_proc0 c_typed0 c_err0 c_cb_req0 c_cb_no0 c_req_lt0 c_owner0 c_recv0 c_last0 c_fresh0 c_sep0 c_quit0
                    c_nscr0 c_stk_wf0 c_hs0 c_p_ready0 c_p_recv0 c_e_recv0 c_fl_cnt0 c_fl_proc0. core_open C1. core_auto. }
             unfold sched_redraw. destruct NE as [->|[-> NE]].
             ++ eapply a_enq; [exact A1|reflexivity|]. intros s2 id H2. mnorm H2.
                apply HQ. eapply EndOK_of; [exact H2|apply C1'|reflexivity|reflexivity].
             ++ destruct mstk' as [|e0 mstk']; [contradiction|].
                eapply a_enq; [exact A1|reflexivity|]. intros s2 id H2. mnorm H2.
                apply HQ. eapply EndOK_of; [exact H2|apply C1'|reflexivity|reflexivity].
        * eapply a_throw; [exact HAt|]. cbn [res]. apply HQ. eapply EndOK_of; [exact HAt|exact HC|reflexivity|].
          unfold mchk07. cbn [m_follow m_stack]. rewrite <- c_quit0, c_stack0. reflexivity.
      + (* INPUT_ERROR *)
        destruct sr.
        * unfold sched_redraw. eapply a_enq; [exact HAt| |].
          { unfold c_enq, m_signew, mchk, mchk_all. rewrite c_stack0. reflexivity. }
          intros s' id H'. mnorm H'. apply HQ. eapply EndOK_of; [exact H'| |reflexivity|].
          -- apply Core_cons_other; [discriminate|discriminate|]. (core_auto; rewrite ?ES; auto).
          -- unfold mchk07. cbn [m_follow m_stack]. rewrite c_stack0. reflexivity.
        * unfold get_input. destruct (sc_prompt_none (specs (sd_scr top))) eqn:PN.
          -- step HAt. apply HQ. eapply EndOK_of; [exact HAt| |reflexivity|].
             ++ core_auto; rewrite ?ES; auto; scr_goals.
                intros j L1 L2. rewrite nth_upd_nth. destruct ((j =? sd_scr top)%nat && (sd_scr top <? length (st_scr u))%nat) eqn:C; [|auto].
                apply andb_true_iff in C. destruct C as [C _]. apply Nat.eqb_eq in C. subst j. congruence.
             ++ unfold mchk07. cbn [m_follow m_stack]. rewrite c_stack0. reflexivity.
          -- seqs. step HAt. step HAt.
             { unfold mchk, mchk_all. cbn. rewrite c_stack0. cbn. rewrite !Nat.eqb_refl. reflexivity. }
             eapply t_get_input_rest; [exact HS|exact HAt|exact HC|left; reflexivity|exact PN|exact TL|exact HQi].
  Qed.

  Definition pi_tail (scr : nat) : sprog :=
    rd (fun u => if st_rb u then
      let act := action_of (st_rv u) in
      ev T_ACTION [scr; match act with ANoop => 0 | ARedraw => 1 | AClose => 2 | AQuit => 3 | AError => 4 end] ;;
      wr (upd_scr scr (fun x => match act with AError => x <| ss_err := S (ss_err x) |> | _ => x <| ss_err := 0 |> end)) ;;
      rd (fun u => process_input_result specs act (Nat.modulo (ss_err (scr_of u scr)) 5 =? 0)%nat)
    else PRet).

  Lemma t_pi_tail nf scr Q s : SP nf -> Inv s -> scr < N -> sc_prompt_none (specs scr) = false ->
    (forall o s', EndOK o s' -> Q o s') -> W nf (pi_tail scr) Q s.
  Proof.
    intros HS HI SL PN HQ. open_inv HI. unfold pi_tail. eapply a_rd; [exact HAt|].
    destruct (st_rb u); [|eapply a_ret; [exact HAt|]; apply HQ, Inv_EndOK, HI].
    cbv zeta. pose proof (c_err0 scr SL PN) as ER.
    assert (L : (scr <? length (st_scr u))%nat = true) by (apply Nat.ltb_lt; lia).
    destruct (action_of (st_rv u)) eqn:ACT.
    all: seqs; step HAt; [chk_side HQf|]; step HAt; step HAt; step HAt.
    all: match goal with |- wpS _ _ _ _ (process_input_result _ _ ?b) _ _ =>
           let b' := eval cbn in b in change b with b' end.
    all: rewrite ?nth_upd_nth, ?Nat.eqb_refl, ?L; cbn [andb ss_err set].
    5: rewrite <- ER.
    all: eapply t_pir; [exact HS|exact HAt| |exact HQ].
    all: core_auto; scr_goals.
    all: intros j L1 L2; unfold err_in; cbn [alookup]; rewrite nth_upd_nth, L;
      destruct (j =? scr)%nat eqn:E; cbn [andb ss_err set]; [apply Nat.eqb_eq in E; subst j|apply c_err0; assumption].
    all: try reflexivity.
    rewrite <- ER. reflexivity.
  Qed.

  Lemma assoc_str_in k l v : assoc_str k l = Some v -> exists k', In (k', v) l.
  Proof.
    induction l as [|[k' v'] r IH]; cbn; [discriminate|].
    destruct ((length k =? length k')%nat && forallb (fun p => (fst p =? snd p)%N) (combine k k')).
    - intros E. inversion E; subst. eauto.
    - intros E. destruct (IH E) as [k2 I]. eauto.
  Qed.

  (* InputManager.process_input, entered right after the ready signal announced the line *)
  Lemma t_process_input nf scr line args Q s mstk mreq mty mln mist mpr mhd mrc mfi mer mfo mpv mls u l ex hs :
    SP nf ->
    At s {| m_stack := mstk; m_req := mreq; m_typed := mty; m_line := mln; m_istack := mist; m_proc := mpr;
            m_hand := mhd; m_recv := mrc; m_fired := mfi; m_must := Some (scr, args, line); m_err := mer;
            m_follow := mfo; m_prev := mpv; m_last := mls |} u l ex hs ->
    Core {| m_stack := mstk; m_req := mreq; m_typed := mty; m_line := mln; m_istack := mist; m_proc := mpr;
            m_hand := mhd; m_recv := mrc; m_fired := mfi; m_must := None; m_err := mer;
            m_follow := mfo; m_prev := mpv; m_last := mls |} u l ex hs ->
    (mfo = None \/ exists q, mfo = Some (FQuitBack q)) ->
    scr < N -> sc_prompt_none (specs scr) = false -> ss_input_args (scr_of u scr) = args ->
    (forall o s', EndOK o s' -> Q o s') -> W nf (process_input specs scr line) Q s.
  Proof.
    intros HS HAt HC HQf SL PN SA HQ. core_open HC.
    change (process_input specs scr line) with
      (wr (fun u => u <| st_rb := false |>) ;;
       PTry (call_input specs scr line ;; wr (fun u => u <| st_rb := true |>))
            (raise_exception_signal ;; wr (fun u => u <| st_rb := false |>)) ;; pi_tail scr).
    assert (K3 : forall o s', Inv s' -> match o with ONormal => W nf (pi_tail scr) Q s' | _ => Q o s' end).
    { intros o s' HI'. destruct o; try (apply HQ, Inv_EndOK, HI'). apply t_pi_tail; assumption. }
    assert (K2 : forall o s', Inv s' ->
              match o with
              | OThrow XError => W nf (raise_exception_signal ;; wr (fun u => u <| st_rb := false |>))
                                   (fun o s3 => match o with ONormal => W nf (pi_tail scr) Q s3 | _ => Q o s3 end) s'
              | _ => match o with ONormal => W nf (pi_tail scr) Q s' | _ => Q o s' end
              end).
    { intros o s' HI'. destruct o as [|[| |]| |];
        [exact (K3 ONormal _ HI') | exact (K3 (OThrow XExit) _ HI') | | exact (K3 (OThrow XSysExit) _ HI')
         | exact (K3 OBlocked _ HI') | exact (K3 OFuel _ HI')].
      apply (IT_seq _ _ (IT_enq_other exception_spec ltac:(discriminate) ltac:(discriminate)) (IT_wr_rb false));
        [exact HS|exact HI'|exact K3]. }
    apply wpS_seq. step HAt. apply wpS_seq. apply wpS_try. apply wpS_seq.
    unfold call_input. eapply a_rd; [exact HAt|]. cbv zeta.
    assert (WF : cmds_wf N fresh
                  (fst (match assoc_str line (sc_input (specs scr)) with
                        | Some (c, r) => (c, r)
                        | None => (fst (sc_input_default (specs scr)),
                                   match snd (sc_input_default (specs scr)) with Some r => r | None => RKey line end)
                        end)) = true).
    { destruct (assoc_str line (sc_input (specs scr))) as [[c r]|] eqn:AS.
      - destruct (assoc_str_in _ _ _ AS) as [k' I]. apply (proj1 (proj2 (proj2 (proj2 (wf_parts scr)))) _ I).
      - apply (proj1 (proj2 (proj2 (proj2 (proj2 (wf_parts scr)))))). }
    destruct (match assoc_str line (sc_input (specs scr)) with
              | Some (c, r) => (c, r)
              | None => (fst (sc_input_default (specs scr)),
                         match snd (sc_input_default (specs scr)) with Some r => r | None => RKey line end)
              end) as [cmds rv]. cbn [fst] in WF.
    seqs. step HAt. seqs. step HAt.
    { unfold mchk, mchk_all.
      assert (X : negb true || (ss_input_args (nth scr (st_scr u) (scr0 default_spec)) =? args)%nat = true).
      { cbn. apply Nat.eqb_eq. exact SA. }
      unfold mchk06, mchk17, mchk18. cbn [m_must nth0 nth T_INPUT T_READY T_SHOW T_SEPARATOR T_REFUSED T_PROMPT T_GOT Nat.eqb andb].
      change (scr_of (u <| st_rb := false |>) scr) with (nth scr (st_scr u) (scr0 default_spec)).
      rewrite Nat.eqb_refl, streq_refl, X. cbn [andb].
      destruct HQf as [->|[q ->]]; reflexivity. }
    apply (IT_seq _ _ (IT_run_cmds _ _ _ WF) (IT_wr_rv rv)); [exact HS| |].
    { eapply At_Inv; [exact HAt|core_auto; scr_goals|quiet_auto HQf]. }
    intros o s' HI'. destruct o as [|[| |]| |];
      [ | exact (K2 (OThrow XExit) _ HI') | exact (K2 (OThrow XError) _ HI') | exact (K2 (OThrow XSysExit) _ HI')
        | exact (K2 OBlocked _ HI') | exact (K2 OFuel _ HI')].
    apply IT_wr_rb; [exact HS|exact HI'|exact K2].
  Qed.

  (* ------------------------------------------------------------ InputHandler._input_received_handler *)
  Lemma hready_ne idx : (H_READY idx =? H_RECEIVED)%nat = false.
  Proof. unfold H_READY, H_RECEIVED. apply Nat.eqb_neq. lia. Qed.

  Lemma hand_has_in m (a : nat) (b : bool) (d : str) : In (a, b, d) (m_hand m) -> hand_has m [a; b2n b] d = true.
  Proof.
    intros I. unfold hand_has. apply existsb_exists. exists (a, b, d). split; [exact I|].
    cbn [fst snd nth0 nth]. rewrite Nat.eqb_refl, b2n_eqb, eqb_reflx, streq_refl. reflexivity.
  Qed.

  Lemma mem_cons j k l : mem j (k :: l) = (j =? k)%nat || mem j l.
  Proof. reflexivity. Qed.

  Definition rmatch (a : nat) (b : bool) (d : str) (x : nat * bool * str) : bool :=
    (fst (fst x) =? a)%nat && Bool.eqb (snd (fst x)) b && streq (snd x) d.

  Lemma streq_eq (a : str) : forall b, streq a b = true -> a = b.
  Proof.
    unfold streq. induction a as [|x r IH]; intros [|y s] H; cbn in H; try discriminate; [reflexivity|].
    apply andb_true_iff in H. destruct H as [L H]. apply andb_true_iff in H. destruct H as [E H].
    apply N.eqb_eq in E. subst y. f_equal. apply IH. rewrite L. exact H.
  Qed.
  Lemma rmatch_spec a b d x : rmatch a b d x = true <-> x = (a, b, d).
  Proof.
    unfold rmatch. destruct x as [[a' b'] d']. cbn [fst snd]. split.
    - intros H. apply andb_true_iff in H. destruct H as [H H3]. apply andb_true_iff in H. destruct H as [H1 H2].
      apply Nat.eqb_eq in H1. apply eqb_prop in H2. apply streq_eq in H3. congruence.
    - intros E. inversion E; subst. rewrite Nat.eqb_refl, eqb_reflx, streq_refl. reflexivity.
  Qed.

  Lemma remove_first_perm {A} (p : A -> bool) (x : A) l : In x l -> p x = true -> (forall y, p y = true -> y = x) ->
    Permutation l (x :: remove_first p l).
  Proof.
    induction l as [|y r IH]; intros I P U; [destruct I|]. cbn [remove_first]. destruct (p y) eqn:E.
    - rewrite (U y E). apply Permutation_refl.
    - destruct I as [->|I]; [congruence|]. eapply perm_trans; [apply perm_skip, (IH I P U)|]. apply perm_swap.
  Qed.

  Lemma PSub_remove_match (hand rest : list (nat * bool * str)) a b d :
    PSub ((a, b, d) :: rest) hand -> PSub rest (remove_first (rmatch a b d) hand).
  Proof.
    intros S. assert (I : In (a, b, d) hand) by (eapply PSub_in; [exact S|left; reflexivity]).
    pose proof (remove_first_perm (rmatch a b d) (a, b, d) hand I (proj2 (rmatch_spec a b d _) eq_refl)
                  (fun y H => proj1 (rmatch_spec a b d y) H)) as P.
    destruct S as [r Pr]. exists r. apply (Permutation_cons_inv (a := (a, b, d))).
    eapply perm_trans; [apply Permutation_sym, P|exact Pr].
  Qed.

  Lemma FreshInv_ready r h i len a b d : FreshInv r h i len -> In (a, b, d) h ->
    FreshInv (a :: r) (remove_first (rmatch a b d) h) i len /\ mem a r = false.
  Proof.
    intros [A B C D E] I.
    pose proof (remove_first_perm (rmatch a b d) (a, b, d) h I (proj2 (rmatch_spec a b d _) eq_refl)
                  (fun y H => proj1 (rmatch_spec a b d y) H)) as P.
    assert (ND : NoDup (a :: map hid_of (remove_first (rmatch a b d) h))).
    { apply (Permutation_NoDup (l := map hid_of h)); [|exact B]. apply (Permutation_map hid_of P). }
    assert (SUB : forall x, In x (remove_first (rmatch a b d) h) -> In x h) by (intros x; apply remove_first_sub).
    destruct (C _ I) as [AL AI]. cbn [hid_of fst] in AL, AI.
    split.
    - constructor.
      + intros n M. rewrite mem_cons in M. apply orb_true_iff in M. destruct M as [M|M].
        * apply Nat.eqb_eq in M. subst n. split; [exact AL|]. split; [exact AI|]. inversion ND; assumption.
        * destruct (A n M) as (X & Y & Z). split; [exact X|]. split; [exact Y|].
          intros J. apply Z. apply in_map_iff in J. destruct J as (x & Ex & J). apply in_map_iff. exists x. split; [exact Ex|auto].
      + inversion ND; assumption.
      + intros x J. apply C, SUB, J.
      + exact D.
      + exact E.
    - destruct (mem a r) eqn:M; [|reflexivity]. destruct (A a M) as (_ & _ & Z). exfalso. apply Z.
      apply in_map_iff. exists (a, b, d). split; [reflexivity|exact I].
  Qed.

  Definition ready_base (m : mw) (idx : nat) (b : bool) (text : str) : mw :=
    m <| m_prev := Some (T_READY, [idx; b2n b]) |> <| m_recv := idx :: m_recv m |>
      <| m_last := (idx, Some (b, text)) :: m_last m |>
      <| m_hand := remove_first (rmatch idx b text) (m_hand m) |>.

  Lemma muser_ready_fire m idx text scr args :
    alookup idx (m_req m) = Some (scr, args) -> mem idx (m_fired m) = false ->
    muser m T_READY [idx; b2n true] text =
    ready_base m idx true text <| m_must := Some (scr, args, text) |> <| m_fired := idx :: m_fired m |>.
  Proof. intros E1 E2. unfold muser, ready_base, rmatch. cbn. unfold mem in E2. rewrite E1, E2. reflexivity. Qed.

  Lemma muser_ready_nofire m idx b text :
    (b = false \/ alookup idx (m_req m) = None \/ mem idx (m_fired m) = true) ->
    muser m T_READY [idx; b2n b] text = ready_base m idx b text.
  Proof.
    intros H. destruct m as [mstk mreq mty mln mist mpr mhd mrc mfi mmu mer mfo mpv mls]. cbn [m_req m_fired] in H.
    unfold muser, ready_base, rmatch. cbn [nth0 nth T_READY T_OP T_STACK T_MODAL_RETURN T_REQ T_PROMPT Nat.eqb].
    rewrite b2n_eqb. cbn. destruct H as [->|[E|E]]; [reflexivity| |].
    - rewrite E. destruct (b && negb (existsb (Nat.eqb idx) mfi)); reflexivity.
    - unfold mem in E. rewrite E. rewrite andb_false_r. reflexivity.
  Qed.

  Lemma upd_ih_comp k f g u : upd_ih k g (upd_ih k f u) = upd_ih k (fun x => g (f x)) u.
  Proof. unfold upd_ih. cbn [st_ih set]. rewrite upd_nth_comp. reflexivity. Qed.

  Ltac ihcases j idx u :=
    rewrite nth_upd_nth;
    let C := fresh "C" in
    destruct ((j =? idx)%nat && (idx <? length (st_ih u))%nat) eqn:C;
    [apply andb_true_iff in C; destruct C as [C _]; apply Nat.eqb_eq in C; subst j|].

  (* the world and the state after the ready signal (idx, b, data) reached handler idx; g: what happened to the handler record *)
  Lemma Core_ready (fire b : bool) (g : ihandler -> ihandler) idx data pv fo
        mstk mreq mty mln mist mpr mhd mrc mfi mer mfo mpv mls u l ex hs :
    Core {| m_stack := mstk; m_req := mreq; m_typed := mty; m_line := mln; m_istack := mist; m_proc := mpr;
            m_hand := mhd; m_recv := mrc; m_fired := mfi; m_must := None; m_err := mer; m_follow := mfo; m_prev := mpv; m_last := mls |} u l ex hs ->
    (forall h, ih_owner (g h) = ih_owner h) ->
    (forall h, ih_args (g h) = ih_args h) ->
    (forall h, ih_cb (g h) = if fire then false else ih_cb h) ->
    (forall h, ih_success (g h) = b) ->
    (b = true -> forall h, ih_value (g h) = Some data) ->
    (fire = true -> mem idx mfi = false /\ idx < length (st_ih u)) ->
    PSub ((idx, b, data) :: map triple (filter isready l)) mhd ->
    Core {| m_stack := mstk; m_req := mreq; m_typed := mty; m_line := mln; m_istack := mist; m_proc := mpr;
            m_hand := remove_first (rmatch idx b data) mhd; m_recv := idx :: mrc;
            m_fired := if fire then idx :: mfi else mfi;
            m_must := None; m_err := mer; m_follow := fo; m_prev := Some (T_READY, pv);
            m_last := (idx, Some (b, data)) :: mls |}
         (upd_ih idx g u) l ex hs.
  Proof.
    intros HC G1 G5 G2 G3 G4 FI PS. core_open HC. core_auto; rewrite ?upd_nth_length; auto.
    - intros j. ihcases j idx u; rewrite ?G1, ?G5, ?G2.
      + destruct fire; [discriminate|]. intros X. destruct (c_cb_req0 _ X) as [A B]. split; [exact A|exact B].
      + intros X. destruct (c_cb_req0 _ X) as [A B]. split; [exact A|]. destruct fire; [|exact B].
        rewrite mem_cons, B, orb_false_r. apply andb_false_iff in C. destruct C as [C|C]; [exact C|].
        apply Nat.ltb_ge in C. destruct (c_req_lt0 idx C) as [_ Z].
        destruct (j =? idx)%nat eqn:E; [|reflexivity]. apply Nat.eqb_eq in E. subst j.
        exfalso. unfold ih_of in *. rewrite nth_overflow in X by exact C. discriminate X.
    - intros j. ihcases j idx u; rewrite ?G2.
      + destruct fire; [intros _; right; rewrite mem_cons, Nat.eqb_refl; reflexivity|].
        intros X. apply c_cb_no0, X.
      + intros X. destruct (c_cb_no0 _ X) as [A|B]; [left; exact A|right].
        destruct fire; [rewrite mem_cons, B; apply orb_true_r|exact B].
    - intros j L. destruct (c_req_lt0 j L) as [A B]. split; [exact A|]. destruct fire; [|exact B].
      rewrite mem_cons, B, orb_false_r. destruct (j =? idx)%nat eqn:E; [|reflexivity]. apply Nat.eqb_eq in E. subst j.
      exfalso. destruct (FI eq_refl) as [_ FL]. lia.
    - intros j. ihcases j idx u; rewrite ?G1, ?G2; [destruct fire; [discriminate|]|]; apply c_owner0.
    - intros j. ihcases j idx u.
      + intros _. rewrite Nat.eqb_refl. reflexivity.
      + intros X. specialize (c_recv0 _ X). unfold mem in c_recv0. rewrite c_recv0. apply orb_true_r.
    - intros j. rewrite nth_upd_nth. destruct (j =? idx)%nat eqn:EJ; cbn [andb].
      + destruct (idx <? length (st_ih u))%nat eqn:LK.
        * intros _. rewrite G3. exists data. split; [reflexivity|]. intros X. apply G4. exact X.
        * apply Nat.eqb_eq in EJ. subst j. apply Nat.ltb_ge in LK. rewrite nth_overflow by exact LK. cbn. discriminate.
      + apply c_last0.
    - intros F. apply FreshInv_ready; [apply c_fresh0, F|]. eapply PSub_in; [exact PS|left; reflexivity].
    - apply PSub_remove_match. exact PS.
  Qed.

  Lemma Core_upd_scr m u l ex hs scr (f : scrst -> scrst) :
    (forall x, ss_err (f x) = ss_err x) -> Core m u l ex hs -> Core m (upd_scr scr f u) l ex hs.
  Proof.
    intros F1 HC. core_open HC. core_auto; rewrite ?upd_nth_length; auto.
    intros j L1 L2. rewrite nth_upd_nth. destruct ((j =? scr)%nat && (scr <? length (st_scr u))%nat); [rewrite F1|]; auto.
  Qed.

  Lemma PSub_cons_mono {A} (x : A) a b : PSub a b -> PSub (x :: a) (x :: b).
  Proof. intros [r P]. exists r. cbn. apply perm_skip, P. Qed.

  Lemma H_ready n s sg idx data : SP n -> Inv s -> SigPre sg idx s -> sg_cls sg = CLS_READY ->
    W n (input_ready_handler specs idx sg) (HPost s sg idx (H_READY idx)) (emit (EHandler (H_READY idx) (sg_id sg) data) s).
  Proof.
    intros HS HI [SPR _] CL. specialize (SPR CL).
    destruct (Inv_open_eq _ HI) as (m & u & hs & HAt & HC & HQt).
    rewrite (at_m _ _ _ _ _ _ HAt) in SPR.
    assert (PL : pendl (emit (EHandler (H_READY idx) (sg_id sg) data) s) = pendl s) by reflexivity.
    set (l := pendl s) in *. set (ex := ext s) in *. clearbody l ex.
    destruct m as [mstk mreq mty mln mist mpr mhd mrc mfi mmu mer mfo mpv mls].
    destruct HQt as [HQf HQm]. cbn in HQf, HQm, SPR. subst mmu.
    core_open HC.
    assert (C : mchk {| m_stack := mstk; m_req := mreq; m_typed := mty; m_line := mln; m_istack := mist; m_proc := mpr;
                        m_hand := mhd; m_recv := mrc; m_fired := mfi; m_must := None; m_err := mer; m_follow := mfo;
                        m_prev := mpv; m_last := mls |} (EHandler (H_READY idx) (sg_id sg) data) = true) by (destruct HQf as [->|[q ->]]; reflexivity).
    pose proof (At_emit _ _ _ _ _ _ _ HAt C) as H1. clear C. cbn [mstep] in H1. rewrite hready_ne in H1.
    set (s1 := emit (EHandler (H_READY idx) (sg_id sg) data) s) in *.
    assert (FIN : forall o s2, EndOK o s2 ->
               (S idx <= sg_a sg -> PSub (pendl s2) l /\ m_hand (MWs s2) = mhd) -> HPost s sg idx (H_READY idx) o s2).
    { intros o s2 EO MH. unfold HPost. cbn zeta.
      destruct (EndOK_end _ _ (H_READY idx) (sg_id sg) EO) as (I3 & F3 & P3 & _ & M3 & _).
      split; [exact I3|]. split; [left; exact F3|]. split.
      - intros _ LE. destruct (MH LE) as [P2 M2]. rewrite M3, P3, M2.
        eapply PSub_trans; [|apply (SPR ltac:(lia))]. apply PSub_cons_mono, PSub_map, PSub_filter, P2.
      - intros X. rewrite CL in X. discriminate X. }
    unfold input_ready_handler.
    destruct (sg_a sg =? idx)%nat eqn:EA; cbn [negb].
    - (* the signal is for this handler *)
      apply Nat.eqb_eq in EA. pose proof (SPR (Nat.eq_le_incl _ _ (eq_sym EA))) as PS. unfold triple at 1 in PS. rewrite EA in PS.
      assert (INH : In (idx, sg_b sg, sg_data sg) mhd) by (eapply PSub_in; [exact PS|left; reflexivity]).
      seqs. step H1. seqs. eapply a_ev; [exact H1| |].
      { unfold mchk, mchk_all, mchk17, mchk18, mchk06.
        cbn [m_must T_INPUT T_READY T_SHOW T_SEPARATOR T_REFUSED T_PROMPT T_GOT T_WAITED Nat.eqb andb].
        rewrite hand_has_in by (cbn [m_hand]; exact INH).
        assert (NR : mchk_once {| m_stack := mstk; m_req := mreq; m_typed := mty; m_line := mln; m_istack := mist; m_proc := mpr;
                        m_hand := mhd; m_recv := mrc; m_fired := mfi; m_must := None; m_err := mer; m_follow := mfo;
                        m_prev := mpv; m_last := mls |} (EUser T_READY [idx; b2n (sg_b sg)] (sg_data sg)) || negb fresh = true).
        { destruct fresh eqn:F; [|apply orb_true_r].
          destruct (FreshInv_ready _ _ _ _ _ _ _ (c_fresh0 eq_refl) INH) as [_ NR].
          unfold mchk_once. cbn [T_READY Nat.eqb nth0 nth m_recv]. rewrite NR. reflexivity. }
        rewrite NR. destruct HQf as [->|[q ->]]; reflexivity. }
      intros s2 H2. cbv beta iota.
      destruct (sg_b sg) eqn:SB; cbn [negb]; rewrite ?SB in H2.
      + (* a successful result *)
        seqs. step H2. eapply a_rd; [exact H2|]. rewrite !ih_of_upd_ih. rewrite upd_ih_comp in H2.
        destruct (ih_cb (ih_of u idx)) eqn:CB.
        * (* the one-shot callback fires: InputManager.process_input of the owner *)
          assert (IL : idx < length (st_ih u)).
          { destruct (Nat.lt_ge_cases idx (length (st_ih u))) as [L|L]; [exact L|]. unfold ih_of in CB. rewrite nth_overflow in CB by exact L. discriminate CB. }
          assert (IL' : (idx <? length (st_ih u))%nat = true) by (apply Nat.ltb_lt, IL).
          destruct (c_cb_req0 _ CB) as [RQ FR]. destruct (c_owner0 _ CB) as [OL OP].
          rewrite len_upd_ih, Nat.eqb_refl, IL'. cbn [andb ih_cb ih_owner ih_args set].
          rewrite CB. rewrite (muser_ready_fire _ idx (sg_data sg) (ih_owner (ih_of u idx)) (ih_args (ih_of u idx))) in H2 by (cbn [m_req m_fired]; first [exact RQ|exact FR]).
          unfold ready_base in H2. mnorm H2.
          apply wpS_seq. step H2. rewrite upd_ih_comp in H2.
          (* the arguments of THIS request are put in place: _process_request_input *)
          apply wpS_seq. step H2.
          assert (OLb : (ih_owner (ih_of u idx) <? length (st_scr u))%nat = true) by (apply Nat.ltb_lt; rewrite c_nscr0; exact OL).
          eapply t_process_input; [exact HS|exact H2| |exact HQf|exact OL|exact OP| |].
          -- apply Core_upd_scr; [reflexivity|].
             eapply (Core_ready true true); [exact HC|reflexivity|reflexivity|reflexivity|reflexivity|reflexivity|intros _; split; assumption|exact PS].
          -- unfold scr_of, upd_scr, upd_ih. cbn [st_scr set]. rewrite nth_upd_nth, Nat.eqb_refl, OLb. reflexivity.
          -- intros o sx EO. apply FIN; [exact EO|]. intros LE. lia.
        * rewrite len_upd_ih. destruct ((idx =? idx)%nat && (idx <? length (st_ih u))%nat); cbn [ih_cb set]; rewrite CB.
          all: rewrite (muser_ready_nofire _ idx true (sg_data sg)) in H2
               by (right; cbn [m_req m_fired]; destruct (c_cb_no0 _ CB); auto).
          all: unfold ready_base in H2; mnorm H2.
          all: eapply a_ret; [exact H2|]; apply FIN; [|intros LE; lia].
          all: eapply EndOK_of; [exact H2| |reflexivity|unfold mchk07; cbn [m_follow]; destruct HQf as [->|[q ->]]; reflexivity].
          all: eapply (Core_ready false true); [exact HC|reflexivity|reflexivity|reflexivity|reflexivity|reflexivity|discriminate|exact PS].
      + (* a failed request: only the flags are set *)
        rewrite (muser_ready_nofire _ idx false (sg_data sg)) in H2 by (left; reflexivity).
        unfold ready_base in H2. mnorm H2.
        eapply a_ret; [exact H2|]. apply FIN; [|intros LE; lia].
        eapply EndOK_of; [exact H2| |reflexivity|unfold mchk07; cbn [m_follow]; destruct HQf as [->|[q ->]]; reflexivity].
        eapply (Core_ready false false); [exact HC|reflexivity|reflexivity|reflexivity|reflexivity|discriminate|discriminate|exact PS].
    - (* the signal is for another handler: nothing happens *)
      apply Nat.eqb_neq in EA.
      eapply a_ret; [exact H1|]. apply FIN.
      + eapply EndOK_of; [exact H1|exact HC|reflexivity|unfold mchk07; cbn [m_follow]; destruct HQf as [->|[q ->]]; reflexivity].
      + intros LE. split; [rewrite PL; apply PSub_refl|]. unfold s1. rewrite MW_emit, (at_m _ _ _ _ _ _ HAt). cbn [mstep]. rewrite hready_ne. reflexivity.
  Qed.

  (* ------------------------------------------------------------ the loop's own steps keep the invariant *)
  Lemma quiet_neutral m e : Quiet m -> neutral e = true -> mstep m e = m /\ mchk m e = true.
  Proof.
    intros [HQf HQm] NE. destruct m as [mstk mreq mty mln mist mpr mhd mrc mfi mmu mer mfo mpv mls]. cbn in HQf, HQm. subst mmu.
    destruct e; try discriminate NE; split; try reflexivity; destruct HQf as [->|[qq ->]]; reflexivity.
  Qed.

  Lemma Inv_of_At s m u l ex hs : At s m u l ex hs -> Core m u l ex hs -> Quiet m -> Inv s.
  Proof. apply At_Inv. Qed.

  Lemma Rk_refl s : Rk s s.
  Proof. right. split; reflexivity. Qed.
  Lemma Rk_trans a b c : Rk a b -> Rk b c -> Rk a c.
  Proof.
    unfold Rk, Keep. intros [H1|[H1 H1']] [H2|[H2 H2']]; auto.
    - left. congruence.
    - right. split; congruence.
  Qed.
  Lemma Rk_same_m s s' : MWs s' = MWs s -> ust s' = ust s -> Rk s s'.
  Proof. intros E1 E2. right. rewrite E1, E2. split; reflexivity. Qed.

  Lemma G_same s s' : same_fq s s' -> Inv s -> Inv s' /\ Rk s s'.
  Proof.
    intros (T & U1 & E & Qs & H) HI. assert (M : MWs s' = MWs s) by (apply MW_trace, T).
    split; [|apply Rk_same_m; assumption].
    destruct HI as (a & qk & C & Qt). unfold Inv. rewrite M, U1, E, H. unfold pendl, qsok in *. rewrite Qs.
    split; [eapply acc_trace; eauto|]. split; [exact qk|]. split; [exact C|exact Qt].
  Qed.
  Lemma G_same_sig s s' sg i : same_fq s s' -> SigPre sg i s -> SigPre sg i s'.
  Proof.
    intros (T & U1 & E & Qs & H) SP. assert (M : MWs s' = MWs s) by (apply MW_trace, T).
    unfold SigPre, pendl in *. rewrite M, E, Qs. exact SP.
  Qed.

  Lemma G_ev s e : neutral e = true -> Inv s -> Inv (emit e s) /\ Rk s (emit e s).
  Proof.
    intros NE HI. destruct (Inv_open_eq _ HI) as (m & u & hs & HAt & HC & HQt).
    destruct (quiet_neutral m e HQt NE) as [E1 E2].
    pose proof (At_emit _ _ _ _ _ _ e HAt E2) as H'. rewrite E1 in H'.
    split; [eapply At_Inv; eauto|]. apply Rk_same_m; [|reflexivity].
    rewrite MW_emit, (at_m _ _ _ _ _ _ HAt). exact E1.
  Qed.

  Lemma G_kill s : Inv s -> Dead (emit EKill s).
  Proof.
    intros HI. destruct (Inv_open_eq _ HI) as (m & u & hs & HAt & HC & HQt).
    assert (E : mstep m EKill = m /\ mchk m EKill = true).
    { destruct HQt as [HQf HQm]. destruct m as [mstk mreq mty mln mist mpr mhd mrc mfi mmu mer mfo mpv mls]. cbn in HQf, HQm. subst mmu.
      split; [reflexivity|]. destruct HQf as [->|[q ->]]; reflexivity. }
    destruct E as [E1 E2]. pose proof (At_emit _ _ _ _ _ _ EKill HAt E2) as H'. rewrite E1 in H'.
    split; [apply (at_a _ _ _ _ _ _ H')|]. rewrite (at_m _ _ _ _ _ _ H'). exact HQt.
  Qed.

  Lemma G_unwind s h sid : Dead s -> Dead (emit (EHandlerEnd h sid (Some XSysExit)) s).
  Proof.
    intros [HA [HQf HQm]]. split.
    - apply acc_emit. split; [exact HA|]. remember (MWs s) as m.
      destruct m as [mstk mreq mty mln mist mpr mhd mrc mfi mmu mer mfo mpv mls]. cbn in HQf, HQm. subst mmu.
      destruct HQf as [->|[q ->]]; reflexivity.
    - rewrite MW_emit. split; [left; reflexivity|reflexivity].
  Qed.

  Lemma quiet_passive m e : Quiet m ->
    match e with EDispatch _ _ _ | ERequeue _ _ | EExt _ | ERegSource _ _ | ERegHandler _ _ _ | ESetQuitCb _ | EKill
               | ESigNew _ _ _ _ | EEnq _ _ | EDropped _ => True | _ => False end ->
    mstep m e = m /\ mchk m e = true.
  Proof.
    intros [HQf HQm] NE. destruct m as [mstk mreq mty mln mist mpr mhd mrc mfi mmu mer mfo mpv mls]. cbn in HQf, HQm. subst mmu.
    destruct e; try contradiction; split; destruct HQf as [->|[qq ->]]; reflexivity.
  Qed.

  Lemma At_emit_passive s m u l ex hs e : At s m u l ex hs -> Quiet m ->
    match e with EDispatch _ _ _ | ERequeue _ _ | EExt _ | ERegSource _ _ | ERegHandler _ _ _ | ESetQuitCb _ | EKill
               | ESigNew _ _ _ _ | EEnq _ _ | EDropped _ => True | _ => False end ->
    At (emit e s) m u l ex hs.
  Proof.
    intros HAt HQt P. destruct (quiet_passive m e HQt P) as [E1 E2].
    pose proof (At_emit _ _ _ _ _ _ e HAt E2) as H'. rewrite E1 in H'. exact H'.
  Qed.

  Lemma At_set_q s m u l ex hs q v l' : At s m u l ex hs -> qok v -> PSub (pendl (set_q s q v)) l' ->
    At (set_q s q v) m u l' ex hs.
  Proof.
    intros [Hm Hu Hl He Hh Hq Ha] K P. constructor; [|exact Hu|exact P|exact He|exact Hh| |].
    - rewrite <- Hm. apply MW_trace. reflexivity.
    - apply qsok_set_q; assumption.
    - eapply acc_trace; [|exact Ha]. reflexivity.
  Qed.

  Lemma Rk_of_At s s' m u l ex hs l' ex' hs' : At s m u l ex hs -> At s' m u l' ex' hs' -> Rk s s'.
  Proof. intros A1 A2. apply Rk_same_m; [rewrite (at_m _ _ _ _ _ _ A1), (at_m _ _ _ _ _ _ A2)|rewrite (at_u _ _ _ _ _ _ A1), (at_u _ _ _ _ _ _ A2)]; reflexivity. Qed.

  Lemma pop_in_range s p c sg q' : q_pop (get_q s (active s)) = Some ((p, c, sg), q') -> active s < length (qstore s).
  Proof.
    intros P. destruct (Nat.lt_ge_cases (active s) (length (qstore s))) as [L|L]; [exact L|].
    rewrite get_q_out in P by exact L. discriminate P.
  Qed.

  Lemma G_pop s p c sg q' : Inv s -> q_pop (get_q s (active s)) = Some ((p, c, sg), q') ->
    let s1 := emit (EDispatch (sg_id sg) (active s) (length (levels s))) (set_q s (active s) q') in
    Inv s1 /\ Rk s s1 /\ SigPre sg 0 s1.
  Proof.
    intros HI P. cbn zeta. destruct (Inv_open_eq _ HI) as (m & u & hs & HAt & HC & HQt).
    pose proof (pop_in_range _ _ _ _ _ P) as L.
    destruct (q_pop_pq _ _ _ _ _ (qok_nth s (active s) (at_q _ _ _ _ _ _ HAt)) P) as (PM & K1 & _ & _).
    pose proof (pendl_set_q_del s (active s) q' sg L PM) as PD.
    set (s0 := set_q s (active s) q') in *.
    assert (H0 : At s0 m u (pendl s0) (ext s) hs) by (eapply At_set_q; [exact HAt|exact K1|apply PSub_refl]).
    assert (SUB : PSub (pendl s0) (pendl s)).
    { exists [sg]. eapply perm_trans; [exact PD|]. apply Permutation_cons_append. }
    assert (C0 : Core m u (pendl s0) (ext s) hs) by (eapply Core_sub; eauto).
    pose proof (At_emit_passive _ _ _ _ _ _ (EDispatch (sg_id sg) (active s) (length (levels s))) H0 HQt I) as H1.
    split; [eapply At_Inv; eauto|]. split; [eapply Rk_of_At; eauto|].
    assert (INS : In sg (pendl s)) by (eapply Permutation_in; [apply Permutation_sym, PD|left; reflexivity]).
    unfold SigPre. rewrite (at_m _ _ _ _ _ _ H1).
    change (pendl (emit (EDispatch (sg_id sg) (active s) (length (levels s))) s0)) with (pendl s0).
    change (ext (emit (EDispatch (sg_id sg) (active s) (length (levels s))) s0)) with (ext s).
    split.
    - intros CL _. eapply PSub_perm; [|exact (c_p_ready _ _ _ _ _ HC)].
      assert (PF : Permutation (map triple (filter isready (pendl s))) (map triple (filter isready (sg :: pendl s0))))
        by (apply Permutation_map, perm_filter, PD).
      cbn [filter] in PF. unfold isready at 2 in PF. rewrite CL, Nat.eqb_refl in PF. cbn [map] in PF. exact PF.
    - intros CL _. split; [apply (c_p_recv _ _ _ _ _ HC _ INS CL)|].
      pose proof (c_fl_cnt _ _ _ _ _ HC) as CNT.
      assert (PF : Permutation (filter isrecv (pendl s)) (filter isrecv (sg :: pendl s0))) by (apply perm_filter, PD).
      apply Permutation_length in PF. cbn [filter] in PF. unfold isrecv at 2 in PF. rewrite CL, Nat.eqb_refl in PF. cbn [length] in PF.
      split; apply length_zero_nil; lia.
  Qed.

  Lemma G_requeue s p c sg q' : Inv s -> q_pop (get_q s (active s)) = Some ((p, c, sg), q') ->
    let s1 := emit (ERequeue (sg_id sg) (active s)) (set_q s (active s) (q_put_entry q' (p, c, sg))) in
    Inv s1 /\ Rk s s1.
  Proof.
    intros HI P. cbn zeta. destruct (Inv_open_eq _ HI) as (m & u & hs & HAt & HC & HQt).
    destruct (q_pop_pq _ _ _ _ _ (qok_nth s (active s) (at_q _ _ _ _ _ _ HAt)) P) as (_ & _ & K2 & PM).
    pose proof (pendl_set_q_same s (active s) _ PM) as PD.
    assert (H0 : At (set_q s (active s) (q_put_entry q' (p, c, sg))) m u (pendl s) (ext s) hs).
    { eapply At_set_q; [exact HAt|exact K2|]. eapply PSub_perm; [apply Permutation_sym, PD|apply PSub_refl]. }
    pose proof (At_emit_passive _ _ _ _ _ _ (ERequeue (sg_id sg) (active s)) H0 HQt I) as H1.
    split; [eapply At_Inv; eauto|eapply Rk_of_At; eauto].
  Qed.

  Lemma At_new_signal s m u l ex hs sp : At s m u l ex hs -> Quiet m -> At (snd (new_signal s sp)) m u l ex hs.
  Proof.
    intros HAt HQt. unfold new_signal. cbn [snd].
    apply (At_emit_passive _ _ _ _ _ _ (ESigNew (next_sig s) (sp_cls sp) (sp_prio sp) (sp_src sp))); [|exact HQt|exact I].
    eapply At_same; [exact HAt|reflexivity..].
  Qed.

  Lemma At_do_enqueue s m u l ex hs sg : At s m u l ex hs -> Quiet m -> At (do_enqueue s sg) m u (sg :: l) ex hs.
  Proof.
    intros HAt HQt.
    destruct (do_enqueue_facts s sg (at_q _ _ _ _ _ _ HAt)) as (Eu & Ee & Eh & Eq & Ep & (e & Ee2 & Et)).
    destruct HAt as [Hm Hu Hl He Hh Hq Ha].
    assert (PE : mstep m e = m /\ mchk m e = true) by (apply quiet_passive; [exact HQt|destruct Ee2 as [->|[q ->]]; exact I]).
    destruct PE as [E1 E2].
    constructor.
    - unfold MW, SW. rewrite Et. cbn [rev]. rewrite fold_left_app. cbn [fold_left].
      change (fold_left sworld_step (rev (trace s)) (sworld0 typed)) with (SW typed s).
      rewrite abs_step. change (absw (SW typed s)) with (MWs s). rewrite Hm. exact E1.
    - congruence.
    - eapply PSub_trans; [exact Ep|]. destruct Hl as [r Pr]. exists r. cbn. apply perm_skip, Pr.
    - congruence.
    - congruence.
    - exact Eq.
    - unfold acc, sacc. rewrite Et. cbn [rev]. apply sok_snoc. split; [exact Ha|].
      change (fold_left sworld_step (rev (trace s)) (sworld0 typed)) with (SW typed s).
      unfold chk_all. change (absw (SW typed s)) with (MWs s). rewrite Hm. exact E2.
  Qed.

  Lemma Core_ext_move m u l sp r hs id :
    Core m u l (sp :: r) hs -> Core m u (mk_signal id sp :: l) r hs.
  Proof.
    intros C. destruct (c_e_recv _ _ _ _ _ C sp (or_introl eq_refl)) as [CL DT].
    assert (R1 : isready (mk_signal id sp) = false) by (unfold isready; cbn; rewrite CL; reflexivity).
    assert (R2 : isrecv (mk_signal id sp) = true) by (unfold isrecv; cbn; rewrite CL; reflexivity).
    destruct C. constructor; auto.
    - cbn [filter]. rewrite R1. assumption.
    - intros sg [<-|I] E; [exact DT|auto].
    - intros sp' I. apply c_e_recv0. right. exact I.
    - cbn [filter]. rewrite R2. cbn [length] in *. lia.
    - cbn [filter]. rewrite R2. cbn [length] in *. intros H. apply c_fl_proc0. lia.
  Qed.

  Lemma G_ext s sp r : Inv s -> ext s = sp :: r -> q_pop (get_q s (active s)) = None ->
    let '(sg, s1) := new_signal (s <| ext := r |>) sp in
    let s2 := do_enqueue (emit (EExt (sg_id sg)) s1) sg in Inv s2 /\ Rk s s2.
  Proof.
    intros HI EX _. destruct (Inv_open_eq _ HI) as (m & u & hs & HAt & HC & HQt). rewrite EX in *.
    assert (H0 : At (s <| ext := r |>) m u (pendl s) r hs).
    { destruct HAt as [Hm Hu Hl He Hh Hq Ha]. constructor; [|exact Hu|exact Hl|reflexivity|exact Hh|exact Hq|].
      - rewrite <- Hm. apply MW_trace. reflexivity.
      - eapply acc_trace; [|exact Ha]. reflexivity. }
    pose proof (At_new_signal _ _ _ _ _ _ sp H0 HQt) as H1.
    unfold new_signal in *. cbn [snd] in H1.
    set (s1 := emit (ESigNew (next_sig (s <| ext := r |>)) (sp_cls sp) (sp_prio sp) (sp_src sp)) (s <| ext := r |> <| next_sig := S (next_sig (s <| ext := r |>)) |>)) in *.
    set (sg := mk_signal (next_sig (s <| ext := r |>)) sp).
    pose proof (At_emit_passive _ _ _ _ _ _ (EExt (sg_id sg)) H1 HQt I) as H2.
    pose proof (At_do_enqueue _ _ _ _ _ _ sg H2 HQt) as H3.
    split; [|eapply Rk_of_At; eauto].
    eapply At_Inv; [exact H3| |exact HQt]. apply Core_ext_move, HC.
  Qed.

  Lemma G_exc s sg i : Inv s -> SigPre sg i s ->
    let s2 := do_enqueue (snd (new_signal s exception_spec)) (fst (new_signal s exception_spec)) in
    Inv s2 /\ Rk s s2 /\ SigPre sg i s2.
  Proof.
    intros HI SP. cbn zeta. destruct (Inv_open_eq _ HI) as (m & u & hs & HAt & HC & HQt).
    pose proof (At_new_signal _ _ _ _ _ _ exception_spec HAt HQt) as H1.
    pose proof (At_do_enqueue _ _ _ _ _ _ (fst (new_signal s exception_spec)) H1 HQt) as H2.
    set (s2 := do_enqueue _ _) in *.
    split; [eapply At_Inv; [exact H2| |exact HQt]; apply Core_cons_other; [discriminate|discriminate|exact HC]|].
    split; [eapply Rk_of_At; eauto|].
    unfold SigPre in *. rewrite (at_m _ _ _ _ _ _ H2), (at_e _ _ _ _ _ _ H2). rewrite (at_m _ _ _ _ _ _ HAt) in SP.
    destruct SP as [S1 S2]. pose proof (at_l _ _ _ _ _ _ H2) as PL. split.
    - intros CL LE. eapply PSub_trans; [|exact (S1 CL LE)]. apply PSub_cons_mono.
      pose proof (PSub_map triple _ _ (PSub_filter isready _ _ PL)) as X. cbn [filter] in X.
      change (isready (fst (new_signal s exception_spec))) with false in X. exact X.
    - intros CL E. destruct (S2 CL E) as (A & B & C). split; [exact A|]. split; [|exact C].
      pose proof (PSub_length _ _ (PSub_filter isrecv _ _ PL)) as LN. cbn [filter] in LN.
      change (isrecv (fst (new_signal s exception_spec))) with false in LN. rewrite B in LN. apply length_zero_nil. cbn in LN. lia.
  Qed.

  Lemma G_newsig s sp : okspec sp -> Inv s -> let s1 := snd (new_signal s sp) in Inv s1 /\ Rk s s1.
  Proof.
    intros _ HI. cbn zeta. destruct (Inv_open_eq _ HI) as (m & u & hs & HAt & HC & HQt).
    pose proof (At_new_signal _ _ _ _ _ _ sp HAt HQt) as H1.
    split; [eapply At_Inv; eauto|eapply Rk_of_At; eauto].
  Qed.

  Lemma G_newloop s sp : okspec sp -> Inv s ->
    let '(sg, s1) := new_signal s sp in
    force_quit s1 = false ->
    let q := length (qstore s1) in
    let s2 := s1 <| qstore := qstore s1 ++ [empty_queue] |> <| active := q |> <| levels := levels s1 ++ [q] |> in
    let s3 := do_enqueue (emit (ENewLoopEnter q) s2) sg in Inv s3 /\ Rk s s3.
  Proof.
    intros [O1 O2] HI. destruct (Inv_open_eq _ HI) as (m & u & hs & HAt & HC & HQt).
    pose proof (At_new_signal _ _ _ _ _ _ sp HAt HQt) as H1.
    unfold new_signal in *. cbn [snd] in H1.
    set (s1 := emit (ESigNew (next_sig s) (sp_cls sp) (sp_prio sp) (sp_src sp)) (s <| next_sig := S (next_sig s) |>)) in *.
    intros _. cbn zeta.
    set (s2 := s1 <| qstore := qstore s1 ++ [empty_queue] |> <| active := length (qstore s1) |> <| levels := levels s1 ++ [length (qstore s1)] |>).
    assert (H2 : At s2 m u (pendl s) (ext s) hs).
    { destruct H1 as [Hm Hu Hl He Hh Hq Ha]. constructor; [|exact Hu| |exact He|exact Hh| |].
      - rewrite <- Hm. apply MW_trace. reflexivity.
      - unfold pendl, s2. cbn [qstore set]. rewrite flat_map_app. cbn [flat_map pq eq_entries empty_queue map]. rewrite !app_nil_r. exact Hl.
      - unfold qsok, s2. cbn [qstore set]. apply Forall_app. split; [exact Hq|]. constructor; [split; cbn; constructor|constructor].
      - eapply acc_trace; [|exact Ha]. reflexivity. }
    destruct (quiet_neutral m (ENewLoopEnter (length (qstore s1))) HQt eq_refl) as [E1 E2].
    pose proof (At_emit _ _ _ _ _ _ _ H2 E2) as H3. rewrite E1 in H3.
    pose proof (At_do_enqueue _ _ _ _ _ _ (mk_signal (next_sig s) sp) H3 HQt) as H4.
    split; [|eapply Rk_of_At; eauto].
    eapply At_Inv; [exact H4| |exact HQt]. apply Core_cons_other; [exact O1|exact O2|exact HC].
  Qed.

  (* ------------------------------------------------------------ which handler body runs for which signal *)
  Lemma screen_code_ready idx sg data : screen_code specs (H_READY idx) sg data = input_ready_handler specs idx sg.
  Proof. unfold screen_code, H_READY, H_RENDER, H_CLOSE, H_RECEIVED. cbn. rewrite Nat.sub_0_r. reflexivity. Qed.

  Lemma screen_code_custom hid sg data : 3 <= hid < 10 -> screen_code specs hid sg data = custom_handler specs (hid - 3) sg data.
  Proof.
    intros B. unfold screen_code, H_RENDER, H_CLOSE, H_RECEIVED.
    assert (E0 : (hid =? 0)%nat = false) by (apply Nat.eqb_neq; lia).
    assert (E1 : (hid =? 1)%nat = false) by (apply Nat.eqb_neq; lia).
    assert (E2 : (hid =? 2)%nat = false) by (apply Nat.eqb_neq; lia).
    assert (E3 : (10 <=? hid)%nat = false) by (apply Nat.leb_gt; lia).
    assert (E4 : (3 <=? hid)%nat = true) by (apply Nat.leb_le; lia).
    rewrite E0, E1, E2, E3, E4. reflexivity.
  Qed.

  (* a screen's own signal callback: like any callback running commands *)
  Lemma IT_custom_handler k sg scr : IT (custom_handler specs k sg scr).
  Proof.
    unfold custom_handler. apply IT_seq; [apply IT_ev_plain; reflexivity|]. apply IT_run_cmds.
    pose proof (Hwf scr) as H. unfold spec_wf in H. apply andb_true_iff in H. destruct H as [_ H].
    rewrite forallb_forall in H. destruct (nth_in_or_default k (sc_custom (specs scr)) []) as [I|E]; [apply H, I|rewrite E; reflexivity].
  Qed.

  Lemma G_handler n : SP n -> forall s sg idx hs0 hid data,
    Inv s -> SigPre sg idx s -> force_quit s = false ->
    handlers_of s (sg_cls sg) = Some hs0 -> nth_error hs0 idx = Some (hid, data) ->
    W n (screen_code specs hid sg data)
      (fun o s2 => let s3 := emit (EHandlerEnd hid (sg_id sg) (how_of o)) s2 in Inv s3 /\ Rk s s3 /\ SigPre sg (S idx) s3)
      (emit (EHandler hid (sg_id sg) data) s).
  Proof.
    intros HS s sg idx hs0 hid data HI SP _ HF NE.
    change (fun o s2 => let s3 := emit (EHandlerEnd hid (sg_id sg) (how_of o)) s2 in Inv s3 /\ Rk s s3 /\ SigPre sg (S idx) s3)
      with (HPost s sg idx hid).
    assert (HT : HsOK (length (st_ih (ust s))) (handlers s)) by (destruct HI as (_ & _ & C & _); apply (c_hs _ _ _ _ _ C)).
    assert (HL : hlist (handlers s) (sg_cls sg) = hs0) by (unfold hlist; unfold handlers_of in HF; rewrite HF; reflexivity).
    destruct HT as (T1 & T2 & T3 & T4 & T5).
    destruct (Nat.eq_dec (sg_cls sg) CLS_RENDER) as [CL|N1]; [rewrite CL, T1 in HL; subst hs0|].
    { destruct idx as [|[|idx]]; cbn in NE; try discriminate NE. inversion NE; subst hid data.
      apply handler_of_IT; [apply IT_process_screen|exact HS|exact HI|discriminate|rewrite CL; discriminate|rewrite CL; discriminate]. }
    destruct (Nat.eq_dec (sg_cls sg) CLS_CLOSE) as [CL|N2]; [rewrite CL, T2 in HL; subst hs0|].
    { destruct idx as [|[|idx]]; cbn in NE; try discriminate NE. inversion NE; subst hid data.
      apply handler_of_IT; [apply IT_close_screen|exact HS|exact HI|discriminate|rewrite CL; discriminate|rewrite CL; discriminate]. }
    destruct (Nat.eq_dec (sg_cls sg) CLS_RECEIVED) as [CL|N3]; [rewrite CL, T3 in HL; subst hs0|].
    { destruct idx as [|[|idx]]; cbn in NE; try discriminate NE. inversion NE; subst hid data.
      apply H_received; assumption. }
    destruct (Nat.eq_dec (sg_cls sg) CLS_READY) as [CL|N4]; [rewrite CL, T4 in HL; subst hs0|].
    { rewrite nth_error_map in NE. destruct (nth_error (seq 0 (length (st_ih (ust s)))) idx) as [j|] eqn:E; [|discriminate NE].
      cbn in NE. inversion NE; subst hid data.
      assert (j = idx).
      { assert (L : idx < length (seq 0 (length (st_ih (ust s))))) by (apply nth_error_Some; congruence).
        rewrite seq_length in L. rewrite (nth_error_nth' _ 0) in E by (rewrite seq_length; exact L).
        rewrite seq_nth in E by exact L. inversion E. reflexivity. }
      subst j. rewrite screen_code_ready. apply H_ready; assumption. }
    (* one of the application's own signal classes: a screen's callback *)
    assert (C : sg_cls sg = 0 \/ 5 <= sg_cls sg) by (unfold CLS_RENDER, CLS_CLOSE, CLS_RECEIVED, CLS_READY in *; lia).
    specialize (T5 _ C). rewrite HL in T5. rewrite Forall_forall in T5. pose proof (T5 _ (nth_error_In _ _ NE)) as B. cbn [fst] in B.
    rewrite (screen_code_custom _ _ _ B).
    apply handler_of_IT; [apply IT_custom_handler|exact HS|exact HI|unfold H_RECEIVED; lia|exact N4|exact N3].
  Qed.

  Theorem screen_spec_all : forall n, SP n.
  Proof.
    apply spec_all.
    - intros s HI. apply HI.
    - intros s HD. apply HD.
    - apply Rk_refl.
    - apply Rk_trans.
    - apply G_same.
    - apply G_same_sig.
    - intros s e NE. apply G_ev, neutral0_neutral, NE.
    - apply G_kill.
    - apply G_unwind.
    - apply G_pop.
    - apply G_requeue.
    - apply G_ext.
    - apply G_exc.
    - apply G_newsig.
    - apply G_newloop.
    - apply G_handler.
  Qed.

  (* ------------------------------------------------------------ sessions *)
  Lemma Inv_top s : Inv s -> Inv (emit ETop s).
  Proof.
    intros HI. destruct (Inv_open_eq _ HI) as (m & u & hs & HAt & HC & HQt).
    destruct m as [mstk mreq mty mln mist mpr mhd mrc mfi mmu mer mfo mpv mls]. destruct HQt as [HQf HQm]. cbn in HQf, HQm. subst mmu.
    assert (C : mchk {| m_stack := mstk; m_req := mreq; m_typed := mty; m_line := mln; m_istack := mist; m_proc := mpr;
                        m_hand := mhd; m_recv := mrc; m_fired := mfi; m_must := None; m_err := mer; m_follow := mfo;
                        m_prev := mpv; m_last := mls |} ETop = true) by (destruct HQf as [->|[q ->]]; reflexivity).
    pose proof (At_emit _ _ _ _ _ _ _ HAt C) as H'. mnorm H'.
    eapply At_Inv; [exact H'| |split; [left; reflexivity|reflexivity]].
    core_open HC. core_auto.
  Qed.

  Lemma res_acc Q o s : (forall o s, Q o s -> acc s) -> res acc Dead Q o s -> acc s.
  Proof. intros H R. destruct o as [|[| |]| |]; cbn in R; try exact R; try (eapply H; exact R). apply R. Qed.

  Theorem session_acc fuel : forall acts s, Inv s -> acts_wf N fresh acts = true ->
    acc (snd (app_session specs fuel acts s)).
  Proof.
    induction acts as [|a r IH]; intros s HI WF; cbn [app_session snd]; [apply HI|].
    cbn [acts_wf forallb] in WF. apply andb_true_iff in WF. destruct WF as [W1 W2].
    pose proof (Inv_top s HI) as HT.
    assert (STEP : forall o s1, res acc Dead (fun _ s' => Inv s') o s1 ->
              acc (snd (match o with
                        | OBlocked | OFuel | OThrow XSysExit => ([o], s1)
                        | _ => let '(os, s2) := app_session specs fuel r s1 in (o :: os, s2)
                        end))).
    { intros o s1 R. destruct o as [|[| |]| |]; cbn in R; cbn [snd]; try exact R; try (apply R).
      all: specialize (IH s1 R W2); destruct (app_session specs fuel r s1) as [os s2]; exact IH. }
    destruct a as [l|].
    - destruct (exec (screen_code specs) fuel (CProg (run_cmds specs 0 0 l)) (emit ETop s)) as [o s1] eqn:E.
      apply STEP.
      destruct (IT_run_cmds 0 0 l W1 fuel (fun _ s' => Inv s') (emit ETop s) (screen_spec_all fuel) HT (fun _ _ H => H)) as [_ HW].
      apply (HW fuel (le_n _) _ _ E).
    - destruct (st_stack (ust s)) as [|d st] eqn:ES; [destruct (st_run_empty (ust s))|].
      + destruct (exec (screen_code specs) fuel CRun (emit ETop s)) as [o s1] eqn:E. apply STEP.
        eapply res_mono; [|apply (screen_spec_all fuel fuel (le_n _) CRun (emit ETop s) o s1 I HT I E)].
        intros o0 s0 [H _]. exact H.
      + apply (STEP (OThrow XError) (emit ETop s)). cbn. exact HT.
      + destruct (exec (screen_code specs) fuel CRun (emit ETop s)) as [o s1] eqn:E. apply STEP.
        eapply res_mono; [|apply (screen_spec_all fuel fuel (le_n _) CRun (emit ETop s) o s1 I HT I E)].
        intros o0 s0 [H _]. exact H.
  Qed.
End Scr.

(* ====================================================================== Part 3: every session *)
Lemma spec_wf_default n fresh : spec_wf n fresh default_spec = true.
Proof. reflexivity. Qed.

Lemma Inv_init specs specl typed quit run_empty nosep fresh o s1 :
  exec (screen_code specs) 20 (CProg app_initialize) (init_state (sstate0 specl typed quit run_empty)) = (o, s1) ->
  Inv specs (length specl) typed quit nosep fresh s1.
Proof.
  intros E. cbn in E. inversion E; subst o s1. clear E.
  unfold Inv. split; [reflexivity|]. split; [repeat constructor|]. split.
  - unfold MW, SW, pendl. cbn.
    assert (D : forall n, nth n (@nil ihandler) {| ih_src := None; ih_owner := 0; ih_cb := false; ih_received := false; ih_success := false; ih_value := None; ih_args := 0 |} =
                          {| ih_src := None; ih_owner := 0; ih_cb := false; ih_received := false; ih_success := false; ih_value := None; ih_args := 0 |})
      by (intros [|n]; reflexivity).
    constructor; cbn [m_stack m_req m_typed m_line m_istack m_proc m_hand m_recv m_fired m_must m_err m_follow m_prev merr_of
                      st_stack st_istack st_processing st_typed st_ih st_quit st_scr sstate0 map length].
    + reflexivity. + reflexivity. + reflexivity. + reflexivity.
    + intros scr _ _. unfold scr_of. cbn. rewrite (map_nth scr0). reflexivity.
    + intros n. unfold ih_of. cbn [st_ih]. rewrite D. cbn. discriminate.
    + intros n _. left. reflexivity.
    + intros n _. split; reflexivity.
    + intros n. unfold ih_of. cbn [st_ih]. rewrite D. cbn. discriminate.
    + intros n. unfold ih_of. cbn [st_ih]. rewrite D. cbn. discriminate.
    + intros n. unfold ih_of. cbn [st_ih]. rewrite D. cbn. discriminate.
    + intros _. constructor; cbn; [intros k X; discriminate X|apply NoDup_nil|intros x []|apply NoDup_nil|intros k []].
    + intros pa X. discriminate X.
    + reflexivity.
    + apply map_length.
    + intros d [].
    + unfold HsOK, hlist. cbn. repeat split; try reflexivity. intros cls C.
      destruct cls as [|[|[|[|cls]]]]; cbn; try constructor; exfalso; lia.
    + apply PSub_refl.
    + intros sg [].
    + intros sp [].
    + cbn. lia.
    + cbn. discriminate.
  - split; [left; reflexivity|reflexivity].
Qed.

Lemma wf_specs_all fresh specs specl : (forall n, specs n = nth n specl default_spec) ->
  forallb (spec_wf (length specl) fresh) specl = true ->
  forall scr, spec_wf (length specl) fresh (specs scr) = true.
Proof.
  intros HS WF scr. rewrite HS. destruct (Nat.lt_ge_cases scr (length specl)) as [L|L].
  - rewrite forallb_forall in WF. apply WF. apply nth_In, L.
  - rewrite nth_overflow by exact L. apply spec_wf_default.
Qed.

Lemma nosep_nth specs specl : (forall n, specs n = nth n specl default_spec) ->
  forall scr, nth scr (map sc_no_separator specl) false = sc_no_separator (specs scr).
Proof. intros HS scr. rewrite HS. change false with (sc_no_separator default_spec). apply map_nth. Qed.

Lemma forallb_and_split {A} (f g h : A -> bool) l : Forall (fun c => f c = g c && h c) l ->
  forallb f l = forallb g l && forallb h l.
Proof.
  induction 1 as [|x r Hx Hr IH]; cbn; [reflexivity|]. rewrite Hx, IH.
  destruct (g x), (h x), (forallb g r), (forallb h r); reflexivity.
Qed.

Lemma scmd_wf_fresh N c :
  scmd_wf N true c = scmd_wf N false c && scmd_noask c.
Proof.
  induction c using scmd_ind'.
  - destruct c; try contradiction; cbn; rewrite ?andb_true_r; reflexivity.
  - cbn [scmd_wf scmd_noask]. rewrite (forallb_and_split _ _ _ t H), (forallb_and_split _ _ _ e H0).
    destruct (forallb (scmd_wf N false) t), (forallb scmd_noask t),
             (forallb (scmd_wf N false) e), (forallb scmd_noask e); reflexivity.
Qed.

Lemma cmds_wf_fresh N l :
  cmds_wf N true l = cmds_wf N false l && forallb scmd_noask l.
Proof. unfold cmds_wf. apply forallb_and_split. apply Forall_forall. intros c _. apply scmd_wf_fresh. Qed.

(* a well-formed session without InputHandler objects of the application's own *)
Lemma wf_session_fresh specl quit acts :
  wf_session_gen false specl quit acts = true -> no_handler_objects specl acts = true ->
  wf_session_gen true specl quit acts = true.
Proof.
  unfold wf_session_gen, no_handler_objects. intros W NO.
  apply andb_true_iff in W. destruct W as [W W3]. apply andb_true_iff in W. destruct W as [W1 W2].
  apply andb_true_iff in NO. destruct NO as [N1 N2].
  apply andb_true_iff. split; [apply andb_true_iff; split|].
  - rewrite forallb_forall in *. intros sp I. specialize (W1 sp I). specialize (N1 sp I).
    unfold spec_wf, spec_noask in *. rewrite !cmds_wf_fresh.
    repeat (apply andb_true_iff in W1; destruct W1 as [W1 ?]). repeat (apply andb_true_iff in N1; destruct N1 as [N1 ?]).
    repeat (apply andb_true_iff; split); try assumption.
    all: rewrite forallb_forall in *; intros x Ix; rewrite cmds_wf_fresh; apply andb_true_iff; split; auto.
  - exact W2.
  - unfold acts_wf in *. rewrite forallb_forall in *. intros a I. specialize (W3 a I). specialize (N2 a I).
    destruct a; [|reflexivity]. rewrite cmds_wf_fresh. apply andb_true_iff. split; assumption.
Qed.

(* every event of every well-formed session is accepted by the acceptors together *)
Theorem all_accepted fresh specs specl typed quit run_empty fuel acts :
  (forall n, specs n = nth n specl default_spec) ->
  wf_session_gen fresh specl quit acts = true ->
  sok (chk_all fresh quit (map sc_no_separator specl)) typed
      (rev (trace (snd (app_run_all specs specl typed quit run_empty fuel acts)))) = true.
Proof.
  intros HS WF. unfold wf_session_gen in WF.
  apply andb_true_iff in WF. destruct WF as [WF W3]. apply andb_true_iff in WF. destruct WF as [W1 W2].
  unfold app_run_all.
  destruct (exec (screen_code specs) 20 (CProg app_initialize) (init_state (sstate0 specl typed quit run_empty))) as [o s1] eqn:E.
  apply (session_acc specs (length specl) typed quit (map sc_no_separator specl) fresh
           (wf_specs_all fresh specs specl HS W1) W2 (nosep_nth specs specl HS) fuel acts s1).
  - eapply Inv_init; exact E.
  - exact W3.
Qed.
