(* C12Proofs.v — the window part of C12: a WindowContainer renders to its title block followed by
   the concatenation of its items' own renders; plus the independence of `render` from spare fuel.
   (Paging: proofs/PagingProofs.v; prompt: proofs/PromptProofs.v.) *)
From SL Require Import Tac.
From SL Require Import PyInt Widget TextWrap KeyPattern Containers Paging proofs.PagingProofs.
Import ListNotations.

(* ---- drawing at the end of a buffer appends ---------------------------------------------- *)
Lemma put_line_nil s : put_line [] 0 s = s.
Proof.
  unfold put_line. cbn [app Nat.add length firstn]. rewrite Nat.sub_0_r.
  rewrite skipn_all2 by (rewrite repeat_length; lia). apply app_nil_r.
Qed.

Lemma overlay_nil src : overlay [] 0 src = src.
Proof. induction src as [|s src IH]; [reflexivity|]. cbn [overlay]. now rewrite put_line_nil, IH. Qed.

Lemma draw_at_end b src : draw_at b (length b) 0 src = b ++ src.
Proof.
  induction b as [|l b IH]; cbn [length draw_at app]; [apply overlay_nil | now rewrite IH].
Qed.

(* a non-block draw at the cursor (length b, 0) appends and leaves the cursor at the new end *)
Lemma draw_end b src : draw b (length b) 0 false src = (b ++ src, (length (b ++ src), 0)).
Proof. unfold draw. now rewrite draw_at_end, app_length. Qed.

(* ---- the items of a window --------------------------------------------------------------- *)
Section Items.
  Variable r : wtree -> Z -> rres buffer.

  Lemma draw_items_plain_ok : forall items ibs w b,
    Forall2 (fun it ib => r it w = ROk ib) items ibs ->
    draw_items_plain r items w b (length b) = ROk (b ++ concat ibs).
  Proof.
    induction items as [|it items IH]; intros ibs w b HF; inversion HF as [|? ib ? ibs' Hit HF']; subst.
    - cbn [draw_items_plain concat]. now rewrite app_nil_r.
    - cbn [draw_items_plain]. rewrite Hit. cbn [bind]. rewrite draw_end.
      rewrite (IH ibs' w (b ++ ib) HF'). cbn [concat]. now rewrite app_assoc.
  Qed.

  Lemma draw_items_plain_inv : forall items w b b',
    draw_items_plain r items w b (length b) = ROk b' ->
    exists ibs, Forall2 (fun it ib => r it w = ROk ib) items ibs /\ b' = b ++ concat ibs.
  Proof.
    induction items as [|it items IH]; intros w b b' Hd; cbn [draw_items_plain] in Hd.
    - exists []. split; [constructor|]. cbn [concat]. rewrite app_nil_r. congruence.
    - destruct (r it w) as [ib| |] eqn:Hit; cbn [bind] in Hd; try discriminate Hd.
      rewrite draw_end in Hd. destruct (IH w (b ++ ib) b' Hd) as (ibs & HF & Hb').
      exists (ib :: ibs). split; [now constructor|]. cbn [concat]. now rewrite app_assoc.
  Qed.
End Items.

(* ---- the window -------------------------------------------------------------------------- *)
Lemma window_untitled_fuel f title items w :
  (title = None \/ exists t, title = Some t /\ t_text t = []) ->
  render (S f) (WWindow title items) w = draw_items_plain (render f) items w [] 0.
Proof.
  intros [->|(t & -> & Ht)]; cbn [render]; [reflexivity|]. rewrite Ht. reflexivity.
Qed.

Lemma window_titled_fuel f t items w :
  t_text t <> [] ->
  render (S f) (WWindow (Some t) items) w =
  match render_text t w with
  | ROk tb => draw_items_plain (render f) items w (tb ++ [[]]) (length (tb ++ [[]]))
  | RValueError => RValueError
  | ROutOfModel => ROutOfModel
  end.
Proof.
  intros Ht. cbn [render]. destruct (t_text t) as [|c s] eqn:E; [congruence|].
  destruct (render_text t w) as [tb| |]; cbn [bind]; try reflexivity.
  change (draw [] 0 0 false tb) with (draw [] (length (@nil line)) 0 false tb). rewrite draw_end.
  cbn [app]. unfold render_sep. cbn [repeat]. rewrite draw_end. reflexivity.
Qed.

(* ---- spare fuel does not matter ----------------------------------------------------------- *)
Section Ext.
  Variables r1 r2 : wtree -> Z -> rres buffer.

  Lemma draw_items_block_ext : forall items w b row col,
    (forall it, In it items -> forall w', r1 it w' = r2 it w') ->
    draw_items_block r1 items w b row col = draw_items_block r2 items w b row col.
  Proof.
    induction items as [|it items IH]; intros w b row col Hext; [reflexivity|].
    cbn [draw_items_block]. rewrite (Hext it (or_introl eq_refl) w).
    destruct (r2 it w) as [ib| |]; cbn [bind]; try reflexivity.
    unfold draw. apply IH. intros it' Hin. apply Hext. now right.
  Qed.

  Lemma render_columns_ext : forall cols spacing width b col_pos,
    (forall c it, In c cols -> In it (snd c) -> forall w', r1 it w' = r2 it w') ->
    render_columns r1 cols spacing width b col_pos = render_columns r2 cols spacing width b col_pos.
  Proof.
    induction cols as [|[cw items] cols IH]; intros spacing width b col_pos Hext; [reflexivity|].
    cbn [render_columns]. destruct (nat_of_Z col_pos) as [cp| |]; cbn [bind]; try reflexivity.
    destruct cw as [cw|].
    - rewrite (draw_items_block_ext items cw b 0 cp)
        by (intros it Hin; apply (Hext (Some cw, items) it (or_introl eq_refl) Hin)).
      destruct (draw_items_block r2 items cw b 0 cp) as [res| |]; cbn [bind]; try reflexivity.
      apply IH. intros c it Hc Hit. apply (Hext c it (or_intror Hc) Hit).
    - rewrite (draw_items_block_ext items (width - col_pos)%Z b 0 cp)
        by (intros it Hin; apply (Hext (None, items) it (or_introl eq_refl) Hin)).
      destruct (draw_items_block r2 items (width - col_pos)%Z b 0 cp) as [res| |]; cbn [bind]; try reflexivity.
      apply IH. intros c it Hc Hit. apply (Hext c it (or_intror Hc) Hit).
  Qed.

  Lemma render_all_items_ext : forall items item_id columns_width kp,
    (forall it, In it items -> forall w', r1 it w' = r2 it w') ->
    render_all_items r1 items item_id columns_width kp = render_all_items r2 items item_id columns_width kp.
  Proof.
    induction items as [|it items IH]; intros item_id columns_width kp Hext; [reflexivity|].
    cbn [render_all_items].
    assert (Hrest : forall i, render_all_items r1 items i columns_width kp = render_all_items r2 items i columns_width kp).
    { intros i. apply IH. intros it' Hin. apply Hext. now right. }
    destruct (columns_width <=? 0)%Z; [reflexivity|].
    destruct kp as [kp'|].
    - destruct (label_buffer kp' item_id) as [lb| |]; cbn [bind]; try reflexivity.
      destruct (columns_width - Z.of_nat (length (get_widget_label kp' item_id)) <=? 0)%Z; [reflexivity|].
      rewrite (Hext it (or_introl eq_refl)). now rewrite Hrest.
    - rewrite (Hext it (or_introl eq_refl)). now rewrite Hrest.
  Qed.

  Lemma draw_items_plain_ext : forall items w b row,
    (forall it, In it items -> forall w', r1 it w' = r2 it w') ->
    draw_items_plain r1 items w b row = draw_items_plain r2 items w b row.
  Proof.
    induction items as [|it items IH]; intros w b row Hext; [reflexivity|].
    cbn [draw_items_plain]. rewrite (Hext it (or_introl eq_refl) w).
    destruct (r2 it w) as [ib| |]; cbn [bind]; try reflexivity.
    unfold draw. apply IH. intros it' Hin. apply Hext. now right.
  Qed.
End Ext.

Lemma bind_ext {A B} (x : rres A) (f g : A -> rres B) : (forall a, f a = g a) -> bind x f = bind x g.
Proof. intros Hfg. destruct x; cbn [bind]; [apply Hfg | reflexivity | reflexivity]. Qed.

Lemma depth_pos w : 1 <= depth w.
Proof. destruct w; cbn [depth]; lia. Qed.

Lemma depth_in_fold items : forall acc it,
  In it items -> depth it <= fold_right (fun i a => Nat.max (depth i) a) acc items.
Proof.
  induction items as [|x items IH]; intros acc it Hin; [contradiction|].
  cbn [fold_right]. destruct Hin as [->|Hin]; [lia|]. specialize (IH acc it Hin). lia.
Qed.

Lemma fold_ge_acc items : forall acc, acc <= fold_right (fun i a => Nat.max (depth i) a) acc items.
Proof. induction items as [|x items IH]; intros acc; cbn [fold_right]; [lia|]. specialize (IH acc). lia. Qed.

Lemma depth_in_cols (cols : list (option Z * list wtree)) : forall c it,
  In c cols -> In it (snd c) ->
  depth it <= fold_right (fun c acc => fold_right (fun i a => Nat.max (depth i) a) acc (snd c)) 0 cols.
Proof.
  induction cols as [|x cols IH]; intros c it Hc Hit; [contradiction|].
  cbn [fold_right]. destruct Hc as [->|Hc].
  - now apply depth_in_fold.
  - specialize (IH c it Hc Hit). etransitivity; [exact IH | apply fold_ge_acc].
Qed.

Lemma render_fuel : forall f1 f2 w width,
  depth w <= f1 -> depth w <= f2 -> render f1 w width = render f2 w width.
Proof.
  induction f1 as [|a IH]; intros f2 w width H1 H2; [pose proof (depth_pos w); lia|].
  destruct f2 as [|b]; [pose proof (depth_pos w); lia|].
  destruct w as [t|n|c|cols spacing|box data|kind columns items forced spacing kp|title items];
    cbn [render]; cbn [depth] in H1, H2.
  - reflexivity.
  - reflexivity.
  - rewrite (IH b c width) by lia. reflexivity.
  - apply render_columns_ext. intros c it Hc Hit w'.
    pose proof (depth_in_cols cols c it Hc Hit). apply IH; lia.
  - rewrite (render_columns_ext (render a) (render b)); [reflexivity|].
    intros c it Hc Hit w'.
    assert (Hd : depth it = 1).
    { destruct Hc as [<-|[<-|[]]]; cbn [snd] in Hit.
      - destruct Hit as [<-|[]]. reflexivity.
      - apply in_map_iff in Hit. destruct Hit as (d & <- & _). reflexivity. }
    apply IH; lia.
  - destruct (columns <=? 0)%Z; [reflexivity|].
    rewrite (render_all_items_ext (render a) (render b)); [reflexivity|].
    intros it Hin w'. pose proof (depth_in_fold items 0 it Hin). apply IH; lia.
  - apply bind_ext. intros b0. apply draw_items_plain_ext.
    intros it Hin w'. pose proof (depth_in_fold items 0 it Hin). apply IH; lia.
Qed.

Lemma render_tree_fuel f w width : depth w <= f -> render f w width = render_tree w width.
Proof. intros Hf. unfold render_tree. apply render_fuel; lia. Qed.

Lemma Forall2_iff_in {A B} (P Q : A -> B -> Prop) (l : list A) :
  (forall x, In x l -> forall y, P x y <-> Q x y) -> forall l', Forall2 P l l' <-> Forall2 Q l l'.
Proof.
  induction l as [|x l IH]; intros Hpq l'.
  - split; intros HF; inversion HF; constructor.
  - assert (Hrest : forall l', Forall2 P l l' <-> Forall2 Q l l').
    { apply IH. intros x' Hin. apply Hpq. now right. }
    split; intros HF; inversion HF as [|? y ? l'' Hxy HF']; subst; constructor.
    + now apply (Hpq x (or_introl eq_refl)).
    + now apply Hrest.
    + now apply (Hpq x (or_introl eq_refl)).
    + now apply Hrest.
Qed.

Lemma window_items_fuel title items w (ibs : list buffer) :
  Forall2 (fun it ib => render (depth (WWindow title items)) it w = ROk ib) items ibs <->
  Forall2 (fun it ib => render_tree it w = ROk ib) items ibs.
Proof.
  apply Forall2_iff_in. intros it Hin ib.
  rewrite (render_tree_fuel (depth (WWindow title items)) it w); [reflexivity|].
  cbn [depth]. pose proof (depth_in_fold items 0 it Hin). lia.
Qed.

(* ---- the window in terms of render_tree -------------------------------------------------- *)
Lemma window_untitled : forall title items w b,
  (title = None \/ exists t, title = Some t /\ t_text t = []) ->
  (render_tree (WWindow title items) w = ROk b <->
   exists ibs, Forall2 (fun it ib => render_tree it w = ROk ib) items ibs /\ b = concat ibs).
Proof.
  intros title items w b Ht. unfold render_tree at 1.
  rewrite (window_untitled_fuel _ title items w Ht).
  change 0 with (length (@nil line)). split.
  - intros Hd. apply draw_items_plain_inv in Hd. destruct Hd as (ibs & HF & ->).
    exists ibs. split; [now apply (window_items_fuel title) | reflexivity].
  - intros (ibs & HF & ->). apply (window_items_fuel title) in HF.
    now rewrite (draw_items_plain_ok _ items ibs w [] HF).
Qed.

Lemma window_titled : forall t items w b,
  t_text t <> [] ->
  (render_tree (WWindow (Some t) items) w = ROk b <->
   exists tb ibs, render_text t w = ROk tb /\
     Forall2 (fun it ib => render_tree it w = ROk ib) items ibs /\ b = tb ++ [[]] ++ concat ibs).
Proof.
  intros t items w b Ht. unfold render_tree at 1.
  rewrite (window_titled_fuel _ t items w Ht). split.
  - destruct (render_text t w) as [tb| |]; try discriminate.
    intros Hd. apply draw_items_plain_inv in Hd. destruct Hd as (ibs & HF & ->).
    exists tb, ibs. split; [reflexivity|]. split; [now apply (window_items_fuel (Some t))|].
    now rewrite <- app_assoc.
  - intros (tb & ibs & -> & HF & ->). apply (window_items_fuel (Some t)) in HF.
    rewrite (draw_items_plain_ok _ items ibs w (tb ++ [[]]) HF). now rewrite <- app_assoc.
Qed.

(* ---- show_all: the printed lines are the window's lines ----------------------------------- *)
Lemma show_all_prints : forall window w H evs,
  (3 <= H)%Z -> show_all window w H = ROk evs ->
  exists b, render_tree window w = ROk b /\ evs = print_widget b H /\ prints_of evs = b.
Proof.
  intros window w H evs HH Hs. unfold show_all in Hs.
  destruct (render_tree window w) as [b| |]; try discriminate Hs.
  injection Hs as <-. exists b. repeat split. now apply paging_prints_all.
Qed.
