(* C05Hyp.v — the trace hypothesis [no_f13] of C05's strict form in the vocabulary of the event-loop monitors
   (Monitors.v): no EForceQuit in the trace, and no level was opened while the loops had been told to stop
   ([w_stillborn] of the world rebuilt from the trace is empty: the pattern of finding F13).  (worker s3) *)
From SL Require Import Tac.
From RecordUpdate Require Import RecordUpdate.
From SL Require Import LoopSem proofs.C05Proofs.
From SL Require Monitors.
Import ListNotations.

Definition no_force_quit (t : list event) : bool :=
  forallb (fun e => match e with EForceQuit => false | _ => true end) t.
Definition loop_world (t : list event) : Monitors.world := fold_left Monitors.world_step t Monitors.world0.
Definition isnil {A} (l : list A) : bool := match l with [] => true | _ => false end.

Lemma hyp_of_snoc t e : hyp_of (t ++ [e]) = hyp_step (hyp_of t) e.
Proof. unfold hyp_of. rewrite fold_left_app. reflexivity. Qed.
Lemma loop_world_snoc t e : loop_world (t ++ [e]) = Monitors.world_step (loop_world t) e.
Proof. unfold loop_world. rewrite fold_left_app. reflexivity. Qed.
Lemma nfq_snoc t e : no_force_quit (t ++ [e]) = no_force_quit t && match e with EForceQuit => false | _ => true end.
Proof. unfold no_force_quit. rewrite forallb_app. cbn. rewrite andb_true_r. reflexivity. Qed.

Lemma no_f13_inv t :
  (no_force_quit t = true ->
     Monitors.w_fq (loop_world t) = false /\ Monitors.w_runloop (loop_world t) = h_rl (hyp_of t) /\
     h_ok (hyp_of t) = isnil (Monitors.w_stillborn (loop_world t))) /\
  (no_force_quit t = false -> h_ok (hyp_of t) = false).
Proof.
  induction t as [|e t IH] using rev_ind; [split; [intros _; repeat split|discriminate]|].
  rewrite nfq_snoc, hyp_of_snoc, loop_world_snoc. destruct IH as [IH1 IH2].
  set (w := loop_world t) in *. set (h := hyp_of t) in *. split.
  - intros H. apply andb_true_iff in H. destruct H as [H He]. destruct (IH1 H) as (F & R & O).
    destruct e; try discriminate He; cbn [hyp_step Monitors.world_step].
    12:{ (* ENewLoopEnter *) cbn. rewrite F, R, O. destruct (h_rl h); cbn; rewrite ?andb_true_r, ?andb_false_r; auto. }
    all: repeat match goal with
             | |- context [if ?b then _ else _] => destruct b eqn:?
             | |- context [match ?x with _ => _ end] => destruct x eqn:?
             end; cbn; rewrite ?F, ?R, ?O; auto; try congruence.
  - intros H. apply andb_false_iff in H. destruct H as [H|H].
    + specialize (IH2 H). destruct (h_ok (hyp_step h e)) eqn:E; [|reflexivity]. apply hyp_step_mono in E. congruence.
    + destruct e; try discriminate H. reflexivity.
Qed.

Theorem no_f13_spec t :
  no_f13 t = no_force_quit t && isnil (Monitors.w_stillborn (loop_world t)).
Proof.
  unfold no_f13. destruct (no_f13_inv t) as [H1 H2]. destruct (no_force_quit t).
  - destruct (H1 eq_refl) as (_ & _ & O). exact O.
  - apply H2. reflexivity.
Qed.
