(* ContainersHistory.v — C16: the outputs of a history of render / add operations on a long-lived
   tree depend only on the current tree and the width.  In the model this is immediate (the state
   of the object IS the tree, see ContainerObject.v); what ties it to the implementation is the
   correspondence run of checks/C16.py, which drives real long-lived objects through the same
   histories. *)
From SL Require Import Tac.
From SL Require Import PyInt Widget TextWrap KeyPattern Containers ContainerObject proofs.ContainersProofs.
Import ListNotations.

Definition step_tree (t : wtree) (o : op) : wtree :=
  match o with OAdd p x => add_at p t x | _ => t end.

Lemma final_tree_cons t o ops : final_tree t (o :: ops) = final_tree (step_tree t o) ops.
Proof. reflexivity. Qed.

Lemma final_tree_app t ops1 ops2 : final_tree t (ops1 ++ ops2) = final_tree (final_tree t ops1) ops2.
Proof. unfold final_tree. apply fold_left_app. Qed.

Lemma run_ops_app : forall ops1 t ops2,
  run_ops t (ops1 ++ ops2) = run_ops t ops1 ++ run_ops (final_tree t ops1) ops2.
Proof.
  induction ops1 as [|o ops1 IH]; intros t ops2; [reflexivity|].
  rewrite final_tree_cons. destruct o as [w|p x|t' w]; cbn [app run_ops step_tree]; rewrite IH; reflexivity.
Qed.

(* whatever happened before, a render shows the render of the current tree *)
Lemma history_irrelevant ops t w :
  run_ops t (ops ++ [ORender w]) = run_ops t ops ++ [render_tree (final_tree t ops) w].
Proof. rewrite run_ops_app. reflexivity. Qed.

(* renders (of this tree or of any other) leave the tree alone *)
Lemma final_tree_adds_only : forall ops t, final_tree t ops = final_tree t (filter is_add ops).
Proof.
  induction ops as [|o ops IH]; intros t; [reflexivity|].
  destruct o as [w|p x|t' w]; cbn [filter is_add]; rewrite !final_tree_cons; cbn [step_tree]; apply IH.
Qed.

Lemma final_tree_no_adds ops t : (forall o, In o ops -> is_add o = false) -> final_tree t ops = t.
Proof.
  intros H. rewrite final_tree_adds_only.
  replace (filter is_add ops) with (@nil op); [reflexivity|].
  symmetry. apply filter_all_false. exact H.
Qed.

(* after any history without additions a render at w shows what the very first render at w showed *)
Lemma render_again ops t w :
  (forall o, In o ops -> is_add o = false) ->
  run_ops t (ORender w :: ops ++ [ORender w]) =
  render_tree t w :: run_ops t ops ++ [render_tree t w].
Proof.
  intros H. cbn [run_ops]. rewrite history_irrelevant, final_tree_no_adds by exact H. reflexivity.
Qed.

(* adding items one by one between renders gives the container built with all of them *)
Lemma add_item_list k c items f s kp x :
  add_item (WList k c items f s kp) x = WList k c (items ++ [x]) f s kp.
Proof. reflexivity. Qed.

Lemma add_items_list k c items f s kp xs :
  fold_left add_item xs (WList k c items f s kp) = WList k c (items ++ xs) f s kp.
Proof.
  revert items. induction xs as [|x xs IH]; intros items; cbn [fold_left].
  - now rewrite app_nil_r.
  - rewrite add_item_list, IH, <- app_assoc. reflexivity.
Qed.
