(* C02Proofs.v -- every session trace of the model is accepted by the C02 monitor. *)
From SL Require Import Tac.
From RecordUpdate Require Import RecordUpdate.
From SL Require Import LoopSem Monitors proofs.C02Link.
Import ListNotations.

Section Exec.
  Context {U : Type} (code : nat -> signal -> nat -> prog U).
  Implicit Types s : lstate U.

  Lemma handlers_do_enqueue s sg : handlers (do_enqueue s sg) = handlers s.
  Proof. unfold do_enqueue. destruct (force_quit s); reflexivity. Qed.

  Lemma handlers_do_get_some s sg s1 : do_get s = inl (Some (sg, s1)) -> handlers s1 = handlers s.
  Proof.
    unfold do_get. destruct (q_pop (get_q s (active s))) as [[[[p c] sg'] q']|].
    - intros H; inversion H; reflexivity.
    - destruct (ext s); discriminate.
  Qed.
  Lemma handlers_do_get_inr s s1 : do_get s = inr s1 -> handlers s1 = handlers s.
  Proof.
    unfold do_get. destruct (q_pop (get_q s (active s))) as [[[[p c] sg'] q']|]; [discriminate|].
    destruct (ext s) as [|sp r]; [discriminate|]. cbn [new_signal]. intros H; inversion H.
    rewrite handlers_do_enqueue. reflexivity.
  Qed.

  (* the handler table only grows: any property of the table preserved by [add_handler] is preserved by [exec] *)
  Section HPres.
    Variable Q : list (nat * list (nat * nat)) -> Prop.
    Hypothesis Qadd : forall hs c h d, Q hs -> Q (add_handler hs c h d).

    Ltac hstep IH :=
      match goal with
      | H : (let '(_, _) := exec ?cd ?f ?c ?s in _) = _ |- _ =>
        let o := fresh "o" in let s1 := fresh "s" in let E := fresh "E" in
        destruct (exec cd f c s) as [o s1] eqn:E; apply IH in E
      | H : (_, _) = (_, _) |- _ => inversion H; subst; clear H
      | H : new_signal _ _ = (_, _) |- _ => unfold new_signal in H
      | H : (if ?b then _ else _) = _ |- _ => destruct b eqn:?
      | H : match ?x with _ => _ end = _ |- _ => destruct x eqn:?
      end.

    Lemma exec_hpres : forall f c s o s', exec code f c s = (o, s') -> Q (handlers s) -> Q (handlers s').
    Proof.
      induction f as [|f IH]; intros c s o s' H HQ; [inversion H; subst; exact HQ|].
      destruct c; cbn [exec] in H.
      all: repeat (hstep IH).
      all: repeat match goal with
                  | H : do_get _ = inl (Some (_, _)) |- _ => apply handlers_do_get_some in H
                  | H : do_get _ = inr _ |- _ => apply handlers_do_get_inr in H
                  end.
      all: repeat match goal with
                  | |- context [if ?b then _ else _] => destruct b
                  | |- context [match ?x with _ => _ end] => destruct x
                  end.
      all: simpl in *; rewrite ?handlers_do_enqueue in *; simpl in *; rewrite ?handlers_do_enqueue in *.
      all: try (eapply IH; [eassumption|]); simpl; rewrite ?handlers_do_enqueue; simpl.
      all: try match goal with H : handlers ?l = _ |- Q (handlers ?l) => rewrite H end; eauto.
    Qed.
  End HPres.

  Definition hl (hs : list (nat * list (nat * nat))) (cls : nat) : nat :=
    match option_map snd (find (fun p => (fst p =? cls)%nat) hs) with Some l => length l | None => 0 end.

  Lemma hl_add hs c h d cls : hl hs cls <= hl (add_handler hs c h d) cls.
  Proof.
    unfold hl. induction hs as [|[k l] hs IH]; cbn [add_handler find fst].
    - destruct (c =? cls)%nat; cbn; lia.
    - destruct (k =? c)%nat eqn:E; cbn [find fst].
      + destruct (k =? cls)%nat; cbn [option_map snd]; [rewrite app_length; lia | lia].
      + destruct (k =? cls)%nat; cbn [option_map snd]; [lia | exact IH].
  Qed.

  Lemma exec_hmono f c s o s' cls : exec code f c s = (o, s') -> hlen s cls <= hlen s' cls.
  Proof.
    intros H. change (hl (handlers s) cls <= hl (handlers s') cls).
    eapply (exec_hpres (fun hs => hl (handlers s) cls <= hl hs cls)); [|exact H|lia].
    intros hs c0 h d Hle. pose proof (hl_add hs c0 h d cls). lia.
  Qed.

  (* _process_signal catches every ordinary exception *)
  Lemma exec_ps_noerr : forall f sg idx s o s',
    exec code f (CProcessSignal sg idx) s = (o, s') -> o <> OThrow XError.
  Proof.
    induction f as [|f IH]; intros sg idx s o s' H; [inversion H; discriminate|].
    cbn [exec] in H.
    repeat match goal with
           | H : (let '(_, _) := exec ?cd ?f ?c ?s in _) = _ |- _ =>
             let o := fresh "o" in let s1 := fresh "s" in let E := fresh "E" in
             destruct (exec cd f c s) as [o s1] eqn:E
           | H : (let '(_, _) := new_signal ?s ?sp in _) = _ |- _ => unfold new_signal in H
           | H : (_, _) = (_, _) |- _ => inversion H; subst; clear H
           | H : (if ?b then _ else _) = _ |- _ => destruct b eqn:?
           | H : match ?x with _ => _ end = _ |- _ => destruct x eqn:?
           end; try discriminate; try (eapply IH; eassumption).
  Qed.

  (* ---- a few more link facts ---- *)
  Lemma ws_sig_other w e :
    match e with ESigNew _ _ _ _ => False | _ => True end -> w_sig (world_step w e) = w_sig w.
  Proof.
    destruct e as [| | | | | | | | | | | | | |wt tk|wt tk| | | | | | | | |]; intros H; try destruct H; cbn [world_step];
      try destruct wt; try destruct how as [[]|];
      repeat match goal with |- context [if ?b then _ else _] => destruct b end;
      try reflexivity.
    destruct (last_opt (removelast (w_levels w))); reflexivity.
  Qed.

  Lemma known_step s s' e sg :
    trace s' = e :: trace s -> match e with ESigNew _ _ _ _ => False | _ => True end ->
    next_sig s' = next_sig s ->
    sig_known (W s) (next_sig s) sg -> sig_known (W s') (next_sig s') sg.
  Proof.
    intros Ht He Hn Hk. rewrite Hn, (W_trace _ _ _ Ht). eapply sig_known_same; [|exact Hk].
    apply ws_sig_other; exact He.
  Qed.

  Lemma passive_user_event e : passive (user_event e) = true.
  Proof. destruct e; reflexivity. Qed.

  Lemma eq_entries_add_source q o : eq_entries (q_add_source q o) = eq_entries q.
  Proof. unfold q_add_source. destruct (existsb (Nat.eqb o) (eq_sources q)); reflexivity. Qed.

  Lemma do_get_some_good F s sg s1 :
    good 0 F s -> do_get s = inl (Some (sg, s1)) ->
    good 0 F s1 /\ sig_known (W s1) (next_sig s1) sg /\ handlers s1 = handlers s.
  Proof.
    intros G. unfold do_get. destruct (q_pop (get_q s (active s))) as [[[[p c] sg'] q']|] eqn:E.
    - intros H; inversion H; subst; clear H.
      destruct (pop_known _ _ _ _ _ _ G E) as [Hk Hs]. split; [|split].
      + apply good_set_q; assumption.
      + exact Hk.
      + reflexivity.
    - destruct (ext s); discriminate.
  Qed.

  Lemma do_get_inr_good F s s1 : good 0 F s -> do_get s = inr s1 -> good 0 F s1.
  Proof.
    intros G. unfold do_get. destruct (q_pop (get_q s (active s))) as [[[[p c] sg'] q']|]; [discriminate|].
    destruct (ext s) as [|sp r]; [discriminate|]. cbn [new_signal]. intros H; inversion H; subst; clear H.
    assert (G0 : good 0 F (s <| ext := r |>)) by (eapply good_same; [exact G | reflexivity ..| apply G]).
    destruct (good_new_signal 0 F _ sp G0) as (G1 & K1 & _).
    { eapply chk_signew_quiet; eauto. }
    cbn [new_signal snd Nat.eqb] in G1, K1.
    apply (good_do_enqueue 0); [apply good_passive; [exact G1 | reflexivity] | | left; reflexivity].
    eapply known_step; [reflexivity | exact I | reflexivity | exact K1].
  Qed.

  (* ---- the Hoare-style statement ---- *)
  Definition res (F : list frame) (o : outcome) (s' : lstate U) : Prop :=
    match o with
    | ONormal | OThrow XExit | OThrow XError => good 0 F s'
    | OThrow XSysExit => dead s' \/ good 0 F s'
    | OBlocked | OFuel => acc s'
    end.

  Definition pre (c : call U) (F : list frame) (s : lstate U) : Prop :=
    match c with
    | CProcessSignal sg idx => good 0 (mkframe sg idx false :: F) s /\ idx <= hlen s (sg_cls sg)
    | CRun => good 0 F s /\ F = []
    | _ => good 0 F s
    end.

  Lemma pre_acc c F s : pre c F s -> acc s.
  Proof. destruct c; cbn [pre]; intros H; try apply H. Qed.

  Lemma res_acc F o s : res F o s -> acc s.
  Proof. destruct o as [|[]| |]; cbn [res]; intros H; try apply H. destruct H as [H|H]; apply H. Qed.

  Lemma handlers_hlen_eq s s' cls : handlers s = handlers s' -> hlen s cls = hlen s' cls.
  Proof. unfold hlen, handlers_of. now intros ->. Qed.

  Ltac sub H o1 s1 E :=
    match type of H with
    | (let '(_, _) := exec ?cd ?f ?c ?s in _) = _ => destruct (exec cd f c s) as [o1 s1] eqn:E
    end.
  Ltac done_eq H := inversion H; subst; clear H.

  Lemma exec_res : forall f c s F o s', pre c F s -> exec code f c s = (o, s') -> res F o s'.
  Proof.
    induction f as [|f IH]; intros c s F o s' P H.
    { inversion H; subst. cbn [res]. eapply pre_acc; eauto. }
    destruct c as [| | |cls ticket|prio|sg idx|a|p]; cbn [exec pre] in H, P.
    - (* CRun *)
      destruct P as [G ->].
      pose proof (good_run_enter _ G) as G0.
      sub H o1 s1 E1. pose proof (IH CMainloop _ [] _ _ G0 E1) as R1.
      assert (K : good 0 [] s1 ->
                  res [] ONormal (emit ERunReturn match quit_cb s1 with Some a => emit (EQuitCb a) s1 | None => s1 end)).
      { intros G1. cbn [res]. apply good_passive; [|reflexivity].
        destruct (quit_cb s1); [apply good_passive; [exact G1|reflexivity] | exact G1]. }
      destruct o1 as [|[]| |]; done_eq H; auto.
    - (* CMainloop *)
      destruct (run_loop s) eqn:Erl.
      + sub H o1 s1 E1. pose proof (IH CProcLoop _ F _ _ P E1) as R1.
        destruct o1 as [|[]| |]; try (done_eq H; exact R1).
        exact (IH CMainloop _ F _ _ R1 H).
      + done_eq H. cbn [res]. destruct (force_quit s); [exact P|].
        eapply good_same; [exact P | reflexivity ..| apply P].
    - (* CProcLoop *)
      destruct (run_loop s) eqn:Erl; [|done_eq H; exact P].
      destruct (do_get s) as [[[sg s1]|]|s1] eqn:Eg.
      + destruct (do_get_some_good _ _ _ _ P Eg) as (G1 & K1 & Hh).
        pose proof (good_dispatch _ _ _ (active s) (length (levels s)) G1 K1) as G2.
        sub H o1 s3 E1.
        pose proof (IH (CProcessSignal sg 0) _ F _ _ (conj G2 (Nat.le_0_l _)) E1) as R1.
        destruct o1 as [|[]| |]; try (done_eq H; exact R1).
        exact (IH CProcLoop _ F _ _ R1 H).
      + done_eq H. apply P.
      + exact (IH CProcLoop _ F _ _ (do_get_inr_good _ _ _ P Eg) H).
    - (* CProcWait *)
      destruct (run_loop s) eqn:Erl; [|done_eq H; exact P].
      destruct (do_get s) as [[[sg s1]|]|s1] eqn:Eg.
      + destruct (do_get_some_good _ _ _ _ P Eg) as (G1 & K1 & Hh).
        pose proof (good_dispatch _ _ _ (active s) (length (levels s)) G1 K1) as G2.
        sub H o1 s3 E1.
        pose proof (IH (CProcessSignal sg 0) _ F _ _ (conj G2 (Nat.le_0_l _)) E1) as R1.
        destruct o1 as [|[]| |]; try (done_eq H; exact R1).
        cbn [res] in R1.
        destruct (check_ticket (tickets s3) cls ticket) as [[[] t']|] eqn:Ec.
        * done_eq H. cbn [res]. eapply good_same; [exact R1 | reflexivity ..| apply R1].
        * exact (IH (CProcWait cls ticket) _ F _ _ R1 H).
        * done_eq H. exact R1.
      + done_eq H. apply P.
      + exact (IH (CProcWait cls ticket) _ F _ _ (do_get_inr_good _ _ _ P Eg) H).
    - (* CProcIter *)
      destruct (negb (q_empty (get_q s (active s))) && run_loop s) eqn:Ec; [|done_eq H; exact P].
      destruct (q_pop (get_q s (active s))) as [[[[p cnt] sg] q']|] eqn:Ep; [|done_eq H; exact P].
      destruct (pop_known _ _ _ _ _ _ P Ep) as [K1 Ks]. cbn [snd] in K1.
      assert (Hgo : forall o s',
                 (let '(o, s3) := exec code f (CProcessSignal sg 0)
                                       (emit (EDispatch (sg_id sg) (active s) (length (levels s))) (set_q s (active s) q')) in
                  match o with ONormal => exec code f (CProcIter (Some p)) s3 | _ => (o, s3) end) = (o, s') ->
                 res F o s').
      { clear H. intros o2 s2 H.
        pose proof (good_set_q _ _ _ (active s) q' P Ks) as G1.
        pose proof (good_dispatch _ _ _ (active s) (length (levels s)) G1 K1) as G2.
        sub H o1 s3 E1.
        pose proof (IH (CProcessSignal sg 0) _ F _ _ (conj G2 (Nat.le_0_l _)) E1) as R1.
        destruct o1 as [|[]| |]; try (done_eq H; exact R1).
        exact (IH (CProcIter (Some p)) _ F _ _ R1 H). }
      destruct prio as [p0|]; [|exact (Hgo _ _ H)].
      destruct (p =? p0)%Z; [exact (Hgo _ _ H)|].
      done_eq H. cbn [res]. apply good_passive; [|reflexivity].
      apply good_set_q; [exact P|]. intros ent He.
      change (In ent (eq_entries q' ++ [(p, cnt, sg)])) in He.
      apply in_app_or in He as [He|[<-|[]]]; [auto | exact K1].
    - (* CProcessSignal *)
      destruct P as [G Hidx].
      set (s0 := if (idx =? 0)%nat then s <| tickets := mark_line_to_go (tickets s) (sg_cls sg) |> else s) in *.
      assert (G0 : good 0 (mkframe sg idx false :: F) s0).
      { unfold s0. destruct (idx =? 0)%nat; [|exact G]. eapply good_same; [exact G | reflexivity ..| apply G]. }
      assert (Hl0 : hlen s0 (sg_cls sg) = hlen s (sg_cls sg)) by (unfold s0; destruct (idx =? 0)%nat; reflexivity).
      rewrite <- Hl0 in Hidx. clear Hl0 G. clearbody s0.
      destruct (handlers_of s0 (sg_cls sg)) as [hs|] eqn:Eh.
      + assert (Ehl : hlen s0 (sg_cls sg) = length hs) by (unfold hlen; now rewrite Eh).
        destruct (force_quit s0) eqn:Efq.
        { done_eq H. cbn [res]. eapply good_dispatch_end; [exact G0 | left; exact Efq]. }
        destruct (nth_error hs idx) as [[hid data]|] eqn:En.
        2:{ done_eq H. cbn [res]. eapply good_dispatch_end; [exact G0 | right].
            apply nth_error_None in En. lia. }
        pose proof (good_handler_start _ _ _ _ _ _ _ G0 Eh Efq En) as G1.
        sub H o1 s2 E1.
        pose proof (IH (CProg (code hid sg data)) _ _ _ _ G1 E1) as R1.
        assert (Hlt : S idx <= hlen s2 (sg_cls sg)).
        { pose proof (exec_hmono _ _ _ _ _ (sg_cls sg) E1) as Hm.
          assert (idx < length hs) by (apply nth_error_Some; congruence).
          change (hlen (emit (EHandler hid (sg_id sg) data) s0) (sg_cls sg)) with (hlen s0 (sg_cls sg)) in Hm. lia. }
        destruct o1 as [|[]| |]; cbn [res] in R1.
        * (* the handler returned *)
          eapply (IH (CProcessSignal sg (S idx)) _ F); [|exact H]. split; [|exact Hlt].
          apply good_handler_end_normal; exact R1.
        * (* ExitMainLoop passes through *)
          done_eq H. cbn [res]. apply good_handler_end_exit with (idx := idx); [discriminate | exact R1].
        * (* an ordinary exception: one ExceptionSignal, then the remaining handlers *)
          pose proof (good_handler_end_error _ _ _ _ hid R1) as G3.
          set (s3 := emit (EHandlerEnd hid (sg_id sg) (Some XError)) s2) in *.
          destruct (good_new_signal 1 _ s3 exception_spec G3) as (G4 & K4 & Hx).
          { unfold chk_C02. rewrite (g_nk _ _ _ G3), (g_exp _ _ _ G3). reflexivity. }
          cbn [new_signal] in H. cbn [new_signal snd Nat.eqb] in G4, K4, Hx.
          eapply (IH (CProcessSignal sg (S idx)) _ F); [|exact H]. split.
          -- apply (good_do_enqueue 2); [exact G4 | exact K4 | right]. repeat split. apply Hx. reflexivity.
          -- rewrite (handlers_hlen_eq _ s2); [exact Hlt|]. rewrite handlers_do_enqueue. reflexivity.
        * (* SystemExit passes through *)
          done_eq H. cbn [res]. destruct R1 as [D|G2].
          -- left. apply dead_unwind. exact D.
          -- right. apply good_handler_end_exit with (idx := idx); [discriminate | exact G2].
        * done_eq H. exact R1.
        * done_eq H. exact R1.
      + assert (Ehl : hlen s0 (sg_cls sg) = 0) by (unfold hlen; now rewrite Eh).
        assert (idx = 0) by lia. subst idx.
        destruct (sg_cls sg =? CLS_EXCEPTION)%nat eqn:Ec.
        * apply Nat.eqb_eq in Ec. done_eq H. cbn [res]. left.
          eapply dead_kill; [exact G0 | exact Ec | rewrite <- Ec; exact Eh].
        * done_eq H. cbn [res]. eapply good_dispatch_end; [exact G0 | right; lia].
    - (* CApi *)
      destruct a as [sp| |sp| |[cls|]|o0|cls hid data|arg|sp].
      + (* enqueue_signal *)
        cbn [new_signal] in H. done_eq H. cbn [res].
        destruct (good_new_signal 0 F s sp P) as (G1 & K1 & _); [eapply chk_signew_quiet; exact P|].
        cbn [new_signal snd Nat.eqb] in G1, K1.
        apply (good_do_enqueue 0); [exact G1 | exact K1 | left; reflexivity].
      + (* force_quit *)
        done_eq H. cbn [res]. apply good_force_quit. exact P.
      + (* execute_new_loop *)
        cbn [new_signal] in H.
        destruct (good_new_signal 0 F s sp P) as (G1 & K1 & _); [eapply chk_signew_quiet; exact P|].
        cbn [new_signal snd Nat.eqb] in G1, K1.
        match type of G1 with good _ _ ?x => set (s1 := x) in * end.
        destruct (force_quit s1) eqn:Efq; [done_eq H; exact G1|].
        pose proof (good_newloop_enter _ _ G1) as G2.
        match type of G2 with good _ _ ?x => set (s2 := x) in * end.
        assert (K2 : sig_known (W s2) (next_sig s2) (mk_signal (next_sig s) sp)).
        { eapply known_step; [reflexivity | exact I | reflexivity | exact K1]. }
        pose proof (good_do_enqueue 0 _ _ _ G2 K2 (or_introl eq_refl)) as G3.
        sub H o1 s4 E1. pose proof (IH CMainloop _ F _ _ G3 E1) as R1.
        destruct o1 as [|[]| |]; done_eq H; try exact R1.
        cbn [res]. apply good_passive; [exact R1 | reflexivity].
      + (* close_loop *)
        assert (G0 : good 0 F (emit (EProcEnter None 0) s)) by (apply good_passive; [exact P | reflexivity]).
        sub H o1 s0 E1. pose proof (IH (CProcIter None) _ F _ _ G0 E1) as R1.
        destruct o1 as [|[]| |]; try (done_eq H; exact R1).
        cbn [res] in R1.
        assert (G1 : good 0 F (emit (EProcReturn None 0) s0)) by (apply good_passive; [exact R1 | reflexivity]).
        change (levels (emit (EProcReturn None 0) s0)) with (levels s0) in H.
        destruct (rev (levels s0)) as [|top rest_rev] eqn:El; [done_eq H; exact G1|].
        destruct rest_rev as [|q r]; done_eq H; cbn [res];
          (eapply good_close_pop; [exact G1 | exact El | reflexivity ..]).
      + (* process_signals(return_after=cls) *)
        destruct (take_ticket (tickets s) cls) as [t tm].
        assert (G0 : good 0 F (emit (EProcEnter (Some cls) t) (s <| tickets := tm |>))).
        { apply good_passive; [|reflexivity]. eapply good_same; [exact P | reflexivity ..| apply P]. }
        sub H o1 s2 E1. pose proof (IH (CProcWait cls t) _ F _ _ G0 E1) as R1.
        destruct o1 as [|[]| |]; done_eq H; try exact R1.
        cbn [res]. apply good_passive; [exact R1 | reflexivity].
      + (* process_signals() *)
        assert (G0 : good 0 F (emit (EProcEnter None 0) s)) by (apply good_passive; [exact P | reflexivity]).
        sub H o1 s1 E1. pose proof (IH (CProcIter None) _ F _ _ G0 E1) as R1.
        destruct o1 as [|[]| |]; done_eq H; try exact R1.
        cbn [res]. apply good_passive; [exact R1 | reflexivity].
      + (* register_signal_source *)
        done_eq H. cbn [res]. apply good_passive; [|reflexivity].
        apply good_set_q; [exact P|]. intros ent He. rewrite eq_entries_add_source in He.
        eapply sigs_ok_nth; [apply P | exact He].
      + (* register_signal_handler *)
        done_eq H. cbn [res]. apply good_reg_handler. exact P.
      + (* set_quit_callback *)
        done_eq H. cbn [res]. apply good_passive; [|reflexivity].
        eapply good_same; [exact P | reflexivity ..| apply P].
      + done_eq H. cbn [res]. eapply good_same; [exact P | reflexivity ..| apply P].
    - (* CProg *)
      destruct p as [|e|p1 p2|p1 h|a|g|cnd b|e].
      + done_eq H. exact P.
      + done_eq H. destruct e; cbn [res]; auto.
      + sub H o1 s1 E1. pose proof (IH (CProg p1) _ F _ _ P E1) as R1.
        destruct o1 as [|[]| |]; try (done_eq H; exact R1).
        exact (IH (CProg p2) _ F _ _ R1 H).
      + sub H o1 s1 E1. pose proof (IH (CProg p1) _ F _ _ P E1) as R1.
        destruct o1 as [|[]| |]; try (done_eq H; exact R1).
        exact (IH (CProg h) _ F _ _ R1 H).
      + exact (IH (CApi a) _ F _ _ P H).
      + destruct (g (ust s)) as [u' p'].
        refine (IH (CProg p') _ F _ _ _ H). eapply good_same; [exact P | reflexivity ..| apply P].
      + destruct (cnd (ust s)); [|done_eq H; exact P].
        sub H o1 s1 E1. pose proof (IH (CProg b) _ F _ _ P E1) as R1.
        destruct o1 as [|[]| |]; try (done_eq H; exact R1).
        exact (IH (CProg (PWhile cnd b)) _ F _ _ R1 H).
      + done_eq H. cbn [res]. apply good_passive; [exact P | apply passive_user_event].
  Qed.

  (* ---- sessions ---- *)
  Lemma good_init (u : U) : good 0 [] (init_state u).
  Proof.
    constructor; try reflexivity.
    intros q ent [<-|[]] [].
  Qed.

  Lemma session_acc : forall acts fuel s os s',
    good 0 [] s -> run_session code fuel acts s = (os, s') -> acc s'.
  Proof.
    induction acts as [|a r IH]; intros fuel s os s' G H; cbn [run_session] in H.
    - inversion H; subst. apply G.
    - pose proof (good_top _ _ G) as G0.
      destruct (exec code fuel match a with TRun => CRun | TProg p => CProg p end (emit ETop s)) as [o s1] eqn:E.
      assert (R : res [] o s1).
      { eapply exec_res; [|exact E]. destruct a; cbn [pre]; auto. }
      destruct o as [|[]| |]; try (inversion H; subst; eapply res_acc; exact R);
        cbn [res] in R; destruct (run_session code fuel r s1) as [os2 s2] eqn:E2;
        inversion H; subst; eapply IH; eauto.
  Qed.

  Lemma delivery fuel acts (u : U) :
    ok_C02 (rev (trace (snd (run_session code fuel acts (init_state u))))) = true.
  Proof.
    destruct (run_session code fuel acts (init_state u)) as [os s'] eqn:E. cbn [snd].
    apply accepted_ok. eapply session_acc; [apply good_init | exact E].
  Qed.

  (* ---- one dispatch, unfolded ---- *)
  Definition ps_state (sg : signal) (idx : nat) (s : lstate U) : lstate U :=
    if (idx =? 0)%nat then s <| tickets := mark_line_to_go (tickets s) (sg_cls sg) |> else s.

  Lemma unhandled_kills f sg s :
    handlers_of s CLS_EXCEPTION = None -> sg_cls sg = CLS_EXCEPTION ->
    exec code (S f) (CProcessSignal sg 0) s =
    (OThrow XSysExit, emit EKill (s <| tickets := mark_line_to_go (tickets s) CLS_EXCEPTION |>)).
  Proof.
    intros Hh Hc. cbn [exec Nat.eqb]. rewrite Hc.
    change (handlers_of (s <| tickets := mark_line_to_go (tickets s) CLS_EXCEPTION |>) CLS_EXCEPTION)
      with (handlers_of s CLS_EXCEPTION).
    rewrite Hh. reflexivity.
  Qed.

  Lemma sysexit_through_procloop f s sg s1 s3 :
    run_loop s = true -> do_get s = inl (Some (sg, s1)) ->
    exec code f (CProcessSignal sg 0) (emit (EDispatch (sg_id sg) (active s) (length (levels s))) s1)
      = (OThrow XSysExit, s3) ->
    exec code (S f) CProcLoop s = (OThrow XSysExit, s3).
  Proof. intros Hr Hg He. cbn [exec]. rewrite Hr, Hg, He. reflexivity. Qed.

  Lemma sysexit_through_mainloop f s s1 :
    run_loop s = true -> exec code f CProcLoop s = (OThrow XSysExit, s1) ->
    exec code (S f) CMainloop s = (OThrow XSysExit, s1).
  Proof. intros Hr He. cbn [exec]. rewrite Hr, He. reflexivity. Qed.

  Definition run_entry (s : lstate U) : lstate U := emit ERunEnter (s <| force_quit := false |> <| run_loop := true |>).
  Definition run_exit (s1 : lstate U) : lstate U :=
    emit ERunReturn match quit_cb s1 with Some a => emit (EQuitCb a) s1 | None => s1 end.

  (* run() = the main loop between ERunEnter and (only on a normal end or ExitMainLoop) the quit callback *)
  Lemma run_cases f s :
    exec code (S f) CRun s =
    match exec code f CMainloop (run_entry s) with
    | (ONormal, s1) | (OThrow XExit, s1) => (ONormal, run_exit s1)
    | r => r
    end.
  Proof.
    cbn [exec]. fold (run_entry s). destruct (exec code f CMainloop (run_entry s)) as [o s1].
    destruct o as [|[]| |]; reflexivity.
  Qed.

  Lemma sysexit_through_run f s s' :
    exec code (S f) CRun s = (OThrow XSysExit, s') <-> exec code f CMainloop (run_entry s) = (OThrow XSysExit, s').
  Proof.
    rewrite run_cases. destruct (exec code f CMainloop (run_entry s)) as [o s1].
    destruct o as [|[]| |]; split; intros H; try exact H; discriminate.
  Qed.

  Lemma run_normal_only f s s' :
    exec code (S f) CRun s = (ONormal, s') ->
    exists s1, s' = run_exit s1 /\
               (exec code f CMainloop (run_entry s) = (ONormal, s1) \/
                exec code f CMainloop (run_entry s) = (OThrow XExit, s1)).
  Proof.
    rewrite run_cases. destruct (exec code f CMainloop (run_entry s)) as [o s1].
    destruct o as [|[]| |]; intros H; inversion H; subst; eauto.
  Qed.

  Lemma failure_isolated f sg idx s hs hid data s2 :
    handlers_of (ps_state sg idx s) (sg_cls sg) = Some hs -> force_quit (ps_state sg idx s) = false ->
    nth_error hs idx = Some (hid, data) ->
    exec code f (CProg (code hid sg data)) (emit (EHandler hid (sg_id sg) data) (ps_state sg idx s)) = (OThrow XError, s2) ->
    exec code (S f) (CProcessSignal sg idx) s =
    let s3 := emit (EHandlerEnd hid (sg_id sg) (Some XError)) s2 in
    let '(xs, s4) := new_signal s3 exception_spec in
    exec code f (CProcessSignal sg (S idx)) (do_enqueue s4 xs).
  Proof.
    intros Hh Hf Hn He. cbn [exec]. fold (ps_state sg idx s). rewrite Hh, Hf, Hn, He. reflexivity.
  Qed.

  (* the ExceptionSignal has no source: it goes to the active queue (or is dropped after force_quit) *)
  Lemma enqueue_exception s id :
    do_enqueue s (mk_signal id exception_spec) =
    if force_quit s then emit (EDropped id) s
    else emit (EEnq id (active s)) (set_q s (active s) (q_put (get_q s (active s)) (mk_signal id exception_spec))).
  Proof. unfold do_enqueue. cbn [mk_signal sg_src sg_id exception_spec sp_src]. rewrite route_none. reflexivity. Qed.
End Exec.

(* ---------------------------------------------------------------- the reference queue *)
Local Open Scope Z_scope.

Lemma stable_insert_head x q :
  (forall p s, In (p, s) q -> -20 < p) -> stable_insert (-20) x q = (-20, x) :: q.
Proof.
  destruct q as [|[p s] r]; intros H; cbn [stable_insert]; [reflexivity|].
  assert (Hp : -20 < p) by (apply (H p s); now left).
  apply Z.ltb_lt in Hp. rewrite Hp. reflexivity.
Qed.

Lemma stable_insert_split p x q :
  exists l1 l2, q = l1 ++ l2 /\ stable_insert p x q = l1 ++ (p, x) :: l2 /\
                (forall p' s', In (p', s') l1 -> p' <= p) /\
                match l2 with [] => True | (p', _) :: _ => p < p' end.
Proof.
  induction q as [|[p' s'] r IH]; cbn [stable_insert].
  - exists [], []. repeat split; auto. intros ? ? [].
  - destruct (p <? p') eqn:E.
    + exists [], ((p', s') :: r). repeat split; auto. intros ? ? []. now apply Z.ltb_lt.
    + destruct IH as (l1 & l2 & -> & -> & H1 & H2).
      exists ((p', s') :: l1), l2. repeat split; auto.
      intros a b [Hab|Hab]; [inversion Hab; subst; apply Z.ltb_ge; exact E | eauto].
Qed.

(* ---------------------------------------------------------------- after the kill: nothing but unwinding *)
Lemma run_mon_app chk t1 : forall w i t2,
  run_mon chk w (t1 ++ t2) i = None -> run_mon chk (fold_left world_step t1 w) t2 (i + length t1) = None.
Proof.
  induction t1 as [|a t1 IH]; intros w i t2 H; cbn [app run_mon fold_left length] in *.
  - now rewrite Nat.add_0_r.
  - destruct (chk w a); [|discriminate]. apply IH in H. now rewrite <- Nat.add_succ_comm.
Qed.

Lemma killed_only_unwind t : forall w i,
  w_killed w = true -> run_mon chk_C02 w t i = None -> forall e, In e t -> is_unwind e = true.
Proof.
  induction t as [|a t IH]; intros w i Hk H e He; [destruct He|]. cbn [run_mon] in H.
  destruct (chk_C02 w a) eqn:Ec; [|discriminate].
  assert (Ha : is_unwind a = true) by (unfold chk_C02 in Ec; now rewrite Hk in Ec).
  destruct He as [<-|He]; [exact Ha|].
  eapply IH; [|exact H|exact He].
  destruct a as [| | | | | | | | |h sid [[]|]| | | | | | | | | | | | | | |]; try discriminate Ha. exact Hk.
Qed.

Lemma after_kill t1 t2 :
  ok_C02 (t1 ++ EKill :: t2) = true -> forall e, In e t2 -> is_unwind e = true.
Proof.
  unfold ok_C02, ok. destruct (run_mon chk_C02 world0 (t1 ++ EKill :: t2) 0) eqn:E; [discriminate|]. intros _.
  apply run_mon_app in E. cbn [run_mon] in E.
  destruct (chk_C02 (fold_left world_step t1 world0) EKill); [|discriminate].
  eapply killed_only_unwind; [|exact E]. reflexivity.
Qed.

Lemma after_kill_shape t1 t2 :
  ok_C02 (t1 ++ EKill :: t2) = true ->
  forall e, In e t2 -> exists h sid, e = EHandlerEnd h sid (Some XSysExit).
Proof.
  intros H e He. pose proof (after_kill t1 t2 H e He) as Hu.
  destruct e as [| | | | | | | | |h sid [[]|]| | | | | | | | | | | | | | |]; try discriminate Hu. eauto.
Qed.
