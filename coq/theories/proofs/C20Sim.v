From SL Require Import Tac.
From Coq Require Import ZArith NArith List Bool Lia.
From RecordUpdate Require Import RecordUpdate.
From SL Require Import PyInt LoopSem LoopProg ScreenSem GLibSem GLibFrag GLibApp drv.Drv_loop proofs.C20Proofs.
Import ListNotations.

Section Sim.
  Context {U : Type}.
  Variable code : nat -> signal -> nat -> prog U.

  (* ------------------------------------------------------------ fexec is exec with checks *)
  Ltac fstep IH :=
    match goal with
    | H : obind (fexec ?cd ?f ?c ?s) _ = Some _ |- _ =>
      let o := fresh "o" in let s1 := fresh "s" in let E := fresh "E" in
      destruct (fexec cd f c s) as [[o s1]|] eqn:E; cbn [obind] in H; [apply IH in E; rewrite E | discriminate H]
    | H : Some _ = Some _ |- _ => inversion H; subst; clear H
    | H : None = Some _ |- _ => discriminate H
    | H : (let '(_, _) := ?x in _) = Some _ |- _ => destruct x eqn:?
    | H : (if ?b then _ else _) = Some _ |- _ => destruct b eqn:?
    | H : match ?x with _ => _ end = Some _ |- _ => destruct x eqn:?
    end.

  Lemma do_get_inr (s : lstate U) x sp r : do_get s = inr x -> ext s = sp :: r ->
    x = (let '(sg, s1) := new_signal (s <| ext := r |>) sp in do_enqueue (emit (EExt (sg_id sg)) s1) sg).
  Proof.
    unfold do_get. destruct (q_pop (get_q s (active s))) as [[[[? ?] ?] ?]|]; [discriminate|].
    intros H E. rewrite E in H. inversion H. reflexivity.
  Qed.

  Lemma fexec_is_exec : forall f c s o s', fexec code f c s = Some (o, s') -> exec code f c s = (o, s').
  Proof.
    induction f as [|f IH]; intros c s o s' H; [inversion H; reflexivity|].
    destruct c; cbn [fexec] in H; cbn [exec].
    all: repeat (fstep IH).
    all: try reflexivity.
    all: try (apply IH; assumption).
    all: try match goal with
             | Hg : do_get ?s = inr ?x, He : ext ?s = ?sp :: ?r, Hn : new_signal _ ?sp = (?sg, ?s1) |- _ =>
               rewrite (do_get_inr _ _ _ _ Hg He), Hn; apply IH; assumption
             end.
    all: match goal with H : run_loop _ && enqueue_ok _ _ = true |- _ =>
           apply andb_true_iff in H; destruct H as [_ H]; unfold enqueue_ok in H;
           apply andb_true_iff in H; destruct H as [H _]; apply andb_true_iff in H; destruct H as [H _];
           apply negb_true_iff in H; cbn in H; rewrite H end; reflexivity.
  Qed.

  (* ------------------------------------------------------------ more fuel does not change a finished run *)

  Ltac mstep IH f' Hle :=
    match goal with
    | H : (let '(_, _) := (if ?b then _ else _) in _) = _ |- _ => destruct b eqn:?
    | H : (let '(_, _) := gexec ?m ?cd ?f ?c ?s in _) = _ |- _ =>
      let o := fresh "o" in let s1 := fresh "s" in let E := fresh "E" in
      destruct (gexec m cd f c s) as [o s1] eqn:E;
      let Hn := fresh "Hn" in
      assert (Hn : o <> OFuel -> gexec m cd f' c s = (o, s1)) by (intro; apply (IH _ _ _ _ E); assumption);
      destruct o as [| [] | |]; try (rewrite Hn by discriminate); clear Hn
    | H : (_, _) = (_, _) |- _ => inversion H; subst; clear H
    | H : (let '(_, _) := ?x in _) = _ |- _ => destruct x eqn:?
    | H : (if ?b then _ else _) = _ |- _ => destruct b eqn:?
    | H : match ?x with _ => _ end = _ |- _ => destruct x eqn:?
    end.

  Lemma gexec_mono mf : forall f c s o s', gexec mf code f c s = (o, s') -> o <> OFuel ->
    forall f', f <= f' -> gexec mf code f' c s = (o, s').
  Proof.
    induction f as [|f IH]; intros c s o s' H Ho f' Hle; [inversion H; subst; congruence|].
    destruct f' as [|f']; [lia|]. assert (Hle' : f <= f') by lia.
    assert (IH' : forall c s o s', gexec mf code f c s = (o, s') -> o <> OFuel -> gexec mf code f' c s = (o, s'))
      by (intros; eapply IH; eauto).
    clear IH Hle.
    destruct c; cbn [gexec] in H; cbn [gexec].
    all: repeat (mstep IH' f' Hle').
    all: try congruence.
    all: try reflexivity.
    all: try (apply IH'; assumption).
  Qed.


  (* ------------------------------------------------------------ list / store lemmas *)
  Lemma nth_set_nth_eq {A} (l : list A) q v d : q < length l -> nth q (set_nth l q v) d = v.
  Proof. revert q; induction l as [|a l IH]; intros [|q] H; cbn in *; try lia; auto. apply IH; lia. Qed.
  Lemma nth_set_nth_neq {A} (l : list A) q q' v d : q <> q' -> nth q' (set_nth l q v) d = nth q' l d.
  Proof. revert q q'; induction l as [|a l IH]; intros [|q] [|q'] H; cbn in *; try congruence; auto. Qed.
  Lemma length_set_nth {A} (l : list A) q v : length (set_nth l q v) = length l.
  Proof. revert q; induction l as [|a l IH]; intros [|q]; cbn; auto. Qed.

  Definition is_obs (e : event) : bool :=
    match e with EHandler _ _ _ | EMark _ | EUser _ _ _ | ERunReturn => true | _ => false end.
  Definition obs (t : list event) : list event := filter is_obs t.

  Definition live_srcs (gl : glevel) : list gsource := filter gs_live (gl_sources gl).
  Definition incall_srcs (gl : glevel) : list gsource := filter gs_incall (gl_sources gl).

  Definition lvl_rel (n : N) (qe : equeue) (gl : glevel) : Prop :=
    eq_sources qe = gl_srcs gl /\
    gl_pending gl = [] /\
    NoDup (map gs_seq (gl_sources gl)) /\
    Forall (fun y => (gs_seq y < n)%N /\ gs_bound y = true) (gl_sources gl) /\
    map (fun e : entry => snd e) (eq_entries qe) = map gs_sig (live_srcs gl) /\
    length (eq_entries qe) <= 1.

  Record Rel (s : lstate U) (g : gstate U) : Prop := {
    r_levels : levels s = glevels g;
    r_len : length (qstore s) = length (gstore g);
    r_valid : Forall (fun q => q < length (qstore s)) (levels s);
    r_nonempty : levels s <> [];
    r_active : active s = last (levels s) 0;
    r_handlers : handlers s = ghandlers g;
    r_fq : force_quit s = false;
    r_gfq : gforce_quit g = false;
    r_qcb : quit_cb s = gquit_cb g;
    r_sig : next_sig s = gnext_sig g;
    r_ust : ust s = gust g;
    r_ext : ext s = gext g;
    r_lvl : forall q, q < length (qstore s) -> lvl_rel (gnext_seq g) (get_q s q) (get_l g q);
    r_obs : obs (trace s) = obs (gtrace g) }.

  (* Rel looks at the MainLoop state only through these fields (not: tickets, run_loop) *)
  Definition same_core (s1 s2 : lstate U) : Prop :=
    levels s1 = levels s2 /\ qstore s1 = qstore s2 /\ active s1 = active s2 /\ handlers s1 = handlers s2 /\
    force_quit s1 = force_quit s2 /\ quit_cb s1 = quit_cb s2 /\ next_sig s1 = next_sig s2 /\ ust s1 = ust s2 /\
    ext s1 = ext s2 /\ obs (trace s1) = obs (trace s2).
  (* ... and at the GLib state not through: tickets, the is_running flags *)
  Definition gsame_core (g1 g2 : gstate U) : Prop :=
    glevels g1 = glevels g2 /\ length (gstore g1) = length (gstore g2) /\
    (forall q, gl_sources (get_l g1 q) = gl_sources (get_l g2 q) /\ gl_pending (get_l g1 q) = gl_pending (get_l g2 q) /\
               gl_srcs (get_l g1 q) = gl_srcs (get_l g2 q)) /\
    ghandlers g1 = ghandlers g2 /\ gforce_quit g1 = gforce_quit g2 /\ gquit_cb g1 = gquit_cb g2 /\
    gnext_sig g1 = gnext_sig g2 /\ gnext_seq g1 = gnext_seq g2 /\ gust g1 = gust g2 /\ gext g1 = gext g2 /\
    obs (gtrace g1) = obs (gtrace g2).

  Lemma Rel_core s1 s2 g : Rel s1 g -> same_core s1 s2 -> Rel s2 g.
  Proof.
    intros R (H1 & H2 & H3 & H4 & H5 & H6 & H7 & H8 & H9 & H10). destruct R.
    constructor; unfold get_q in *; try congruence.
    - rewrite <- H1, <- H2; assumption.
    - rewrite <- H2. assumption.
  Qed.
  Lemma Rel_gcore s g1 g2 : Rel s g1 -> gsame_core g1 g2 -> Rel s g2.
  Proof.
    intros R (H1 & H2 & H3 & H4 & H5 & H6 & H7 & H8 & H9 & H10 & H11). destruct R.
    constructor; try congruence.
    intros q Hq. specialize (r_lvl0 q Hq). destruct (H3 q) as (A & B & C).
    unfold lvl_rel, live_srcs in *. rewrite <- A, <- B, <- C, <- H8. exact r_lvl0.
  Qed.

  (* ------------------------------------------------------------ stores *)
  Lemma get_q_set_eq (s : lstate U) q v : q < length (qstore s) -> get_q (set_q s q v) q = v.
  Proof. intros H. unfold get_q, set_q. cbn. apply nth_set_nth_eq; assumption. Qed.
  Lemma get_q_set_neq (s : lstate U) q q' v : q <> q' -> get_q (set_q s q v) q' = get_q s q'.
  Proof. intros H. unfold get_q, set_q. cbn. apply nth_set_nth_neq; assumption. Qed.
  Lemma len_set_q (s : lstate U) q v : length (qstore (set_q s q v)) = length (qstore s).
  Proof. unfold set_q. cbn. apply length_set_nth. Qed.
  Lemma get_l_upd_eq (g : gstate U) l f : l < length (gstore g) -> get_l (upd_l g l f) l = f (get_l g l).
  Proof. intros H. unfold upd_l, set_l, get_l. cbn. apply nth_set_nth_eq; assumption. Qed.
  Lemma get_l_upd_neq (g : gstate U) l q f : l <> q -> get_l (upd_l g l f) q = get_l g q.
  Proof. intros H. unfold upd_l, set_l, get_l. cbn. apply nth_set_nth_neq; assumption. Qed.
  Lemma len_upd_l (g : gstate U) l f : length (gstore (upd_l g l f)) = length (gstore g).
  Proof. unfold upd_l, set_l. cbn. apply length_set_nth. Qed.

  Lemma lvl_rel_mono n n' qe gl : (n <= n')%N -> lvl_rel n qe gl -> lvl_rel n' qe gl.
  Proof.
    intros Hn (A & B & C & D & E & F). repeat split; auto.
    eapply Forall_impl; [|exact D]. cbn. intros y [Hy Hb]. split; [lia|exact Hb].
  Qed.

  (* changing one level on both sides *)
  Lemma Rel_level s g l qe' (f : glevel -> glevel) :
    Rel s g -> l < length (qstore s) -> lvl_rel (gnext_seq g) qe' (f (get_l g l)) ->
    Rel (set_q s l qe') (upd_l g l f).
  Proof.
    intros R Hl Hr. destruct R.
    constructor; try assumption.
    - rewrite len_set_q, len_upd_l. assumption.
    - rewrite len_set_q. assumption.
    - intros q Hq. rewrite len_set_q in Hq. destruct (Nat.eq_dec l q) as [<-|Hne].
      + rewrite get_q_set_eq, get_l_upd_eq by lia. exact Hr.
      + rewrite get_q_set_neq, get_l_upd_neq by assumption. apply r_lvl0; assumption.
  Qed.
  Lemma set_q_same (s : lstate U) q : q < length (qstore s) -> qstore (set_q s q (get_q s q)) = qstore s.
  Proof.
    unfold set_q, get_q. cbn. generalize (qstore s) as l. intros l; revert q.
    induction l as [|a l IH]; intros [|q] H; cbn in *; try lia; auto. f_equal. apply IH. lia.
  Qed.
  Lemma Rel_glevel s g l (f : glevel -> glevel) :
    Rel s g -> l < length (qstore s) -> lvl_rel (gnext_seq g) (get_q s l) (f (get_l g l)) -> Rel s (upd_l g l f).
  Proof.
    intros R Hl Hr. eapply Rel_core; [eapply Rel_level with (qe' := get_q s l); eassumption|].
    unfold same_core. rewrite set_q_same by assumption. unfold set_q; cbn. repeat split; reflexivity.
  Qed.

  (* ------------------------------------------------------------ source lists *)
  Lemma live_not_incall x : gs_live x = negb (gs_incall x).
  Proof. reflexivity. Qed.

  Lemma min_prio_filter acc l : min_prio acc l = min_prio acc (filter gs_live l).
  Proof.
    revert acc; induction l as [|x l IH]; intros acc; cbn [min_prio filter]; [reflexivity|].
    destruct (gs_live x) eqn:E; cbn [min_prio]; rewrite ?E; apply IH.
  Qed.
  Lemma filter_andb {A} (f h : A -> bool) l : filter (fun y => f y && h y) l = filter h (filter f l).
  Proof.
    induction l as [|x l IH]; cbn; [reflexivity|].
    destruct (f x); cbn; [destruct (h x); rewrite IH; reflexivity | exact IH].
  Qed.
  Lemma batch_of_nil l : filter gs_live l = [] -> batch_of l = [].
  Proof. intros H. unfold batch_of. rewrite min_prio_filter, H. reflexivity. Qed.
  Lemma batch_of_single l x : filter gs_live l = [x] -> batch_of l = [gs_seq x].
  Proof.
    intros H. unfold batch_of. rewrite min_prio_filter, H.
    assert (Hx : gs_live x = true).
    { assert (In x (filter gs_live l)) by (rewrite H; left; reflexivity). apply filter_In in H0. tauto. }
    cbn [min_prio]. rewrite Hx. rewrite filter_andb, H. cbn. rewrite Z.eqb_refl. reflexivity.
  Qed.

  Lemma upd_source_notin l q f : (forall y, In y l -> gs_seq y <> q) -> upd_source l q f = l.
  Proof.
    induction l as [|y l IH]; intros H; cbn; [reflexivity|].
    destruct (gs_seq y =? q)%N eqn:E.
    - apply N.eqb_eq in E. exfalso. apply (H y); [left; reflexivity | exact E].
    - f_equal. apply IH. intros z Hz. apply H. right; exact Hz.
  Qed.
  Lemma del_source_notin l q : (forall y, In y l -> gs_seq y <> q) -> del_source l q = l.
  Proof.
    induction l as [|y l IH]; intros H; cbn; [reflexivity|].
    destruct (gs_seq y =? q)%N eqn:E; cbn.
    - apply N.eqb_eq in E. exfalso. apply (H y); [left; reflexivity | exact E].
    - f_equal. apply IH. intros z Hz. apply H. right; exact Hz.
  Qed.
  Lemma find_source_notin l q : (forall y, In y l -> gs_seq y <> q) -> find_source l q = None.
  Proof.
    induction l as [|y l IH]; intros H; cbn; [reflexivity|].
    destruct (gs_seq y =? q)%N eqn:E.
    - apply N.eqb_eq in E. exfalso. apply (H y); [left; reflexivity | exact E].
    - apply IH. intros z Hz. apply H. right; exact Hz.
  Qed.

  (* a list with x at a known place, every other source having another sequence number *)
  Definition split_at (l l1 : list gsource) (x : gsource) (l2 : list gsource) : Prop :=
    l = l1 ++ x :: l2 /\ (forall y, In y l1 -> gs_seq y <> gs_seq x) /\ (forall y, In y l2 -> gs_seq y <> gs_seq x).

  Lemma nodup_split l x : NoDup (map gs_seq l) -> In x l -> exists l1 l2, split_at l l1 x l2.
  Proof.
    intros Hn Hin. apply in_split in Hin. destruct Hin as (l1 & l2 & ->). exists l1, l2.
    split; [reflexivity|]. rewrite map_app in Hn. cbn in Hn. apply NoDup_remove_2 in Hn.
    split; intros y Hy Heq; apply Hn; apply in_or_app; [left|right]; rewrite <- Heq; apply in_map; exact Hy.
  Qed.
  Lemma find_split l l1 x l2 : split_at l l1 x l2 -> find_source l (gs_seq x) = Some x.
  Proof.
    intros (-> & H1 & H2). unfold find_source. induction l1 as [|y l1 IH]; cbn.
    - rewrite N.eqb_refl. reflexivity.
    - destruct (gs_seq y =? gs_seq x)%N eqn:E.
      + apply N.eqb_eq in E. exfalso. apply (H1 y); [left; reflexivity|exact E].
      + apply IH. intros z Hz. apply H1. right; exact Hz.
  Qed.
  Lemma upd_split l l1 x l2 f : split_at l l1 x l2 -> upd_source l (gs_seq x) f = l1 ++ f x :: l2.
  Proof.
    intros (-> & H1 & H2). unfold upd_source. rewrite map_app. cbn. rewrite N.eqb_refl.
    fold (upd_source l1 (gs_seq x) f). fold (upd_source l2 (gs_seq x) f).
    rewrite (upd_source_notin l1), (upd_source_notin l2) by assumption. reflexivity.
  Qed.
  Lemma del_split l l1 x l2 : split_at l l1 x l2 -> del_source l (gs_seq x) = l1 ++ l2.
  Proof.
    intros (-> & H1 & H2). unfold del_source. rewrite filter_app. cbn. rewrite N.eqb_refl. cbn.
    fold (del_source l1 (gs_seq x)). fold (del_source l2 (gs_seq x)).
    rewrite (del_source_notin l1), (del_source_notin l2) by assumption. reflexivity.
  Qed.
  Lemma del_del l q : del_source (del_source l q) q = del_source l q.
  Proof.
    unfold del_source. induction l as [|y l IH]; cbn; [reflexivity|].
    destruct (gs_seq y =? q)%N eqn:E; cbn; [exact IH|]. rewrite E. cbn. f_equal. exact IH.
  Qed.

  (* ------------------------------------------------------------ what a piece of code may do to the frame around it *)
  Definition flags_kept (g g' : gstate U) (except : option nat) : Prop :=
    forall q, q < length (gstore g) -> Some q <> except -> gl_running (get_l g' q) = gl_running (get_l g q).
  Definition incall_kept (g g' : gstate U) : Prop :=
    forall q, q < length (gstore g) -> incall_srcs (get_l g' q) = incall_srcs (get_l g q).
  (* either the level stack and the run flag are as before, or exactly the top level was closed *)
  Definition Step (s : lstate U) (g : gstate U) (s' : lstate U) (g' : gstate U) : Prop :=
    length (gstore g) <= length (gstore g') /\ incall_kept g g' /\
    ((levels s' = levels s /\ run_loop s' = run_loop s /\ flags_kept g g' None) \/
     (exists l, levels s = levels s' ++ [l] /\ run_loop s = true /\ run_loop s' = false /\
                gl_running (get_l g' l) = false /\ flags_kept g g' (Some l))).

  Lemma Step_refl s g : Step s g s g.
  Proof. split; [lia|]. split; [intros q _; reflexivity|]. left. split; [reflexivity|]. split; [reflexivity|]. intros q _ _; reflexivity. Qed.

  Lemma Step_trans s g s1 g1 s2 g2 :
    Forall (fun q => q < length (gstore g)) (levels s) ->
    Step s g s1 g1 -> Step s1 g1 s2 g2 -> Step s g s2 g2.
  Proof.
    intros Hv (L1 & I1 & C1) (L2 & I2 & C2). split; [lia|]. split.
    - intros q Hq. rewrite I2 by lia. apply I1; assumption.
    - destruct C1 as [(A1 & B1 & F1) | (l & A1 & B1 & B1' & D1 & F1)];
      destruct C2 as [(A2 & B2 & F2) | (l2 & A2 & B2 & B2' & D2 & F2)].
      + left. repeat split; try congruence. intros q Hq Hn. rewrite F2 by (lia || assumption). apply F1; assumption.
      + right. exists l2. repeat split; try congruence.
        intros q Hq Hn. rewrite F2 by (lia || assumption). apply F1; [assumption|discriminate].
      + right. exists l. repeat split; try congruence.
        * rewrite F2; [assumption| |discriminate].
          rewrite Forall_forall in Hv. specialize (Hv l). rewrite A1 in Hv.
          assert (l < length (gstore g)) by (apply Hv; apply in_or_app; right; left; reflexivity). lia.
        * intros q Hq Hn. rewrite F2 by (lia || discriminate). apply F1; assumption.
      + congruence.
  Qed.

  Lemma Step_change s1 g1 s2 g2 s1' g1' s2' g2' :
    levels s1 = levels s2 -> run_loop s1 = run_loop s2 -> gstore g1 = gstore g2 ->
    levels s1' = levels s2' -> run_loop s1' = run_loop s2' -> gstore g1' = gstore g2' ->
    Step s1 g1 s1' g1' -> Step s2 g2 s2' g2'.
  Proof.
    intros A B C A' B' C'. unfold Step, flags_kept, incall_kept, get_l. rewrite A, B, C, A', B', C'. tauto.
  Qed.

  Lemma Step_same s g s' g' :
    levels s' = levels s -> run_loop s' = run_loop s -> length (gstore g') = length (gstore g) ->
    (forall q, gl_running (get_l g' q) = gl_running (get_l g q)) ->
    (forall q, incall_srcs (get_l g' q) = incall_srcs (get_l g q)) ->
    Step s g s' g'.
  Proof.
    intros A B C D E. split; [lia|]. split; [intros q _; apply E|]. left. split; [exact A|]. split; [exact B|].
    intros q _ _. apply D.
  Qed.

  Definition Post (o : outcome) (s : lstate U) (g : gstate U) (s' : lstate U) (g' : gstate U) : Prop :=
    match o with
    | OBlocked => obs (trace s') = obs (gtrace g')
    | OFuel => False
    | _ => Rel s' g' /\ Step s g s' g'
    end.

  Definition GRes (gc : gcall U) (g : gstate U) (o : outcome) (P : gstate U -> Prop) : Prop :=
    exists f0 g', gexec false code f0 gc g = (o, g') /\ P g'.

  Lemma Rel_valid_g s g : Rel s g -> Forall (fun q => q < length (gstore g)) (levels s).
  Proof. intros R. destruct R. rewrite <- r_len0. assumption. Qed.

  (* ------------------------------------------------------------ Rel under the elementary updates *)
  Lemma Rel_emit2 s g e : Rel s g -> Rel (emit e s) (gemit e g).
  Proof.
    intros R. destruct R. constructor; try assumption.
    unfold emit, gemit. cbn. unfold obs in *. cbn. destruct (is_obs e); [f_equal|]; assumption.
  Qed.
  Lemma Rel_emit_l s g e : is_obs e = false -> Rel s g -> Rel (emit e s) g.
  Proof.
    intros He R. eapply Rel_core; [exact R|]. unfold same_core, emit, obs. cbn. rewrite He. repeat split; reflexivity.
  Qed.
  Lemma Rel_emit_r s g e : is_obs e = false -> Rel s g -> Rel s (gemit e g).
  Proof.
    intros He R. eapply Rel_gcore; [exact R|]. unfold gsame_core, gemit, obs, get_l. cbn. rewrite He.
    repeat split; reflexivity.
  Qed.
  Lemma Rel_ust s g u : Rel s g -> Rel (s <| ust := u |>) (g <| gust := u |>).
  Proof. intros R. destruct R. constructor; try assumption. reflexivity. Qed.
  Lemma Rel_run_loop s g b : Rel s g -> Rel (s <| run_loop := b |>) g.
  Proof. intros R. eapply Rel_core; [exact R|]. unfold same_core. cbn. repeat split; reflexivity. Qed.
  Lemma Rel_tickets s g t : Rel s g -> Rel (s <| tickets := t |>) g.
  Proof. intros R. eapply Rel_core; [exact R|]. unfold same_core. cbn. repeat split; reflexivity. Qed.
  Lemma Rel_gtickets s g t : Rel s g -> Rel s (g <| gtickets := t |>).
  Proof. intros R. eapply Rel_gcore; [exact R|]. unfold gsame_core, get_l. cbn. repeat split; reflexivity. Qed.

  Lemma upd_l_gemit (g : gstate U) e l f : upd_l (gemit e g) l f = gemit e (upd_l g l f).
  Proof. reflexivity. Qed.
  Lemma set_q_emit (s : lstate U) e q v : set_q (emit e s) q v = emit e (set_q s q v).
  Proof. reflexivity. Qed.

  Lemma handlers_of_eq s g cls : Rel s g -> handlers_of s cls = ghandlers_of g cls.
  Proof. intros R. unfold handlers_of, ghandlers_of. rewrite (r_handlers _ _ R). reflexivity. Qed.

  Lemma new_signal_rel s g sp : Rel s g ->
    fst (new_signal s sp) = fst (gnew_signal g sp) /\ Rel (snd (new_signal s sp)) (snd (gnew_signal g sp)).
  Proof.
    intros R. unfold new_signal, gnew_signal. cbn [fst snd]. rewrite <- (r_sig _ _ R). split; [reflexivity|].
    apply Rel_emit2. destruct R. constructor; try assumption. cbn. congruence.
  Qed.

  Lemma route_eq s g ls src : Rel s g -> Forall (fun q => q < length (qstore s)) ls -> route s ls src = groute g ls src.
  Proof.
    intros R Hv. induction Hv as [|q ls Hq Hv IH]; cbn [route groute]; [reflexivity|].
    destruct (r_lvl _ _ R q Hq) as (A & _). unfold q_contains_source. rewrite A, IH. reflexivity.
  Qed.
  Lemma route_valid (s : lstate U) ls src q : Forall (fun q => q < length (qstore s)) ls -> route s ls src = Some q -> q < length (qstore s).
  Proof.
    intros Hv. induction Hv as [|q0 ls Hq Hv IH]; cbn [route]; [discriminate|].
    destruct (q_contains_source (get_q s q0) src); [intros [= <-]; assumption | exact IH].
  Qed.
  Lemma last_rev {A} (l : list A) d : l <> [] -> exists r, rev l = last l d :: r.
  Proof.
    intros H. destruct (exists_last H) as (l' & a & ->). rewrite rev_app_distr, last_last. cbn. eauto.
  Qed.
  Lemma active_valid s g : Rel s g -> active s < length (qstore s).
  Proof.
    intros R. rewrite (r_active _ _ R). pose proof (r_valid _ _ R) as Hv. pose proof (r_nonempty _ _ R) as Hn.
    rewrite Forall_forall in Hv. apply Hv. destruct (exists_last Hn) as (l' & a & ->). rewrite last_last.
    apply in_or_app; right; left; reflexivity.
  Qed.
  Lemma target_valid s g sg : Rel s g -> target_queue s sg < length (qstore s).
  Proof.
    intros R. unfold target_queue. destruct (route s (rev (levels s)) (sg_src sg)) eqn:E.
    - eapply route_valid; [|exact E]. apply Forall_rev. apply (r_valid _ _ R).
    - eapply active_valid; exact R.
  Qed.

  Lemma Rel_next_seq s g : Rel s g -> Rel s (g <| gnext_seq := N.succ (gnext_seq g) |>).
  Proof.
    intros R. destruct R. constructor; try assumption.
    intros q Hq. eapply lvl_rel_mono; [|apply r_lvl0; exact Hq]. cbn. lia.
  Qed.

  Lemma NoDup_snoc {A} (l : list A) a : NoDup l -> ~ In a l -> NoDup (l ++ [a]).
  Proof.
    induction l as [|x l IH]; intros Hn Hi; cbn.
    - constructor; [intros []|constructor].
    - inversion Hn; subst. constructor.
      + intros Hin. apply in_app_or in Hin. destruct Hin as [Hin|[<-|[]]]; [contradiction|]. apply Hi. left; reflexivity.
      + apply IH; [assumption|]. intros Hin. apply Hi. right; exact Hin.
  Qed.

  Lemma lvl_rel_attach n qe gl sg :
    lvl_rel n qe gl -> eq_entries qe = [] ->
    lvl_rel (N.succ n) (q_put qe sg)
            (gl <| gl_sources := gl_sources gl ++ [ {| gs_seq := n; gs_prio := sg_prio sg; gs_sig := sg; gs_bound := true;
                                                       gs_incall := false |} ] |>).
  Proof.
    intros (A & B & C & D & E & F) He. unfold lvl_rel, live_srcs, q_put. cbn.
    rewrite He in *. cbn in E. symmetry in E. apply map_eq_nil in E.
    repeat split; try assumption.
    - rewrite map_app. cbn. apply NoDup_snoc; [exact C|].
      intros Hin. apply in_map_iff in Hin. destruct Hin as (y & Hy & Hin).
      rewrite Forall_forall in D. destruct (D y Hin) as [Hlt _]. rewrite Hy in Hlt. lia.
    - apply Forall_app. split.
      + eapply Forall_impl; [|exact D]. cbn. intros y [? ?]. split; [lia|assumption].
      + constructor; [|constructor]. cbn. split; [lia|reflexivity].
    - rewrite filter_app. unfold live_srcs in E. rewrite E. cbn. reflexivity.
    - cbn. lia.
  Qed.

  Definition new_source (g : gstate U) (sg : signal) : gsource :=
    {| gs_seq := gnext_seq g; gs_prio := sg_prio sg; gs_sig := sg; gs_bound := true; gs_incall := false |}.
  Definition attach (g : gstate U) (t : nat) (sg : signal) : gstate U :=
    upd_l (gemit (EEnq (sg_id sg) t) (g <| gnext_seq := N.succ (gnext_seq g) |>)) t
          (fun v => v <| gl_sources := gl_sources v ++ [new_source g sg] |>).

  Lemma g_enqueue_eq s g sg : Rel s g -> enqueue_ok s sg = true -> g_enqueue g sg = Some (attach g (target_queue s sg) sg).
  Proof.
    intros R Hok. unfold enqueue_ok in Hok. apply andb_true_iff in Hok. destruct Hok as [Hok Hh].
    apply andb_true_iff in Hok. destruct Hok as [Hfq He].
    unfold g_enqueue. rewrite (r_gfq _ _ R).
    rewrite <- (r_levels _ _ R). rewrite <- (route_eq s g) by (try exact R; apply Forall_rev; apply (r_valid _ _ R)).
    unfold has_handlers in Hh. rewrite (handlers_of_eq _ _ _ R) in Hh.
    assert (Ht : match route s (rev (levels s)) (sg_src sg) with
                 | Some l => Some l
                 | None => match rev (levels s) with top :: _ => Some top | [] => None end
                 end = Some (target_queue s sg)).
    { unfold target_queue. destruct (route s (rev (levels s)) (sg_src sg)); [reflexivity|].
      destruct (last_rev (levels s) 0 (r_nonempty _ _ R)) as (r & ->). rewrite (r_active _ _ R). reflexivity. }
    rewrite Ht. destruct (ghandlers_of g (sg_cls sg)); [reflexivity|discriminate].
  Qed.

  Lemma do_enqueue_eq (s : lstate U) sg : force_quit s = false ->
    do_enqueue s sg = emit (EEnq (sg_id sg) (target_queue s sg)) (set_q s (target_queue s sg) (q_put (get_q s (target_queue s sg)) sg)).
  Proof. intros H. unfold do_enqueue, target_queue. rewrite H. reflexivity. Qed.

  Lemma q_empty_entries q : q_empty q = true -> eq_entries q = [].
  Proof. unfold q_empty. destruct (eq_entries q); [reflexivity|discriminate]. Qed.

  Lemma enqueue_rel s g sg : Rel s g -> enqueue_ok s sg = true ->
    Rel (do_enqueue s sg) (attach g (target_queue s sg) sg).
  Proof.
    intros R Hok. pose proof Hok as Hok'. unfold enqueue_ok in Hok. apply andb_true_iff in Hok. destruct Hok as [Hok Hh].
    apply andb_true_iff in Hok. destruct Hok as [Hfq He]. apply negb_true_iff in Hfq.
    rewrite do_enqueue_eq by assumption. unfold attach. rewrite upd_l_gemit. apply Rel_emit2.
    pose proof (target_valid _ _ sg R) as Ht.
    apply Rel_level; [apply Rel_next_seq; exact R | exact Ht |].
    apply (lvl_rel_attach (gnext_seq g) (get_q s (target_queue s sg)) (get_l g (target_queue s sg)) sg).
    - apply (r_lvl _ _ R). exact Ht.
    - apply q_empty_entries. exact He.
  Qed.

  Lemma attach_frame (g : gstate U) t sg : t < length (gstore g) ->
    glevels (attach g t sg) = glevels g /\ length (gstore (attach g t sg)) = length (gstore g) /\
    (forall q, gl_running (get_l (attach g t sg) q) = gl_running (get_l g q)) /\
    (forall q, incall_srcs (get_l (attach g t sg) q) = incall_srcs (get_l g q)).
  Proof.
    intros Ht. unfold attach. split; [reflexivity|]. split; [rewrite len_upd_l; reflexivity|]. split; intros q.
    - destruct (Nat.eq_dec t q) as [<-|Hne].
      + rewrite get_l_upd_eq by exact Ht. reflexivity.
      + rewrite get_l_upd_neq by exact Hne. reflexivity.
    - destruct (Nat.eq_dec t q) as [<-|Hne].
      + rewrite get_l_upd_eq by exact Ht. unfold incall_srcs. cbn. rewrite filter_app. cbn. apply app_nil_r.
      + rewrite get_l_upd_neq by exact Hne. reflexivity.
  Qed.

  Definition outcome_is_normal (o : outcome) : bool := match o with ONormal => true | _ => false end.

  (* ------------------------------------------------------------ the simulation, by induction on MainLoop's fuel *)
  Definition SProg (f : nat) : Prop := forall p s g o s',
    Rel s g -> fexec code f (CProg p) s = Some (o, s') -> o <> OFuel -> GRes (GProg p) g o (Post o s g s').
  Definition SApi (f : nat) : Prop := forall a s g o s',
    Rel s g -> fexec code f (CApi a) s = Some (o, s') -> o <> OFuel -> GRes (GApi a) g o (Post o s g s').

  Lemma gle f1 f2 c g o g' : gexec false code f1 c g = (o, g') -> o <> OFuel -> f1 <= f2 -> gexec false code f2 c g = (o, g').
  Proof. intros H Ho Hle. eapply gexec_mono; eassumption. Qed.

  Lemma Post_seq o s g s1 g1 s2 g2 :
    Rel s g -> Rel s1 g1 -> Step s g s1 g1 -> Post o s1 g1 s2 g2 -> Post o s g s2 g2.
  Proof.
    intros R R1 St P. destruct o as [|e| |]; cbn in *; try assumption.
    all: destruct P as [R2 St2]; split; [assumption|]; eapply Step_trans; [eapply Rel_valid_g; exact R| |]; eassumption.
  Qed.

  Lemma Post_pre o s1 g1 s2 g2 s' g' :
    levels s1 = levels s2 -> run_loop s1 = run_loop s2 -> gstore g1 = gstore g2 ->
    Post o s1 g1 s' g' -> Post o s2 g2 s' g'.
  Proof.
    intros A B C P. destruct o as [|e| |]; cbn in *; try assumption.
    all: destruct P as [R2 St2]; split; [assumption|]; eapply Step_change; try eassumption; reflexivity.
  Qed.
  Lemma Step_emit s g e e' : Step s g (emit e s) (gemit e' g).
  Proof. eapply Step_change; [..|apply (Step_refl s g)]; reflexivity. Qed.

  Lemma sim_prog f : SProg f -> SApi f -> SProg (S f).
  Proof.
    intros IHp IHa p s g o s' R H Ho. destruct p; cbn [fexec] in H.
    - (* PRet *) inversion H; subst. exists 1, g. split; [reflexivity|]. split; [assumption|apply Step_refl].
    - (* PThrow *) inversion H; subst. exists 1, g. split; [reflexivity|]. cbn. split; [assumption|apply Step_refl].
    - (* PSeq *)
      destruct (fexec code f (CProg p1) s) as [[o1 s1]|] eqn:E1; cbn [obind] in H; [|discriminate].
      destruct o1 as [|e1| |].
      + destruct (IHp _ _ _ _ _ R E1 ltac:(discriminate)) as (f1 & g1 & G1 & [R1 St1]).
        destruct (IHp _ _ _ _ _ R1 H Ho) as (f2 & g2 & G2 & P2).
        exists (S (Nat.max f1 f2)), g2. split.
        * cbn [gexec]. rewrite (gle _ _ _ _ _ _ G1) by (discriminate || lia).
          rewrite (gle _ _ _ _ _ _ G2) by (assumption || lia). reflexivity.
        * eapply Post_seq; eassumption.
      + inversion H; subst. destruct (IHp _ _ _ _ _ R E1 Ho) as (f1 & g1 & G1 & P1).
        exists (S f1), g1. split; [cbn [gexec]; rewrite G1; reflexivity | exact P1].
      + inversion H; subst. destruct (IHp _ _ _ _ _ R E1 Ho) as (f1 & g1 & G1 & P1).
        exists (S f1), g1. split; [cbn [gexec]; rewrite G1; reflexivity | exact P1].
      + inversion H; subst. congruence.
    - (* PTry *)
      destruct (fexec code f (CProg p1) s) as [[o1 s1]|] eqn:E1; cbn [obind] in H; [|discriminate].
      destruct o1 as [|[]| |].
      3: { destruct (IHp _ _ _ _ _ R E1 ltac:(discriminate)) as (f1 & g1 & G1 & [R1 St1]).
           destruct (IHp _ _ _ _ _ R1 H Ho) as (f2 & g2 & G2 & P2).
           exists (S (Nat.max f1 f2)), g2. split.
           - cbn [gexec]. rewrite (gle _ _ _ _ _ _ G1) by (discriminate || lia).
             rewrite (gle _ _ _ _ _ _ G2) by (assumption || lia). reflexivity.
           - eapply Post_seq; eassumption. }
      all: inversion H; subst; try congruence; destruct (IHp _ _ _ _ _ R E1 Ho) as (f1 & g1 & G1 & P1);
        exists (S f1), g1; (split; [cbn [gexec]; rewrite G1; reflexivity | exact P1]).
    - (* PApi *)
      destruct (IHa _ _ _ _ _ R H Ho) as (f1 & g1 & G1 & P1). exists (S f1), g1. split; [exact G1|exact P1].
    - (* PSt *)
      destruct (f0 (ust s)) as [u' p'] eqn:Eg.
      destruct (IHp _ _ _ _ _ (Rel_ust _ _ u' R) H Ho) as (f1 & g1 & G1 & P1).
      exists (S f1), g1. split.
      + cbn [gexec]. rewrite <- (r_ust _ _ R), Eg. exact G1.
      + eapply Post_pre; [..|exact P1]; reflexivity.
    - (* PWhile *)
      destruct (c (ust s)) eqn:Ec.
      + destruct (fexec code f (CProg p) s) as [[o1 s1]|] eqn:E1; cbn [obind] in H; [|discriminate].
        destruct o1 as [|e1| |].
        * destruct (IHp _ _ _ _ _ R E1 ltac:(discriminate)) as (f1 & g1 & G1 & [R1 St1]).
          destruct (IHp _ _ _ _ _ R1 H Ho) as (f2 & g2 & G2 & P2).
          exists (S (Nat.max f1 f2)), g2. split.
          -- cbn [gexec]. rewrite <- (r_ust _ _ R), Ec. rewrite (gle _ _ _ _ _ _ G1) by (discriminate || lia).
             rewrite (gle _ _ _ _ _ _ G2) by (assumption || lia). reflexivity.
          -- eapply Post_seq; eassumption.
        * inversion H; subst. destruct (IHp _ _ _ _ _ R E1 Ho) as (f1 & g1 & G1 & P1).
          exists (S f1), g1. split; [cbn [gexec]; rewrite <- (r_ust _ _ R), Ec, G1; reflexivity | exact P1].
        * inversion H; subst. destruct (IHp _ _ _ _ _ R E1 Ho) as (f1 & g1 & G1 & P1).
          exists (S f1), g1. split; [cbn [gexec]; rewrite <- (r_ust _ _ R), Ec, G1; reflexivity | exact P1].
        * inversion H; subst. congruence.
      + inversion H; subst. exists 1, g. split; [cbn [gexec]; rewrite <- (r_ust _ _ R), Ec; reflexivity|].
        split; [assumption|apply Step_refl].
    - (* PEmit *)
      inversion H; subst. exists 1, (gemit (guser_event e) g). split; [reflexivity|].
      split; [apply Rel_emit2; exact R | apply Step_emit].
  Qed.

  Definition SSig (f : nat) : Prop := forall sg idx src s g o s',
    Rel s g -> gs_sig src = sg -> gs_bound src = true ->
    fexec code f (CProcessSignal sg idx) s = Some (o, s') -> o <> OFuel ->
    GRes (GHandlerLoop src idx) g o (Post o s g s').

  Lemma Post_emit_post o s g s' g' e :
    o <> OBlocked -> Post o s g s' g' -> Post o s g (emit e s') (gemit e g').
  Proof.
    intros Hb P. destruct o as [|x| |]; cbn in *; try congruence; try contradiction.
    all: destruct P as [R St]; split; [apply Rel_emit2; exact R|]; eapply Step_change; [..|exact St]; reflexivity.
  Qed.

  Lemma sim_sig f : SProg f -> SSig f -> SSig (S f).
  Proof.
    intros IHp IHs sg idx src s g o s' R Hsg Hb H Ho. cbn [fexec] in H.
    set (s0 := if (idx =? 0)%nat then s <| tickets := mark_line_to_go (tickets s) (sg_cls sg) |> else s) in *.
    assert (R0 : Rel s0 g) by (subst s0; destruct (idx =? 0)%nat; [apply Rel_tickets|]; exact R).
    assert (L0 : levels s0 = levels s) by (subst s0; destruct (idx =? 0)%nat; reflexivity).
    assert (RL0 : run_loop s0 = run_loop s) by (subst s0; destruct (idx =? 0)%nat; reflexivity).
    clearbody s0.
    destruct (handlers_of s0 (sg_cls sg)) as [hs|] eqn:Eh; [|discriminate].
    rewrite (r_fq _ _ R0) in H.
    assert (Eg : (if gs_bound src then ghandlers_of g (sg_cls (gs_sig src)) else None) = Some hs)
      by (rewrite Hb, Hsg, <- (handlers_of_eq _ _ _ R0); exact Eh).
    destruct (nth_error hs idx) as [[hid data]|] eqn:En.
    - destruct (fexec code f (CProg (code hid sg data)) (emit (EHandler hid (sg_id sg) data) s0)) as [[o1 s2]|] eqn:E1;
        cbn [obind] in H; [|discriminate].
      assert (R1 : Rel (emit (EHandler hid (sg_id sg) data) s0) (gemit (EHandler hid (sg_id sg) data) g))
        by (apply Rel_emit2; exact R0).
      destruct o1 as [|[]| |]; try discriminate.
      + (* the handler returned: next handler *)
        destruct (IHp _ _ _ _ _ R1 E1 ltac:(discriminate)) as (f1 & g2 & G1 & [R2 St2]).
        assert (R2' : Rel (emit (EHandlerEnd hid (sg_id sg) None) s2) (gemit (EHandlerEnd hid (sg_id sg) None) g2))
          by (apply Rel_emit2; exact R2).
        destruct (IHs _ _ src _ _ _ _ R2' Hsg Hb H Ho) as (f2 & g3 & G2 & P3).
        exists (S (Nat.max f1 f2)), g3. split.
        * cbn [gexec]. rewrite Eg, En, Hsg. rewrite (gle _ _ _ _ _ _ G1) by (discriminate || lia).
          rewrite (gle _ _ _ _ _ _ G2) by (assumption || lia). reflexivity.
        * eapply Post_seq; [exact R | exact R2 | |].
          -- eapply Step_change; [..|exact St2]; try reflexivity; assumption.
          -- eapply Post_pre; [..|exact P3]; reflexivity.
      + (* ExitMainLoop *)
        destruct (length (levels s2) =? 1)%nat; [|discriminate]. inversion H; subst o s'.
        destruct (IHp _ _ _ _ _ R1 E1 ltac:(discriminate)) as (f1 & g2 & G1 & P2).
        exists (S f1), (gemit (EHandlerEnd hid (sg_id sg) (Some XExit)) g2). split.
        * cbn [gexec]. rewrite Eg, En, Hsg, G1. reflexivity.
        * apply Post_emit_post; [discriminate|]. eapply Post_pre; [..|exact P2]; try reflexivity; assumption.
      + (* blocked for ever inside the handler *)
        inversion H; subst o s'. destruct (IHp _ _ _ _ _ R1 E1 ltac:(discriminate)) as (f1 & g2 & G1 & P2).
        exists (S f1), g2. split; [cbn [gexec]; rewrite Eg, En, Hsg, G1; reflexivity | exact P2].
      + inversion H; subst. congruence.
    - inversion H; subst o s'. exists 1, g. split; [cbn [gexec]; rewrite Eg, En; reflexivity|].
      split; [apply Rel_emit_l; [reflexivity|exact R0] |].
      eapply Step_change; [..|apply (Step_refl s g)]; try reflexivity; symmetry; assumption.
  Qed.

  (* ------------------------------------------------------------ one dispatch *)
  Lemma do_get_cases s g : Rel s g ->
    (eq_entries (get_q s (active s)) = [] /\ ext s = [] /\ do_get s = inl None) \/
    (eq_entries (get_q s (active s)) = [] /\ exists sp r x, ext s = sp :: r /\ do_get s = inr x) \/
    (exists p c sg, eq_entries (get_q s (active s)) = [(p, c, sg)] /\
       do_get s = inl (Some (sg, set_q s (active s) (get_q s (active s) <| eq_entries := [] |>)))).
  Proof.
    intros R. pose proof (active_valid _ _ R) as Ha. destruct (r_lvl _ _ R _ Ha) as (_ & _ & _ & _ & _ & Hlen).
    unfold do_get, q_pop. destruct (eq_entries (get_q s (active s))) as [|[[p c] sg] [|e r]] eqn:E; cbn in Hlen; try lia.
    - destruct (ext s) as [|sp r] eqn:Ex.
      + left. auto.
      + right. left. split; [reflexivity|]. destruct (new_signal (s <| ext := r |>) sp) as [sg s1] eqn:En. eauto.
    - right. right. exists p, c, sg. split; [reflexivity|]. cbn. rewrite Nat.eqb_refl. reflexivity.
  Qed.

  Lemma live_single l x : filter gs_live l = [x] -> NoDup (map gs_seq l) ->
    exists l1 l2, split_at l l1 x l2 /\ filter gs_live l1 = [] /\ filter gs_live l2 = [] /\ gs_live x = true.
  Proof.
    intros Hf Hn.
    assert (Hx : In x l /\ gs_live x = true) by (apply filter_In; rewrite Hf; left; reflexivity).
    destruct Hx as [Hin Hl]. destruct (nodup_split l x Hn Hin) as (l1 & l2 & Hs). exists l1, l2.
    split; [exact Hs|]. destruct Hs as (-> & _ & _). rewrite filter_app in Hf. cbn in Hf. rewrite Hl in Hf.
    destruct (filter gs_live l1) as [|a r].
    - cbn in Hf. inversion Hf. auto.
    - cbn in Hf. inversion Hf. destruct r; discriminate.
  Qed.

  Lemma set_nth_set_nth {A} (st : list A) l v1 v2 : set_nth (set_nth st l v1) l v2 = set_nth st l v2.
  Proof. revert l; induction st as [|a st IH]; intros [|l]; cbn; auto. f_equal. apply IH. Qed.
  Lemma set_nth_same {A} (st : list A) l d : l < length st -> set_nth st l (nth l st d) = st.
  Proof. revert l; induction st as [|a st IH]; intros [|l] H; cbn in *; try lia; auto. f_equal. apply IH. lia. Qed.
  Lemma upd_l_upd_l (g : gstate U) l f1 f2 : l < length (gstore g) ->
    upd_l (upd_l g l f1) l f2 = upd_l g l (fun v => f2 (f1 v)).
  Proof.
    intros H. unfold upd_l at 1. rewrite get_l_upd_eq by exact H. unfold upd_l, set_l.
    destruct g; cbn. rewrite set_nth_set_nth. reflexivity.
  Qed.
  Lemma upd_l_id (g : gstate U) l f : l < length (gstore g) -> f (get_l g l) = get_l g l -> upd_l g l f = g.
  Proof.
    intros H E. unfold upd_l, set_l. rewrite E. unfold get_l. destruct g; cbn in *. rewrite set_nth_same by exact H. reflexivity.
  Qed.

  Lemma map_seq_upd l q f : (forall y, gs_seq (f y) = gs_seq y) -> map gs_seq (upd_source l q f) = map gs_seq l.
  Proof.
    intros Hf. unfold upd_source. induction l as [|y l IH]; cbn; [reflexivity|].
    destruct (gs_seq y =? q)%N; rewrite ?Hf; f_equal; exact IH.
  Qed.

  Definition set_incall (y : gsource) : gsource := y <| gs_incall := true |>.

  (* the source of the one pending signal of level l is taken for dispatch *)
  Lemma lvl_rel_begin n qe gl x :
    lvl_rel n qe gl -> live_srcs gl = [x] ->
    lvl_rel n (qe <| eq_entries := [] |>) (gl <| gl_sources := upd_source (gl_sources gl) (gs_seq x) set_incall |>).
  Proof.
    intros (A & B & C & D & E & F) Hl. unfold lvl_rel, live_srcs in *. cbn.
    destruct (live_single _ _ Hl C) as (l1 & l2 & Hs & H1 & H2 & Hx).
    rewrite (upd_split _ _ _ _ set_incall Hs). destruct Hs as (Hs & N1 & N2).
    repeat split; try assumption.
    - rewrite Hs in C. rewrite map_app in *. exact C.
    - rewrite Hs in D. apply Forall_app in D. destruct D as [D1 D2]. inversion D2; subst.
      apply Forall_app. split; [assumption|]. constructor; assumption.
    - rewrite filter_app. cbn. rewrite H1, H2. reflexivity.
    - lia.
  Qed.

  Lemma filter_comm {A} (p q : A -> bool) l : filter p (filter q l) = filter q (filter p l).
  Proof.
    induction l as [|x l IH]; cbn; [reflexivity|].
    destruct (q x) eqn:Eq, (p x) eqn:Ep; cbn; rewrite ?Eq, ?Ep, IH; reflexivity.
  Qed.

  (* the dispatched source (in-call) is destroyed: the pending part of the level is untouched *)
  Lemma lvl_rel_end n qe gl x' :
    lvl_rel n qe gl -> In x' (gl_sources gl) -> gs_incall x' = true ->
    lvl_rel n qe (gl <| gl_sources := del_source (gl_sources gl) (gs_seq x') |>).
  Proof.
    intros (A & B & C & D & E & F) Hin Hc. unfold lvl_rel, live_srcs in *. cbn.
    destruct (nodup_split _ _ C Hin) as (l1 & l2 & Hs). rewrite (del_split _ _ _ _ Hs). destruct Hs as (Hs & N1 & N2).
    rewrite Hs in *. repeat split; try assumption.
    - rewrite map_app in *. cbn in C. apply NoDup_remove_1 in C. exact C.
    - apply Forall_app in D. destruct D as [D1 D2]. inversion D2; subst. apply Forall_app. split; assumption.
    - rewrite E. rewrite !filter_app. cbn. unfold gs_live at 2. rewrite Hc. reflexivity.
  Qed.

  Lemma incall_after l0 l1 x l2 l4 :
    split_at l0 l1 x l2 -> gs_incall x = false ->
    filter gs_incall l4 = filter gs_incall (l1 ++ set_incall x :: l2) ->
    In (set_incall x) l4 /\ filter gs_incall (del_source l4 (gs_seq x)) = filter gs_incall l0.
  Proof.
    intros (-> & N1 & N2) Hx Hf. split.
    - assert (Hin : In (set_incall x) (filter gs_incall l4)).
      { rewrite Hf, filter_app. apply in_or_app. right. cbn. left. reflexivity. }
      apply filter_In in Hin. tauto.
    - unfold del_source. rewrite filter_comm. rewrite Hf. rewrite !filter_app. cbn. rewrite Hx.
      rewrite N.eqb_refl. cbn. f_equal.
      + fold (del_source (filter gs_incall l1) (gs_seq x)). apply del_source_notin.
        intros y Hy. apply filter_In in Hy. apply N1. tauto.
      + fold (del_source (filter gs_incall l2) (gs_seq x)). apply del_source_notin.
        intros y Hy. apply filter_In in Hy. apply N2. tauto.
  Qed.

  (* _quit_all_loops only clears is_running flags *)
  Definition quit_levels (ls : list nat) (g : gstate U) : gstate U :=
    fold_left (fun st l => upd_l st l (fun v => v <| gl_running := false |>)) ls g.
  Lemma quit_all_eq (g : gstate U) : quit_all g = quit_levels (glevels g) g.
  Proof. reflexivity. Qed.
  Lemma quit_levels_core ls (g : gstate U) : Forall (fun q => q < length (gstore g)) ls -> gsame_core g (quit_levels ls g).
  Proof.
    revert g. induction ls as [|l ls IH]; intros g Hv.
    - unfold gsame_core. cbn. repeat split; reflexivity.
    - change (quit_levels (l :: ls) g) with (quit_levels ls (upd_l g l (fun v => v <| gl_running := false |>))).
      inversion Hv; subst.
      assert (Hc : gsame_core g (upd_l g l (fun v => v <| gl_running := false |>))).
      { unfold gsame_core. rewrite len_upd_l. split; [reflexivity|]. split; [reflexivity|]. split.
        - intros q. destruct (Nat.eq_dec l q) as [<-|Hne];
            [rewrite get_l_upd_eq by assumption | rewrite get_l_upd_neq by assumption]; repeat split; reflexivity.
        - repeat split; reflexivity. }
      specialize (IH (upd_l g l (fun v => v <| gl_running := false |>))).
      rewrite len_upd_l in IH. specialize (IH H2).
      destruct Hc as (a1 & a2 & a3 & a4 & a5 & a6 & a7 & a8 & a9 & a10 & a11).
      destruct IH as (b1 & b2 & b3 & b4 & b5 & b6 & b7 & b8 & b9 & b10 & b11).
      unfold gsame_core. split; [congruence|]. split; [congruence|]. split.
      + intros q. destruct (a3 q) as (x1 & x2 & x3); destruct (b3 q) as (y1 & y2 & y3). repeat split; congruence.
      + repeat split; congruence.
  Qed.
  Lemma quit_levels_flag ls (g : gstate U) q : Forall (fun q => q < length (gstore g)) ls ->
    gl_running (get_l (quit_levels ls g) q) = if existsb (Nat.eqb q) ls then false else gl_running (get_l g q).
  Proof.
    revert g. induction ls as [|l ls IH]; intros g Hv; [reflexivity|].
    change (quit_levels (l :: ls) g) with (quit_levels ls (upd_l g l (fun v => v <| gl_running := false |>))).
    cbn [existsb].
    inversion Hv; subst. rewrite IH by (rewrite len_upd_l; assumption).
    destruct (existsb (Nat.eqb q) ls); [rewrite orb_true_r; reflexivity|]. rewrite orb_false_r.
    destruct (Nat.eqb_spec q l) as [->|Hne].
    - rewrite get_l_upd_eq by assumption. reflexivity.
    - rewrite get_l_upd_neq by congruence. reflexivity.
  Qed.

  Definition dispatched (g : gstate U) (l : nat) (x : gsource) : gstate U :=
    gemit (EDispatch (sg_id (gs_sig x)) l (length (glevels g)))
          (upd_l g l (fun v => v <| gl_sources := upd_source (gl_sources v) (gs_seq x) set_incall |>)).
  Definition destroyed (g : gstate U) (l : nat) (x : gsource) : gstate U :=
    upd_l g l (fun v => v <| gl_sources := del_source (gl_sources v) (gs_seq x) |>).

  Lemma giter_dispatch n (g : gstate U) l x oh g4 :
    l < length (gstore g) -> gl_pending (get_l g l) = [] -> gforce_quit g = false ->
    batch_of (gl_sources (get_l g l)) = [gs_seq x] ->
    find_source (gl_sources (get_l g l)) (gs_seq x) = Some x ->
    gexec false code n (GHandlerLoop x 0) (dispatched g l x) = (oh, g4) ->
    oh <> OThrow XError ->
    gexec false code (S (S (S n))) (GIter l true) g =
      match oh with
      | ONormal => gexec false code (S n) (GDispatch l) (destroyed (finish_source false g4 l x) l x)
      | OThrow XExit => gexec false code (S n) (GDispatch l) (destroyed (finish_source false (quit_all g4) l x) l x)
      | _ => (oh, g4)
      end.
  Proof.
    intros Hl Hp Hfq Hb Hf Hh Hne.
    cbn [gexec]. rewrite Hb.
    rewrite get_l_upd_eq by exact Hl. cbn [gl_pending set].
    assert (Hid : upd_l (upd_l g l (fun v => v <| gl_pending := [gs_seq x] |>)) l (fun v => v <| gl_pending := [] |>) = g).
    { rewrite upd_l_upd_l by exact Hl. apply upd_l_id; [exact Hl|]. destruct (get_l g l); cbn in *. rewrite Hp. reflexivity. }
    rewrite Hid. rewrite Hf.
    change (gemit (EDispatch (sg_id (gs_sig x)) l (length (glevels (upd_l g l _)))) (upd_l g l _)) with (dispatched g l x).
    assert (Hfq' : gforce_quit (dispatched g l x) = false) by exact Hfq.
    rewrite Hfq'. rewrite Hh.
    destruct oh as [|[]| |]; try reflexivity. congruence.
  Qed.

  Lemma gloop_step m (g : gstate U) l : gl_running (get_l g l) = true ->
    gexec false code (S m) (GLoopRun l) g =
      let '(o, s1) := gexec false code m (GIter l true) g in
      match o with ONormal => gexec false code m (GLoopRun l) s1 | _ => (o, s1) end.
  Proof. intros H. cbn [gexec]. rewrite H. reflexivity. Qed.
  Lemma gloop_stop m (g : gstate U) l : gl_running (get_l g l) = false -> gexec false code (S m) (GLoopRun l) g = (ONormal, g).
  Proof. intros H. cbn [gexec]. rewrite H. reflexivity. Qed.
  Lemma gdispatch_nil m (g : gstate U) l : gl_pending (get_l g l) = [] -> gexec false code (S m) (GDispatch l) g = (ONormal, g).
  Proof. intros H. cbn [gexec]. rewrite H. reflexivity. Qed.

  Lemma get_l_finish (g : gstate U) l x q : get_l (finish_source false g l x) q = get_l (destroyed g l x) q.
  Proof. reflexivity. Qed.
  Lemma len_destroyed (g : gstate U) l x : length (gstore (destroyed g l x)) = length (gstore g).
  Proof. apply len_upd_l. Qed.
  Lemma len_finish (g : gstate U) l x : length (gstore (finish_source false g l x)) = length (gstore g).
  Proof. exact (len_destroyed g l x). Qed.
  Lemma glevel_sources_id (v : glevel) : v <| gl_sources := gl_sources v |> = v.
  Proof. destruct v; reflexivity. Qed.
  Lemma destroyed_finish (g : gstate U) l x : l < length (gstore g) ->
    destroyed (finish_source false g l x) l x = finish_source false g l x.
  Proof.
    intros Hl. unfold destroyed at 1. apply upd_l_id; [rewrite len_finish; exact Hl|].
    rewrite get_l_finish. unfold destroyed. rewrite get_l_upd_eq by exact Hl.
    destruct (get_l g l); cbn -[del_source]. rewrite del_del. reflexivity.
  Qed.

  Lemma Rel_destroyed s g l x' q : Rel s g -> l < length (gstore g) ->
    In x' (gl_sources (get_l g l)) -> gs_incall x' = true -> gs_seq x' = q ->
    Rel s (upd_l g l (fun v => v <| gl_sources := del_source (gl_sources v) q |>)).
  Proof.
    intros R Hl Hin Hc <-. apply Rel_glevel; [exact R | rewrite (r_len _ _ R); exact Hl |].
    apply lvl_rel_end; [apply (r_lvl _ _ R); rewrite (r_len _ _ R); exact Hl | exact Hin | exact Hc].
  Qed.
  Lemma Rel_finish s g l x x' : Rel s g -> l < length (gstore g) ->
    In x' (gl_sources (get_l g l)) -> gs_incall x' = true -> gs_seq x' = gs_seq x ->
    Rel s (finish_source false g l x).
  Proof.
    intros R Hl Hin Hc Hq. unfold finish_source. apply Rel_emit_r; [reflexivity|]. apply Rel_gtickets.
    eapply Rel_destroyed; eassumption.
  Qed.

  Lemma get_l_dispatched (g : gstate U) l x q :
    get_l (dispatched g l x) q =
    get_l (upd_l g l (fun v => v <| gl_sources := upd_source (gl_sources v) (gs_seq x) set_incall |>)) q.
  Proof. reflexivity. Qed.
  Lemma len_dispatched (g : gstate U) l x : length (gstore (dispatched g l x)) = length (gstore g).
  Proof. unfold dispatched. cbn. apply length_set_nth. Qed.
  Lemma flag_dispatched (g : gstate U) l x q : l < length (gstore g) ->
    gl_running (get_l (dispatched g l x) q) = gl_running (get_l g q).
  Proof.
    intros Hl. rewrite get_l_dispatched. destruct (Nat.eq_dec l q) as [<-|Hne];
      [rewrite get_l_upd_eq by exact Hl | rewrite get_l_upd_neq by exact Hne]; reflexivity.
  Qed.
  Lemma flag_finish (g : gstate U) l x q : l < length (gstore g) ->
    gl_running (get_l (finish_source false g l x) q) = gl_running (get_l g q).
  Proof.
    intros Hl. rewrite get_l_finish. unfold destroyed. destruct (Nat.eq_dec l q) as [<-|Hne];
      [rewrite get_l_upd_eq by exact Hl | rewrite get_l_upd_neq by exact Hne]; reflexivity.
  Qed.

  (* a whole dispatch (source taken in call ... source destroyed) seen from the loop that made it *)
  Lemma Step_dispatch s g l x l1 l2 s2 s3 g4 :
    l < length (gstore g) -> split_at (gl_sources (get_l g l)) l1 x l2 -> gs_incall x = false ->
    levels s2 = levels s -> run_loop s2 = run_loop s ->
    Step s2 (dispatched g l x) s3 g4 ->
    In (set_incall x) (gl_sources (get_l g4 l)) /\ Step s g s3 (finish_source false g4 l x).
  Proof.
    intros Hl Hs Hx HL HR (L & I & C). rewrite len_dispatched in L.
    assert (Hl4 : l < length (gstore g4)) by lia.
    assert (Hinc : incall_srcs (get_l g4 l) = filter gs_incall (l1 ++ set_incall x :: l2)).
    { rewrite I by (rewrite len_dispatched; exact Hl). rewrite get_l_dispatched, get_l_upd_eq by exact Hl.
      unfold incall_srcs. cbn [gl_sources set]. rewrite (upd_split _ _ _ _ set_incall Hs). reflexivity. }
    destruct (incall_after _ _ _ _ _ Hs Hx Hinc) as [Hin Hfil]. split; [exact Hin|].
    split; [rewrite len_finish; lia|]. split.
    - intros q Hq. rewrite get_l_finish. unfold destroyed. destruct (Nat.eq_dec l q) as [<-|Hne].
      + rewrite get_l_upd_eq by exact Hl4. unfold incall_srcs. cbn [gl_sources set]. exact Hfil.
      + rewrite get_l_upd_neq by exact Hne. rewrite I by (rewrite len_dispatched; exact Hq).
        rewrite get_l_dispatched, get_l_upd_neq by exact Hne. reflexivity.
    - destruct C as [(A1 & B1 & F1) | (l' & A1 & B1 & B1' & D1 & F1)].
      + left. split; [congruence|]. split; [congruence|]. intros q Hq Hn.
        rewrite flag_finish by exact Hl4. rewrite F1 by (rewrite ?len_dispatched; assumption).
        apply flag_dispatched; exact Hl.
      + right. exists l'. split; [congruence|]. split; [congruence|]. split; [exact B1'|]. split.
        * rewrite flag_finish by exact Hl4. exact D1.
        * intros q Hq Hn. rewrite flag_finish by exact Hl4. rewrite F1 by (rewrite ?len_dispatched; assumption).
          apply flag_dispatched; exact Hl.
  Qed.

  Lemma Rel_ext_set s g x : Rel s g -> Rel (s <| ext := x |>) (g <| gext := x |>).
  Proof. intros R. destruct R. constructor; try assumption. reflexivity. Qed.
  Lemma Rel_ext_add s g sp : Rel s g -> Rel (s <| ext := ext s ++ [sp] |>) (g <| gext := gext g ++ [sp] |>).
  Proof. intros R. destruct R. constructor; try assumption. cbn. congruence. Qed.

  Lemma giter_ext m (g : gstate U) l sp r :
    l < length (gstore g) -> gl_pending (get_l g l) = [] -> live_srcs (get_l g l) = [] -> gext g = sp :: r ->
    gexec false code (S m) (GIter l true) g =
      (let '(sg, s1) := gnew_signal (g <| gext := r |>) sp in
       let s2 := gemit (EExt (sg_id sg)) s1 in
       (ONormal, match g_enqueue s2 sg with Some s3 => s3 | None => s2 end)).
  Proof.
    intros Hl Hp Hlive Hx. cbn [gexec]. rewrite (batch_of_nil _ Hlive).
    assert (Hid : upd_l g l (fun v => v <| gl_pending := [] |>) = g).
    { apply upd_l_id; [exact Hl|]. destruct (get_l g l); cbn in *. rewrite Hp. reflexivity. }
    rewrite Hid, Hx. reflexivity.
  Qed.

  Lemma fexec_sig_outcome : forall f sg idx s o s', fexec code f (CProcessSignal sg idx) s = Some (o, s') ->
    o = ONormal \/ o = OThrow XExit \/ o = OBlocked \/ o = OFuel.
  Proof.
    induction f as [|f IH]; intros sg idx s o s' H; [inversion H; auto|].
    cbn [fexec] in H.
    destruct (handlers_of _ _); [|discriminate]. destruct (force_quit _); [discriminate|].
    destruct (nth_error _ _) as [[hid data]|]; [|inversion H; auto].
    destruct (fexec code f (CProg _) _) as [[o1 s2]|]; cbn [obind] in H; [|discriminate].
    destruct o1 as [|[]| |]; try discriminate.
    - eapply IH; exact H.
    - destruct (_ =? _)%nat; [inversion H; auto | discriminate].
    - inversion H; auto.
    - inversion H; auto.
  Qed.

  Definition LoopPre (s : lstate U) (g : gstate U) (l : nat) : Prop :=
    l < length (gstore g) /\
    (run_loop s = true -> last (levels s) 0 = l /\ gl_running (get_l g l) = true) /\
    (run_loop s = false -> gl_running (get_l g l) = false).
  Definition loop_out (o : outcome) : outcome := match o with OThrow XExit => ONormal | _ => o end.
  Definition LoopPost (o : outcome) (s : lstate U) (g : gstate U) (s' : lstate U) (g' : gstate U) : Prop :=
    match o with
    | ONormal => Rel s' g' /\ Step s g s' g' /\ run_loop s' = false
    | OThrow XExit => Rel s' g'
    | OBlocked => obs (trace s') = obs (gtrace g')
    | _ => False
    end.
  Definition SProc (f : nat) : Prop := forall l s g o s',
    Rel s g -> LoopPre s g l -> fexec code f CProcLoop s = Some (o, s') -> o <> OFuel ->
    GRes (GLoopRun l) g (loop_out o) (LoopPost o s g s').

  Lemma sim_proc f : SSig f -> SProc f -> SProc (S f).
  Proof.
    intros IHs IHl l s g o s' R (Hl & Ht & Hf) H Ho. cbn [fexec] in H.
    destruct (run_loop s) eqn:Er.
    2: { inversion H; subst o s'. exists 1, g. split; [cbn [gexec]; rewrite (Hf eq_refl); reflexivity|].
         cbn. split; [exact R|]. split; [apply Step_refl|exact Er]. }
    destruct (Ht eq_refl) as [Htop Hrun]. clear Ht Hf.
    assert (Ha : active s = l) by (rewrite (r_active _ _ R); exact Htop).
    pose proof (active_valid _ _ R) as Hav. rewrite Ha in Hav.
    destruct (r_lvl _ _ R l Hav) as (A & B & C & D & E & F).
    destruct (do_get_cases _ _ R) as [(He & Hx0 & Hg) | [(He & sp & r & x & Hx0 & Hg) | (p & c & sg & He & Hg)]];
      rewrite Hg in H; rewrite Ha in *.
    - (* nothing pending, nothing to come: blocked for ever *)
      inversion H; subst o s'. rewrite He in E. cbn in E. symmetry in E. apply map_eq_nil in E.
      exists 2, (upd_l g l (fun v => v <| gl_pending := [] |>)). split.
      + cbn [gexec]. rewrite Hrun. rewrite (batch_of_nil _ E).
        assert (Hx : gext (upd_l g l (fun v => v <| gl_pending := [] |>)) = []) by (rewrite <- Hx0; symmetry; exact (r_ext _ _ R)).
        rewrite Hx. reflexivity.
      + cbn. apply (r_obs _ _ R).
    - (* idle: the next submission of another thread arrives *)
      rewrite Hx0 in H. rewrite He in E. cbn in E. symmetry in E. apply map_eq_nil in E.
      pose proof (new_signal_rel _ _ sp (Rel_ext_set _ _ r R)) as [Hfst R1].
      destruct (new_signal (s <| ext := r |>) sp) as [sg s1] eqn:En.
      destruct (gnew_signal (g <| gext := r |>) sp) as [sg' g1] eqn:Eg. cbn [fst snd] in *. subst sg'.
      set (s2 := emit (EExt (sg_id sg)) s1) in *. set (g2 := gemit (EExt (sg_id sg)) g1).
      destruct (enqueue_ok s2 sg) eqn:Eok; [|discriminate].
      assert (R2 : Rel s2 g2) by (apply Rel_emit2; exact R1).
      pose proof (enqueue_rel _ _ sg R2 Eok) as R3.
      pose proof (target_valid _ _ sg R2) as Htv. rewrite (r_len _ _ R2) in Htv.
      destruct (attach_frame g2 _ sg Htv) as (_ & F2 & F3 & F4).
      set (g3 := attach g2 (target_queue s2 sg) sg) in *.
      assert (Hfq2 : force_quit s2 = false) by apply (r_fq _ _ R2).
      assert (Hst : gstore g2 = gstore g) by (unfold g2; unfold gnew_signal in Eg; inversion Eg; reflexivity).
      assert (HL : levels (do_enqueue s2 sg) = levels s)
        by (rewrite do_enqueue_eq by exact Hfq2; unfold s2; unfold new_signal in En; inversion En; reflexivity).
      assert (HR : run_loop (do_enqueue s2 sg) = run_loop s)
        by (rewrite do_enqueue_eq by exact Hfq2; unfold s2; unfold new_signal in En; inversion En; reflexivity).
      assert (St : Step s g (do_enqueue s2 sg) g3).
      { apply Step_same; [exact HL | exact HR | rewrite F2, Hst; reflexivity | |].
        - intros q. rewrite F3. unfold get_l. rewrite Hst. reflexivity.
        - intros q. rewrite F4. unfold get_l. rewrite Hst. reflexivity. }
      assert (Pre3 : LoopPre (do_enqueue s2 sg) g3 l).
      { split; [rewrite F2, Hst; exact Hl|]. split; intros Hr; [|congruence].
        split; [rewrite HL; exact Htop|]. rewrite F3. unfold get_l. rewrite Hst. exact Hrun. }
      destruct (IHl _ _ _ _ _ R3 Pre3 H Ho) as (f2 & g' & G2 & P2).
      assert (Hlo : loop_out o <> OFuel) by (destruct o as [|[]| |]; cbn; congruence).
      exists (S (S f2)), g'. split.
      + rewrite gloop_step by exact Hrun.
        rewrite (giter_ext f2 g l sp r Hl B E) by (rewrite <- Hx0; symmetry; exact (r_ext _ _ R)).
        rewrite Eg. cbv zeta. fold g2. rewrite (g_enqueue_eq _ _ _ R2 Eok). fold g3.
        eapply gle; [exact G2 | exact Hlo | lia].
      + destruct o as [|[]| |]; cbn in *; try assumption; try contradiction.
        destruct P2 as (Rf & Stf & Hrf). split; [exact Rf|]. split; [|exact Hrf].
        eapply Step_trans; [eapply Rel_valid_g; exact R | exact St | exact Stf].
    - rewrite He in E. cbn in E.
      destruct (live_srcs (get_l g l)) as [|x [|x2 r]] eqn:El; try discriminate. inversion E as [Hsg]. clear E.
      destruct (live_single _ _ El C) as (l1 & l2 & Hs & Hl1 & Hl2 & Hlx).
      pose proof (find_split _ _ _ _ Hs) as Hfind.
      pose proof (batch_of_single _ _ El) as Hbatch.
      assert (Hbound : gs_bound x = true).
      { rewrite Forall_forall in D. apply D. destruct Hs as (-> & _). apply in_or_app. right. left. reflexivity. }
      set (s2 := emit (EDispatch (sg_id sg) l (length (levels s))) (set_q s l (get_q s l <| eq_entries := [] |>))) in *.
      set (gD := dispatched g l x).
      assert (R2 : Rel s2 gD).
      { subst s2 gD. unfold dispatched. apply Rel_emit_l; [reflexivity|]. apply Rel_emit_r; [reflexivity|].
        apply Rel_level; [exact R | exact Hav |]. apply lvl_rel_begin; [apply (r_lvl _ _ R); exact Hav | exact El]. }
      destruct (fexec code f (CProcessSignal sg 0) s2) as [[o1 s3]|] eqn:E1; cbn [obind] in H; [|discriminate].
      assert (Ho1 : o1 <> OFuel) by (intros ->; inversion H; congruence).
      destruct (IHs _ _ x _ _ _ _ R2 (eq_sym Hsg) Hbound E1 Ho1) as (f1 & g4 & G1 & P1).
      assert (Hxin : gs_incall x = false) by (rewrite live_not_incall in Hlx; apply negb_true_iff in Hlx; exact Hlx).
      destruct (fexec_sig_outcome _ _ _ _ _ _ E1) as [-> | [-> | [-> | ->]]]; [| | |congruence].
      + (* the dispatch ended normally: the loop goes on *)
        destruct P1 as [R3 St3].
        destruct (Step_dispatch s g l x l1 l2 s2 s3 g4 Hl Hs Hxin eq_refl eq_refl St3) as [Hin St].
        assert (Hl4 : l < length (gstore g4)) by (destruct St3 as (L & _ & _); unfold gD in L; rewrite len_dispatched in L; lia).
        set (g5 := finish_source false g4 l x) in *.
        assert (R5 : Rel s3 g5) by (eapply Rel_finish; [exact R3|exact Hl4|exact Hin|reflexivity|reflexivity]).
        assert (Pre5 : LoopPre s3 g5 l).
        { split; [unfold g5; rewrite len_finish; exact Hl4|].
          destruct St as (_ & _ & [(A1 & B1 & F1) | (l' & A1 & B1 & B1' & D1 & F1)]).
          - split; intros Hr; [|congruence]. split; [rewrite A1; exact Htop|].
            rewrite F1 by (assumption || discriminate). exact Hrun.
          - split; intros Hr; [congruence|].
            assert (l' = l) by (rewrite A1, last_last in Htop; exact Htop). subst l'. exact D1. }
        destruct (IHl _ _ _ _ _ R5 Pre5 H Ho) as (f2 & g' & G2 & P2).
        assert (Hlo : loop_out o <> OFuel) by (destruct o as [|[]| |]; cbn; congruence).
        exists (S (S (S (S (Nat.max f1 f2))))), g'. split.
        * rewrite gloop_step by exact Hrun.
          rewrite (giter_dispatch (Nat.max f1 f2) g l x ONormal g4 Hl B (r_gfq _ _ R) Hbatch Hfind);
            [| eapply gle; [exact G1|discriminate|lia] | discriminate].
          rewrite destroyed_finish by exact Hl4. fold g5.
          rewrite gdispatch_nil
            by (destruct (r_lvl _ _ R5 l) as (_ & Bp & _); [rewrite (r_len _ _ R5); unfold g5; rewrite len_finish; exact Hl4 | exact Bp]).
          eapply gle; [exact G2 | exact Hlo | lia].
        * destruct o as [|[]| |]; cbn in *; try assumption; try contradiction.
          destruct P2 as (Rf & Stf & Hrf). split; [exact Rf|]. split; [|exact Hrf].
          eapply Step_trans; [eapply Rel_valid_g; exact R | exact St | exact Stf].
      + (* ExitMainLoop: every loop is quit, the batch (this one source) ends, run returns *)
        inversion H; subst o s'. destruct P1 as [R3 St3].
        destruct (Step_dispatch s g l x l1 l2 s2 s3 g4 Hl Hs Hxin eq_refl eq_refl St3) as [Hin St].
        assert (Hl4 : l < length (gstore g4)) by (destruct St3 as (L & _ & _); unfold gD in L; rewrite len_dispatched in L; lia).
        assert (Hvq : Forall (fun q => q < length (gstore g4)) (glevels g4))
          by (rewrite <- (r_levels _ _ R3); apply (Rel_valid_g _ _ R3)).
        pose proof (quit_levels_core _ _ Hvq) as Kc. rewrite <- quit_all_eq in Kc.
        assert (Rq : Rel s3 (quit_all g4)) by (eapply Rel_gcore; [exact R3|exact Kc]).
        destruct Kc as (_ & Klen & K & _). destruct (K l) as (Ksrc & _ & _).
        set (g5 := finish_source false (quit_all g4) l x).
        assert (R5 : Rel s3 g5).
        { eapply Rel_finish; [exact Rq | rewrite <- Klen; exact Hl4 | rewrite <- Ksrc; exact Hin | reflexivity | reflexivity]. }
        assert (Hflag : gl_running (get_l g5 l) = false).
        { unfold g5. rewrite flag_finish by (rewrite <- Klen; exact Hl4). rewrite quit_all_eq, quit_levels_flag by exact Hvq.
          destruct St as (_ & _ & [(A1 & B1 & F1) | (l' & A1 & B1 & B1' & D1 & F1)]).
          - assert (Hex : existsb (Nat.eqb l) (glevels g4) = true).
            { apply existsb_exists. exists l. split; [|apply Nat.eqb_refl]. rewrite <- (r_levels _ _ R3), A1.
              destruct (exists_last (r_nonempty _ _ R)) as (pre & a & Hpre). rewrite Hpre in *. rewrite last_last in Htop.
              subst a. apply in_or_app. right. left. reflexivity. }
            rewrite Hex. reflexivity.
          - assert (l' = l) by (rewrite A1, last_last in Htop; exact Htop). subst l'.
            rewrite flag_finish in D1 by exact Hl4. rewrite D1. destruct (existsb _ _); reflexivity. }
        exists (S (S (S (S f1)))), g5. split; [|exact R5].
        rewrite gloop_step by exact Hrun.
        rewrite (giter_dispatch f1 g l x (OThrow XExit) g4 Hl B (r_gfq _ _ R) Hbatch Hfind G1) by discriminate.
        rewrite destroyed_finish by (rewrite <- Klen; exact Hl4). fold g5.
        rewrite gdispatch_nil
          by (destruct (r_lvl _ _ R5 l) as (_ & Bp & _);
              [rewrite (r_len _ _ R5); unfold g5; rewrite len_finish, <- Klen; exact Hl4 | exact Bp]).
        apply gloop_stop. exact Hflag.
      + (* blocked for ever inside the handler *)
        inversion H; subst o s'. exists (S (S (S (S f1)))), g4. split; [|exact P1].
        rewrite gloop_step by exact Hrun.
        rewrite (giter_dispatch f1 g l x OBlocked g4 Hl B (r_gfq _ _ R) Hbatch Hfind G1) by discriminate. reflexivity.
  Qed.

  (* ------------------------------------------------------------ the loop of one level: _mainloop / g_main_loop_run *)
  Definition MainPost (o : outcome) (s : lstate U) (g : gstate U) (s' : lstate U) (g' : gstate U) : Prop :=
    match o with
    | ONormal => exists s1, s' = s1 <| run_loop := true |> /\ Rel s1 g' /\ Step s g s1 g' /\ run_loop s1 = false
    | OThrow XExit => Rel s' g'
    | OBlocked => obs (trace s') = obs (gtrace g')
    | _ => False
    end.
  Definition SMain (f : nat) : Prop := forall l s g o s',
    Rel s g -> run_loop s = true -> last (levels s) 0 = l -> gl_running (get_l g l) = true -> l < length (gstore g) ->
    fexec code f CMainloop s = Some (o, s') -> o <> OFuel ->
    GRes (GLoopRun l) g (loop_out o) (MainPost o s g s').

  Lemma sim_main n : SProc n -> SMain (S n).
  Proof.
    intros IHl l s g o s' R Hr Htop Hrun Hl H Ho. cbn [fexec] in H. rewrite Hr in H.
    destruct (fexec code n CProcLoop s) as [[o1 s1]|] eqn:E1; cbn [obind] in H; [|discriminate].
    assert (Pre : LoopPre s g l) by (split; [exact Hl|split; [intros _; split; assumption | congruence]]).
    destruct o1 as [|e| |].
    - destruct (IHl _ _ _ _ _ R Pre E1 ltac:(discriminate)) as (f1 & g1 & G1 & (R1 & St1 & Hr1)).
      destruct n as [|n']; [inversion H; congruence|]. cbn [fexec] in H. rewrite Hr1, (r_fq _ _ R1) in H.
      inversion H; subst o s'. exists f1, g1. split; [exact G1|]. exists s1. auto.
    - inversion H; subst o s'. destruct (IHl _ _ _ _ _ R Pre E1 Ho) as (f1 & g1 & G1 & P1).
      exists f1, g1. split; [exact G1|]. destruct e; exact P1.
    - inversion H; subst o s'. destruct (IHl _ _ _ _ _ R Pre E1 Ho) as (f1 & g1 & G1 & P1).
      exists f1, g1. split; [exact G1|exact P1].
    - inversion H; congruence.
  Qed.

  (* ------------------------------------------------------------ Rel under the API's state changes *)
  Lemma lvl_rel_empty n : lvl_rel n empty_queue empty_level.
  Proof. unfold lvl_rel, live_srcs. cbn. repeat split; try constructor; lia. Qed.

  Lemma Rel_newlevel s g :
    Rel s g ->
    Rel (s <| qstore := qstore s ++ [empty_queue] |> <| active := length (qstore s) |>
           <| levels := levels s ++ [length (qstore s)] |>)
        (g <| gstore := gstore g ++ [empty_level] |> <| glevels := glevels g ++ [length (qstore s)] |>).
  Proof.
    intros R. destruct R. constructor; cbn; try assumption.
    - congruence.
    - rewrite !app_length. cbn. lia.
    - rewrite app_length. cbn. apply Forall_app. split.
      + eapply Forall_impl; [|exact r_valid0]. cbn. intros; lia.
      + constructor; [lia|constructor].
    - intros Hn. apply app_eq_nil in Hn. destruct Hn; discriminate.
    - rewrite last_last. reflexivity.
    - intros q Hq. rewrite app_length in Hq. cbn in Hq. unfold get_q, get_l. cbn.
      destruct (Nat.eq_dec q (length (qstore s))) as [->|Hne].
      + rewrite app_nth2 by lia. rewrite Nat.sub_diag. rewrite r_len0. rewrite app_nth2 by lia.
        rewrite Nat.sub_diag. cbn. apply lvl_rel_empty.
      + rewrite !app_nth1 by lia. apply r_lvl0. lia.
  Qed.

  Lemma Rel_close s g pre top :
    Rel s g -> levels s = pre ++ [top] -> pre <> [] ->
    Rel (s <| levels := pre |> <| active := last pre 0 |>)
        (upd_l (g <| glevels := pre |>) top (fun v => v <| gl_running := false |>)).
  Proof.
    intros R HL Hp. pose proof (r_valid _ _ R) as Hv. rewrite HL in Hv. apply Forall_app in Hv. destruct Hv as [Hv1 Hv2].
    inversion Hv2 as [|? ? Htop _]; subst.
    destruct R. constructor; cbn; try assumption.
    - reflexivity.
    - rewrite length_set_nth. assumption.
    - reflexivity.
    - intros q Hq. unfold get_q, get_l in *. destruct (Nat.eq_dec top q) as [<-|Hne].
      + rewrite nth_set_nth_eq by lia. specialize (r_lvl0 top Hq). exact r_lvl0.
      + rewrite nth_set_nth_neq by exact Hne. apply r_lvl0. exact Hq.
  Qed.

  Lemma Rel_handlers s g c h d :
    Rel s g -> Rel (s <| handlers := add_handler (handlers s) c h d |>) (g <| ghandlers := add_handler (ghandlers g) c h d |>).
  Proof. intros R. destruct R. constructor; cbn; try assumption. congruence. Qed.
  Lemma Rel_quitcb s g a : Rel s g -> Rel (s <| quit_cb := Some a |>) (g <| gquit_cb := Some a |>).
  Proof. intros R. destruct R. constructor; cbn; try assumption. reflexivity. Qed.

  Definition add_src (o : nat) (v : glevel) : glevel :=
    if existsb (Nat.eqb o) (gl_srcs v) then v else v <| gl_srcs := gl_srcs v ++ [o] |>.
  Lemma lvl_rel_regsource n qe gl o : lvl_rel n qe gl -> lvl_rel n (q_add_source qe o) (add_src o gl).
  Proof.
    intros (A & B & C & D & E & F). unfold q_add_source, add_src. rewrite A.
    destruct (existsb (Nat.eqb o) (gl_srcs gl)); unfold lvl_rel, live_srcs; cbn; repeat split; try assumption.
  Qed.

  Lemma gnew_signal_store (g : gstate U) sp : gstore (snd (gnew_signal g sp)) = gstore g.
  Proof. reflexivity. Qed.
  Lemma new_signal_frame (s : lstate U) sp :
    levels (snd (new_signal s sp)) = levels s /\ run_loop (snd (new_signal s sp)) = run_loop s /\
    qstore (snd (new_signal s sp)) = qstore s.
  Proof. repeat split; reflexivity. Qed.

  Lemma sim_api f : SMain f -> SApi (S f).
  Proof.
    intros IHm a s g o s' R H Ho. destruct a; cbn [fexec] in H; try discriminate.
    - (* AEnqueue *)
      pose proof (new_signal_rel s g sp R) as [Hfst R1]. pose proof (gnew_signal_store g sp) as Hst.
      destruct (new_signal s sp) as [sg s1] eqn:En. destruct (gnew_signal g sp) as [sg' g1] eqn:Eg.
      cbn [fst snd] in *. subst sg'.
      destruct (enqueue_ok s1 sg) eqn:Eok; [|discriminate]. inversion H; subst o s'.
      exists 1, (attach g1 (target_queue s1 sg) sg). split.
      + cbn [gexec]. rewrite Eg. rewrite (g_enqueue_eq _ _ _ R1 Eok). reflexivity.
      + split; [apply enqueue_rel; assumption|].
        pose proof (target_valid _ _ sg R1) as Ht. rewrite (r_len _ _ R1) in Ht.
        destruct (attach_frame g1 _ sg Ht) as (_ & F2 & F3 & F4).
        assert (Hfq : force_quit s1 = false) by apply (r_fq _ _ R1).
        apply Step_same.
        * rewrite do_enqueue_eq by exact Hfq. unfold new_signal in En. inversion En. reflexivity.
        * rewrite do_enqueue_eq by exact Hfq. unfold new_signal in En. inversion En. reflexivity.
        * rewrite F2, Hst. reflexivity.
        * intros q. rewrite F3. unfold get_l. rewrite Hst. reflexivity.
        * intros q. rewrite F4. unfold get_l. rewrite Hst. reflexivity.
    - (* ANewLoop *)
      pose proof (new_signal_rel s g sp R) as [Hfst R1]. pose proof (gnew_signal_store g sp) as Hst.
      destruct (new_signal_frame s sp) as (NL & NR & NQ).
      destruct (new_signal s sp) as [sg s1] eqn:En. destruct (gnew_signal g sp) as [sg' g1] eqn:Eg.
      cbn [fst snd] in *. subst sg'.
      set (q := length (qstore s1)) in *.
      set (s2 := s1 <| qstore := qstore s1 ++ [empty_queue] |> <| active := q |> <| levels := levels s1 ++ [q] |>) in *.
      set (s2e := emit (ENewLoopEnter q) s2) in *.
      destruct (run_loop s1 && enqueue_ok s2e sg) eqn:Ec; [|discriminate].
      apply andb_true_iff in Ec. destruct Ec as [Hrl Eok].
      set (g2 := gemit (ENewLoopEnter q) (g1 <| gstore := gstore g1 ++ [empty_level] |> <| glevels := glevels g1 ++ [q] |>)).
      assert (R2 : Rel s2e g2) by (apply Rel_emit2; apply Rel_newlevel; exact R1).
      set (t := target_queue s2e sg) in *.
      set (g3 := attach g2 t sg).
      assert (R3 : Rel (do_enqueue s2e sg) g3) by (apply enqueue_rel; assumption).
      assert (Hq1 : q = length (gstore g1)) by apply (r_len _ _ R1).
      assert (Hlen2 : length (gstore g2) = S (length (gstore g))).
      { unfold g2. cbn. rewrite app_length, Hst. cbn. lia. }
      pose proof (target_valid _ _ sg R2) as Ht. rewrite (r_len _ _ R2) in Ht. fold t in Ht.
      destruct (attach_frame g2 t sg Ht) as (_ & F2 & F3 & F4). fold g3 in F2, F3, F4.
      assert (Hq3 : q < length (gstore g3)) by (rewrite F2, Hlen2, Hq1, Hst; lia).
      set (g3' := upd_l g3 q (fun v => v <| gl_running := true |>)).
      assert (R3' : Rel (do_enqueue s2e sg) g3').
      { apply Rel_glevel; [exact R3 | rewrite (r_len _ _ R3); exact Hq3 |].
        exact (r_lvl _ _ R3 q ltac:(rewrite (r_len _ _ R3); exact Hq3)). }
      assert (Hfq2 : force_quit s2e = false) by apply (r_fq _ _ R2).
      assert (Hr3 : run_loop (do_enqueue s2e sg) = true) by (rewrite do_enqueue_eq by exact Hfq2; exact Hrl).
      assert (Hl3 : levels (do_enqueue s2e sg) = levels s1 ++ [q]) by (rewrite do_enqueue_eq by exact Hfq2; reflexivity).
      assert (Htop3 : last (levels (do_enqueue s2e sg)) 0 = q) by (rewrite Hl3; apply last_last).
      assert (Hflag3 : gl_running (get_l g3' q) = true) by (unfold g3'; rewrite get_l_upd_eq by exact Hq3; reflexivity).
      assert (Hq3' : q < length (gstore g3')) by (unfold g3'; rewrite len_upd_l; exact Hq3).
      (* what the levels that existed before look like in g3' *)
      assert (Hold : forall q', q' < length (gstore g) ->
                gl_running (get_l g3' q') = gl_running (get_l g q') /\ incall_srcs (get_l g3' q') = incall_srcs (get_l g q')).
      { intros q' Hq'. assert (q <> q') by (rewrite Hq1, Hst; lia).
        unfold g3'. rewrite get_l_upd_neq by assumption. rewrite F3, F4.
        assert (Hg2 : get_l g2 q' = get_l g q').
        { unfold g2, get_l. cbn. rewrite app_nth1 by (rewrite Hst; exact Hq'). rewrite Hst. reflexivity. }
        rewrite Hg2. split; reflexivity. }
      assert (Hgl : gexec false code 1 (GApi (ANewLoop sp)) g = gexec false code 1 (GApi (ANewLoop sp)) g) by reflexivity.
      destruct (fexec code f CMainloop (do_enqueue s2e sg)) as [[o1 s4]|] eqn:E1; cbn [obind] in H; [|discriminate].
      assert (Ho1 : o1 <> OFuel) by (intros ->; inversion H; congruence).
      destruct (IHm q _ _ _ _ R3' Hr3 Htop3 Hflag3 Hq3' E1 Ho1) as (f1 & g4 & G1 & P1).
      assert (Hcomp : forall og, og = loop_out o1 ->
                gexec false code (S f1) (GApi (ANewLoop sp)) g =
                match og with ONormal => (ONormal, gemit (ENewLoopReturn q) g4) | _ => (og, g4) end).
      { intros og ->. cbn [gexec]. rewrite Eg. rewrite (r_gfq _ _ R1). rewrite <- Hq1.
        change (gemit (ENewLoopEnter q) g1 <| gstore := gstore g1 ++ [empty_level] |> <| glevels := glevels g1 ++ [q] |>) with g2.
        rewrite (g_enqueue_eq _ _ _ R2 Eok). fold t. fold g3. fold g3'. rewrite G1. reflexivity. }
      destruct o1 as [|e1| |]; try discriminate.
      + (* the nested loop was closed: execute_new_loop returns *)
        inversion H; subst o s'. destruct P1 as (smid & -> & Rm & Stm & Hrm).
        exists (S f1), (gemit (ENewLoopReturn q) g4). split; [rewrite (Hcomp ONormal eq_refl); reflexivity|].
        split; [apply Rel_emit2; apply Rel_run_loop; exact Rm|].
        destruct Stm as (L & I & [(A1 & B1 & _) | (l' & A1 & B1 & B1' & D1 & F1)]); [congruence|].
        rewrite Hl3 in A1. apply app_inj_tail in A1. destruct A1 as [A1 <-].
        assert (Hlg : length (gstore g3') = S (length (gstore g))) by (unfold g3'; rewrite len_upd_l, F2; exact Hlen2).
        split; [cbn; lia|]. split.
        * intros q' Hq'. destruct (Hold q' Hq') as [_ Hi]. rewrite <- Hi. apply (I q'). lia.
        * left. split; [cbn; congruence|]. split; [cbn; congruence|].
          intros q' Hq' _. destruct (Hold q' Hq') as [Hf _]. rewrite <- Hf.
          apply (F1 q'); [lia|]. intros [= <-]. rewrite Hq1, Hst in Hq'. lia.
      + (* blocked for ever inside the nested loop *)
        inversion H; subst o s'. exists (S f1), g4. split; [rewrite (Hcomp OBlocked eq_refl); reflexivity|exact P1].
      + inversion H; congruence.
    - (* ACloseLoop *)
      destruct ((2 <=? length (levels s))%nat && q_empty (get_q s (active s)) && run_loop s && negb (force_quit s)) eqn:Ec;
        [|discriminate].
      apply andb_true_iff in Ec. destruct Ec as [Ec _]. apply andb_true_iff in Ec. destruct Ec as [Ec Hrl].
      apply andb_true_iff in Ec. destruct Ec as [Hlen Hqe]. apply Nat.leb_le in Hlen.
      destruct f as [|f']; [inversion H; congruence|]. cbn [fexec obind] in H.
      change (get_q (emit (EProcEnter None 0) s) (active (emit (EProcEnter None 0) s))) with (get_q s (active s)) in H.
      rewrite Hqe in H. cbn [negb andb obind] in H.
      change (levels (emit (EProcReturn None 0) (emit (EProcEnter None 0) s))) with (levels s) in H.
      destruct (rev (levels s)) as [|top [|q rest_rev]] eqn:Erev; try discriminate. inversion H; subst o s'. clear H.
      assert (HL : levels s = rev (q :: rest_rev) ++ [top]).
      { rewrite <- (rev_involutive (levels s)), Erev. reflexivity. }
      assert (Hpre : rev (q :: rest_rev) <> []) by (cbn; intros Hn; apply app_eq_nil in Hn; destruct Hn; discriminate).
      assert (Hlast : last (rev (q :: rest_rev)) 0 = q) by (cbn [rev]; apply last_last).
      pose proof (Rel_close s g _ _ R HL Hpre) as Rc.
      pose proof (r_valid _ _ R) as Hv. rewrite HL in Hv. apply Forall_app in Hv. destruct Hv as [_ Hv].
      inversion Hv as [|? ? Htop _]; subst. rewrite (r_len _ _ R) in Htop.
      exists 1, (gemit (EClosePop top) (upd_l (g <| glevels := rev (q :: rest_rev) |>) top (fun v => v <| gl_running := false |>))).
      split; [cbn [gexec]; rewrite <- (r_levels _ _ R), Erev; reflexivity|]. split.
      + apply Rel_emit_r; [reflexivity|]. eapply Rel_core; [exact Rc|].
        unfold same_core. repeat split; try reflexivity. exact Hlast.
      + split; [cbn; rewrite length_set_nth; lia|]. split.
        * intros q' Hq'. rewrite <- upd_l_gemit. destruct (Nat.eq_dec top q') as [<-|Hne];
            [rewrite get_l_upd_eq by exact Htop | rewrite get_l_upd_neq by exact Hne]; reflexivity.
        * right. exists top. split; [exact HL|]. split; [exact Hrl|]. split; [reflexivity|]. split.
          -- rewrite <- upd_l_gemit. rewrite get_l_upd_eq by exact Htop. reflexivity.
          -- intros q' Hq' Hn. rewrite <- upd_l_gemit. rewrite get_l_upd_neq by congruence. reflexivity.
    - (* ARegSource *)
      inversion H; subst o s'. pose proof (active_valid _ _ R) as Ha.
      destruct (last_rev (levels s) 0 (r_nonempty _ _ R)) as (r & Hrev). rewrite <- (r_active _ _ R) in Hrev.
      exists 1, (gemit (ERegSource o0 (active s)) (upd_l g (active s) (add_src o0))). split.
      + cbn [gexec]. rewrite <- (r_levels _ _ R), Hrev. reflexivity.
      + split.
        * rewrite <- upd_l_gemit. rewrite <- set_q_emit. apply Rel_level; [apply Rel_emit2; exact R | exact Ha |].
          apply lvl_rel_regsource. apply (r_lvl _ _ R). exact Ha.
        * rewrite (r_len _ _ R) in Ha. apply Step_same; try reflexivity.
          -- rewrite <- upd_l_gemit. rewrite len_upd_l. reflexivity.
          -- intros q. rewrite <- upd_l_gemit. destruct (Nat.eq_dec (active s) q) as [<-|Hne];
               [rewrite get_l_upd_eq by exact Ha | rewrite get_l_upd_neq by exact Hne]; [|reflexivity].
             unfold add_src. destruct (existsb _ _); reflexivity.
          -- intros q. rewrite <- upd_l_gemit. destruct (Nat.eq_dec (active s) q) as [<-|Hne];
               [rewrite get_l_upd_eq by exact Ha | rewrite get_l_upd_neq by exact Hne]; [|reflexivity].
             unfold add_src. destruct (existsb _ _); reflexivity.
    - (* ARegHandler *)
      inversion H; subst o s'.
      exists 1, (gemit (ERegHandler cls hid data) (g <| ghandlers := add_handler (ghandlers g) cls hid data |>)).
      split; [reflexivity|]. split; [apply Rel_emit2; apply Rel_handlers; exact R|].
      apply Step_same; reflexivity.
    - (* ASetQuitCb *)
      inversion H; subst o s'. exists 1, (gemit (ESetQuitCb arg) (g <| gquit_cb := Some arg |>)).
      split; [reflexivity|]. split; [apply Rel_emit2; apply Rel_quitcb; exact R|].
      apply Step_same; reflexivity.
    - (* AExtAdd *)
      inversion H; subst o s'. exists 1, (g <| gext := gext g ++ [sp] |>).
      split; [reflexivity|]. split; [apply Rel_ext_add; exact R|]. apply Step_same; reflexivity.
  Qed.

  (* ------------------------------------------------------------ all together *)
  Definition SimAll (f : nat) : Prop := SProg f /\ SApi f /\ SSig f /\ SProc f /\ SMain f.
  Lemma sim_all : forall f, SimAll f.
  Proof.
    induction f as [|f (IP & IA & IS & IL & IM)].
    - repeat split; intro; intros; cbn [fexec] in *;
        match goal with H : Some _ = Some _ |- _ => inversion H; subst; congruence end.
    - repeat split.
      + apply sim_prog; assumption.
      + apply sim_api; assumption.
      + apply sim_sig; assumption.
      + apply sim_proc; assumption.
      + apply sim_main; assumption.
  Qed.

  Definition TopPost (o : outcome) (s' : lstate U) (g' : gstate U) : Prop :=
    match o with
    | OBlocked => obs (trace s') = obs (gtrace g')
    | OFuel => False
    | _ => Rel s' g'
    end.

  Lemma sim_run f s g o s' :
    Rel s g -> fexec code f CRun s = Some (o, s') -> o <> OFuel -> GRes GRun g o (TopPost o s').
  Proof.
    intros R H Ho. destruct f as [|f]; [inversion H; congruence|]. cbn [fexec] in H.
    destruct (length (levels s) =? 1)%nat eqn:El; [|discriminate]. apply Nat.eqb_eq in El.
    destruct (levels s) as [|l0 [|]] eqn:EL; try discriminate. clear El.
    set (s0 := emit ERunEnter (s <| force_quit := false |> <| run_loop := true |>)) in *.
    set (g0 := gemit ERunEnter (g <| gforce_quit := false |>)).
    assert (Hl0 : l0 < length (gstore g)).
    { pose proof (Rel_valid_g _ _ R) as Hv. rewrite EL in Hv. inversion Hv. assumption. }
    assert (R0 : Rel s0 (upd_l g0 l0 (fun v => v <| gl_running := true |>))).
    { assert (R0 : Rel s0 g0).
      { apply Rel_emit2. eapply Rel_gcore; [eapply Rel_core; [exact R|]|].
        - unfold same_core. cbn. rewrite (r_fq _ _ R). repeat split; reflexivity.
        - unfold gsame_core, get_l. cbn. rewrite (r_gfq _ _ R). repeat split; reflexivity. }
      apply Rel_glevel; [exact R0 | rewrite (r_len _ _ R0); exact Hl0 |].
      exact (r_lvl _ _ R0 l0 ltac:(rewrite (r_len _ _ R0); exact Hl0)). }
    destruct (fexec code f CMainloop s0) as [[o1 s1]|] eqn:E1; cbn [obind] in H; [|discriminate].
    assert (Ho1 : o1 <> OFuel) by (intros ->; inversion H; congruence).
    destruct (proj2 (proj2 (proj2 (proj2 (sim_all f)))) l0 _ _ _ _ R0 eq_refl
                ltac:(subst s0; cbn; rewrite EL; reflexivity)
                ltac:(rewrite get_l_upd_eq by exact Hl0; reflexivity)
                ltac:(rewrite len_upd_l; exact Hl0) E1 Ho1) as (f1 & g1 & G1 & P1).
    assert (Hcomp : gexec false code (S f1) GRun g =
              match loop_out o1 with
              | ONormal => (ONormal, gemit ERunReturn (match gquit_cb g1 with Some a => gemit (EQuitCb a) g1 | None => g1 end))
              | o' => (o', g1)
              end).
    { cbn [gexec]. fold g0. change (glevels g0) with (glevels g). rewrite <- (r_levels _ _ R), EL. rewrite G1.
      destruct (loop_out o1) as [|[]| |]; reflexivity. }
    assert (Hfin : forall s1' , Rel s1' g1 ->
              Rel (emit ERunReturn (match quit_cb s1' with Some a => emit (EQuitCb a) s1' | None => s1' end))
                  (gemit ERunReturn (match gquit_cb g1 with Some a => gemit (EQuitCb a) g1 | None => g1 end))).
    { intros s1' R1. apply Rel_emit2. rewrite <- (r_qcb _ _ R1). destruct (quit_cb s1'); [apply Rel_emit2|]; exact R1. }
    destruct o1 as [|[]| |]; cbn in P1; try contradiction.
    - inversion H; subst o s'. destruct P1 as (smid & -> & Rm & _ & _).
      eexists (S f1), _. split; [exact Hcomp|]. cbn. apply (Hfin _ (Rel_run_loop _ _ true Rm)).
    - inversion H; subst o s'. eexists (S f1), _. split; [exact Hcomp|]. cbn. apply (Hfin _ P1).
    - inversion H; subst o s'. exists (S f1), g1. split; [exact Hcomp|exact P1].
  Qed.

  (* ------------------------------------------------------------ sessions *)
  Lemma grun_mono : forall acts f g os g', grun_session false code f acts g = (os, g') -> no_fuel os = true ->
    forall f', f <= f' -> grun_session false code f' acts g = (os, g').
  Proof.
    induction acts as [|a r IH]; intros f g os g' H Hn f' Hle; [exact H|].
    cbn [grun_session] in *.
    destruct (gexec false code f match a with TRun => GRun | TProg p => GProg p end (gemit ETop g)) as [o s1] eqn:E.
    assert (Ho : o <> OFuel) by (intros ->; inversion H; subst; discriminate).
    rewrite (gexec_mono _ _ _ _ _ _ E Ho f' Hle).
    destruct o as [|[]| |]; try exact H; try congruence.
    all: destruct (grun_session false code f r s1) as [os0 s2] eqn:Er; inversion H; subst os g'; cbn in Hn;
      rewrite (IH _ _ _ _ Er Hn f' Hle); reflexivity.
  Qed.

  Lemma frun_is_run : forall acts f s os s', frun_session code f acts s = Some (os, s') -> run_session code f acts s = (os, s').
  Proof.
    induction acts as [|a r IH]; intros f s os s' H; [inversion H; reflexivity|].
    cbn [frun_session run_session] in *.
    destruct (fexec code f match a with TRun => CRun | TProg p => CProg p end (emit ETop s)) as [[o s1]|] eqn:E;
      cbn [obind] in H; [|discriminate].
    rewrite (fexec_is_exec _ _ _ _ _ E). destruct o as [|e| |]; try discriminate; try (inversion H; reflexivity).
    destruct (frun_session code f r s1) as [[os0 s2]|] eqn:Er; cbn [obind] in H; [|discriminate].
    inversion H; subst. rewrite (IH _ _ _ _ Er). reflexivity.
  Qed.

  Lemma sim_session : forall acts f s g os s', Rel s g -> frun_session code f acts s = Some (os, s') -> no_fuel os = true ->
    exists f' g', grun_session false code f' acts g = (os, g') /\ obs (trace s') = obs (gtrace g').
  Proof.
    induction acts as [|a r IH]; intros f s g os s' R H Hn.
    - inversion H; subst. exists 0, g. split; [reflexivity|apply (r_obs _ _ R)].
    - cbn [frun_session] in H.
      destruct (fexec code f match a with TRun => CRun | TProg p => CProg p end (emit ETop s)) as [[o s1]|] eqn:E;
        cbn [obind] in H; [|discriminate].
      assert (Ho : o <> OFuel).
      { intros ->. inversion H; subst. discriminate. }
      assert (Rt : Rel (emit ETop s) (gemit ETop g)) by (apply Rel_emit2; exact R).
      assert (G : exists f1 g1, gexec false code f1 match a with TRun => GRun | TProg p => GProg p end (gemit ETop g) = (o, g1)
                                /\ TopPost o s1 g1).
      { destruct a as [|p].
        - apply (sim_run _ _ _ _ _ Rt E Ho).
        - destruct (proj1 (sim_all f) _ _ _ _ _ Rt E Ho) as (f1 & g1 & G1 & P1). exists f1, g1. split; [exact G1|].
          destruct o as [|e| |]; cbn in *; tauto. }
      destruct G as (f1 & g1 & G1 & P1).
      destruct o as [|e| |]; try discriminate.
      + destruct (frun_session code f r s1) as [[os0 s2]|] eqn:Er; cbn [obind] in H; [|discriminate].
        inversion H; subst os s'. cbn in Hn.
        destruct (IH _ _ _ _ _ P1 Er Hn) as (f2 & g2 & G2 & Hobs).
        exists (Nat.max f1 f2), g2. split; [|exact Hobs]. cbn [grun_session].
        rewrite (gexec_mono _ _ _ _ _ _ G1 ltac:(discriminate) (Nat.max f1 f2) ltac:(lia)).
        rewrite (grun_mono _ _ _ _ _ G2 Hn (Nat.max f1 f2) ltac:(lia)). reflexivity.
      + inversion H; subst os s'. exists f1, g1. split; [|exact P1]. cbn [grun_session]. rewrite G1. reflexivity.
      + congruence.
  Qed.

  Lemma Rel_init u : Rel (init_state u) (ginit_state u).
  Proof.
    constructor; cbn; try reflexivity; try discriminate.
    - constructor; [lia|constructor].
    - intros q Hq. assert (q = 0) by lia. subst q. apply lvl_rel_empty.
  Qed.
End Sim.

(* ------------------------------------------------------------ the theorem *)
Lemma hm_upto_obs l : filter is_hm (upto_quit l) = filter is_hm (upto_quit (filter is_obs l)).
Proof.
  induction l as [|e l IH]; [reflexivity|].
  destruct e; cbn [filter is_obs upto_quit is_hm]; try exact IH; try (f_equal; exact IH); reflexivity.
Qed.
Lemma filter_rev' {A} (f : A -> bool) l : filter f (rev l) = rev (filter f l).
Proof.
  induction l as [|x l IH]; [reflexivity|]. cbn. rewrite filter_app, IH. cbn. destruct (f x); cbn; [reflexivity|apply app_nil_r].
Qed.
Lemma hseq_obs t : hseq t = filter is_hm (upto_quit (rev (obs t))).
Proof. unfold hseq, obs. rewrite <- filter_rev'. apply hm_upto_obs. Qed.

(* the user-visible sequence: handler invocations, marks and the events of the layers above the loop (EUser: screens
   set up / refreshed / shown, prompts, input lines delivered to screens, screens closed, modal returns ...) *)
Lemma vis_upto_obs l : filter is_vis (upto_quit l) = filter is_vis (upto_quit (filter is_obs l)).
Proof.
  induction l as [|e l IH]; [reflexivity|].
  destruct e; cbn [filter is_obs upto_quit is_vis]; try exact IH; try (f_equal; exact IH); reflexivity.
Qed.
Lemma vseq_obs t : vseq t = filter is_vis (upto_quit (rev (obs t))).
Proof. unfold vseq, obs. rewrite <- filter_rev'. apply vis_upto_obs. Qed.
Lemma filter_filter_sub {A} (p q : A -> bool) l : (forall x, p x = true -> q x = true) -> filter p (filter q l) = filter p l.
Proof.
  intros Hs. induction l as [|x l IH]; [reflexivity|]. cbn. destruct (q x) eqn:Eq; cbn.
  - destruct (p x); rewrite IH; reflexivity.
  - destruct (p x) eqn:Ep; [rewrite (Hs x Ep) in Eq; discriminate | exact IH].
Qed.
Lemma hseq_vseq t : hseq t = filter is_hm (vseq t).
Proof. unfold hseq, vseq. symmetry. apply filter_filter_sub. intros [] H; try discriminate; reflexivity. Qed.
Lemma useq_vseq t : useq t = filter is_user (vseq t).
Proof. unfold useq, vseq. symmetry. apply filter_filter_sub. intros [] H; try discriminate; reflexivity. Qed.

(* for every handler code (any user state), every fuel and every list of top-level calls: if the run on the MainLoop
   model stays in the fragment, then the GLibEventLoop model, given enough fuel, ends every top-level call in the same
   way and shows the same handler/mark sequence up to the quit *)
Theorem agree_partial_gen {U} (code : nat -> signal -> nat -> prog U) fuel acts u :
  in_fragment code fuel acts u = true ->
  exists fuel', forall fuel'', fuel' <= fuel'' ->
    fst (grun_session false code fuel'' acts (ginit_state u)) = fst (run_session code fuel acts (init_state u)) /\
    vseq (gtrace (snd (grun_session false code fuel'' acts (ginit_state u)))) =
    vseq (trace (snd (run_session code fuel acts (init_state u)))).
Proof.
  intros H. unfold in_fragment in H.
  destruct (frun_session code fuel acts (init_state u)) as [[os s']|] eqn:E; [|discriminate].
  change (no_fuel os = true) in H.
  rewrite (frun_is_run code _ _ _ _ _ E).
  destruct (sim_session code _ _ _ _ _ _ (Rel_init code u) E H) as (f' & g' & G & Hobs).
  exists f'. intros f'' Hle. rewrite (grun_mono code _ _ _ _ _ G H f'' Hle). cbn [fst snd].
  split; [reflexivity|]. rewrite !vseq_obs. rewrite Hobs. reflexivity.
Qed.

(* ... in the vocabulary of C20Proofs: sessions given by handler bodies and top-level actions *)
Theorem agree_partial bodies acts fuel :
  in_fragment (handler_prog bodies) fuel (map top_of acts) [] = true ->
  exists fuel', forall fuel'', fuel' <= fuel'' -> glib_obs bodies acts fuel'' = main_obs bodies acts fuel.
Proof.
  intros H. destruct (agree_partial_gen _ _ _ _ H) as (f' & Hf). exists f'. intros f'' Hle.
  destruct (Hf f'' Hle) as [A B]. apply (f_equal (filter is_hm)) in B.
  rewrite <- !hseq_vseq in B. unfold glib_obs, glib_obs_gen, main_obs.
  assert (K : forall (p : list outcome * gstate counters) (q : list outcome * lstate counters),
             fst p = fst q -> hseq (gtrace (snd p)) = hseq (trace (snd q)) ->
             (let '(os, st) := p in (os, hseq (gtrace st))) = (let '(os, st) := q in (os, hseq (trace st))))
    by (intros [] []; cbn; congruence).
  apply K; assumption.
Qed.

(* the fragment is not empty: the six scheduler scenarios are in it (and every refutation witness is outside) *)
Lemma example_fragment :
  in_fragment (handler_prog s_replace_screen_bodies) 200 (map top_of s_acts) [] = true /\
  in_fragment (handler_prog s_switch_screen_bodies) 200 (map top_of s_acts) [] = true /\
  in_fragment (handler_prog s_modal_in_render_bodies) 200 (map top_of s_acts) [] = true /\
  in_fragment (handler_prog s_modal_in_refresh_bodies) 200 (map top_of s_acts) [] = true /\
  in_fragment (handler_prog s_modal_refresh_and_render_bodies) 200 (map top_of s_acts) [] = true /\
  in_fragment (handler_prog s_modal_render_recursive_bodies) 200 (map top_of s_acts) [] = true /\
  in_fragment (handler_prog w_a_bodies) 200 (map top_of w_a_acts) [] = false /\
  in_fragment (handler_prog w_b_bodies) 200 (map top_of w_b_acts) [] = false /\
  in_fragment (handler_prog w_c_bodies) 200 (map top_of w_c_acts) [] = false /\
  in_fragment (handler_prog w_d_bodies) 200 (map top_of w_d_acts) [] = false.
Proof. vm_compute. repeat split. Qed.

(* ------------------------------------------------------------ applications (ScreenSem on either loop) *)
Lemma gapp_mono specs : forall acts f g os g', gapp_session specs f acts g = (os, g') -> no_fuel os = true ->
  forall f', f <= f' -> gapp_session specs f' acts g = (os, g').
Proof.
  induction acts as [|a r IH]; intros f g os g' H Hn f' Hle; [exact H|].
  cbn [gapp_session] in *.
  assert (K : forall gc, (let '(o, s1) := gexec false (screen_code specs) f gc (gemit ETop g) in
                          match o with
                          | OBlocked | OFuel | OThrow XSysExit => ([o], s1)
                          | _ => let '(os, s2) := gapp_session specs f r s1 in (o :: os, s2)
                          end) = (os, g') ->
                         (let '(o, s1) := gexec false (screen_code specs) f' gc (gemit ETop g) in
                          match o with
                          | OBlocked | OFuel | OThrow XSysExit => ([o], s1)
                          | _ => let '(os, s2) := gapp_session specs f' r s1 in (o :: os, s2)
                          end) = (os, g')).
  { intros gc H0. destruct (gexec false (screen_code specs) f gc (gemit ETop g)) as [o s1] eqn:E.
    assert (Ho : o <> OFuel) by (intros ->; inversion H0; subst; discriminate).
    rewrite (gexec_mono _ _ _ _ _ _ _ E Ho f' Hle).
    destruct o as [|[]| |]; try exact H0; try congruence.
    all: destruct (gapp_session specs f r s1) as [os0 s2] eqn:Er; inversion H0; subst os g'; cbn in Hn;
      rewrite (IH _ _ _ _ Er Hn f' Hle); reflexivity. }
  destruct a as [l|].
  - apply K. exact H.
  - destruct (st_stack (gust g)) as [|d st]; [destruct (st_run_empty (gust g))|]; try (apply K; exact H).
    inversion H; subst. cbn in Hn.
    destruct (gapp_session specs f r (gemit ETop g)) as [os0 s2] eqn:Er. inversion H1; subst. cbn in Hn.
    rewrite (IH _ _ _ _ Er Hn f' Hle). reflexivity.
Qed.

Lemma fapp_is_app specs : forall acts f s os s', fapp_session specs f acts s = Some (os, s') -> app_session specs f acts s = (os, s').
Proof.
  induction acts as [|a r IH]; intros f s os s' H; [inversion H; reflexivity|].
  cbn [fapp_session app_session] in *.
  assert (K : forall c, obind (fexec (screen_code specs) f c (emit ETop s))
                (fun '(o, s1) => match o with
                                 | OBlocked | OFuel => Some ([o], s1)
                                 | ONormal => obind (fapp_session specs f r s1) (fun '(os, s2) => Some (o :: os, s2))
                                 | OThrow _ => None end) = Some (os, s') ->
              (let '(o, s1) := exec (screen_code specs) f c (emit ETop s) in
               match o with
               | OBlocked | OFuel | OThrow XSysExit => ([o], s1)
               | _ => let '(os, s2) := app_session specs f r s1 in (o :: os, s2) end) = (os, s')).
  { intros c H0. destruct (fexec (screen_code specs) f c (emit ETop s)) as [[o s1]|] eqn:E; cbn [obind] in H0; [|discriminate].
    rewrite (fexec_is_exec _ _ _ _ _ _ E). destruct o as [|e| |]; try discriminate; try (inversion H0; reflexivity).
    destruct (fapp_session specs f r s1) as [[os0 s2]|] eqn:Er; cbn [obind] in H0; [|discriminate].
    inversion H0; subst. rewrite (IH _ _ _ _ Er). reflexivity. }
  destruct a as [l|].
  - apply K. exact H.
  - destruct (st_stack (ust s)) as [|d st]; [destruct (st_run_empty (ust s))|]; try (apply K; exact H). discriminate.
Qed.

Lemma sim_app_session specs : forall acts f s g os s', Rel s g -> fapp_session specs f acts s = Some (os, s') -> no_fuel os = true ->
  exists f' g', gapp_session specs f' acts g = (os, g') /\ obs (trace s') = obs (gtrace g').
Proof.
  induction acts as [|a r IH]; intros f s g os s' R H Hn.
  - inversion H; subst. exists 0, g. split; [reflexivity|apply (r_obs _ _ R)].
  - cbn [fapp_session] in H.
    assert (Rt : Rel (emit ETop s) (gemit ETop g)) by (apply Rel_emit2; exact R).
    assert (K : forall c gc,
      (forall o s1, fexec (screen_code specs) f c (emit ETop s) = Some (o, s1) -> o <> OFuel ->
         exists f1 g1, gexec false (screen_code specs) f1 gc (gemit ETop g) = (o, g1) /\ TopPost o s1 g1) ->
      obind (fexec (screen_code specs) f c (emit ETop s))
            (fun '(o, s1) => match o with
                             | OBlocked | OFuel => Some ([o], s1)
                             | ONormal => obind (fapp_session specs f r s1) (fun '(os, s2) => Some (o :: os, s2))
                             | OThrow _ => None end) = Some (os, s') ->
      exists f' g', (let '(o, s1) := gexec false (screen_code specs) f' gc (gemit ETop g) in
                     match o with
                     | OBlocked | OFuel | OThrow XSysExit => ([o], s1)
                     | _ => let '(os, s2) := gapp_session specs f' r s1 in (o :: os, s2) end) = (os, g') /\
                    obs (trace s') = obs (gtrace g')).
    { intros c gc HG H0.
      destruct (fexec (screen_code specs) f c (emit ETop s)) as [[o s1]|] eqn:E; cbn [obind] in H0; [|discriminate].
      assert (Ho : o <> OFuel) by (intros ->; inversion H0; subst; discriminate).
      destruct (HG _ _ eq_refl Ho) as (f1 & g1 & G1 & P1).
      destruct o as [|e| |]; try discriminate.
      + destruct (fapp_session specs f r s1) as [[os0 s2]|] eqn:Er; cbn [obind] in H0; [|discriminate].
        inversion H0; subst os s'. cbn in Hn.
        destruct (IH _ _ _ _ _ P1 Er Hn) as (f2 & g2 & G2 & Hobs).
        exists (Nat.max f1 f2), g2. split; [|exact Hobs].
        rewrite (gexec_mono _ _ _ _ _ _ _ G1 ltac:(discriminate) (Nat.max f1 f2) ltac:(lia)).
        rewrite (gapp_mono _ _ _ _ _ _ G2 Hn (Nat.max f1 f2) ltac:(lia)). reflexivity.
      + inversion H0; subst os s'. exists f1, g1. split; [|exact P1]. rewrite G1. reflexivity.
      + congruence. }
    cbn [gapp_session].
    destruct a as [l|].
    + apply (K (CProg (run_cmds specs 0 0 l)) (GProg (run_cmds specs 0 0 l))); [|exact H].
      intros o s1 E Ho. destruct (proj1 (sim_all (screen_code specs) f) _ _ _ _ _ Rt E Ho) as (f1 & g1 & G1 & P1).
      exists f1, g1. split; [exact G1|]. destruct o as [|e| |]; cbn in *; tauto.
    + rewrite <- (r_ust _ _ R).
      destruct (st_stack (ust s)) as [|d st]; [destruct (st_run_empty (ust s))|].
      * apply (K CRun GRun); [|exact H]. intros o s1 E Ho. apply (sim_run _ _ _ _ _ _ Rt E Ho).
      * discriminate.
      * apply (K CRun GRun); [|exact H]. intros o s1 E Ho. apply (sim_run _ _ _ _ _ _ Rt E Ho).
Qed.

Lemma ginit_run (code : nat -> signal -> nat -> prog sstate) u :
  exists g1, gexec false code 20 (GProg app_initialize) (ginit_state u) = (ONormal, g1).
Proof. eexists. reflexivity. Qed.

(* applications: for every table of screens, typed lines, quit dialog, configuration, fuel and application actions
   whose run on the MainLoop model stays in the fragment, the same application on the GLibEventLoop model ends
   every top-level call in the same way and shows the same user-visible sequence up to the quit *)
Theorem applications_agree_partial specs specl typed quit run_empty fuel acts :
  in_app_fragment specs specl typed quit run_empty fuel acts = true ->
  exists fuel', forall fuel'', fuel' <= fuel'' ->
    fst (gapp_run_all specs specl typed quit run_empty fuel'' acts) = fst (app_run_all specs specl typed quit run_empty fuel acts) /\
    vseq (gtrace (snd (gapp_run_all specs specl typed quit run_empty fuel'' acts))) =
    vseq (trace (snd (app_run_all specs specl typed quit run_empty fuel acts))).
Proof.
  intros H. unfold in_app_fragment in H. set (u := sstate0 specl typed quit run_empty) in *.
  destruct (fexec (screen_code specs) 20 (CProg app_initialize) (init_state u)) as [[[|e| |] s1]|] eqn:E0; try discriminate.
  destruct (fapp_session specs fuel acts s1) as [[os s']|] eqn:E; [|discriminate].
  change (no_fuel os = true) in H.
  destruct (proj1 (sim_all (screen_code specs) 20) _ _ _ _ _ (Rel_init (screen_code specs) u) E0 ltac:(discriminate))
    as (f0 & g1 & G0 & [R1 _]).
  destruct (ginit_run (screen_code specs) u) as (g1' & G20).
  assert (g1' = g1).
  { pose proof (gexec_mono _ _ _ _ _ _ _ G0 ltac:(discriminate) (Nat.max f0 20) ltac:(lia)) as A.
    pose proof (gexec_mono _ _ _ _ _ _ _ G20 ltac:(discriminate) (Nat.max f0 20) ltac:(lia)) as B. congruence. }
  subst g1'.
  destruct (sim_app_session specs _ _ _ _ _ _ R1 E H) as (f' & g' & G & Hobs).
  exists f'. intros f'' Hle. unfold gapp_run_all, app_run_all. fold u.
  rewrite (fexec_is_exec _ _ _ _ _ _ E0), G20.
  rewrite (fapp_is_app _ _ _ _ _ _ E), (gapp_mono _ _ _ _ _ _ G H f'' Hle). cbn [fst snd].
  split; [reflexivity|]. rewrite !vseq_obs, Hobs. reflexivity.
Qed.

(* ------------------------------------------------------------ non-vacuity at application level
   A real application session inside the fragment: screen 0 pushes screen 1 MODALLY from its first refresh();
   the user types "1" (delivered to the modal screen 1, whose input() answers CLOSE: the modal loop is closed and
   push_screen_modal returns), screen 0 is then drawn and asks; the user types "3" (delivered to screen 0, which
   closes: the stack is empty, the application quits).  Two screens shown, a modal push, two typed lines. *)
Definition ex_specl : list screen_spec :=
  [ {| sc_setup := []; sc_refresh := [SIfCount 1 [SPushModal 1 0] []]; sc_show := []; sc_closed := [];
       sc_input := [([49%N], ([SPush 1 0], RProcessed)); ([51%N], ([], RClose))]; sc_input_default := ([], None);
       sc_prompt_none := false; sc_input_required := true; sc_no_separator := false; sc_skip_check := false;
       sc_pages := 0; sc_answer0 := AnsNoAttr; sc_custom := []; sc_setup_cmds := [] |};
    {| sc_setup := []; sc_refresh := []; sc_show := []; sc_closed := [];
       sc_input := [([50%N], ([], RProcessed))]; sc_input_default := ([], Some RClose);
       sc_prompt_none := false; sc_input_required := true; sc_no_separator := false; sc_skip_check := false;
       sc_pages := 0; sc_answer0 := AnsNoAttr; sc_custom := []; sc_setup_cmds := [] |} ].
Definition ex_specs (n : nat) : screen_spec := nth n ex_specl default_spec.
Definition ex_typed : list (option str) := [Some [49%N]; Some [51%N]].
Definition ex_acts : list saction := [SACmds [SSchedule 0 0]; SARun].
(* shown / input delivered / closed / modal return, in order *)
Definition key_events (t : list event) : list event :=
  filter (fun e => match e with
                   | EUser tag _ _ => existsb (Nat.eqb tag) [T_SHOW; T_INPUT; T_MODAL_RETURN; T_CLOSED]
                   | _ => false end) (useq t).
Definition ex_expected : list event :=
  [EUser T_SHOW [1; 1] []; EUser T_INPUT [1; 0] [49%N]; EUser T_CLOSED [1; 1] []; EUser T_MODAL_RETURN [1; 1] [];
   EUser T_SHOW [0; 0] []; EUser T_INPUT [0; 0] [51%N]; EUser T_CLOSED [0; 0] []].

Lemma example_application :
  in_app_fragment ex_specs ex_specl ex_typed None false 300 ex_acts = true /\
  (let '(os, st) := app_run_all ex_specs ex_specl ex_typed None false 300 ex_acts in (os, key_events (trace st)))
    = ([ONormal; ONormal], ex_expected) /\
  (let '(os, st) := gapp_run_all ex_specs ex_specl ex_typed None false 600 ex_acts in (os, key_events (gtrace st)))
    = ([ONormal; ONormal], ex_expected).
Proof. vm_compute. repeat split. Qed.
