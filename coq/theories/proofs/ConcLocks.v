(* ConcLocks.v — lock discipline of Conc.v: who holds MainLoop._lock / EventQueue._lock, and
   absence of deadlock (lock order MainLoop._lock -> EventQueue._lock, never the reverse). *)
From SL Require Import Tac.
From Coq Require Import Permutation.
From RecordUpdate Require Import RecordUpdate.
From SL Require Import Conc proofs.ConcProofs.
Import ListNotations.

(* program points at which the thread holds MainLoop._lock *)
Definition mlocked (p : pc) : bool :=
  match p with
  | PE _ e =>
    match e with
    | EMkIter | ENext _ | EAcqQ _ _ | ETest _ _ | ERelQ _ _ _ | ERelMDone | ERelMFb => true
    | ECnt _ lk | EPut _ _ lk => lk
    | _ => false
    end
  | POApp _ | PORel _ | PCPop | PCRepoint | PCRel _ => true
  | _ => false
  end.
(* program points at which the thread holds the lock of queue object q *)
Definition qlocked (p : pc) : option nat :=
  match p with
  | PE _ (ETest q _) | PE _ (ERelQ q _ _) | PRAdd q _ | PRRel q => Some q
  | _ => None
  end.

Lemma aget_aset : forall m k v k', aget (aset m k v) k' = if k =? k' then v else aget m k'.
Proof. reflexivity. Qed.

Lemma tstep_mlock : forall t th h th' h', tstep t th h = Some (th', h') ->
  (h_mlock h' = h_mlock h /\ mlocked (t_pc th') = mlocked (t_pc th)) \/
  (h_mlock h = 0 /\ h_mlock h' = S t /\ mlocked (t_pc th) = false /\ mlocked (t_pc th') = true) \/
  (mlocked (t_pc th) = true /\ mlocked (t_pc th') = false /\ h_mlock h' = 0).
Proof.
  intros t [prog p] h th' h' H. inv_tstep H.
  all: unfold dispatched, lbl, mk; cbn [t_pc mlocked h_mlock set]; auto 8.
  all: try (destruct b; cbn [mlocked]; auto 8).
  all: try (match goal with |- context [match ?l with [] => _ | _ :: _ => _ end] => destruct l end; cbn [mlocked]; auto 8).
Qed.

Lemma tstep_qlock : forall t th h th' h', tstep t th h = Some (th', h') ->
  (h_qlock h' = h_qlock h /\ qlocked (t_pc th') = qlocked (t_pc th)) \/
  (exists q, aget (h_qlock h) q = 0 /\ h_qlock h' = aset (h_qlock h) q (S t) /\
             qlocked (t_pc th) = None /\ qlocked (t_pc th') = Some q) \/
  (exists q, qlocked (t_pc th) = Some q /\ qlocked (t_pc th') = None /\ h_qlock h' = aset (h_qlock h) q 0).
Proof.
  intros t [prog p] h th' h' H. inv_tstep H.
  all: unfold dispatched, lbl, mk; cbn [t_pc qlocked h_qlock set]; auto.
  all: try (destruct b; cbn [qlocked]; eauto 6).
  all: try (match goal with |- context [match ?l with [] => _ | _ :: _ => _ end] => destruct l end; cbn [qlocked]; auto).
  all: eauto 8.
Qed.

Definition minv (st : cstate) : Prop :=
  (forall t th, nth_error (c_thr st) t = Some th -> (mlocked (t_pc th) = true <-> h_mlock (c_sh st) = S t)) /\
  (forall u, h_mlock (c_sh st) = S u -> u < length (c_thr st)).
Definition qinv (st : cstate) : Prop :=
  (forall t th q, nth_error (c_thr st) t = Some th -> (qlocked (t_pc th) = Some q <-> aget (h_qlock (c_sh st)) q = S t)) /\
  (forall q u, aget (h_qlock (c_sh st)) q = S u -> u < length (c_thr st)).

Lemma nth_error_upd_mid : forall {A} (l1 : list A) x y l2 n,
  nth_error (l1 ++ y :: l2) n = if n =? length l1 then Some y else nth_error (l1 ++ x :: l2) n.
Proof.
  intros. destruct (n =? length l1) eqn:E.
  - apply Nat.eqb_eq in E. subst. apply nth_error_mid.
  - apply Nat.eqb_neq in E. apply nth_error_mid_ne. exact E.
Qed.

Lemma len_mid : forall {A} (l1 : list A) x y l2, length (l1 ++ y :: l2) = length (l1 ++ x :: l2).
Proof. intros; rewrite !app_length; reflexivity. Qed.

Lemma minv_step : forall t st, minv st -> minv (step t st).
Proof.
  intros t st [M1 M2]. destruct (step_cases t st) as [E|(l1 & th & l2 & th' & h' & Hl & Hn & Ht & E)].
  { rewrite E. split; assumption. }
  rewrite E. destruct st as [thr h]. cbn [c_thr c_sh] in *. subst thr.
  pose proof (M1 t th) as Mt. rewrite <- Hn in Mt at 1. rewrite nth_error_mid in Mt. specialize (Mt eq_refl).
  destruct (tstep_mlock _ _ _ _ _ Ht) as [(A & B)|[(A & B & C & D)|(A & B & C)]].
  - split; cbn [c_thr c_sh].
    + intros n thn Hnth. rewrite (nth_error_upd_mid l1 th) in Hnth. rewrite A.
      destruct (n =? length l1) eqn:En.
      * apply Nat.eqb_eq in En. inversion Hnth; subst. rewrite B. exact Mt.
      * apply M1. exact Hnth.
    + intros u Hu. rewrite (len_mid l1 th). apply M2. congruence.
  - split; cbn [c_thr c_sh].
    + intros n thn Hnth. rewrite (nth_error_upd_mid l1 th) in Hnth. rewrite B.
      destruct (n =? length l1) eqn:En.
      * apply Nat.eqb_eq in En. inversion Hnth; subst. tauto.
      * apply Nat.eqb_neq in En. pose proof (M1 n thn Hnth) as Q. rewrite A in Q.
        split; intros X; [apply Q in X; discriminate| inversion X; lia].
    + intros u Hu. inversion Hu; subst. rewrite app_length; cbn; lia.
  - split; cbn [c_thr c_sh].
    + intros n thn Hnth. rewrite (nth_error_upd_mid l1 th) in Hnth. rewrite C.
      destruct (n =? length l1) eqn:En.
      * apply Nat.eqb_eq in En. inversion Hnth; subst. split; intros X; congruence.
      * apply Nat.eqb_neq in En. pose proof (M1 n thn Hnth) as Q.
        split; intros X; [|discriminate]. apply Q in X. apply Mt in A. rewrite A in X. inversion X; lia.
    + intros u Hu. rewrite C in Hu. discriminate.
Qed.

Lemma qinv_step : forall t st, qinv st -> qinv (step t st).
Proof.
  intros t st [M1 M2]. destruct (step_cases t st) as [E|(l1 & th & l2 & th' & h' & Hl & Hn & Ht & E)].
  { rewrite E. split; assumption. }
  rewrite E. destruct st as [thr h]. cbn [c_thr c_sh] in *. subst thr.
  assert (Mt : forall q, qlocked (t_pc th) = Some q <-> aget (h_qlock h) q = S t).
  { intros q. apply M1. rewrite <- Hn. apply nth_error_mid. }
  destruct (tstep_qlock _ _ _ _ _ Ht) as [(A & B)|[(q0 & A & B & C & D)|(q0 & A & B & C)]].
  - split; cbn [c_thr c_sh].
    + intros n thn q Hnth. rewrite (nth_error_upd_mid l1 th) in Hnth. rewrite A.
      destruct (n =? length l1) eqn:En.
      * apply Nat.eqb_eq in En. inversion Hnth; subst. rewrite B. apply Mt.
      * apply M1. exact Hnth.
    + intros q u Hu. rewrite (len_mid l1 th). apply (M2 q). congruence.
  - split; cbn [c_thr c_sh].
    + intros n thn q Hnth. rewrite (nth_error_upd_mid l1 th) in Hnth. rewrite B, aget_aset.
      destruct (n =? length l1) eqn:En.
      * apply Nat.eqb_eq in En. inversion Hnth; subst. rewrite D.
        destruct (q0 =? q) eqn:Eq.
        -- apply Nat.eqb_eq in Eq. subst. tauto.
        -- apply Nat.eqb_neq in Eq. split; intros X; [congruence|]. apply Mt in X. congruence.
      * apply Nat.eqb_neq in En. pose proof (M1 n thn q Hnth) as Q.
        destruct (q0 =? q) eqn:Eq; [|exact Q].
        apply Nat.eqb_eq in Eq. subst. rewrite A in Q.
        split; intros X; [apply Q in X; discriminate|inversion X; lia].
    + intros q u Hu. rewrite B, aget_aset in Hu. destruct (q0 =? q).
      * inversion Hu; subst. rewrite app_length; cbn; lia.
      * rewrite (len_mid l1 th). apply (M2 q). exact Hu.
  - split; cbn [c_thr c_sh].
    + intros n thn q Hnth. rewrite (nth_error_upd_mid l1 th) in Hnth. rewrite C, aget_aset.
      destruct (n =? length l1) eqn:En.
      * apply Nat.eqb_eq in En. inversion Hnth; subst. rewrite B.
        destruct (q0 =? q) eqn:Eq; [split; intros X; discriminate|].
        apply Nat.eqb_neq in Eq. split; intros X; [discriminate|]. apply Mt in X. congruence.
      * apply Nat.eqb_neq in En. pose proof (M1 n thn q Hnth) as Q.
        destruct (q0 =? q) eqn:Eq; [|exact Q].
        apply Nat.eqb_eq in Eq. subst. split; intros X; [|discriminate].
        apply Q in X. apply Mt in A. rewrite A in X. inversion X; lia.
    + intros q u Hu. rewrite C, aget_aset in Hu. destruct (q0 =? q); [discriminate|].
      rewrite (len_mid l1 th). apply (M2 q). exact Hu.
Qed.

Lemma init_nth : forall progs t th, nth_error (c_thr (init progs)) t = Some th -> t_pc th = P0.
Proof.
  intros progs t th H. unfold init in H. cbn [c_thr] in H.
  rewrite nth_error_map in H. destruct (nth_error progs t); inversion H; reflexivity.
Qed.

Lemma minv_init : forall progs, minv (init progs).
Proof.
  intros; split.
  - intros t th H. rewrite (init_nth _ _ _ H). cbn. split; discriminate.
  - cbn. discriminate.
Qed.
Lemma qinv_init : forall progs, qinv (init progs).
Proof.
  intros; split.
  - intros t th q H. rewrite (init_nth _ _ _ H). cbn. split; discriminate.
  - cbn. discriminate.
Qed.

Lemma minv_reach : forall progs sch, minv (steps sch (init progs)).
Proof. intros. apply steps_inv; [apply minv_step|apply minv_init]. Qed.
Lemma qinv_reach : forall progs sch, qinv (steps sch (init progs)).
Proof. intros. apply steps_inv; [apply qinv_step|apply qinv_init]. Qed.

(* ------------------------------------------------------------------ no deadlock *)
Lemma pop_min_none : forall q l, pop_min q l = None -> q_empty q l = true.
Proof.
  induction l as [|[q' e] r IH]; intros H; [reflexivity|].
  cbn [pop_min] in H. unfold q_empty. cbn [existsb fst].
  destruct (q' =? q) eqn:E.
  - destruct (pop_min q r) as [[m r']|]; [destruct (entry_le e m)|]; discriminate.
  - destruct (pop_min q r) as [[m r']|]; [discriminate|]. cbn. apply IH. reflexivity.
Qed.

(* why a thread cannot move *)
Lemma tstep_none : forall t th h, tstep t th h = None ->
  finished th = true \/ waiting_get th h = true \/
  (h_mlock h <> 0 /\ mlocked (t_pc th) = false) \/
  (exists q, aget (h_qlock h) q <> 0 /\ qlocked (t_pc th) = None).
Proof.
  intros t [prog p] h H.
  unfold tstep in H; cbn [t_pc t_prog] in H.
  unfold start, cont, enq, estep, close_empty in H.
  open_match H; try discriminate H.
  all: unfold finished, waiting_get; cbn [t_pc t_prog mlocked qlocked]; auto.
  all: try (match goal with Hp : pop_min _ _ = None |- _ => rewrite (pop_min_none _ _ Hp) end).
  all: try (match goal with Hr : h_run _ = true |- _ => rewrite Hr end); auto.
  all: try (right; right; left; split; [congruence|reflexivity]).
  all: right; right; right; eexists; split; [|reflexivity]; rewrite Heqn; discriminate.
Qed.

Lemma qlocked_enabled : forall t th h q, qlocked (t_pc th) = Some q -> tstep t th h <> None.
Proof.
  intros t [prog p] h q H. destruct p; try discriminate H; cbn [t_pc qlocked] in H.
  - destruct e; try discriminate H; unfold tstep, cont, enq, estep; cbn [t_pc t_prog]; discriminate.
  - unfold tstep, cont; cbn [t_pc t_prog]; discriminate.
  - unfold tstep, cont; cbn [t_pc t_prog]; discriminate.
Qed.

Lemma mlocked_enabled : forall t th h, mlocked (t_pc th) = true ->
  tstep t th h <> None \/ exists q, aget (h_qlock h) q <> 0 /\ qlocked (t_pc th) = None.
Proof.
  intros t th h H. destruct (tstep t th h) eqn:E; [left; discriminate|].
  right. destruct (tstep_none _ _ _ E) as [F|[W|[(A & B)|Q]]]; auto; destruct th as [prog p].
  - unfold finished in F. cbn [t_pc t_prog mlocked] in *. destruct p; try discriminate H; try discriminate F.
  - unfold waiting_get in W. cbn [t_pc t_prog] in *. destruct p; try discriminate H; try discriminate W.
  - cbn [mk t_pc] in *. congruence.
Qed.

Lemma enabled_iff : forall t st, enabled t st = true <->
  exists th, nth_error (c_thr st) t = Some th /\ tstep t th (c_sh st) <> None.
Proof.
  intros. unfold enabled. destruct (nth_error (c_thr st) t) as [th|].
  - destruct (tstep t th (c_sh st)) eqn:E; split; intros H; try discriminate.
    + exists th. split; [reflexivity|]. rewrite E. discriminate.
    + reflexivity.
    + destruct H as (th' & A & B). inversion A; subst. congruence.
  - split; [discriminate|]. intros (th & A & _). discriminate.
Qed.

Lemma lt_nth : forall {A} (l : list A) n, n < length l -> exists a, nth_error l n = Some a.
Proof.
  intros A l n H. destruct (nth_error l n) eqn:E; [eauto|]. apply nth_error_None in E. lia.
Qed.

Lemma holder_q_enabled : forall st q, qinv st -> aget (h_qlock (c_sh st)) q <> 0 -> exists u, enabled u st = true.
Proof.
  intros st q [Q1 Q2] H. destruct (aget (h_qlock (c_sh st)) q) as [|u] eqn:E; [congruence|].
  destruct (lt_nth _ _ (Q2 _ _ E)) as (thu & Hu).
  exists u. apply enabled_iff. exists thu. split; [exact Hu|].
  apply (qlocked_enabled _ _ _ q). apply (Q1 _ _ _ Hu). exact E.
Qed.

Lemma progress : forall st, minv st -> qinv st ->
  forall t th, nth_error (c_thr st) t = Some th ->
  finished th = true \/ waiting_get th (c_sh st) = true \/ exists u, enabled u st = true.
Proof.
  intros st [M1 M2] Q t th Ht.
  destruct (tstep t th (c_sh st)) eqn:E.
  { right; right. exists t. apply enabled_iff. exists th. split; [exact Ht|congruence]. }
  destruct (tstep_none _ _ _ E) as [F|[W|[(A & B)|(q & A & B)]]]; auto.
  - right; right.
    destruct (h_mlock (c_sh st)) as [|u] eqn:Eu; [congruence|].
    destruct (lt_nth _ _ (M2 _ eq_refl)) as (thu & Hu).
    assert (Lu : mlocked (t_pc thu) = true) by (apply (M1 _ _ Hu); reflexivity).
    destruct (mlocked_enabled u thu (c_sh st) Lu) as [En|(q & A' & _)].
    + exists u. apply enabled_iff. eauto.
    + eapply holder_q_enabled; eauto.
  - right; right. eapply holder_q_enabled; eauto.
Qed.

(* in every reachable state: some thread can take a (non-stutter) step, or every unfinished thread waits in
   PriorityQueue.get() on an empty queue *)
Theorem no_deadlock : forall progs sch, let st := steps sch (init progs) in
  (exists t, enabled t st = true) \/
  (forall t th, nth_error (c_thr st) t = Some th -> finished th = true \/ waiting_get th (c_sh st) = true).
Proof.
  intros progs sch st.
  destruct (existsb (fun t => enabled t st) (seq 0 (length (c_thr st)))) eqn:E.
  - left. apply existsb_exists in E. destruct E as (t & _ & H). eauto.
  - right. intros t th Ht.
    destruct (progress st (minv_reach progs sch) (qinv_reach progs sch) t th Ht) as [F|[W|(u & Hu)]]; auto.
    exfalso. assert (X : existsb (fun t => enabled t st) (seq 0 (length (c_thr st))) = true).
    { apply existsb_exists. exists u. split; [|exact Hu]. apply in_seq.
      apply enabled_iff in Hu. destruct Hu as (thu & A & _).
      assert (u < length (c_thr st)) by (apply nth_error_Some; congruence). lia. }
    congruence.
Qed.
