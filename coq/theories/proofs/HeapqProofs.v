(* HeapqProofs.v — CPython's heapq (Heapq.v: the exact "bubble the hole down to a leaf, then _siftdown"
   variant of _siftup) keeps the heap invariant, permutes its content, pops a least element, never runs out of
   fuel and never indexes out of range; hence it refines the abstract queue of LoopSem.v (q_put / q_pop). *)
From SL Require Import Tac.
From Coq Require Import Permutation.
From RecordUpdate Require Import RecordUpdate.
Require Import SL.LoopSem SL.Heapq SL.proofs.LoopLink.
Import ListNotations.

Local Notation parent i := ((i - 1) / 2).

(* ================================================================ the order, for lia *)
Ltac ord :=
  repeat match goal with
  | H : entry_lt _ _ = true |- _ => apply entry_lt_spec in H
  | H : entry_lt _ _ = false |- _ => apply entry_lt_false in H
  end;
  rewrite ?entry_lt_spec, ?entry_lt_false; lia.

Lemma entry_lt_irrefl a : entry_lt a a = false.
Proof. ord. Qed.

(* ================================================================ heap[n] = x on lists *)
Lemma hset_length h : forall n x, length (hset h n x) = length h.
Proof. induction h as [|a r IH]; intros [|n] x; cbn [hset length]; auto. Qed.

Lemma nth_error_hset h : forall n x m, n < length h ->
  nth_error (hset h n x) m = if m =? n then Some x else nth_error h m.
Proof.
  induction h as [|a r IH]; intros [|n] x [|m] L; cbn [hset nth_error length Nat.eqb] in *; try lia; auto.
  apply IH. lia.
Qed.

Lemma nth_error_in_range {A} (l : list A) n : n < length l -> exists a, nth_error l n = Some a.
Proof.
  intros L. destruct (nth_error l n) as [a|] eqn:E; [eauto|]. apply nth_error_None in E. lia.
Qed.

Lemma nth_error_lt {A} (l : list A) n a : nth_error l n = Some a -> n < length l.
Proof. intros E. apply nth_error_Some. congruence. Qed.

Lemma hset_same h : forall n a, nth_error h n = Some a -> hset h n a = h.
Proof.
  induction h as [|b r IH]; intros [|n] a E; cbn [hset nth_error] in *; try discriminate.
  - congruence.
  - f_equal. apply IH, E.
Qed.

Lemma hset_hset h : forall n x y, hset (hset h n x) n y = hset h n y.
Proof. induction h as [|b r IH]; intros [|n] x y; cbn [hset]; auto. f_equal. apply IH. Qed.

Lemma hset_perm_cons h : forall n a x, nth_error h n = Some a -> Permutation (x :: h) (a :: hset h n x).
Proof.
  induction h as [|b r IH]; intros [|n] a x E; cbn [hset nth_error] in *; try discriminate.
  - injection E as ->. apply perm_swap.
  - etransitivity; [apply perm_swap|]. etransitivity; [apply perm_skip, (IH n a x E)|]. apply perm_swap.
Qed.

(* moving the hole: (h with v copied to pos, x at pp) is (h with x at pos) when h[pp] = v *)
Lemma hset_swap_perm h pos pp v x : pos < length h -> nth_error h pp = Some v -> pp <> pos ->
  Permutation (hset (hset h pos v) pp x) (hset h pos x).
Proof.
  intros L Ev N. destruct (nth_error_in_range h pos L) as [s Es].
  set (h1 := hset h pos v).
  assert (A : Permutation (x :: h) (s :: hset h pos x)) by (apply hset_perm_cons, Es).
  assert (B : Permutation (v :: h) (s :: h1)) by (apply hset_perm_cons, Es).
  assert (E1 : nth_error h1 pp = Some v).
  { unfold h1. rewrite nth_error_hset by exact L. destruct (pp =? pos) eqn:E; [lia|exact Ev]. }
  assert (C : Permutation (x :: h1) (v :: hset h1 pp x)) by (apply hset_perm_cons, E1).
  apply Permutation_cons_inv with (a := s). apply Permutation_cons_inv with (a := v).
  etransitivity; [apply perm_swap|].
  etransitivity; [apply perm_skip, Permutation_sym, C|].
  etransitivity; [apply perm_swap|].
  etransitivity; [apply perm_skip, Permutation_sym, B|].
  etransitivity; [apply perm_swap|].
  apply perm_skip, A.
Qed.

(* ================================================================ the heap invariant *)
Definition heap_inv (h : list entry) : Prop :=
  forall i a b, 0 < i -> nth_error h i = Some a -> nth_error h (parent i) = Some b -> entry_lt a b = false.

Lemma heap_inv_nil : heap_inv [].
Proof. intros [|i] a b _ E; discriminate. Qed.

(* the root is a least element *)
Lemma heap_root_least h m : heap_inv h -> nth_error h 0 = Some m ->
  forall i e, nth_error h i = Some e -> entry_lt e m = false.
Proof.
  intros H E0 i. induction i as [i IH] using lt_wf_ind. intros e Ei.
  destruct (Nat.eq_dec i 0) as [->|Ni].
  - rewrite E0 in Ei. injection Ei as ->. apply entry_lt_irrefl.
  - assert (Lp : parent i < i) by lia.
    destruct (nth_error_in_range h (parent i)) as [b Eb]; [apply nth_error_lt in Ei; lia|].
    pose proof (IH _ Lp b Eb) as H1.
    pose proof (H i e b ltac:(lia) Ei Eb) as H2. ord.
Qed.

(* ================================================================ _siftdown *)
(* the loop ends before the fuel does, never indexes out of range, and only moves the hole *)
Lemma siftdown_loop_done : forall fuel h pos x, pos < fuel -> pos < length h ->
  exists h', siftdown_loop fuel h 0 pos x = Done h' /\ Permutation h' (hset h pos x).
Proof.
  induction fuel as [|f IH]; intros h pos x Lf L; [lia|].
  cbn [siftdown_loop]. destruct (0 <? pos) eqn:E0.
  - apply Nat.ltb_lt in E0.
    destruct (nth_error_in_range h (parent pos)) as [p Ep]; [lia|]. rewrite Ep.
    destruct (entry_lt x p) eqn:Lx.
    + destruct (IH (hset h pos p) (parent pos) x) as (h' & E & P); [lia|rewrite hset_length; lia|].
      exists h'. split; [exact E|]. etransitivity; [exact P|].
      apply hset_swap_perm; [exact L|exact Ep|lia].
    + eexists; split; reflexivity.
  - eexists; split; reflexivity.
Qed.

(* the loop invariant: every edge is in order except the one from the hole to its parent; the item fits
   above the hole's children; the hole's children fit below the hole's parent *)
Definition sd_inv (h : list entry) (pos : nat) (x : entry) : Prop :=
  (forall i a b, 0 < i -> i <> pos -> nth_error h i = Some a -> nth_error h (parent i) = Some b ->
                 entry_lt a b = false) /\
  (forall c a, 0 < c -> parent c = pos -> nth_error h c = Some a -> entry_lt a x = false) /\
  (forall c a b, 0 < c -> parent c = pos -> 0 < pos -> nth_error h c = Some a ->
                 nth_error h (parent pos) = Some b -> entry_lt a b = false).

Lemma sd_step h pos x p : pos < length h -> 0 < pos -> sd_inv h pos x ->
  nth_error h (parent pos) = Some p -> entry_lt x p = true -> sd_inv (hset h pos p) (parent pos) x.
Proof.
  intros L P0 (I1 & I2 & I3) Ep Lx. split; [|split].
  - intros i a b Hi Ni Ea Eb. rewrite nth_error_hset in Ea, Eb by exact L.
    destruct (i =? pos) eqn:E1; destruct (parent i =? pos) eqn:E2.
    + lia.
    + apply Nat.eqb_eq in E1. subst i. rewrite Ep in Eb. injection Ea as <-. injection Eb as <-.
      apply entry_lt_irrefl.
    + injection Eb as <-. apply Nat.eqb_eq in E2. eapply (I3 i a p); eauto.
    + apply Nat.eqb_neq in E1. eapply I1; eauto.
  - intros c a Hc Pc Ea. rewrite nth_error_hset in Ea by exact L.
    destruct (c =? pos) eqn:E1.
    + injection Ea as <-. ord.
    + apply Nat.eqb_neq in E1. rewrite <- Pc in Ep. pose proof (I1 c a p Hc E1 Ea Ep). ord.
  - intros c a b Hc Pc Pp Ea Eb. rewrite nth_error_hset in Ea, Eb by exact L.
    destruct (parent (parent pos) =? pos) eqn:E2; [lia|].
    assert (Hpb : entry_lt p b = false) by (apply (I1 (parent pos) p b); auto; lia).
    destruct (c =? pos) eqn:E1.
    + injection Ea as <-. exact Hpb.
    + apply Nat.eqb_neq in E1. rewrite <- Pc in Ep. pose proof (I1 c a p Hc E1 Ea Ep). ord.
Qed.

Lemma sd_final h pos x : pos < length h -> sd_inv h pos x ->
  (pos = 0 \/ exists p, nth_error h (parent pos) = Some p /\ entry_lt x p = false) ->
  heap_inv (hset h pos x).
Proof.
  intros L (I1 & I2 & I3) Hx i a b Hi Ea Eb. rewrite nth_error_hset in Ea, Eb by exact L.
  destruct (i =? pos) eqn:E1; destruct (parent i =? pos) eqn:E2.
  - lia.
  - apply Nat.eqb_eq in E1. subst i. injection Ea as <-.
    destruct Hx as [->|(p & Ep & Lp)]; [lia|]. rewrite Ep in Eb. injection Eb as <-. exact Lp.
  - injection Eb as <-. apply Nat.eqb_eq in E2. eapply I2; eauto.
  - apply Nat.eqb_neq in E1. eapply I1; eauto.
Qed.

Lemma siftdown_loop_inv : forall fuel h pos x h', pos < length h -> sd_inv h pos x ->
  siftdown_loop fuel h 0 pos x = Done h' -> heap_inv h'.
Proof.
  induction fuel as [|f IH]; intros h pos x h' L I H; [discriminate|].
  cbn [siftdown_loop] in H. destruct (0 <? pos) eqn:E0.
  - apply Nat.ltb_lt in E0. destruct (nth_error h (parent pos)) as [p|] eqn:Ep; [|discriminate].
    destruct (entry_lt x p) eqn:Lx.
    + apply IH in H; [exact H|rewrite hset_length; lia|]. apply sd_step; assumption.
    + injection H as <-. apply sd_final; [exact L|exact I|]. right. eauto.
  - apply Nat.ltb_ge in E0. injection H as <-. apply sd_final; [exact L|exact I|]. left. lia.
Qed.

(* _siftdown(heap, 0, pos) *)
Lemma siftdown_done h pos : pos < length h -> exists h', siftdown h 0 pos = Done h' /\ Permutation h' h.
Proof.
  intros L. unfold siftdown. destruct (nth_error_in_range h pos L) as [x Ex]. rewrite Ex.
  destruct (siftdown_loop_done (length h) h pos x L L) as (h' & E & P).
  exists h'. split; [exact E|]. rewrite (hset_same _ _ _ Ex) in P. exact P.
Qed.

Lemma siftdown_inv h pos x h' : nth_error h pos = Some x -> sd_inv h pos x ->
  siftdown h 0 pos = Done h' -> heap_inv h'.
Proof.
  intros Ex I H. unfold siftdown in H. rewrite Ex in H.
  eapply siftdown_loop_inv; [|exact I|exact H]. eapply nth_error_lt, Ex.
Qed.

(* ================================================================ heappush *)
Lemma nth_error_snoc_last {A} (l : list A) x : nth_error (l ++ [x]) (length l) = Some x.
Proof. rewrite nth_error_app2 by lia. rewrite Nat.sub_diag. reflexivity. Qed.

Lemma heappush_res_done h e : exists h', heappush_res h e = Done h' /\ Permutation h' (e :: h).
Proof.
  unfold heappush_res.
  destruct (siftdown_done (h ++ [e]) (length (h ++ [e]) - 1)) as (h' & E & P);
    [rewrite app_length; cbn [length]; lia|].
  exists h'. split; [exact E|]. etransitivity; [exact P|]. apply Permutation_sym, Permutation_cons_append.
Qed.

Lemma heappush_eq h e h' : heappush_res h e = Done h' -> heappush h e = h'.
Proof. unfold heappush. intros ->. reflexivity. Qed.

Lemma heappush_perm h e : Permutation (heappush h e) (e :: h).
Proof. destruct (heappush_res_done h e) as (h' & E & P). rewrite (heappush_eq _ _ _ E). exact P. Qed.

Lemma heappush_inv h e : heap_inv h -> heap_inv (heappush h e).
Proof.
  intros H. destruct (heappush_res_done h e) as (h' & E & _). rewrite (heappush_eq _ _ _ E).
  unfold heappush_res in E.
  assert (El : length (h ++ [e]) - 1 = length h) by (rewrite app_length; cbn [length]; lia).
  rewrite El in E.
  eapply siftdown_inv; [apply nth_error_snoc_last| |exact E].
  split; [|split].
  - intros i a b Hi Ni Ea Eb.
    assert (Li : i < length h) by (apply nth_error_lt in Ea; rewrite app_length in Ea; cbn [length] in Ea; lia).
    rewrite nth_error_app1 in Ea, Eb by lia. eapply H; eauto.
  - intros c a Hc Pc Ea. apply nth_error_lt in Ea. rewrite app_length in Ea. cbn [length] in Ea. lia.
  - intros c a b Hc Pc _ Ea _. apply nth_error_lt in Ea. rewrite app_length in Ea. cbn [length] in Ea. lia.
Qed.

(* ================================================================ _siftup: the loop *)
(* "set childpos to index of smaller child" *)
Definition smaller_of (h : list entry) (pos endpos : nat) : hres nat :=
  if (2 * pos + 1 + 1 <? endpos) then
    match nth_error h (2 * pos + 1), nth_error h (2 * pos + 1 + 1) with
    | Some l, Some r => Done (if negb (entry_lt l r) then 2 * pos + 1 + 1 else 2 * pos + 1)
    | _, _ => IndexError
    end
  else Done (2 * pos + 1).

Lemma siftup_loop_S f h pos endpos :
  siftup_loop (S f) h pos endpos =
  if (2 * pos + 1 <? endpos) then
    match smaller_of h pos endpos with
    | Done c => match nth_error h c with
                | None => IndexError
                | Some child => siftup_loop f (hset h pos child) c endpos
                end
    | IndexError => IndexError
    | OutOfFuel => OutOfFuel
    end
  else Done (h, pos).
Proof. reflexivity. Qed.

Lemma smaller_of_done h pos : 2 * pos + 1 < length h ->
  exists c cv, smaller_of h pos (length h) = Done c /\ nth_error h c = Some cv /\
    (c = 2 * pos + 1 \/ c = 2 * pos + 2) /\
    (forall s a, s = 2 * pos + 1 \/ s = 2 * pos + 2 -> nth_error h s = Some a -> entry_lt a cv = false).
Proof.
  intros L. unfold smaller_of. destruct (nth_error_in_range h (2 * pos + 1) L) as [l El].
  destruct (2 * pos + 1 + 1 <? length h) eqn:E.
  - apply Nat.ltb_lt in E. destruct (nth_error_in_range h (2 * pos + 1 + 1) E) as [r Er].
    rewrite El, Er. destruct (entry_lt l r) eqn:Llr; cbn [negb].
    + exists (2 * pos + 1), l. split; [reflexivity|]. split; [exact El|]. split; [left; reflexivity|].
      intros s a [->| ->] Ea.
      * rewrite El in Ea. injection Ea as <-. apply entry_lt_irrefl.
      * replace (2 * pos + 2) with (2 * pos + 1 + 1) in Ea by lia. rewrite Er in Ea. injection Ea as <-. ord.
    + exists (2 * pos + 1 + 1), r. split; [reflexivity|]. split; [exact Er|]. split; [right; lia|].
      intros s a [->| ->] Ea.
      * rewrite El in Ea. injection Ea as <-. exact Llr.
      * replace (2 * pos + 2) with (2 * pos + 1 + 1) in Ea by lia. rewrite Er in Ea. injection Ea as <-.
        apply entry_lt_irrefl.
  - apply Nat.ltb_ge in E. exists (2 * pos + 1), l. split; [reflexivity|]. split; [exact El|].
    split; [left; reflexivity|]. intros s a [->| ->] Ea.
    + rewrite El in Ea. injection Ea as <-. apply entry_lt_irrefl.
    + apply nth_error_lt in Ea. lia.
Qed.

(* the loop ends before the fuel does, never indexes out of range, ends at a leaf, only moves the hole *)
Lemma siftup_loop_done : forall fuel h pos x, pos < length h -> length h <= pos + fuel ->
  exists h' p, siftup_loop fuel h pos (length h) = Done (h', p) /\ p < length h /\ length h' = length h /\
    length h <= 2 * p + 1 /\ Permutation (hset h' p x) (hset h pos x).
Proof.
  induction fuel as [|f IH]; intros h pos x L Lf; [lia|].
  rewrite siftup_loop_S. destruct (2 * pos + 1 <? length h) eqn:E.
  - apply Nat.ltb_lt in E. destruct (smaller_of_done h pos E) as (c & cv & Es & Ec & Hc & _).
    rewrite Es, Ec.
    assert (Lc : c < length h) by (eapply nth_error_lt, Ec).
    destruct (IH (hset h pos cv) c x) as (h' & p & E1 & Lp & Ll & Leaf & P);
      [rewrite hset_length; exact Lc|rewrite hset_length; lia|].
    rewrite hset_length in *. exists h', p. split; [exact E1|]. repeat split; try assumption.
    etransitivity; [exact P|]. apply hset_swap_perm; [exact L|exact Ec|lia].
  - apply Nat.ltb_ge in E. exists h, pos. repeat split; auto.
Qed.

(* the loop invariant: every edge is in order except those from the hole's children to the hole;
   the hole's children fit below the hole's parent *)
Definition su_inv (h : list entry) (pos : nat) : Prop :=
  (forall i a b, 0 < i -> parent i <> pos -> nth_error h i = Some a -> nth_error h (parent i) = Some b ->
                 entry_lt a b = false) /\
  (forall c a b, 0 < c -> parent c = pos -> 0 < pos -> nth_error h c = Some a ->
                 nth_error h (parent pos) = Some b -> entry_lt a b = false).

Lemma su_step h pos c cv : pos < length h -> su_inv h pos -> nth_error h c = Some cv ->
  (c = 2 * pos + 1 \/ c = 2 * pos + 2) ->
  (forall s a, s = 2 * pos + 1 \/ s = 2 * pos + 2 -> nth_error h s = Some a -> entry_lt a cv = false) ->
  su_inv (hset h pos cv) c.
Proof.
  intros L (J1 & J3) Ec Hc Hs. split.
  - intros i a b Hi Ni Ea Eb. rewrite nth_error_hset in Ea, Eb by exact L.
    destruct (i =? pos) eqn:E1; destruct (parent i =? pos) eqn:E2.
    + lia.
    + apply Nat.eqb_eq in E1. subst i. injection Ea as <-. apply (J3 c cv b); auto; lia.
    + injection Eb as <-. apply (Hs i a); [lia|exact Ea].
    + apply Nat.eqb_neq in E2. eapply J1; eauto.
  - intros g a b Hg Pg Pc Ea Eb. rewrite nth_error_hset in Ea, Eb by exact L.
    destruct (parent c =? pos) eqn:E2; [|lia]. injection Eb as <-.
    destruct (g =? pos) eqn:E1; [lia|].
    apply (J1 g a cv); auto; [lia|]. rewrite Pg. exact Ec.
Qed.

Lemma siftup_loop_inv : forall fuel h pos h' p, pos < length h -> su_inv h pos ->
  siftup_loop fuel h pos (length h) = Done (h', p) -> su_inv h' p.
Proof.
  induction fuel as [|f IH]; intros h pos h' p L J H; [discriminate|].
  rewrite siftup_loop_S in H. destruct (2 * pos + 1 <? length h) eqn:E.
  - apply Nat.ltb_lt in E. destruct (smaller_of_done h pos E) as (c & cv & Es & Ec & Hc & Hs).
    rewrite Es, Ec in H.
    assert (Lc : c < length h) by (eapply nth_error_lt, Ec).
    rewrite <- (hset_length h pos cv) in H. apply IH in H; [exact H|rewrite hset_length; exact Lc|].
    apply su_step; assumption.
  - injection H as <- <-. exact J.
Qed.

(* at a leaf, putting the item into the hole gives what _siftdown expects *)
Lemma su_leaf_sd h p x : p < length h -> length h <= 2 * p + 1 -> su_inv h p -> sd_inv (hset h p x) p x.
Proof.
  intros L Leaf (J1 & J3). split; [|split].
  - intros i a b Hi Ni Ea Eb. rewrite nth_error_hset in Ea, Eb by exact L.
    destruct (i =? p) eqn:E1; [lia|]. destruct (parent i =? p) eqn:E2.
    + apply nth_error_lt in Ea. lia.
    + apply Nat.eqb_neq in E2. eapply J1; eauto.
  - intros c a Hc Pc Ea. apply nth_error_lt in Ea. rewrite hset_length in Ea. lia.
  - intros c a b Hc Pc _ Ea _. apply nth_error_lt in Ea. rewrite hset_length in Ea. lia.
Qed.

(* ================================================================ _siftup(heap, 0) *)
Lemma siftup_done h : h <> [] -> exists h', siftup h 0 = Done h' /\ Permutation h' h.
Proof.
  intros N. assert (L : 0 < length h) by (destruct h; [congruence|cbn [length]; lia]).
  unfold siftup. destruct (nth_error_in_range h 0 L) as [x Ex]. rewrite Ex.
  destruct (siftup_loop_done (length h) h 0 x L ltac:(lia)) as (h1 & p & E1 & Lp & Ll & _ & P).
  rewrite E1. rewrite (hset_same _ _ _ Ex) in P.
  destruct (siftdown_done (hset h1 p x) p) as (h2 & E2 & P2); [rewrite hset_length; lia|].
  exists h2. split; [exact E2|]. etransitivity; [exact P2|exact P].
Qed.

Lemma siftup_inv h h' : su_inv h 0 -> siftup h 0 = Done h' -> heap_inv h'.
Proof.
  intros J H. unfold siftup in H. destruct (nth_error h 0) as [x|] eqn:Ex; [|discriminate].
  assert (L : 0 < length h) by (eapply nth_error_lt, Ex).
  destruct (siftup_loop_done (length h) h 0 x L ltac:(lia)) as (h1 & p & E1 & Lp & Ll & Leaf & _).
  rewrite E1 in H. apply siftup_loop_inv in E1; [|exact L|exact J].
  eapply (siftdown_inv _ p x); [| |exact H].
  - rewrite nth_error_hset by lia. rewrite Nat.eqb_refl. reflexivity.
  - apply su_leaf_sd; [lia|lia|exact E1].
Qed.

(* ================================================================ heappop *)
Lemma heappop_res_cases h :
  (h = [] /\ heappop_res h = IndexError) \/
  (exists l, h = [l] /\ heappop_res h = Done (l, [])) \/
  (exists r0 t l h3, h = r0 :: t ++ [l] /\ siftup (l :: t) 0 = Done h3 /\ Permutation h3 (l :: t) /\
                     heappop_res h = Done (r0, h3)).
Proof.
  destruct h as [|e0 t0]; [left; split; reflexivity|right].
  unfold heappop_res.
  assert (A : e0 :: t0 = removelast (e0 :: t0) ++ [last (e0 :: t0) e0]) by (apply app_removelast_last; discriminate).
  set (l := last (e0 :: t0) e0) in *. set (h1 := removelast (e0 :: t0)) in *. clearbody l h1.
  destruct h1 as [|r0 t].
  - left. exists l. split; [exact A|reflexivity].
  - right. cbn [hset]. destruct (siftup_done (l :: t)) as (h3 & E & P); [discriminate|].
    exists r0, t, l, h3. rewrite E. repeat split; assumption.
Qed.

Lemma heappop_none h : heappop h = None <-> h = [].
Proof.
  unfold heappop.
  destruct (heappop_res_cases h) as [(-> & E)|[(l & -> & E)|(r0 & t & l & h3 & -> & _ & _ & E)]]; rewrite E;
    split; intros H; try reflexivity; discriminate.
Qed.

Lemma heappop_res_done h : h <> [] -> exists r, heappop_res h = Done r.
Proof.
  intros N. destruct (heappop_res_cases h) as [(-> & _)|[(l & _ & E)|(r0 & t & l & h3 & _ & _ & _ & E)]];
    [congruence|eauto|eauto].
Qed.

Lemma heappop_root h m h' : heappop h = Some (m, h') -> nth_error h 0 = Some m.
Proof.
  unfold heappop.
  destruct (heappop_res_cases h) as [(-> & E)|[(l & -> & E)|(r0 & t & l & h3 & -> & _ & _ & E)]]; rewrite E;
    intros H; try discriminate; injection H as <- <-; reflexivity.
Qed.

Lemma heappop_perm h m h' : heappop h = Some (m, h') -> Permutation h (m :: h').
Proof.
  unfold heappop.
  destruct (heappop_res_cases h) as [(-> & E)|[(l & -> & E)|(r0 & t & l & h3 & -> & _ & P & E)]]; rewrite E;
    intros H; try discriminate; injection H as <- <-; [reflexivity|].
  apply perm_skip. etransitivity; [apply Permutation_sym, Permutation_cons_append|]. apply Permutation_sym, P.
Qed.

Lemma heappop_inv h m h' : heap_inv h -> heappop h = Some (m, h') -> heap_inv h'.
Proof.
  intros Hh. unfold heappop.
  destruct (heappop_res_cases h) as [(-> & E)|[(l & -> & E)|(r0 & t & l & h3 & -> & Es & _ & E)]]; rewrite E;
    intros H; try discriminate; injection H as <- <-; [apply heap_inv_nil|].
  eapply siftup_inv; [|exact Es]. split; [|intros; lia].
  intros i a b Hi Ni Ea Eb.
  destruct i as [|i]; [lia|]. destruct (parent (S i)) as [|j] eqn:Ej; [lia|].
  cbn [nth_error] in Ea, Eb.
  apply (Hh (S i) a b); [lia| |rewrite Ej]; cbn [nth_error];
    rewrite nth_error_app1; eauto using nth_error_lt.
Qed.

Lemma heappop_min h m h' : heap_inv h -> heappop h = Some (m, h') ->
  forall e, In e h' -> entry_lt e m = false.
Proof.
  intros Hh H e He.
  assert (Ih : In e h) by (eapply Permutation_in; [apply Permutation_sym, heappop_perm, H|right; exact He]).
  apply In_nth_error in Ih. destruct Ih as [i Ei].
  eapply heap_root_least; [exact Hh|eapply heappop_root, H|exact Ei].
Qed.

(* ================================================================ refinement of the abstract queue *)
Lemma heap_refines h q m h' : heap_inv h -> Permutation h (eq_entries q) -> qwf q ->
  heappop h = Some (m, h') ->
  exists q', q_pop q = Some (m, q') /\ Permutation h' (eq_entries q').
Proof.
  intros Hh P Wq H.
  destruct (q_pop q) as [[m' q']|] eqn:Eq.
  2:{ apply q_pop_none in Eq. rewrite Eq in P. apply Permutation_sym, Permutation_nil in P. subst h.
      assert (E : heappop [] = None) by (apply heappop_none; reflexivity). congruence. }
  destruct (q_pop_sorted _ _ _ Wq Eq) as (Es & Pq & _ & _).
  pose proof (heappop_perm _ _ _ H) as Ph.
  assert (Em : m' = m).
  { (* m' is the head of the sorted content: strictly below everything else; m is below everything in h' *)
    assert (Im : In m (m' :: eq_entries q')).
    { eapply Permutation_in; [exact Pq|]. eapply Permutation_in; [exact P|].
      eapply Permutation_in; [apply Permutation_sym, Ph|left; reflexivity]. }
    destruct Im as [Im|Im]; [exact Im|exfalso].
    assert (Lt : entry_lt m' m = true).
    { assert (S : esorted (m' :: esort (eq_entries q'))) by (rewrite <- Es; apply esort_sorted, Wq).
      destruct S as [F _]. rewrite Forall_forall in F. apply F.
      eapply Permutation_in; [apply esort_perm|exact Im]. }
    assert (Ih : In m' (m :: h')).
    { eapply Permutation_in; [exact Ph|]. eapply Permutation_in; [apply Permutation_sym, P|].
      eapply Permutation_in; [apply Permutation_sym, Pq|left; reflexivity]. }
    destruct Ih as [Ih|Ih].
    - subst m'. rewrite entry_lt_irrefl in Lt. discriminate.
    - rewrite (heappop_min _ _ _ Hh H m' Ih) in Lt. discriminate. }
  subst m'. exists q'. split; [reflexivity|].
  apply Permutation_cons_inv with (a := m).
  etransitivity; [apply Permutation_sym, Ph|]. etransitivity; [exact P|exact Pq].
Qed.

Lemma heap_refines_none h q : Permutation h (eq_entries q) -> (heappop h = None <-> q_pop q = None).
Proof.
  intros P. rewrite heappop_none. split.
  - intros ->. apply Permutation_nil in P. unfold q_pop. rewrite P. reflexivity.
  - intros E. apply q_pop_none in E. rewrite E in P. apply Permutation_sym, Permutation_nil in P. exact P.
Qed.

Lemma heap_refines_put h q s : Permutation h (eq_entries q) ->
  Permutation (heappush h (sg_prio s, eq_counter q, s)) (eq_entries (q_put q s)).
Proof.
  intros P. etransitivity; [apply heappush_perm|]. unfold q_put. cbn [eq_entries set].
  etransitivity; [apply perm_skip, P|]. apply Permutation_cons_append.
Qed.

(* every sequence of put / get: the same entries come out, in the same order *)
Lemma run_refines : forall ops h q, heap_inv h -> Permutation h (eq_entries q) -> qwf q ->
  run_heap ops h (eq_counter q) = run_abs ops q.
Proof.
  induction ops as [|[s|] r IH]; intros h q Hh P Wq; cbn [run_heap run_abs]; [reflexivity| |].
  - change (S (eq_counter q)) with (eq_counter (q_put q s)).
    apply IH; [apply heappush_inv, Hh|apply heap_refines_put, P|apply q_put_qwf, Wq].
  - destruct (heappop h) as [[m h']|] eqn:E.
    + destruct (heap_refines _ _ _ _ Hh P Wq E) as (q' & Eq & P').
      rewrite Eq. f_equal.
      destruct (q_pop_sorted _ _ _ Wq Eq) as (_ & _ & Ec & _). rewrite <- Ec.
      apply IH; [eapply heappop_inv; eauto|exact P'|eapply q_pop_qwf; eauto].
    + apply (heap_refines_none _ _ P) in E. rewrite E. f_equal. apply IH; assumption.
Qed.

Lemma heapq_sequence_refines ops : run_heap ops [] 0 = run_abs ops empty_queue.
Proof. apply (run_refines ops [] empty_queue); [apply heap_inv_nil|constructor|apply qwf_empty]. Qed.

(* every heap reachable from [] by heappush / heappop satisfies the invariant *)
Inductive heap_reachable : list entry -> Prop :=
| hr_nil : heap_reachable []
| hr_push h e : heap_reachable h -> heap_reachable (heappush h e)
| hr_pop h m h' : heap_reachable h -> heappop h = Some (m, h') -> heap_reachable h'.

Lemma heap_reachable_inv h : heap_reachable h -> heap_inv h.
Proof.
  induction 1 as [|h e _ IH|h m h' _ IH E]; [apply heap_inv_nil|apply heappush_inv, IH|eapply heappop_inv; eauto].
Qed.

(* ================================================================ termination / no IndexError, as used *)
Lemma heappush_res_ok h e : heappush_res h e = Done (heappush h e).
Proof. destruct (heappush_res_done h e) as (h' & E & _). rewrite (heappush_eq _ _ _ E). exact E. Qed.

Lemma heappop_res_ok h : h <> [] -> exists m h', heappop_res h = Done (m, h') /\ heappop h = Some (m, h').
Proof.
  intros N. destruct (heappop_res_done h N) as [[m h'] E]. exists m, h'. split; [exact E|].
  unfold heappop. rewrite E. reflexivity.
Qed.

Lemma siftdown_fuel_ok h pos x : pos < length h ->
  siftdown_loop (length h) h 0 pos x <> OutOfFuel /\ siftdown_loop (length h) h 0 pos x <> IndexError.
Proof.
  intros L. destruct (siftdown_loop_done (length h) h pos x L L) as (h' & E & _). rewrite E.
  split; discriminate.
Qed.

Lemma siftup_fuel_ok h : h <> [] ->
  siftup_loop (length h) h 0 (length h) <> OutOfFuel /\ siftup_loop (length h) h 0 (length h) <> IndexError /\
  siftup h 0 <> OutOfFuel /\ siftup h 0 <> IndexError.
Proof.
  intros N. assert (L : 0 < length h) by (destruct h; [congruence|cbn [length]; lia]).
  destruct (nth_error_in_range h 0 L) as [x Ex].
  destruct (siftup_loop_done (length h) h 0 x L ltac:(lia)) as (h1 & p & E1 & _).
  destruct (siftup_done h N) as (h2 & E2 & _). rewrite E1, E2. repeat split; discriminate.
Qed.
