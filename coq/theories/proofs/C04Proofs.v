(* C04Proofs.v -- the screen shown is always the top of an honest stack.
   The heavy lifting is proofs/ScreenLink.v ([app_accepted]); here: the statement for [chk_C04], the pure
   facts about the ideal stack, what acceptance means for a drawn screen, the examples and the
   non-vacuity of the monitor. *)
From SL Require Import Tac.
From RecordUpdate Require Import RecordUpdate.
From SL Require Import PyInt LoopSem ScreenSem ScreenMon proofs.ScreenLink.
Import ListNotations.

(* ---------------------------------------------------------------- every session is accepted *)
Theorem C04_honest_stack_proof specs specl typed quit run_empty fuel acts :
  failing_setup_plain specs ->
  (forall n, specs n = nth n specl default_spec) ->
  sok chk_C04 typed (rev (trace (snd (app_run_all specs specl typed quit run_empty fuel acts)))) = true.
Proof.
  intros Hpl _. apply acc_sok. eapply acc_weaken; [|apply (app_accepted false); [exact Hpl | discriminate]].
  intros w e H. unfold chkb in H. apply andb_true_iff in H. exact (proj1 H).
Qed.

(* ---------------------------------------------------------------- the ideal stack: cons / append-at-bottom / tail *)
Definition mk_entry (i scr args m : nat) : entry :=
  {| en_id := i; en_scr := scr; en_args := args; en_modal := (m =? 1)%nat |}.

Lemma sw_stack_core w : sw_stack w = c_stack (core w).
Proof. reflexivity. Qed.

Lemma ideal_append w i scr args m t :
  sw_stack (sworld_step w (EUser T_STACK [K_APPEND; i; scr; args; m] t)) = mk_entry i scr args m :: sw_stack w.
Proof. rewrite sw_stack_core, core_step. reflexivity. Qed.

Lemma ideal_add_first w i scr args m t :
  sw_stack (sworld_step w (EUser T_STACK [K_ADD_FIRST; i; scr; args; m] t)) = sw_stack w ++ [mk_entry i scr args m].
Proof. rewrite sw_stack_core, core_step. reflexivity. Qed.

Lemma ideal_pop w i scr args m t :
  sw_stack (sworld_step w (EUser T_STACK [K_POP; i; scr; args; m] t)) = tl (sw_stack w).
Proof.
  rewrite sw_stack_core, core_step. unfold cstep, cuser. cbn.
  destruct (sw_expect w) as [|[[]| |] r]; reflexivity.
Qed.

(* nothing else touches the ideal stack *)
Lemma ideal_other w e :
  match e with EUser tag _ _ => tag <> T_STACK | _ => True end -> sw_stack (sworld_step w e) = sw_stack w.
Proof.
  intros H. rewrite sw_stack_core, core_step. destruct e; try reflexivity.
  - cbn [cstep]. destruct (hid =? H_RENDER)%nat; reflexivity.
  - unfold cstep, cuser. apply Nat.eqb_neq in H.
    destruct (tag =? T_OP)%nat; [reflexivity|]. rewrite H.
    destruct (tag =? T_SETUP)%nat; [destruct (nth0 args 3 =? 1)%nat; reflexivity|].
    destruct (tag =? T_REFRESH)%nat; [reflexivity|].
    destruct (tag =? T_SHOW)%nat; [reflexivity|].
    destruct (tag =? T_CLOSED)%nat; [reflexivity|].
    destruct (tag =? T_SETUP_BEGIN)%nat; reflexivity.
Qed.

(* so: the entries beneath the top change only by add_first, at the bottom *)
Lemma beneath_append w i scr args m t :
  tl (sw_stack (sworld_step w (EUser T_STACK [K_APPEND; i; scr; args; m] t))) = sw_stack w.
Proof. rewrite ideal_append. reflexivity. Qed.

Lemma beneath_add_first w i scr args m t : sw_stack w <> [] ->
  tl (sw_stack (sworld_step w (EUser T_STACK [K_ADD_FIRST; i; scr; args; m] t))) = tl (sw_stack w) ++ [mk_entry i scr args m].
Proof. intros H. rewrite ideal_add_first. destruct (sw_stack w); [congruence | reflexivity]. Qed.

Lemma top_add_first w i scr args m t : sw_stack w <> [] ->
  top_entry (sworld_step w (EUser T_STACK [K_ADD_FIRST; i; scr; args; m] t)) = top_entry w.
Proof. intros H. unfold top_entry. rewrite ideal_add_first. destruct (sw_stack w); [congruence | reflexivity]. Qed.

(* ---------------------------------------------------------------- what acceptance says about one event *)
Lemma srun_mon_app chk t1 : forall w i t2,
  srun_mon chk w (t1 ++ t2) i = None -> srun_mon chk (fold_left sworld_step t1 w) t2 (i + length t1) = None.
Proof.
  induction t1 as [|a t1 IH]; intros w i t2 H; cbn [app srun_mon fold_left length] in *.
  - now rewrite Nat.add_0_r.
  - destruct (chk w a); [|discriminate]. apply IH in H. now rewrite <- Nat.add_succ_comm.
Qed.

Lemma sok_event chk typed t1 e t2 :
  sok chk typed (t1 ++ e :: t2) = true -> chk (fold_left sworld_step t1 (sworld0 typed)) e = true.
Proof.
  unfold sok. destruct (srun_mon chk (sworld0 typed) (t1 ++ e :: t2) 0) eqn:E; [discriminate|]. intros _.
  apply srun_mon_app in E. cbn [srun_mon] in E.
  destruct (chk (fold_left sworld_step t1 (sworld0 typed)) e); [reflexivity | discriminate].
Qed.

(* in an accepted trace every draw is of the top entry of the ideal stack at that moment *)
Lemma accepted_show_top typed t1 i scr tx t2 :
  sok chk_C04 typed (t1 ++ EUser T_SHOW [i; scr] tx :: t2) = true ->
  exists e rest, sw_stack (fold_left sworld_step t1 (sworld0 typed)) = e :: rest /\ en_id e = i /\ en_scr e = scr.
Proof.
  intros H. apply sok_event in H. unfold chk_C04, top_entry in H.
  cbn [Nat.eqb T_SHOW T_STACK T_OP T_SETUP T_REFRESH T_SETUP_BEGIN orb negb andb nth0 nth] in H. rewrite orb_false_r in H.
  destruct (sw_stack (fold_left sworld_step t1 (sworld0 typed))) as [|e rest]; [discriminate|].
  apply andb_true_iff in H as [H1 H2]. apply Nat.eqb_eq in H1, H2. eauto.
Qed.

(* a pop removes the ideal top, an append / add_first is the announced one *)
Lemma accepted_pop_top typed t1 i scr args m tx t2 :
  sok chk_C04 typed (t1 ++ EUser T_STACK [K_POP; i; scr; args; m] tx :: t2) = true ->
  exists e rest, sw_stack (fold_left sworld_step t1 (sworld0 typed)) = e :: rest /\ en_id e = i.
Proof.
  intros H. apply sok_event in H. unfold chk_C04, top_entry in H.
  cbn [Nat.eqb T_STACK nth0 nth K_POP K_APPEND K_ADD_FIRST] in H.
  destruct (sw_stack (fold_left sworld_step t1 (sworld0 typed))) as [|e rest]; [discriminate|].
  apply andb_true_iff in H as [H1 _]. apply Nat.eqb_eq in H1. eauto.
Qed.

(* ---------------------------------------------------------------- packaged statements for props/C04.v *)
Lemma ideal_stack_ops w i scr args m t :
  sw_stack (sworld_step w (EUser T_STACK [K_APPEND; i; scr; args; m] t)) = mk_entry i scr args m :: sw_stack w /\
  sw_stack (sworld_step w (EUser T_STACK [K_ADD_FIRST; i; scr; args; m] t)) = sw_stack w ++ [mk_entry i scr args m] /\
  sw_stack (sworld_step w (EUser T_STACK [K_POP; i; scr; args; m] t)) = tl (sw_stack w).
Proof. split; [apply ideal_append | split; [apply ideal_add_first | apply ideal_pop]]. Qed.

Lemma beneath_schedule w i scr args m t : sw_stack w <> [] ->
  tl (sw_stack (sworld_step w (EUser T_STACK [K_ADD_FIRST; i; scr; args; m] t))) = tl (sw_stack w) ++ [mk_entry i scr args m] /\
  top_entry (sworld_step w (EUser T_STACK [K_ADD_FIRST; i; scr; args; m] t)) = top_entry w.
Proof. intros. split; [apply beneath_add_first | apply top_add_first]; assumption. Qed.

Lemma stack_link specs specl typed quit run_empty fuel acts :
  failing_setup_plain specs ->
  Forall finished (fst (app_run_all specs specl typed quit run_empty fuel acts)) ->
  slink typed (snd (app_run_all specs specl typed quit run_empty fuel acts)).
Proof. intros. apply (app_slink false); [assumption | discriminate | assumption]. Qed.

Lemma exec_link typed specs Ps pf f c s o s' :
  failing_setup_plain specs ->
  is_prog c = false -> Inv typed false 0 Ps pf s ->
  exec (screen_code specs) f c s = (o, s') ->
  match o with
  | OFuel | OBlocked => acc_tr (chkb false) typed (trace s')
  | _ => Inv typed false 0 Ps pf s'
  end.
Proof.
  intros Hpl Hc HI E.
  pose proof (exec_inv typed false specs Hpl 0 ltac:(discriminate) Ps pf f c s o s' Hc HI E) as P.
  destruct o as [|x| |]; exact P.
Qed.

(* ---------------------------------------------------------------- examples *)
Local Open Scope N_scope.
Definition key (c : N) : str := [c].
(* a hub: 'p' pushes a modal dialog, 's' pushes the shy screen, 'q' closes *)
Definition ex_hub : screen_spec :=
  {| sc_setup := []; sc_refresh := []; sc_show := []; sc_closed := [SMark 1];
     sc_input := [(key 112, ([SPushModal 1 7], RRedraw)); (key 115, ([SPush 3 0], RProcessed)); (key 113, ([], RClose))];
     sc_input_default := ([], None); sc_prompt_none := false; sc_input_required := true;
     sc_no_separator := false; sc_skip_check := false; sc_pages := 0; sc_answer0 := AnsNoAttr; sc_custom := []; sc_setup_cmds := [] |}.
(* a dialog that replaces itself by a second one on 'r' *)
Definition ex_dialog : screen_spec :=
  {| sc_setup := []; sc_refresh := []; sc_show := []; sc_closed := [SMark 2];
     sc_input := [(key 114, ([SReplace 2 5], RProcessed))];
     sc_input_default := ([], None); sc_prompt_none := false; sc_input_required := true;
     sc_no_separator := false; sc_skip_check := false; sc_pages := 0; sc_answer0 := AnsNoAttr; sc_custom := []; sc_setup_cmds := [] |}.
(* the second dialog: 'c' (the global key) closes it *)
Definition ex_dialog2 : screen_spec :=
  {| sc_setup := []; sc_refresh := []; sc_show := []; sc_closed := [SMark 3];
     sc_input := []; sc_input_default := ([], None); sc_prompt_none := false; sc_input_required := true;
     sc_no_separator := true; sc_skip_check := false; sc_pages := 0; sc_answer0 := AnsNoAttr; sc_custom := []; sc_setup_cmds := [] |}.
(* a screen whose setup fails the first time *)
Definition ex_shy : screen_spec :=
  {| sc_setup := [false; true]; sc_refresh := []; sc_show := []; sc_closed := [];
     sc_input := []; sc_input_default := ([], None); sc_prompt_none := false; sc_input_required := true;
     sc_no_separator := false; sc_skip_check := false; sc_pages := 0; sc_answer0 := AnsNoAttr; sc_custom := []; sc_setup_cmds := [] |}.
Definition ex_specl : list screen_spec := [ex_hub; ex_dialog; ex_dialog2; ex_shy].
Definition ex_specs (n : nat) : screen_spec := nth n ex_specl default_spec.

(* the (entry id, screen) of every draw *)
Definition shows (t : list event) : list (nat * nat) :=
  flat_map (fun e => match e with
                     | EUser tag [i; s] _ => if (tag =? T_SHOW)%nat then [(i, s)] else []
                     | _ => [] end) t.

(* hub, 'p': modal dialog, 'r': replaced by the second dialog, 'c': closed, back to the hub, 'q': the end *)
Definition ex_typed1 : list (option str) := [Some (key 112); Some (key 114); Some (key 99); Some (key 113)].
Definition ex_acts1 : list saction := [SACmds [SSchedule 0 0]; SARun].
Definition ex_trace1 : list event :=
  rev (trace (snd (app_run_all ex_specs ex_specl ex_typed1 None false 400 ex_acts1))).

(* the shy screen is scheduled first (on top), its setup fails: discarded, the hub is drawn; 's' pushes it
   again, this time it is set up and drawn; 'c' closes it; 'q' *)
Definition ex_typed2 : list (option str) := [Some (key 115); Some (key 99); Some (key 113)].
Definition ex_acts2 : list saction := [SACmds [SSchedule 3 4; SSchedule 0 0]; SARun].
Definition ex_trace2 : list event :=
  rev (trace (snd (app_run_all ex_specs ex_specl ex_typed2 None false 400 ex_acts2))).

(* ---------------------------------------------------------------- the monitor is not vacuous *)
Local Close Scope N_scope.
(* two entries, the second pushed on top of the first; then the one beneath is drawn *)
Definition bad_show_beneath : list event :=
  [ETop; EUser T_OP [O_SCHEDULE; 0; 0] []; EUser T_STACK [K_ADD_FIRST; 0; 0; 0; 0] [];
   EUser T_OP [O_PUSH; 1; 0] []; EUser T_STACK [K_APPEND; 1; 1; 0; 0] [];
   EHandler H_RENDER 0 0; EUser T_SHOW [0; 0] []].
(* the same with the draw of the top entry is fine *)
Definition good_show_top : list event :=
  [ETop; EUser T_OP [O_SCHEDULE; 0; 0] []; EUser T_STACK [K_ADD_FIRST; 0; 0; 0; 0] [];
   EUser T_OP [O_PUSH; 1; 0] []; EUser T_STACK [K_APPEND; 1; 1; 0; 0] [];
   EHandler H_RENDER 0 0; EUser T_SHOW [1; 1] []].
(* a stack primitive nobody announced *)
Definition bad_unannounced_pop : list event :=
  [ETop; EUser T_OP [O_SCHEDULE; 0; 0] []; EUser T_STACK [K_ADD_FIRST; 0; 0; 0; 0] [];
   EUser T_STACK [K_POP; 0; 0; 0; 0] []].
(* a replace that does not inherit the modality of the entry it popped *)
Definition bad_replace_modality : list event :=
  [ETop; EUser T_OP [O_PUSH_MODAL; 0; 0] []; EUser T_STACK [K_APPEND; 0; 0; 0; 1] [];
   EUser T_OP [O_REPLACE; 1; 0] []; EUser T_STACK [K_POP; 0; 0; 0; 1] []; EUser T_STACK [K_APPEND; 1; 1; 0; 0] []].

(* ---------------------------------------------------------------- a setup() that pushes a screen and then reports failure *)
(* screen 0: `def setup(self, args): ScreenHandler.push_screen(screen1); return <result>`; screen 1 is plain.
   Screen 0 is scheduled and the application runs; the user types 'c' twice. *)
Definition fs_screen (setup : list bool) : screen_spec :=
  {| sc_setup := setup; sc_refresh := []; sc_show := []; sc_closed := [];
     sc_input := []; sc_input_default := ([], None); sc_prompt_none := false; sc_input_required := true;
     sc_no_separator := false; sc_skip_check := false; sc_pages := 0; sc_answer0 := AnsNoAttr; sc_custom := [];
     sc_setup_cmds := [SPush 1 0] |}.
Definition fs_specl (setup : list bool) : list screen_spec := [fs_screen setup; default_spec].
Definition fs_specs (setup : list bool) (n : nat) : screen_spec := nth n (fs_specl setup) default_spec.
Definition fs_typed : list (option str) := [Some [99%N]; Some [99%N]].
Definition fs_acts : list saction := [SACmds [SSchedule 0 0]; SARun].
Definition fs_fuel : nat := 300.

(* the setup reports failure: _process_screen pops "the entry whose setup failed" — but the top of the stack is now the
   screen that setup() pushed; that one is discarded, the failed entry stays (and is set up again on the next redraw,
   for ever).  The honest-stack acceptor rejects the pop *)
Example C04_failed_setup_after_push_refuted :
  sok chk_C04 fs_typed (rev (trace (snd (app_run_all (fs_specs [false]) (fs_specl [false]) fs_typed None false fs_fuel fs_acts)))) = false.
Proof. vm_compute; reflexivity. Qed.

(* the same session with a setup() that succeeds is accepted, runs to its end, and draws the pushed screen, then —
   after it is closed — the screen whose setup() pushed it *)
Example C04_setup_push_accepted :
  sok chk_C04 fs_typed (rev (trace (snd (app_run_all (fs_specs []) (fs_specl []) fs_typed None false fs_fuel fs_acts)))) = true /\
  fst (app_run_all (fs_specs []) (fs_specl []) fs_typed None false fs_fuel fs_acts) = [ONormal; ONormal] /\
  shows (rev (trace (snd (app_run_all (fs_specs []) (fs_specl []) fs_typed None false fs_fuel fs_acts)))) = [(1, 1); (0, 0)].
Proof. vm_compute. repeat split. Qed.
