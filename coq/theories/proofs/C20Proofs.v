(* C20Proofs.v — C20 "both event loops drive an application identically".
   The observable: the handler invocations (EHandler) and marks (EMark) of a session, in order, up to the
   moment the application quits (the first ERunReturn), and the outcomes of the top-level calls.
   Part 1 (this section): refutation witnesses, one per class of behavioural difference between
   LoopSem.exec (MainLoop) and GLibSem.gexec (GLibEventLoop over the validated GLib model).  The sessions are
   generated from corpus/glib/witnesses.py (--coq); checks/C20.py verifies that the text below is that output and
   replays every one of them on the two REAL loops (MainLoop, GLibEventLoop over libglib). *)
From SL Require Import Tac.
From Coq Require Import ZArith NArith List Bool.
From SL Require Import Sx LoopSem LoopProg LoopWire GLibSem drv.Drv_loop.
Import ListNotations.

Definition is_hm (e : event) : bool := match e with EHandler _ _ _ | EMark _ => true | _ => false end.
(* chronological trace up to and including the first ERunReturn *)
Fixpoint upto_quit (t : list event) : list event :=
  match t with [] => [] | ERunReturn :: _ => [ERunReturn] | e :: r => e :: upto_quit r end.
Definition hseq (t : list event) : list event := filter is_hm (upto_quit (rev t)).
(* the user-visible sequence: handler invocations, marks and the events of the layers above the loop (EUser: what the
   screen layer does — setup, refresh, show, prompt, input delivered to a screen, closed, modal return ...) *)
Definition is_vis (e : event) : bool := match e with EHandler _ _ _ | EMark _ | EUser _ _ _ => true | _ => false end.
Definition vseq (t : list event) : list event := filter is_vis (upto_quit (rev t)).
Definition is_user (e : event) : bool := match e with EUser _ _ _ => true | _ => false end.
Definition useq (t : list event) : list event := filter is_user (upto_quit (rev t)).

(* a session = handler bodies (handler id = position) + top-level actions; both loops start from their initial state *)
Definition main_obs (bodies : list (list cmd)) (acts : list action) (fuel : nat) : list outcome * list event :=
  let '(os, st) := run_session (handler_prog bodies) fuel (map top_of acts) (init_state []) in (os, hseq (trace st)).
Definition glib_obs_gen (mark_first : bool) (bodies : list (list cmd)) (acts : list action) (fuel : nat)
  : list outcome * list event :=
  let '(os, st) := grun_session mark_first (handler_prog bodies) fuel (map top_of acts) (ginit_state []) in
  (os, hseq (gtrace st)).
(* the code as it is: the ticket is marked after the handlers *)
Definition glib_obs := glib_obs_gen false.
Definition no_fuel (os : list outcome) : bool := forallb (fun o => match o with OFuel => false | _ => true end) os.

(* the two loops complete the session (neither interpreter ran out of fuel) and the observables differ *)
Definition differ (bodies : list (list cmd)) (acts : list action) (fuel : nat) : Prop :=
  no_fuel (fst (main_obs bodies acts fuel)) = true /\ no_fuel (fst (glib_obs bodies acts fuel)) = true /\
  main_obs bodies acts fuel <> glib_obs bodies acts fuel.
(* ... already in the handler/mark sequence, whatever the outcomes *)
Definition differ_handlers (bodies : list (list cmd)) (acts : list action) (fuel : nat) : Prop :=
  no_fuel (fst (main_obs bodies acts fuel)) = true /\ no_fuel (fst (glib_obs bodies acts fuel)) = true /\
  snd (main_obs bodies acts fuel) <> snd (glib_obs bodies acts fuel).

(* ---- witnesses (generated: corpus/glib/witnesses.py --coq) ---- *)
(* glib-raise-skips-handlers *)
Definition w_a_bodies : list (list cmd) := [[CmRaise]; [CmMark 1]].
Definition w_a_acts : list action := [ACmds [CmRegHandler 1 0 0; CmRegHandler 1 1 0; CmEnqueue 1 (0)%Z None]; ARun].
(* glib-exception-not-overtaking *)
Definition w_b_bodies : list (list cmd) := [[CmRaise]; [CmMark 1]; [CmMark 2]].
Definition w_b_acts : list action := [ACmds [CmRegHandler 1 0 0; CmRegHandler 2 1 0; CmRegHandler 0 2 0; CmEnqueue 1 (0)%Z None; CmEnqueue 2 (0)%Z None; CmEnqueue 3 (5)%Z None]; ARun].
(* glib-urgent-not-overtaking *)
Definition w_b2_bodies : list (list cmd) := [[CmEnqueue 3 (-5)%Z None]; [CmMark 1]; [CmMark 2]].
Definition w_b2_acts : list action := [ACmds [CmRegHandler 1 0 0; CmRegHandler 2 1 0; CmRegHandler 3 2 0; CmEnqueue 1 (0)%Z None; CmEnqueue 2 (0)%Z None]; ARun].
(* glib-exit-batch-continues *)
Definition w_c_bodies : list (list cmd) := [[CmExit]; [CmMark 1]].
Definition w_c_acts : list action := [ACmds [CmRegHandler 1 0 0; CmRegHandler 2 1 0; CmEnqueue 1 (0)%Z None; CmEnqueue 2 (0)%Z None]; ARun].
(* glib-exit-not-unwinding *)
Definition w_c2_bodies : list (list cmd) := [[CmNewLoop 2 (0)%Z None; CmMark 9]; [CmExit]].
Definition w_c2_acts : list action := [ACmds [CmRegHandler 1 0 0; CmRegHandler 2 1 0; CmEnqueue 1 (0)%Z None]; ARun].
(* glib-close-no-drain *)
Definition w_d_bodies : list (list cmd) := [[CmNewLoop 2 (0)%Z None; CmMark 9; CmExit]; [CmEnqueue 3 (0)%Z None; CmCloseLoop; CmMark 1]; [CmMark 2]].
Definition w_d_acts : list action := [ACmds [CmRegHandler 1 0 0; CmRegHandler 2 1 0; CmRegHandler 3 2 0; CmEnqueue 1 (0)%Z None]; ARun].
(* glib-handler-after-force-quit *)
Definition w_f_bodies : list (list cmd) := [[CmForceQuit]; [CmMark 1]].
Definition w_f_acts : list action := [ACmds [CmRegHandler 1 0 0; CmRegHandler 1 1 0; CmEnqueue 1 (0)%Z None]; ARun].
(* glib-after-force-quit *)
Definition w_f2_bodies : list (list cmd) := [[CmCloseLoop]; [CmMark 1]].
Definition w_f2_acts : list action := [ACmds [CmForceQuit]; ACmds [CmRegHandler 1 0 0; CmRegHandler 1 1 0; CmExt 1 (0)%Z None]; ARun].
(* glib-process-one-batch *)
Definition w_g_bodies : list (list cmd) := [[CmIfCount 1 [CmProcess None; CmMark 1] []]; [CmIfCount 1 [CmEnqueue 2 (0)%Z None] []]].
Definition w_g_acts : list action := [ACmds [CmRegHandler 1 0 0; CmRegHandler 2 1 0; CmEnqueue 1 (0)%Z None; CmEnqueue 2 (0)%Z None]; ARun].
(* glib-wait-not-stopped *)
Definition w_h_bodies : list (list cmd) := [[CmNewLoop 2 (0)%Z None; CmMark 9]; [CmCloseLoop; CmProcess (Some 3); CmMark 1]].
Definition w_h_acts : list action := [ACmds [CmRegHandler 1 0 0; CmRegHandler 2 1 0; CmEnqueue 1 (0)%Z None]; ARun].
(* glib-wait-finishes-batch *)
Definition w_h2_bodies : list (list cmd) := [[CmProcess (Some 2); CmMark 1]; [CmMark 2]; [CmMark 3]].
Definition w_h2_acts : list action := [ACmds [CmRegHandler 1 0 0; CmRegHandler 2 1 0; CmRegHandler 3 2 0; CmEnqueue 1 (0)%Z None; CmEnqueue 2 (0)%Z None; CmEnqueue 3 (0)%Z None]; ARun].
(* glib-handlers-bound-at-enqueue *)
Definition w_i_bodies : list (list cmd) := [[CmMark 1]].
Definition w_i_acts : list action := [ACmds [CmEnqueue 1 (0)%Z None; CmRegHandler 1 0 0]; ARun].
(* glib-close-last-level *)
Definition w_j_bodies : list (list cmd) := [[CmCloseLoop; CmMark 1]].
Definition w_j_acts : list action := [ACmds [CmRegHandler 1 0 0; CmEnqueue 1 (0)%Z None]; ARun].
(* glib-mark-after-handlers *)
Definition w_e_bodies : list (list cmd) := [[CmCloseLoop]; [CmRaise]; [CmCloseLoop; CmProcess (Some 1); CmMark 1]].
Definition w_e_acts : list action := [ACmds [CmRegHandler 1 0 0; CmRegHandler 1 1 0; CmRegHandler 2 2 0; CmEnqueue 1 (0)%Z None]; ACmds [CmNewLoop 2 (0)%Z None]; ARun].
(* scheduler scenario: replace_screen *)
Definition s_replace_screen_bodies : list (list cmd) := [[CmIfCount 1 [CmRegSource 100; CmRegSource 100; CmEnqueue 1 (0)%Z (Some 50)] [CmRegSource 101; CmRegSource 101; CmEnqueue 2 (0)%Z (Some 101)]]; [CmExit]].
(* scheduler scenario: switch_screen *)
Definition s_switch_screen_bodies : list (list cmd) := [[CmIfCount 1 [CmRegSource 100; CmRegSource 100; CmEnqueue 1 (0)%Z (Some 50)] [CmIfCount 2 [CmRegSource 101; CmRegSource 101; CmEnqueue 2 (0)%Z (Some 101)] [CmRegSource 100; CmEnqueue 2 (0)%Z (Some 100)]]]; [CmIfCount 1 [CmEnqueue 1 (0)%Z (Some 50)] [CmExit]]].
(* scheduler scenario: modal_in_render *)
Definition s_modal_in_render_bodies : list (list cmd) := [[CmIfCount 1 [CmRegSource 100; CmRegSource 100; CmMark 3; CmNewLoop 1 (0)%Z (Some 50); CmMark 4; CmEnqueue 2 (0)%Z (Some 100)] [CmRegSource 101; CmRegSource 101; CmEnqueue 2 (0)%Z (Some 101)]]; [CmIfCount 1 [CmCloseLoop] [CmExit]]].
(* scheduler scenario: modal_in_refresh *)
Definition s_modal_in_refresh_bodies : list (list cmd) := [[CmIfCount 1 [CmRegSource 100; CmRegSource 100; CmMark 1; CmNewLoop 1 (0)%Z (Some 50); CmMark 2; CmEnqueue 2 (0)%Z (Some 100)] [CmRegSource 101; CmRegSource 101; CmEnqueue 2 (0)%Z (Some 101)]]; [CmIfCount 1 [CmCloseLoop] [CmExit]]].
(* scheduler scenario: modal_refresh_and_render *)
Definition s_modal_refresh_and_render_bodies : list (list cmd) := [[CmIfCount 1 [CmRegSource 100; CmRegSource 100; CmMark 1; CmNewLoop 1 (0)%Z (Some 50); CmMark 2; CmMark 3; CmNewLoop 1 (0)%Z (Some 50); CmMark 4; CmEnqueue 2 (0)%Z (Some 100)] [CmIfCount 2 [CmRegSource 101; CmRegSource 101; CmEnqueue 2 (0)%Z (Some 101)] [CmRegSource 102; CmRegSource 102; CmEnqueue 2 (0)%Z (Some 102)]]]; [CmIfCount 1 [CmCloseLoop] [CmIfCount 2 [CmCloseLoop] [CmExit]]]].
(* scheduler scenario: modal_render_recursive *)
Definition s_modal_render_recursive_bodies : list (list cmd) := [[CmIfCount 1 [CmRegSource 100; CmRegSource 100; CmMark 3; CmNewLoop 1 (0)%Z (Some 50); CmMark 4; CmEnqueue 2 (0)%Z (Some 100)] [CmIfCount 2 [CmRegSource 101; CmRegSource 101; CmMark 3; CmNewLoop 1 (0)%Z (Some 50); CmMark 4; CmEnqueue 2 (0)%Z (Some 101)] [CmRegSource 102; CmRegSource 102; CmEnqueue 2 (0)%Z (Some 102)]]]; [CmIfCount 1 [CmCloseLoop] [CmIfCount 2 [CmCloseLoop] [CmExit]]]].
Definition s_acts : list action := [ACmds [CmRegHandler 1 0 0; CmRegHandler 2 1 0; CmEnqueue 1 (0)%Z (Some 50)]; ARun].
(* ---- end of generated part ---- *)

Ltac by_computation := unfold differ, differ_handlers; vm_compute; repeat split; discriminate.

(* (a) two handlers on one class, the first raises: GLib skips the second *)
Lemma refuted_raise_skips_handlers : differ_handlers w_a_bodies w_a_acts 200 /\
  main_obs w_a_bodies w_a_acts 200 = ([ONormal; OThrow XSysExit], [EHandler 0 0 0; EHandler 1 0 0; EMark 1]) /\
  glib_obs w_a_bodies w_a_acts 200 = ([ONormal; OThrow XSysExit], [EHandler 0 0 0]).
Proof. split; [by_computation | split; vm_compute; reflexivity]. Qed.

(* (b) the ExceptionSignal does not overtake a signal of the same GLib batch (here the application handles
   ExceptionSignal itself: handler 2) *)
Lemma refuted_exception_not_overtaking : differ_handlers w_b_bodies w_b_acts 200 /\
  snd (main_obs w_b_bodies w_b_acts 200) = [EHandler 0 0 0; EHandler 2 3 0; EMark 2; EHandler 1 1 0; EMark 1] /\
  snd (glib_obs w_b_bodies w_b_acts 200) = [EHandler 0 0 0; EHandler 1 1 0; EMark 1; EHandler 2 3 0; EMark 2].
Proof. split; [by_computation | split; vm_compute; reflexivity]. Qed.

Lemma refuted_urgent_not_overtaking : differ_handlers w_b2_bodies w_b2_acts 200.
Proof. by_computation. Qed.

(* (c) ExitMainLoop does not stop the other sources of the current GLib batch *)
Lemma refuted_exit_batch_continues : differ_handlers w_c_bodies w_c_acts 200 /\
  main_obs w_c_bodies w_c_acts 200 = ([ONormal; ONormal], [EHandler 0 0 0]) /\
  glib_obs w_c_bodies w_c_acts 200 = ([ONormal; ONormal], [EHandler 0 0 0; EHandler 1 1 0; EMark 1]).
Proof. split; [by_computation | split; vm_compute; reflexivity]. Qed.

Lemma refuted_exit_not_unwinding : differ_handlers w_c2_bodies w_c2_acts 200.
Proof. by_computation. Qed.

(* (d) close_loop drains the top-priority batch in MainLoop, not in GLib *)
Lemma refuted_close_no_drain : differ_handlers w_d_bodies w_d_acts 200 /\
  snd (main_obs w_d_bodies w_d_acts 200) = [EHandler 0 0 0; EHandler 1 1 0; EHandler 2 2 0; EMark 2; EMark 1; EMark 9] /\
  snd (glib_obs w_d_bodies w_d_acts 200) = [EHandler 0 0 0; EHandler 1 1 0; EMark 1; EMark 9].
Proof. split; [by_computation | split; vm_compute; reflexivity]. Qed.

Lemma refuted_handler_after_force_quit : differ_handlers w_f_bodies w_f_acts 200.
Proof. by_computation. Qed.
(* here the handler sequences agree and the outcomes differ (MainLoop: killed, GLib: normal end) *)
Lemma refuted_after_force_quit : differ w_f2_bodies w_f2_acts 200.
Proof. by_computation. Qed.
Lemma refuted_process_one_batch : differ_handlers w_g_bodies w_g_acts 200.
Proof. by_computation. Qed.
Lemma refuted_wait_not_stopped : differ_handlers w_h_bodies w_h_acts 200.
Proof. by_computation. Qed.
Lemma refuted_wait_finishes_batch : differ_handlers w_h2_bodies w_h2_acts 200.
Proof. by_computation. Qed.
Lemma refuted_handlers_bound_at_enqueue : differ_handlers w_i_bodies w_i_acts 200.
Proof. by_computation. Qed.
Lemma refuted_close_last_level : differ_handlers w_j_bodies w_j_acts 200.
Proof. by_computation. Qed.

(* (e) the ticket is marked after the handlers in GLibEventLoop (before them in MainLoop).  That order is observable
   only when an exception leaves _run_handlers between the handlers and the mark, which needs the level stack to be
   empty (close_loop at level 0): on this session the GLib model as it is blocks for ever in a wait that the
   counterfactual mark-first variant would end; MainLoop differs from both (it already differs by F9(h), F9(j)). *)
Lemma refuted_mark_after_handlers :
  glib_obs w_e_bodies w_e_acts 200 = ([ONormal; OBlocked], [EHandler 2 1 0; EHandler 0 0 0; EHandler 1 0 0]) /\
  glib_obs_gen true w_e_bodies w_e_acts 200 =
    ([ONormal; ONormal; OThrow XError], [EHandler 2 1 0; EHandler 0 0 0; EHandler 1 0 0; EMark 1]) /\
  differ_handlers w_e_bodies w_e_acts 200.
Proof. split; [vm_compute; reflexivity | split; [vm_compute; reflexivity | by_computation]]. Qed.

(* the full statement of C20 is false of the code as it is *)
Lemma not_identical :
  ~ (forall bodies acts fuel,
        no_fuel (fst (main_obs bodies acts fuel)) = true -> no_fuel (fst (glib_obs bodies acts fuel)) = true ->
        snd (main_obs bodies acts fuel) = snd (glib_obs bodies acts fuel)).
Proof.
  intro H. destruct refuted_raise_skips_handlers as [[A [B C]] _]. exact (C (H _ _ _ A B)).
Qed.

(* ---- agreement on the six scenarios of tests/units/main/screen_scheduler_test.py (translated to the loop API,
   see corpus/glib/witnesses.py): same outcomes, same handler/mark sequence, and the application quits ---- *)
Definition agree (bodies : list (list cmd)) (acts : list action) (fuel : nat) : Prop :=
  main_obs bodies acts fuel = glib_obs bodies acts fuel /\ fst (main_obs bodies acts fuel) = [ONormal; ONormal].

Lemma example_agree_replace_screen : agree s_replace_screen_bodies s_acts 200.
Proof. vm_compute. split; reflexivity. Qed.
Lemma example_agree_switch_screen : agree s_switch_screen_bodies s_acts 200.
Proof. vm_compute. split; reflexivity. Qed.
Lemma example_agree_modal_in_render : agree s_modal_in_render_bodies s_acts 200 /\
  snd (main_obs s_modal_in_render_bodies s_acts 200) =
  [EHandler 0 0 0; EMark 3; EHandler 0 1 0; EHandler 1 2 0; EMark 4; EHandler 1 3 0].
Proof. vm_compute. repeat split; reflexivity. Qed.
Lemma example_agree_modal_in_refresh : agree s_modal_in_refresh_bodies s_acts 200.
Proof. vm_compute. split; reflexivity. Qed.
Lemma example_agree_modal_refresh_and_render : agree s_modal_refresh_and_render_bodies s_acts 200.
Proof. vm_compute. split; reflexivity. Qed.
Lemma example_agree_modal_render_recursive : agree s_modal_render_recursive_bodies s_acts 200 /\
  length (snd (main_obs s_modal_render_recursive_bodies s_acts 200)) = 10%nat.
Proof. vm_compute. repeat split; reflexivity. Qed.
