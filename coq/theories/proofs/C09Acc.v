(* C09Acc.v — [acc_Exec]: from a state whose trace is accepted so far (and linked to the loop's fields),
   every event emitted by any call of the loop is accepted by the C09 monitor - all four clauses. *)
From SL Require Import Tac.
From RecordUpdate Require Import RecordUpdate.
From SL Require Import LoopSem Monitors.
From SL Require Import proofs.C09Exec proofs.C09Base proofs.C09Passes.
Import ListNotations.

Section A.
  Context {U : Type}.
  Variable code : nat -> signal -> nat -> prog U.
  Notation Exec := (Exec code).

  Ltac helpers :=
    repeat match goal with
    | H : Exec ?c ?s ?o ?s' |- _ =>
      pose proof (ghost_Exec _ _ _ _ _ H); pose proof (inv_Exec _ _ _ _ _ H);
      change (Exec c s o s') with (done (Exec c s o s')) in H
    end.
  Ltac fq_facts :=
    repeat match goal with
    | H : negb _ && run_loop _ = true |- _ => apply andb_prop in H; destruct H as [_ H]
    | H : force_quit _ = _ |- _ => progress nrm_in H
    | I : force_quit ?s = true -> run_loop ?s = false, R : run_loop ?s = true |- _ =>
      lazymatch goal with
      | _ : force_quit s = false |- _ => fail
      | _ => assert (force_quit s = false) by (destruct (force_quit s); [specialize (I eq_refl); congruence|reflexivity])
      end
    end.
  Ltac acc_side := nrm; repeat split; intros; solve [assumption | discriminate | congruence | auto].
  Ltac acc_step :=
    rewrite accT_cons_view; apply andb_true_intro; split;
    [| first [ apply chk_exit_end
             | apply chk_enq_ev; acc_side
             | apply chk_user; acc_side
             | apply chk_ok; [acc_side | reflexivity | cbn [fq_sensitive]; try discriminate; intros _; acc_side] ] ].
  Ltac acc_solve := nrm; repeat acc_step; try assumption.
  Ltac pre_solve := first [ acc_side | solve [acc_solve] ].

  Lemma acc_Exec c s o s' :
    Exec c s o s' -> link s -> inv s -> accT (trace s) = true -> v_exiting (V (trace s)) = false ->
    (c = CRun -> v_in_run (V (trace s)) = false) -> accT (trace s') = true.
  Proof.
    induction 1; intros L I A X R; helpers; unfold ghost_post, link, inv in *;
      destruct L as (L1 & L2 & L3); inv_eqs; fq_facts;
      repeat (fwd ltac:(pre_solve); conjs; fq_facts).
    all: try solve [acc_solve].
    - (* run() returns: the quit callback once, and only for a cause *)
      match goal with
      | HE : done (Exec CMainloop (run_enter s) ?o ?s1), HO : ?o = ONormal \/ ?o = OThrow XExit,
        HR : v_rl1 (V (trace ?s1)) = _, HQ : v_quit (V (trace ?s1)) = quit_cb ?s1,
        HF : v_fq (V (trace ?s1)) = force_quit ?s1, HC : ?o = OThrow XExit -> v_cause (V (trace ?s1)) = true,
        HA : accT (trace ?s1) = true |- _ =>
        rename HE into Ex; rename HO into Ho; rename HR into Hr; rename HQ into Hq; rename HF into Hf;
        rename HC into Hc; rename HA into Ha
      end.
      assert (C : v_rl1 (V (trace s1)) = true -> v_cause (V (trace s1)) = true).
      { intros RL. rewrite Hr, L1 in RL. apply Nat.eqb_eq in RL.
        unfold done in Ex. destruct Ho as [-> | ->].
        - destruct (force_quit s1) eqn:FQ.
          + apply (proj1 (winv_V (trace s1))). congruence.
          + exfalso. destruct (phi_Exec _ _ _ _ _ Ex) as (_ & _ & NE & P); [discriminate | left; reflexivity | exact FQ |].
            specialize (P eq_refl). unfold phi in P. rewrite levels_run_enter, run_loop_run_enter in *. cbn [rl] in P.
            assert (levels s1 <> []) by (apply NE; intros E; rewrite E in RL; discriminate).
            destruct (levels s1); [congruence | cbn [length] in P; lia].
        - apply Hc; reflexivity. }
      destruct (quit_cb s1) eqn:Q; [rewrite (quit_call_some _ _ Q)|rewrite (quit_call_none _ Q)]; nrm.
      + rewrite !accT_cons_view, Ha. cbn [andb]. apply andb_true_intro. split.
        * apply chk_quitcb; congruence.
        * apply chk_runreturn; nrm; auto. rewrite Hq. reflexivity.
      + rewrite accT_cons_view, Ha. cbn [andb]. apply chk_runreturn; auto. rewrite Hq. reflexivity.
    - destruct (force_quit s) eqn:E; [rewrite (ml_exit_fq _ E)|rewrite (ml_exit_nofq _ E)]; nrm; assumption.
    - destruct e; [| congruence |]; repeat (fwd ltac:(pre_solve); conjs; fq_facts); acc_solve.
  Qed.
End A.
