From SL Require Import Tac.
From SL Require Import PyInt.
Import ListNotations.
Local Open Scope N_scope.

Definition all_digits (l : str) : bool := forallb is_digit l.

Definition step (a d : N) : N := 10 * a + (d - 48).

Lemma all_digits_cons c l : all_digits (c :: l) = is_digit c && all_digits l.
Proof. reflexivity. Qed.

Lemma digits_all_digits l : forall acc prev,
  all_digits l = true -> (prev = true \/ l <> []) ->
  digits l acc prev = Some (fold_left step l acc).
Proof.
  induction l as [|c r IH]; intros acc prev Hd Hp; cbn [digits fold_left].
  - destruct Hp as [-> | Hp]; [reflexivity | congruence].
  - rewrite all_digits_cons in Hd. apply andb_true_iff in Hd as [Hc Hr]. rewrite Hc.
    apply IH; auto.
Qed.

Lemma is_digit_mod n : is_digit (48 + n mod 10) = true.
Proof.
  unfold is_digit. pose proof (N.mod_upper_bound n 10 ltac:(discriminate)).
  apply andb_true_iff; split; apply N.leb_le; lia.
Qed.

Lemma dec_fuel_digits f : forall n acc, all_digits acc = true -> all_digits (dec_fuel f n acc) = true.
Proof.
  induction f as [|f IH]; intros n acc H; cbn [dec_fuel]; auto.
  assert (H' : all_digits ((48 + n mod 10) :: acc) = true).
  { rewrite all_digits_cons, is_digit_mod. exact H. }
  destruct (n / 10 =? 0); auto.
Qed.

Lemma dec_fuel_nonempty f n acc : dec_fuel (S f) n acc <> [].
Proof.
  cbn [dec_fuel]. destruct (n / 10 =? 0); [congruence|].
  revert n acc. induction f as [|f IH]; intros; cbn [dec_fuel]; [congruence|].
  destruct (_ =? 0); [congruence|apply IH].
Qed.

Lemma dec_fuel_val f : forall n acc, n < 10 ^ N.of_nat f ->
  fold_left step (dec_fuel f n acc) 0 = fold_left step acc n.
Proof.
  induction f as [|f IH]; intros n acc Hn.
  - cbn in Hn. assert (n = 0) by lia. subst. reflexivity.
  - cbn [dec_fuel].
    pose proof (N.div_mod n 10 ltac:(discriminate)) as Hdm.
    pose proof (N.mod_upper_bound n 10 ltac:(discriminate)) as Hm.
    destruct (n / 10 =? 0) eqn:E.
    + apply N.eqb_eq in E. cbn [fold_left]. unfold step at 2. f_equal. lia.
    + rewrite IH.
      * cbn [fold_left]. unfold step at 2. f_equal. lia.
      * rewrite Nnat.Nat2N.inj_succ, N.pow_succ_r' in Hn.
        apply N.div_lt_upper_bound; lia.
Qed.

Lemma size_bound n : n < 10 ^ N.of_nat (S (N.size_nat n)).
Proof.
  rewrite Nnat.Nat2N.inj_succ, N.pow_succ_r'.
  assert (n < 2 ^ N.of_nat (N.size_nat n)).
  { destruct n as [|p]; [cbn; lia|]. cbn [N.size_nat].
    induction p as [p IH|p IH|]; cbn [Pos.size_nat]; rewrite ?Nnat.Nat2N.inj_succ, ?N.pow_succ_r' in *; lia. }
  assert (2 ^ N.of_nat (N.size_nat n) <= 10 ^ N.of_nat (N.size_nat n)).
  { apply N.pow_le_mono_l. lia. }
  lia.
Qed.

Lemma digits_dec_N n prev : digits (dec_N n) 0 prev = Some n.
Proof.
  unfold dec_N. rewrite digits_all_digits.
  - rewrite dec_fuel_val; [reflexivity | apply size_bound].
  - apply dec_fuel_digits. reflexivity.
  - right. apply dec_fuel_nonempty.
Qed.

Lemma digit_not_space c : is_digit c = true -> is_space c = false.
Proof.
  unfold is_digit, is_space. intros H. apply andb_true_iff in H as [H1 H2].
  apply N.leb_le in H1. apply N.leb_le in H2.
  apply orb_false_iff; split.
  - apply andb_false_iff. right. apply N.leb_gt. lia.
  - apply N.eqb_neq. lia.
Qed.

Lemma lstrip_id c r : is_space c = false -> lstrip (c :: r) = c :: r.
Proof. intros H. cbn. rewrite H. reflexivity. Qed.

Lemma last_dec_fuel f : forall n acc d, all_digits acc = true -> is_digit d = true ->
  exists l, dec_fuel f n (acc ++ [d]) = l ++ [d] /\ all_digits l = true.
Proof.
  induction f as [|f IH]; intros n acc d Ha Hd; cbn [dec_fuel].
  - exists acc. auto.
  - destruct (n / 10 =? 0).
    + exists ((48 + n mod 10) :: acc). split; [reflexivity|]. rewrite all_digits_cons, is_digit_mod. exact Ha.
    + change ((48 + n mod 10) :: acc ++ [d]) with (((48 + n mod 10) :: acc) ++ [d]).
      apply IH; auto. rewrite all_digits_cons, is_digit_mod. exact Ha.
Qed.

(* dec_N n = first :: ... ++ [last], both digits: stripping leaves it unchanged *)
Lemma strip_digits l : all_digits l = true -> strip l = l.
Proof.
  intros H. unfold strip.
  assert (Hl : forall l, all_digits l = true -> lstrip l = l).
  { intros [|c r] Hc; [reflexivity|]. rewrite all_digits_cons in Hc. apply andb_true_iff in Hc as [Hc _].
    apply lstrip_id, digit_not_space, Hc. }
  rewrite (Hl l H). rewrite Hl.
  - apply rev_involutive.
  - unfold all_digits in *. rewrite forallb_forall in *. intros x Hx. apply H. apply in_rev. exact Hx.
Qed.

Lemma dec_N_digits n : all_digits (dec_N n) = true.
Proof. apply dec_fuel_digits. reflexivity. Qed.

Lemma strip_cons_digits c l : is_space c = false -> all_digits l = true -> l <> [] -> strip (c :: l) = c :: l.
Proof.
  intros Hc Hl Hne. unfold strip. rewrite lstrip_id by exact Hc.
  cbn [rev].
  destruct (rev l) as [|d r] eqn:E.
  { apply (f_equal (@rev N)) in E. rewrite rev_involutive in E. cbn in E. congruence. }
  assert (Hd : is_digit d = true).
  { unfold all_digits in Hl. rewrite forallb_forall in Hl. apply Hl. apply in_rev. rewrite E. left. reflexivity. }
  change ((d :: r) ++ [c]) with (d :: (r ++ [c])).
  rewrite lstrip_id by (apply digit_not_space, Hd).
  change (d :: (r ++ [c])) with ((d :: r) ++ [c]).
  rewrite <- E, rev_app_distr, rev_involutive. reflexivity.
Qed.

Theorem parse_int_dec z : parse_int (dec z) = Some z.
Proof.
  unfold parse_int. destruct z as [|p|p]; cbn [dec].
  - reflexivity.
  - rewrite strip_digits by apply dec_N_digits.
    pose proof (dec_N_digits (Npos p)) as Hd.
    destruct (dec_N (Npos p)) as [|c r] eqn:E.
    { exfalso. revert E. apply dec_fuel_nonempty. }
    assert (Hc : is_digit c = true) by (rewrite all_digits_cons in Hd; apply andb_true_iff in Hd; tauto).
    assert (c <> 43 /\ c <> 45) as [H1 H2].
    { unfold is_digit in Hc. apply andb_true_iff in Hc as [Hc _]. apply N.leb_le in Hc. lia. }
    assert (Hdg : digits (c :: r) 0 false = Some (Npos p)) by (rewrite <- E; apply digits_dec_N).
    destruct c as [|q]; [cbn in Hc; discriminate|].
    repeat (destruct q as [q|q|]; try (rewrite Hdg; reflexivity); try congruence).
  - rewrite strip_cons_digits.
    + rewrite digits_dec_N. reflexivity.
    + reflexivity.
    + apply dec_N_digits.
    + apply dec_fuel_nonempty.
Qed.
