(* InputOrder.v — (worker s2) "lines are delivered in the order typed", for sessions with a single event queue.
   In general the clause is FALSE (finding F18, corpus/screen/order_modal_overtakes.json: a ready signal routed to an
   outer event queue waits while a modal loop serves the next line first).  Here: as long as no nested event loop was
   ever opened (no ENewLoopEnter in the trace), the texts of the successful ready signals (= every delivery of a typed
   line: to a screen's input() and to blocking / handler-object requests), in trace order, are typed lines in typed
   order ([Subseq]: an order-preserving embedding; not a prefix: force_quit / a kill can lose a taken line).

   The invariant [Ord] is independent of InputLink.v's [Core] (no well-formedness of the session is needed); it
   re-uses InputLink.v's generic part (the semantic wp [wpS], its rules, the one fuel induction [spec_all]):
     delivered so far ++ data of the pending successful ready signals (in queue order: LoopLink.v's [esort])
                      ++ data of the line in flight (pending InputReceivedSignal, in the queue or still in [ext])
     embeds, in order, into the first [cnt] typed lines, [cnt] = number of lines the reader threads have taken;
   plus what keeps it: the typed lines left = skipn cnt typed; at most one line in flight, none unless
   _processing_input; H_RECEIVED is registered for InputReceivedSignal only, the handlers of InputReadySignal are
   H_READY 0, 1, ...; only ready signals carry success = True.
   While a signal is being dispatched it is neither in the queue nor delivered: [SigPre2] keeps its slot.
   The screens' code is walked once, syntactically: [Safe p] (no primitive step of p touches what [Ord] looks at,
   except inside the three blocks start_input_thread / new_input_handler / the two input handlers, proved by hand);
   [Safe_OT]: a safe program keeps [Ord]. *)
From SL Require Import Tac.
From Coq Require Import Permutation.
From RecordUpdate Require Import RecordUpdate.
From SL Require proofs.C10Proofs.
From SL Require Import PyInt LoopSem ScreenSem ScreenMon proofs.LoopLink proofs.InputLink proofs.C06Proofs.
Import ListNotations.

(* ====================================================================== order-preserving embedding *)
Inductive Subseq {A} : list A -> list A -> Prop :=
| sub_nil l : Subseq [] l
| sub_skip x a b : Subseq a b -> Subseq a (x :: b)
| sub_take x a b : Subseq a b -> Subseq (x :: a) (x :: b).

Lemma Subseq_refl {A} (l : list A) : Subseq l l.
Proof. induction l; [apply sub_nil|apply sub_take; assumption]. Qed.
Lemma Subseq_trans {A} (a b c : list A) : Subseq a b -> Subseq b c -> Subseq a c.
Proof.
  intros H1 H2. revert a H1. induction H2 as [l|x b c H IH|x b c H IH]; intros a H1.
  - inversion H1; subst. apply sub_nil.
  - apply sub_skip. apply IH, H1.
  - inversion H1; subst; [apply sub_nil|apply sub_skip; apply IH; assumption|apply sub_take; apply IH; assumption].
Qed.
Lemma Subseq_app {A} (a a' b b' : list A) : Subseq a a' -> Subseq b b' -> Subseq (a ++ b) (a' ++ b').
Proof.
  intros H1 H2. induction H1 as [l|x a a' H IH|x a a' H IH]; cbn.
  - induction l; cbn; [exact H2|apply sub_skip; assumption].
  - apply sub_skip; exact IH.
  - apply sub_take; exact IH.
Qed.
Lemma Subseq_app_r {A} (a b c : list A) : Subseq a b -> Subseq a (b ++ c).
Proof. intros H. rewrite <- (app_nil_r a). apply Subseq_app; [exact H|apply sub_nil]. Qed.
Lemma Subseq_app_l {A} (a b : list A) : Subseq a (a ++ b).
Proof. apply Subseq_app_r, Subseq_refl. Qed.
Lemma Subseq_app_l2 {A} (a b : list A) : Subseq b (a ++ b).
Proof. change b with ([] ++ b) at 1. apply Subseq_app; [apply sub_nil|apply Subseq_refl]. Qed.
Lemma Subseq_firstn {A} n (l : list A) : Subseq (firstn n l) l.
Proof. revert n. induction l as [|x l IH]; intros [|n]; cbn; try apply sub_nil. apply sub_take, IH. Qed.
Lemma Subseq_filter {A} (f : A -> bool) l : Subseq (filter f l) l.
Proof. induction l as [|x l IH]; cbn; [apply sub_nil|]. destruct (f x); [apply sub_take|apply sub_skip]; exact IH. Qed.
Lemma Subseq_map {A B} (f : A -> B) a b : Subseq a b -> Subseq (map f a) (map f b).
Proof. induction 1; cbn; [apply sub_nil|apply sub_skip; assumption|apply sub_take; assumption]. Qed.

(* ====================================================================== the queue, in the order it is emptied *)
Definition isrs (e : LoopSem.entry) : bool := sg_b (esig e).                               (* a successful ready signal *)
Definition isrc (e : LoopSem.entry) : bool := (sg_cls (esig e) =? CLS_RECEIVED)%nat.       (* a line in flight *)
Definition edata (e : LoopSem.entry) : str := sg_data (esig e).
Definition entok (e : LoopSem.entry) : Prop :=
  (isrs e = true -> sg_cls (esig e) = CLS_READY /\ eprio e = 0%Z) /\ (isrc e = true -> eprio e = 0%Z).

Lemma einsert_split x l : exists l1 l2, l = l1 ++ l2 /\ einsert x l = l1 ++ x :: l2.
Proof.
  induction l as [|y r IH]; cbn; [exists [], []; auto|].
  destruct (entry_lt x y); [exists [], (y :: r); auto|].
  destruct IH as (l1 & l2 & -> & E). exists (y :: l1), l2. rewrite E. auto.
Qed.
Lemma filter_einsert_other (F : LoopSem.entry -> bool) x l : F x = false -> filter F (einsert x l) = filter F l.
Proof.
  intros Fx. destruct (einsert_split x l) as (l1 & l2 & -> & ->). rewrite !filter_app. cbn. rewrite Fx. reflexivity.
Qed.
(* FIFO within a class of one priority: the new entry (the greatest arrival counter) comes after all of its class *)
Lemma filter_einsert_same (F : LoopSem.entry -> bool) x l :
  F x = true -> esorted l -> Forall (fun y => ecnt y < ecnt x) l -> Forall (fun y => F y = true -> eprio y = eprio x) l ->
  filter F (einsert x l) = filter F l ++ [x].
Proof.
  intros Fx. induction l as [|y r IH]; intros S C P; cbn [einsert]; [cbn; rewrite Fx; reflexivity|].
  destruct S as [Sy Sr]. inversion C as [|? ? Cy Cr]; subst. inversion P as [|? ? Py Pr]; subst.
  destruct (entry_lt x y) eqn:E.
  - (* x goes before y: nothing of the class from y on *)
    apply entry_lt_spec in E. assert (Lt : (eprio x < eprio y)%Z) by lia.
    assert (Z : filter F (y :: r) = []).
    { assert (Fa : Forall (fun z => F z = false) (y :: r)).
      { constructor.
        - destruct (F y) eqn:Fy; [|reflexivity]. specialize (Py eq_refl). lia.
        - rewrite Forall_forall in *. intros z Iz. destruct (F z) eqn:Fz; [|reflexivity].
          specialize (Pr z Iz Fz). specialize (Sy z Iz). apply entry_lt_spec in Sy. lia. }
      clear - Fa. induction Fa as [|z l Hz _ IHl]; cbn; [reflexivity|]. rewrite Hz. exact IHl. }
    cbn [filter]. rewrite Fx. cbn [filter] in Z. rewrite Z. reflexivity.
  - cbn [filter]. rewrite (IH Sr Cr Pr). destruct (F y); reflexivity.
Qed.

Definition qents (q : equeue) : list LoopSem.entry := esort (eq_entries q).

Lemma qents_put_other (F : LoopSem.entry -> bool) q sg : qwf q -> F (sg_prio sg, eq_counter q, sg) = false ->
  filter F (qents (q_put q sg)) = filter F (qents q).
Proof.
  intros [N B P] Fx. unfold qents, q_put. cbn [eq_entries set]. rewrite esort_snoc; [apply filter_einsert_other, Fx|].
  rewrite cnts_app. apply nodup_snoc; [exact N|]. cbn. intros H.
  apply in_map_iff in H. destruct H as (e & He & Ie). rewrite Forall_forall in B. apply B in Ie. unfold ecnt in *. lia.
Qed.
Lemma qents_put_same (F : LoopSem.entry -> bool) q sg : qwf q -> F (sg_prio sg, eq_counter q, sg) = true ->
  Forall (fun y => F y = true -> eprio y = sg_prio sg) (eq_entries q) ->
  filter F (qents (q_put q sg)) = filter F (qents q) ++ [(sg_prio sg, eq_counter q, sg)].
Proof.
  intros [N B P] Fx Pr. unfold qents, q_put. cbn [eq_entries set]. rewrite esort_snoc.
  - apply filter_einsert_same; [exact Fx|apply esort_sorted, N| |].
    + eapply Permutation_Forall; [apply esort_perm|]. eapply Forall_impl; [|exact B]. intros e He. exact He.
    + eapply Permutation_Forall; [apply esort_perm|]. exact Pr.
  - rewrite cnts_app. apply nodup_snoc; [exact N|]. cbn. intros H.
    apply in_map_iff in H. destruct H as (e & He & Ie). rewrite Forall_forall in B. apply B in Ie. unfold ecnt in *. lia.
Qed.
Lemma qents_pop q m q' : qwf q -> q_pop q = Some (m, q') -> qents q = m :: qents q'.
Proof. intros Wq H. apply (q_pop_sorted _ _ _ Wq H). Qed.
Lemma qents_requeue q m q' : qwf q -> q_pop q = Some (m, q') -> qents (q_put_entry q' m) = qents q.
Proof.
  intros Wq H. destruct (q_pop_sorted _ _ _ Wq H) as (_ & P & _). unfold qents, q_put_entry. cbn [eq_entries set].
  symmetry. apply esort_unique; [apply Wq|]. etransitivity; [exact P|apply Permutation_cons_append].
Qed.
Lemma qents_add_source q o : qents (q_add_source q o) = qents q.
Proof. unfold q_add_source. destruct (existsb _ _); reflexivity. Qed.

(* ====================================================================== what the trace tells (newest event first) *)
Definition is_deliv (e : event) : option str :=
  match e with
  | EUser tag a x => if (tag =? T_READY)%nat && (nth0 a 1 =? 1)%nat then Some x else None
  | _ => None
  end.
Definition dl1 (e : event) : list str := match is_deliv e with Some x => [x] | None => [] end.
Fixpoint dlv (t : list event) : list str := match t with [] => [] | e :: r => dlv r ++ dl1 e end.
Definition isnewrecv (e : event) : bool := match e with ESigNew _ cls _ _ => (cls =? CLS_RECEIVED)%nat | _ => false end.
Fixpoint nrecv (t : list event) : nat := match t with [] => 0 | e :: r => (if isnewrecv e then 1 else 0) + nrecv r end.
Definition isnest (e : event) : bool := match e with ENewLoopEnter _ => true | _ => false end.
Definition nested (t : list event) : bool := existsb isnest t.
Definition quiet (e : event) : bool := match is_deliv e with Some _ => false | None => negb (isnewrecv e) end.

(* the trace functions agree (nesting: is kept) *)
Definition tsame (t t' : list event) : Prop :=
  dlv t' = dlv t /\ nrecv t' = nrecv t /\ (nested t = true -> nested t' = true).
Lemma tsame_refl t : tsame t t.
Proof. repeat split; auto. Qed.
Lemma tsame_trans a b c : tsame a b -> tsame b c -> tsame a c.
Proof. intros (A1 & A2 & A3) (B1 & B2 & B3). repeat split; try congruence. auto. Qed.
Lemma nested_cons e t : nested t = true -> nested (e :: t) = true.
Proof. intros H. unfold nested in *. cbn [existsb]. rewrite H. apply orb_true_r. Qed.
Lemma tsame_cons e t : quiet e = true -> tsame t (e :: t).
Proof.
  unfold quiet, tsame. intros Q. split; [|split].
  - cbn [dlv]. unfold dl1. destruct (is_deliv e); [discriminate|]. apply app_nil_r.
  - cbn [nrecv]. destruct (is_deliv e); [discriminate|]. apply negb_true_iff in Q. rewrite Q. reflexivity.
  - apply nested_cons.
Qed.

Definition ukeep (u u' : sstate) : Prop :=
  st_typed u' = st_typed u /\ st_processing u' = st_processing u /\ length (st_ih u') = length (st_ih u).
Lemma ukeep_refl u : ukeep u u.
Proof. repeat split. Qed.

Definition isrcs (sp : sigspec) : bool := (sp_cls sp =? CLS_RECEIVED)%nat.
Definition extok (sp : sigspec) : Prop := sp_cls sp = CLS_RECEIVED /\ sp_prio sp = 0%Z /\ sp_b sp = false.
(* what handler code may enqueue / pass to execute_new_loop without further ado *)
Definition okspec2 (sp : sigspec) : Prop := sp_b sp = false /\ sp_cls sp <> CLS_RECEIVED.

Section Ord.
  Variable specs : nat -> screen_spec.
  Variable typed : list (option str).
  Notation lst := (lstate sstate).
  Implicit Types s : lst.
  Implicit Types Q : outcome -> lst -> Prop.
  Definition lines : list str := map line_of typed.

  Definition q0 s : equeue := get_q s 0.
  Definition Qs s : list str := map edata (filter isrs (qents (q0 s))).
  Definition Flq s : list str := map edata (filter isrc (qents (q0 s))).
  Definition Fl s : list str := Flq s ++ map sp_data (ext s).
  Definition cnt s : nat := nrecv (trace s) + length (ext s).

  Record Tab s : Prop := {
    t_recv : forall c i d, nth_error (hlist (handlers s) c) i = Some (H_RECEIVED, d) -> c = CLS_RECEIVED /\ i = 0;
    t_ready : forall i hid d, nth_error (hlist (handlers s) CLS_READY) i = Some (hid, d) -> hid = H_READY i;
    t_len : length (hlist (handlers s) CLS_READY) = length (st_ih (ust s)) }.

  Record Ord s : Prop := {
    o_q : length (qstore s) = 1;
    o_wf : qwf (q0 s);
    o_ent : Forall entok (eq_entries (q0 s));
    o_ext : Forall extok (ext s);
    o_typed : st_typed (ust s) = skipn (cnt s) typed;
    o_fl1 : length (Fl s) <= 1;
    o_proc : st_processing (ust s) = false -> Fl s = [];
    o_tab : Tab s;
    o_sub : Subseq (dlv (trace s) ++ Qs s ++ Fl s) (firstn (cnt s) lines) }.

  Definition Inv2 s : Prop := nested (trace s) = true \/ Ord s.
  Definition A2 s : Prop := nested (trace s) = true \/ Subseq (dlv (trace s)) lines.
  Definition R2 (s s' : lst) : Prop := True.
  (* the signal being dispatched, from handler idx on: its slot *)
  Definition SigPre2 (sg : signal) (idx : nat) s : Prop :=
    nested (trace s) = true \/
    ((sg_b sg = true -> sg_cls sg = CLS_READY /\
        (idx <= sg_a sg -> Subseq (dlv (trace s) ++ [sg_data sg] ++ Qs s ++ Fl s) (firstn (cnt s) lines))) /\
     (sg_cls sg = CLS_RECEIVED -> idx = 0 ->
        Fl s = [] /\ Subseq (dlv (trace s) ++ Qs s ++ [sg_data sg]) (firstn (cnt s) lines))).

  Lemma Inv2_A2 s : Inv2 s -> A2 s.
  Proof.
    intros [H|H]; [left; exact H|right]. eapply Subseq_trans; [apply Subseq_app_l|].
    eapply Subseq_trans; [apply (o_sub _ H)|apply Subseq_firstn].
  Qed.

  (* ---------------------------------------------------------------- steps that change nothing Ord looks at *)
  Definition skeep s s' : Prop :=
    qstore s' = qstore s /\ ext s' = ext s /\ handlers s' = handlers s /\ ukeep (ust s) (ust s') /\ tsame (trace s) (trace s').
  Lemma skeep_refl s : skeep s s.
  Proof. split; [reflexivity|]. split; [reflexivity|]. split; [reflexivity|]. split; [apply ukeep_refl|apply tsame_refl]. Qed.
  Lemma skeep_trans a b c : skeep a b -> skeep b c -> skeep a c.
  Proof.
    intros (A1 & A2' & A3 & (A4 & A5 & A6) & A7) (B1 & B2 & B3 & (B4 & B5 & B6) & B7).
    split; [congruence|]. split; [congruence|]. split; [congruence|]. split; [|eapply tsame_trans; eauto].
    split; [congruence|]. split; congruence.
  Qed.

  Lemma skeep_views s s' : skeep s s' ->
    q0 s' = q0 s /\ Qs s' = Qs s /\ Fl s' = Fl s /\ cnt s' = cnt s /\ dlv (trace s') = dlv (trace s).
  Proof.
    intros (K1 & K2 & K3 & K4 & K5 & K6 & K7). unfold Qs, Fl, Flq, cnt, q0, get_q. rewrite K1, K2, K6. auto.
  Qed.

  Lemma Tab_keep s s' : handlers s' = handlers s -> length (st_ih (ust s')) = length (st_ih (ust s)) -> Tab s -> Tab s'.
  Proof. intros H L [T1 T2 T3]. constructor; rewrite ?H, ?L; [exact T1|exact T2|exact T3]. Qed.

  Lemma Ord_change s s' : qstore s' = qstore s -> ext s' = ext s -> st_typed (ust s') = st_typed (ust s) ->
    (st_processing (ust s') = false -> st_processing (ust s) = false) -> tsame (trace s) (trace s') -> Tab s' -> Ord s -> Ord s'.
  Proof.
    intros K1 K2 K4 K5 (T1 & T2 & T3) TB O.
    assert (V0 : q0 s' = q0 s) by (unfold q0, get_q; rewrite K1; reflexivity).
    assert (V1 : Qs s' = Qs s) by (unfold Qs; rewrite V0; reflexivity).
    assert (V2 : Fl s' = Fl s) by (unfold Fl, Flq; rewrite V0, K2; reflexivity).
    assert (V3 : cnt s' = cnt s) by (unfold cnt; rewrite T2, K2; reflexivity).
    destruct O. constructor; rewrite ?V0, ?V1, ?V2, ?V3, ?T1, ?K1, ?K2, ?K4; auto.
  Qed.
  Lemma Ord_keep s s' : skeep s s' -> Ord s -> Ord s'.
  Proof.
    intros (K1 & K2 & K3 & (K4 & K5 & K6) & K7) O. apply (Ord_change s); auto; [congruence|]. eapply Tab_keep; eauto. apply (o_tab _ O).
  Qed.
  Lemma Inv2_keep s s' : skeep s s' -> Inv2 s -> Inv2 s'.
  Proof.
    intros K [H|H]; [left; apply K, H|right; eapply Ord_keep; eauto].
  Qed.
  Lemma A2_tsame s s' : tsame (trace s) (trace s') -> A2 s -> A2 s'.
  Proof. intros (T1 & _ & T3) [H|H]; [left; auto|right; rewrite T1; exact H]. Qed.
  Lemma SigPre2_keep sg i s s' : skeep s s' -> SigPre2 sg i s -> SigPre2 sg i s'.
  Proof.
    intros K [H|H]; [left; apply K, H|right].
    destruct (skeep_views _ _ K) as (V0 & V1 & V2 & V3 & V4). rewrite V1, V2, V3, V4. exact H.
  Qed.

  Lemma skeep_emit e s : quiet e = true -> skeep s (emit e s).
  Proof.
    intros Q. split; [reflexivity|]. split; [reflexivity|]. split; [reflexivity|]. split; [apply ukeep_refl|apply tsame_cons, Q].
  Qed.

  Notation W2 := (wpS (screen_code specs) A2 A2).
  Notation SP2 := (Spec (screen_code specs) A2 A2 Inv2 R2 SigPre2 okspec2).

  (* ---------------------------------------------------------------- "order triples" *)
  Definition OT (p : sprog) : Prop :=
    forall n Q s, SP2 n -> Inv2 s -> (forall o s', Inv2 s' -> Q o s') -> W2 n p Q s.

  Lemma res2 Q o s : Inv2 s -> (forall o s', Inv2 s' -> Q o s') -> res A2 A2 Q o s.
  Proof. intros HI HQ. destruct o as [|[| |]| |]; cbn; auto using Inv2_A2. Qed.

  Lemma OT_ret : OT PRet.
  Proof. intros n Q s HS HI HQ. apply wpS_ret; [apply Inv2_A2, HI|apply HQ, HI]. Qed.
  Lemma OT_throw e : OT (PThrow e).
  Proof. intros n Q s HS HI HQ. apply wpS_throw; [apply Inv2_A2, HI|apply res2; assumption]. Qed.
  Lemma OT_seq p q : OT p -> OT q -> OT (p ;; q).
  Proof.
    intros Hp Hq n Q s HS HI HQ. apply wpS_seq. apply Hp; [exact HS|exact HI|].
    intros o s' HI'. destruct o; try (apply HQ; exact HI'). apply Hq; auto.
  Qed.
  Lemma OT_try p h : OT p -> OT h -> OT (PTry p h).
  Proof.
    intros Hp Hh n Q s HS HI HQ. apply wpS_try. apply Hp; [exact HS|exact HI|].
    intros o s' HI'. destruct o as [|[| |]| |]; try (apply HQ; exact HI'). apply Hh; auto.
  Qed.
  Lemma skeep_ust s u' : ukeep (ust s) u' -> skeep s (s <| ust := u' |>).
  Proof.
    intros K. split; [reflexivity|]. split; [reflexivity|]. split; [reflexivity|]. split; [exact K|apply tsame_refl].
  Qed.
  Lemma OT_st g : (forall u, ukeep u (fst (g u)) /\ OT (snd (g u))) -> OT (PSt g).
  Proof.
    intros H n Q s HS HI HQ. destruct (H (ust s)) as [K Hp].
    apply wpS_st; [apply Inv2_A2, HI|]. apply Hp; [exact HS| |exact HQ].
    eapply Inv2_keep; [apply skeep_ust, K|exact HI].
  Qed.
  Lemma OT_rd (f : sstate -> sprog) : (forall u, OT (f u)) -> OT (rd f).
  Proof. intros H. apply OT_st. intros u. split; [apply ukeep_refl|apply H]. Qed.
  Lemma OT_wr (g : sstate -> sstate) : (forall u, ukeep u (g u)) -> OT (wr g).
  Proof. intros H. apply OT_st. intros u. split; [apply H|apply OT_ret]. Qed.
  Lemma OT_while c b : OT b -> OT (PWhile c b).
  Proof.
    intros Hb n Q s HS HI HQ. apply (wpS_while _ _ _ n c b Q Inv2); [exact HI|apply Inv2_A2| |].
    - intros s1 H1 _. apply HQ, H1.
    - intros s1 H1 _. apply Hb; [exact HS|exact H1|]. intros o s2 H2. destruct o; try (apply HQ; exact H2). exact H2.
  Qed.
  Lemma OT_emit e : quiet (user_event e) = true -> OT (PEmit e).
  Proof.
    intros Qe n Q s HS HI HQ.
    assert (HI' : Inv2 (emit (user_event e) s)) by (eapply Inv2_keep; [apply skeep_emit, Qe|exact HI]).
    apply wpS_emit; [apply Inv2_A2, HI|apply Inv2_A2, HI'|apply HQ, HI'].
  Qed.
  Lemma OT_rec a : lcall (U:=sstate) okspec2 (CApi a) -> OT (PApi a).
  Proof.
    intros LC n Q s HS HI HQ. eapply wpS_api_rec; [exact HS|exact LC|exact HI|apply Inv2_A2, HI|].
    intros o s' [HI' _]. apply HQ, HI'.
  Qed.
  (* ---------------------------------------------------------------- once a nested loop was opened nothing is claimed *)
  Lemma nested_app a b : nested (a ++ b) = nested a || nested b.
  Proof. apply existsb_app. Qed.
  Lemma nested_grow s s' : C10Proofs.tgrow s s' -> nested (trace s) = true -> nested (trace s') = true.
  Proof. intros [tr E] H. rewrite E, nested_app, H. apply orb_true_r. Qed.
  Lemma W2_nested n p Q s : nested (trace s) = true -> (forall o s', nested (trace s') = true -> Q o s') -> W2 n p Q s.
  Proof.
    intros H HQ. split; [left; exact H|]. intros f Hf o s' E.
    pose proof (nested_grow _ _ (C10Proofs.exec_ext _ _ _ _ _ _ E) H) as H'.
    destruct o as [|[| |]| |]; cbn; try (left; exact H'); apply HQ, H'.
  Qed.

  (* ---------------------------------------------------------------- the (only) event queue *)
  Lemma q1_get s : length (qstore s) = 1 -> qstore s = [q0 s].
  Proof. unfold q0, get_q. destruct (qstore s) as [|q [|? ?]]; cbn; intros H; try discriminate H. reflexivity. Qed.
  Lemma q1_set s k v : length (qstore s) = 1 -> qstore (set_q s k v) = if (k =? 0)%nat then [v] else qstore s.
  Proof.
    intros L. unfold set_q. cbn [qstore set]. rewrite (q1_get s L). destruct k as [|k]; cbn; [reflexivity|].
    destruct k; reflexivity.
  Qed.
  Lemma q0_of s q : qstore s = [q] -> q0 s = q.
  Proof. unfold q0, get_q. intros ->. reflexivity. Qed.

  Lemma Subseq_nil_inv {A} (a : list A) : Subseq a [] -> a = [].
  Proof. intros H. inversion H. reflexivity. Qed.
  Lemma Subseq_length {A} (a b : list A) : Subseq a b -> length a <= length b.
  Proof. induction 1; cbn; lia. Qed.

  Lemma put_lists q sg : qwf q -> Forall entok (eq_entries q) -> entok (sg_prio sg, eq_counter q, sg) ->
    qwf (q_put q sg) /\ Forall entok (eq_entries (q_put q sg)) /\
    map edata (filter isrs (qents (q_put q sg))) = map edata (filter isrs (qents q)) ++ (if sg_b sg then [sg_data sg] else []) /\
    map edata (filter isrc (qents (q_put q sg))) =
      map edata (filter isrc (qents q)) ++ (if (sg_cls sg =? CLS_RECEIVED)%nat then [sg_data sg] else []).
  Proof.
    intros Wq Fe Ne. split; [apply q_put_qwf, Wq|]. split.
    { unfold q_put. cbn [eq_entries set]. apply Forall_app. split; [exact Fe|constructor; [exact Ne|constructor]]. }
    set (x := (sg_prio sg, eq_counter q, sg)) in *.
    assert (PX : eprio x = sg_prio sg) by reflexivity.
    split.
    - destruct (sg_b sg) eqn:B.
      + rewrite (qents_put_same isrs q sg Wq); [rewrite map_app; reflexivity|exact B|].
        rewrite Forall_forall in *. intros y Iy Fy. destruct (Fe y Iy) as [E1 _]. destruct (E1 Fy) as [_ P1].
        destruct Ne as [N1 _]. destruct (N1 B) as [_ P2]. rewrite P1, <- PX, P2. reflexivity.
      + rewrite (qents_put_other isrs q sg Wq); [rewrite app_nil_r; reflexivity|exact B].
    - destruct (sg_cls sg =? CLS_RECEIVED)%nat eqn:B.
      + rewrite (qents_put_same isrc q sg Wq); [rewrite map_app; reflexivity|exact B|].
        rewrite Forall_forall in *. intros y Iy Fy. destruct (Fe y Iy) as [_ E1]. rewrite (E1 Fy).
        destruct Ne as [_ N1]. rewrite <- PX, (N1 B). reflexivity.
      + rewrite (qents_put_other isrc q sg Wq); [rewrite app_nil_r; reflexivity|exact B].
  Qed.

  (* enqueue_signal(signal) of any signal whose entry is fine: what changes *)
  Lemma enq_sig s sg : length (qstore s) = 1 -> qwf (q0 s) -> Forall entok (eq_entries (q0 s)) ->
    (sg_b sg = true -> sg_cls sg = CLS_READY /\ sg_prio sg = 0%Z) -> (sg_cls sg = CLS_RECEIVED -> sg_prio sg = 0%Z) ->
    let s2 := do_enqueue s sg in
    length (qstore s2) = 1 /\ qwf (q0 s2) /\ Forall entok (eq_entries (q0 s2)) /\
    ext s2 = ext s /\ handlers s2 = handlers s /\ ust s2 = ust s /\ tsame (trace s) (trace s2) /\
    exists a b, Qs s2 = Qs s ++ a /\ Subseq a (if sg_b sg then [sg_data sg] else []) /\
                Flq s2 = Flq s ++ b /\ Subseq b (if (sg_cls sg =? CLS_RECEIVED)%nat then [sg_data sg] else []).
  Proof.
    intros L Wq Fe H1 H2. unfold do_enqueue. destruct (force_quit s).
    - (* dropped *)
      split; [exact L|]. split; [exact Wq|]. split; [exact Fe|]. split; [reflexivity|]. split; [reflexivity|]. split; [reflexivity|].
      split; [apply (tsame_cons (EDropped (sg_id sg)) (trace s)); reflexivity|].
      exists [], []. rewrite !app_nil_r. split; [reflexivity|]. split; [apply sub_nil|]. split; [reflexivity|apply sub_nil].
    - remember (match route s (rev (levels s)) (sg_src sg) with Some q => q | None => active s end) as t eqn:Ht. clear Ht.
      assert (TS : tsame (trace s) (trace (emit (EEnq (sg_id sg) t) (set_q s t (q_put (get_q s t) sg)))))
        by (apply (tsame_cons (EEnq (sg_id sg) t) (trace s)); reflexivity).
      assert (QS : qstore (emit (EEnq (sg_id sg) t) (set_q s t (q_put (get_q s t) sg))) =
                   if (t =? 0)%nat then [q_put (get_q s t) sg] else qstore s) by apply (q1_set s t _ L).
      destruct (t =? 0)%nat eqn:Et.
      + apply Nat.eqb_eq in Et. subst t. change (get_q s 0) with (q0 s) in QS. change (get_q s 0) with (q0 s).
        assert (Ne : entok (sg_prio sg, eq_counter (q0 s), sg)).
        { split; unfold isrs, isrc, esig, eprio; cbn [fst snd].
          - intros B. apply H1, B.
          - intros B. apply Nat.eqb_eq in B. apply H2, B. }
        destruct (put_lists (q0 s) sg Wq Fe Ne) as (P1 & P2 & P3 & P4).
        pose proof (q0_of _ _ QS) as Q2.
        split; [rewrite QS; reflexivity|]. split; [rewrite Q2; exact P1|]. split; [rewrite Q2; exact P2|].
        split; [reflexivity|]. split; [reflexivity|]. split; [reflexivity|]. split; [exact TS|].
        unfold Qs, Flq. rewrite Q2, P3, P4.
        eexists _, _. split; [reflexivity|]. split; [apply Subseq_refl|]. split; [reflexivity|apply Subseq_refl].
      + assert (Q2 : q0 (emit (EEnq (sg_id sg) t) (set_q s t (q_put (get_q s t) sg))) = q0 s).
        { unfold q0, get_q at 1. rewrite QS. reflexivity. }
        split; [rewrite QS; exact L|]. split; [rewrite Q2; exact Wq|]. split; [rewrite Q2; exact Fe|].
        split; [reflexivity|]. split; [reflexivity|]. split; [reflexivity|]. split; [exact TS|].
        exists [], []. unfold Qs, Flq. rewrite Q2, !app_nil_r. split; [reflexivity|]. split; [apply sub_nil|]. split; [reflexivity|apply sub_nil].
  Qed.

  (* enqueue_signal(Signal(...)) *)
  Lemma enq_raw s sp : length (qstore s) = 1 -> qwf (q0 s) -> Forall entok (eq_entries (q0 s)) ->
    (sp_b sp = true -> sp_cls sp = CLS_READY /\ sp_prio sp = 0%Z) -> (sp_cls sp = CLS_RECEIVED -> sp_prio sp = 0%Z) ->
    let s2 := do_enqueue (snd (new_signal s sp)) (fst (new_signal s sp)) in
    length (qstore s2) = 1 /\ qwf (q0 s2) /\ Forall entok (eq_entries (q0 s2)) /\
    ext s2 = ext s /\ handlers s2 = handlers s /\ ust s2 = ust s /\
    dlv (trace s2) = dlv (trace s) /\ nrecv (trace s2) = (if isrcs sp then 1 else 0) + nrecv (trace s) /\
    (nested (trace s) = true -> nested (trace s2) = true) /\
    exists a b, Qs s2 = Qs s ++ a /\ Subseq a (if sp_b sp then [sp_data sp] else []) /\
                Flq s2 = Flq s ++ b /\ Subseq b (if isrcs sp then [sp_data sp] else []).
  Proof.
    intros L Wq Fe H1 H2. unfold new_signal. cbn [fst snd]. set (sg := mk_signal (next_sig s) sp). set (s1 := emit _ _).
    destruct (enq_sig s1 sg L Wq Fe H1 H2) as (E1 & E2 & E3 & E4 & E5 & E6 & (T1 & T2 & T3) & a & b & E7 & E8 & E9 & E10).
    split; [exact E1|]. split; [exact E2|]. split; [exact E3|]. split; [exact E4|]. split; [exact E5|]. split; [exact E6|].
    split; [rewrite T1; unfold s1; cbn [trace emit set dlv]; unfold dl1; cbn [is_deliv]; apply app_nil_r|].
    split; [rewrite T2; reflexivity|]. split; [intros N; apply T3; unfold s1; cbn [trace emit set]; apply nested_cons, N|].
    exists a, b. auto.
  Qed.

  (* a signal handler code may create freely: nothing changes for Ord *)
  Lemma enq_ok s sp : okspec2 sp -> Ord s ->
    let s2 := do_enqueue (snd (new_signal s sp)) (fst (new_signal s sp)) in
    Ord s2 /\ Qs s2 = Qs s /\ Fl s2 = Fl s /\ cnt s2 = cnt s /\ dlv (trace s2) = dlv (trace s).
  Proof.
    intros [B C] O. cbv zeta.
    destruct (enq_raw s sp (o_q _ O) (o_wf _ O) (o_ent _ O)) as (E1 & E2 & E3 & E4 & E5 & E6 & E7 & E8 & E9 & a & b & E10 & E11 & E12 & E13).
    { intros X. congruence. } { intros X. contradiction. }
    set (s2 := do_enqueue _ _) in *.
    assert (R : isrcs sp = false) by (apply Nat.eqb_neq, C). rewrite R in *. rewrite B in *.
    apply Subseq_nil_inv in E11, E13. subst a b. rewrite app_nil_r in *.
    assert (V2 : Fl s2 = Fl s) by (unfold Fl; rewrite E12, E4; reflexivity).
    assert (V3 : cnt s2 = cnt s) by (unfold cnt; rewrite E8, E4; reflexivity).
    split; [|auto]. destruct O. constructor; rewrite ?E10, ?V2, ?V3, ?E4, ?E6, ?E7; auto.
    destruct o_tab0 as [T1 T2 T3]. constructor; rewrite ?E5, ?E6; auto.
  Qed.

  Lemma nested_enq s sp : nested (trace s) = true ->
    nested (trace (do_enqueue (snd (new_signal s sp)) (fst (new_signal s sp)))) = true.
  Proof.
    intros H. eapply nested_grow; [|exact H]. apply C10Proofs.tg_do_enqueue.
    unfold new_signal. cbn [snd]. apply C10Proofs.tg_emit. eapply C10Proofs.tg_same; [|apply C10Proofs.tg_refl]. reflexivity.
  Qed.

  Lemma Inv2_enq_ok s sp : okspec2 sp -> Inv2 s -> Inv2 (do_enqueue (snd (new_signal s sp)) (fst (new_signal s sp))).
  Proof. intros K [H|H]; [left; apply nested_enq, H|right; apply (enq_ok s sp K H)]. Qed.

  Lemma OT_enq sp : okspec2 sp -> OT (PApi (AEnqueue sp)).
  Proof.
    intros K n Q s HS HI HQ. eapply wpS_api_exact; [reflexivity|apply Inv2_A2, HI|]. apply HQ, Inv2_enq_ok; assumption.
  Qed.
  Lemma OT_api_keep a (fn : lst -> lst) : (forall s, api_exact a s = Some (fn s)) -> (forall s, skeep s (fn s)) -> OT (PApi a).
  Proof.
    intros E K n Q s HS HI HQ. eapply wpS_api_exact; [apply E|apply Inv2_A2, HI|]. apply HQ. eapply Inv2_keep; [apply K|exact HI].
  Qed.
  Lemma OT_force_quit : OT (PApi AForceQuit).
  Proof.
    eapply OT_api_keep; [intros s; reflexivity|]. intros s. eapply skeep_trans; [|apply skeep_emit; reflexivity].
    split; [reflexivity|]. split; [reflexivity|]. split; [reflexivity|]. split; [apply ukeep_refl|apply tsame_refl].
  Qed.
  Lemma OT_set_quit_cb arg : OT (PApi (ASetQuitCb arg)).
  Proof.
    eapply OT_api_keep; [intros s; reflexivity|]. intros s. eapply skeep_trans; [|apply skeep_emit; reflexivity].
    split; [reflexivity|]. split; [reflexivity|]. split; [reflexivity|]. split; [apply ukeep_refl|apply tsame_refl].
  Qed.
  Lemma OT_reg_source o : OT (PApi (ARegSource o)).
  Proof.
    intros n Q s HS HI HQ. eapply wpS_api_exact; [reflexivity|apply Inv2_A2, HI|]. apply HQ.
    destruct HI as [H|O]; [left; apply nested_cons, H|right].
    set (s1 := set_q s (active s) (q_add_source (get_q s (active s)) o)).
    assert (QS := q1_set s (active s) (q_add_source (get_q s (active s)) o) (o_q _ O)). fold s1 in QS.
    assert (Ent : eq_entries (q0 s1) = eq_entries (q0 s) /\ qwf (q0 s1) /\ qents (q0 s1) = qents (q0 s)).
    { destruct (active s =? 0)%nat eqn:Ea.
      - apply Nat.eqb_eq in Ea. rewrite Ea in *. rewrite (q0_of _ _ QS). change (get_q s 0) with (q0 s).
        split; [unfold q_add_source; destruct (existsb _ _); reflexivity|]. split; [apply q_add_source_qwf, (o_wf _ O)|apply qents_add_source].
      - assert (E : q0 s1 = q0 s) by (unfold q0, get_q; rewrite QS; reflexivity). rewrite E. split; [reflexivity|]. split; [apply (o_wf _ O)|reflexivity]. }
    destruct Ent as (E1 & E2 & E3).
    assert (V1 : Qs s1 = Qs s) by (unfold Qs; rewrite E3; reflexivity).
    assert (V2 : Fl s1 = Fl s) by (unfold Fl, Flq; rewrite E3; reflexivity).
    eapply Ord_keep; [apply skeep_emit; reflexivity|].
    destruct O as [a1 a2 a3 a4 a5 a6 a7 a8 a9]. constructor.
    - rewrite QS. destruct (active s =? 0)%nat; [reflexivity|exact a1].
    - exact E2.
    - rewrite E1. exact a3.
    - exact a4.
    - exact a5.
    - rewrite V2. exact a6.
    - rewrite V2. exact a7.
    - eapply Tab_keep; [| |exact a8]; reflexivity.
    - rewrite V1, V2. exact a9.
  Qed.

  (* ---------------------------------------------------------------- the handler table *)
  Lemma Tab_add s cls hid data u' : Tab s -> hid <> H_RECEIVED -> cls <> CLS_READY ->
    length (st_ih u') = length (st_ih (ust s)) ->
    Tab (emit (ERegHandler cls hid data) (s <| handlers := add_handler (handlers s) cls hid data |> <| ust := u' |>)).
  Proof.
    intros [T1 T2 T3] N1 N2 L. constructor; cbn [handlers ust emit set]; intros *; rewrite ?hlist_add.
    - destruct (c =? cls)%nat eqn:E; [|apply T1]. apply Nat.eqb_eq in E. subst c. intros X.
      destruct (Nat.lt_ge_cases i (length (hlist (handlers s) cls))) as [Li|Li].
      + rewrite nth_error_app1 in X by exact Li. eapply T1, X.
      + rewrite nth_error_app2 in X by exact Li. destruct (i - length (hlist (handlers s) cls)) as [|[|k]]; cbn in X; try discriminate X.
        inversion X. contradiction.
    - assert (E : (CLS_READY =? cls)%nat = false) by (apply Nat.eqb_neq; congruence). rewrite E. apply T2.
    - assert (E : (CLS_READY =? cls)%nat = false) by (apply Nat.eqb_neq; congruence). rewrite E, L. exact T3.
  Qed.
  Lemma OT_reg_handler cls hid data : hid <> H_RECEIVED -> cls <> CLS_READY -> OT (PApi (ARegHandler cls hid data)).
  Proof.
    intros N1 N2 n Q s HS HI HQ. eapply wpS_api_exact; [reflexivity|apply Inv2_A2, HI|]. apply HQ.
    destruct HI as [H|O]; [left; apply nested_cons, H|right].
    apply (Ord_change s); [reflexivity|reflexivity|reflexivity|auto|apply (tsame_cons (ERegHandler cls hid data) (trace s)); reflexivity| |exact O].
    pose proof (Tab_add s cls hid data (ust s) (o_tab _ O) N1 N2 eq_refl) as T. eapply Tab_keep; [| |exact T]; reflexivity.
  Qed.

  (* ---------------------------------------------------------------- InputHandler(): one more handler of InputReadySignal *)
  Lemma Tab_add_ready s s' h : Tab s -> st_ih (ust s') = st_ih (ust s) ++ [h] ->
    handlers s' = add_handler (handlers s) CLS_READY (H_READY (length (st_ih (ust s)))) 0 -> Tab s'.
  Proof.
    intros [T1 T2 T3] U H. constructor; rewrite H; intros *; rewrite ?hlist_add.
    - destruct (c =? CLS_READY)%nat eqn:E; [|apply T1]. apply Nat.eqb_eq in E. subst c. intros X.
      destruct (Nat.lt_ge_cases i (length (hlist (handlers s) CLS_READY))) as [Li|Li].
      + rewrite nth_error_app1 in X by exact Li. eapply T1, X.
      + rewrite nth_error_app2 in X by exact Li. destruct (i - length (hlist (handlers s) CLS_READY)) as [|[|k]]; cbn in X; try discriminate X.
    - rewrite Nat.eqb_refl. intros X.
      destruct (Nat.lt_ge_cases i (length (hlist (handlers s) CLS_READY))) as [Li|Li].
      + rewrite nth_error_app1 in X by exact Li. eapply T2, X.
      + rewrite nth_error_app2 in X by exact Li.
        destruct (i - length (hlist (handlers s) CLS_READY)) as [|[|k]] eqn:D; cbn in X; try discriminate X.
        assert (Ei : i = length (st_ih (ust s))) by lia. inversion X. rewrite Ei. reflexivity.
    - rewrite Nat.eqb_refl, U, !app_length, T3. reflexivity.
  Qed.

  Lemma OT_new_input_handler src owner cb k : (forall m, OT (k m)) -> OT (new_input_handler src owner cb k).
  Proof.
    intros Hk n Q s HS HI HQ. destruct HI as [H|O].
    { apply W2_nested; [exact H|]. intros o s' H'. apply HQ. left. exact H'. }
    assert (AS : A2 s) by (apply Inv2_A2; right; exact O).
    unfold new_input_handler, rd. apply wpS_st; [exact AS|]. cbn [fst snd]. rewrite set_ust_same. cbv zeta.
    apply wpS_seq. unfold wr. apply wpS_st; [exact AS|]. cbn [fst snd].
    apply wpS_ret; [eapply A2_tsame; [|exact AS]; apply tsame_refl|].
    apply wpS_seq. eapply wpS_api_exact; [reflexivity|eapply A2_tsame; [|exact AS]; apply tsame_refl|].
    apply Hk; [exact HS| |exact HQ]. right.
    apply (Ord_change s); [reflexivity|reflexivity|reflexivity|auto| | |exact O].
    - apply (tsame_cons (ERegHandler CLS_READY (H_READY (length (st_ih (ust s)))) 0) (trace s)). reflexivity.
    - eapply (Tab_add_ready s); [apply (o_tab _ O)|reflexivity|reflexivity].
  Qed.

  (* ---------------------------------------------------------------- start_input_thread: a reader takes the next typed line *)
  Lemma firstn_lines c l r : skipn c typed = l :: r -> firstn (S c) lines = firstn c lines ++ [line_of l] /\ skipn (S c) typed = r.
  Proof.
    intros E. destruct (firstn_S_skipn _ _ _ _ E) as [A B]. split; [|exact B].
    unfold lines. rewrite !firstn_map, A, map_app. reflexivity.
  Qed.

  Lemma Ord_take s2 s4 l r b : Ord s2 -> Fl s2 = [] -> st_typed (ust s2) = l :: r ->
    length (qstore s4) = 1 -> qwf (q0 s4) -> Forall entok (eq_entries (q0 s4)) -> Forall extok (ext s4) ->
    st_typed (ust s4) = r -> st_processing (ust s4) = true -> Tab s4 ->
    dlv (trace s4) = dlv (trace s2) -> cnt s4 = S (cnt s2) -> Qs s4 = Qs s2 -> Fl s4 = b -> Subseq b [line_of l] -> Ord s4.
  Proof.
    intros O F T H1 H2 H3 H4 H5 H6 H7 H8 H9 H10 H11 H12.
    rewrite (o_typed _ O) in T. destruct (firstn_lines _ _ _ T) as [FL SK].
    constructor; auto.
    - rewrite H9, H5, SK. reflexivity.
    - rewrite H11. apply Subseq_length in H12. exact H12.
    - rewrite H6. discriminate.
    - rewrite H8, H9, H10, H11, FL. pose proof (o_sub _ O) as S0. rewrite F, app_nil_r in S0.
      rewrite app_assoc. apply Subseq_app; assumption.
  Qed.

  Lemma OT_sit_tail req : OT (rd (fun u => if st_processing u then ev T_PROMPT [req; 1]
                                           else wr (fun u => u <| st_processing := true |>) ;; start_thread req)).
  Proof.
    intros n Q s HS HI HQ. destruct HI as [H|O].
    { apply W2_nested; [exact H|]. intros o s' H'. apply HQ. left. exact H'. }
    assert (AS : A2 s) by (apply Inv2_A2; right; exact O).
    unfold rd at 1. apply wpS_st; [exact AS|]. cbn [fst snd]. rewrite set_ust_same.
    destruct (st_processing (ust s)) eqn:P.
    { apply (OT_emit (EUser T_PROMPT [req; 1] [])); [reflexivity|exact HS|right; exact O|exact HQ]. }
    pose proof (o_proc _ O P) as F0.
    apply wpS_seq. unfold wr at 1. apply wpS_st; [exact AS|]. cbn [fst snd].
    set (s1 := s <| ust := ust s <| st_processing := true |> |>).
    assert (O1 : Ord s1).
    { apply (Ord_change s); [reflexivity|reflexivity|reflexivity|cbn; discriminate|apply tsame_refl| |exact O].
      eapply Tab_keep; [| |apply (o_tab _ O)]; reflexivity. }
    assert (A1 : A2 s1) by (apply Inv2_A2; right; exact O1).
    apply wpS_ret; [exact A1|].
    unfold start_thread. apply wpS_seq.
    set (s2 := emit (user_event (EUser T_PROMPT [req; 0] [])) s1).
    assert (O2 : Ord s2) by (eapply Ord_keep; [apply skeep_emit; reflexivity|exact O1]).
    assert (A2' : A2 s2) by (apply Inv2_A2; right; exact O2).
    apply wpS_emit; [exact A1|exact A2'|]. fold s2.
    assert (F2 : Fl s2 = []) by exact F0.
    unfold rd. apply wpS_st; [exact A2'|]. cbn [fst snd]. rewrite set_ust_same.
    destruct (st_typed (ust s2)) as [|l r] eqn:TY.
    { apply wpS_ret; [exact A2'|]. apply HQ. right. exact O2. }
    apply wpS_seq. unfold wr. apply wpS_st; [exact A2'|]. cbn [fst snd].
    set (s3 := s2 <| ust := ust s2 <| st_typed := r |> |>).
    assert (A3 : A2 s3) by (eapply A2_tsame; [|exact A2']; apply tsame_refl).
    apply wpS_ret; [exact A3|].
    assert (FQ : Flq s2 = [] /\ ext s2 = []).
    { unfold Fl in F2. apply app_eq_nil in F2. destruct F2 as [X Y]. split; [exact X|]. destruct (ext s2); [reflexivity|discriminate Y]. }
    destruct FQ as [FQ1 FQ2].
    set (ln := match l with Some x => x | None => [] end). change ln with (line_of l).
    destruct (st_typeahead (ust s2)).
    - (* the user has typed ahead: the reader's InputReceivedSignal is queued now *)
      eapply wpS_api_exact; [reflexivity|exact A3|]. apply HQ. right.
      destruct (enq_raw s3 (received_spec req (line_of l)) (o_q _ O2) (o_wf _ O2) (o_ent _ O2))
        as (E1 & E2 & E3 & E4 & E5 & E6 & E7 & E8 & E9 & a & b & E10 & E11 & E12 & E13).
      { intros X. discriminate X. } { intros _. reflexivity. }
      cbn [sp_b sp_data received_spec isrcs sp_cls Nat.eqb CLS_RECEIVED] in E8, E11, E13.
      apply Subseq_nil_inv in E11. subst a. rewrite app_nil_r in E10.
      eapply (Ord_take s2 _ l r b); [exact O2|exact F2|exact TY|exact E1|exact E2|exact E3| | | | | | | | |exact E13].
      + rewrite E4. apply (o_ext _ O2).
      + rewrite E6. reflexivity.
      + rewrite E6. reflexivity.
      + eapply Tab_keep; [exact E5|rewrite E6; reflexivity|]. eapply Tab_keep; [| |apply (o_tab _ O2)]; reflexivity.
      + exact E7.
      + unfold cnt. rewrite E8, E4. reflexivity.
      + exact E10.
      + unfold Fl. rewrite E12, E4. change (Flq s3) with (Flq s2). change (ext s3) with (ext s2). rewrite FQ1, FQ2. apply app_nil_r.
    - (* the line arrives later: the thread will submit the signal *)
      eapply wpS_api_exact; [reflexivity|exact A3|]. apply HQ. right.
      eapply (Ord_take s2 _ l r [line_of l]); [exact O2|exact F2|exact TY|apply (o_q _ O2)|apply (o_wf _ O2)|apply (o_ent _ O2)| | | | | | | | |apply Subseq_refl].
      + cbn [ext set]. change (ext s3) with (ext s2). apply Forall_app. split; [apply (o_ext _ O2)|]. constructor; [|constructor]. repeat split.
      + reflexivity.
      + reflexivity.
      + eapply Tab_keep; [| |apply (o_tab _ O2)]; reflexivity.
      + reflexivity.
      + unfold cnt. cbn [ext trace set]. change (ext s3) with (ext s2). change (trace s3) with (trace s2). rewrite app_length. cbn [length]. lia.
      + reflexivity.
      + unfold Fl. cbn [ext set]. change (ext s3) with (ext s2). change (Flq (s3 <| ext := ext s2 ++ [received_spec req (line_of l)] |>)) with (Flq s2).
        rewrite FQ1, FQ2. reflexivity.
  Qed.

  Lemma OT_start_input_thread req check : OT (start_input_thread req check).
  Proof.
    unfold start_input_thread. apply OT_seq; [apply OT_wr; intros u; repeat split|]. apply OT_rd. intros u.
    apply OT_seq; [|apply OT_sit_tail].
    destruct (negb (length (st_istack u) =? 1)%nat && check); [|apply OT_ret].
    apply OT_seq; [apply (OT_emit (EUser T_REFUSED (rev (st_istack u)) [])); reflexivity|].
    apply OT_seq; [apply OT_wr; intros u'; repeat split|apply OT_throw].
  Qed.

  (* ---------------------------------------------------------------- safe programs *)
  Definition api_ok (a : api) : Prop :=
    match a with
    | AEnqueue sp | ANewLoop sp => okspec2 sp
    | ARegHandler cls hid _ => hid <> H_RECEIVED /\ cls <> CLS_READY
    | AExtAdd _ => False
    | _ => True
    end.
  Inductive Safe : sprog -> Prop :=
  | S_ret : Safe PRet
  | S_throw e : Safe (PThrow e)
  | S_seq p q : Safe p -> Safe q -> Safe (PSeq p q)
  | S_try p h : Safe p -> Safe h -> Safe (PTry p h)
  | S_st g : (forall u, ukeep u (fst (g u))) -> (forall u, Safe (snd (g u))) -> Safe (PSt g)
  | S_while c b : Safe b -> Safe (PWhile c b)
  | S_emit e : quiet (user_event e) = true -> Safe (PEmit e)
  | S_api a : api_ok a -> Safe (PApi a)
  | S_sit req check : Safe (start_input_thread req check)
  | S_nih src owner cb k : (forall m, Safe (k m)) -> Safe (new_input_handler src owner cb k).

  Theorem Safe_OT p : Safe p -> OT p.
  Proof.
    induction 1 as [|e|p q _ IHp _ IHq|p h _ IHp _ IHh|g H _ IH|c b _ IHb|e He|a Ha|req check|src owner cb k _ IH].
    - apply OT_ret.
    - apply OT_throw.
    - apply OT_seq; assumption.
    - apply OT_try; assumption.
    - apply OT_st. intros u. split; [apply H|apply IH].
    - apply OT_while, IHb.
    - apply OT_emit, He.
    - destruct a; cbn [api_ok] in Ha; try contradiction.
      + apply OT_enq, Ha.
      + apply OT_force_quit.
      + apply OT_rec. exact Ha.
      + apply OT_rec. exact I.
      + apply OT_rec. exact I.
      + apply OT_reg_source.
      + apply OT_reg_handler; apply Ha.
      + apply OT_set_quit_cb.
    - apply OT_start_input_thread.
    - apply OT_new_input_handler, IH.
  Qed.

  Lemma S_rd (f : sstate -> sprog) : (forall u, Safe (f u)) -> Safe (rd f).
  Proof. intros H. apply S_st; intros u; [apply ukeep_refl|apply H]. Qed.
  Lemma S_wr (g : sstate -> sstate) : (forall u, ukeep u (g u)) -> Safe (wr g).
  Proof. intros H. apply S_st; intros u; [apply H|apply S_ret]. Qed.
  Lemma S_ev tag a t : quiet (EUser tag a t) = true -> Safe (evt tag a t).
  Proof. intros H. apply S_emit, H. Qed.

  (* ---------------------------------------------------------------- the screens' code is safe *)
  Ltac uk := intros; first [ repeat split; reflexivity
                           | unfold ukeep, upd_ih, upd_scr; cbn [st_typed st_processing st_ih set]; rewrite ?upd_nth_length;
                             repeat split; reflexivity ].
  Ltac okk :=
    lazymatch goal with
    | |- okspec2 _ => split; [reflexivity|first [discriminate | cbn [sp_cls]; unfold CLS_CUSTOM, CLS_RECEIVED, CLS_EXCEPTION; destruct (_ =? 99)%nat; lia]]
    | |- True => exact I
    | |- _ /\ _ => split; [unfold H_CUSTOM, H_RECEIVED; lia|unfold CLS_CUSTOM, CLS_READY, CLS_EXCEPTION; destruct (_ =? 99)%nat; lia]
    end.
  Ltac hd t := lazymatch t with ?f _ => hd f | _ => t end.
  Ltac safe_step :=
    lazymatch goal with
    | |- Safe (start_input_thread _ _) => apply S_sit
    | |- Safe (new_input_handler _ _ _ _) => apply S_nih; intros ?
    | |- Safe PRet => apply S_ret
    | |- Safe (PThrow _) => apply S_throw
    | |- Safe (PSeq _ _) => apply S_seq
    | |- Safe (PTry _ _) => apply S_try
    | |- Safe (PWhile _ _) => apply S_while
    | |- Safe (rd _) => apply S_rd; intros ?; cbv zeta
    | |- Safe (wr _) => apply S_wr; uk
    | |- Safe (ev _ _) => apply S_ev; reflexivity
    | |- Safe (evt _ _ _) => apply S_ev; reflexivity
    | |- Safe (PApi _) => apply S_api; cbn [api_ok]; okk
    | |- Safe (if ?c then _ else _) => destruct c
    | |- Safe (match ?x with _ => _ end) => destruct x
    | |- Safe ?p => first [ assumption | solve [auto with safe nocore] | let h := hd p in unfold h ]
    end.
  Ltac safe := repeat safe_step.

  Lemma Safe_sched_redraw : Safe sched_redraw.
  Proof. safe. Qed.
  Lemma Safe_exc : Safe raise_exception_signal.
  Proof. safe. Qed.
  Hint Resolve Safe_sched_redraw Safe_exc : safe.
  Lemma Safe_emit_failed_all l : Safe (emit_failed_all l).
  Proof. induction l as [|r l IH]; cbn [emit_failed_all]; safe. Qed.
  Lemma Safe_handler_get_input k skip : Safe (handler_get_input k skip).
  Proof. safe. Qed.
  Hint Resolve Safe_emit_failed_all Safe_handler_get_input : safe.
  Lemma Safe_get_input_blocking scr : Safe (get_input_blocking specs scr).
  Proof. safe. Qed.
  Lemma Safe_handler_ask self h skip : Safe (handler_ask self h skip).
  Proof. safe. Qed.
  Lemma Safe_handler_wait h : Safe (handler_wait h).
  Proof. safe. Qed.
  Hint Resolve Safe_get_input_blocking Safe_handler_ask Safe_handler_wait : safe.

  Lemma Safe_do_scmd cn : Safe cn -> forall c self cnt, Safe (do_scmd specs cn self cnt c).
  Proof.
    intros Hcn c. induction c using scmd_ind'.
    - intros self cnt. destruct c; try contradiction; cbn [do_scmd]; safe.
    - intros self cnt. cbn [do_scmd].
      assert (SEQ : forall l, Forall (fun c => forall self cnt, Safe (do_scmd specs cn self cnt c)) l ->
                    Safe ((fix seq (l : list scmd) : sprog := match l with [] => PRet | x :: r => do_scmd specs cn self cnt x ;; seq r end) l)).
      { induction l as [|x r IHr]; intros F; [apply S_ret|]. inversion F; subst. apply S_seq; [auto|apply IHr; assumption]. }
      destruct (cnt <? k)%nat; apply SEQ; assumption.
  Qed.
  Lemma Safe_do_scmds cn : Safe cn -> forall l self cnt, Safe (do_scmds specs cn self cnt l).
  Proof.
    intros Hcn l self cnt. induction l as [|x r IH]; cbn [do_scmds]; [apply S_ret|]. apply S_seq; [apply Safe_do_scmd, Hcn|exact IH].
  Qed.
  Lemma Safe_call_closed d : Safe (call_closed specs d).
  Proof. unfold call_closed. safe. apply Safe_do_scmds. safe. Qed.
  Hint Resolve Safe_call_closed : safe.
  Lemma Safe_close_screen cf : Safe (close_screen specs cf).
  Proof. unfold close_screen, ev_stack. safe. Qed.
  Hint Resolve Safe_close_screen : safe.
  Lemma Safe_run_cmds self cnt l : Safe (run_cmds specs self cnt l).
  Proof. unfold run_cmds. apply Safe_do_scmds. apply Safe_close_screen. Qed.
  Hint Resolve Safe_run_cmds : safe.
  Lemma Safe_call_setup d : Safe (call_setup specs d).
  Proof. unfold call_setup. safe. Qed.
  Lemma Safe_call_refresh d : Safe (call_refresh specs d).
  Proof. unfold call_refresh. safe. Qed.
  Lemma Safe_ask_pages scr k : Safe (ask_pages specs scr k).
  Proof. induction k as [|k IH]; cbn [ask_pages]; safe. Qed.
  Hint Resolve Safe_call_setup Safe_call_refresh Safe_ask_pages : safe.
  Lemma Safe_call_show_all d : Safe (call_show_all specs d).
  Proof. unfold call_show_all. safe. Qed.
  Lemma Safe_call_input scr key : Safe (call_input specs scr key).
  Proof. unfold call_input. safe. Qed.
  Lemma Safe_get_input scr args : Safe (get_input specs scr args).
  Proof. unfold get_input. safe. Qed.
  Hint Resolve Safe_call_show_all Safe_call_input Safe_get_input : safe.
  Lemma Safe_process_input_result act b : Safe (process_input_result specs act b).
  Proof. unfold process_input_result, with_top, push_screen_modal. safe; apply Safe_do_scmd; safe. Qed.
  Hint Resolve Safe_process_input_result : safe.
  Lemma Safe_process_input scr line : Safe (process_input specs scr line).
  Proof. unfold process_input. safe. Qed.
  Lemma Safe_draw_screen d : Safe (draw_screen specs d).
  Proof. unfold draw_screen. safe. Qed.
  Hint Resolve Safe_process_input Safe_draw_screen : safe.
  Lemma Safe_process_screen : Safe (process_screen specs).
  Proof. unfold process_screen, with_top. safe. Qed.
  Lemma Safe_custom_handler k sg scr : Safe (custom_handler specs k sg scr).
  Proof. unfold custom_handler. safe. Qed.

  (* ---------------------------------------------------------------- the handlers *)
  Definition HPost2 s (sg : signal) (idx hid : nat) (o : outcome) (s2 : lst) : Prop :=
    let s3 := emit (EHandlerEnd hid (sg_id sg) (how_of o)) s2 in Inv2 s3 /\ R2 s s3 /\ SigPre2 sg (S idx) s3.

  Lemma Inv2_emit e s : quiet e = true -> Inv2 s -> Inv2 (emit e s).
  Proof. intros Qe. apply Inv2_keep, skeep_emit, Qe. Qed.

  Lemma Safe_ready_fail k sg : sg_b sg = false -> Safe (input_ready_handler specs k sg).
  Proof. intros B. unfold input_ready_handler. rewrite B. cbn [negb b2n]. safe. Qed.
  Lemma Safe_screen_code hid sg data : hid <> H_RECEIVED -> sg_b sg = false -> Safe (screen_code specs hid sg data).
  Proof.
    intros N B. unfold screen_code. destruct (hid =? H_RENDER)%nat; [apply Safe_process_screen|].
    destruct (hid =? H_CLOSE)%nat; [apply Safe_close_screen|].
    destruct (hid =? H_RECEIVED)%nat eqn:E; [apply Nat.eqb_eq in E; contradiction|].
    destruct (10 <=? hid)%nat; [apply Safe_ready_fail, B|].
    destruct (3 <=? hid)%nat; [apply Safe_custom_handler|apply S_ret].
  Qed.

  (* a handler that is safe, for a signal that is no successful ready signal *)
  Lemma handler_safe p n s sg idx hid data : Safe p -> SP2 n -> Inv2 s -> sg_b sg = false ->
    W2 n p (HPost2 s sg idx hid) (emit (EHandler hid (sg_id sg) data) s).
  Proof.
    intros Hp HS HI B. apply (Safe_OT p Hp); [exact HS|apply Inv2_emit; [reflexivity|exact HI]|].
    intros o s2 HI2. unfold HPost2. cbv zeta. split; [apply Inv2_emit; [reflexivity|exact HI2]|]. split; [exact I|].
    right. split; [intros X; congruence|intros _ X; discriminate X].
  Qed.

  Lemma Ord_set_sub s s' : Ord s -> skeep s s' -> Ord s'.
  Proof. intros O K. eapply Ord_keep; eauto. Qed.

  (* the hand-off: the line goes to the most recent requester as a successful ready signal, queued last *)
  Lemma enq_ready s src h d : Ord s -> Fl s = [] -> Subseq (dlv (trace s) ++ Qs s ++ [d]) (firstn (cnt s) lines) ->
    let s2 := do_enqueue (snd (new_signal s (ready_spec src h d true))) (fst (new_signal s (ready_spec src h d true))) in
    Ord s2 /\ Fl s2 = [].
  Proof.
    intros O F S0. cbv zeta.
    destruct (enq_raw s (ready_spec src h d true) (o_q _ O) (o_wf _ O) (o_ent _ O))
      as (E1 & E2 & E3 & E4 & E5 & E6 & E7 & E8 & E9 & a & b & E10 & E11 & E12 & E13).
    { intros _. split; reflexivity. } { intros X. discriminate X. }
    set (s2 := do_enqueue _ _) in *.
    cbn [sp_b sp_data ready_spec isrcs sp_cls Nat.eqb CLS_READY CLS_RECEIVED] in E8, E11, E13.
    apply Subseq_nil_inv in E13. subst b. rewrite app_nil_r in E12.
    assert (V2 : Fl s2 = Fl s) by (unfold Fl; rewrite E12, E4; reflexivity).
    assert (V3 : cnt s2 = cnt s) by (unfold cnt; rewrite E8, E4; reflexivity).
    split; [|rewrite V2; exact F].
    destruct O as [a1 a2 a3 a4 a5 a6 a7 a8 a9]. constructor; rewrite ?V2, ?V3, ?E4, ?E6; auto.
    - destruct a8 as [T1 T2 T3]. constructor; rewrite ?E5, ?E6; auto.
    - rewrite E7, E10, F, app_nil_r. eapply Subseq_trans; [|exact S0]. apply Subseq_app; [apply Subseq_refl|].
      apply Subseq_app; [apply Subseq_refl|exact E11].
  Qed.

  Lemma W_failed_all n l Q s : Ord s -> Fl s = [] -> (forall s', Ord s' -> Fl s' = [] -> Q ONormal s') ->
    W2 n (emit_failed_all l) Q s.
  Proof.
    revert s. induction l as [|r l IH]; intros s O F HQ; cbn [emit_failed_all].
    - apply wpS_ret; [apply Inv2_A2; right; exact O|apply HQ; assumption].
    - apply wpS_seq. unfold emit_ready, rd. apply wpS_st; [apply Inv2_A2; right; exact O|]. cbn [fst snd]. rewrite set_ust_same.
      eapply wpS_api_exact; [reflexivity|apply Inv2_A2; right; exact O|].
      destruct (enq_ok s (ready_spec (ih_src (ih_of (ust s) r)) r [] false)) as (O2 & _ & F2 & _); [split; [reflexivity|discriminate]|exact O|].
      apply IH; [exact O2|rewrite F2; exact F|exact HQ].
  Qed.

  Lemma H_received2 n s sg data : SP2 n -> Ord s -> Fl s = [] ->
    Subseq (dlv (trace s) ++ Qs s ++ [sg_data sg]) (firstn (cnt s) lines) -> sg_b sg = false ->
    W2 n (input_received_handler sg) (HPost2 s sg 0 H_RECEIVED) (emit (EHandler H_RECEIVED (sg_id sg) data) s).
  Proof.
    intros HS O F S0 B.
    set (s0 := emit (EHandler H_RECEIVED (sg_id sg) data) s).
    assert (K0 : skeep s s0) by (apply skeep_emit; reflexivity).
    assert (O0 : Ord s0) by (eapply Ord_keep; eauto).
    destruct (skeep_views _ _ K0) as (_ & V1 & V2 & V3 & V4).
    assert (FIN : forall o s2, Inv2 s2 -> HPost2 s sg 0 H_RECEIVED o s2).
    { intros o s2 HI2. unfold HPost2. cbv zeta. split; [apply Inv2_emit; [reflexivity|exact HI2]|]. split; [exact I|].
      right. split; [intros X; congruence|intros _ X; discriminate X]. }
    assert (A0 : A2 s0) by (apply Inv2_A2; right; exact O0).
    unfold input_received_handler, rd at 1. apply wpS_st; [exact A0|]. cbn [fst snd]. rewrite set_ust_same.
    destruct (st_istack (ust s0)) as [|top rest].
    { apply wpS_throw; [exact A0|]. cbn. apply FIN. right. exact O0. }
    apply wpS_seq. unfold wr at 1. apply wpS_st; [exact A0|]. cbn [fst snd].
    set (s1 := s0 <| ust := ust s0 <| st_istack := rest |> |>).
    assert (K1 : skeep s0 s1) by (apply skeep_ust; repeat split).
    assert (O1 : Ord s1) by (eapply Ord_keep; eauto).
    destruct (skeep_views _ _ K1) as (_ & W1 & W2' & W3 & W4).
    apply wpS_ret; [apply Inv2_A2; right; exact O1|].
    apply wpS_seq. unfold emit_ready, rd. apply wpS_st; [apply Inv2_A2; right; exact O1|]. cbn [fst snd]. rewrite set_ust_same.
    eapply wpS_api_exact; [reflexivity|apply Inv2_A2; right; exact O1|].
    destruct (enq_ready s1 (ih_src (ih_of (ust s1) top)) top (sg_data sg) O1) as [O2 F2].
    { rewrite W2', V2. exact F. } { rewrite W4, W1, W3, V4, V1, V3. exact S0. }
    apply wpS_seq. apply W_failed_all; [exact O2|exact F2|]. intros s3 O3 F3.
    unfold wr. apply wpS_st; [apply Inv2_A2; right; exact O3|]. cbn [fst snd].
    set (s4 := s3 <| ust := _ |>).
    assert (O4 : Ord s4).
    { assert (F4 : Fl s4 = []) by exact F3.
      destruct O3 as [a1 a2 a3 a4 a5 a6 a7 a8 a9]. constructor; auto.
      eapply Tab_keep; [| |exact a8]; reflexivity. }
    apply wpS_ret; [apply Inv2_A2; right; exact O4|]. apply FIN. right. exact O4.
  Qed.

  Lemma Ord_deliver s i d : Ord s -> Subseq (dlv (trace s) ++ [d] ++ Qs s ++ Fl s) (firstn (cnt s) lines) ->
    Ord (emit (EUser T_READY [i; 1] d) s).
  Proof.
    intros O S0. destruct O as [a1 a2 a3 a4 a5 a6 a7 a8 a9]. constructor; auto.
    - eapply Tab_keep; [| |exact a8]; reflexivity.
    - change (dlv (trace (emit (EUser T_READY [i; 1] d) s))) with (dlv (trace s) ++ [d]).
      change (Qs (emit (EUser T_READY [i; 1] d) s)) with (Qs s). change (Fl (emit (EUser T_READY [i; 1] d) s)) with (Fl s).
      change (cnt (emit (EUser T_READY [i; 1] d) s)) with (cnt s). rewrite <- app_assoc. exact S0.
  Qed.

  (* InputHandler idx gets a successful ready signal: the delivery *)
  Lemma H_ready2 n s sg idx data : SP2 n -> Ord s -> sg_b sg = true -> sg_cls sg = CLS_READY ->
    (idx <= sg_a sg -> Subseq (dlv (trace s) ++ [sg_data sg] ++ Qs s ++ Fl s) (firstn (cnt s) lines)) ->
    W2 n (input_ready_handler specs idx sg) (HPost2 s sg idx (H_READY idx)) (emit (EHandler (H_READY idx) (sg_id sg) data) s).
  Proof.
    intros HS O B CL SL.
    set (s0 := emit (EHandler (H_READY idx) (sg_id sg) data) s).
    assert (K0 : skeep s s0) by (apply skeep_emit; reflexivity).
    assert (O0 : Ord s0) by (eapply Ord_keep; eauto).
    destruct (skeep_views _ _ K0) as (_ & V1 & V2 & V3 & V4).
    assert (A0 : A2 s0) by (apply Inv2_A2; right; exact O0).
    unfold input_ready_handler. destruct (sg_a sg =? idx)%nat eqn:EA; cbn [negb].
    - apply Nat.eqb_eq in EA. specialize (SL ltac:(lia)).
      assert (FIN : forall o s2, Inv2 s2 -> HPost2 s sg idx (H_READY idx) o s2).
      { intros o s2 HI2. unfold HPost2. cbv zeta. split; [apply Inv2_emit; [reflexivity|exact HI2]|]. split; [exact I|].
        right. split; [intros _; split; [exact CL|intros L; lia]|intros X; rewrite CL in X; discriminate X]. }
      apply wpS_seq. unfold wr at 1. apply wpS_st; [exact A0|]. cbn [fst snd].
      set (s1 := s0 <| ust := _ |>).
      assert (K1 : skeep s0 s1) by (apply skeep_ust; uk).
      assert (O1 : Ord s1) by (eapply Ord_keep; eauto).
      destruct (skeep_views _ _ K1) as (_ & W1 & W2' & W3 & W4).
      apply wpS_ret; [apply Inv2_A2; right; exact O1|].
      rewrite B. cbn [b2n negb].
      assert (O2 : Ord (emit (EUser T_READY [idx; 1] (sg_data sg)) s1)).
      { apply Ord_deliver; [exact O1|]. rewrite W4, W1, W2', W3, V4, V1, V2, V3. exact SL. }
      apply wpS_seq. unfold evt. apply wpS_emit; [apply Inv2_A2; right; exact O1|apply Inv2_A2; right; exact O2|].
      cbn [user_event].
      assert (ST : Safe (wr (upd_ih idx (fun h => h <| ih_value := Some (sg_data sg) |>)) ;;
                         rd (fun u => if ih_cb (ih_of u idx)
                                      then wr (upd_ih idx (fun h => h <| ih_cb := false |>)) ;;
                                           wr (upd_scr (ih_owner (ih_of u idx)) (fun x => x <| ss_input_args := ih_args (ih_of u idx) |>)) ;;
                                           process_input specs (ih_owner (ih_of u idx)) (sg_data sg)
                                      else PRet))) by safe.
      apply (Safe_OT _ ST); [exact HS|right; exact O2|exact FIN].
    - (* another handler's signal: nothing happens, the slot stays *)
      apply Nat.eqb_neq in EA. apply wpS_ret; [exact A0|]. unfold HPost2. cbv zeta.
      set (s3 := emit _ s0).
      assert (K3 : skeep s s3) by (eapply skeep_trans; [exact K0|apply skeep_emit; reflexivity]).
      split; [right; eapply Ord_keep; eauto|]. split; [exact I|].
      right. destruct (skeep_views _ _ K3) as (_ & X1 & X2 & X3 & X4).
      split; [intros _; split; [exact CL|intros L; rewrite X4, X1, X2, X3; apply SL; lia]|intros X; rewrite CL in X; discriminate X].
  Qed.

  (* ---------------------------------------------------------------- the loop's own steps *)
  Lemma same_skeep s s' : same_fq s s' -> skeep s s'.
  Proof.
    intros (T & U & E & Qe & H). split; [exact Qe|]. split; [exact E|]. split; [exact H|].
    split; [rewrite U; apply ukeep_refl|rewrite T; apply tsame_refl].
  Qed.
  Lemma G2_same s s' : same_fq s s' -> Inv2 s -> Inv2 s' /\ R2 s s'.
  Proof. intros K HI. split; [eapply Inv2_keep; [apply same_skeep, K|exact HI]|exact I]. Qed.
  Lemma G2_same_sig s s' sg i : same_fq s s' -> SigPre2 sg i s -> SigPre2 sg i s'.
  Proof. intros K. apply SigPre2_keep, same_skeep, K. Qed.
  Lemma G2_ev s e : neutral e = true -> Inv2 s -> Inv2 (emit e s) /\ R2 s (emit e s).
  Proof.
    intros NE HI. split; [|exact I]. destruct e; try discriminate NE; (apply Inv2_emit; [reflexivity|exact HI]).
  Qed.
  Lemma G2_kill s : Inv2 s -> A2 (emit EKill s).
  Proof. intros HI. eapply A2_tsame; [apply tsame_cons; reflexivity|apply Inv2_A2, HI]. Qed.
  Lemma G2_unwind s h sid : A2 s -> A2 (emit (EHandlerEnd h sid (Some XSysExit)) s).
  Proof. intros HA. eapply A2_tsame; [apply tsame_cons; reflexivity|exact HA]. Qed.

  Lemma pop_lists q m q' : qwf q -> q_pop q = Some (m, q') ->
    map edata (filter isrs (qents q)) = (if isrs m then [edata m] else []) ++ map edata (filter isrs (qents q')) /\
    map edata (filter isrc (qents q)) = (if isrc m then [edata m] else []) ++ map edata (filter isrc (qents q')).
  Proof.
    intros Wq P. rewrite (qents_pop _ _ _ Wq P). cbn [filter]. destruct (isrs m), (isrc m); split; reflexivity.
  Qed.

  Lemma active0 s p c sg q' : length (qstore s) = 1 -> q_pop (get_q s (active s)) = Some ((p, c, sg), q') -> active s = 0.
  Proof.
    intros L P. destruct (active s) as [|k]; [reflexivity|]. exfalso. unfold get_q in P. rewrite (q1_get s L) in P.
    destruct k; cbn in P; discriminate P.
  Qed.

  Lemma G2_pop s p c sg q' : Inv2 s -> q_pop (get_q s (active s)) = Some ((p, c, sg), q') ->
    let s1 := emit (EDispatch (sg_id sg) (active s) (length (levels s))) (set_q s (active s) q') in
    Inv2 s1 /\ R2 s s1 /\ SigPre2 sg 0 s1.
  Proof.
    intros [H|O] P; cbv zeta.
    { split; [left; apply nested_cons, H|]. split; [exact I|left; apply nested_cons, H]. }
    pose proof (active0 _ _ _ _ _ (o_q _ O) P) as A0. rewrite A0 in *. change (get_q s 0) with (q0 s) in P.
    set (m := (p, c, sg)) in *.
    pose proof (o_wf _ O) as Wq.
    destruct (pop_lists _ _ _ Wq P) as [L1 L2].
    destruct (q_pop_sorted _ _ _ Wq P) as (_ & PM & _ & _).
    pose proof (q_pop_qwf _ _ _ Wq P) as Wq'.
    assert (FE : Forall entok (m :: eq_entries q')) by (eapply Permutation_Forall; [exact PM|apply (o_ent _ O)]).
    inversion FE as [|? ? Em FE']; subst.
    set (s1 := emit _ _).
    assert (QS : qstore s1 = [q']) by apply (q1_set s 0 q' (o_q _ O)).
    pose proof (q0_of _ _ QS) as Q1.
    assert (V1 : Qs s = (if isrs m then [edata m] else []) ++ Qs s1) by (unfold Qs; rewrite Q1; exact L1).
    assert (V2 : Flq s = (if isrc m then [edata m] else []) ++ Flq s1) by (unfold Flq; rewrite Q1; exact L2).
    assert (V3 : cnt s1 = cnt s) by reflexivity.
    assert (V4 : dlv (trace s1) = dlv (trace s)) by (unfold s1; cbn [trace emit set dlv]; unfold dl1; cbn [is_deliv]; apply app_nil_r).
    assert (V5 : ext s1 = ext s) by reflexivity.
    assert (SQ : Subseq (Qs s1) (Qs s)) by (rewrite V1; apply Subseq_app_l2).
    assert (SF : Subseq (Fl s1) (Fl s)) by (unfold Fl; rewrite V2, V5, <- app_assoc; apply Subseq_app_l2).
    assert (O1 : Ord s1).
    { destruct O as [a1 a2 a3 a4 a5 a6 a7 a8 a9]. constructor; rewrite ?V3, ?V4, ?V5, ?Q1; auto.
      - rewrite QS. reflexivity.
      - apply Subseq_length in SF. lia.
      - intros X. specialize (a7 X). rewrite a7 in SF. apply Subseq_nil_inv in SF. exact SF.
      - eapply Tab_keep; [| |exact a8]; reflexivity.
      - eapply Subseq_trans; [|exact a9]. apply Subseq_app; [apply Subseq_refl|]. apply Subseq_app; assumption. }
    split; [right; exact O1|]. split; [exact I|]. right.
    change (isrs m) with (sg_b sg) in *. change (isrc m) with (sg_cls sg =? CLS_RECEIVED)%nat in *. change (edata m) with (sg_data sg) in *.
    destruct Em as [Em1 Em2]. change (isrs m) with (sg_b sg) in Em1. change (esig m) with sg in Em1.
    split.
    - intros B. destruct (Em1 B) as [CL _]. split; [exact CL|]. intros _.
      rewrite B in V1. assert (RC : (sg_cls sg =? CLS_RECEIVED)%nat = false) by (rewrite CL; reflexivity). rewrite RC in V2.
      rewrite V3, V4. pose proof (o_sub _ O) as S0. unfold Fl in *. rewrite V1, V2 in S0. rewrite V5. exact S0.
    - intros CL _. assert (RC : (sg_cls sg =? CLS_RECEIVED)%nat = true) by (rewrite CL; reflexivity). rewrite RC in V2.
      assert (B : sg_b sg = false).
      { destruct (sg_b sg) eqn:B; [|reflexivity]. destruct (Em1 eq_refl) as [X _]. rewrite CL in X. discriminate X. }
      rewrite B in V1. cbn [app] in V1, V2.
      pose proof (o_fl1 _ O) as F1. unfold Fl in F1. rewrite V2 in F1. cbn [app length] in F1.
      assert (Z : Flq s1 ++ map sp_data (ext s) = []) by (destruct (Flq s1 ++ map sp_data (ext s)); [reflexivity|cbn in F1; lia]).
      split; [unfold Fl; rewrite V5; exact Z|].
      rewrite V3, V4. pose proof (o_sub _ O) as S0. unfold Fl in S0. rewrite V1, V2 in S0. cbn [app] in S0. rewrite Z in S0. exact S0.
  Qed.

  Lemma G2_requeue s p c sg q' : Inv2 s -> q_pop (get_q s (active s)) = Some ((p, c, sg), q') ->
    let s1 := emit (ERequeue (sg_id sg) (active s)) (set_q s (active s) (q_put_entry q' (p, c, sg))) in
    Inv2 s1 /\ R2 s s1.
  Proof.
    intros [H|O] P; cbv zeta; (split; [|exact I]); [left; apply nested_cons, H|right].
    pose proof (active0 _ _ _ _ _ (o_q _ O) P) as A0. rewrite A0 in *. change (get_q s 0) with (q0 s) in P.
    pose proof (o_wf _ O) as Wq.
    set (s1 := emit _ _).
    assert (QS : qstore s1 = [q_put_entry q' (p, c, sg)]) by apply (q1_set s 0 _ (o_q _ O)).
    pose proof (q0_of _ _ QS) as Q1.
    pose proof (qents_requeue _ _ _ Wq P) as QE.
    destruct (q_pop_sorted _ _ _ Wq P) as (_ & PM & _ & _).
    assert (V1 : Qs s1 = Qs s) by (unfold Qs; rewrite Q1, QE; reflexivity).
    assert (V2 : Fl s1 = Fl s) by (unfold Fl, Flq; rewrite Q1, QE; reflexivity).
    destruct O as [a1 a2 a3 a4 a5 a6 a7 a8 a9]. constructor; rewrite ?V1, ?V2, ?Q1; auto.
    - rewrite QS. reflexivity.
    - eapply q_put_entry_qwf; eauto.
    - unfold q_put_entry. cbn [eq_entries set]. eapply Permutation_Forall; [|exact a3].
      etransitivity; [exact PM|apply Permutation_cons_append].
    - eapply Tab_keep; [| |exact a8]; reflexivity.
    - change (dlv (trace s1)) with (dlv (trace s) ++ []). rewrite app_nil_r. exact a9.
  Qed.

  Lemma G2_exc s sg i : Inv2 s -> SigPre2 sg i s ->
    let s2 := do_enqueue (snd (new_signal s exception_spec)) (fst (new_signal s exception_spec)) in
    Inv2 s2 /\ R2 s s2 /\ SigPre2 sg i s2.
  Proof.
    intros HI SP. cbv zeta. assert (K : okspec2 exception_spec) by (split; [reflexivity|discriminate]).
    split; [apply Inv2_enq_ok; assumption|]. split; [exact I|].
    destruct HI as [H|O]; [left; apply nested_enq, H|].
    destruct SP as [H|SP]; [left; apply nested_enq, H|right].
    destruct (enq_ok s exception_spec K O) as (_ & V1 & V2 & V3 & V4). rewrite V1, V2, V3, V4. exact SP.
  Qed.

  Lemma G2_newsig s sp : okspec2 sp -> Inv2 s -> let s1 := snd (new_signal s sp) in Inv2 s1 /\ R2 s s1.
  Proof.
    intros [B C] HI. cbv zeta. split; [|exact I]. unfold new_signal. cbn [snd].
    eapply Inv2_keep; [|exact HI]. eapply skeep_trans; [|apply skeep_emit].
    - split; [reflexivity|]. split; [reflexivity|]. split; [reflexivity|]. split; [apply ukeep_refl|apply tsame_refl].
    - unfold quiet. cbn [is_deliv isnewrecv]. apply negb_true_iff, Nat.eqb_neq, C.
  Qed.

  Lemma G2_newloop s sp : okspec2 sp -> Inv2 s ->
    let '(sg, s1) := new_signal s sp in
    force_quit s1 = false ->
    let q := length (qstore s1) in
    let s2 := s1 <| qstore := qstore s1 ++ [empty_queue] |> <| active := q |> <| levels := levels s1 ++ [q] |> in
    let s3 := do_enqueue (emit (ENewLoopEnter q) s2) sg in Inv2 s3 /\ R2 s s3.
  Proof.
    intros _ _. destruct (new_signal s sp) as [sg s1]. intros _. cbv zeta. split; [|exact I]. left.
    eapply nested_grow; [apply C10Proofs.tg_do_enqueue, C10Proofs.tg_refl|]. reflexivity.
  Qed.

  Lemma G2_ext s sp r : Inv2 s -> ext s = sp :: r -> q_pop (get_q s (active s)) = None ->
    let '(sg, s1) := new_signal (s <| ext := r |>) sp in
    let s2 := do_enqueue (emit (EExt (sg_id sg)) s1) sg in Inv2 s2 /\ R2 s s2.
  Proof.
    intros HI X _. unfold new_signal. set (sg := mk_signal (next_sig (s <| ext := r |>)) sp). set (s1 := emit _ _).
    cbv zeta. split; [|exact I]. destruct HI as [H|O].
    { left. eapply nested_grow; [apply C10Proofs.tg_do_enqueue, C10Proofs.tg_refl|]. apply nested_cons, nested_cons, H. }
    right. pose proof (o_ext _ O) as EX. rewrite X in EX. inversion EX as [|? ? (C1 & C2 & C3) EX']; subst.
    destruct (enq_sig s1 sg (o_q _ O) (o_wf _ O) (o_ent _ O)) as (E1 & E2 & E3 & E4 & E5 & E6 & (T1 & T2 & T3) & a & b & E7 & E8 & E9 & E10).
    { intros B. cbn [sg_b sg mk_signal] in B. congruence. } { intros _. exact C2. }
    set (s2 := do_enqueue s1 sg) in *.
    cbn [sg_b sg_cls sg_data sg mk_signal] in E8, E10. rewrite C3 in E8. rewrite C1 in E10. cbn [Nat.eqb CLS_RECEIVED] in E10.
    apply Subseq_nil_inv in E8. subst a. rewrite app_nil_r in E7.
    assert (N1 : nrecv (trace s2) = S (nrecv (trace s))).
    { rewrite T2. unfold s1, s1. cbn [trace emit set nrecv isnewrecv]. rewrite C1. reflexivity. }
    assert (D1 : dlv (trace s2) = dlv (trace s)).
    { rewrite T1. unfold s1, s1. cbn [trace emit set dlv]. unfold dl1. cbn [is_deliv]. rewrite !app_nil_r. reflexivity. }
    assert (X2 : ext s2 = r) by (rewrite E4; reflexivity).
    assert (V3 : cnt s2 = cnt s) by (unfold cnt; rewrite N1, X2, X; cbn [length]; lia).
    assert (SF : Subseq (Fl s2) (Fl s)).
    { unfold Fl. rewrite E9, X2, X. change (Flq s1) with (Flq s). cbn [map]. rewrite <- app_assoc.
      apply Subseq_app; [apply Subseq_refl|]. change (sp_data sp :: map sp_data r) with ([sp_data sp] ++ map sp_data r).
      apply Subseq_app; [exact E10|apply Subseq_refl]. }
    destruct O as [a1 a2 a3 a4 a5 a6 a7 a8 a9]. constructor.
    - exact E1.
    - exact E2.
    - exact E3.
    - rewrite X2. exact EX'.
    - rewrite V3, E6. exact a5.
    - apply Subseq_length in SF. lia.
    - rewrite E6. intros Y. specialize (a7 Y). rewrite a7 in SF. apply Subseq_nil_inv in SF. exact SF.
    - eapply Tab_keep; [exact E5|rewrite E6; reflexivity|]. eapply Tab_keep; [| |exact a8]; reflexivity.
    - rewrite V3, D1, E7. change (Qs s1) with (Qs s). eapply Subseq_trans; [|exact a9].
      apply Subseq_app; [apply Subseq_refl|]. apply Subseq_app; [apply Subseq_refl|exact SF].
  Qed.

  Lemma G2_handler n : SP2 n -> forall s sg idx hs0 hid data,
    Inv2 s -> SigPre2 sg idx s -> force_quit s = false ->
    handlers_of s (sg_cls sg) = Some hs0 -> nth_error hs0 idx = Some (hid, data) ->
    W2 n (screen_code specs hid sg data)
      (fun o s2 => let s3 := emit (EHandlerEnd hid (sg_id sg) (how_of o)) s2 in Inv2 s3 /\ R2 s s3 /\ SigPre2 sg (S idx) s3)
      (emit (EHandler hid (sg_id sg) data) s).
  Proof.
    intros HS s sg idx hs0 hid data HI SP _ HF NE.
    change (fun o s2 => let s3 := emit (EHandlerEnd hid (sg_id sg) (how_of o)) s2 in Inv2 s3 /\ R2 s s3 /\ SigPre2 sg (S idx) s3)
      with (HPost2 s sg idx hid).
    destruct (nested (trace s)) eqn:N.
    { apply W2_nested; [apply nested_cons, N|]. intros o s' H'. unfold HPost2. cbv zeta.
      split; [left; apply nested_cons, H'|]. split; [exact I|left; apply nested_cons, H']. }
    destruct HI as [H|O]; [congruence|]. destruct SP as [H|[S1 S2]]; [congruence|].
    assert (HL : hlist (handlers s) (sg_cls sg) = hs0) by (unfold hlist; unfold handlers_of in HF; rewrite HF; reflexivity).
    rewrite <- HL in NE. pose proof (o_tab _ O) as [T1 T2 T3].
    destruct (sg_b sg) eqn:B.
    - (* a successful ready signal: its handlers are H_READY 0, 1, ... *)
      destruct (S1 eq_refl) as [CL SL]. rewrite CL in NE. rewrite (T2 _ _ _ NE).
      rewrite screen_code_ready. apply H_ready2; assumption.
    - destruct (Nat.eq_dec hid H_RECEIVED) as [->|NR].
      + destruct (T1 _ _ _ NE) as [CL ->]. destruct (S2 CL eq_refl) as [F S0].
        unfold screen_code. cbn [H_RECEIVED H_RENDER H_CLOSE Nat.eqb]. apply H_received2; assumption.
      + apply handler_safe; [apply Safe_screen_code; assumption|exact HS|right; exact O|exact B].
  Qed.

  Theorem spec2_all : forall n, SP2 n.
  Proof.
    apply spec_all.
    - apply Inv2_A2.
    - intros s H. exact H.
    - intros s. exact I.
    - intros a b c _ _. exact I.
    - apply G2_same.
    - apply G2_same_sig.
    - intros s e NE. apply G2_ev, neutral0_neutral, NE.
    - apply G2_kill.
    - apply G2_unwind.
    - apply G2_pop.
    - apply G2_requeue.
    - apply G2_ext.
    - apply G2_exc.
    - apply G2_newsig.
    - apply G2_newloop.
    - apply G2_handler.
  Qed.

  (* ---------------------------------------------------------------- sessions *)
  Theorem session_order fuel : forall acts s, Inv2 s -> A2 (snd (app_session specs fuel acts s)).
  Proof.
    induction acts as [|a r IH]; intros s HI; cbn [app_session snd]; [apply Inv2_A2, HI|].
    pose proof (Inv2_emit ETop s eq_refl HI) as HT.
    assert (STEP : forall o s1, res A2 A2 (fun _ s' => Inv2 s') o s1 ->
              A2 (snd (match o with
                       | OBlocked | OFuel | OThrow XSysExit => ([o], s1)
                       | _ => let '(os, s2) := app_session specs fuel r s1 in (o :: os, s2)
                       end))).
    { intros o s1 R. destruct o as [|[| |]| |]; cbn in R; cbn [snd]; try exact R.
      all: specialize (IH s1 R); destruct (app_session specs fuel r s1) as [os s2]; exact IH. }
    destruct a as [l|].
    - destruct (exec (screen_code specs) fuel (CProg (run_cmds specs 0 0 l)) (emit ETop s)) as [o s1] eqn:E.
      apply STEP.
      destruct (Safe_OT _ (Safe_run_cmds 0 0 l) fuel (fun _ s' => Inv2 s') (emit ETop s) (spec2_all fuel) HT (fun _ _ H => H)) as [_ HW].
      apply (HW fuel (le_n _) _ _ E).
    - destruct (st_stack (ust s)) as [|d st] eqn:ES; [destruct (st_run_empty (ust s))|].
      + destruct (exec (screen_code specs) fuel CRun (emit ETop s)) as [o s1] eqn:E. apply STEP.
        eapply res_mono; [|apply (spec2_all fuel fuel (le_n _) CRun (emit ETop s) o s1 I HT I E)].
        intros o0 s0 [H _]. exact H.
      + apply (STEP (OThrow XError) (emit ETop s)). cbn. exact HT.
      + destruct (exec (screen_code specs) fuel CRun (emit ETop s)) as [o s1] eqn:E. apply STEP.
        eapply res_mono; [|apply (spec2_all fuel fuel (le_n _) CRun (emit ETop s) o s1 I HT I E)].
        intros o0 s0 [H _]. exact H.
  Qed.
End Ord.

(* ====================================================================== every session *)
(* the same functions on the trace in chronological order *)
Definition ready_texts (t : list event) : list str := flat_map dl1 t.
Definition no_nested_loop (t : list event) : bool := negb (existsb isnest t).
Lemma dlv_rev t : dlv t = ready_texts (rev t).
Proof.
  unfold ready_texts. induction t as [|e r IH]; cbn [dlv rev]; [reflexivity|].
  rewrite flat_map_app, <- IH. cbn. rewrite app_nil_r. reflexivity.
Qed.
Lemma nested_rev t : nested (rev t) = nested t.
Proof.
  unfold nested. induction t as [|e r IH]; cbn [rev existsb]; [reflexivity|].
  rewrite existsb_app, IH. cbn. rewrite orb_false_r. apply orb_comm.
Qed.

Lemma Inv2_init specs specl typed quit run_empty o s1 :
  exec (screen_code specs) 20 (CProg app_initialize) (init_state (sstate0 specl typed quit run_empty)) = (o, s1) ->
  Inv2 typed s1.
Proof.
  intros E. cbn in E. inversion E; subst o s1. clear E. right. constructor.
  - reflexivity.
  - apply qwf_empty.
  - constructor.
  - constructor.
  - reflexivity.
  - cbn. lia.
  - reflexivity.
  - constructor.
    + intros c i d X. destruct c as [|[|[|[|c]]]]; cbn in X; destruct i as [|[|i]]; cbn in X; try discriminate X.
      split; reflexivity.
    + intros i hid d X. destruct i; discriminate X.
    + reflexivity.
  - cbn. apply sub_nil.
Qed.

(* the order theorem: as long as no nested event loop was opened, the successful ready signals carry typed lines in typed order *)
Theorem lines_in_order specs specl typed quit run_empty fuel acts :
  let t := rev (trace (snd (app_run_all specs specl typed quit run_empty fuel acts))) in
  no_nested_loop t = true -> Subseq (ready_texts t) (map line_of typed).
Proof.
  cbv zeta. intros NN. unfold app_run_all in *.
  destruct (exec (screen_code specs) 20 (CProg app_initialize) (init_state (sstate0 specl typed quit run_empty))) as [o s1] eqn:E.
  pose proof (session_order specs typed fuel acts s1 (Inv2_init _ _ _ _ _ _ _ E)) as H.
  set (sf := snd (app_session specs fuel acts s1)) in *.
  unfold no_nested_loop in NN. apply negb_true_iff in NN. change (existsb isnest (rev (trace sf))) with (nested (rev (trace sf))) in NN.
  rewrite nested_rev in NN. destruct H as [H|H]; [congruence|]. rewrite <- dlv_rev. exact H.
Qed.

(* ---------------------------------------------------------------- the lines handed to input(): a sub-sequence of those *)
Definition inp1 (e : event) : list str :=
  match e with EUser tag a x => if (tag =? T_INPUT)%nat then [x] else [] | _ => [] end.
Definition input_texts (t : list event) : list str := flat_map inp1 t.

Definition MJ (m : mw) (I R : list str) : Prop :=
  match m_must m with
  | None => Subseq I R
  | Some (_, _, x) => exists R0, R = R0 ++ [x] /\ Subseq I R0
  end.
Lemma MJ_sub m I R : MJ m I R -> Subseq I R.
Proof.
  unfold MJ. destruct (m_must m) as [[[scr args] x]|]; [|auto]. intros (R0 & -> & H). apply Subseq_app_r, H.
Qed.
Lemma MJ_none m I R : m_must m = None -> Subseq I R -> MJ m I R.
Proof. unfold MJ. intros ->. auto. Qed.

Lemma muser_must_other m tag a x : (tag =? T_READY)%nat = false -> (tag =? T_INPUT)%nat = false ->
  m_must (muser m tag a x) = m_must m.
Proof.
  intros E1 E2. unfold muser. rewrite E1, E2.
  repeat match goal with |- context [if ?c then _ else _] => destruct c end; reflexivity.
Qed.

Lemma MJ_step m e I R : MJ m I R -> mchk06 true m e = true -> MJ (mstep m e) (I ++ inp1 e) (R ++ dl1 e).
Proof.
  intros J C. destruct e; cbn [mstep inp1 dl1 is_deliv]; rewrite ?app_nil_r.
  all: try (unfold MJ in *; exact J).
  - (* ESigNew *) unfold MJ in *. destruct (m_follow m) as [[| [|[|?]] | | | | |]|]; try exact J; destruct (cls =? CLS_RENDER)%nat; exact J.
  - (* EEnq *) unfold MJ in *. destruct (m_follow m) as [[| [|[|?]] | | | | |]|]; exact J.
  - (* EDropped *) unfold MJ in *. destruct (m_follow m) as [[| [|[|?]] | | | | |]|]; exact J.
  - (* EHandler *) unfold MJ in *. destruct (hid =? H_RECEIVED)%nat; [|exact J]. destruct (m_istack m); exact J.
  - (* EHandlerEnd *) apply MJ_none; [reflexivity|apply (MJ_sub _ _ _ J)].
  - (* ETop *) apply MJ_none; [reflexivity|apply (MJ_sub _ _ _ J)].
  - (* EUser *)
    destruct (tag =? T_INPUT)%nat eqn:EI.
    + apply Nat.eqb_eq in EI. subst tag. cbn [T_INPUT T_READY Nat.eqb andb]. rewrite app_nil_r.
      unfold mchk06 in C. cbn [T_INPUT T_READY Nat.eqb] in C. unfold MJ in J.
      destruct (m_must m) as [[[scr ar] x]|]; [|rewrite andb_false_r in C; discriminate C].
      destruct J as (R0 & -> & J). apply andb_true_iff in C. destruct C as [C _].
      apply andb_true_iff in C. destruct C as [_ C]. apply streq_eq in C. subst x.
      apply MJ_none; [reflexivity|]. apply Subseq_app; [exact J|apply Subseq_refl].
    + rewrite app_nil_r. destruct (tag =? T_READY)%nat eqn:ER.
      * apply Nat.eqb_eq in ER. subst tag. cbn [andb].
        assert (MN : m_must m = None).
        { unfold mchk06 in C. destruct (m_must m) as [[[scr ar] x]|]; [|reflexivity]. cbn in C. discriminate C. }
        unfold MJ in J. rewrite MN in J.
        unfold muser, MJ. cbn [T_READY T_OP T_STACK T_MODAL_RETURN T_REQ T_PROMPT Nat.eqb].
        assert (DL : dl1 (EUser T_READY args text) = if (nth0 args 1 =? 1)%nat then [text] else []).
        { unfold dl1. cbn [is_deliv T_READY Nat.eqb andb]. destruct (nth0 args 1 =? 1)%nat; reflexivity. }
        rewrite DL. clear DL.
        destruct (nth0 args 1 =? 1)%nat eqn:OK; cbn [andb].
        -- match goal with |- context [if ?c then _ else _] => destruct c end.
           ++ match goal with |- context [match alookup ?x ?y with _ => _ end] => destruct (alookup x y) as [[scr ar]|] end; cbn.
              ** exists R. split; [reflexivity|exact J].
              ** rewrite MN. apply Subseq_app_r, J.
           ++ cbn. rewrite MN. apply Subseq_app_r, J.
        -- cbn. rewrite MN. apply Subseq_app_r, J.
      * assert (DL : dl1 (EUser tag args text) = []) by (unfold dl1; cbn [is_deliv]; rewrite ER; reflexivity).
        rewrite DL, app_nil_r. unfold MJ in *. rewrite (muser_must_other m tag args text ER EI). exact J.
Qed.

Lemma MJ_run t : forall w i I R, MJ (absw w) I R -> srun_mon chk_C06 w t i = None ->
  Subseq (I ++ input_texts t) (R ++ ready_texts t).
Proof.
  induction t as [|e r IH]; intros w i I R J H; cbn [input_texts ready_texts flat_map].
  - rewrite !app_nil_r. apply (MJ_sub _ _ _ J).
  - cbn [srun_mon] in H. destruct (chk_C06 w e) eqn:C; [|discriminate H].
    rewrite chk06_abs in C. pose proof (MJ_step _ _ _ _ J C) as J'. rewrite <- abs_step in J'.
    rewrite !app_assoc. apply (IH _ _ _ _ J' H).
Qed.

Theorem inputs_among_deliveries typed t : sok chk_C06 typed t = true -> Subseq (input_texts t) (ready_texts t).
Proof.
  unfold sok. intros H. destruct (srun_mon chk_C06 (sworld0 typed) t 0) eqn:E; [discriminate H|].
  apply (MJ_run t (sworld0 typed) 0 [] []); [|exact E]. apply MJ_none; [reflexivity|apply sub_nil].
Qed.

(* ---------------------------------------------------------------- finding F18: with a nested loop the order can be lost
   (corpus/screen/order_modal_overtakes.json, the two lines here "1" and "2"): the user types ahead; screen 0's first
   refresh() calls self.redraw(), its second one redraws again and stops asking for input, its third one pushes screen 1
   modally.  Line "1" is handed off to screen 0 (ready signal routed to the outer queue) before the third refresh() opens
   the modal loop, in which screen 1 asks, reads "2" and gets it; "1" reaches screen 0's input() after the modal screen closed. *)
Definition f18_spec (refresh : list scmd) : screen_spec :=
  {| sc_setup := []; sc_refresh := refresh; sc_show := []; sc_closed := []; sc_input := [];
     sc_input_default := ([], Some RClose); sc_prompt_none := false; sc_input_required := true;
     sc_no_separator := false; sc_skip_check := false; sc_pages := 0; sc_answer0 := AnsNoAttr; sc_custom := []; sc_setup_cmds := [] |}.
Definition f18_specl : list screen_spec :=
  [f18_spec [SIfCount 1 [SRedrawSig] [SIfCount 2 [SRedrawSig; SSetInputRequired false] [SPushModal 1 0]]]; f18_spec []].
Definition f18_typed : list (option str) := [Some [49%N]; Some [50%N]].
Definition f18_acts : list saction := [SACmds [SSetTypeAhead true; SSchedule 0 0]; SARun].
Definition f18_trace : list event :=
  rev (trace (snd (app_run_all (fun n => nth n f18_specl default_spec) f18_specl f18_typed None false 3000 f18_acts))).

Lemma Subseq_swap_refuted {A} (a b : A) : a <> b -> ~ Subseq [b; a] [a; b].
Proof.
  intros N H. inversion H as [|x p q H1|x p q H1]; subst.
  - inversion H1 as [|y p' q' H2|y p' q' H2]; subst; [inversion H2|inversion H2].
  - apply N. reflexivity.
Qed.
