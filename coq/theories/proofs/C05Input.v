(* C05Input.v -- the T_INPUT clause of C05 (worker s3): under three conditions decided on the trace,
     no_stale_prompt         a prompt is issued only on behalf of the screen of the top entry,
     no_orphan_prompt        no entry of a screen is popped while a request of that screen is unanswered,
     no_modal_during_prompt  no modal screen is pushed while a request is unanswered,
   input() is never given to a screen all of whose stack entries lie beneath an open modal frame
   ([chk_C05_input] of C05Proofs.v accepts the session trace); each condition is needed (finding F16, six
   sessions: props/C05.v).  The invariant behind it: while a request of screen S is unanswered, S has a stack
   entry with no modal entry above it.
   The file re-runs the development of C05Proofs.v (same judgement [run], same invariant, same theorems about
   [chk_C05_shield_gen] and [chk_C05_below]) with this one more layer ([IQ]) in the invariant and one more
   acceptor in what holds at every moment ([A]); the definitions made before [Section Screen] are those of
   C05Proofs.v. *)
From SL Require Import Tac.
From RecordUpdate Require Import RecordUpdate.
From SL Require Import PyInt LoopSem ScreenSem ScreenMon proofs.C05Proofs proofs.C05Hyp.
Import ListNotations.

(* ================================================================ the conditions, decided on the trace *)
(* "unanswered": a request (T_REQ [screen; args; handler]) that has not yet been answered by a typed line
   (T_READY [handler; 1]).  A refused request, or one answered by a failure because a newer request took the
   line, stays unanswered. *)
Record hq := {
  q_stack : list (nat * bool);   (* (screen, modal) of the stack entries, top first, from the T_STACK events *)
  q_pend : list (nat * nat);     (* unanswered requests: (handler, screen) *)
  q_stale : bool; q_orphan : bool; q_modal : bool }.
#[export] Instance eta_hq : Settable _ := settable! Build_hq <q_stack; q_pend; q_stale; q_orphan; q_modal>.
Definition hq0 : hq := {| q_stack := []; q_pend := []; q_stale := false; q_orphan := false; q_modal := false |}.
Definition pend_remove (n : nat) (l : list (nat * nat)) : list (nat * nat) := filter (fun p => negb (fst p =? n)%nat) l.
Definition pend_of (scr : nat) (l : list (nat * nat)) : bool := existsb (fun p => (snd p =? scr)%nat) l.

Definition hq_step (h : hq) (e : event) : hq :=
  match e with
  | EUser tag a _ =>
    if (tag =? T_STACK)%nat then
      let kind := nth0 a 0 in let scr := nth0 a 2 in let modal := (nth0 a 4 =? 1)%nat in
      if (kind =? K_APPEND)%nat then
        h <| q_stack := (scr, modal) :: q_stack h |>
          <| q_modal := q_modal h || (modal && negb (match q_pend h with [] => true | _ => false end)) |>
      else if (kind =? K_ADD_FIRST)%nat then h <| q_stack := q_stack h ++ [(scr, false)] |>
      else h <| q_stack := tl (q_stack h) |> <| q_orphan := q_orphan h || pend_of scr (q_pend h) |>
    else if (tag =? T_REQ)%nat then
      let scr := nth0 a 0 in
      h <| q_stale := q_stale h || negb (match q_stack h with (s, _) :: _ => (s =? scr)%nat | [] => false end) |>
        <| q_pend := (nth0 a 2, scr) :: q_pend h |>
    else if (tag =? T_READY)%nat then
      if (nth0 a 1 =? 1)%nat then h <| q_pend := pend_remove (nth0 a 0) (q_pend h) |> else h
    else h
  | _ => h
  end.
Definition hq_of (t : list event) : hq := fold_left hq_step t hq0.
Definition hqok (h : hq) : bool := negb (q_stale h || q_orphan h || q_modal h).

(* a prompt is issued only on behalf of the screen of the top entry *)
Definition no_stale_prompt (t : list event) : bool := negb (q_stale (hq_of t)).
(* no entry of a screen is popped (closed, replaced, discarded) while a request of that screen is unanswered *)
Definition no_orphan_prompt (t : list event) : bool := negb (q_orphan (hq_of t)).
(* no modal screen is pushed while a request is unanswered *)
Definition no_modal_during_prompt (t : list event) : bool := negb (q_modal (hq_of t)).

Lemma hqok_split t : hqok (hq_of t) = no_stale_prompt t && no_orphan_prompt t && no_modal_during_prompt t.
Proof. unfold hqok, no_stale_prompt, no_orphan_prompt, no_modal_during_prompt. destruct (q_stale _), (q_orphan _), (q_modal _); reflexivity. Qed.

Lemma hq_step_mono h e : hqok (hq_step h e) = true -> hqok h = true.
Proof.
  unfold hqok. destruct e; try (cbn; auto; fail). cbn [hq_step]. intros H.
  destruct (q_stale h) eqn:E1, (q_orphan h) eqn:E2, (q_modal h) eqn:E3; try reflexivity; exfalso;
    repeat match type of H with context [if ?b then _ else _] => destruct b end;
    cbn in H; rewrite ?E1, ?E2, ?E3 in H; cbn in H; rewrite ?orb_true_r in H; cbn in H; discriminate H.
Qed.
Lemma hq_step_loop h e : is_user e = false -> hq_step h e = h.
Proof. destruct e; try reflexivity. discriminate. Qed.

Lemma chk_input_other w tag a t : (tag =? T_INPUT)%nat = false -> chk_C05_input w (EUser tag a t) = true.
Proof. intros H. cbn [chk_C05_input]. rewrite H. reflexivity. Qed.
Lemma chk_input_loop w e : is_user e = false -> chk_C05_input w e = true.
Proof. destruct e; try reflexivity. discriminate. Qed.

(* the screen has a stack entry with no modal entry above it *)
Definition clear_entry (st : list (nat * bool)) (scr : nat) : Prop :=
  exists above b below, st = above ++ (scr, b) :: below /\ forallb (fun p => negb (snd p)) above = true.

Section Screen.
Variable specs : nat -> screen_spec.
Hypothesis Hcok : setup_cmds_ok specs.
Variable typed : list (option str).
Notation st := (lstate sstate).
Notation code := (screen_code specs).
Implicit Types s : st.

Definition SWt (t : list event) : sworld := fold_left sworld_step (rev t) (sworld0 typed).
Definition SW s : sworld := SWt (trace s).
Definition Ht (t : list event) : hst := hyp_of (rev t).
Definition HH s : hst := Ht (trace s).

Lemma SW_emit e s : SW (emit e s) = sworld_step (SW s) e.
Proof. unfold SW, SWt, emit. cbn. rewrite fold_left_app. reflexivity. Qed.
Lemma HH_emit e s : HH (emit e s) = hyp_step (HH s) e.
Proof. unfold HH, Ht, hyp_of, emit. cbn. rewrite fold_left_app. reflexivity. Qed.
Definition Hqt (t : list event) : hq := hq_of (rev t).
Definition HQ s : hq := Hqt (trace s).
Lemma HQ_emit e s : HQ (emit e s) = hq_step (HQ s) e.
Proof. unfold HQ, Hqt, hq_of, emit. cbn. rewrite fold_left_app. reflexivity. Qed.
Lemma Hqt_cons e t : Hqt (e :: t) = hq_step (Hqt t) e.
Proof. unfold Hqt, hq_of. cbn [rev]. rewrite fold_left_app. reflexivity. Qed.

Definition accb (chk : sworld -> event -> bool) (t : list event) : Prop :=
  srun_mon chk (sworld0 typed) (rev t) 0 = None.
Lemma accb_cons chk e t : accb chk (e :: t) <-> accb chk t /\ chk (SWt t) e = true.
Proof. unfold accb, SWt. cbn [rev]. apply srun_mon_snoc. Qed.

Definition chkP := relax_setup specs (chk_C05_shield_gen false).
Definition chkS := relax_setup specs (chk_C05_shield_gen true).

(* what holds at every moment, even when the fuel runs out in the middle of an operation *)
Definition At (t : list event) : Prop :=
  accb chkP t /\ (h_ok (Ht t) = true -> accb chkS t) /\ accb chk_C05_below t /\
  (hqok (Hqt t) = true -> accb chk_C05_input t).
Definition A s : Prop := At (trace s).

Lemma A_emit_relaxed e s : A s -> chkP (SW s) e = true ->
  (h_ok (HH s) = true -> h_ok (hyp_step (HH s) e) = true -> chkS (SW s) e = true) ->
  chk_C05_below (SW s) e = true ->
  (hqok (HQ s) = true -> hqok (hq_step (HQ s) e) = true -> chk_C05_input (SW s) e = true) -> A (emit e s).
Proof.
  intros (A1 & A2 & A3 & A4) C1 C2 C3 C4. unfold A, At, emit. cbn [trace set]. split; [|split; [|split]].
  - apply accb_cons. split; assumption.
  - intros Hh. change (Ht (e :: trace s)) with (HH (emit e s)) in Hh. rewrite HH_emit in Hh.
    pose proof (hyp_step_mono _ _ Hh) as Hh0. apply accb_cons. split; [apply A2, Hh0|apply C2; assumption].
  - apply accb_cons. split; assumption.
  - intros Hh. change (Hqt (e :: trace s)) with (HQ (emit e s)) in Hh. rewrite HQ_emit in Hh.
    pose proof (hq_step_mono _ _ Hh) as Hh0. apply accb_cons. split; [apply A4, Hh0|apply C4; assumption].
Qed.
Lemma A_emit e s : A s -> chk_C05_shield_gen false (SW s) e = true ->
  (h_ok (HH s) = true -> h_ok (hyp_step (HH s) e) = true -> chk_C05_shield_gen true (SW s) e = true) ->
  chk_C05_below (SW s) e = true ->
  (hqok (HQ s) = true -> hqok (hq_step (HQ s) e) = true -> chk_C05_input (SW s) e = true) -> A (emit e s).
Proof.
  intros HA C1 C2 C3 C4. apply A_emit_relaxed; [exact HA|apply relax_setup_of, C1| |exact C3|exact C4].
  intros H1 H2. apply relax_setup_of, C2; assumption.
Qed.

Lemma A_emit_loop e s : is_user e = false -> A s -> A (emit e s).
Proof.
  intros N HA. apply A_emit; [exact HA|destruct e; try reflexivity; discriminate| |destruct e; try reflexivity; discriminate|].
  - intros _ _. destruct e; try reflexivity; discriminate.
  - intros _ _. apply chk_input_loop, N.
Qed.

Lemma A_trace s s' : trace s' = trace s -> A s -> A s'.
Proof. unfold A. intros ->. auto. Qed.

(* ================================================================ symbolic execution of handler code *)
Definition run (n : nat) s (p : sprog) (Q : outcome -> st -> Prop) : Prop :=
  A s -> forall fuel o s', fuel <= n -> exec code fuel (CProg p) s = (o, s') -> A s' /\ (o <> OFuel -> Q o s').

Lemma run_conseq n s p (Q Q' : outcome -> st -> Prop) :
  run n s p Q -> (forall o s', Q o s' -> Q' o s') -> run n s p Q'.
Proof. intros R HQ HA fuel o s' Hf E. destruct (R HA fuel o s' Hf E) as [A' Q1]. split; auto. Qed.

Ltac fuel0 fuel E HA :=
  destruct fuel as [|fuel]; [cbn in E; injection E as <- <-; split; [exact HA|congruence]|].

Lemma run_ret n s (Q : outcome -> st -> Prop) : Q ONormal s -> run n s PRet Q.
Proof. intros HQ HA fuel o s' Hf E. fuel0 fuel E HA. cbn in E. injection E as <- <-. split; auto. Qed.

Lemma run_throw n s x (Q : outcome -> st -> Prop) : Q (OThrow x) s -> run n s (PThrow x) Q.
Proof. intros HQ HA fuel o s' Hf E. fuel0 fuel E HA. cbn in E. injection E as <- <-. split; auto. Qed.

Lemma run_seq n s p q (Q : outcome -> st -> Prop) :
  run n s p (fun o s1 => match o with ONormal => run n s1 q Q | _ => Q o s1 end) -> run n s (p ;; q) Q.
Proof.
  intros R HA fuel o s' Hf E. fuel0 fuel E HA. cbn [exec] in E.
  destruct (exec code fuel (CProg p) s) as [o1 s1] eqn:E1.
  destruct (R HA fuel o1 s1 ltac:(lia) E1) as [A1 Q1].
  destruct o1 as [|x| |].
  - apply (Q1 ltac:(congruence) A1 fuel o s' ltac:(lia) E).
  - injection E as <- <-. split; [exact A1|intros _; apply Q1; congruence].
  - injection E as <- <-. split; [exact A1|intros _; apply Q1; congruence].
  - injection E as <- <-. split; [exact A1|congruence].
Qed.

Lemma run_try n s p h (Q : outcome -> st -> Prop) :
  run n s p (fun o s1 => match o with OThrow XError => run n s1 h Q | _ => Q o s1 end) -> run n s (PTry p h) Q.
Proof.
  intros R HA fuel o s' Hf E. fuel0 fuel E HA. cbn [exec] in E.
  destruct (exec code fuel (CProg p) s) as [o1 s1] eqn:E1.
  destruct (R HA fuel o1 s1 ltac:(lia) E1) as [A1 Q1].
  destruct o1 as [|[| |]| |].
  - injection E as <- <-. split; [exact A1|intros _; apply Q1; congruence].
  - injection E as <- <-. split; [exact A1|intros _; apply Q1; congruence].
  - apply (Q1 ltac:(congruence) A1 fuel o s' ltac:(lia) E).
  - injection E as <- <-. split; [exact A1|intros _; apply Q1; congruence].
  - injection E as <- <-. split; [exact A1|intros _; apply Q1; congruence].
  - injection E as <- <-. split; [exact A1|congruence].
Qed.

Lemma run_st n s g (Q : outcome -> st -> Prop) :
  run n (s <| ust := fst (g (ust s)) |>) (snd (g (ust s))) Q -> run n s (PSt g) Q.
Proof.
  intros R HA fuel o s' Hf E. fuel0 fuel E HA. cbn [exec] in E.
  destruct (g (ust s)) as [u' p'] eqn:G. cbn [fst snd] in R.
  apply (R ltac:(eapply A_trace; [|exact HA]; reflexivity) fuel o s' ltac:(lia) E).
Qed.

Lemma ust_eta s : s <| ust := ust s |> = s.
Proof. destruct s; reflexivity. Qed.

Lemma run_rd n s k (Q : outcome -> st -> Prop) : run n s (k (ust s)) Q -> run n s (rd k) Q.
Proof. intros R. unfold rd. apply run_st. cbn [fst snd]. rewrite ust_eta. exact R. Qed.

Lemma run_wr n s g (Q : outcome -> st -> Prop) : Q ONormal (s <| ust := g (ust s) |>) -> run n s (wr g) Q.
Proof. intros HQ. unfold wr. apply run_st. cbn [fst snd]. apply run_ret, HQ. Qed.

Lemma run_emit n s e (Q : outcome -> st -> Prop) :
  (A s -> A (emit (user_event e) s)) -> Q ONormal (emit (user_event e) s) -> run n s (PEmit e) Q.
Proof.
  intros HA' HQ HA fuel o s' Hf E. fuel0 fuel E HA. cbn [exec] in E. injection E as <- <-. split; auto.
Qed.

Lemma run_while n c b (I : st -> Prop) (Q : outcome -> st -> Prop) :
  (forall s1, I s1 -> c (ust s1) = true -> run n s1 b (fun o s2 => match o with ONormal => I s2 | _ => Q o s2 end)) ->
  (forall s1, I s1 -> c (ust s1) = false -> Q ONormal s1) ->
  forall s, I s -> run n s (PWhile c b) Q.
Proof.
  intros Hb Hx s HI HA fuel. revert s HI HA.
  induction fuel as [|fuel IH]; intros s HI HA o s' Hf E.
  { cbn in E; injection E as <- <-; split; [exact HA|congruence]. }
  cbn [exec] in E. destruct (c (ust s)) eqn:C.
  - destruct (exec code fuel (CProg b) s) as [o1 s1] eqn:E1.
    destruct (Hb s HI C HA fuel o1 s1 ltac:(lia) E1) as [A1 Q1].
    destruct o1 as [|x| |].
    + apply (IH s1 (Q1 ltac:(congruence)) A1 o s' ltac:(lia) E).
    + injection E as <- <-. split; [exact A1|intros _; apply Q1; congruence].
    + injection E as <- <-. split; [exact A1|intros _; apply Q1; congruence].
    + injection E as <- <-. split; [exact A1|congruence].
  - injection E as <- <-. split; [exact HA|intros _; apply Hx; assumption].
Qed.


(* ================================================================ the invariant *)
Definition ihs (u : sstate) : list (nat * bool) := map (fun h => (ih_owner h, ih_cb h)) (st_ih u).
Definition stack_sm (u : sstate) : list (nat * bool) := map (fun d => (sd_scr d, sd_modal d)) (st_stack u).
(* the current entry of an open frame is a modal entry *)
Definition frames_modal (w : sworld) : Prop :=
  forall f, In f (sw_modal w) -> mf_closed f = false -> exists e, In e (sw_stack w) /\ en_id e = mf_cur f /\ en_modal e = true.
(* what holds as long as the three conditions on prompts do *)
Record IQ s : Prop := {
  i_stack : q_stack (HQ s) = stack_sm (ust s);
  i_pc : forall n A, nth_error (ihs (ust s)) n = Some (A, true) -> In (n, A) (q_pend (HQ s));
  i_ip : forall n A, In (n, A) (q_pend (HQ s)) -> clear_entry (q_stack (HQ s)) A }.

Record Base s : Prop := {
  b_stack : sw_stack (SW s) = map e_of (st_stack (ust s));
  b_expect : sw_expect (SW s) = [];
  b_repl : sw_replaced (SW s) = None;
  b_ids : Forall (fun d => sd_id d < st_next_sd (ust s)) (st_stack (ust s));
  b_nodup : NoDup (map sd_id (st_stack (ust s)));
  b_on : frames_on (SW s);
  b_origs : NoDup (map mf_orig (sw_modal (SW s)));
  b_orig_lt : Forall (fun f => mf_orig f < st_next_sd (ust s)) (sw_modal (SW s));
  b_fmodal : frames_modal (SW s);
  b_iq : hqok (HQ s) = true -> IQ s }.

(* ... and what holds as long as the hypothesis of the strict form does *)
Record Strict (g : bool) s : Prop := {
  s_fq : force_quit s = false;
  s_rl : run_loop s = false -> h_rl (HH s) = false;
  s_J : ofc (sw_modal (SW s)) = mei (sw_stack (SW s));
  s_G : g = true -> run_loop s = false -> head_closed (sw_modal (SW s)) }.

Definition InvG (g : bool) s : Prop := Base s /\ (h_ok (HH s) = true -> Strict g s).
Notation Inv := (InvG true).

Definition Rel (b : bool) s s' : Prop :=
  Relw b (SW s) (SW s') /\ (h_ok (HH s') = true -> h_ok (HH s) = true).

Lemma Rel_refl b s : Rel b s s.
Proof. split; [apply Relw_refl|auto]. Qed.
Lemma Rel_trans_l b s s1 s2 : Rel true s s1 -> Rel b s1 s2 -> Rel b s s2.
Proof. intros [R1 M1] [R2 M2]. split; [eapply Relw_trans_l; eauto|auto]. Qed.
Lemma Rel_trans_r b s s1 s2 : Rel b s s1 -> Rel true s1 s2 -> Rel b s s2.
Proof. intros [R1 M1] [R2 M2]. split; [eapply Relw_trans_r; eauto|auto]. Qed.
Lemma Rel_weaken b s s' : Rel true s s' -> Rel b s s'.
Proof. intros [R M]. split; [apply Relw_weaken, R|exact M]. Qed.
Lemma Rel_trans_false b1 b2 s s1 s2 : Rel b1 s s1 -> Rel b2 s1 s2 -> Rel false s s2.
Proof.
  intros [R1 M1] [R2 M2]. split; [|auto]. pose proof (Relw_trans _ _ _ _ _ R1 R2) as (n & o & E & F & _).
  exists n, o. split; [exact E|split; [exact F|discriminate]].
Qed.

Lemma vsame_refl w : vsame w w. Proof. repeat split; auto. Qed.
Lemma vsame_trans w1 w2 w3 : vsame w1 w2 -> vsame w2 w3 -> vsame w1 w3.
Proof.
  intros (A1 & A2 & A3 & A4) (B1 & B2 & B3 & B4). repeat split; try congruence.
  destruct B4 as [B4|B4]; [|right; exact B4]. destruct A4 as [A4|A4]; [left|right]; congruence.
Qed.

(* a step that changes nothing the invariant looks at *)
Record Keep s s' : Prop := {
  k_v : vsame (SW s) (SW s'); k_h : HH s' = HH s; k_A : A s -> A s';
  k_u1 : st_stack (ust s') = st_stack (ust s); k_u2 : st_next_sd (ust s') = st_next_sd (ust s);
  k_rl : run_loop s' = run_loop s; k_fq : force_quit s' = force_quit s;
  k_hq : HQ s' = HQ s; k_ih : ihs (ust s') = ihs (ust s) }.

Lemma Keep_refl s : Keep s s.
Proof. split; auto using vsame_refl. Qed.
Lemma Keep_trans s s1 s2 : Keep s s1 -> Keep s1 s2 -> Keep s s2.
Proof. intros [] []. split; try congruence; eauto using vsame_trans. Qed.
Lemma Keep_same s s' : trace s' = trace s -> ust s' = ust s -> run_loop s' = run_loop s -> force_quit s' = force_quit s -> Keep s s'.
Proof. intros T U R F. split; auto; unfold SW, HH, HQ, A; rewrite ?T, ?U; auto using vsame_refl. Qed.
Lemma Keep_wr s (g : sstate -> sstate) : st_stack (g (ust s)) = st_stack (ust s) -> st_next_sd (g (ust s)) = st_next_sd (ust s) ->
  ihs (g (ust s)) = ihs (ust s) -> Keep s (s <| ust := g (ust s) |>).
Proof. intros U1 U2 U3. split; auto; try reflexivity. apply vsame_refl. Qed.

Definition neutral_ev (e : event) : bool :=
  match e with
  | EUser _ _ _ | EForceQuit | ENewLoopEnter _ | EClosePop _ | ENewLoopReturn _ | ERunEnter => false
  | _ => true
  end.
Lemma neutral_not_user e : neutral_ev e = true -> is_user e = false.
Proof. destruct e; cbn; congruence. Qed.
Lemma Keep_emit e s : neutral_ev e = true -> Keep s (emit e s).
Proof.
  intros N. split; try reflexivity.
  - rewrite SW_emit. apply step_loop_vsame, neutral_not_user, N.
  - rewrite HH_emit. destruct e; try discriminate N; reflexivity.
  - apply A_emit_loop, neutral_not_user, N.
  - rewrite HQ_emit. apply hq_step_loop, neutral_not_user, N.
Qed.
Lemma Keep_emit_r e s s1 : Keep s s1 -> neutral_ev e = true -> Keep s (emit e s1).
Proof. intros K N. eapply Keep_trans; [exact K|apply Keep_emit, N]. Qed.
Lemma Keep_same_r s s1 s2 : Keep s s1 -> trace s2 = trace s1 -> ust s2 = ust s1 -> run_loop s2 = run_loop s1 ->
  force_quit s2 = force_quit s1 -> Keep s s2.
Proof. intros K T U R F. eapply Keep_trans; [exact K|apply Keep_same; assumption]. Qed.

Lemma IQ_transfer s s' : HQ s' = HQ s -> st_stack (ust s') = st_stack (ust s) -> ihs (ust s') = ihs (ust s) -> IQ s -> IQ s'.
Proof. intros E U1 U3 [I1 I2 I3]. split; unfold stack_sm; rewrite ?E, ?U1, ?U3; auto. Qed.
Lemma Base_transfer2 s s' : vsame (SW s) (SW s') -> st_stack (ust s') = st_stack (ust s) ->
  st_next_sd (ust s') = st_next_sd (ust s) -> HQ s' = HQ s -> ihs (ust s') = ihs (ust s) -> Base s -> Base s'.
Proof.
  intros (V1 & V2 & V3 & V4) U1 U2 E U3 [B1 B2 B3 B4 B5 B6 B7 B8 B9 B10].
  split; unfold frames_on, frames_modal; rewrite ?U1, ?U2, ?V1, ?V2, ?V3, ?E; auto.
  - destruct V4 as [V4|V4]; congruence.
  - intros Hok. eapply IQ_transfer; eauto.
Qed.
Lemma Base_transfer s s' : vsame (SW s) (SW s') -> ust s' = ust s -> HQ s' = HQ s -> Base s -> Base s'.
Proof. intros V U E. apply Base_transfer2; [exact V|rewrite U; reflexivity|rewrite U; reflexivity|exact E|rewrite U; reflexivity]. Qed.
Lemma Keep_inv g s s' : Keep s s' -> InvG g s -> InvG g s'.
Proof.
  intros [V Hh _ U1 U2 R F E U3] [B S]. split; [eapply Base_transfer2; eauto|].
  rewrite Hh. intros Hok. destruct (S Hok) as [S1 S2 S3 S4]. destruct V as (V1 & V2 & _).
  split; rewrite ?Hh, ?R, ?F, ?V1, ?V2; auto.
Qed.
Lemma Keep_rel s s' : Keep s s' -> Rel true s s'.
Proof.
  intros [V Hh _ _ _ _ _ _ _]. destruct V as (_ & V2 & _). split; [|rewrite Hh; auto].
  apply Relw_modal. rewrite V2. apply frames_le_refl.
Qed.
Lemma Keep_modal s s' : Keep s s' -> sw_modal (SW s') = sw_modal (SW s).
Proof. intros [V _ _ _ _ _ _ _ _]. apply V. Qed.

Lemma Keep_new_signal s sp : Keep s (snd (new_signal s sp)).
Proof.
  unfold new_signal. cbn [snd]. apply Keep_emit_r; [|reflexivity]. apply Keep_same; reflexivity.
Qed.
Lemma Keep_do_enqueue s sg : Keep s (do_enqueue s sg).
Proof.
  unfold do_enqueue. destruct (force_quit s); [apply Keep_emit; reflexivity|].
  apply Keep_emit_r; [|reflexivity]. apply Keep_same; reflexivity.
Qed.
Lemma Keep_do_get_some s sg s1 : do_get s = inl (Some (sg, s1)) -> Keep s s1.
Proof.
  unfold do_get. destruct (q_pop (get_q s (active s))) as [[[[p c] sg'] q']|].
  - intros H. injection H as <- <-. apply Keep_same; reflexivity.
  - destruct (ext s); [discriminate|]. destruct (new_signal _ _). discriminate.
Qed.
Lemma Keep_do_get_ext s s1 : do_get s = inr s1 -> Keep s s1.
Proof.
  unfold do_get. destruct (q_pop (get_q s (active s))) as [[[[p c] sg'] q']|]; [discriminate|].
  destruct (ext s) as [|sp r]; [discriminate|].
  pose proof (Keep_new_signal (s <| ext := r |>) sp) as K.
  destruct (new_signal (s <| ext := r |>) sp) as [sg s0]. cbn [snd] in K.
  intros H. injection H as <-.
  eapply Keep_trans; [|apply Keep_do_enqueue]. apply Keep_emit_r; [|reflexivity].
  eapply Keep_trans; [|exact K]. apply Keep_same; reflexivity.
Qed.

(* loop events that move the stop flag: the base part is never concerned *)
Lemma Base_loop_emit e s s1 : is_user e = false -> trace s1 = trace s -> ust s1 = ust s -> Base s -> Base (emit e s1).
Proof.
  intros N T U B. apply (Base_transfer s); [|exact U| |exact B].
  - rewrite SW_emit. unfold SW. rewrite T. apply step_loop_vsame, N.
  - rewrite HQ_emit, (hq_step_loop _ _ N). unfold HQ. rewrite T. reflexivity.
Qed.
Lemma SW_loop_emit_modal e s s1 : is_user e = false -> trace s1 = trace s ->
  sw_modal (SW (emit e s1)) = sw_modal (SW s) /\ sw_stack (SW (emit e s1)) = sw_stack (SW s).
Proof.
  intros N T. rewrite SW_emit. unfold SW. rewrite T. destruct (step_loop_vsame (SWt (trace s)) e N) as (V1 & V2 & _). auto.
Qed.
Lemma HH_emit' e s s1 : trace s1 = trace s -> HH (emit e s1) = hyp_step (HH s) e.
Proof. intros T. rewrite HH_emit. unfold HH. rewrite T. reflexivity. Qed.
Lemma A_loop_emit e s s1 : is_user e = false -> trace s1 = trace s -> A s -> A (emit e s1).
Proof. intros N T HA. apply A_emit_loop; [exact N|]. eapply A_trace; eauto. Qed.
Lemma Rel_loop_emit e s s1 : is_user e = false -> trace s1 = trace s -> Rel true s (emit e s1).
Proof.
  intros N T. destruct (SW_loop_emit_modal e s s1 N T) as [M _]. split.
  - apply Relw_modal. rewrite M. apply frames_le_refl.
  - rewrite (HH_emit' _ _ _ T). apply hyp_step_mono.
Qed.

(* ================================================================ the loop's own calls *)
Definition PreC (c : call sstate) s : Prop :=
  match c with
  | CApi (ANewLoop _) => InvG false s
  | CApi ACloseLoop => Inv s /\ (h_ok (HH s) = true -> head_closed (sw_modal (SW s)))
  | CProg _ => False
  | _ => Inv s
  end.
Definition balc (c : call sstate) (o : outcome) : bool := match c with CRun => false | _ => bal o end.
Definition Spec (c : call sstate) (o : outcome) s' : Prop :=
  match c with
  | CMainloop => o <> OThrow XError /\
                 (o = ONormal -> (force_quit s' = false -> run_loop s' = true) /\
                                 (h_ok (HH s') = true -> head_closed (sw_modal (SW s'))))
  | CProcLoop | CProcessSignal _ _ => o <> OThrow XError
  | CApi (ANewLoop _) => o <> OThrow XError /\
                 (o = ONormal -> (force_quit s' = false -> run_loop s' = true) /\
                                 (h_ok (HH s') = true -> head_closed (sw_modal (SW s'))))
  | _ => True
  end.
Definition PostC (c : call sstate) s (o : outcome) s' : Prop := Inv s' /\ Rel (balc c o) s s' /\ Spec c o s'.
Definition Res (c : call sstate) s (o : outcome) s' : Prop := A s' /\ (o <> OFuel -> PostC c s o s').

Definition LoopOK (n : nat) : Prop :=
  forall fuel c s o s', fuel <= n -> A s -> PreC c s -> exec code fuel c s = (o, s') -> Res c s o s'.
Definition HOK (n : nat) : Prop :=
  forall hid sg data s, Inv s -> run n s (code hid sg data) (fun o s' => Inv s' /\ Rel (bal o) s s').

Lemma LoopOK_0 : LoopOK 0.
Proof.
  intros fuel c s o s' Hf HA HP E. assert (fuel = 0) as -> by lia. cbn in E. injection E as <- <-.
  split; [exact HA|congruence].
Qed.

(* a sub-call's abnormal outcome is passed on *)
Lemma Res_pass c c2 s s2 o s3 : Res c2 s2 o s3 -> c <> CRun -> c2 <> CRun -> Rel true s s2 -> o <> ONormal ->
  (Spec c2 o s3 -> Spec c o s3) -> Res c s o s3.
Proof.
  intros [HA HP] NR NR2 R N SP. split; [exact HA|]. intros NF. destruct (HP NF) as (I & R2 & S2).
  split; [exact I|split; [|apply SP, S2]].
  assert (balc c o = balc c2 o) as -> by (destruct c, c2; try reflexivity; congruence).
  eapply Rel_trans_l; eauto.
Qed.

Ltac spec_pass :=
  let X := fresh "X" in intros X; cbn [Spec] in *; try exact I; try tauto; try (split; [tauto|intros; congruence]).
Ltac spec_fin := cbn [Spec] in *; first [exact I | assumption | discriminate | tauto].

Ltac inj E := injection E as <- <-.

Lemma loop_step n : LoopOK n -> HOK n -> LoopOK (S n).
Proof.
  intros IH HK fuel c s o s' Hf HA HP E.
  destruct (Nat.eq_dec fuel (S n)) as [->|Hne]; [|apply (IH fuel c s o s'); auto; lia].
  assert (IH' : forall c2 s2 o2 s3, exec code n c2 s2 = (o2, s3) -> A s2 -> PreC c2 s2 -> Res c2 s2 o2 s3)
    by (intros; eapply IH; eauto).
  destruct c; cbn [exec] in E.
  - (* CRun *)
    cbn [PreC] in HP. destruct HP as [B St].
    set (s0 := emit ERunEnter _) in E.
    assert (A0 : A s0) by (apply (A_loop_emit ERunEnter s); [reflexivity|reflexivity|exact HA]).
    assert (H0 : HH s0 = hyp_step (HH s) ERunEnter) by (apply HH_emit'; reflexivity).
    assert (M0 : sw_modal (SW s0) = sw_modal (SW s) /\ sw_stack (SW s0) = sw_stack (SW s))
      by (apply SW_loop_emit_modal; reflexivity).
    assert (I0 : Inv s0).
    { split; [apply (Base_loop_emit ERunEnter s); auto|]. rewrite H0. cbn [hyp_step h_ok h_rl].
      intros Hok. destruct (St Hok) as [S1 S2 S3 S4]. destruct M0 as [M1 M2].
      split; [reflexivity|cbn; discriminate|rewrite M1, M2; exact S3|cbn; discriminate]. }
    assert (R0 : Rel true s s0) by (apply (Rel_loop_emit ERunEnter s); reflexivity).
    destruct (exec code n CMainloop s0) as [o1 s1] eqn:E1.
    destruct (IH' _ _ _ _ E1 A0 I0) as [A1 P1].
    assert (FIN : forall s2, Keep s1 s2 -> o1 <> OFuel -> Res CRun s ONormal s2).
    { intros s2 K NF. destruct (P1 NF) as (I1 & R1 & _). split; [apply (k_A _ _ K), A1|]. intros _.
      split; [eapply Keep_inv; eauto|split; [|exact I]]. cbn [balc].
      eapply Rel_trans_false; [exact R0|]. eapply Rel_trans_r; [exact R1|apply Keep_rel, K]. }
    assert (K2 : Keep s1 (emit ERunReturn (match quit_cb s1 with Some a => emit (EQuitCb a) s1 | None => s1 end))).
    { apply Keep_emit_r; [|reflexivity]. destruct (quit_cb s1); [apply Keep_emit; reflexivity|apply Keep_refl]. }
    destruct o1 as [|[| |]| |]; inj E; try (apply FIN; [exact K2|congruence]).
    + split; [exact A1|]. intros _. destruct (P1 ltac:(congruence)) as (I1 & R1 & _).
      split; [exact I1|split; [|exact I]]. eapply Rel_trans_false; eauto.
    + split; [exact A1|]. intros _. destruct (P1 ltac:(congruence)) as (I1 & R1 & _).
      split; [exact I1|split; [|exact I]]. eapply Rel_trans_false; eauto.
    + split; [exact A1|]. intros _. destruct (P1 ltac:(congruence)) as (I1 & R1 & _).
      split; [exact I1|split; [|exact I]]. eapply Rel_trans_false; eauto.
    + split; [exact A1|congruence].
  - (* CMainloop *)
    cbn [PreC] in HP.
    destruct (run_loop s) eqn:RL.
    + destruct (exec code n CProcLoop s) as [o1 s1] eqn:E1.
      pose proof (IH' _ _ _ _ E1 HA HP) as R1.
      destruct o1 as [|x| |]; try (inj E; eapply Res_pass; [exact R1|discriminate|discriminate|apply Rel_refl|discriminate|spec_pass]).
      * destruct R1 as [A1 P1]. destruct (P1 ltac:(congruence)) as (I1 & R1 & _).
        destruct (IH' _ _ _ _ E A1 I1) as [A2 P2]. split; [exact A2|]. intros NF. destruct (P2 NF) as (I2 & R2 & S2).
        split; [exact I2|split; [eapply Rel_trans_l; eauto|exact S2]].
    + set (sx := if force_quit s then s else _) in E. inj E. destruct HP as [B St].
      assert (T : trace sx = trace s) by (unfold sx; destruct (force_quit s); reflexivity).
      assert (U : ust sx = ust s) by (unfold sx; destruct (force_quit s); reflexivity).
      assert (F : force_quit sx = force_quit s) by (unfold sx; destruct (force_quit s) eqn:F0; cbn; exact F0).
      assert (Ew : SW sx = SW s) by (unfold SW; rewrite T; reflexivity).
      assert (Eh : HH sx = HH s) by (unfold HH; rewrite T; reflexivity).
      assert (RLx : force_quit s = false -> run_loop sx = true) by (intros F0; unfold sx; rewrite F0; reflexivity).
      split; [eapply A_trace; eauto|]. intros _. split; [|split].
      * split; [apply (Base_transfer s sx); [rewrite Ew; apply vsame_refl|exact U|unfold HQ; rewrite T; reflexivity|exact B]|].
        rewrite Eh. intros Hok. destruct (St Hok) as [S1 S2 S3 S4].
        split; rewrite ?Ew, ?F, ?(RLx S1); auto; discriminate.
      * cbn [balc bal]. split; [rewrite Ew; apply Relw_refl|rewrite Eh; auto].
      * cbn [Spec]. split; [discriminate|]. intros _. split.
        -- rewrite F. exact RLx.
        -- rewrite Eh, Ew. intros Hok. destruct (St Hok) as [S1 S2 S3 S4]. apply S4; auto.
  - (* CProcLoop *)
    cbn [PreC] in HP.
    destruct (run_loop s) eqn:RL.
    2:{ inj E. split; [exact HA|]. intros _. split; [exact HP|split; [apply Rel_refl|spec_fin]]. }
    destruct (do_get s) as [[[sg s1]|]|s1] eqn:G.
    + pose proof (Keep_do_get_some _ _ _ G) as K1.
      set (s2 := emit _ s1) in E.
      assert (K2 : Keep s s2) by (apply Keep_emit_r; [exact K1|reflexivity]).
      destruct (exec code n (CProcessSignal sg 0) s2) as [o1 s3] eqn:E1.
      pose proof (IH' _ _ _ _ E1 (k_A _ _ K2 HA) (Keep_inv _ _ _ K2 HP)) as R1.
      destruct o1 as [|x| |]; try (inj E; eapply Res_pass; [exact R1|discriminate|discriminate|apply Keep_rel, K2|discriminate|spec_pass]).
      * destruct R1 as [A1 P1]. destruct (P1 ltac:(congruence)) as (I1 & R1 & _).
        destruct (IH' _ _ _ _ E A1 I1) as [A2 P2]. split; [exact A2|]. intros NF. destruct (P2 NF) as (I2 & R2 & S2).
        split; [exact I2|split; [|spec_fin]]. eapply Rel_trans_l; [apply Keep_rel, K2|]. eapply Rel_trans_l; eauto.
    + inj E. split; [exact HA|]. intros _. split; [exact HP|split; [apply Rel_refl|spec_fin]].
    + pose proof (Keep_do_get_ext _ _ G) as K1.
      destruct (IH' _ _ _ _ E (k_A _ _ K1 HA) (Keep_inv _ _ _ K1 HP)) as [A2 P2]. split; [exact A2|].
      intros NF. destruct (P2 NF) as (I2 & R2 & S2). split; [exact I2|split; [|spec_fin]].
      eapply Rel_trans_l; [apply Keep_rel, K1|exact R2].
  - (* CProcWait *)
    cbn [PreC] in HP.
    destruct (run_loop s) eqn:RL.
    2:{ inj E. split; [exact HA|]. intros _. split; [exact HP|split; [apply Rel_refl|exact I]]. }
    destruct (do_get s) as [[[sg s1]|]|s1] eqn:G.
    + pose proof (Keep_do_get_some _ _ _ G) as K1.
      set (s2 := emit _ s1) in E.
      assert (K2 : Keep s s2) by (apply Keep_emit_r; [exact K1|reflexivity]).
      destruct (exec code n (CProcessSignal sg 0) s2) as [o1 s3] eqn:E1.
      pose proof (IH' _ _ _ _ E1 (k_A _ _ K2 HA) (Keep_inv _ _ _ K2 HP)) as R1.
      destruct o1 as [|x| |]; try (inj E; eapply Res_pass; [exact R1|discriminate|discriminate|apply Keep_rel, K2|discriminate|spec_pass]).
      * destruct R1 as [A1 P1]. destruct (P1 ltac:(congruence)) as (I1 & R1 & _).
        assert (R01 : Rel true s s3) by (eapply Rel_trans_l; [apply Keep_rel, K2|exact R1]).
        destruct (check_ticket (tickets s3) cls ticket) as [[[|] t']|].
        -- inj E. assert (K3 : Keep s3 (s3 <| tickets := t' |>)) by (apply Keep_same; reflexivity).
           split; [apply (k_A _ _ K3), A1|]. intros _. split; [eapply Keep_inv; eauto|split; [|exact I]].
           eapply Rel_trans_l; [exact R01|apply Keep_rel, K3].
        -- destruct (IH' _ _ _ _ E A1 I1) as [A2 P2]. split; [exact A2|]. intros NF. destruct (P2 NF) as (I2 & R2 & S2).
           split; [exact I2|split; [|exact I]]. eapply Rel_trans_l; eauto.
        -- inj E. split; [exact A1|]. intros _. split; [exact I1|split; [exact R01|exact I]].
    + inj E. split; [exact HA|]. intros _. split; [exact HP|split; [apply Rel_refl|exact I]].
    + pose proof (Keep_do_get_ext _ _ G) as K1.
      destruct (IH' _ _ _ _ E (k_A _ _ K1 HA) (Keep_inv _ _ _ K1 HP)) as [A2 P2]. split; [exact A2|].
      intros NF. destruct (P2 NF) as (I2 & R2 & S2). split; [exact I2|split; [|exact I]].
      eapply Rel_trans_l; [apply Keep_rel, K1|exact R2].
  - (* CProcIter *)
    cbn [PreC] in HP.
    destruct (negb (q_empty (get_q s (active s))) && run_loop s).
    2:{ inj E. split; [exact HA|]. intros _. split; [exact HP|split; [apply Rel_refl|exact I]]. }
    destruct (q_pop (get_q s (active s))) as [[[[p cnt] sg] q']|] eqn:P.
    2:{ inj E. split; [exact HA|]. intros _. split; [exact HP|split; [apply Rel_refl|exact I]]. }
    assert (GO : forall o s',
               (let s1 := set_q s (active s) q' in
                let s2 := emit (EDispatch (sg_id sg) (active s) (length (levels s))) s1 in
                let '(o, s3) := exec code n (CProcessSignal sg 0) s2 in
                match o with ONormal => exec code n (CProcIter (Some p)) s3 | _ => (o, s3) end) = (o, s') ->
               Res (CProcIter prio) s o s').
    { clear E. intros o0 s0' E. cbn zeta in E. set (s2 := emit _ _) in E.
      assert (K2 : Keep s s2) by (apply Keep_emit_r; [apply Keep_same; reflexivity|reflexivity]).
      destruct (exec code n (CProcessSignal sg 0) s2) as [o1 s3] eqn:E1.
      pose proof (IH' _ _ _ _ E1 (k_A _ _ K2 HA) (Keep_inv _ _ _ K2 HP)) as R1.
      destruct o1 as [|x| |]; try (inj E; eapply Res_pass; [exact R1|discriminate|discriminate|apply Keep_rel, K2|discriminate|spec_pass]).
      * destruct R1 as [A1 P1]. destruct (P1 ltac:(congruence)) as (I1 & R1 & _).
        destruct (IH' _ _ _ _ E A1 I1) as [A2 P2]. split; [exact A2|]. intros NF. destruct (P2 NF) as (I2 & R2 & S2).
        split; [exact I2|split; [|exact I]]. eapply Rel_trans_l; [apply Keep_rel, K2|]. eapply Rel_trans_l; eauto. }
    destruct prio as [p0|]; [|apply GO in E; exact E].
    destruct (p =? p0)%Z; [apply GO in E; exact E|].
    inj E. set (s2 := emit _ _).
    assert (K2 : Keep s s2) by (apply Keep_emit_r; [apply Keep_same; reflexivity|reflexivity]).
    split; [apply (k_A _ _ K2), HA|]. intros _. split; [eapply Keep_inv; eauto|split; [apply Keep_rel, K2|exact I]].
  - (* CProcessSignal *)
    cbn [PreC] in HP.
    set (s0 := if (idx =? 0)%nat then _ else s) in E.
    assert (K0 : Keep s s0) by (unfold s0; destruct (idx =? 0)%nat; [apply Keep_same; reflexivity|apply Keep_refl]).
    clearbody s0.
    assert (DONE : forall e, neutral_ev e = true -> forall o, o <> OThrow XError -> Res (CProcessSignal sg idx) s o (emit e s0)).
    { intros e N o0 NX. assert (K : Keep s (emit e s0)) by (apply Keep_emit_r; assumption).
      split; [apply (k_A _ _ K), HA|]. intros _. split; [eapply Keep_inv; eauto|split; [|exact NX]].
      apply Rel_weaken, Keep_rel, K. }
    destruct (handlers_of s0 (sg_cls sg)) as [hs|].
    2:{ destruct (sg_cls sg =? CLS_EXCEPTION)%nat; inj E; (eapply DONE; [reflexivity|discriminate]). }
    destruct (force_quit s0); [inj E; (eapply DONE; [reflexivity|discriminate])|].
    destruct (nth_error hs idx) as [[hid data]|]; [|inj E; (eapply DONE; [reflexivity|discriminate])].
    set (s1 := emit _ s0) in E.
    assert (K1 : Keep s s1) by (apply Keep_emit_r; [exact K0|reflexivity]).
    destruct (exec code n (CProg (code hid sg data)) s1) as [o1 s2] eqn:E1.
    destruct (HK hid sg data s1 (Keep_inv _ _ _ K1 HP) (k_A _ _ K1 HA) n o1 s2 (le_n _) E1) as [A2 Q2].
    destruct o1 as [|[| |]| |].
    + destruct (Q2 ltac:(congruence)) as [I2 R2].
      set (s3 := emit _ s2) in E. assert (K3 : Keep s2 s3) by (apply Keep_emit; reflexivity).
      destruct (IH' _ _ _ _ E (k_A _ _ K3 A2) (Keep_inv _ _ _ K3 I2)) as [A4 P4]. split; [exact A4|].
      intros NF. destruct (P4 NF) as (I4 & R4 & S4). split; [exact I4|split; [|exact S4]].
      eapply Rel_trans_l; [apply Keep_rel, K1|]. eapply Rel_trans_l; [exact R2|]. eapply Rel_trans_l; [apply Keep_rel, K3|exact R4].
    + destruct (Q2 ltac:(congruence)) as [I2 R2]. inj E.
      assert (K3 : Keep s2 (emit (EHandlerEnd hid (sg_id sg) (Some XExit)) s2)) by (apply Keep_emit; reflexivity).
      split; [apply (k_A _ _ K3), A2|]. intros _. split; [eapply Keep_inv; eauto|split; [|spec_fin]].
      eapply Rel_trans_l; [apply Keep_rel, K1|]. eapply Rel_trans_r; [exact R2|apply Keep_rel, K3].
    + destruct (Q2 ltac:(congruence)) as [I2 R2].
      set (s3 := emit _ s2) in E.
      pose proof (Keep_new_signal s3 exception_spec) as K4.
      destruct (new_signal s3 exception_spec) as [xs s4]. cbn [snd] in K4.
      assert (K5 : Keep s2 (do_enqueue s4 xs)).
      { apply (Keep_trans s2 s3); [apply Keep_emit; reflexivity|]. eapply Keep_trans; [exact K4|apply Keep_do_enqueue]. }
      destruct (IH' _ _ _ _ E (k_A _ _ K5 A2) (Keep_inv _ _ _ K5 I2)) as [A6 P6]. split; [exact A6|].
      intros NF. destruct (P6 NF) as (I6 & R6 & S6). split; [exact I6|split; [|exact S6]].
      eapply Rel_trans_l; [apply Keep_rel, K1|]. eapply Rel_trans_l; [exact R2|]. eapply Rel_trans_l; [apply Keep_rel, K5|exact R6].
    + destruct (Q2 ltac:(congruence)) as [I2 R2]. inj E.
      assert (K3 : Keep s2 (emit (EHandlerEnd hid (sg_id sg) (Some XSysExit)) s2)) by (apply Keep_emit; reflexivity).
      split; [apply (k_A _ _ K3), A2|]. intros _. split; [eapply Keep_inv; eauto|split; [|spec_fin]].
      eapply Rel_trans_l; [apply Keep_rel, K1|]. eapply Rel_trans_r; [exact R2|apply Keep_rel, K3].
    + destruct (Q2 ltac:(congruence)) as [I2 R2]. inj E.
      split; [exact A2|]. intros _. split; [exact I2|split; [|spec_fin]]. eapply Rel_trans_l; [apply Keep_rel, K1|exact R2].
    + inj E. split; [exact A2|congruence].
  - (* CApi *)
    destruct c.
    + (* AEnqueue *)
      cbn [PreC] in HP. pose proof (Keep_new_signal s sp) as K1.
      destruct (new_signal s sp) as [sg s1]. cbn [snd] in K1. inj E.
      assert (K : Keep s (do_enqueue s1 sg)) by (eapply Keep_trans; [exact K1|apply Keep_do_enqueue]).
      split; [apply (k_A _ _ K), HA|]. intros _. split; [eapply Keep_inv; eauto|split; [apply Keep_rel, K|exact I]].
    + (* AForceQuit *)
      cbn [PreC] in HP. inj E. destruct HP as [B St].
      set (s1 := s <| force_quit := true |> <| levels := [] |> <| run_loop := false |>).
      split; [apply (A_loop_emit EForceQuit s s1); [reflexivity|reflexivity|exact HA]|]. intros _. split; [|split; [|exact I]].
      * split; [apply (Base_loop_emit EForceQuit s s1); auto|]. rewrite (HH_emit' _ s) by reflexivity. cbn. discriminate.
      * apply (Rel_loop_emit EForceQuit s s1); reflexivity.
    + (* ANewLoop *)
      cbn [PreC] in HP. pose proof (Keep_new_signal s sp) as K1.
      destruct (new_signal s sp) as [sg s1]. cbn [snd] in K1.
      pose proof (Keep_inv _ _ _ K1 HP) as [B1 S1]. pose proof (k_A _ _ K1 HA) as A1.
      destruct (force_quit s1) eqn:FQ.
      { inj E. split; [exact A1|]. intros _. split; [|split; [apply Keep_rel, K1|]].
        - split; [exact B1|]. intros Hok. destruct (S1 Hok) as [X _ _ _]. congruence.
        - cbn [Spec]. split; [discriminate|]. intros _. split; [intros X; congruence|].
          intros Hok. destruct (S1 Hok) as [X _ _ _]. congruence. }
      set (s2e := emit (ENewLoopEnter _) _) in E.
      assert (A2 : A s2e) by (apply (A_loop_emit _ s1); [reflexivity|reflexivity|exact A1]).
      assert (H2 : HH s2e = hyp_step (HH s1) (ENewLoopEnter (length (qstore s1)))) by (apply HH_emit'; reflexivity).
      assert (M2e : sw_modal (SW s2e) = sw_modal (SW s1) /\ sw_stack (SW s2e) = sw_stack (SW s1))
        by (apply SW_loop_emit_modal; reflexivity).
      assert (RL2 : run_loop s2e = run_loop s1) by reflexivity.
      assert (FQ2 : force_quit s2e = force_quit s1) by reflexivity.
      assert (I2 : Inv s2e).
      { split; [apply (Base_loop_emit _ s1); auto|]. rewrite H2. cbn [hyp_step h_ok h_rl].
        intros Hok. apply andb_true_iff in Hok. destruct Hok as [Hok Hrl]. destruct (S1 Hok) as [X1 X2 X3 X4].
        destruct M2e as [M1 M2].
        assert (RL : run_loop s1 = true) by (destruct (run_loop s1); [reflexivity|rewrite X2 in Hrl; [discriminate|reflexivity]]).
        split; [rewrite FQ2; exact X1| |rewrite M1, M2; exact X3|]; rewrite RL2, RL; discriminate. }
      assert (R2 : Rel true s s2e) by (eapply Rel_trans_l; [apply Keep_rel, K1|apply (Rel_loop_emit _ s1); reflexivity]).
      pose proof (Keep_do_enqueue s2e sg) as K3.
      destruct (exec code n CMainloop (do_enqueue s2e sg)) as [o1 s4] eqn:E1.
      pose proof (IH' _ _ _ _ E1 (k_A _ _ K3 A2) (Keep_inv _ _ _ K3 I2)) as R4.
      assert (R3 : Rel true s (do_enqueue s2e sg)) by (eapply Rel_trans_l; [exact R2|apply Keep_rel, K3]).
      destruct o1 as [|x| |]; try (inj E; eapply Res_pass; [exact R4|discriminate|discriminate|exact R3|discriminate|spec_pass]).
      * set (s5 := emit (ENewLoopReturn _) s4) in E. inj E.
        destruct R4 as [A4 P4]. destruct (P4 ltac:(congruence)) as ([B4 S4] & R4 & SP4). cbn [Spec] in SP4.
        destruct SP4 as [_ SP4]. destruct (SP4 eq_refl) as [RL4 HC4].
        assert (H5 : HH s5 = hyp_step (HH s4) (ENewLoopReturn (length (qstore s1)))) by (apply HH_emit'; reflexivity).
        destruct (SW_loop_emit_modal (ENewLoopReturn (length (qstore s1))) s4 s4 eq_refl eq_refl) as [M1 M2]. fold s5 in M1, M2.
        assert (RL5 : run_loop s5 = run_loop s4) by reflexivity.
        assert (FQ5 : force_quit s5 = force_quit s4) by reflexivity.
        split; [apply (A_loop_emit _ s4 s4); [reflexivity|reflexivity|exact A4]|]. intros _. split; [|split].
        -- split; [apply (Base_loop_emit _ s4 s4); auto|]. rewrite H5. cbn [hyp_step h_ok h_rl]. intros Hok.
           destruct (S4 Hok) as [X1 X2 X3 X4]. pose proof (RL4 X1) as RL.
           split; [rewrite FQ5; exact X1| |rewrite M1, M2; exact X3|]; rewrite RL5, RL; discriminate.
        -- cbn [balc bal]. eapply Rel_trans_l; [exact R3|]. eapply Rel_trans_l; [exact R4|].
           apply (Rel_loop_emit _ s4 s4); reflexivity.
        -- cbn [Spec]. split; [discriminate|]. intros _. split; [rewrite FQ5, RL5; exact RL4|].
           rewrite H5, M1. cbn [hyp_step h_ok]. exact HC4.
    + (* ACloseLoop *)
      cbn [PreC] in HP. destruct HP as [HI HC].
      set (s0 := emit _ s) in E. assert (K0 : Keep s s0) by (apply Keep_emit; reflexivity).
      destruct (exec code n (CProcIter None) s0) as [o1 s1] eqn:E1.
      pose proof (IH' _ _ _ _ E1 (k_A _ _ K0 HA) (Keep_inv _ _ _ K0 HI)) as R1.
      destruct o1 as [|x| |]; try (inj E; eapply Res_pass; [exact R1|discriminate|discriminate|apply Keep_rel, K0|discriminate|spec_pass]).
      destruct R1 as [A1 P1]. destruct (P1 ltac:(congruence)) as (I1 & R1 & _). cbn [balc bal] in R1.
      set (s2 := emit (EProcReturn None 0) s1) in E. assert (K2 : Keep s1 s2) by (apply Keep_emit; reflexivity).
      assert (R02 : Rel true s s2).
      { eapply Rel_trans_l; [apply Keep_rel, K0|]. eapply Rel_trans_l; [exact R1|apply Keep_rel, K2]. }
      pose proof (k_A _ _ K2 A1) as A2. pose proof (Keep_inv _ _ _ K2 I1) as [B2 S2].
      destruct (rev (levels s2)) as [|top rest_rev] eqn:RV.
      { inj E. split; [exact A2|]. intros _. split; [split; assumption|split; [exact R02|exact I]]. }
      set (s4 := emit (EClosePop top) _) in E.
      assert (A4 : A s4) by (apply (A_loop_emit _ s2); [reflexivity|reflexivity|exact A2]).
      assert (H4 : HH s4 = hyp_step (HH s2) (EClosePop top)) by (apply HH_emit'; reflexivity).
      assert (M4 : sw_modal (SW s4) = sw_modal (SW s2) /\ sw_stack (SW s4) = sw_stack (SW s2))
        by (apply SW_loop_emit_modal; reflexivity).
      destruct M4 as [M1 M2].
      assert (FQ4 : force_quit s4 = force_quit s2) by reflexivity.
      assert (RL4 : run_loop s4 = run_loop s2) by reflexivity.
      assert (R04 : Rel true s s4) by (eapply Rel_trans_l; [exact R02|apply (Rel_loop_emit _ s2); reflexivity]).
      assert (B4 : Base s4) by (apply (Base_loop_emit _ s2); auto).
      assert (HC4 : h_ok (HH s4) = true -> head_closed (sw_modal (SW s4))).
      { intros Hok. destruct R04 as [Rw Mono]. apply (Relw_head_closed _ _ Rw). apply HC, Mono, Hok. }
      clearbody s4.
      destruct rest_rev as [|q r].
      * inj E. split; [exact A4|]. intros _. split; [|split; [apply Rel_weaken, R04|exact I]].
        split; [exact B4|]. intros Hok. pose proof Hok as Hok'. rewrite H4 in Hok'. cbn [hyp_step h_ok] in Hok'.
        destruct (S2 Hok') as [X1 X2 X3 X4].
        split; [rewrite FQ4; exact X1|intros _; rewrite H4; reflexivity|rewrite M1, M2; exact X3|intros _ _; apply HC4, Hok].
      * match type of E with (_, ?x) = _ => set (s5 := x) in E end. inj E.
        assert (W5 : SW s5 = SW s4) by reflexivity. assert (H5 : HH s5 = HH s4) by reflexivity.
        assert (FQ5 : force_quit s5 = force_quit s4) by reflexivity.
        split; [exact A4|]. intros _. split; [|split; [split; [rewrite W5; apply R04|rewrite H5; apply R04]|exact I]].
        split; [apply (Base_transfer s4 s5); [rewrite W5; apply vsame_refl|reflexivity|reflexivity|exact B4]|].
        rewrite H5. intros Hok. pose proof Hok as Hok'. rewrite H4 in Hok'. cbn [hyp_step h_ok] in Hok'.
        destruct (S2 Hok') as [X1 X2 X3 X4].
        split; [rewrite FQ5, FQ4; exact X1|intros _; rewrite H5, H4; reflexivity|rewrite W5, M1, M2; exact X3|intros _ _; rewrite W5; apply HC4, Hok].
    + (* AProcess *)
      cbn [PreC] in HP. destruct return_after as [cls|].
      * destruct (take_ticket (tickets s) cls) as [t tm].
        set (s1 := emit _ _) in E.
        assert (K1 : Keep s s1) by (apply Keep_emit_r; [apply Keep_same; reflexivity|reflexivity]).
        destruct (exec code n (CProcWait cls t) s1) as [o1 s2] eqn:E1.
        pose proof (IH' _ _ _ _ E1 (k_A _ _ K1 HA) (Keep_inv _ _ _ K1 HP)) as R1.
        destruct o1 as [|x| |]; try (inj E; eapply Res_pass; [exact R1|discriminate|discriminate|apply Keep_rel, K1|discriminate|spec_pass]).
        inj E. destruct R1 as [A2 P2]. destruct (P2 ltac:(congruence)) as (I2 & R2 & _).
        assert (K3 : Keep s2 (emit (EProcReturn (Some cls) t) s2)) by (apply Keep_emit; reflexivity).
        split; [apply (k_A _ _ K3), A2|]. intros _. split; [eapply Keep_inv; eauto|split; [|exact I]].
        eapply Rel_trans_l; [apply Keep_rel, K1|]. eapply Rel_trans_l; [exact R2|apply Keep_rel, K3].
      * set (s1 := emit _ _) in E.
        assert (K1 : Keep s s1) by (apply Keep_emit; reflexivity).
        destruct (exec code n (CProcIter None) s1) as [o1 s2] eqn:E1.
        pose proof (IH' _ _ _ _ E1 (k_A _ _ K1 HA) (Keep_inv _ _ _ K1 HP)) as R1.
        destruct o1 as [|x| |]; try (inj E; eapply Res_pass; [exact R1|discriminate|discriminate|apply Keep_rel, K1|discriminate|spec_pass]).
        inj E. destruct R1 as [A2 P2]. destruct (P2 ltac:(congruence)) as (I2 & R2 & _).
        assert (K3 : Keep s2 (emit (EProcReturn None 0) s2)) by (apply Keep_emit; reflexivity).
        split; [apply (k_A _ _ K3), A2|]. intros _. split; [eapply Keep_inv; eauto|split; [|exact I]].
        eapply Rel_trans_l; [apply Keep_rel, K1|]. eapply Rel_trans_l; [exact R2|apply Keep_rel, K3].
    + cbn [PreC] in HP. inj E. set (s1 := emit _ _).
      assert (K : Keep s s1) by (apply Keep_emit_r; [apply Keep_same; reflexivity|reflexivity]).
      split; [apply (k_A _ _ K), HA|]. intros _. split; [eapply Keep_inv; eauto|split; [apply Keep_rel, K|exact I]].
    + cbn [PreC] in HP. inj E. set (s1 := emit _ _).
      assert (K : Keep s s1) by (apply Keep_emit_r; [apply Keep_same; reflexivity|reflexivity]).
      split; [apply (k_A _ _ K), HA|]. intros _. split; [eapply Keep_inv; eauto|split; [apply Keep_rel, K|exact I]].
    + cbn [PreC] in HP. inj E. set (s1 := emit _ _).
      assert (K : Keep s s1) by (apply Keep_emit_r; [apply Keep_same; reflexivity|reflexivity]).
      split; [apply (k_A _ _ K), HA|]. intros _. split; [eapply Keep_inv; eauto|split; [apply Keep_rel, K|exact I]].
    + cbn [PreC] in HP. inj E. set (s1 := s <| ext := _ |>).
      assert (K : Keep s s1) by (apply Keep_same; reflexivity).
      split; [apply (k_A _ _ K), HA|]. intros _. split; [eapply Keep_inv; eauto|split; [apply Keep_rel, K|exact I]].
  - (* CProg *) destruct HP.
Qed.

(* ================================================================ the handlers' programs *)
Definition Post s (o : outcome) s' : Prop := Inv s' /\ Rel (bal o) s s'.
Definition std (n : nat) s (p : sprog) : Prop := run n s p (Post s).

Lemma SW_cons s s' e : trace s' = e :: trace s -> SW s' = sworld_step (SW s) e.
Proof. intros T. unfold SW, SWt. rewrite T. cbn [rev]. rewrite fold_left_app. reflexivity. Qed.
Lemma HH_cons s s' e : trace s' = e :: trace s -> HH s' = hyp_step (HH s) e.
Proof. intros T. unfold HH, Ht, hyp_of. rewrite T. cbn [rev]. rewrite fold_left_app. reflexivity. Qed.
Lemma HH_cons_user s s' tag a t : trace s' = EUser tag a t :: trace s -> HH s' = HH s.
Proof. intros T. rewrite (HH_cons _ _ _ T). reflexivity. Qed.

Lemma run_api n s a (Q : outcome -> st -> Prop) :
  LoopOK n -> PreC (CApi a) s -> (forall o s', PostC (CApi a) s o s' -> Q o s') -> run n s (PApi a) Q.
Proof.
  intros L HP HQ HA fuel o s' Hf E. destruct fuel as [|fuel]; [cbn in E; inj E; split; [exact HA|congruence]|].
  cbn [exec] in E. destruct (L fuel (CApi a) s o s' ltac:(lia) HA HP E) as [A' P']. split; auto.
Qed.

Definition simple_api (a : api) : Prop := match a with ANewLoop _ | ACloseLoop => False | _ => True end.
Lemma std_api n s a : LoopOK n -> simple_api a -> Inv s -> std n s (PApi a).
Proof.
  intros L SA HI. apply run_api; [exact L|destruct a; try exact HI; destruct SA|].
  intros o s' (I' & R' & _). split; [exact I'|]. destruct a; try exact R'; destruct SA.
Qed.

Lemma std_keep s s1 : Keep s s1 -> Inv s -> Post s ONormal s1.
Proof. intros K HI. split; [eapply Keep_inv; eauto|apply Keep_rel, K]. Qed.

Lemma run_regsource n s o (Q : outcome -> st -> Prop) :
  Q ONormal (emit (ERegSource o (active s)) (set_q s (active s) (q_add_source (get_q s (active s)) o))) ->
  run n s (PApi (ARegSource o)) Q.
Proof.
  intros HQ HA fuel o' s' Hf E. destruct fuel as [|fuel]; [cbn in E; inj E; split; [exact HA|congruence]|].
  cbn [exec] in E. destruct fuel as [|fuel]; [cbn in E; inj E; split; [exact HA|congruence]|].
  cbn [exec] in E. inj E. split; [|intros _; exact HQ].
  apply A_emit_loop; [reflexivity|]. eapply A_trace; [|exact HA]. reflexivity.
Qed.
Lemma Keep_regsource s o : Keep s (emit (ERegSource o (active s)) (set_q s (active s) (q_add_source (get_q s (active s)) o))).
Proof. apply Keep_emit_r; [apply Keep_same; reflexivity|reflexivity]. Qed.

Lemma std_ret n s : Inv s -> std n s PRet.
Proof. intros HI. apply run_ret. split; [exact HI|apply Rel_refl]. Qed.
Lemma std_throw n s x : Inv s -> std n s (PThrow x).
Proof. intros HI. apply run_throw. split; [exact HI|apply Rel_refl]. Qed.

Lemma run_seq_std n s p q (Q : outcome -> st -> Prop) :
  std n s p -> (forall s1, Inv s1 -> Rel true s s1 -> run n s1 q Q) ->
  (forall o s1, o <> ONormal -> Inv s1 -> Rel (bal o) s s1 -> Q o s1) -> run n s (p ;; q) Q.
Proof.
  intros Hp Hq Hx. apply run_seq. eapply run_conseq; [exact Hp|]. intros o s1 [I1 R1].
  destruct o; try (apply Hx; [discriminate|exact I1|exact R1]). apply Hq; assumption.
Qed.
Lemma std_post_l s s1 o s2 : Rel true s s1 -> Post s1 o s2 -> Post s o s2.
Proof. intros R [I2 R2]. split; [exact I2|eapply Rel_trans_l; eauto]. Qed.

Lemma std_seq n s p q : std n s p -> (forall s1, Inv s1 -> std n s1 q) -> std n s (p ;; q).
Proof.
  intros Hp Hq. apply run_seq_std; [exact Hp| |].
  - intros s1 I1 R1. eapply run_conseq; [apply Hq, I1|]. intros o s2 P2. eapply std_post_l; eauto.
  - intros o s1 _ I1 R1. split; assumption.
Qed.
Lemma std_try n s p h : std n s p -> (forall s1, Inv s1 -> std n s1 h) -> std n s (PTry p h).
Proof.
  intros Hp Hh. apply run_try. eapply run_conseq; [exact Hp|]. intros o s1 [I1 R1].
  destruct o as [|[| |]| |]; try (split; assumption).
  eapply run_conseq; [apply Hh, I1|]. intros o s2 P2. eapply std_post_l; eauto.
Qed.
Lemma std_rd n s k : std n s (k (ust s)) -> std n s (rd k).
Proof. apply run_rd. Qed.

Lemma Keep_ust s s' : trace s' = trace s -> st_stack (ust s') = st_stack (ust s) -> st_next_sd (ust s') = st_next_sd (ust s) ->
  ihs (ust s') = ihs (ust s) -> run_loop s' = run_loop s -> force_quit s' = force_quit s -> Keep s s'.
Proof. intros T U1 U2 U3 RL FQ. split; auto; unfold SW, HH, HQ, A; rewrite ?T; auto using vsame_refl. Qed.
Lemma Inv_ust g s s' : trace s' = trace s -> st_stack (ust s') = st_stack (ust s) -> st_next_sd (ust s') = st_next_sd (ust s) ->
  ihs (ust s') = ihs (ust s) -> run_loop s' = run_loop s -> force_quit s' = force_quit s -> InvG g s -> InvG g s'.
Proof. intros T U1 U2 U3 RL FQ. apply Keep_inv, Keep_ust; assumption. Qed.
Lemma ihs_upd_ih m (f : ihandler -> ihandler) u :
  (forall h, ih_owner (f h) = ih_owner h /\ ih_cb (f h) = ih_cb h) -> ihs (upd_ih m f u) = ihs u.
Proof.
  intros Hf. unfold ihs, upd_ih. cbn [st_ih set]. generalize (st_ih u) m. clear u m.
  induction l as [|h r IH]; intros [|k]; cbn; auto.
  - destruct (Hf h) as [-> ->]. reflexivity.
  - rewrite IH. reflexivity.
Qed.
Lemma Inv_ih_weaken g s s' : trace s' = trace s -> st_stack (ust s') = st_stack (ust s) ->
  st_next_sd (ust s') = st_next_sd (ust s) -> run_loop s' = run_loop s -> force_quit s' = force_quit s ->
  (forall m A, nth_error (ihs (ust s')) m = Some (A, true) -> nth_error (ihs (ust s)) m = Some (A, true)) ->
  InvG g s -> InvG g s'.
Proof.
  intros T U1 U2 RL FQ W [[B1 B2 B3 B4 B5 B6 B7 B8 B9 B10] St].
  assert (Ew : SW s' = SW s) by (unfold SW; rewrite T; reflexivity).
  assert (Eh : HH s' = HH s) by (unfold HH; rewrite T; reflexivity).
  assert (Eq : HQ s' = HQ s) by (unfold HQ; rewrite T; reflexivity).
  split.
  - split; rewrite ?Ew, ?U1, ?U2, ?Eq; auto. intros Hok. destruct (B10 Hok) as [I1 I2 I3].
    split; unfold stack_sm; rewrite ?Eq, ?U1; auto.
  - rewrite Eh. intros Hok. destruct (St Hok) as [S1 S2 S3 S4]. split; rewrite ?Ew, ?Eh, ?RL, ?FQ; assumption.
Qed.
Lemma Rel_same_trace s s' : trace s' = trace s -> Rel true s s'.
Proof. intros T. unfold Rel, SW, HH. rewrite T. split; [apply Relw_refl|auto]. Qed.

Lemma std_wr n s g : (forall u, st_stack (g u) = st_stack u) -> (forall u, st_next_sd (g u) = st_next_sd u) ->
  (forall u, ihs (g u) = ihs u) -> Inv s -> std n s (wr g).
Proof.
  intros G1 G2 G3 HI. apply run_wr. split.
  - eapply Inv_ust; [| | | | | |exact HI]; try reflexivity; cbn; auto.
  - apply Rel_same_trace. reflexivity.
Qed.

(* events that concern neither the stack nor the frames *)
Definition inert2 (tag : nat) : bool :=
  inert_tag tag && negb ((tag =? T_SETUP)%nat || (tag =? T_REFRESH)%nat || (tag =? T_SHOW)%nat || (tag =? T_SETUP_BEGIN)%nat).
Lemma chk_inert2 b w tag a t : inert2 tag = true -> chk_C05_shield_gen b w (EUser tag a t) = true.
Proof.
  unfold inert2, inert_tag. intros H. apply andb_true_iff in H. destruct H as [H1 H2].
  apply negb_true_iff in H1, H2. apply orb_false_iff in H1. destruct H1 as [_ H1].
  cbn [chk_C05_shield_gen]. rewrite H2, H1. reflexivity.
Qed.
(* ... nor the prompts *)
Definition inert3 (tag : nat) : bool :=
  inert2 tag && negb ((tag =? T_REQ)%nat || (tag =? T_READY)%nat || (tag =? T_INPUT)%nat).
Lemma hq_step_inert h tag a t : (tag =? T_STACK)%nat = false -> (tag =? T_REQ)%nat = false -> (tag =? T_READY)%nat = false ->
  hq_step h (EUser tag a t) = h.
Proof. intros E1 E2 E3. cbn [hq_step]. rewrite E1, E2, E3. reflexivity. Qed.
Lemma Keep_user tag a t s : inert3 tag = true -> Keep s (emit (EUser tag a t) s).
Proof.
  intros H3. unfold inert3 in H3. apply andb_true_iff in H3. destruct H3 as [H H3].
  apply negb_true_iff in H3. apply orb_false_iff in H3. destruct H3 as [H3 E3]. apply orb_false_iff in H3. destruct H3 as [E1 E2].
  pose proof H as H'. unfold inert2 in H'. apply andb_true_iff in H'. destruct H' as [H1 _].
  assert (ES : (tag =? T_STACK)%nat = false).
  { unfold inert_tag in H1. apply negb_true_iff in H1. apply orb_false_iff in H1.
    destruct H1 as [H1 _]. apply orb_false_iff in H1. apply H1. }
  split; [| | |reflexivity|reflexivity|reflexivity|reflexivity| |reflexivity].
  - rewrite SW_emit. apply step_inert_vsame, H1.
  - rewrite HH_emit. reflexivity.
  - intros HA. apply A_emit; [exact HA|apply chk_inert2, H|intros _ _; apply chk_inert2, H| |].
    + apply chk_below_not_stack, ES.
    + intros _ _. apply chk_input_other, E3.
  - rewrite HQ_emit. apply hq_step_inert; assumption.
Qed.
Lemma std_evt n s tag a t : inert3 tag = true -> Inv s -> std n s (evt tag a t).
Proof.
  intros H HI. unfold evt. apply run_emit.
  - apply (k_A _ _ (Keep_user tag a t s H)).
  - apply std_keep. exact (Keep_user tag a t s H). exact HI.
Qed.
Lemma std_ev n s tag a : inert3 tag = true -> Inv s -> std n s (ev tag a).
Proof. apply std_evt. Qed.

Lemma std_while n s c b : (forall s1, Inv s1 -> std n s1 b) -> Inv s -> std n s (PWhile c b).
Proof.
  intros Hb HI. apply (run_while n c b (fun s1 => Inv s1 /\ Rel true s s1)).
  - intros s1 [I1 R1] _. eapply run_conseq; [apply Hb, I1|]. intros o s2 [I2 R2].
    destruct o; (split; [exact I2|eapply Rel_trans_l; eauto]).
  - intros s1 [I1 R1] _. split; assumption.
  - split; [exact HI|apply Rel_refl].
Qed.

Ltac sstep L :=
  lazymatch goal with
  | |- std _ _ (PSeq _ _) => apply std_seq; [|let s1 := fresh "s" in let I1 := fresh "HI" in intros s1 I1]
  | |- std _ _ (PTry _ _) => apply std_try; [|let s1 := fresh "s" in let I1 := fresh "HI" in intros s1 I1]
  | |- std _ _ (rd _) => apply std_rd; cbv beta zeta
  | |- std _ _ (wr _) => apply std_wr; [intros; reflexivity|intros; reflexivity
                                       |intros; first [reflexivity|apply ihs_upd_ih; intros; split; reflexivity]|assumption]
  | |- std _ _ (ev _ _) => apply std_ev; [reflexivity|assumption]
  | |- std _ _ (evt _ _ _) => apply std_evt; [reflexivity|assumption]
  | |- std _ _ PRet => apply std_ret; assumption
  | |- std _ _ (PThrow _) => apply std_throw; assumption
  | |- std _ _ (PApi _) => apply std_api; [exact L|exact I|assumption]
  | |- std _ _ (PWhile _ _) => apply std_while; [let s1 := fresh "s" in let I1 := fresh "HI" in intros s1 I1|assumption]
  | |- std _ _ (if ?b then _ else _) => destruct b
  | |- std _ _ (match ?x with _ => _ end) => destruct x
  end.

Section Progs.
Variable n : nat.
Hypothesis L : LoopOK n.

Lemma std_sched_redraw s : Inv s -> std n s sched_redraw.
Proof. intros HI. unfold sched_redraw. sstep L. Qed.
Lemma std_raise s : Inv s -> std n s raise_exception_signal.
Proof. intros HI. unfold raise_exception_signal. sstep L. Qed.

Lemma std_start_thread s req : Inv s -> std n s (start_thread req).
Proof. intros HI. unfold start_thread. repeat sstep L. Qed.

Lemma std_start_input_thread s req chk : Inv s -> std n s (start_input_thread req chk).
Proof. intros HI. unfold start_input_thread. repeat first [apply std_start_thread; assumption|sstep L]. Qed.

Lemma std_emit_ready s req data ok : Inv s -> std n s (emit_ready req data ok).
Proof. intros HI. unfold emit_ready. repeat sstep L. Qed.

Lemma std_emit_failed_all reqs : forall s, Inv s -> std n s (emit_failed_all reqs).
Proof.
  induction reqs as [|r rest IH]; intros s HI; cbn [emit_failed_all]; [sstep L|].
  sstep L; [apply std_emit_ready; assumption|apply IH; assumption].
Qed.

Lemma std_input_received_handler s sg : Inv s -> std n s (input_received_handler sg).
Proof.
  intros HI. unfold input_received_handler.
  repeat first [apply std_emit_ready; assumption|apply std_emit_failed_all; assumption|sstep L].
Qed.

Lemma nth_error_snoc_true (l : list (nat * bool)) o m A :
  nth_error (l ++ [(o, false)]) m = Some (A, true) -> nth_error l m = Some (A, true).
Proof.
  revert m; induction l as [|x r IH]; intros [|m]; cbn; auto; try discriminate.
  destruct m; discriminate.
Qed.
(* a handler without a callback (blocking requests) *)
Lemma std_new_input_handler s src owner k :
  (forall m s1, Inv s1 -> std n s1 (k m)) -> Inv s -> std n s (new_input_handler src owner false k).
Proof.
  intros Hk HI. unfold new_input_handler. apply std_rd. cbv beta zeta.
  apply run_seq. apply run_wr. set (s1 := s <| ust := _ |>).
  assert (I1 : Inv s1).
  { apply (Inv_ih_weaken true s s1); try reflexivity; [|exact HI]. intros m A. unfold s1, ihs. cbn [ust set st_ih].
    rewrite map_app. cbn [map ih_owner ih_cb]. apply nth_error_snoc_true. }
  assert (R1 : Rel true s s1) by (apply Rel_same_trace; reflexivity). clearbody s1.
  eapply run_conseq; [|intros o s' P; eapply std_post_l; [exact R1|exact P]].
  change (std n s1 (PApi (ARegHandler CLS_READY (H_READY (length (st_ih (ust s)))) 0);; k (length (st_ih (ust s))))).
  repeat first [apply Hk; assumption|sstep L].
Qed.

Lemma std_handler_get_input s m skip : Inv s -> std n s (handler_get_input m skip).
Proof. intros HI. unfold handler_get_input. repeat first [apply std_start_input_thread; assumption|sstep L]. Qed.

Lemma std_get_input_blocking s scr : Inv s -> std n s (get_input_blocking specs scr).
Proof.
  intros HI. unfold get_input_blocking. sstep L; [repeat sstep L|].
  apply std_new_input_handler; [|assumption]. intros m sx Ix.
  repeat first [apply std_handler_get_input; assumption|sstep L].
Qed.

Lemma std_handler_ask s self h skip : Inv s -> std n s (handler_ask self h skip).
Proof.
  intros HI. unfold handler_ask. sstep L. destruct (hlookup h (st_hobj (ust s))).
  - apply std_handler_get_input; assumption.
  - apply std_new_input_handler; [|assumption]. intros m sx Ix.
    repeat first [apply std_handler_get_input; assumption|sstep L].
Qed.

Lemma std_handler_wait s h : Inv s -> std n s (handler_wait h).
Proof.
  intros HI. unfold handler_wait. sstep L. destruct (hlookup h (st_hobj (ust s))); repeat sstep L.
Qed.

Lemma SW_cons' s s' e : trace s' = e :: trace s -> SW s' = sworld_step (SW s) e.
Proof. intros T. unfold SW, SWt. rewrite T. cbn [rev]. rewrite fold_left_app. reflexivity. Qed.
Lemma HQ_cons s s' e : trace s' = e :: trace s -> HQ s' = hq_step (HQ s) e.
Proof. intros T. unfold HQ. rewrite T. apply Hqt_cons. Qed.
Lemma HH_cons_u s s' tag a t : trace s' = EUser tag a t :: trace s -> HH s' = HH s.
Proof. intros T. unfold HH, Ht, hyp_of. rewrite T. cbn [rev]. rewrite fold_left_app. reflexivity. Qed.

Lemma A_user_req a t s : A s -> A (emit (EUser T_REQ a t) s).
Proof. intros HA. apply A_emit; [exact HA|reflexivity|intros _ _; reflexivity|reflexivity|intros _ _; reflexivity]. Qed.

Lemma nth_error_snoc_cases (l : list (nat * bool)) x m y :
  nth_error (l ++ [x]) m = Some y -> nth_error l m = Some y \/ (m = length l /\ y = x).
Proof.
  revert m; induction l as [|h r IH]; intros [|m]; cbn; auto.
  - intros H. injection H as <-. right. auto.
  - destruct m; discriminate.
  - intros H. destruct (IH m H) as [X|[-> ->]]; auto.
Qed.

(* the prompt of a screen: the request is announced, the handler created *)
Lemma Inv_req s s3 scr args :
  trace s3 = EUser T_REQ [scr; args; length (st_ih (ust s))] [] :: trace s ->
  st_stack (ust s3) = st_stack (ust s) -> st_next_sd (ust s3) = st_next_sd (ust s) ->
  ihs (ust s3) = ihs (ust s) ++ [(scr, true)] -> run_loop s3 = run_loop s -> force_quit s3 = force_quit s ->
  Inv s -> Inv s3 /\ Rel true s s3.
Proof.
  intros T U1 U2 U3 RL FQ [[B1 B2 B3 B4 B5 B6 B7 B8 B9 B10] St].
  assert (V : vsame (SW s) (SW s3)) by (rewrite (SW_cons' _ _ _ T); apply step_inert_vsame; reflexivity).
  assert (Eh : HH s3 = HH s) by (apply (HH_cons_u _ _ _ _ _ T)).
  pose proof (HQ_cons _ _ _ T) as Eq. destruct V as (V1 & V2 & V3 & V4).
  split; [|split; [apply Relw_modal; rewrite V2; apply frames_le_refl|rewrite Eh; auto]]. split.
  - split; unfold frames_on, frames_modal; rewrite ?U1, ?U2, ?V1, ?V2, ?V3; auto; [destruct V4 as [V4|V4]; congruence|].
    intros Hok. rewrite Eq in Hok. pose proof (hq_step_mono _ _ Hok) as Hok0. destruct (B10 Hok0) as [I1 I2 I3].
    cbn [hq_step] in Eq, Hok. change (T_REQ =? T_STACK)%nat with false in *. change (T_REQ =? T_REQ)%nat with true in *.
    cbn [nth0 nth] in Eq, Hok. cbv iota in Eq, Hok.
    assert (TOP : match q_stack (HQ s) with (s0, _) :: _ => (s0 =? scr)%nat | [] => false end = true).
    { unfold hqok in Hok. cbn [q_stale q_orphan q_modal set] in Hok. destruct (match q_stack (HQ s) with (s0, _) :: _ => (s0 =? scr)%nat | [] => false end); [reflexivity|].
      cbn in Hok. rewrite orb_true_r in Hok. discriminate Hok. }
    split; unfold stack_sm; rewrite Eq; cbn [q_stack q_pend set]; rewrite ?U1.
    + exact I1.
    + intros m A H. rewrite U3 in H. destruct (nth_error_snoc_cases _ _ _ _ H) as [X|[-> X]].
      * right. apply I2, X.
      * injection X as ->. left. unfold ihs. rewrite map_length. reflexivity.
    + intros m A [X|X]; [|apply I3 in X; exact X]. injection X as _ <-.
      destruct (q_stack (HQ s)) as [|[s0 b0] r]; [discriminate TOP|]. apply Nat.eqb_eq in TOP; subst s0.
      exists [], b0, r. split; reflexivity.
  - rewrite Eh. intros Hok. destruct (St Hok) as [S1 S2 S3 S4]. split; rewrite ?Eh, ?RL, ?FQ, ?V1, ?V2; auto.
Qed.

Lemma std_get_input s scr args : Inv s -> std n s (get_input specs scr args).
Proof.
  intros HI. unfold get_input. sstep L; [sstep L|].
  apply run_seq. apply run_rd. cbv beta. unfold ev. apply run_emit; [apply A_user_req|]. cbn [user_event].
  apply run_seq. apply run_wr. unfold new_input_handler. apply run_rd. cbv beta zeta.
  apply run_seq. apply run_wr. set (s3 := _ <| ust := _ |>).
  destruct (Inv_req s s3 scr args) as [I3 R3]; try reflexivity; [|exact HI|].
  { unfold s3, ihs. cbn [ust set st_ih emit upd_scr]. rewrite map_app. reflexivity. }
  clearbody s3. eapply run_conseq; [|intros o s' P; eapply std_post_l; [exact R3|exact P]].
  match goal with |- run ?m ?x ?p _ => change (std m x p) end.
  repeat first [apply std_handler_get_input; assumption|sstep L].
Qed.

End Progs.

(* ================================================================ the stack operations *)
Definition plain_tag (tag : nat) : bool :=
  negb ((tag =? T_SETUP)%nat || (tag =? T_REFRESH)%nat || (tag =? T_SHOW)%nat || (tag =? T_SETUP_BEGIN)%nat ||
        (tag =? T_MODAL_RETURN)%nat).
Lemma chk_plain b w tag a t : plain_tag tag = true -> chk_C05_shield_gen b w (EUser tag a t) = true.
Proof.
  unfold plain_tag. intros H. apply negb_true_iff in H. apply orb_false_iff in H. destruct H as [H1 H2].
  cbn [chk_C05_shield_gen]. rewrite H1, H2. reflexivity.
Qed.
Lemma A_user_plain tag a t s : plain_tag tag = true -> (tag =? T_STACK)%nat = false -> (tag =? T_INPUT)%nat = false ->
  A s -> A (emit (EUser tag a t) s).
Proof.
  intros H H2 H3 HA. apply A_emit; [exact HA|apply chk_plain, H|intros _ _; apply chk_plain, H|apply chk_below_not_stack, H2|].
  intros _ _. apply chk_input_other, H3.
Qed.
Lemma A_user_stack a t s : chk_C05_below (SW s) (EUser T_STACK a t) = true -> A s -> A (emit (EUser T_STACK a t) s).
Proof. intros H HA. apply A_emit; [exact HA|reflexivity|intros _ _; reflexivity|exact H|intros _ _; reflexivity]. Qed.

Lemma run_ev_seq n s tag a q (Q : outcome -> st -> Prop) :
  plain_tag tag = true -> (tag =? T_STACK)%nat = false -> (tag =? T_INPUT)%nat = false ->
  run n (emit (EUser tag a []) s) q Q -> run n s (ev tag a ;; q) Q.
Proof. intros H H2 H3 R. apply run_seq. unfold ev. apply run_emit; [apply A_user_plain; assumption|exact R]. Qed.
Lemma run_stack_seq n s a q (Q : outcome -> st -> Prop) :
  chk_C05_below (SW s) (EUser T_STACK a []) = true -> run n (emit (EUser T_STACK a []) s) q Q -> run n s (ev T_STACK a ;; q) Q.
Proof. intros H R. apply run_seq. unfold ev. apply run_emit; [apply A_user_stack, H|exact R]. Qed.
Lemma run_stack_last n s a (Q : outcome -> st -> Prop) :
  chk_C05_below (SW s) (EUser T_STACK a []) = true -> Q ONormal (emit (EUser T_STACK a []) s) -> run n s (ev T_STACK a) Q.
Proof. intros H HQ. unfold ev. apply run_emit; [apply A_user_stack, H|exact HQ]. Qed.
Lemma run_wr_seq n s g q (Q : outcome -> st -> Prop) :
  run n (s <| ust := g (ust s) |>) q Q -> run n s (wr g ;; q) Q.
Proof. intros R. apply run_seq. apply run_wr. exact R. Qed.

Lemma SWt_cons e t : SWt (e :: t) = sworld_step (SWt t) e.
Proof. unfold SWt. cbn [rev]. rewrite fold_left_app. reflexivity. Qed.
Lemma Ht_cons_user tag a t tr : Ht (EUser tag a t :: tr) = Ht tr.
Proof. unfold Ht, hyp_of. cbn [rev]. rewrite fold_left_app. reflexivity. Qed.

Definition frame_of (d : sdata) : mframe := {| mf_orig := sd_id d; mf_cur := sd_id d; mf_closed := false |}.

Lemma mei_cons e st : mei (e :: st) = if en_modal e then en_id e :: mei st else mei st.
Proof. unfold mei. cbn. destruct (en_modal e); reflexivity. Qed.
Lemma nodup_not_in_mei e st : NoDup (map en_id (e :: st)) -> ~ In (en_id e) (mei st).
Proof. cbn. intros N H. inversion N; subst. apply mei_in in H. contradiction. Qed.
Lemma filter_neq_noop id l : ~ In id l -> filter (fun c => negb (c =? id)%nat) l = l.
Proof.
  intros H. apply filter_noop. intros x Hx. apply negb_true_iff, Nat.eqb_neq. intros ->. contradiction.
Qed.
Lemma map_ren_noop o nw l : ~ In o l -> map (fun c => if (c =? o)%nat then nw else c) l = l.
Proof.
  intros H. apply map_noop. intros x Hx. destruct (x =? o)%nat eqn:E; [|reflexivity]. apply Nat.eqb_eq in E; subst. contradiction.
Qed.

Lemma J_close l e st : ofc l = mei (e :: st) -> NoDup (map en_id (e :: st)) -> ofc (close_cur (en_id e) l) = mei st.
Proof.
  intros J N. pose proof (nodup_not_in_mei _ _ N) as NI. rewrite ofc_close, J, mei_cons.
  destruct (en_modal e); cbn [filter]; rewrite ?Nat.eqb_refl; cbn [negb]; apply filter_neq_noop, NI.
Qed.
Lemma J_rename l e e' st : ofc l = mei (e :: st) -> NoDup (map en_id (e :: st)) -> en_modal e' = en_modal e ->
  ofc (rename_cur (en_id e) (en_id e') l) = mei (e' :: st).
Proof.
  intros J N M. pose proof (nodup_not_in_mei _ _ N) as NI. rewrite ofc_rename, J, !mei_cons, M.
  destruct (en_modal e); cbn [map]; rewrite ?Nat.eqb_refl; [f_equal|]; apply map_ren_noop, NI.
Qed.
Lemma head_closed_close id l rest : ofc l = id :: rest -> head_closed (close_cur id l).
Proof.
  destruct l as [|f r]; [discriminate|]. unfold ofc, openf. cbn [filter close_cur map head_closed].
  destruct (mf_closed f) eqn:C; cbn [negb map].
  - intros _. destruct (mf_cur f =? id)%nat; [reflexivity|exact C].
  - intros H. injection H as -> _. rewrite Nat.eqb_refl. reflexivity.
Qed.
Lemma head_closed_le l l' : Forall2 frame_le l l' -> head_closed l -> head_closed l'.
Proof. intros F H. destruct F as [|f f' r r' [_ C] _]; cbn in *; auto. Qed.

Lemma Forall_lt_S (l : list sdata) m : Forall (fun d => sd_id d < m) l -> Forall (fun d => sd_id d < S m) l.
Proof. intros F. eapply Forall_impl; [|exact F]. cbn. intros; lia. Qed.
Lemma fresh_not_in (l : list sdata) m : Forall (fun d => sd_id d < m) l -> ~ In m (map sd_id l).
Proof. intros F H. apply in_map_iff in H. destruct H as (d & E & Hd). rewrite Forall_forall in F. apply F in Hd. lia. Qed.

Lemma NoDup_app_snoc (l : list nat) c : NoDup l -> ~ In c l -> NoDup (l ++ [c]).
Proof.
  induction l as [|x r IH]; cbn; intros N H; [constructor; [tauto|constructor]|].
  inversion N; subst. constructor; [rewrite in_app_iff; cbn; intuition|apply IH; tauto].
Qed.
Lemma e_of_modal d : en_modal (e_of d) = sd_modal d. Proof. reflexivity. Qed.
Lemma e_of_id d : en_id (e_of d) = sd_id d. Proof. reflexivity. Qed.

Lemma map_orig_rename o nw l : map mf_orig (rename_cur o nw l) = map mf_orig l.
Proof. unfold rename_cur. rewrite map_map. apply map_ext. intros f. destruct (mf_cur f =? o)%nat; reflexivity. Qed.
Lemma map_orig_close id l : map mf_orig (close_cur id l) = map mf_orig l.
Proof. unfold close_cur. rewrite map_map. apply map_ext. intros f. destruct (mf_cur f =? id)%nat; reflexivity. Qed.
Lemma Forall_orig_map (g : mframe -> mframe) (P : nat -> Prop) l :
  (forall f, mf_orig (g f) = mf_orig f) -> Forall (fun f => P (mf_orig f)) l -> Forall (fun f => P (mf_orig f)) (map g l).
Proof. intros Hg F. induction F; cbn; constructor; auto. rewrite Hg. assumption. Qed.
Lemma Forall_orig_lt_S (l : list mframe) m : Forall (fun f => mf_orig f < m) l -> Forall (fun f => mf_orig f < S m) l.
Proof. intros F. eapply Forall_impl; [|exact F]. cbn. intros; lia. Qed.
Lemma orig_fresh (l : list mframe) m : Forall (fun f => mf_orig f < m) l -> ~ In m (map mf_orig l).
Proof. intros F H. apply in_map_iff in H. destruct H as (f & E & Hf). rewrite Forall_forall in F. apply F in Hf. lia. Qed.

(* the world after the announcement of an operation *)
Lemma OP_view s sm k x y : trace sm = EUser T_OP [k; x; y] [] :: trace s ->
  sw_stack (SW sm) = sw_stack (SW s) /\ sw_modal (SW sm) = sw_modal (SW s) /\ sw_replaced (SW sm) = sw_replaced (SW s) /\
  sw_expect (SW sm) = sw_expect (user_step (SW s) T_OP [k; x; y] []).
Proof.
  intros T. assert (E : SW sm = user_step (SW s) T_OP [k; x; y] []) by (unfold SW; rewrite T, SWt_cons; reflexivity).
  rewrite E. destruct (us_op (SW s) k x y []) as (O1 & O2 & O3 & O4). auto.
Qed.
Lemma frames_on_eq w w' : sw_stack w' = sw_stack w -> sw_modal w' = sw_modal w -> frames_on w -> frames_on w'.
Proof. unfold frames_on. intros -> ->. auto. Qed.

(* ---- what lies beneath the frames at the stack primitives ---- *)
Lemma Below_push s sm k sc a d : Inv s -> trace sm = EUser T_OP [k; sc; a] [] :: trace s -> sd_id d = st_next_sd (ust s) ->
  chk_C05_below (SW sm) (EUser T_STACK (sargs K_APPEND d) []) = true.
Proof.
  intros [[B1 B2 B3 B4 B5 B6 B7 B8] _] T D. destruct (OP_view s sm k sc a T) as (V1 & V2 & V3 & _).
  apply below_append_new; rewrite ?V1, ?V2, ?V3; auto.
  - eapply frames_on_eq; eauto.
  - rewrite B1, map_e_of_id, D. apply fresh_not_in, B4.
  - rewrite D. apply orig_fresh, B8.
Qed.
Lemma Below_schedule s sm sc a d : Inv s -> trace sm = EUser T_OP [O_SCHEDULE; sc; a] [] :: trace s ->
  chk_C05_below (SW sm) (EUser T_STACK (sargs K_ADD_FIRST d) []) = true.
Proof.
  intros [[B1 B2 B3 B4 B5 B6 B7 B8] _] T. destruct (OP_view s sm _ sc a T) as (V1 & V2 & V3 & _).
  apply below_addfirst; rewrite ?V1, ?V2, ?V3; auto. eapply frames_on_eq; eauto.
Qed.
Lemma Below_op_pop s sm k x y top r : Inv s -> st_stack (ust s) = top :: r -> trace sm = EUser T_OP [k; x; y] [] :: trace s ->
  chk_C05_below (SW sm) (EUser T_STACK (sargs K_POP top) []) = true.
Proof.
  intros [[B1 B2 B3 B4 B5 B6 B7 B8] _] U0 T. destruct (OP_view s sm k x y T) as (V1 & V2 & V3 & _).
  apply (below_pop _ _ _ (e_of top) (map e_of r)); rewrite ?V1, ?V2, ?V3; auto.
  - eapply frames_on_eq; eauto.
  - rewrite B1, U0. reflexivity.
Qed.
Lemma Below_fail_pop s sm top r : Inv s -> st_stack (ust s) = top :: r -> trace sm = trace s ->
  chk_C05_below (SW sm) (EUser T_STACK (sargs K_POP top) []) = true.
Proof.
  intros [[B1 B2 B3 B4 B5 B6 B7 B8] _] U0 T. assert (E : SW sm = SW s) by (unfold SW; rewrite T; reflexivity). rewrite E.
  apply (below_pop _ _ _ (e_of top) (map e_of r)); auto. rewrite B1, U0. reflexivity.
Qed.
Lemma Below_replace_append s sm sc a top r d : Inv s -> st_stack (ust s) = top :: r ->
  trace sm = EUser T_STACK (sargs K_POP top) [] :: EUser T_OP [O_REPLACE; sc; a] [] :: trace s ->
  sd_id d = st_next_sd (ust s) ->
  chk_C05_below (SW sm) (EUser T_STACK (sargs K_APPEND d) []) = true.
Proof.
  intros [[B1 B2 B3 B4 B5 B6 B7 B8] _] U0 T D.
  assert (E : SW sm = user_step (user_step (SW s) T_OP [O_REPLACE; sc; a] []) T_STACK (sargs K_POP top) [])
    by (unfold SW; rewrite T, !SWt_cons; reflexivity).
  destruct (us_op (SW s) O_REPLACE sc a []) as (O1 & O2 & O3 & O4). set (w1 := user_step (SW s) T_OP [O_REPLACE; sc; a] []) in *.
  destruct (us_pop w1 top []) as (Q1 & Q2). set (w2 := user_step w1 T_STACK (sargs K_POP top) []) in *.
  rewrite U0 in B1, B4, B5. cbn [map] in B1, B5.
  assert (E4 : sw_expect w1 = [XPop false; XAppend sc a None]) by (rewrite O4, B1; reflexivity).
  rewrite E4 in Q2. destruct Q2 as (Q2 & Q3 & Q4). rewrite O1, B1 in Q1. cbn [tl] in Q1. rewrite O2 in Q4.
  pose proof (Forall_inv_tail B4) as Br. apply NoDup_cons_iff in B5. destruct B5 as [Nt Nr].
  rewrite E. apply (below_append_repl w2 d [] (sd_id top)); rewrite ?Q1, ?Q4; auto.
  - intros f Hf C. specialize (B6 f Hf C). rewrite B1 in B6. cbn [map e_of en_id] in B6. destruct B6 as [X|X]; [left; auto|right; exact X].
  - rewrite map_e_of_id, D. apply fresh_not_in, Br.
  - rewrite map_e_of_id. exact Nt.
Qed.

(* ---- the prompts' side of the stack primitives ---- *)
Lemma hq_op h a t : hq_step h (EUser T_OP a t) = h.
Proof. reflexivity. Qed.
Lemma hq_append h d t : let h' := hq_step h (EUser T_STACK (sargs K_APPEND d) t) in
  q_stack h' = (sd_scr d, sd_modal d) :: q_stack h /\ q_pend h' = q_pend h /\ q_stale h' = q_stale h /\
  q_orphan h' = q_orphan h /\
  q_modal h' = q_modal h || (sd_modal d && negb (match q_pend h with [] => true | _ => false end)).
Proof. unfold sargs. cbn. rewrite b2n_eqb. repeat split. Qed.
Lemma hq_addfirst h d t : let h' := hq_step h (EUser T_STACK (sargs K_ADD_FIRST d) t) in
  q_stack h' = q_stack h ++ [(sd_scr d, false)] /\ q_pend h' = q_pend h /\ q_stale h' = q_stale h /\
  q_orphan h' = q_orphan h /\ q_modal h' = q_modal h.
Proof. cbn. repeat split. Qed.
Lemma hq_pop h d t : let h' := hq_step h (EUser T_STACK (sargs K_POP d) t) in
  q_stack h' = tl (q_stack h) /\ q_pend h' = q_pend h /\ q_stale h' = q_stale h /\
  q_orphan h' = q_orphan h || pend_of (sd_scr d) (q_pend h) /\ q_modal h' = q_modal h.
Proof. cbn. repeat split. Qed.

Lemma clear_entry_push st A sc : clear_entry st A -> clear_entry ((sc, false) :: st) A.
Proof. intros (ab & b & bl & -> & F). exists ((sc, false) :: ab), b, bl. split; [reflexivity|cbn; exact F]. Qed.
Lemma clear_entry_app st A x : clear_entry st A -> clear_entry (st ++ x) A.
Proof. intros (ab & b & bl & -> & F). exists ab, b, (bl ++ x). split; [rewrite <- app_assoc; reflexivity|exact F]. Qed.
Lemma clear_entry_tl sc m st A : clear_entry ((sc, m) :: st) A -> A <> sc -> clear_entry st A /\ m = false.
Proof.
  intros (ab & b & bl & E & F) N. destruct ab as [|[s0 m0] ab]; cbn in E; injection E as E1 E2 E3; [congruence|].
  cbn in F. apply andb_true_iff in F. destruct F as [F1 F2]. split; [exists ab, b, bl; auto|].
  rewrite E2. destruct m0; [discriminate F1|reflexivity].
Qed.
Lemma pend_of_in n A l : In (n, A) l -> pend_of A l = true.
Proof. intros H. unfold pend_of. apply existsb_exists. exists (n, A). split; [exact H|apply Nat.eqb_refl]. Qed.
Lemma hqok_flags h : hqok h = true -> q_stale h = false /\ q_orphan h = false /\ q_modal h = false.
Proof. unfold hqok. destruct (q_stale h), (q_orphan h), (q_modal h); cbn; auto; discriminate. Qed.
Lemma in_map_e_of e l : In e (map e_of l) -> exists d, In d l /\ e = e_of d.
Proof. intros H. apply in_map_iff in H. destruct H as (d & <- & Hd). eauto. Qed.

(* ---- push / push_modal up to the append ---- *)
Lemma Inv_push s s' k sc a m :
  (k = O_PUSH /\ m = false) \/ (k = O_PUSH_MODAL /\ m = true) ->
  let d := {| sd_id := st_next_sd (ust s); sd_scr := sc; sd_args := a; sd_modal := m |} in
  trace s' = EUser T_STACK (sargs K_APPEND d) [] :: EUser T_OP [k; sc; a] [] :: trace s ->
  st_stack (ust s') = d :: st_stack (ust s) -> st_next_sd (ust s') = S (st_next_sd (ust s)) ->
  ihs (ust s') = ihs (ust s) ->
  run_loop s' = run_loop s -> force_quit s' = force_quit s -> Inv s ->
  InvG (negb m) s' /\ sw_modal (SW s') = (if m then [frame_of d] else []) ++ sw_modal (SW s) /\ HH s' = HH s.
Proof.
  intros HK d T U1 U2 U3 RL FQ [[B1 B2 B3 B4 B5 B6 B7 B8 B9 B10] St].
  assert (Eq : HQ s' = hq_step (HQ s) (EUser T_STACK (sargs K_APPEND d) []))
    by (unfold HQ; rewrite T, !Hqt_cons, hq_op; reflexivity).
  assert (Eh : HH s' = HH s) by (unfold HH; rewrite T, !Ht_cons_user; reflexivity).
  assert (EW : SW s' = user_step (user_step (SW s) T_OP [k; sc; a] []) T_STACK (sargs K_APPEND d) [])
    by (unfold SW; rewrite T, !SWt_cons; reflexivity).
  destruct (us_op (SW s) k sc a []) as (O1 & O2 & O3 & O4). set (w1 := user_step (SW s) T_OP [k; sc; a] []) in *.
  destruct (us_append w1 d []) as (P1 & P2 & P3 & P4). set (w2 := user_step w1 T_STACK (sargs K_APPEND d) []) in *.
  assert (E4 : sw_expect w1 = [XAppend sc a (Some m)]) by (rewrite O4; destruct HK as [[-> ->]|[-> ->]]; reflexivity).
  rewrite O3, B3, O2 in P4. rewrite E4 in P2. cbn [tl] in P2. rewrite O1 in P1.
  assert (EM : sw_modal w2 = (if m then [frame_of d] else []) ++ sw_modal (SW s)) by (rewrite P4; destruct m; reflexivity).
  split; [|split; [rewrite EW; exact EM|exact Eh]]. split.
  - split; unfold frames_on; rewrite ?EW, ?P1, ?P2, ?P3, ?U1, ?U2, ?EM.
    + cbn [map]. rewrite B1. reflexivity.
    + reflexivity.
    + reflexivity.
    + constructor; [cbn; lia|apply Forall_lt_S, B4].
    + cbn [map]. constructor; [apply fresh_not_in, B4|exact B5].
    + intros f Hf C. cbn [map]. apply in_app_or in Hf. destruct Hf as [Hf|Hf].
      * destruct m; [|destruct Hf]. destruct Hf as [<-|[]]. left. reflexivity.
      * right. apply B6; assumption.
    + rewrite map_app. destruct m; cbn [map app]; [|exact B7]. constructor; [apply orig_fresh, B8|exact B7].
    + apply Forall_app. split; [destruct m; constructor; [cbn; lia|constructor]|apply Forall_orig_lt_S, B8].
    + unfold frames_modal. rewrite EM, P1. intros f Hf C. apply in_app_or in Hf. destruct Hf as [Hf|Hf].
      * destruct m; [|destruct Hf]. destruct Hf as [<-|[]]. exists (e_of d). split; [left; reflexivity|split; reflexivity].
      * destruct (B9 f Hf C) as (e & He & E1 & E2). exists e. split; [right; exact He|auto].
    + destruct (hq_append (HQ s) d []) as (G1 & G2 & G3 & G4 & G5). rewrite <- Eq in G1, G2, G3, G4, G5.
      intros Hok. destruct (hqok_flags _ Hok) as (F1 & F2 & F3). rewrite G3 in F1. rewrite G4 in F2. rewrite G5 in F3.
      apply orb_false_iff in F3. destruct F3 as [F3 F4].
      assert (Hok0 : hqok (HQ s) = true) by (unfold hqok; rewrite F1, F2, F3; reflexivity).
      destruct (B10 Hok0) as [I1 I2 I3]. split; unfold stack_sm; rewrite ?G1, ?G2, ?U1, ?U3.
      * cbn [map]. rewrite I1. reflexivity.
      * exact I2.
      * intros n0 A HA. cbn [sd_modal d] in F4. destruct m.
        -- destruct (q_pend (HQ s)); [destruct HA|discriminate F4].
        -- apply clear_entry_push, (I3 n0), HA.
  - rewrite Eh. intros Hok. destruct (St Hok) as [S1 S2 S3 S4].
    split; rewrite ?Eh, ?RL, ?FQ, ?EW; auto.
    + rewrite EM, P1, mei_cons. cbn [e_of en_modal en_id sd_modal sd_id d]. destruct m; cbn [app]; [|exact S3].
      change (ofc (frame_of d :: sw_modal (SW s))) with (sd_id d :: ofc (sw_modal (SW s))). rewrite S3. reflexivity.
    + intros G. destruct m; [discriminate G|]. rewrite EM. cbn [app]. auto.
Qed.

(* ---- replace ---- *)
Lemma Inv_replace s s' sc a top r :
  st_stack (ust s) = top :: r ->
  let d := {| sd_id := st_next_sd (ust s); sd_scr := sc; sd_args := a; sd_modal := sd_modal top |} in
  trace s' = EUser T_STACK (sargs K_APPEND d) [] :: EUser T_STACK (sargs K_POP top) [] ::
             EUser T_OP [O_REPLACE; sc; a] [] :: trace s ->
  st_stack (ust s') = d :: r -> st_next_sd (ust s') = S (st_next_sd (ust s)) -> ihs (ust s') = ihs (ust s) ->
  run_loop s' = run_loop s -> force_quit s' = force_quit s -> Inv s -> Inv s' /\ Rel true s s'.
Proof.
  intros U0 d T U1 U2 U3 RL FQ [[B1 B2 B3 B4 B5 B6 B7 B8 B9 B10] St].
  assert (Eh : HH s' = HH s) by (unfold HH; rewrite T, !Ht_cons_user; reflexivity).
  assert (Eq : HQ s' = hq_step (hq_step (HQ s) (EUser T_STACK (sargs K_POP top) [])) (EUser T_STACK (sargs K_APPEND d) []))
    by (unfold HQ; rewrite T, !Hqt_cons, hq_op; reflexivity).
  assert (EW : SW s' = user_step (user_step (user_step (SW s) T_OP [O_REPLACE; sc; a] []) T_STACK (sargs K_POP top) [])
                                 T_STACK (sargs K_APPEND d) [])
    by (unfold SW; rewrite T, !SWt_cons; reflexivity).
  unfold Rel. rewrite Eh, EW.
  destruct (us_op (SW s) O_REPLACE sc a []) as (O1 & O2 & O3 & O4). set (w1 := user_step (SW s) T_OP [O_REPLACE; sc; a] []) in *.
  destruct (us_pop w1 top []) as (Q1 & Q2). set (w2 := user_step w1 T_STACK (sargs K_POP top) []) in *.
  destruct (us_append w2 d []) as (P1 & P2 & P3 & P4). set (w3 := user_step w2 T_STACK (sargs K_APPEND d) []) in *.
  rewrite U0 in B1, B4, B5. cbn [map] in B1, B5.
  assert (E4 : sw_expect w1 = [XPop false; XAppend sc a None]) by (rewrite O4, B1; reflexivity).
  rewrite E4 in Q2. destruct Q2 as (Q2 & Q3 & Q4). rewrite Q3, Q4, O2 in P4. rewrite Q2 in P2. cbn [tl] in P2.
  rewrite Q1, O1, B1 in P1. cbn [tl] in P1.
  pose proof (Forall_inv_tail B4) as Br. pose proof (proj1 (NoDup_cons_iff _ _) B5) as [Nt Nr].
  split; [|split; [apply Relw_modal; rewrite P4; apply frames_le_rename|auto]]. split.
  - split; unfold frames_on; rewrite ?EW; fold w1 w2 w3; rewrite ?P1, ?P2, ?P3, ?P4, ?U1, ?U2.
    + reflexivity.
    + reflexivity.
    + reflexivity.
    + constructor; [cbn; lia|apply Forall_lt_S, Br].
    + cbn [map]. constructor; [apply fresh_not_in, Br|exact Nr].
    + intros f' Hf' C'. unfold rename_cur in Hf'. apply in_map_iff in Hf'. destruct Hf' as (f & <- & Hf).
      cbv beta in *. cbn [map e_of en_id]. destruct (mf_cur f =? sd_id top)%nat eqn:E.
      * left. reflexivity.
      * right. pose proof C' as C.
        specialize (B6 f Hf C). rewrite B1 in B6. cbn [map e_of en_id] in B6. apply Nat.eqb_neq in E.
        destruct B6 as [X|X]; [congruence|exact X].
    + rewrite map_orig_rename. exact B7.
    + apply Forall_orig_lt_S. unfold rename_cur. apply (Forall_orig_map _ (fun o => o < st_next_sd (ust s))); [|exact B8].
      intros f. destruct (mf_cur f =? sd_id top)%nat; reflexivity.
    + unfold frames_modal. rewrite P4, P1. intros f' Hf' C'. unfold rename_cur in Hf'. apply in_map_iff in Hf'.
      destruct Hf' as (f & <- & Hf). cbv beta in *. destruct (mf_cur f =? sd_id top)%nat eqn:E.
      * destruct (B9 f Hf C') as (e0 & He0 & E1 & E2). rewrite B1 in He0. apply Nat.eqb_eq in E.
        exists (e_of d). split; [left; reflexivity|split; [reflexivity|]]. cbn [e_of en_modal d sd_modal].
        destruct He0 as [<-|He0]; [exact E2|]. exfalso. apply Nt. apply in_map_e_of in He0. destruct He0 as (d0 & Hd0 & ->).
        cbn [e_of en_id] in E1. rewrite <- E, <- E1. apply in_map, Hd0.
      * destruct (B9 f Hf C') as (e0 & He0 & E1 & E2). rewrite B1 in He0. apply Nat.eqb_neq in E.
        exists e0. split; [|auto]. destruct He0 as [<-|He0]; [cbn [e_of en_id] in E1; congruence|right; exact He0].
    + set (h1 := hq_step (HQ s) (EUser T_STACK (sargs K_POP top) [])) in *.
      destruct (hq_pop (HQ s) top []) as (K1 & K2 & K3 & K4 & K5). fold h1 in K1, K2, K3, K4, K5.
      destruct (hq_append h1 d []) as (G1 & G2 & G3 & G4 & G5). rewrite <- Eq in G1, G2, G3, G4, G5.
      intros Hok. destruct (hqok_flags _ Hok) as (F1 & F2 & F3). rewrite G3, K3 in F1. rewrite G4, K4 in F2. rewrite G5, K5 in F3.
      apply orb_false_iff in F2. destruct F2 as [F2 F2']. apply orb_false_iff in F3. destruct F3 as [F3 F3'].
      assert (Hok0 : hqok (HQ s) = true) by (unfold hqok; rewrite F1, F2, F3; reflexivity).
      destruct (B10 Hok0) as [I1 I2 I3]. unfold stack_sm in I1. rewrite U0 in I1. cbn [map] in I1.
      split; unfold stack_sm; rewrite ?G1, ?G2, ?K1, ?K2, ?I1, ?U1, ?U3.
      * reflexivity.
      * exact I2.
      * intros n0 A HA. pose proof (I3 n0 A HA) as CE. rewrite I1 in CE.
        assert (NA : A <> sd_scr top).
        { intros ->. rewrite (pend_of_in _ _ _ HA) in F2'. discriminate F2'. }
        destruct (clear_entry_tl _ _ _ _ CE NA) as [CE' M]. cbn [tl sd_scr sd_modal d]. rewrite M. apply clear_entry_push, CE'.
  - rewrite Eh. intros Hok. destruct (St Hok) as [S1 S2 S3 S4].
    split; rewrite ?Eh, ?RL, ?FQ, ?EW; fold w1 w2 w3; auto.
    + rewrite P4, P1. rewrite B1 in S3.
      apply (J_rename (sw_modal (SW s)) (e_of top) (e_of d) (map e_of r)); [exact S3| |reflexivity].
      cbn [map]. rewrite map_e_of_id. exact B5.
    + intros G RL0. rewrite P4. eapply head_closed_le; [apply frames_le_rename|apply S4; assumption].
Qed.

(* ---- schedule ---- *)
Lemma Inv_schedule s s' sc a :
  let d := {| sd_id := st_next_sd (ust s); sd_scr := sc; sd_args := a; sd_modal := false |} in
  trace s' = EUser T_STACK (sargs K_ADD_FIRST d) [] :: EUser T_OP [O_SCHEDULE; sc; a] [] :: trace s ->
  st_stack (ust s') = st_stack (ust s) ++ [d] -> st_next_sd (ust s') = S (st_next_sd (ust s)) -> ihs (ust s') = ihs (ust s) ->
  run_loop s' = run_loop s -> force_quit s' = force_quit s -> Inv s -> Inv s' /\ Rel true s s'.
Proof.
  intros d T U1 U2 U3 RL FQ [[B1 B2 B3 B4 B5 B6 B7 B8 B9 B10] St].
  assert (Eh : HH s' = HH s) by (unfold HH; rewrite T, !Ht_cons_user; reflexivity).
  assert (Eq : HQ s' = hq_step (HQ s) (EUser T_STACK (sargs K_ADD_FIRST d) []))
    by (unfold HQ; rewrite T, !Hqt_cons, hq_op; reflexivity).
  assert (EW : SW s' = user_step (user_step (SW s) T_OP [O_SCHEDULE; sc; a] []) T_STACK (sargs K_ADD_FIRST d) [])
    by (unfold SW; rewrite T, !SWt_cons; reflexivity).
  unfold Rel. rewrite Eh, EW.
  destruct (us_op (SW s) O_SCHEDULE sc a []) as (O1 & O2 & O3 & O4). set (w1 := user_step (SW s) T_OP [O_SCHEDULE; sc; a] []) in *.
  destruct (us_addfirst w1 d []) as (P1 & P2 & P3 & P4). set (w2 := user_step w1 T_STACK (sargs K_ADD_FIRST d) []) in *.
  assert (E4 : sw_expect w1 = [XAddFirst sc a]) by (rewrite O4; reflexivity).
  rewrite E4 in P2. cbn [tl] in P2. rewrite O1 in P1. rewrite O3 in P3. rewrite O2 in P4.
  split; [|split; [apply Relw_modal; rewrite P4; apply frames_le_refl|auto]]. split.
  - split; unfold frames_on; rewrite ?EW; fold w1 w2; rewrite ?P1, ?P2, ?P3, ?P4, ?U1, ?U2; auto.
    + rewrite map_app, B1. reflexivity.
    + apply Forall_app. split; [apply Forall_lt_S, B4|constructor; [cbn; lia|constructor]].
    + rewrite map_app. cbn [map]. apply NoDup_app_snoc; [exact B5|apply fresh_not_in, B4].
    + intros f Hf C. rewrite map_app, in_app_iff. left. apply B6; assumption.
    + apply Forall_orig_lt_S, B8.
    + unfold frames_modal. rewrite P4, P1. intros f Hf C. destruct (B9 f Hf C) as (e0 & He0 & E1 & E2).
      exists e0. split; [apply in_or_app; left; exact He0|auto].
    + destruct (hq_addfirst (HQ s) d []) as (G1 & G2 & G3 & G4 & G5). rewrite <- Eq in G1, G2, G3, G4, G5.
      intros Hok. destruct (hqok_flags _ Hok) as (F1 & F2 & F3). rewrite G3 in F1. rewrite G4 in F2. rewrite G5 in F3.
      assert (Hok0 : hqok (HQ s) = true) by (unfold hqok; rewrite F1, F2, F3; reflexivity).
      destruct (B10 Hok0) as [I1 I2 I3]. split; unfold stack_sm; rewrite ?G1, ?G2, ?U1, ?U3.
      * rewrite map_app, I1. reflexivity.
      * exact I2.
      * intros n0 A HA. apply clear_entry_app, (I3 n0), HA.
  - rewrite Eh. intros Hok. destruct (St Hok) as [S1 S2 S3 S4].
    split; rewrite ?Eh, ?RL, ?FQ, ?EW; fold w1 w2; rewrite ?P4, ?P1; auto. rewrite mei_app by reflexivity. exact S3.
Qed.

(* ---- the pops that close an entry: close_screen, and the discard after a failed setup ---- *)
Lemma Inv_pop_core s s' w1 top r :
  st_stack (ust s) = top :: r -> Inv s ->
  sw_stack w1 = sw_stack (SW s) -> sw_modal w1 = sw_modal (SW s) -> sw_replaced w1 = sw_replaced (SW s) ->
  (sw_expect w1 = [XPop true] \/ sw_expect w1 = []) ->
  SW s' = user_step w1 T_STACK (sargs K_POP top) [] -> HH s' = HH s ->
  HQ s' = hq_step (HQ s) (EUser T_STACK (sargs K_POP top) []) -> ihs (ust s') = ihs (ust s) ->
  st_stack (ust s') = r -> st_next_sd (ust s') = st_next_sd (ust s) -> run_loop s' = run_loop s -> force_quit s' = force_quit s ->
  Inv s' /\ Rel true s s' /\ (sd_modal top = true -> h_ok (HH s') = true -> head_closed (sw_modal (SW s'))).
Proof.
  intros U0 [[B1 B2 B3 B4 B5 B6 B7 B8 B9 B10] St] V1 V2 V3 V4 EW Eh Eq U3 U1 U2 RL FQ.
  destruct (us_pop w1 top []) as (Q1 & Q2). set (w2 := user_step w1 T_STACK (sargs K_POP top) []) in *.
  assert (Q : sw_expect w2 = [] /\ sw_replaced w2 = sw_replaced w1 /\ sw_modal w2 = close_cur (sd_id top) (sw_modal w1)).
  { destruct V4 as [V4|V4]; rewrite V4 in Q2; exact Q2. }
  destruct Q as (Q2' & Q3 & Q4). clear Q2.
  rewrite U0 in B1, B4, B5. cbn [map] in B1, B5.
  pose proof (Forall_inv_tail B4) as Br. pose proof (proj2 (proj1 (NoDup_cons_iff _ _) B5)) as Nr.
  rewrite V1, B1 in Q1. cbn [tl] in Q1. rewrite V3, B3 in Q3. rewrite V2 in Q4.
  unfold Rel. rewrite Eh, EW. split; [|split].
  - split.
    + split; unfold frames_on; rewrite ?EW; fold w2; rewrite ?Q1, ?Q2', ?Q3, ?Q4, ?U1, ?U2; auto.
      * intros f' Hf' C'. unfold close_cur in Hf'. apply in_map_iff in Hf'. destruct Hf' as (f & <- & Hf).
        cbv beta in *. destruct (mf_cur f =? sd_id top)%nat eqn:E; [discriminate C'|].
        specialize (B6 f Hf C'). rewrite B1 in B6. cbn [map e_of en_id] in B6. apply Nat.eqb_neq in E.
        destruct B6 as [X|X]; [congruence|exact X].
      * rewrite map_orig_close. exact B7.
      * unfold close_cur. apply (Forall_orig_map _ (fun o => o < st_next_sd (ust s))); [|exact B8].
        intros f. destruct (mf_cur f =? sd_id top)%nat; reflexivity.
      * unfold frames_modal. rewrite Q4, Q1. intros f' Hf' C'. unfold close_cur in Hf'. apply in_map_iff in Hf'.
        destruct Hf' as (f & <- & Hf). cbv beta in *. destruct (mf_cur f =? sd_id top)%nat eqn:E; [discriminate C'|].
        destruct (B9 f Hf C') as (e0 & He0 & E1 & E2). rewrite B1 in He0. apply Nat.eqb_neq in E.
        exists e0. split; [|auto]. destruct He0 as [<-|He0]; [cbn [e_of en_id] in E1; congruence|exact He0].
      * destruct (hq_pop (HQ s) top []) as (K1 & K2 & K3 & K4 & K5). rewrite <- Eq in K1, K2, K3, K4, K5.
        intros Hok. destruct (hqok_flags _ Hok) as (F1 & F2 & F3). rewrite K3 in F1. rewrite K4 in F2. rewrite K5 in F3.
        apply orb_false_iff in F2. destruct F2 as [F2 F2'].
        assert (Hok0 : hqok (HQ s) = true) by (unfold hqok; rewrite F1, F2, F3; reflexivity).
        destruct (B10 Hok0) as [I1 I2 I3]. unfold stack_sm in I1. rewrite U0 in I1. cbn [map] in I1.
        split; unfold stack_sm; rewrite ?K1, ?K2, ?I1, ?U1, ?U3.
        -- reflexivity.
        -- exact I2.
        -- intros n0 A HA. pose proof (I3 n0 A HA) as CE. rewrite I1 in CE.
           assert (NA : A <> sd_scr top).
           { intros ->. rewrite (pend_of_in _ _ _ HA) in F2'. discriminate F2'. }
           apply (clear_entry_tl _ _ _ _ CE NA).
    + rewrite Eh. intros Hok. destruct (St Hok) as [S1 S2 S3 S4].
      split; rewrite ?Eh, ?RL, ?FQ, ?EW; auto.
      * rewrite Q4, Q1. rewrite B1 in S3.
        apply (J_close (sw_modal (SW s)) (e_of top) (map e_of r)); [exact S3|]. cbn [map]. rewrite map_e_of_id. exact B5.
      * intros G RL0. rewrite Q4. eapply head_closed_le; [apply frames_le_close|apply S4; assumption].
  - split; [apply Relw_modal; rewrite Q4; apply frames_le_close|auto].
  - intros M Hok. destruct (St Hok) as [S1 S2 S3 S4]. rewrite Q4. rewrite B1, mei_cons in S3. cbn [e_of en_modal en_id] in S3.
    rewrite M in S3. eapply head_closed_close; exact S3.
Qed.

Lemma Inv_close_pop s s' x top r :
  st_stack (ust s) = top :: r ->
  trace s' = EUser T_STACK (sargs K_POP top) [] :: EUser T_OP [O_CLOSE; x; 0] [] :: trace s ->
  st_stack (ust s') = r -> st_next_sd (ust s') = st_next_sd (ust s) -> ihs (ust s') = ihs (ust s) ->
  run_loop s' = run_loop s -> force_quit s' = force_quit s ->
  Inv s ->
  Inv s' /\ Rel true s s' /\ (sd_modal top = true -> h_ok (HH s') = true -> head_closed (sw_modal (SW s'))).
Proof.
  intros U0 T U1 U2 U3 RL FQ HI.
  destruct (us_op (SW s) O_CLOSE x 0 []) as (O1 & O2 & O3 & O4).
  apply (Inv_pop_core s s' (user_step (SW s) T_OP [O_CLOSE; x; 0] []) top r); auto.
  - left. rewrite O4. destruct HI as [[B1 _ _ _ _ _ _ _] _]. rewrite B1, U0. reflexivity.
  - unfold SW. rewrite T, !SWt_cons. reflexivity.
  - unfold HH. rewrite T, !Ht_cons_user. reflexivity.
  - unfold HQ. rewrite T, !Hqt_cons, hq_op. reflexivity.
Qed.

Lemma Inv_fail_pop s s' top r :
  st_stack (ust s) = top :: r ->
  trace s' = EUser T_STACK (sargs K_POP top) [] :: trace s ->
  st_stack (ust s') = r -> st_next_sd (ust s') = st_next_sd (ust s) -> ihs (ust s') = ihs (ust s) ->
  run_loop s' = run_loop s -> force_quit s' = force_quit s ->
  Inv s ->
  Inv s' /\ Rel true s s' /\ (sd_modal top = true -> h_ok (HH s') = true -> head_closed (sw_modal (SW s'))).
Proof.
  intros U0 T U1 U2 U3 RL FQ HI.
  apply (Inv_pop_core s s' (SW s) top r); auto.
  - right. apply HI.
  - unfold SW. rewrite T, !SWt_cons. reflexivity.
  - unfold HH. rewrite T, !Ht_cons_user. reflexivity.
  - unfold HQ. rewrite T, !Hqt_cons. reflexivity.
Qed.

(* ---- an operation on an empty stack only announces itself ---- *)
Lemma Keep_op_empty s k x y : st_stack (ust s) = [] -> (k = O_REPLACE \/ k = O_CLOSE) -> Inv s ->
  Keep s (emit (EUser T_OP [k; x; y] []) s).
Proof.
  intros U0 HK [[B1 B2 B3 B4 B5 B6 B7 B8] _]. destruct (us_op (SW s) k x y []) as (O1 & O2 & O3 & O4).
  split; [| | |reflexivity|reflexivity|reflexivity|reflexivity| |reflexivity].
  - rewrite SW_emit. cbn [sworld_step]. repeat split; auto. right. rewrite O4, B1, U0.
    destruct HK as [-> | ->]; reflexivity.
  - rewrite HH_emit. reflexivity.
  - apply A_user_plain; reflexivity.
  - rewrite HQ_emit. reflexivity.
Qed.

(* ---- the return of a modal push ---- *)
Lemma A_modal_return s5 id sc f' rest : A s5 -> sw_modal (SW s5) = f' :: rest -> mf_orig f' = id ->
  (h_ok (HH s5) = true -> mf_closed f' = true) -> A (emit (EUser T_MODAL_RETURN [id; sc] []) s5).
Proof.
  intros HA M O C. apply A_emit; [exact HA| | |reflexivity|intros _ _; reflexivity].
  - cbn. rewrite M. cbn [find]. rewrite O, Nat.eqb_refl. apply orb_true_r.
  - intros Hok _. cbn. rewrite M. cbn [find]. rewrite O, Nat.eqb_refl. rewrite (C Hok). reflexivity.
Qed.

Lemma Inv_modal_return s5 s' id sc f' rest :
  trace s' = EUser T_MODAL_RETURN [id; sc] [] :: trace s5 -> ust s' = ust s5 -> run_loop s' = run_loop s5 ->
  force_quit s' = force_quit s5 -> Inv s5 -> sw_modal (SW s5) = f' :: rest -> mf_orig f' = id ->
  (h_ok (HH s5) = true -> mf_closed f' = true) -> (force_quit s5 = false -> run_loop s5 = true) ->
  Inv s' /\ sw_modal (SW s') = rest /\ HH s' = HH s5.
Proof.
  intros T U RL FQ [[B1 B2 B3 B4 B5 B6 B7 B8 B9 B10] St] M O C RA.
  assert (Eh : HH s' = HH s5) by (unfold HH; rewrite T, !Ht_cons_user; reflexivity).
  assert (Eq : HQ s' = HQ s5) by (unfold HQ; rewrite T, Hqt_cons; reflexivity).
  assert (EW : SW s' = user_step (SW s5) T_MODAL_RETURN [id; sc] []) by (unfold SW; rewrite T, !SWt_cons; reflexivity).
  destruct (us_modal_return (SW s5) id sc []) as (R1 & R2 & R3 & R4).
  rewrite M in R4. cbn [remove_first] in R4. rewrite O, Nat.eqb_refl in R4.
  split; [|split; [rewrite EW; exact R4|exact Eh]]. split.
  - unfold frames_on in B6. rewrite M in B6, B7, B8.
    split; unfold frames_on; rewrite ?EW, ?R1, ?R2, ?R3, ?R4, ?U; auto.
    + intros f Hf Cf. apply B6; [right; exact Hf|exact Cf].
    + cbn [map] in B7. apply NoDup_cons_iff in B7. apply B7.
    + apply (Forall_inv_tail B8).
    + unfold frames_modal in *. rewrite M in B9. rewrite R4, R1. intros f Hf Cf. apply B9; [right; exact Hf|exact Cf].
    + rewrite Eq. intros Hok. destruct (B10 Hok) as [I1 I2 I3]. split; unfold stack_sm; rewrite ?Eq, ?U; auto.
  - rewrite Eh. intros Hok. destruct (St Hok) as [S1 S2 S3 S4].
    assert (RL5 : run_loop s5 = true) by auto.
    split; rewrite ?Eh, ?RL, ?FQ, ?EW, ?RL5; auto; try discriminate.
    rewrite R4, R1. rewrite M in S3. unfold ofc in S3. cbn [filter] in S3. unfold openf at 1 in S3.
    rewrite (C Hok) in S3. exact S3.
Qed.

(* ---- setup / refresh / show concern the top entry ---- *)
Lemma shielded_top w e r id : sw_stack w = e :: r -> en_id e = id -> shielded w id = false.
Proof.
  intros E I. unfold shielded. rewrite E. cbn [pos_of]. rewrite I, Nat.eqb_refl.
  induction (sw_modal w) as [|f l IH]; cbn [existsb]; [reflexivity|]. rewrite IH, orb_false_r.
  destruct (negb (mf_closed f)); [|reflexivity]. cbn [andb].
  destruct (if (id =? mf_cur f)%nat then Some 0 else pos_of (mf_cur f) r 1); reflexivity.
Qed.

Definition top_tag (tag : nat) : Prop := tag = T_SETUP \/ tag = T_REFRESH \/ tag = T_SHOW.
Lemma Keep_top_event s tag a t d r : top_tag tag -> Inv s -> st_stack (ust s) = d :: r -> nth0 a 0 = sd_id d ->
  Keep s (emit (EUser tag a t) s).
Proof.
  intros HT [[B1 _ _ _ _ _ _ _] _] U0 N.
  assert (C : forall b, chk_C05_shield_gen b (SW s) (EUser tag a t) = true).
  { intros b. cbn [chk_C05_shield_gen].
    assert (((tag =? T_SETUP)%nat || (tag =? T_REFRESH)%nat || (tag =? T_SHOW)%nat) = true) as ->
      by (destruct HT as [->|[->| ->]]; reflexivity).
    rewrite N. rewrite (shielded_top (SW s) (e_of d) (map e_of r) (sd_id d)); [reflexivity| |reflexivity].
    rewrite B1, U0. reflexivity. }
  split; [| | |reflexivity|reflexivity|reflexivity|reflexivity| |reflexivity].
  - rewrite SW_emit. apply step_inert_vsame. destruct HT as [->|[->| ->]]; reflexivity.
  - rewrite HH_emit. reflexivity.
  - intros HA. apply A_emit; [exact HA|apply C|intros _ _; apply C| |].
    + apply chk_below_not_stack. destruct HT as [->|[->| ->]]; reflexivity.
    + intros _ _. apply chk_input_other. destruct HT as [->|[->| ->]]; reflexivity.
  - rewrite HQ_emit. destruct HT as [->|[->| ->]]; reflexivity.
Qed.

(* the entry of a setup() with commands: the top entry *)
Lemma Keep_begin_event s a t d r : Inv s -> st_stack (ust s) = d :: r -> nth0 a 0 = sd_id d ->
  Keep s (emit (EUser T_SETUP_BEGIN a t) s).
Proof.
  intros [[B1 _ _ _ _ _ _ _] _] U0 N.
  assert (C : forall b, chk_C05_shield_gen b (SW s) (EUser T_SETUP_BEGIN a t) = true).
  { intros b. change (chk_C05_shield_gen b (SW s) (EUser T_SETUP_BEGIN a t)) with (negb (shielded (SW s) (nth0 a 0))).
    rewrite N. rewrite (shielded_top (SW s) (e_of d) (map e_of r) (sd_id d)); [reflexivity| |reflexivity].
    rewrite B1, U0. reflexivity. }
  split; [| | |reflexivity|reflexivity|reflexivity|reflexivity| |reflexivity].
  - rewrite SW_emit. apply step_inert_vsame. reflexivity.
  - rewrite HH_emit. reflexivity.
  - intros HA. apply A_emit; [exact HA|apply C|intros _ _; apply C| |].
    + apply chk_below_not_stack. reflexivity.
    + intros _ _. apply chk_input_other. reflexivity.
  - rewrite HQ_emit. reflexivity.
Qed.
(* the return of a setup() with commands, and the refresh() of a screen with such a setup(): not checked *)
Lemma Keep_exempt_event s tag a t : tag = T_SETUP \/ tag = T_REFRESH -> has_cmds (specs (nth0 a 1)) = true ->
  Keep s (emit (EUser tag a t) s).
Proof.
  intros HT HC.
  assert (C : forall chk, relax_setup specs chk (SW s) (EUser tag a t) = true).
  { intros chk. cbn [relax_setup]. rewrite HC. destruct HT as [->| ->]; reflexivity. }
  split; [| | |reflexivity|reflexivity|reflexivity|reflexivity| |reflexivity].
  - rewrite SW_emit. apply step_inert_vsame. destruct HT as [->| ->]; reflexivity.
  - rewrite HH_emit. reflexivity.
  - intros HA. apply A_emit_relaxed; [exact HA|apply C|intros _ _; apply C| |].
    + apply chk_below_not_stack. destruct HT as [->| ->]; reflexivity.
    + intros _ _. apply chk_input_other. destruct HT as [->| ->]; reflexivity.
  - rewrite HQ_emit. destruct HT as [->| ->]; reflexivity.
Qed.

Section scmd_ind2.
  Variable P : scmd -> Prop.
  Hypothesis H1 : forall (x a : nat), P (SPush x a).
  Hypothesis H2 : forall (x a : nat), P (SPushModal x a).
  Hypothesis H3 : forall (x a : nat), P (SReplace x a).
  Hypothesis H4 : forall (x a : nat), P (SSchedule x a).
  Hypothesis H5 : P SCloseSig. Hypothesis H6 : P SCloseNow. Hypothesis H7 : P SRedrawSig. Hypothesis H8 : P SSchedRedraw.
  Hypothesis H9 : P SRaise. Hypothesis H10 : P SExit. Hypothesis H11 : P SForceQuit. Hypothesis H12 : P SGetUserInput.
  Hypothesis H13 : forall b, P (SSetInputRequired b).
  Hypothesis H14 : forall a, P (SSetAnswer a).
  Hypothesis H15 : forall m, P (SMark m).
  Hypothesis H16 : forall k t e, Forall P t -> Forall P e -> P (SIfCount k t e).
  Hypothesis H17 : P SSysExit.
  Hypothesis H18 : forall (x : nat), P (SRedrawOther x).
  Hypothesis H19 : forall (x : nat), P (SCloseOther x).
  Hypothesis H20 : forall b, P (SSetTypeAhead b).
  Hypothesis H21 : forall h b, P (SHandlerAsk h b).
  Hypothesis H22 : forall h, P (SHandlerWait h).
  Hypothesis H23 : forall (c k : nat), P (SConnect c k).
  Hypothesis H24 : forall (c : nat) (p : Z), P (SEmit c p).
  Hypothesis H25 : P SProcess.
  Fixpoint scmd_ind2 (c : scmd) : P c :=
    match c with
    | SPush x a => H1 x a | SPushModal x a => H2 x a | SReplace x a => H3 x a | SSchedule x a => H4 x a
    | SCloseSig => H5 | SCloseNow => H6 | SRedrawSig => H7 | SSchedRedraw => H8 | SRaise => H9 | SExit => H10
    | SForceQuit => H11 | SSysExit => H17 | SRedrawOther x => H18 x | SCloseOther x => H19 x | SGetUserInput => H12 | SSetTypeAhead b => H20 b | SHandlerAsk h b => H21 h b | SHandlerWait h => H22 h | SConnect c k => H23 c k | SEmit c p => H24 c p | SProcess => H25 | SSetInputRequired b => H13 b | SSetAnswer a => H14 a | SMark m => H15 m
    | SIfCount k t e =>
      H16 k t e
          ((fix go (l : list scmd) : Forall P l :=
              match l with [] => Forall_nil _ | x :: r => Forall_cons _ (scmd_ind2 x) (go r) end) t)
          ((fix go (l : list scmd) : Forall P l :=
              match l with [] => Forall_nil _ | x :: r => Forall_cons _ (scmd_ind2 x) (go r) end) e)
    end.
End scmd_ind2.

Section Progs2.
Variable n : nat.
Hypothesis L : LoopOK n.

Lemma Rel_of_modal_eq b s s' new : sw_modal (SW s') = new ++ sw_modal (SW s) -> (b = true -> new = []) -> HH s' = HH s -> Rel b s s'.
Proof.
  intros M B Eh. split; [|rewrite Eh; auto]. exists new, (sw_modal (SW s)). split; [exact M|split; [apply frames_le_refl|exact B]].
Qed.

Lemma ust_emit (e : event) s : ust (emit e s) = ust s. Proof. reflexivity. Qed.

Section Cmds.
Variable cn : sprog.
Hypothesis Hcn : forall s, Inv s -> std n s cn.
Variables self cnt : nat.

Lemma std_push s sc a : Inv s -> std n s (do_scmd specs cn self cnt (SPush sc a)).
Proof.
  intros HI. cbn [do_scmd]. apply run_ev_seq; [reflexivity|reflexivity|reflexivity|]. unfold new_sd. apply run_rd. cbv beta zeta.
  apply run_wr_seq. apply run_wr_seq. unfold ev_stack.
  apply run_stack_seq; [apply (Below_push s _ O_PUSH sc a); [exact HI|reflexivity|reflexivity]|].
  set (s4 := emit _ _).
  destruct (Inv_push s s4 O_PUSH sc a false (or_introl (conj eq_refl eq_refl)) eq_refl eq_refl eq_refl eq_refl eq_refl eq_refl HI)
    as (I4 & M4 & H4).
  assert (R4 : Rel true s s4) by (eapply Rel_of_modal_eq; [exact M4|reflexivity|exact H4]).
  clearbody s4. eapply run_conseq; [apply (std_sched_redraw n L), I4|]. intros o s' P. eapply std_post_l; eauto.
Qed.

Lemma std_push_modal s sc a : Inv s -> std n s (do_scmd specs cn self cnt (SPushModal sc a)).
Proof.
  intros HI. cbn [do_scmd]. apply run_ev_seq; [reflexivity|reflexivity|reflexivity|]. unfold new_sd. apply run_rd. cbv beta zeta.
  apply run_wr_seq. apply run_wr_seq. unfold ev_stack.
  apply run_stack_seq; [apply (Below_push s _ O_PUSH_MODAL sc a); [exact HI|reflexivity|reflexivity]|].
  set (s4 := emit _ _).
  destruct (Inv_push s s4 O_PUSH_MODAL sc a true (or_intror (conj eq_refl eq_refl)) eq_refl eq_refl eq_refl eq_refl eq_refl eq_refl HI)
    as (I4 & M4 & H4).
  set (d := {| sd_id := st_next_sd (ust s); sd_scr := sc; sd_args := a; sd_modal := true |}) in *.
  assert (R4 : Rel false s s4) by (eapply Rel_of_modal_eq; [exact M4|discriminate|exact H4]).
  change (sd_id {| sd_id := st_next_sd (ust (emit (EUser T_OP [O_PUSH_MODAL; sc; a] []) s)); sd_scr := sc; sd_args := a; sd_modal := true |})
    with (sd_id d).
  clearbody s4. cbn [negb] in I4.
  apply run_seq. apply run_api; [exact L|exact I4|]. intros o s5 (I5 & R5 & SP5).
  cbn [Spec] in SP5. destruct SP5 as [NX SP5]. cbn [balc] in R5.
  assert (ABN : bal o = false -> Post s o s5).
  { intros Bo. split; [exact I5|]. rewrite Bo. eapply Rel_trans_false; eauto. }
  destruct o as [|[| |]| |]; try (apply ABN; reflexivity); [|congruence].
  destruct (SP5 eq_refl) as [RA HC]. destruct R5 as [(new & old' & E5 & F5 & Bn) Mono].
  rewrite (Bn eq_refl) in E5. cbn [app] in E5. rewrite M4 in F5. cbn [app] in F5.
  destruct old' as [|f' rest']; [inversion F5|]. assert (F5' : frame_le (frame_of d) f' /\ Forall2 frame_le (sw_modal (SW s)) rest') by (inversion F5; auto).
  clear F5. destruct F5' as [[Of Cf] Fr].
  cbn [frame_of mf_orig] in Of.
  assert (CL : h_ok (HH s5) = true -> mf_closed f' = true) by (intros Hok; specialize (HC Hok); rewrite E5 in HC; exact HC).
  unfold ev. apply run_emit; cbn [user_event].
  - intros HA. eapply A_modal_return; eauto.
  - set (s6 := emit _ s5).
    destruct (Inv_modal_return s5 s6 (sd_id d) sc f' rest' eq_refl eq_refl eq_refl eq_refl I5 E5 (eq_sym Of) CL RA) as (I6 & M6 & H6).
    split; [exact I6|]. split.
    + apply Relw_modal. rewrite M6. exact Fr.
    + rewrite H6. intros Hok. rewrite <- H4. apply Mono, Hok.
Qed.

Lemma std_replace s sc a : Inv s -> std n s (do_scmd specs cn self cnt (SReplace sc a)).
Proof.
  intros HI. cbn [do_scmd]. apply run_ev_seq; [reflexivity|reflexivity|reflexivity|]. apply run_rd. cbv beta. rewrite ust_emit.
  destruct (st_stack (ust s)) as [|top r] eqn:U0.
  - apply run_throw. pose proof (Keep_op_empty s O_REPLACE sc a U0 (or_introl eq_refl) HI) as K.
    split; [eapply Keep_inv; eauto|apply Keep_rel, K].
  - apply run_wr_seq. unfold ev_stack.
    apply run_stack_seq; [apply (Below_op_pop s _ O_REPLACE sc a top r); [exact HI|exact U0|reflexivity]|].
    unfold new_sd. apply run_rd. cbv beta zeta.
    apply run_wr_seq. apply run_wr_seq.
    apply run_stack_seq; [apply (Below_replace_append s _ sc a top r); [exact HI|exact U0|reflexivity|reflexivity]|].
    set (s4 := emit _ _).
    destruct (Inv_replace s s4 sc a top r U0 eq_refl eq_refl eq_refl eq_refl eq_refl eq_refl HI) as (I4 & R4).
    clearbody s4. eapply run_conseq; [apply (std_sched_redraw n L), I4|]. intros o s' P. eapply std_post_l; eauto.
Qed.

Lemma std_schedule s sc a : Inv s -> std n s (do_scmd specs cn self cnt (SSchedule sc a)).
Proof.
  intros HI. cbn [do_scmd]. apply run_ev_seq; [reflexivity|reflexivity|reflexivity|]. unfold new_sd. apply run_rd. cbv beta zeta.
  apply run_wr_seq. apply run_wr_seq. unfold ev_stack.
  apply run_stack_seq; [apply (Below_schedule s _ sc a); [exact HI|reflexivity]|].
  set (s4 := emit _ _).
  destruct (Inv_schedule s s4 sc a eq_refl eq_refl eq_refl eq_refl eq_refl eq_refl HI) as (I4 & R4).
  clearbody s4. eapply run_conseq; [|intros o s' P; eapply std_post_l; [exact R4|exact P]].
  match goal with |- run ?m ?x ?p (Post ?x) => change (std m x p) end.
  repeat first [apply (std_sched_redraw n L); assumption|sstep L].
Qed.

Lemma std_do_scmd : forall c s, Inv s -> std n s (do_scmd specs cn self cnt c).
Proof.
  induction c using scmd_ind2; intros s HI.
  - apply std_push, HI.
  - apply std_push_modal, HI.
  - apply std_replace, HI.
  - apply std_schedule, HI.
  - cbn [do_scmd]. sstep L.
  - cbn [do_scmd]. apply Hcn, HI.
  - cbn [do_scmd]. sstep L.
  - cbn [do_scmd]. apply (std_sched_redraw n L), HI.
  - cbn [do_scmd]. sstep L.
  - cbn [do_scmd]. sstep L.
  - cbn [do_scmd]. sstep L.
  - cbn [do_scmd]. apply (std_get_input_blocking n L), HI.
  - cbn [do_scmd]. sstep L.
  - cbn [do_scmd]. sstep L.
  - cbn [do_scmd]. sstep L.
  - cbn [do_scmd]. destruct (cnt <? k)%nat.
    + revert s HI. induction H as [|x r Hx Hr IH]; intros s HI; [sstep L|].
      sstep L; [apply Hx, HI|apply IH; assumption].
    + revert s HI. induction H0 as [|x r Hx Hr IH]; intros s HI; [sstep L|].
      sstep L; [apply Hx, HI|apply IH; assumption].
  - cbn [do_scmd]. sstep L.
  - cbn [do_scmd]. sstep L.
  - cbn [do_scmd]. sstep L.
  - cbn [do_scmd]. sstep L.
  - cbn [do_scmd]. apply (std_handler_ask n L), HI.
  - cbn [do_scmd]. apply (std_handler_wait n L), HI.
  - cbn [do_scmd]. sstep L.
  - cbn [do_scmd]. sstep L.
  - cbn [do_scmd]. sstep L.
Qed.

Lemma std_do_scmds : forall l s, Inv s -> std n s (do_scmds specs cn self cnt l).
Proof.
  induction l as [|x r IH]; intros s HI; cbn [do_scmds]; [sstep L|].
  sstep L; [apply std_do_scmd, HI|apply IH; assumption].
Qed.
End Cmds.
End Progs2.

Section Progs3.
Variable n : nat.
Hypothesis L : LoopOK n.

Ltac fold_std := match goal with |- run ?m ?x ?p (Post ?x) => change (std m x p) end.

Lemma run_seq_std' s0 s p q :
  Rel true s0 s -> std n s p -> (forall s1, Inv s1 -> Rel true s s1 -> run n s1 q (Post s0)) -> run n s (p ;; q) (Post s0).
Proof.
  intros R0 Hp Hq. apply run_seq_std; [exact Hp|exact Hq|].
  intros o s1 _ I1 R1. split; [exact I1|eapply Rel_trans_l; eauto].
Qed.
Lemma run_std_post s0 s p : Rel true s0 s -> std n s p -> run n s p (Post s0).
Proof. intros R0 Hp. eapply run_conseq; [exact Hp|]. intros o s1 P. eapply std_post_l; eauto. Qed.

Lemma std_call_closed s d : Inv s -> std n s (call_closed specs d).
Proof.
  intros HI. unfold call_closed.
  repeat first [apply (std_do_scmds n L); [intros; apply std_ev; [reflexivity|assumption]|assumption]|sstep L].
Qed.

Lemma std_close_loop_if s (m : bool) :
  Inv s -> (m = true -> h_ok (HH s) = true -> head_closed (sw_modal (SW s))) -> std n s (if m then PApi ACloseLoop else PRet).
Proof.
  intros HI HC. destruct m; [|sstep L]. apply run_api; [exact L|split; [exact HI|apply HC; reflexivity]|].
  intros o s' (I' & R' & _). split; assumption.
Qed.

Lemma HC_transfer s3 s5 (m : bool) : Rel true s3 s5 ->
  (m = true -> h_ok (HH s3) = true -> head_closed (sw_modal (SW s3))) ->
  (m = true -> h_ok (HH s5) = true -> head_closed (sw_modal (SW s5))).
Proof. intros [Rw Mono] HC M Hok. apply (Relw_head_closed _ _ Rw). apply HC; auto. Qed.

Lemma std_close_screen s cf : Inv s -> std n s (close_screen specs cf).
Proof.
  intros HI. unfold close_screen. apply run_ev_seq; [reflexivity|reflexivity|reflexivity|]. apply run_rd. cbv beta. rewrite ust_emit.
  destruct (st_stack (ust s)) as [|top r] eqn:U0.
  - apply run_throw.
    pose proof (Keep_op_empty s O_CLOSE (match cf with Some c => S c | None => 0 end) 0 U0 (or_intror eq_refl) HI) as K.
    split; [eapply Keep_inv; eauto|apply Keep_rel, K].
  - apply run_wr_seq. unfold ev_stack.
    apply run_stack_seq; [apply (Below_op_pop s _ O_CLOSE (match cf with Some c => S c | None => 0 end) 0 top r); [exact HI|exact U0|reflexivity]|].
    set (s3 := emit _ _).
    destruct (Inv_close_pop s s3 (match cf with Some c => S c | None => 0 end) top r U0 eq_refl eq_refl eq_refl eq_refl eq_refl eq_refl HI)
      as (I3 & R3 & HC3).
    clearbody s3.
    apply (run_seq_std' s s3); [exact R3|apply std_call_closed, I3|]. intros s4 I4 R4.
    assert (R04 : Rel true s s4) by (eapply Rel_trans_l; eauto).
    apply (run_seq_std' s s4); [exact R04| |].
    { destruct cf as [c|]; [destruct (c =? sd_scr top)%nat|]; sstep L. }
    intros s5 I5 R5. assert (R05 : Rel true s s5) by (eapply Rel_trans_l; eauto).
    assert (R35 : Rel true s3 s5) by (eapply Rel_trans_l; eauto).
    apply (run_seq_std' s s5); [exact R05|apply std_close_loop_if; [exact I5|apply (HC_transfer s3 s5 _ R35 HC3)]|].
    intros s6 I6 R6. apply (run_std_post s s6); [eapply Rel_trans_l; eauto|].
    repeat first [apply (std_sched_redraw n L); assumption|sstep L].
Qed.

Lemma std_run_cmds s self cnt l : Inv s -> std n s (run_cmds specs self cnt l).
Proof. intros HI. unfold run_cmds. apply (std_do_scmds n L); [intros; apply std_close_screen; assumption|exact HI]. Qed.

(* ---- the callbacks that concern the top entry ---- *)
Lemma run_call_setup_plain s d r : Inv s -> st_stack (ust s) = d :: r ->
  run n s (call_setup_plain specs d) (fun o s' => o = ONormal /\ Keep s s').
Proof.
  intros HI U0. unfold call_setup_plain. apply run_rd. cbv beta zeta.
  apply run_wr_seq. set (s1 := s <| ust := _ |>).
  assert (K1 : Keep s s1) by (apply Keep_wr; reflexivity).
  assert (U1 : st_stack (ust s1) = d :: r) by exact U0.
  pose proof (Keep_top_event s1 T_SETUP [sd_id d; sd_scr d; sd_args d; b2n (nth_last (sc_setup (specs (sd_scr d))) (ss_n_setup (scr_of (ust s) (sd_scr d))))] []
                d r (or_introl eq_refl) (Keep_inv _ _ _ K1 HI) U1 eq_refl) as K2.
  apply run_seq. unfold ev. apply run_emit; [exact (k_A _ _ K2)|]. cbn [user_event].
  set (s2 := emit _ s1) in *. assert (K02 : Keep s s2) by (eapply Keep_trans; eauto). clearbody s2. clear K2 K1 U1. clearbody s1.
  destruct (nth_last (sc_setup (specs (sd_scr d))) (ss_n_setup (scr_of (ust s) (sd_scr d)))).
  - apply run_seq. apply run_wr_seq. set (s3 := s2 <| ust := _ |>).
    assert (K3 : Keep s s3) by (eapply Keep_trans; [exact K02|apply Keep_wr; reflexivity]). clearbody s3.
    apply run_regsource. set (s4 := emit _ _).
    assert (K4 : Keep s s4) by (eapply Keep_trans; [exact K3|apply Keep_regsource]). clearbody s4.
    apply run_wr. split; [reflexivity|]. eapply Keep_trans; [exact K4|apply Keep_wr; reflexivity].
  - apply run_seq. apply run_ret. apply run_wr. split; [reflexivity|].
    eapply Keep_trans; [exact K02|apply Keep_wr; reflexivity].
Qed.

(* a setup() with commands: entered for the top entry; its commands are a callback like refresh()'s (not in a try
   block); it reports success ([setup_cmds_ok]); the stack is whatever the commands left *)
Definition SetupPost (d : sdata) s (o : outcome) s' : Prop :=
  (o = ONormal /\ Keep s s') \/
  (Post s o s' /\ has_cmds (specs (sd_scr d)) = true /\ (o = ONormal -> st_rb (ust s') = true)).

Lemma run_call_setup s d r : Inv s -> st_stack (ust s) = d :: r ->
  run n s (call_setup specs d) (SetupPost d s).
Proof.
  intros HI U0. unfold call_setup. destruct (sc_setup_cmds (specs (sd_scr d))) as [|c0 cs] eqn:EC.
  { eapply run_conseq; [eapply run_call_setup_plain; eauto|]. intros o s' H. left. exact H. }
  assert (HC : has_cmds (specs (sd_scr d)) = true) by (unfold has_cmds; rewrite EC; reflexivity).
  unfold call_setup_cmds. apply run_rd. cbv beta zeta. rewrite (Hcok (sd_scr d) _ HC). cbv iota.
  apply run_wr_seq. set (s1 := s <| ust := _ |>).
  assert (K1 : Keep s s1) by (apply Keep_wr; reflexivity).
  assert (U1 : st_stack (ust s1) = d :: r) by exact U0.
  pose proof (Keep_begin_event s1 [sd_id d; sd_scr d; sd_args d] [] d r (Keep_inv _ _ _ K1 HI) U1 eq_refl) as K2.
  apply run_seq. unfold ev. apply run_emit; [exact (k_A _ _ K2)|]. cbn [user_event].
  set (s2 := emit _ s1) in *. assert (K02 : Keep s s2) by (eapply Keep_trans; eauto). clearbody s2. clear K2 K1 U1. clearbody s1.
  pose proof (Keep_inv _ _ _ K02 HI) as I2. pose proof (Keep_rel _ _ K02) as R02.
  apply run_seq_std; [apply std_run_cmds, I2| |].
  - intros s3 I3 R3.
    pose proof (Keep_exempt_event s3 T_SETUP [sd_id d; sd_scr d; sd_args d; b2n true] [] (or_introl eq_refl) HC) as K3.
    apply run_seq. unfold ev. apply run_emit; [exact (k_A _ _ K3)|]. cbn [user_event].
    set (s4 := emit _ s3) in *. clearbody s4.
    apply run_seq. apply run_wr_seq. set (s5 := s4 <| ust := _ |>).
    assert (K5 : Keep s3 s5) by (eapply Keep_trans; [exact K3|apply Keep_wr; reflexivity]). clearbody s5.
    apply run_regsource. set (s6 := emit _ _).
    assert (K6 : Keep s3 s6) by (eapply Keep_trans; [exact K5|apply Keep_regsource]). clearbody s6.
    apply run_wr. right. split; [|split; [exact HC|intros _; reflexivity]].
    assert (K7 : Keep s3 (s6 <| ust := (ust s6) <| st_rb := true |> |>))
      by (eapply Keep_trans; [exact K6|apply Keep_wr; reflexivity]).
    split; [eapply Keep_inv; [exact K7|exact I3]|].
    eapply Rel_trans_l; [exact R02|]. eapply Rel_trans_l; [exact R3|apply Keep_rel, K7].
  - intros o s3 NO I3 R3. right. split; [|split; [exact HC|intros E; congruence]].
    split; [exact I3|eapply Rel_trans_l; [exact R02|exact R3]].
Qed.

Lemma std_call_refresh s d r : Inv s -> st_stack (ust s) = d :: r -> std n s (call_refresh specs d).
Proof.
  intros HI U0. unfold call_refresh. apply run_rd. cbv beta zeta.
  apply run_wr_seq. set (s1 := s <| ust := _ |>).
  assert (K1 : Keep s s1) by (apply Keep_wr; reflexivity).
  assert (U1 : st_stack (ust s1) = d :: r) by exact U0.
  pose proof (Keep_top_event s1 T_REFRESH [sd_id d; sd_scr d; sd_args d] [] d r (or_intror (or_introl eq_refl))
                (Keep_inv _ _ _ K1 HI) U1 eq_refl) as K2.
  apply run_seq. unfold ev. apply run_emit; [exact (k_A _ _ K2)|]. cbn [user_event].
  set (s2 := emit _ s1) in *. assert (K02 : Keep s s2) by (eapply Keep_trans; eauto). clearbody s2.
  apply (run_std_post s s2); [apply Keep_rel, K02|]. apply std_run_cmds. eapply Keep_inv; eauto.
Qed.

Lemma std_ask_pages scr k : forall s, Inv s -> std n s (ask_pages specs scr k).
Proof.
  induction k as [|k IH]; intros s HI; cbn [ask_pages]; [sstep L|].
  sstep L; [apply (std_get_input_blocking n L), HI|apply IH; assumption].
Qed.

Lemma std_call_show_all s d d' r : Inv s -> st_stack (ust s) = d' :: r -> sd_id d' = sd_id d -> std n s (call_show_all specs d).
Proof.
  intros HI U0 E. unfold call_show_all. apply run_rd. cbv beta zeta.
  apply run_wr_seq. set (s1 := s <| ust := _ |>).
  assert (K1 : Keep s s1) by (apply Keep_wr; reflexivity).
  assert (U1 : st_stack (ust s1) = d' :: r) by exact U0.
  pose proof (Keep_top_event s1 T_SHOW [sd_id d; sd_scr d] [] d' r (or_intror (or_intror eq_refl))
                (Keep_inv _ _ _ K1 HI) U1 (eq_sym E)) as K2.
  apply run_seq. unfold ev. apply run_emit; [exact (k_A _ _ K2)|]. cbn [user_event].
  set (s2 := emit _ s1) in *. assert (K02 : Keep s s2) by (eapply Keep_trans; eauto). clearbody s2.
  apply (run_std_post s s2); [apply Keep_rel, K02|].
  assert (I2 : Inv s2) by (eapply Keep_inv; eauto).
  sstep L; [apply std_ask_pages, I2|apply std_run_cmds; assumption].
Qed.

Lemma std_draw_screen s d d' r : Inv s -> st_stack (ust s) = d' :: r -> sd_id d' = sd_id d -> std n s (draw_screen specs d).
Proof.
  intros HI U0 E. unfold draw_screen. apply std_try; [|intros; apply (std_raise n L); assumption].
  destruct (sc_no_separator (specs (sd_scr d))).
  - unfold std. apply run_seq. apply run_ret. fold_std. eapply std_call_show_all; eauto.
  - pose proof (Keep_user T_SEPARATOR [sd_scr d] [] s eq_refl) as K.
    apply run_seq. unfold ev. apply run_emit; [exact (k_A _ _ K)|]. cbn [user_event].
    apply (run_std_post s _ _ (Keep_rel _ _ K)).
    eapply std_call_show_all; [eapply Keep_inv; eauto| |exact E]. rewrite (k_u1 _ _ K). exact U0.
Qed.

Lemma std_process_input_result s act b : Inv s -> std n s (process_input_result specs act b).
Proof.
  intros HI. unfold process_input_result, with_top, push_screen_modal.
  repeat first [apply (std_sched_redraw n L); assumption | apply (std_get_input n L); assumption
               | apply std_close_screen; assumption
               | apply (std_push_modal n L); assumption | sstep L].
Qed.

(* ---- input() is given to a screen that has an entry with no modal entry above it ---- *)
Lemma pos_of_app_notin id l1 l2 : forall i, ~ In id (map en_id l1) -> pos_of id (l1 ++ l2) i = pos_of id l2 (i + length l1).
Proof.
  induction l1 as [|e r IH]; intros i N; cbn [app pos_of length]; [rewrite Nat.add_0_r; reflexivity|].
  cbn [map] in N. destruct (en_id e =? id)%nat eqn:E; [apply Nat.eqb_eq in E; exfalso; apply N; left; exact E|].
  rewrite IH by (intros H; apply N; right; exact H). f_equal. lia.
Qed.
Lemma pos_of_lt_in id l1 l2 : forall i p, pos_of id (l1 ++ l2) i = Some p -> p < i + length l1 -> In id (map en_id l1).
Proof.
  induction l1 as [|e r IH]; intros i p H Hp; cbn [app pos_of length map] in *.
  - exfalso. revert i p H Hp. induction l2 as [|e r IH]; intros i p H Hp; cbn [pos_of] in H; [discriminate|].
    destruct (en_id e =? id)%nat; [injection H as <-; lia|]. apply (IH (S i) p H). lia.
  - destruct (en_id e =? id)%nat eqn:E; [left; apply Nat.eqb_eq, E|]. right. apply (IH (S i) p H). lia.
Qed.
Lemma stack_sm_split u above A b below : stack_sm u = above ++ (A, b) :: below ->
  exists da x db, st_stack u = da ++ x :: db /\ map (fun d => (sd_scr d, sd_modal d)) da = above /\ sd_scr x = A.
Proof.
  unfold stack_sm. intros H. apply map_eq_app in H. destruct H as (da & r & E & E1 & E2).
  apply map_eq_cons in E2. destruct E2 as (x & db & E3 & E4 & E5). injection E4 as E4 _.
  exists da, x, db. subst r. auto.
Qed.

Lemma nodup_id_inj (l : list sdata) a b : NoDup (map sd_id l) -> In a l -> In b l -> sd_id a = sd_id b -> a = b.
Proof.
  induction l as [|y r IH]; intros N Ha Hb E; [destruct Ha|]. cbn [map] in N. apply NoDup_cons_iff in N. destruct N as [N1 N2].
  destruct Ha as [->|Ha], Hb as [->|Hb]; auto.
  - exfalso. apply N1. rewrite E. apply in_map, Hb.
  - exfalso. apply N1. rewrite <- E. apply in_map, Ha.
Qed.
Lemma visible_of_clear s A : Inv s -> hqok (HQ s) = true -> clear_entry (q_stack (HQ s)) A -> scr_visible (SW s) A = true.
Proof.
  intros [[B1 B2 B3 B4 B5 B6 B7 B8 B9 B10] _] Hok (above & b & below & E & F).
  destruct (B10 Hok) as [I1 _ _]. rewrite I1 in E.
  destruct (stack_sm_split _ _ _ _ _ E) as (da & x & db & U0 & Ea & Ex).
  unfold scr_visible. apply orb_true_iff. left. apply existsb_exists. exists (e_of x). rewrite B1, U0. split.
  { apply in_map, in_or_app. right. left. reflexivity. }
  cbn [e_of en_scr en_id]. rewrite Ex, Nat.eqb_refl. cbn [andb]. apply negb_true_iff.
  unfold shielded. rewrite B1, U0, map_app. cbn [map].
  pose proof B5 as B5o. rewrite U0, map_app in B5. cbn [map] in B5.
  assert (Nx : ~ In (sd_id x) (map sd_id da)).
  { apply NoDup_remove_2 in B5. intros H. apply B5, in_or_app. left. exact H. }
  assert (Px : pos_of (sd_id x) (map e_of da ++ e_of x :: map e_of db) 0 = Some (length da)).
  { rewrite pos_of_app_notin by (rewrite map_e_of_id; exact Nx). cbn [pos_of e_of en_id]. rewrite Nat.eqb_refl, map_length. reflexivity. }
  rewrite Px. apply not_true_iff_false. intros H. apply existsb_exists in H. destruct H as (f & Hf & Hc).
  apply andb_true_iff in Hc. destruct Hc as [Hc Hp]. apply negb_true_iff in Hc.
  destruct (pos_of (mf_cur f) (map e_of da ++ e_of x :: map e_of db) 0) as [pf|] eqn:Pf; [|discriminate Hp].
  apply Nat.ltb_lt in Hp.
  assert (Hin : In (mf_cur f) (map en_id (map e_of da))).
  { eapply pos_of_lt_in; [exact Pf|]. rewrite map_length. lia. }
  rewrite map_e_of_id in Hin. apply in_map_iff in Hin. destruct Hin as (d' & Ed' & Hd').
  destruct (B9 f Hf Hc) as (e0 & He0 & E1 & E2). rewrite B1, U0 in He0. apply in_map_e_of in He0.
  destruct He0 as (d0 & Hd0 & ->). cbn [e_of en_id en_modal] in E1, E2.
  assert (d0 = d').
  { apply (nodup_id_inj (st_stack (ust s))); [exact B5o|rewrite U0; exact Hd0|rewrite U0; apply in_or_app; left; exact Hd'|congruence]. }
  subst d0. rewrite <- Ea in F. rewrite forallb_forall in F.
  specialize (F (sd_scr d', sd_modal d') (in_map _ _ _ Hd')). cbn [snd] in F. rewrite E2 in F. discriminate F.
Qed.

Definition CE s (scr : nat) : Prop := hqok (HQ s) = true -> clear_entry (q_stack (HQ s)) scr.
Lemma CE_keep s s' scr : Keep s s' -> CE s scr -> CE s' scr.
Proof. intros K C. unfold CE. rewrite (k_hq _ _ K). exact C. Qed.

Lemma Keep_input s scr a t : Inv s -> CE s scr -> nth0 a 0 = scr -> Keep s (emit (EUser T_INPUT a t) s).
Proof.
  intros HI C N. split; [| | |reflexivity|reflexivity|reflexivity|reflexivity| |reflexivity].
  - rewrite SW_emit. apply step_inert_vsame. reflexivity.
  - rewrite HH_emit. reflexivity.
  - intros HA. apply A_emit; [exact HA|reflexivity|intros _ _; reflexivity|reflexivity|].
    intros Hok _. cbn [chk_C05_input]. rewrite Nat.eqb_refl, N. apply visible_of_clear; auto.
  - rewrite HQ_emit. reflexivity.
Qed.

Lemma std_call_input s scr key : Inv s -> CE s scr -> std n s (call_input specs scr key).
Proof.
  intros HI C. unfold call_input. apply std_rd. cbv beta zeta.
  destruct (match assoc_str key (sc_input (specs scr)) with
            | Some (c, r) => (c, r)
            | None => (fst (sc_input_default (specs scr)),
                       match snd (sc_input_default (specs scr)) with Some r => r | None => RKey key end)
            end) as [cmds rv].
  apply run_seq. apply run_wr. set (s1 := s <| ust := _ |>).
  assert (K1 : Keep s s1) by (apply Keep_wr; reflexivity).
  pose proof (Keep_input s1 scr [scr; ss_input_args (scr_of (ust s) scr)] key (Keep_inv _ _ _ K1 HI) (CE_keep _ _ _ K1 C) eq_refl) as K2.
  apply run_seq. unfold evt. apply run_emit; [exact (k_A _ _ K2)|]. cbn [user_event].
  set (s2 := emit _ s1) in *. assert (K02 : Keep s s2) by (eapply Keep_trans; eauto). clearbody s2. clear K2 K1. clearbody s1.
  eapply run_conseq; [|intros o s' P; eapply std_post_l; [apply Keep_rel, K02|exact P]].
  pose proof (Keep_inv _ _ _ K02 HI) as I2.
  match goal with |- run ?m ?x ?p _ => change (std m x p) end.
  repeat first [apply std_run_cmds; assumption|sstep L].
Qed.

Lemma std_process_input s scr line : Inv s -> CE s scr -> std n s (process_input specs scr line).
Proof.
  intros HI C. unfold process_input.
  apply run_seq. apply run_wr. set (s1 := s <| ust := _ |>).
  assert (K1 : Keep s s1) by (apply Keep_wr; reflexivity).
  pose proof (Keep_inv _ _ _ K1 HI) as I1. pose proof (CE_keep _ _ _ K1 C) as C1. clearbody s1.
  eapply run_conseq; [|intros o s' P; eapply std_post_l; [apply Keep_rel, K1|exact P]].
  match goal with |- run ?m ?x ?p _ => change (std m x p) end.
  sstep L.
  - apply std_try; [|intros s2 I2; repeat first [apply (std_raise n L); assumption|sstep L]].
    sstep L; [apply std_call_input; assumption|sstep L].
  - repeat first [apply std_process_input_result; assumption|sstep L].
Qed.

Lemma ihs_nth u m A c : nth_error (ihs u) m = Some (A, c) -> ih_owner (ih_of u m) = A /\ ih_cb (ih_of u m) = c.
Proof.
  unfold ihs, ih_of. intros H. rewrite nth_error_map in H. destruct (nth_error (st_ih u) m) as [h|] eqn:E; [|discriminate].
  injection H as <- <-. rewrite (nth_error_nth _ _ _ E). auto.
Qed.
Lemma ihs_nth_cb u m : ih_cb (ih_of u m) = true -> nth_error (ihs u) m = Some (ih_owner (ih_of u m), true).
Proof.
  unfold ihs, ih_of. intros H. rewrite nth_error_map. destruct (nth_error (st_ih u) m) as [h|] eqn:E.
  - rewrite (nth_error_nth _ _ _ E) in *. cbn. rewrite H. reflexivity.
  - rewrite (nth_overflow _ _ (proj1 (nth_error_None _ _) E)) in H. discriminate H.
Qed.
Lemma In_pend_remove m k A l : k <> m -> In (k, A) l -> In (k, A) (pend_remove m l).
Proof. intros N H. unfold pend_remove. apply filter_In. split; [exact H|]. cbn. apply negb_true_iff, Nat.eqb_neq, N. Qed.
Lemma In_pend_remove_inv m k A l : In (k, A) (pend_remove m l) -> In (k, A) l.
Proof. unfold pend_remove. intros H. apply filter_In in H. apply H. Qed.

(* the ready signal reaches its handler *)
Lemma Keep_ready0 s m t : Keep s (emit (EUser T_READY [m; 0] t) s).
Proof.
  split; [| | |reflexivity|reflexivity|reflexivity|reflexivity| |reflexivity].
  - rewrite SW_emit. apply step_inert_vsame. reflexivity.
  - rewrite HH_emit. reflexivity.
  - apply A_user_plain; reflexivity.
  - rewrite HQ_emit. reflexivity.
Qed.
Lemma Inv_ready1 s s' m t :
  trace s' = EUser T_READY [m; 1] t :: trace s -> st_stack (ust s') = st_stack (ust s) ->
  st_next_sd (ust s') = st_next_sd (ust s) -> run_loop s' = run_loop s -> force_quit s' = force_quit s ->
  (forall k A, nth_error (ihs (ust s')) k = Some (A, true) -> k <> m /\ nth_error (ihs (ust s)) k = Some (A, true)) ->
  Inv s -> Inv s' /\ Rel true s s' /\ (ih_cb (ih_of (ust s) m) = true -> CE s' (ih_owner (ih_of (ust s) m))).
Proof.
  intros T U1 U2 RL FQ W [[B1 B2 B3 B4 B5 B6 B7 B8 B9 B10] St].
  assert (V : vsame (SW s) (SW s')) by (rewrite (SW_cons' _ _ _ T); apply step_inert_vsame; reflexivity).
  assert (Eh : HH s' = HH s) by (apply (HH_cons_u _ _ _ _ _ T)).
  pose proof (HQ_cons _ _ _ T) as Eq. destruct V as (V1 & V2 & V3 & V4).
  assert (G : q_stack (HQ s') = q_stack (HQ s) /\ q_pend (HQ s') = pend_remove m (q_pend (HQ s)) /\
              (hqok (HQ s') = true -> hqok (HQ s) = true)).
  { rewrite Eq. split; [reflexivity|split; [reflexivity|apply hq_step_mono]]. }
  destruct G as (G1 & G2 & G3).
  split; [|split; [split; [apply Relw_modal; rewrite V2; apply frames_le_refl|rewrite Eh; auto]|]].
  - split.
    + split; unfold frames_on, frames_modal; rewrite ?U1, ?U2, ?V1, ?V2, ?V3; auto; [destruct V4 as [V4|V4]; congruence|].
      intros Hok. destruct (B10 (G3 Hok)) as [I1 I2 I3]. split; unfold stack_sm; rewrite ?G1, ?G2, ?U1.
      * exact I1.
      * intros k A H. destruct (W k A H) as [Nk H']. apply In_pend_remove; [exact Nk|apply I2, H'].
      * intros k A H. apply (I3 k), (In_pend_remove_inv _ _ _ _ H).
    + rewrite Eh. intros Hok. destruct (St Hok) as [S1 S2 S3 S4]. split; rewrite ?Eh, ?RL, ?FQ, ?V1, ?V2; auto.
  - intros Cb Hok. destruct (B10 (G3 Hok)) as [I1 I2 I3]. rewrite G1. apply (I3 m), I2, ihs_nth_cb, Cb.
Qed.

Lemma std_input_ready_handler s m sg : Inv s -> std n s (input_ready_handler specs m sg).
Proof.
  intros HI. unfold input_ready_handler. destruct (negb (sg_a sg =? m)%nat); [sstep L|].
  apply run_seq. apply run_wr. set (s1 := s <| ust := _ |>).
  assert (K1 : Keep s s1) by (apply Keep_wr; try reflexivity; apply ihs_upd_ih; intros; split; reflexivity).
  assert (E1 : ihs (ust s1) = ihs (ust s)) by apply (k_ih _ _ K1).
  assert (O1 : ih_owner (ih_of (ust s1) m) = ih_owner (ih_of (ust s) m) /\ ih_cb (ih_of (ust s1) m) = ih_cb (ih_of (ust s) m)).
  { destruct (ih_cb (ih_of (ust s1) m)) eqn:C1.
    - pose proof (ihs_nth_cb _ _ C1) as H. rewrite E1 in H. destruct (ihs_nth _ _ _ _ H). auto.
    - destruct (ih_cb (ih_of (ust s) m)) eqn:C0; [|split; [|reflexivity]].
      + pose proof (ihs_nth_cb _ _ C0) as H. rewrite <- E1 in H. destruct (ihs_nth _ _ _ _ H). congruence.
      + unfold s1, ih_of, upd_ih. cbn [ust set st_ih]. clear. generalize (st_ih (ust s)) m.
        induction l as [|h r IH]; intros [|k]; cbn; auto. }
  pose proof (Keep_inv _ _ _ K1 HI) as I1. clearbody s1.
  destruct (sg_b sg) eqn:OK; cbn [b2n negb].
  - (* success *)
    apply run_seq. unfold evt. apply run_emit; [apply A_user_plain; reflexivity|]. cbn [user_event].
    apply run_seq. apply run_wr. set (s3 := _ <| ust := _ |>).
    assert (E3 : ihs (ust s3) = ihs (ust s1)) by (unfold s3; cbn [ust set emit]; apply ihs_upd_ih; intros; split; reflexivity).
    apply run_rd. cbv beta.
    assert (C3 : ih_cb (ih_of (ust s3) m) = ih_cb (ih_of (ust s1) m) /\ ih_owner (ih_of (ust s3) m) = ih_owner (ih_of (ust s1) m)).
    { destruct (ih_cb (ih_of (ust s3) m)) eqn:C.
      - pose proof (ihs_nth_cb _ _ C) as H. rewrite E3 in H. destruct (ihs_nth _ _ _ _ H). auto.
      - destruct (ih_cb (ih_of (ust s1) m)) eqn:C0.
        + pose proof (ihs_nth_cb _ _ C0) as H. rewrite <- E3 in H. destruct (ihs_nth _ _ _ _ H). congruence.
        + split; [reflexivity|]. unfold s3, ih_of, upd_ih. cbn [ust set st_ih emit]. clear. generalize (st_ih (ust s1)) m.
          induction l as [|h r IH]; intros [|k]; cbn; auto. }
    destruct C3 as [C3 C3o]. destruct (ih_cb (ih_of (ust s3) m)) eqn:CB.
    + (* the callback: input() of the owner *)
      apply run_seq. apply run_wr. set (s4 := s3 <| ust := _ |>).
      destruct (Inv_ready1 s1 s4 m (sg_data sg)) as (I4 & R4 & C4); try reflexivity; [|exact I1|].
      { intros k A H. destruct (Nat.eq_dec k m) as [->|Nk].
        - exfalso. unfold s4, ihs, upd_ih in H. cbn [ust set st_ih] in H. rewrite nth_error_map in H.
          revert H. clear. generalize (st_ih (ust s3)) m.
          induction l as [|h r IH]; intros [|k]; cbn; try discriminate; auto. apply IH.
        - split; [exact Nk|]. rewrite <- E3. revert H. unfold s4, ihs, upd_ih. cbn [ust set st_ih].
          generalize (st_ih (ust s3)) k m Nk. clear.
          induction l as [|h r IH]; intros [|k] [|m] Nk; cbn; auto; [congruence|]. apply IH. congruence. }
      assert (CE4 : CE s4 (ih_owner (ih_of (ust s3) m))) by (rewrite C3o; apply C4; rewrite <- C3; reflexivity).
      clearbody s4.
      (* the arguments of the answered request are put in place (fix of F15): nothing the invariant looks at *)
      apply run_seq. apply run_wr. set (s5 := s4 <| ust := _ |>).
      assert (K5 : Keep s4 s5) by (apply Keep_wr; reflexivity).
      clearbody s5. eapply run_conseq; [apply std_process_input; [exact (Keep_inv _ _ _ K5 I4)|exact (CE_keep _ _ _ K5 CE4)]|].
      intros o s' P. eapply std_post_l; [|exact P]. eapply Rel_trans_l; [apply Keep_rel, K1|].
      eapply Rel_trans_r; [exact R4|apply Keep_rel, K5].
    + apply run_ret.
      destruct (Inv_ready1 s1 s3 m (sg_data sg)) as (I3 & R3 & _); try reflexivity; [|exact I1|].
      { intros k A H. rewrite E3 in H. split; [|exact H]. intros ->. destruct (ihs_nth _ _ _ _ H) as [_ X]. congruence. }
      split; [exact I3|]. eapply Rel_trans_l; [apply Keep_rel, K1|exact R3].
  - (* failure *)
    pose proof (Keep_ready0 s1 m (sg_data sg)) as K2.
    apply run_seq. unfold evt. apply run_emit; [exact (k_A _ _ K2)|]. cbn [user_event]. apply run_ret.
    apply std_keep; [eapply Keep_trans; eauto|exact HI].
Qed.

(* refresh() of a screen whose setup() runs commands: the entry need not be the top of the stack *)
Lemma std_call_refresh_cmds s d : Inv s -> has_cmds (specs (sd_scr d)) = true -> std n s (call_refresh specs d).
Proof.
  intros HI HC. unfold call_refresh. apply run_rd. cbv beta zeta.
  apply run_wr_seq. set (s1 := s <| ust := _ |>).
  assert (K1 : Keep s s1) by (apply Keep_wr; reflexivity).
  pose proof (Keep_exempt_event s1 T_REFRESH [sd_id d; sd_scr d; sd_args d] [] (or_intror eq_refl) HC) as K2.
  apply run_seq. unfold ev. apply run_emit; [exact (k_A _ _ K2)|]. cbn [user_event].
  set (s2 := emit _ s1) in *. assert (K02 : Keep s s2) by (eapply Keep_trans; eauto). clearbody s2.
  apply (run_std_post s s2); [apply Keep_rel, K02|]. apply std_run_cmds. eapply Keep_inv; eauto.
Qed.

Lemma std_process_screen s : Inv s -> std n s (process_screen specs).
Proof.
  intros HI. unfold process_screen, with_top. apply std_rd. cbv beta zeta.
  destruct (st_stack (ust s)) as [|top r] eqn:U0; [sstep L|].
  (* first part: ready or setup; the stack is left alone *)
  assert (P1 : run n s (rd (fun u => if ss_ready (scr_of u (sd_scr top)) then wr (fun u0 => u0 <| st_rb := true |>) else call_setup specs top))
                   (SetupPost top s)).
  { apply run_rd. cbv beta. destruct (ss_ready (scr_of (ust s) (sd_scr top))).
    - apply run_wr. left. split; [reflexivity|apply Keep_wr; reflexivity].
    - eapply run_call_setup; eauto. }
  apply run_seq. eapply run_conseq; [exact P1|]. intros o s1 [[-> K1]|([I1 R1] & HC & RB)].
  2:{ (* a setup() with commands returned: it succeeded; the stack is whatever it left *)
    clear P1. destruct o; try (split; assumption). cbn [bal] in R1.
    apply run_rd. cbv beta. rewrite (RB eq_refl). cbn [negb].
    apply run_seq. apply run_regsource. set (s2 := emit _ _).
    assert (K2 : Keep s1 s2) by apply Keep_regsource.
    pose proof (Keep_inv _ _ _ K2 I1) as I2. clearbody s2.
    apply (run_std_post s s2); [eapply Rel_trans_l; [exact R1|apply Keep_rel, K2]|].
    apply std_try; [|intros; apply (std_raise n L); assumption].
    sstep L; [apply std_call_refresh_cmds; assumption|].
    apply std_rd. cbv beta. destruct (st_stack (ust s0)) as [|top' r'] eqn:U3; [sstep L|].
    destruct (sd_id top' =? sd_id top)%nat eqn:E; [|sstep L]. apply Nat.eqb_eq in E.
    sstep L; [eapply std_draw_screen; eauto|].
    repeat first [apply (std_get_input n L); assumption|sstep L]. }
  pose proof (Keep_inv _ _ _ K1 HI) as I1. pose proof (Keep_rel _ _ K1) as R1.
  assert (U1 : st_stack (ust s1) = top :: r) by (rewrite (k_u1 _ _ K1); exact U0).
  clear P1. apply run_rd. cbv beta. destruct (negb (st_rb (ust s1))).
  - (* the setup failed: discard the entry *)
    apply run_seq. apply run_rd. cbv beta. rewrite U1. apply run_wr_seq. unfold ev_stack.
    apply run_stack_last; [apply (Below_fail_pop s1 _ top r); [exact I1|exact U1|reflexivity]|].
    set (s3 := emit _ _).
    destruct (Inv_fail_pop s1 s3 top r U1 eq_refl eq_refl eq_refl eq_refl eq_refl eq_refl I1) as (I3 & R3 & HC3).
    clearbody s3. apply (run_std_post s s3); [eapply Rel_trans_l; eauto|].
    destruct (sd_modal top) eqn:M.
    + apply (std_close_loop_if s3 true I3). intros _. apply HC3. reflexivity.
    + apply (std_sched_redraw n L), I3.
  - apply run_seq. apply run_regsource. set (s2 := emit _ _).
    assert (K2 : Keep s1 s2) by apply Keep_regsource.
    assert (U2 : st_stack (ust s2) = top :: r) by (rewrite (k_u1 _ _ K2); exact U1).
    pose proof (Keep_inv _ _ _ K2 I1) as I2. clearbody s2.
    apply (run_std_post s s2); [eapply Rel_trans_l; [exact R1|apply Keep_rel, K2]|].
    apply std_try; [|intros; apply (std_raise n L); assumption].
    sstep L; [eapply std_call_refresh; eauto|].
    apply std_rd. cbv beta. destruct (st_stack (ust s0)) as [|top' r'] eqn:U3; [sstep L|].
    destruct (sd_id top' =? sd_id top)%nat eqn:E; [|sstep L]. apply Nat.eqb_eq in E.
    sstep L; [eapply std_draw_screen; eauto|].
    repeat first [apply (std_get_input n L); assumption|sstep L].
Qed.

Lemma handlers_ok : HOK n.
Proof.
  intros hid sg data s HI. change (std n s (screen_code specs hid sg data)). unfold screen_code.
  destruct (hid =? H_RENDER)%nat; [apply std_process_screen, HI|].
  destruct (hid =? H_CLOSE)%nat; [apply std_close_screen, HI|].
  destruct (hid =? H_RECEIVED)%nat; [apply (std_input_received_handler n L), HI|].
  destruct (10 <=? hid)%nat; [apply std_input_ready_handler, HI|].
  destruct (3 <=? hid)%nat; [|sstep L].
  (* a callback connected to one of the application's own signals: a command list, like input()'s *)
  unfold custom_handler. sstep L; [sstep L|apply std_run_cmds; assumption].
Qed.
End Progs3.

Theorem loop_ok : forall n, LoopOK n.
Proof. induction n as [|n IH]; [apply LoopOK_0|]. apply loop_step; [exact IH|apply handlers_ok, IH]. Qed.

(* ================================================================ whole sessions *)
Lemma Inv_init u : st_stack u = [] -> st_ih u = [] -> Inv (init_state u) /\ A (init_state u).
Proof.
  intros U Ui. split; [split|].
  - split; cbn; rewrite ?U; auto; try constructor; try (intros f []; fail).
    + cbn. unfold stack_sm. cbn. rewrite U. reflexivity.
    + unfold ihs. cbn. rewrite Ui. intros [|k] A0; discriminate.
    + cbn. intros k A0 [].
  - intros _. split; cbn; auto; discriminate.
  - split; [reflexivity|split; [intros _; reflexivity|split; [reflexivity|intros _; reflexivity]]].
Qed.

Lemma Keep_top s : Keep s (emit ETop s).
Proof. apply Keep_emit. reflexivity. Qed.

Lemma std_app_initialize n s : Inv s -> std n s app_initialize.
Proof. intros HI. unfold app_initialize. pose proof (loop_ok n) as L. repeat sstep L. Qed.

Lemma app_session_ok fuel : forall acts s, Inv s -> A s -> A (snd (app_session specs fuel acts s)).
Proof.
  induction acts as [|a r IH]; intros s HI HA; cbn [app_session]; [exact HA|].
  pose proof (Keep_top s) as K0. pose proof (Keep_inv _ _ _ K0 HI) as I0. pose proof (k_A _ _ K0 HA) as A0.
  set (s0 := emit ETop s) in *. clearbody s0.
  assert (STEP : forall o s1, A s1 -> (o <> OFuel -> Inv s1) ->
            A (snd (match o with
                    | OBlocked | OFuel | OThrow XSysExit => ([o], s1)
                    | _ => let '(os, s2) := app_session specs fuel r s1 in (o :: os, s2)
                    end))).
  { intros o s1 A1 I1.
    assert (GO : o <> OFuel -> A (snd (let '(os, s2) := app_session specs fuel r s1 in (o :: os, s2)))).
    { intros NF. specialize (IH s1 (I1 NF) A1). destruct (app_session specs fuel r s1) as [os s2]. exact IH. }
    destruct o as [|[| |]| |]; try exact A1; apply GO; discriminate. }
  destruct a as [l|].
  - destruct (exec code fuel (CProg (run_cmds specs 0 0 l)) s0) as [o s1] eqn:E.
    destruct (std_run_cmds fuel (loop_ok fuel) s0 0 0 l I0 A0 fuel o s1 (le_n _) E) as [A1 P1].
    apply STEP; [exact A1|]. intros NF. apply (P1 NF).
  - destruct (st_stack (ust s)) as [|d l] eqn:U; [destruct (st_run_empty (ust s)) eqn:RE|].
    + destruct (exec code fuel CRun s0) as [o s1] eqn:E.
      destruct (loop_ok fuel fuel CRun s0 o s1 (le_n _) A0 I0 E) as [A1 P1].
      apply STEP; [exact A1|]. intros NF. apply (P1 NF).
    + apply (STEP (OThrow XError) s0); auto.
    + destruct (exec code fuel CRun s0) as [o s1] eqn:E.
      destruct (loop_ok fuel fuel CRun s0 o s1 (le_n _) A0 I0 E) as [A1 P1].
      apply STEP; [exact A1|]. intros NF. apply (P1 NF).
Qed.

Lemma app_run_all_ok specl typed' quit run_empty fuel acts :
  A (snd (app_run_all specs specl typed' quit run_empty fuel acts)).
Proof.
  unfold app_run_all. set (u := sstate0 specl typed' quit run_empty).
  destruct (Inv_init u eq_refl eq_refl) as [I0 A0].
  destruct (exec code 20 (CProg app_initialize) (init_state u)) as [o s1] eqn:E.
  destruct (std_app_initialize 20 (init_state u) I0 A0 20 o s1 (le_n _) E) as [A1 P1].
  assert (NF : o <> OFuel).
  { assert (X : fst (exec code 20 (CProg app_initialize) (init_state u)) = ONormal) by reflexivity.
    rewrite E in X. cbn in X. rewrite X. discriminate. }
  apply app_session_ok; [apply (P1 NF)|exact A1].
Qed.
End Screen.

(* ================================================================ the theorems *)
Theorem C05_input_session_cmds specs (Hcok : setup_cmds_ok specs) specl typed quit run_empty fuel acts :
  let t := rev (trace (snd (app_run_all specs specl typed quit run_empty fuel acts))) in
  sok (relax_setup specs chk_C05_shield_partial) typed t = true /\
  (no_f13 t = true -> sok (relax_setup specs chk_C05_shield) typed t = true) /\
  sok chk_C05_below typed t = true /\
  (no_stale_prompt t = true -> no_orphan_prompt t = true -> no_modal_during_prompt t = true ->
   sok chk_C05_input typed t = true).
Proof.
  intros t. destruct (app_run_all_ok specs Hcok typed specl typed quit run_empty fuel acts) as (A1 & A2 & A3 & A4).
  split; [apply sok_iff; exact A1|]. split; [intros H; apply sok_iff, A2, H|]. split; [apply sok_iff; exact A3|].
  intros H1 H2 H3. apply sok_iff, A4. unfold Hqt. fold t. rewrite hqok_split, H1, H2, H3. reflexivity.
Qed.

Theorem C05_input_session specs (Hplain : plain_setup specs) specl typed quit run_empty fuel acts :
  let t := rev (trace (snd (app_run_all specs specl typed quit run_empty fuel acts))) in
  sok chk_C05_shield_partial typed t = true /\ (no_f13 t = true -> sok chk_C05_shield typed t = true) /\
  sok chk_C05_below typed t = true /\
  (no_stale_prompt t = true -> no_orphan_prompt t = true -> no_modal_during_prompt t = true ->
   sok chk_C05_input typed t = true).
Proof.
  intros t.
  destruct (C05_input_session_cmds specs (plain_setup_cmds_ok specs Hplain) specl typed quit run_empty fuel acts) as (H1 & H2 & H3 & H4).
  fold t in H1, H2, H3, H4.
  rewrite (sok_ext _ _ typed t (relax_setup_plain specs chk_C05_shield_partial Hplain)) in H1.
  rewrite (sok_ext _ _ typed t (relax_setup_plain specs chk_C05_shield Hplain)) in H2.
  split; [exact H1|split; [exact H2|split; [exact H3|exact H4]]].
Qed.

(* the whole acceptor of ScreenMon.v *)
Theorem C05_full_session specs (Hplain : plain_setup specs) specl typed quit run_empty fuel acts :
  let t := rev (trace (snd (app_run_all specs specl typed quit run_empty fuel acts))) in
  no_stale_prompt t = true -> no_orphan_prompt t = true -> no_modal_during_prompt t = true ->
  sok chk_C05_partial typed t = true /\ (no_f13 t = true -> sok chk_C05 typed t = true).
Proof.
  intros t H1 H2 H3. destruct (C05_input_session specs Hplain specl typed quit run_empty fuel acts) as (S1 & S2 & _ & S4).
  fold t in S1, S2, S4. specialize (S4 H1 H2 H3). split.
  - unfold chk_C05_partial. rewrite sok_C05_gen_split. fold chk_C05_shield_partial. rewrite S1, S4. reflexivity.
  - intros N. unfold chk_C05. rewrite sok_C05_gen_split. fold chk_C05_shield. rewrite (S2 N), S4. reflexivity.
Qed.

(* ================================================================ the other sessions of finding F16 *)
Module C05InEx.
Import C05Ex.
(* cx3: the asking entry is closed, its screen is scheduled again beneath the open modal screen *)
Definition cx3_specs := [ scr [] [] [(k1, ([SPushModal 1 0], RProcessed))];
                          quiet [SIfCount 1 [SPush 2 0] [SIfCount 2 [SSchedule 2 0] []]] [];
                          {| sc_setup := []; sc_refresh := []; sc_show := [SIfCount 1 [SCloseSig] []]; sc_closed := []; sc_input := [];
                             sc_input_default := ([], Some RProcessed); sc_prompt_none := false; sc_input_required := true;
                             sc_no_separator := false; sc_skip_check := false; sc_pages := 0; sc_answer0 := AnsNoAttr; sc_custom := []; sc_setup_cmds := [] |} ].
Definition cx3_typed := [Some k1; Some kx].
Definition cx3 := session cx3_specs cx3_typed start.
(* cx4: a prompt for a screen that was never drawn, then a modal screen above it *)
Definition cx4_specs := [ {| sc_setup := []; sc_refresh := [SIfCount 1 [SRedrawSig; SGetUserInput; SPushModal 2 0] []]; sc_show := [];
                             sc_closed := []; sc_input := [(k1, ([SPush 1 0], RDiscarded))];
                             sc_input_default := ([], Some RProcessed); sc_prompt_none := false; sc_input_required := true;
                             sc_no_separator := false; sc_skip_check := true; sc_pages := 0; sc_answer0 := AnsNoAttr; sc_custom := []; sc_setup_cmds := [] |};
                          scr [] [] []; quiet [] [] ].
Definition cx4_typed := [Some k1; Some kx].
Definition cx4 := session cx4_specs cx4_typed start.
(* cx5: _process_screen prompts for a screen whose entry was replaced while it was drawn *)
Definition cx5_specs := [ {| sc_setup := []; sc_refresh := []; sc_show := []; sc_closed := [];
                             sc_input := [(k2, ([SPush 1 0], RDiscarded)); ([51%N], ([SPush 1 7], RDiscarded))];
                             sc_input_default := ([], None); sc_prompt_none := true; sc_input_required := true;
                             sc_no_separator := false; sc_skip_check := false; sc_pages := 0; sc_answer0 := AnsNoAttr; sc_custom := []; sc_setup_cmds := [] |};
                          {| sc_setup := [true; false]; sc_refresh := [];
                             sc_show := [SIfCount 1 [SPushModal 1 0; SPush 0 0] [SIfCount 4 [SReplace 0 0] []]]; sc_closed := [];
                             sc_input := [(k2, ([], RKey [114%N]))];
                             sc_input_default := ([], Some RRedraw); sc_prompt_none := false; sc_input_required := true;
                             sc_no_separator := false; sc_skip_check := false; sc_pages := 0; sc_answer0 := AnsNoAttr; sc_custom := []; sc_setup_cmds := [] |} ].
Definition cx5_typed := [Some [114%N]; Some [114%N]; Some k2].
Definition cx5 := session cx5_specs cx5_typed [SACmds [SSchedule 0 0; SPush 1 0]; SARun].
(* cx6: the only level in which the asking screen is registered is closed while its request is pending *)
Definition cx6_specs := [ scr [] [] [(k1, ([SPush 1 0; SPushModal 2 0; SPushModal 3 0], RProcessed))];
                          scr [] [] [];
                          {| sc_setup := []; sc_refresh := []; sc_show := [SIfCount 1 [SCloseSig] []]; sc_closed := [SSchedRedraw]; sc_input := [];
                             sc_input_default := ([], Some RProcessed); sc_prompt_none := false; sc_input_required := false;
                             sc_no_separator := false; sc_skip_check := false; sc_pages := 0; sc_answer0 := AnsNoAttr; sc_custom := []; sc_setup_cmds := [] |};
                          quiet [] [] ].
Definition cx6_typed := [Some k1; Some kx].
Definition cx6 := session cx6_specs cx6_typed start.
Definition hyps3 (t : list event) := (no_stale_prompt t, no_orphan_prompt t, no_modal_during_prompt t).

(* ---- setup() with commands of its own ---- *)
Definition setup_scr (res : list bool) (cmds : list scmd) : screen_spec :=
  {| sc_setup := res; sc_refresh := []; sc_show := []; sc_closed := []; sc_input := [];
     sc_input_default := ([], None); sc_prompt_none := false; sc_input_required := true;
     sc_no_separator := false; sc_skip_check := false; sc_pages := 0; sc_answer0 := AnsNoAttr; sc_custom := [];
     sc_setup_cmds := cmds |}.
Definition fspecs (l : list screen_spec) : nat -> screen_spec := fun n => nth n l default_spec.
(* su1: input() of screen 0 opens the modal screen 1; setup() of screen 1 pushes screen 2 and then reports failure:
   the scheduler discards the entry of screen 2 (the top) and, the entry it set up being modal, stops its loop:
   push_screen_modal returns while screen 1 is still on the stack, its frame open *)
Definition su1_specs := [ scr [] [] [(k1, ([SPushModal 1 0], RProcessed))];
                          setup_scr [false; true] [SIfCount 1 [SPush 2 0] []];
                          scr [] [] [] ].
Definition su1_typed := map Some [k1; kc; kc; kc].
Definition su1 := session su1_specs su1_typed start.
(* su2: setup() of screen 0 opens the modal screen 1 (whose refresh() opens the modal screen 2), then pushes screen 2 *)
Definition su2_specs := [ setup_scr [] [SPushModal 1 0; SPush 2 0];
                          scr [SIfCount 1 [SPushModal 2 0] []] [] [];
                          scr [] [] [] ].
Definition su2_typed := map Some [kc; kc; kc; kc; kc].
Definition su2 := session su2_specs su2_typed start.
End C05InEx.
