(* ConcRoute.v — C19_routing: the routing loop of enqueue_signal runs under MainLoop._lock, appends and
   pops of _event_queues also take it; hence a submission whose source is registered at an open level
   is put into the innermost registered level, whatever the other threads do meanwhile. *)
From SL Require Import Tac.
From Coq Require Import Permutation.
From RecordUpdate Require Import RecordUpdate.
From SL Require Import Conc proofs.ConcProofs proofs.ConcLocks.
Import ListNotations.

(* ------------------------------------------------------------------ monotone facts of every step *)
Lemma has_pair_add : forall m q o q' o', has_pair m q' o' = true -> has_pair (add_src m q o) q' o' = true.
Proof.
  intros. unfold add_src. destruct (has_pair m q o); [assumption|].
  unfold has_pair in *. cbn [existsb]. rewrite H. apply orb_true_r.
Qed.

Definition fqinv (st : cstate) : Prop :=
  forall t th, nth_error (c_thr st) t = Some th -> t_pc th = PFClear -> h_fq (c_sh st) = true.

Lemma tstep_mono : forall u th h th' h', tstep u th h = Some (th', h') ->
  (h_fq h = true -> h_fq h' = true) /\
  (h_evq h' = h_evq h \/ mlocked (t_pc th) = true \/ t_pc th = PFClear) /\
  (forall q o, has_pair (h_src h) q o = true -> has_pair (h_src h') q o = true) /\
  (exists l, h_putlog h' = l ++ h_putlog h) /\
  (t_pc th' = PFClear -> h_fq h' = true) /\
  length (t_prog th') <= length (t_prog th) /\
  (t_pc th = P0 -> length (t_prog th') < length (t_prog th)).
Proof.
  intros u [prog p] h th' h' H. inv_tstep H.
  all: unfold dispatched, lbl, mk; cbn [t_pc t_prog mlocked h_fq h_evq h_src h_putlog set length].
  all: repeat split; auto; try discriminate; try lia.
  all: try (exists []; reflexivity).
  all: try (eexists [_]; reflexivity).
  all: try (intros; apply has_pair_add; assumption).
  all: try (destruct b; discriminate).
  all: try (match goal with |- context [match ?l with [] => _ | _ :: _ => _ end] => destruct l end; discriminate).
Qed.

Lemma fqinv_step : forall t st, fqinv st -> fqinv (step t st).
Proof.
  intros t st F. destruct (step_cases t st) as [E|(l1 & th & l2 & th' & h' & Hl & Hn & Ht & E)].
  { now rewrite E. }
  rewrite E. destruct st as [thr h]. cbn [c_thr c_sh] in *. subst thr.
  destruct (tstep_mono _ _ _ _ _ Ht) as (A & _ & _ & _ & B & _).
  intros n thn Hnth Hpc. cbn [c_thr c_sh] in *. rewrite (nth_error_upd_mid l1 th) in Hnth.
  destruct (n =? length l1).
  - inversion Hnth; subst. auto.
  - apply A. eapply F; eauto.
Qed.

Lemma fqinv_reach : forall progs sch, fqinv (steps sch (init progs)).
Proof.
  intros. apply steps_inv; [apply fqinv_step|].
  intros t th H Hp. rewrite (init_nth _ _ _ H) in Hp. discriminate.
Qed.

(* ------------------------------------------------------------------ the tracked submission *)
Section Route.
  Variables (t : nat) (s : sig) (o : nat) (n0 : nat) (lv : list nat) (src0 : list (nat * nat)).
  Hypothesis Hsrc : s_src s = Some o.

  (* no level of index >= k owns the source (in the registrations of the starting state) *)
  Definition above_clear (k : nat) : Prop :=
    forall j q', k <= j -> nth_error lv j = Some q' -> has_pair src0 q' o = false.
  Definition goal_q (h : shared) (q : nat) : Prop :=
    (exists i, nth_error lv i = Some q /\ above_clear (S i)) /\ has_pair (h_src h) q o = true.
  Definition done (h : shared) : Prop :=
    above_clear 0 \/ exists q c, In (t, (q, (s_prio s, c, s_id s))) (h_putlog h) /\ goal_q h q.

  Definition track_e (e : epc) (h : shared) : Prop :=
    match e with
    | EMkIter => h_evq h = lv
    | ENext k => h_evq h = lv /\ k <= length lv /\ above_clear k
    | EAcqQ q i | ETest q i => h_evq h = lv /\ nth_error lv i = Some q /\ above_clear (S i)
    | ERelQ q i b => h_evq h = lv /\ nth_error lv i = Some q /\ above_clear (S i) /\
                     (if b then has_pair (h_src h) q o = true else has_pair src0 q o = false)
    | ECnt q true | EPut q _ true => goal_q h q
    | ERelMDone => done h
    | ERelMFb | ELoadAct | ECnt _ false | EPut _ _ false => above_clear 0
    | EFq | EAcqM => False
    end.

  Definition track (th : thread) (h : shared) : Prop :=
    h_fq h = true \/
    (length (t_prog th) < n0 /\ done h) \/
    (length (t_prog th) = n0 /\
     match t_pc th with
     | P0 => done h
     | PE s' e => s' = s /\ track_e e h
     | _ => False
     end).

  Definition smon (h : shared) : Prop := forall q o', has_pair src0 q o' = true -> has_pair (h_src h) q o' = true.

  Lemma goal_q_mono : forall h h' q, (forall q o, has_pair (h_src h) q o = true -> has_pair (h_src h') q o = true) ->
    goal_q h q -> goal_q h' q.
  Proof. intros h h' q M [A B]. split; auto. Qed.

  Lemma done_mono : forall h h',
    (forall q o, has_pair (h_src h) q o = true -> has_pair (h_src h') q o = true) ->
    (exists l, h_putlog h' = l ++ h_putlog h) -> done h -> done h'.
  Proof.
    intros h h' M (l & P) [D|(q & c & I & G)]; [left; exact D|right].
    exists q, c. split; [rewrite P; apply in_or_app; right; exact I|]. eapply goal_q_mono; eauto.
  Qed.

  Lemma above_clear_step : forall i q, nth_error lv i = Some q -> above_clear (S i) -> has_pair src0 q o = false ->
    above_clear i.
  Proof.
    intros i q Hq A B j q' Hj Hn. destruct (Nat.eq_dec j i) as [->|Ne].
    - rewrite Hq in Hn. inversion Hn; subst. exact B.
    - apply (A j q'); [lia|exact Hn].
  Qed.

  (* the tracked thread's own step *)
  Lemma track_own : forall th h th' h', tstep t th h = Some (th', h') -> smon h -> track th h -> track th' h'.
  Proof.
    intros th h th' h' Ht S T.
    destruct (tstep_mono _ _ _ _ _ Ht) as (Mf & _ & Ms & Mp & _ & Ml & Ml0).
    destruct T as [F|[(L & D)|(L & T)]].
    { left. auto. }
    { right; left. split; [lia|]. eapply done_mono; eauto. }
    destruct th as [prog p]. cbn [t_pc t_prog] in *.
    destruct p; try contradiction.
    { right; left. split; [specialize (Ml0 eq_refl); lia|]. eapply done_mono; eauto. }
    destruct T as (-> & T).
    unfold tstep, cont, enq in Ht. cbn [t_pc t_prog] in Ht.
    destruct e; cbn [track_e] in T; try contradiction; unfold estep in Ht.
    - (* EMkIter *) inversion Ht; subst; clear Ht. right; right. cbn [mk t_pc t_prog]. split; [exact L|].
      split; [reflexivity|]. cbn [track_e lbl h_evq set]. rewrite T. repeat split; auto.
      intros j q' Hj Hn. assert (nth_error lv j <> None) by congruence. apply nth_error_Some in H. lia.
    - (* ENext *) destruct T as (Te & Tk & Ta). destruct k as [|i].
      + inversion Ht; subst; clear Ht. right; right. cbn. repeat split; auto.
      + rewrite Te in Ht. destruct (nth_error lv i) as [q|] eqn:En.
        * inversion Ht; subst; clear Ht. right; right. cbn. repeat split; auto.
        * apply nth_error_None in En. lia.
    - (* EAcqQ *) destruct T as (Te & Tn & Ta). destruct (aget (h_qlock h) q); [|discriminate].
      inversion Ht; subst; clear Ht. right; right. cbn. repeat split; auto.
    - (* ETest *) destruct T as (Te & Tn & Ta). inversion Ht; subst; clear Ht. right; right.
      cbn [mk t_pc t_prog]. split; [exact L|]. split; [reflexivity|].
      cbn [track_e lbl h_evq h_src set]. repeat split; auto.
      rewrite Hsrc. cbn [has_src]. destruct (has_pair (h_src h) q o) eqn:Eb; [reflexivity|].
      destruct (has_pair src0 q o) eqn:E0; [|reflexivity]. apply S in E0. congruence.
    - (* ERelQ *) destruct T as (Te & Tn & Ta & Tb). inversion Ht; subst; clear Ht. right; right.
      cbn [mk t_pc t_prog]. split; [exact L|]. split; [reflexivity|]. destruct b; cbn [track_e lbl h_evq h_src set].
      + split; eauto.
      + repeat split; auto.
        * assert (nth_error lv i <> None) by congruence. apply nth_error_Some in H. lia.
        * eapply above_clear_step; eauto.
    - (* ECnt *) inversion Ht; subst; clear Ht. right; right.
      cbn [mk t_pc t_prog]. split; [exact L|]. split; [reflexivity|]. destruct locked; cbn [track_e]; exact T.
    - (* EPut *) destruct locked; inversion Ht; subst; clear Ht.
      + right; right. cbn [mk t_pc t_prog]. split; [exact L|]. split; [reflexivity|]. cbn [track_e].
        right. exists q, c. split; [cbn; left; reflexivity|]. exact T.
      + right; right. cbn [mk t_pc t_prog]. split; [exact L|]. left. exact T.
    - (* ERelMDone *) inversion Ht; subst; clear Ht. right; right. cbn [mk t_pc t_prog]. split; [exact L|].
      eapply done_mono; [| |exact T]; cbn; eauto; exists []; reflexivity.
    - (* ERelMFb *) inversion Ht; subst; clear Ht. right; right. cbn. auto.
    - (* ELoadAct *) inversion Ht; subst; clear Ht. right; right. cbn. auto.
  Qed.

  (* the tracked thread holds MainLoop._lock wherever the invariant speaks about _event_queues *)
  Lemma track_other : forall th h h',
    (h_fq h = true -> h_fq h' = true) ->
    (h_evq h' = h_evq h \/ mlocked (t_pc th) = false \/ h_fq h' = true) ->
    (forall q o, has_pair (h_src h) q o = true -> has_pair (h_src h') q o = true) ->
    (exists l, h_putlog h' = l ++ h_putlog h) ->
    track th h -> track th h'.
  Proof.
    intros th h h' Mf Me Ms Mp [F|[(L & D)|(L & T)]].
    { left; auto. }
    { right; left. split; auto. eapply done_mono; eauto. }
    destruct Me as [Me|[Me|Me]]; [| |left; exact Me].
    - right; right. split; [exact L|]. destruct (t_pc th); try contradiction.
      + eapply done_mono; eauto.
      + destruct T as (-> & T). split; [reflexivity|].
        destruct e; cbn [track_e] in *; rewrite ?Me; auto.
        * destruct T as (A & B & C & D). repeat split; auto. destruct b; auto.
        * destruct locked; auto. eapply goal_q_mono; eauto.
        * destruct locked; auto. eapply goal_q_mono; eauto.
        * eapply done_mono; eauto.
    - right; right. split; [exact L|]. destruct (t_pc th); try contradiction.
      + eapply done_mono; eauto.
      + destruct T as (-> & T). split; [reflexivity|].
        destruct e; cbn [track_e mlocked] in *; try discriminate Me; auto.
        * destruct locked; [discriminate|auto].
        * destruct locked; [discriminate|auto].
  Qed.

  Definition rinv (st : cstate) : Prop :=
    minv st /\ fqinv st /\ smon (c_sh st) /\ exists th, nth_error (c_thr st) t = Some th /\ track th (c_sh st).

  Lemma rinv_step : forall u st, rinv st -> rinv (step u st).
  Proof.
    intros u st (M & F & S & th & Hth & T).
    split; [apply minv_step; exact M|]. split; [apply fqinv_step; exact F|].
    destruct (step_cases u st) as [E|(l1 & thu & l2 & thu' & h' & Hl & Hn & Ht & E)].
    { rewrite E. eauto. }
    rewrite E. destruct st as [thr h]. cbn [c_thr c_sh] in *. subst thr.
    destruct (tstep_mono _ _ _ _ _ Ht) as (Mf & Me & Ms & Mp & _).
    split; [intros q o' H; apply Ms, S, H|].
    rewrite (nth_error_upd_mid l1 thu). destruct (t =? length l1) eqn:Et.
    - apply Nat.eqb_eq in Et. exists thu'. split; [reflexivity|].
      rewrite Et, nth_error_mid in Hth. inversion Hth; subst thu. rewrite <- Hn in Ht. rewrite <- Et in Ht.
      eapply track_own; eauto.
    - apply Nat.eqb_neq in Et.
      exists th. split; [exact Hth|].
      eapply track_other; eauto.
      destruct Me as [Me|[Me|Me]]; auto.
      + (* the stepping thread holds the main lock: the tracked one does not *)
        right; left. destruct (mlocked (t_pc th)) eqn:Lt; [|reflexivity]. exfalso.
        destruct M as [M1 _]. cbn [c_thr c_sh] in M1.
        pose proof (proj1 (M1 _ _ Hth) Lt) as X1.
        assert (Hu : nth_error (l1 ++ thu :: l2) (length l1) = Some thu) by apply nth_error_mid.
        pose proof (proj1 (M1 _ _ Hu) Me) as X2. rewrite X1 in X2. inversion X2. congruence.
      + (* force_quit's clear: _force_quit is already set *)
        right; right. apply Mf. eapply (F (length l1)); [apply nth_error_mid|exact Me].
  Qed.
End Route.

Theorem routing : forall progs sch0 sch t prog s o,
  let st0 := steps sch0 (init progs) in
  nth_error (c_thr st0) t = Some (mk prog (PE s EMkIter)) -> s_src s = Some o ->
  let lv := h_evq (c_sh st0) in
  let src0 := h_src (c_sh st0) in
  let st := steps sch st0 in
  forall th, nth_error (c_thr st) t = Some th ->
  h_fq (c_sh st) = false ->
  (length (t_prog th) < length prog \/ t_pc th = P0) ->
  (exists i q, nth_error lv i = Some q /\ has_pair src0 q o = true) ->
  exists q c i, In (t, (q, (s_prio s, c, s_id s))) (h_putlog (c_sh st)) /\
    nth_error lv i = Some q /\ has_pair (h_src (c_sh st)) q o = true /\
    (forall j q', i < j -> nth_error lv j = Some q' -> has_pair src0 q' o = false).
Proof.
  intros progs sch0 sch t prog s o st0 H0 Hs lv src0 st th Hth Hfq Hdone (i0 & q0 & Hi0 & Hq0).
  assert (R : rinv t s o (length prog) lv src0 st).
  { unfold st. apply steps_inv; [intros; apply rinv_step; assumption|].
    split; [apply minv_reach|]. split; [apply fqinv_reach|]. split; [intros q o' H; exact H|].
    eexists. split; [exact H0|]. right; right. cbn. auto. }
  destruct R as (_ & _ & _ & th' & Hth' & T). rewrite Hth in Hth'. inversion Hth'; subst th'.
  assert (D : done t s o lv src0 (c_sh st)).
  { destruct T as [F|[(L & D)|(L & T)]]; [congruence|exact D|].
    destruct Hdone as [Hl|Hp]; [lia|]. rewrite Hp in T. exact T. }
  destruct D as [D|(q & c & I & (i & Hi & A) & B)].
  - specialize (D i0 q0 (Nat.le_0_l _) Hi0). congruence.
  - exists q, c, i. split; [exact I|]. split; [exact Hi|]. split; [exact B|]. intros j q' Hj. apply A. lia.
Qed.
