(* C18Proofs.v — (worker s2) "one outstanding input request unless bypassed; bypass hands off cleanly".
   The acceptor chk_C18 accepts every well-formed session (projection of proofs/InputLink.v [all_accepted]). *)
From SL Require Import Tac.
From SL Require Import PyInt LoopSem ScreenSem ScreenMon proofs.InputLink.
Import ListNotations.

Lemma chk_all_C18 fresh quit nosep w e : chk_all fresh quit nosep w e = true -> chk_C18 w e = true.
Proof.
  unfold chk_all, mchk_all. intros H. rewrite chk18_abs.
  apply andb_true_iff in H. destruct H as [H _]. apply andb_true_iff in H. destruct H as [H _].
  apply andb_true_iff in H. destruct H as [_ H]. exact H.
Qed.

Theorem input_requests specs specl typed quit run_empty fuel acts :
  (forall n, specs n = nth n specl default_spec) -> wf_session specl quit acts = true ->
  sok chk_C18 typed (rev (trace (snd (app_run_all specs specl typed quit run_empty fuel acts)))) = true.
Proof.
  intros HS WF. eapply sok_weaken; [apply chk_all_C18|].
  apply (all_accepted false specs specl typed quit run_empty fuel acts HS WF).
Qed.

(* ---- every requester is answered at most once *)
Lemma chk_all_once quit nosep w e : chk_all true quit nosep w e = true -> chk_once w e = true.
Proof.
  unfold chk_all, mchk_all. intros H. rewrite chk_once_abs.
  apply andb_true_iff in H. destruct H as [_ H]. cbn [negb] in H. rewrite orb_false_r in H. exact H.
Qed.

(* when the application has no InputHandler objects of its own - every request has a fresh handler, which is all the
   framework itself ever does through InputManager - no handler gets a second ready signal *)
Theorem answered_once specs specl typed quit run_empty fuel acts :
  (forall n, specs n = nth n specl default_spec) -> wf_session specl quit acts = true ->
  no_handler_objects specl acts = true ->
  sok chk_once typed (rev (trace (snd (app_run_all specs specl typed quit run_empty fuel acts)))) = true.
Proof.
  intros HS WF NO. eapply sok_weaken; [apply chk_all_once|].
  apply (all_accepted true specs specl typed quit run_empty fuel acts HS).
  apply wf_session_fresh; assumption.
Qed.

(* for reused handler objects "once" is per REQUEST: an accepted ready signal consumes exactly one entry of the
   hand-off list - the one it matches *)
Lemma ready_consumes_entry w n ok t : chk_C18 w (EUser T_READY [n; ok] t) = true ->
  exists x, fst (fst x) = n /\ snd (fst x) = (ok =? 1)%nat /\ streq (snd x) t = true /\
            Permutation.Permutation (sw_handoff w) (x :: sw_handoff (sworld_step w (EUser T_READY [n; ok] t))).
Proof.
  unfold chk_C18. cbn [Nat.eqb T_PROMPT T_REFUSED T_READY nth0 nth]. intros H.
  apply existsb_exists in H. destruct H as (x & I & H). exists x.
  assert (M : rmatch n (ok =? 1)%nat t x = true) by exact H.
  apply rmatch_spec in M.
  apply andb_true_iff in H. destruct H as [H H3]. apply andb_true_iff in H. destruct H as [H1 H2].
  apply Nat.eqb_eq in H1. apply eqb_prop in H2. repeat split; auto.
  assert (E : sw_handoff (sworld_step w (EUser T_READY [n; ok] t)) = remove_first (rmatch n (ok =? 1)%nat t) (sw_handoff w)).
  { change (sw_handoff (sworld_step w (EUser T_READY [n; ok] t))) with (m_hand (absw (sworld_step w (EUser T_READY [n; ok] t)))).
    rewrite abs_step. cbn. match goal with |- context [if ?c then _ else _] => destruct c end;
      [destruct (alookup n (sw_req w)) as [[scr ar]|]|]; reflexivity. }
  rewrite E. apply remove_first_perm; [exact I| |].
  - apply rmatch_spec. exact M.
  - intros y Hy. apply rmatch_spec in Hy. congruence.
Qed.

(* what the application sees after wait_on_input() *)
Lemma C18_waited_meaning w h n ok hv t : chk_C18 w (EUser T_WAITED [h; n; ok; hv] t) = true ->
  exists b v, alookup n (sw_last w) = Some (Some (b, v)) /\ b = (ok =? 1)%nat /\
              (b = true -> hv = 1 /\ streq v t = true).
Proof.
  unfold chk_C18. cbn [Nat.eqb T_PROMPT T_REFUSED T_READY T_GOT T_WAITED nth0 nth]. intros H.
  destruct (alookup n (sw_last w)) as [[[b v]|]|]; try discriminate H. exists b, v. split; [reflexivity|].
  apply andb_true_iff in H. destruct H as [H1 H2]. apply eqb_prop in H1. split; [exact H1|].
  intros ->. cbn [negb orb] in H2. apply andb_true_iff in H2. destruct H2 as [A B]. apply Nat.eqb_eq in A. auto.
Qed.

(* the handlers that got a ready signal are never forgotten ... *)
Lemma recv_mono_user m tag a t n : mem n (m_recv m) = true -> mem n (m_recv (muser m tag a t)) = true.
Proof.
  intros H. unfold muser.
  destruct (tag =? T_OP)%nat; [exact H|].
  destruct (tag =? T_STACK)%nat.
  { destruct (nth0 a 0 =? K_APPEND)%nat; [|destruct (nth0 a 0 =? K_ADD_FIRST)%nat]; exact H. }
  destruct (tag =? T_MODAL_RETURN)%nat; [exact H|].
  destruct (tag =? T_REQ)%nat; [exact H|].
  destruct (tag =? T_PROMPT)%nat; [destruct (nth0 a 1 =? 0)%nat; exact H|].
  destruct (tag =? T_READY)%nat.
  { cbn. match goal with |- context [if ?c then _ else _] => destruct c end;
      [destruct (alookup (nth0 a 0) (m_req m)) as [[scr ar]|]|]; cbn; unfold mem in H; rewrite H; apply orb_true_r. }
  destruct (tag =? T_INPUT)%nat; [exact H|].
  destruct (tag =? T_ACTION)%nat; exact H.
Qed.
Lemma recv_mono_step w e n : mem n (sw_received w) = true -> mem n (sw_received (sworld_step w e)) = true.
Proof.
  change (sw_received w) with (m_recv (absw w)). change (sw_received (sworld_step w e)) with (m_recv (absw (sworld_step w e))).
  rewrite abs_step. generalize (absw w). intros m H. destruct e; try exact H; try (apply recv_mono_user, H); cbn [mstep].
  - destruct (m_follow m) as [[| [|?] | | | | |]|]; try exact H; destruct (cls =? CLS_RENDER)%nat; exact H.
  - destruct (m_follow m) as [[| [|[|?]] | | | | |]|]; exact H.
  - destruct (m_follow m) as [[| [|[|?]] | | | | |]|]; exact H.
  - destruct (hid =? H_RECEIVED)%nat; [|exact H]. destruct (m_istack m); exact H.
Qed.
Lemma recv_mono_fold t : forall w n, mem n (sw_received w) = true -> mem n (sw_received (fold_left sworld_step t w)) = true.
Proof. induction t as [|e r IH]; intros w n H; cbn; [exact H|]. apply IH, recv_mono_step, H. Qed.

Lemma srun_mon_head chk t1 e t2 : forall w i, srun_mon chk w (t1 ++ e :: t2) i = None ->
  chk (fold_left sworld_step t1 w) e = true.
Proof.
  induction t1 as [|x r IH]; intros w i H; cbn in H |- *.
  - destruct (chk w e); [reflexivity|discriminate H].
  - destruct (chk w x); [apply (IH _ _ H)|discriminate H].
Qed.

(* ... so an accepted trace contains no second ready signal for the same handler *)
Theorem no_second_ready typed t1 n a1 x1 t2 a2 x2 t3 :
  sok chk_once typed (t1 ++ EUser T_READY (n :: a1) x1 :: t2 ++ EUser T_READY (n :: a2) x2 :: t3) = true -> False.
Proof.
  intros H. unfold sok in H.
  destruct (srun_mon chk_once (sworld0 typed) (t1 ++ EUser T_READY (n :: a1) x1 :: t2 ++ EUser T_READY (n :: a2) x2 :: t3) 0) eqn:E; [discriminate H|].
  change (t1 ++ EUser T_READY (n :: a1) x1 :: t2 ++ EUser T_READY (n :: a2) x2 :: t3)
    with (t1 ++ (EUser T_READY (n :: a1) x1 :: t2) ++ EUser T_READY (n :: a2) x2 :: t3) in E.
  rewrite app_assoc in E. apply srun_mon_head in E. rewrite fold_left_app in E. cbn [fold_left] in E.
  set (w1 := fold_left sworld_step t1 (sworld0 typed)) in *.
  assert (M : mem n (sw_received (sworld_step w1 (EUser T_READY (n :: a1) x1))) = true).
  { change (sw_received (sworld_step w1 (EUser T_READY (n :: a1) x1))) with (m_recv (absw (sworld_step w1 (EUser T_READY (n :: a1) x1)))).
    rewrite abs_step. cbn. match goal with |- context [if ?c then _ else _] => destruct c end;
      [destruct (alookup n (sw_req w1)) as [[scr ar]|]|]; cbn; rewrite Nat.eqb_refl; reflexivity. }
  pose proof (recv_mono_fold t2 _ _ M) as M2.
  unfold chk_once in E. cbn [T_READY Nat.eqb nth0 nth] in E. rewrite M2 in E. discriminate E.
Qed.

(* ---- what acceptance means, clause by clause *)
Lemma C18_refused_meaning w ids t : chk_C18 w (EUser T_REFUSED ids t) = true ->
  sw_istack w <> [] /\ exists n, ids = rev (sw_istack w) ++ [n].
Proof.
  unfold chk_C18. cbn [Nat.eqb T_REFUSED]. intros H.
  apply andb_true_iff in H. destruct H as [H H3]. apply andb_true_iff in H. destruct H as [H1 H2].
  apply negb_true_iff, Nat.eqb_neq in H1. apply Nat.eqb_eq in H2.
  split; [destruct (sw_istack w); [contradiction|discriminate]|].
  destruct (exists_last (l := ids)) as (pre & n & ->); [destruct ids; [discriminate|discriminate]|].
  exists n. f_equal. rewrite removelast_last in H3. rewrite app_length in H2. cbn in H2.
  assert (L : length pre = length (rev (sw_istack w))) by (rewrite rev_length; lia).
  revert H3 L. generalize (rev (sw_istack w)). clear. induction pre as [|x r IH]; intros [|y l] H L; try discriminate; [reflexivity|].
  cbn in H. apply andb_true_iff in H. destruct H as [E H]. apply Nat.eqb_eq in E. cbn in E. subst y. f_equal. apply IH; [exact H|]. cbn in L. lia.
Qed.

Lemma C18_prompt_meaning w n k t : chk_C18 w (EUser T_PROMPT [n; k] t) = true -> (k = 0 <-> sw_processing w = false).
Proof.
  unfold chk_C18. cbn [Nat.eqb T_PROMPT T_REFUSED nth0 nth]. intros H. apply eqb_prop in H.
  destruct (sw_processing w); cbn in H; split; intros X; try discriminate; try reflexivity.
  - subst k. discriminate H. - apply Nat.eqb_eq, H.
Qed.

Lemma C18_ready_meaning w n ok t : chk_C18 w (EUser T_READY [n; ok] t) = true ->
  exists x, In x (sw_handoff w) /\ fst (fst x) = n /\ snd (fst x) = (ok =? 1)%nat /\ streq (snd x) t = true.
Proof.
  unfold chk_C18. cbn [Nat.eqb T_PROMPT T_REFUSED T_READY nth0 nth]. intros H.
  apply existsb_exists in H. destruct H as (x & I & H). exists x. split; [exact I|].
  apply andb_true_iff in H. destruct H as [H H3]. apply andb_true_iff in H. destruct H as [H1 H2].
  apply Nat.eqb_eq in H1. apply eqb_prop in H2. auto.
Qed.

Lemma C18_got_meaning w scr n t : chk_C18 w (EUser T_GOT [scr; n] t) = true -> In n (sw_received w).
Proof.
  unfold chk_C18. cbn [Nat.eqb T_PROMPT T_REFUSED T_READY T_GOT nth0 nth]. unfold mem. intros H.
  apply existsb_exists in H. destruct H as (x & I & E). apply Nat.eqb_eq in E. subst x. exact I.
Qed.

(* ---- example sessions: a screen that redraws itself twice while its prompt is outstanding *)
Definition ex18_spec (skip : bool) : screen_spec :=
  {| sc_setup := []; sc_refresh := []; sc_show := [SIfCount 2 [SRedrawSig] []]; sc_closed := [];
     sc_input := [([49%N], ([], RRedraw))];
     sc_input_default := ([], None); sc_prompt_none := false; sc_input_required := true;
     sc_no_separator := false; sc_skip_check := skip; sc_pages := 0; sc_answer0 := AnsNoAttr; sc_custom := []; sc_setup_cmds := [] |}.
Definition ex18_typed : list (option str) := [Some [49%N]; Some [50%N]; None].
Definition ex18_acts : list saction := [SACmds [SSchedule 0 0]; SARun].
Definition ex18_run (skip : bool) :=
  app_run_all (fun n => nth n [ex18_spec skip] default_spec) [ex18_spec skip] ex18_typed None false 2000 ex18_acts.
Definition ex18_trace (skip : bool) : list event := rev (trace (snd (ex18_run skip))).
Definition user_events (tag : nat) (t : list event) : list (list nat * str) :=
  flat_map (fun e => match e with EUser tg a x => if (tg =? tag)%nat then [(a, x)] else [] | _ => [] end) t.

(* ---- the application's own InputHandler objects, type-ahead *)
Definition ex18h_run (acts : list saction) (typed : list (option str)) :=
  app_run_all (fun n => nth n [ex18_spec true] default_spec) [ex18_spec true] typed None false 2000 acts.
Definition ex18h_trace acts typed : list event := rev (trace (snd (ex18h_run acts typed))).
(* one object asks, waits, asks again, waits again: two requests, two answers *)
Definition ex18h_acts1 : list saction :=
  [SACmds [SSetTypeAhead true; SHandlerAsk 0 true; SHandlerWait 0; SHandlerAsk 0 true; SHandlerWait 0]].
Definition ex18h_typed1 : list (option str) := [Some [97%N]; Some [98%N]].
(* the user types ahead; three objects ask one after the other (check bypassed) before anything is processed; the most
   recent one is answered, the two earlier ones fail; then object 0 asks again and is superseded by object 1 *)
Definition ex18h_acts2 : list saction :=
  [SACmds [SSetTypeAhead true; SHandlerAsk 0 true; SHandlerAsk 1 true; SHandlerAsk 2 true;
           SHandlerWait 2; SHandlerWait 0; SHandlerWait 1;
           SHandlerAsk 0 true; SHandlerAsk 1 true; SHandlerWait 0; SHandlerWait 1]].
Definition ex18h_typed2 : list (option str) := [Some [97%N]; Some [98%N]; Some [99%N]].
