(* C18Proofs.v — (worker s2) "one outstanding input request unless bypassed; bypass hands off cleanly".
   The acceptor chk_C18 accepts every well-formed session (projection of proofs/InputLink.v [all_accepted]). *)
From SL Require Import Tac.
From SL Require Import PyInt LoopSem ScreenSem ScreenMon proofs.InputLink.
Import ListNotations.

Lemma chk_all_C18 strict quit nosep w e : chk_all strict quit nosep w e = true -> chk_C18 w e = true.
Proof.
  unfold chk_all, mchk_all. intros H. rewrite chk18_abs.
  apply andb_true_iff in H. destruct H as [H _]. apply andb_true_iff in H. destruct H as [_ H]. exact H.
Qed.

Theorem input_requests specs specl typed quit run_empty fuel acts :
  (forall n, specs n = nth n specl default_spec) -> wf_session specl quit acts = true ->
  sok chk_C18 typed (rev (trace (snd (app_run_all specs specl typed quit run_empty fuel acts)))) = true.
Proof.
  intros HS WF. eapply sok_weaken; [apply chk_all_C18|].
  apply (all_accepted false (fun _ => 0) specs specl typed quit run_empty fuel acts HS WF).
Qed.

(* ---- what acceptance means, clause by clause *)
Lemma C18_refused_meaning w ids t : chk_C18 w (EUser T_REFUSED ids t) = true ->
  sw_istack w <> [] /\ exists n, ids = rev (sw_istack w) ++ [n].
Proof.
  unfold chk_C18. cbn [Nat.eqb T_REFUSED]. intros H.
  apply andb_true_iff in H. destruct H as [H H3]. apply andb_true_iff in H. destruct H as [H1 H2].
  apply negb_true_iff, Nat.eqb_neq in H1. apply Nat.eqb_eq in H2.
  split; [destruct (sw_istack w); [contradiction|discriminate]|].
  destruct (exists_last (l := ids)) as (pre & n & ->); [destruct ids; [discriminate|discriminate]|].
  exists n. f_equal. rewrite removelast_last in H3. rewrite app_length in H2. cbn in H2.
  assert (L : length pre = length (rev (sw_istack w))) by (rewrite rev_length; lia).
  revert H3 L. generalize (rev (sw_istack w)). clear. induction pre as [|x r IH]; intros [|y l] H L; try discriminate; [reflexivity|].
  cbn in H. apply andb_true_iff in H. destruct H as [E H]. apply Nat.eqb_eq in E. cbn in E. subst y. f_equal. apply IH; [exact H|]. cbn in L. lia.
Qed.

Lemma C18_prompt_meaning w n k t : chk_C18 w (EUser T_PROMPT [n; k] t) = true -> (k = 0 <-> sw_processing w = false).
Proof.
  unfold chk_C18. cbn [Nat.eqb T_PROMPT T_REFUSED nth0 nth]. intros H. apply eqb_prop in H.
  destruct (sw_processing w); cbn in H; split; intros X; try discriminate; try reflexivity.
  - subst k. discriminate H. - apply Nat.eqb_eq, H.
Qed.

Lemma C18_ready_meaning w n ok t : chk_C18 w (EUser T_READY [n; ok] t) = true ->
  exists x, In x (sw_handoff w) /\ fst (fst x) = n /\ snd (fst x) = (ok =? 1)%nat /\ streq (snd x) t = true.
Proof.
  unfold chk_C18. cbn [Nat.eqb T_PROMPT T_REFUSED T_READY nth0 nth]. intros H.
  apply existsb_exists in H. destruct H as (x & I & H). exists x. split; [exact I|].
  apply andb_true_iff in H. destruct H as [H H3]. apply andb_true_iff in H. destruct H as [H1 H2].
  apply Nat.eqb_eq in H1. apply eqb_prop in H2. auto.
Qed.

Lemma C18_got_meaning w scr n t : chk_C18 w (EUser T_GOT [scr; n] t) = true -> In n (sw_received w).
Proof.
  unfold chk_C18. cbn [Nat.eqb T_PROMPT T_REFUSED T_READY T_GOT nth0 nth]. unfold mem. intros H.
  apply existsb_exists in H. destruct H as (x & I & E). apply Nat.eqb_eq in E. subst x. exact I.
Qed.

(* ---- example sessions: a screen that redraws itself twice while its prompt is outstanding *)
Definition ex18_spec (skip : bool) : screen_spec :=
  {| sc_setup := []; sc_refresh := []; sc_show := [SIfCount 2 [SRedrawSig] []]; sc_closed := [];
     sc_input := [([49%N], ([], RRedraw))];
     sc_input_default := ([], None); sc_prompt_none := false; sc_input_required := true;
     sc_no_separator := false; sc_skip_check := skip; sc_pages := 0 |}.
Definition ex18_typed : list (option str) := [Some [49%N]; Some [50%N]; None].
Definition ex18_acts : list saction := [SACmds [SSchedule 0 0]; SARun].
Definition ex18_run (skip : bool) :=
  app_run_all (fun n => nth n [ex18_spec skip] default_spec) [ex18_spec skip] ex18_typed None false 2000 ex18_acts.
Definition ex18_trace (skip : bool) : list event := rev (trace (snd (ex18_run skip))).
Definition user_events (tag : nat) (t : list event) : list (list nat * str) :=
  flat_map (fun e => match e with EUser tg a x => if (tg =? tag)%nat then [(a, x)] else [] | _ => [] end) t.
