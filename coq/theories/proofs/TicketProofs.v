(* TicketProofs.v — the TicketMachine (LoopSem.tmachine) seen as a finite map (line, id) -> flag,
   and its behaviour on every sequence of operations (property C10, worker c10). *)
From SL Require Import Tac.
From SL Require Import LoopSem LegacyTicket.
From RecordUpdate Require Import RecordUpdate.
Import ListNotations.

(* ------------------------------------------------------------------ the abstraction *)
(* the flag of ticket [id] in line [line]: None = no such ticket (KeyError) *)
Definition tflag (tm : tmachine) (line id : nat) : option bool :=
  match line_get (tm_lines tm) line with
  | Some ts => option_map snd (find (fun p => (fst p =? id)%nat) ts)
  | None => None
  end.

(* what a successful check leaves behind *)
Definition tpop (tm : tmachine) (line id : nat) : tmachine :=
  tm <| tm_lines := line_update (tm_lines tm) line (filter (fun p => negb (fst p =? id)%nat)) false |>.

(* every ticket ever handed out is below the counter *)
Definition tm_wf (tm : tmachine) : Prop :=
  forall line id b, tflag tm line id = Some b -> id < tm_counter tm.

Lemma line_get_update_same ls l f c :
  line_get (line_update ls l f c) l =
  match line_get ls l with Some ts => Some (f ts) | None => if c then Some (f []) else None end.
Proof.
  unfold line_get. induction ls as [|[l0 ts] r IH]; cbn [line_update find].
  - destruct c; cbn; [rewrite Nat.eqb_refl|]; reflexivity.
  - destruct (l0 =? l)%nat eqn:E; cbn [find fst]; rewrite E; [reflexivity|exact IH].
Qed.

Lemma line_get_update_other ls l l' f c :
  l' <> l -> line_get (line_update ls l f c) l' = line_get ls l'.
Proof.
  intros Hne. unfold line_get. induction ls as [|[l0 ts] r IH]; cbn [line_update find].
  - destruct c; cbn; [|reflexivity].
    destruct (l =? l')%nat eqn:E; [apply Nat.eqb_eq in E; congruence|reflexivity].
  - destruct (l0 =? l)%nat eqn:E; cbn [find fst].
    + apply Nat.eqb_eq in E; subst l0.
      destruct (l =? l')%nat eqn:E2; [apply Nat.eqb_eq in E2; congruence|reflexivity].
    + destruct (l0 =? l')%nat; [reflexivity|exact IH].
Qed.

Lemma find_app {A} (f : A -> bool) l1 l2 :
  find f (l1 ++ l2) = match find f l1 with Some x => Some x | None => find f l2 end.
Proof. induction l1 as [|a r IH]; cbn; [reflexivity|destruct (f a); [reflexivity|exact IH]]. Qed.

Lemma find_filter_ne (ts : list (nat * bool)) id id' :
  id' <> id ->
  find (fun p => (fst p =? id')%nat) (filter (fun p => negb (fst p =? id)%nat) ts) =
  find (fun p => (fst p =? id')%nat) ts.
Proof.
  intros Hne. induction ts as [|[i b] r IH]; cbn [filter find fst]; [reflexivity|].
  destruct (i =? id)%nat eqn:E; cbn [negb find fst].
  - apply Nat.eqb_eq in E; subst i.
    destruct (id =? id')%nat eqn:E2; [apply Nat.eqb_eq in E2; congruence|exact IH].
  - destruct (i =? id')%nat; [reflexivity|exact IH].
Qed.

Lemma find_filter_eq (ts : list (nat * bool)) id :
  find (fun p => (fst p =? id)%nat) (filter (fun p => negb (fst p =? id)%nat) ts) = None.
Proof.
  induction ts as [|[i b] r IH]; cbn [filter find fst]; [reflexivity|].
  destruct (i =? id)%nat eqn:E; cbn [negb find fst]; [exact IH|rewrite E; exact IH].
Qed.

Lemma find_map_true (ts : list (nat * bool)) id :
  find (fun p => (fst p =? id)%nat) (map (fun p => (fst p, true)) ts) =
  option_map (fun p => (fst p, true)) (find (fun p => (fst p =? id)%nat) ts).
Proof.
  induction ts as [|[i b] r IH]; cbn [map find fst]; [reflexivity|].
  destruct (i =? id)%nat; [reflexivity|exact IH].
Qed.

(* ------------------------------------------------------------------ the three operations on flags *)
Lemma check_ticket_flag tm line id :
  check_ticket tm line id =
  match tflag tm line id with
  | None => None
  | Some true => Some (true, tpop tm line id)
  | Some false => Some (false, tm)
  end.
Proof.
  unfold check_ticket, tflag, tpop. destruct (line_get (tm_lines tm) line) as [ts|]; [|reflexivity].
  destruct (find (fun p => (fst p =? id)%nat) ts) as [[i [|]]|]; reflexivity.
Qed.

Lemma tflag_mark tm l line id :
  tflag (mark_line_to_go tm l) line id =
  if (line =? l)%nat then option_map (fun _ => true) (tflag tm line id) else tflag tm line id.
Proof.
  unfold tflag, mark_line_to_go. cbn [tm_lines set eta_tm].
  change (tm_lines (set tm_lines _ tm)) with
    (line_update (tm_lines tm) l (map (fun p => (fst p, true))) false).
  destruct (line =? l)%nat eqn:E.
  - apply Nat.eqb_eq in E; subst l. rewrite line_get_update_same.
    destruct (line_get (tm_lines tm) line) as [ts|]; [|reflexivity].
    rewrite find_map_true. destruct (find _ ts) as [[i b]|]; reflexivity.
  - apply Nat.eqb_neq in E. rewrite line_get_update_other by exact E. reflexivity.
Qed.

Lemma tflag_pop tm l i line id :
  tflag (tpop tm l i) line id =
  if ((line =? l) && (id =? i))%nat then None else tflag tm line id.
Proof.
  unfold tflag, tpop.
  change (tm_lines (set tm_lines _ tm)) with
    (line_update (tm_lines tm) l (filter (fun p => negb (fst p =? i)%nat)) false).
  destruct (line =? l)%nat eqn:E; cbn [andb].
  - apply Nat.eqb_eq in E; subst l. rewrite line_get_update_same.
    destruct (line_get (tm_lines tm) line) as [ts|].
    + destruct (id =? i)%nat eqn:E2.
      * apply Nat.eqb_eq in E2; subst i. rewrite find_filter_eq. reflexivity.
      * apply Nat.eqb_neq in E2. rewrite find_filter_ne by exact E2. reflexivity.
    + destruct (id =? i)%nat; reflexivity.
  - apply Nat.eqb_neq in E. rewrite line_get_update_other by exact E. reflexivity.
Qed.

Lemma take_ticket_id tm l : fst (take_ticket tm l) = tm_counter tm.
Proof. reflexivity. Qed.

Lemma take_ticket_counter tm l : tm_counter (snd (take_ticket tm l)) = S (tm_counter tm).
Proof. reflexivity. Qed.

Lemma tflag_take tm l line id :
  tm_wf tm ->
  tflag (snd (take_ticket tm l)) line id =
  if ((line =? l) && (id =? tm_counter tm))%nat then Some false else tflag tm line id.
Proof.
  intros Hwf. unfold tflag, take_ticket. cbn [snd].
  change (tm_lines (set tm_counter _ (set tm_lines _ tm))) with
    (line_update (tm_lines tm) l (fun ts => ts ++ [(tm_counter tm, false)]) true).
  destruct (line =? l)%nat eqn:E; cbn [andb].
  - apply Nat.eqb_eq in E; subst l. rewrite line_get_update_same.
    pose proof (Hwf line id) as Hw. unfold tflag in Hw.
    destruct (line_get (tm_lines tm) line) as [ts|].
    + rewrite find_app. cbn [find fst].
      destruct (find (fun p => (fst p =? id)%nat) ts) as [[i b]|] eqn:F.
      * cbn [option_map snd] in *. specialize (Hw b eq_refl).
        destruct (id =? tm_counter tm)%nat eqn:E2; [apply Nat.eqb_eq in E2; lia|reflexivity].
      * rewrite (Nat.eqb_sym (tm_counter tm) id). destruct (id =? tm_counter tm)%nat; reflexivity.
    + cbn [app find fst]. rewrite (Nat.eqb_sym (tm_counter tm) id).
      destruct (id =? tm_counter tm)%nat; reflexivity.
  - apply Nat.eqb_neq in E. rewrite line_get_update_other by exact E. reflexivity.
Qed.

Lemma wf_empty : tm_wf tm_empty.
Proof. intros line id b H. discriminate H. Qed.

Lemma wf_mark tm l : tm_wf tm -> tm_wf (mark_line_to_go tm l).
Proof.
  intros Hwf line id b H. rewrite tflag_mark in H.
  change (tm_counter (mark_line_to_go tm l)) with (tm_counter tm).
  destruct (line =? l)%nat.
  - destruct (tflag tm line id) as [b'|] eqn:F; [|discriminate H]. exact (Hwf _ _ _ F).
  - exact (Hwf _ _ _ H).
Qed.

Lemma wf_pop tm l i : tm_wf tm -> tm_wf (tpop tm l i).
Proof.
  intros Hwf line id b H. rewrite tflag_pop in H.
  change (tm_counter (tpop tm l i)) with (tm_counter tm).
  destruct ((line =? l) && (id =? i))%nat; [discriminate H|exact (Hwf _ _ _ H)].
Qed.

Lemma wf_take tm l : tm_wf tm -> tm_wf (snd (take_ticket tm l)).
Proof.
  intros Hwf line id b H. rewrite tflag_take in H by exact Hwf. rewrite take_ticket_counter.
  destruct ((line =? l) && (id =? tm_counter tm))%nat eqn:E.
  - apply andb_true_iff in E. destruct E as [_ E]. apply Nat.eqb_eq in E. lia.
  - pose proof (Hwf _ _ _ H). lia.
Qed.

Lemma wf_check tm l i b tm' : tm_wf tm -> check_ticket tm l i = Some (b, tm') -> tm_wf tm'.
Proof.
  intros Hwf H. rewrite check_ticket_flag in H.
  destruct (tflag tm l i) as [[|]|]; inversion H; subst; [apply wf_pop|]; exact Hwf.
Qed.

(* ------------------------------------------------------------------ sequences of operations *)
Inductive tkop := TkTake (line : nat) | TkMark (line : nat) | TkCheck (line id : nat).

Definition tstep (tm : tmachine) (o : tkop) : tmachine :=
  match o with
  | TkTake l => snd (take_ticket tm l)
  | TkMark l => mark_line_to_go tm l
  | TkCheck l i => match check_ticket tm l i with Some (_, tm') => tm' | None => tm end    (* KeyError: unchanged *)
  end.

Definition run_ops (ops : list tkop) : tmachine := fold_left tstep ops tm_empty.

(* the machine after a history given newest first *)
Fixpoint hist_tm (h : list tkop) : tmachine :=
  match h with [] => tm_empty | o :: r => tstep (hist_tm r) o end.

Lemma run_ops_hist ops : run_ops ops = hist_tm (rev ops).
Proof.
  unfold run_ops. induction ops as [|x l IH] using rev_ind; [reflexivity|].
  rewrite fold_left_app, rev_app_distr. cbn. rewrite IH. reflexivity.
Qed.

Fixpoint takes (h : list tkop) : nat :=
  match h with [] => 0 | TkTake _ :: r => S (takes r) | _ :: r => takes r end.

Lemma takes_app a b : takes (a ++ b) = takes a + takes b.
Proof. induction a as [|[l|l|l i] r IH]; cbn; lia. Qed.

Lemma takes_rev a : takes (rev a) = takes a.
Proof. induction a as [|[l|l|l i] r IH]; cbn; [reflexivity|..]; rewrite takes_app; cbn; lia. Qed.

(* reference: the status of ticket (line, id) after a history (newest first), by the rules of the
   docstrings: a take hands out the number of earlier takes, unmarked; a mark of the line marks it; a check
   of a marked ticket removes it *)
Fixpoint status (h : list tkop) (line id : nat) : option bool :=
  match h with
  | [] => None
  | TkTake l :: r => if ((line =? l) && (id =? takes r))%nat then Some false else status r line id
  | TkMark l :: r => if (line =? l)%nat then option_map (fun _ => true) (status r line id) else status r line id
  | TkCheck l i :: r =>
    if ((line =? l) && (id =? i))%nat
    then match status r line id with Some true => None | x => x end
    else status r line id
  end.

Lemma hist_tm_spec h :
  tm_wf (hist_tm h) /\ tm_counter (hist_tm h) = takes h /\
  forall line id, tflag (hist_tm h) line id = status h line id.
Proof.
  induction h as [|o r (Hwf & Hc & Hf)]; [split; [exact wf_empty|split; [reflexivity|reflexivity]]|].
  destruct o as [l|l|l i]; cbn [hist_tm tstep status takes].
  - split; [apply wf_take; exact Hwf|]. split; [rewrite take_ticket_counter, Hc; reflexivity|].
    intros line id. rewrite tflag_take by exact Hwf. rewrite Hc, Hf. reflexivity.
  - split; [apply wf_mark; exact Hwf|]. split; [exact Hc|].
    intros line id. rewrite tflag_mark, Hf. reflexivity.
  - rewrite check_ticket_flag. pose proof (Hf l i) as Hli.
    destruct (tflag (hist_tm r) l i) as [[|]|] eqn:F.
    + split; [apply wf_pop; exact Hwf|]. split; [exact Hc|].
      intros line id. rewrite tflag_pop, Hf.
      destruct ((line =? l) && (id =? i))%nat eqn:E; [|reflexivity].
      apply andb_true_iff in E. destruct E as [E1 E2].
      apply Nat.eqb_eq in E1, E2. subst. rewrite <- Hli. reflexivity.
    + split; [exact Hwf|]. split; [exact Hc|].
      intros line id. rewrite Hf.
      destruct ((line =? l) && (id =? i))%nat eqn:E; [|reflexivity].
      apply andb_true_iff in E. destruct E as [E1 E2].
      apply Nat.eqb_eq in E1, E2. subst. rewrite <- Hli. reflexivity.
    + split; [exact Hwf|]. split; [exact Hc|].
      intros line id. rewrite Hf.
      destruct ((line =? l) && (id =? i))%nat eqn:E; [|reflexivity].
      apply andb_true_iff in E. destruct E as [E1 E2].
      apply Nat.eqb_eq in E1, E2. subst. rewrite <- Hli. reflexivity.
Qed.

Lemma run_ops_wf ops : tm_wf (run_ops ops).
Proof. rewrite run_ops_hist. apply hist_tm_spec. Qed.

(* ---- the status in words: decompositions of the history (newest first) ---- *)
Lemma status_lt h line id b : status h line id = Some b -> id < takes h.
Proof.
  destruct (hist_tm_spec h) as (Hwf & Hc & Hf). rewrite <- Hf, <- Hc. apply Hwf.
Qed.

(* unmarked: taken, and no mark of the line since *)
Lemma status_false_iff h line id :
  status h line id = Some false <->
  exists mid pre, h = mid ++ TkTake line :: pre /\ takes pre = id /\ ~ In (TkMark line) mid.
Proof.
  induction h as [|o r IH]; cbn [status].
  - split; [discriminate|]. intros (mid & pre & H & _). destruct mid; discriminate H.
  - destruct o as [l|l|l i].
    + destruct ((line =? l) && (id =? takes r))%nat eqn:E.
      * apply andb_true_iff in E. destruct E as [E1 E2]. apply Nat.eqb_eq in E1, E2. subst l id.
        split; [intros _|reflexivity]. exists [], r. cbn. auto.
      * split.
        -- intros H. apply IH in H. destruct H as (mid & pre & H1 & H2 & H3).
           exists (TkTake l :: mid), pre. subst r. split; [reflexivity|]. split; [exact H2|].
           cbn. intros [Hc|Hc]; [discriminate Hc|auto].
        -- intros (mid & pre & H1 & H2 & H3). destruct mid as [|o mid]; cbn in H1.
           ++ inversion H1; subst. rewrite !Nat.eqb_refl in E. discriminate E.
           ++ inversion H1; subst. apply IH. exists mid, pre. split; [reflexivity|]. split; [reflexivity|].
              intros Hc. apply H3. right. exact Hc.
    + destruct (line =? l)%nat eqn:E.
      * apply Nat.eqb_eq in E; subst l. split.
        -- intros H. destruct (status r line id); discriminate H.
        -- intros (mid & pre & H1 & H2 & H3). destruct mid as [|o mid]; cbn in H1; [discriminate H1|].
           inversion H1; subst. exfalso. apply H3. left. reflexivity.
      * split.
        -- intros H. apply IH in H. destruct H as (mid & pre & H1 & H2 & H3).
           exists (TkMark l :: mid), pre. subst r. split; [reflexivity|]. split; [exact H2|].
           cbn. intros [Hc|Hc]; [|auto]. inversion Hc; subst. rewrite Nat.eqb_refl in E. discriminate E.
        -- intros (mid & pre & H1 & H2 & H3). destruct mid as [|o mid]; cbn in H1; [discriminate H1|].
           inversion H1; subst. apply IH. exists mid, pre. split; [reflexivity|]. split; [reflexivity|].
           intros Hc. apply H3. right. exact Hc.
    + assert (Hsame : (if ((line =? l) && (id =? i))%nat
                       then match status r line id with Some true => None | x => x end
                       else status r line id) = Some false <-> status r line id = Some false).
      { destruct ((line =? l) && (id =? i))%nat; [|reflexivity].
        destruct (status r line id) as [[|]|]; split; congruence. }
      rewrite Hsame. split.
      * intros H. apply IH in H. destruct H as (mid & pre & H1 & H2 & H3).
        exists (TkCheck l i :: mid), pre. subst r. split; [reflexivity|]. split; [exact H2|].
        cbn. intros [Hc|Hc]; [discriminate Hc|auto].
      * intros (mid & pre & H1 & H2 & H3). destruct mid as [|o mid]; cbn in H1; [discriminate H1|].
        inversion H1; subst. apply IH. exists mid, pre. split; [reflexivity|]. split; [reflexivity|].
        intros Hc. apply H3. right. exact Hc.
Qed.

(* released: taken, then the line was marked (first mark after the take), and not checked since *)
Lemma status_true_iff h line id :
  status h line id = Some true <->
  exists post mid pre, h = post ++ TkMark line :: mid ++ TkTake line :: pre /\ takes pre = id /\
                       ~ In (TkMark line) mid /\ ~ In (TkCheck line id) post.
Proof.
  induction h as [|o r IH]; cbn [status].
  - split; [discriminate|]. intros (post & mid & pre & H & _). destruct post; discriminate H.
  - destruct o as [l|l|l i].
    + destruct ((line =? l) && (id =? takes r))%nat eqn:E.
      * split; [discriminate|]. intros H. exfalso.
        apply andb_true_iff in E. destruct E as [E1 E2]. apply Nat.eqb_eq in E1, E2. subst l id.
        destruct H as (post & mid & pre & H1 & H2 & _).
        destruct post as [|o post]; cbn in H1; [discriminate H1|]. inversion H1; subst.
        rewrite !takes_app in H2. cbn in H2. rewrite takes_app in H2. cbn in H2. lia.
      * split.
        -- intros H. apply IH in H. destruct H as (post & mid & pre & H1 & H2 & H3 & H4).
           exists (TkTake l :: post), mid, pre. subst r. repeat split; auto.
           cbn. intros [Hc|Hc]; [discriminate Hc|auto].
        -- intros (post & mid & pre & H1 & H2 & H3 & H4).
           destruct post as [|o post]; cbn in H1; [discriminate H1|]. inversion H1; subst.
           apply IH. exists post, mid, pre. repeat split; auto.
           intros Hc. apply H4. right. exact Hc.
    + destruct (line =? l)%nat eqn:E.
      * apply Nat.eqb_eq in E; subst l. split.
        -- intros H. destruct (status r line id) as [[|]|] eqn:S; [| |discriminate H].
           ++ destruct (proj1 IH eq_refl) as (post & mid & pre & H1 & H2 & H3 & H4).
              exists (TkMark line :: post), mid, pre. subst r. repeat split; auto.
              cbn. intros [Hc|Hc]; [discriminate Hc|auto].
           ++ apply status_false_iff in S. destruct S as (mid & pre & H1 & H2 & H3).
              exists [], mid, pre. subst r. repeat split; auto.
        -- intros (post & mid & pre & H1 & H2 & H3 & H4).
           destruct post as [|o post]; cbn in H1.
           ++ inversion H1; subst.
              assert (S : status (mid ++ TkTake line :: pre) line (takes pre) = Some false).
              { apply status_false_iff. exists mid, pre. auto. }
              rewrite S. reflexivity.
           ++ inversion H1; subst.
              assert (S : status (post ++ TkMark line :: mid ++ TkTake line :: pre) line (takes pre) = Some true).
              { apply IH. exists post, mid, pre. repeat split; auto. intros Hc. apply H4. right. exact Hc. }
              rewrite S. reflexivity.
      * split.
        -- intros H. apply IH in H. destruct H as (post & mid & pre & H1 & H2 & H3 & H4).
           exists (TkMark l :: post), mid, pre. subst r. repeat split; auto.
           cbn. intros [Hc|Hc]; [discriminate Hc|auto].
        -- intros (post & mid & pre & H1 & H2 & H3 & H4).
           destruct post as [|o post]; cbn in H1.
           ++ inversion H1; subst. rewrite Nat.eqb_refl in E. discriminate E.
           ++ inversion H1; subst. apply IH. exists post, mid, pre. repeat split; auto.
              intros Hc. apply H4. right. exact Hc.
    + destruct ((line =? l) && (id =? i))%nat eqn:E.
      * split.
        -- intros H. destruct (status r line id) as [[|]|]; discriminate H.
        -- intros (post & mid & pre & H1 & H2 & H3 & H4). exfalso.
           apply andb_true_iff in E. destruct E as [E1 E2]. apply Nat.eqb_eq in E1, E2. subst l i.
           destruct post as [|o post]; cbn in H1; [discriminate H1|]. inversion H1; subst.
           apply H4. left. reflexivity.
      * split.
        -- intros H. apply IH in H. destruct H as (post & mid & pre & H1 & H2 & H3 & H4).
           exists (TkCheck l i :: post), mid, pre. subst r. repeat split; auto.
           cbn. intros [Hc|Hc]; [|auto]. inversion Hc; subst. rewrite !Nat.eqb_refl in E. discriminate E.
        -- intros (post & mid & pre & H1 & H2 & H3 & H4).
           destruct post as [|o post]; cbn in H1; [discriminate H1|]. inversion H1; subst.
           apply IH. exists post, mid, pre. repeat split; auto.
           intros Hc. apply H4. right. exact Hc.
Qed.

(* ---- the statements of C10 about the machine, operations oldest first ---- *)
Lemma ticket_machine_released ops line id :
  (exists tm', check_ticket (run_ops ops) line id = Some (true, tm')) <->
  (exists pre mid post,
      ops = pre ++ TkTake line :: mid ++ TkMark line :: post /\ takes pre = id /\
      ~ In (TkMark line) mid /\ ~ In (TkCheck line id) post).
Proof.
  rewrite check_ticket_flag, run_ops_hist.
  destruct (hist_tm_spec (rev ops)) as (_ & _ & Hf). rewrite Hf.
  split.
  - intros (tm' & H).
    assert (S : status (rev ops) line id = Some true).
    { destruct (status (rev ops) line id) as [[|]|]; [reflexivity|discriminate H|discriminate H]. }
    apply status_true_iff in S. destruct S as (post & mid & pre & H1 & H2 & H3 & H4).
    exists (rev pre), (rev mid), (rev post).
    split.
    { rewrite <- (rev_involutive ops), H1.
      rewrite rev_app_distr. cbn [rev]. rewrite rev_app_distr. cbn [rev].
      rewrite <- !app_assoc. cbn [app]. reflexivity. }
    split; [rewrite takes_rev; exact H2|].
    split; intros Hc; apply in_rev in Hc; auto.
  - intros (pre & mid & post & H1 & H2 & H3 & H4).
    assert (S : status (rev ops) line id = Some true).
    { apply status_true_iff. exists (rev post), (rev mid), (rev pre).
      split.
      { rewrite H1. rewrite rev_app_distr. cbn [rev]. rewrite rev_app_distr. cbn [rev].
        rewrite <- !app_assoc. cbn [app]. reflexivity. }
      split; [rewrite takes_rev; exact H2|].
      split; intros Hc; apply in_rev in Hc; auto. }
    rewrite S. eexists. reflexivity.
Qed.

(* not yet released: the check answers False (and keeps the ticket) exactly for a ticket taken and not marked since *)
Lemma ticket_machine_waiting ops line id :
  check_ticket (run_ops ops) line id = Some (false, run_ops ops) <->
  (exists pre mid, ops = pre ++ TkTake line :: mid /\ takes pre = id /\ ~ In (TkMark line) mid).
Proof.
  rewrite check_ticket_flag, run_ops_hist.
  destruct (hist_tm_spec (rev ops)) as (_ & _ & Hf). rewrite Hf.
  split.
  - intros H.
    assert (S : status (rev ops) line id = Some false).
    { destruct (status (rev ops) line id) as [[|]|]; [discriminate H|reflexivity|discriminate H]. }
    apply status_false_iff in S. destruct S as (mid & pre & H1 & H2 & H3).
    exists (rev pre), (rev mid).
    split.
    { rewrite <- (rev_involutive ops), H1. rewrite rev_app_distr. cbn [rev].
      rewrite <- !app_assoc. reflexivity. }
    split; [rewrite takes_rev; exact H2|].
    intros Hc; apply in_rev in Hc; auto.
  - intros (pre & mid & H1 & H2 & H3).
    assert (S : status (rev ops) line id = Some false).
    { apply status_false_iff. exists (rev mid), (rev pre).
      split.
      { rewrite H1. rewrite rev_app_distr. cbn [rev]. rewrite <- !app_assoc. reflexivity. }
      split; [rewrite takes_rev; exact H2|].
      intros Hc; apply in_rev in Hc; auto. }
    rewrite S. reflexivity.
Qed.

(* one mark releases every ticket outstanding on the line ... *)
Lemma mark_releases_all tm line id :
  check_ticket tm line id <> None ->
  exists tm', check_ticket (mark_line_to_go tm line) line id = Some (true, tm').
Proof.
  rewrite !check_ticket_flag, tflag_mark, Nat.eqb_refl.
  destruct (tflag tm line id) as [b|]; [|congruence]. intros _. cbn. eexists. reflexivity.
Qed.

(* ... and none on another line *)
Lemma mark_other_line_untouched tm line line' id :
  line' <> line ->
  option_map fst (check_ticket (mark_line_to_go tm line) line' id) = option_map fst (check_ticket tm line' id).
Proof.
  intros Hne. rewrite !check_ticket_flag, tflag_mark.
  destruct (line' =? line)%nat eqn:E; [apply Nat.eqb_eq in E; congruence|].
  destruct (tflag tm line' id) as [[|]|]; reflexivity.
Qed.

(* a ticket taken after the mark is not released by it *)
Lemma not_before ops line :
  let tm := mark_line_to_go (run_ops ops) line in
  let '(id, tm') := take_ticket tm line in
  check_ticket tm' line id = Some (false, tm').
Proof.
  cbv zeta. destruct (take_ticket (mark_line_to_go (run_ops ops) line) line) as [id tm'] eqn:T.
  assert (Hid : id = tm_counter (mark_line_to_go (run_ops ops) line)) by (inversion T; reflexivity).
  assert (Htm : tm' = snd (take_ticket (mark_line_to_go (run_ops ops) line) line)) by (rewrite T; reflexivity).
  rewrite check_ticket_flag. subst tm'. rewrite tflag_take by (apply wf_mark, run_ops_wf).
  subst id. rewrite !Nat.eqb_refl. reflexivity.
Qed.

(* a take never hands out a ticket already known, on any line *)
Lemma take_fresh ops line line' :
  check_ticket (run_ops ops) line' (fst (take_ticket (run_ops ops) line)) = None.
Proof.
  rewrite check_ticket_flag, take_ticket_id.
  destruct (tflag (run_ops ops) line' (tm_counter (run_ops ops))) as [b|] eqn:F; [|reflexivity].
  apply run_ops_wf in F. lia.
Qed.

(* ------------------------------------------------------------------ keyed by name (before 7e1f12d) vs keyed by class *)
Lemma legacy_wait_then_dispatch_spec name ops waited dispatched :
  legacy_wait_then_dispatch name (run_ops ops) waited dispatched =
  Some (name waited =? name dispatched)%nat.
Proof.
  unfold legacy_wait_then_dispatch, legacy_register_wait, legacy_check_processed, legacy_mark_processed.
  destruct (take_ticket (run_ops ops) (name waited)) as [id tm1] eqn:T.
  assert (Hid : id = tm_counter (run_ops ops)) by (inversion T; reflexivity).
  assert (Htm : tm1 = snd (take_ticket (run_ops ops) (name waited))) by (rewrite T; reflexivity).
  rewrite check_ticket_flag, tflag_mark. subst tm1.
  rewrite tflag_take by apply run_ops_wf. subst id. rewrite !Nat.eqb_refl. cbn [andb option_map].
  destruct (name waited =? name dispatched)%nat; reflexivity.
Qed.
