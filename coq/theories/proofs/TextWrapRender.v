(* TextWrapRender.v — from _wrap_chunks to TextWidget.render: _munge_whitespace, split('\n') / '\n'.join,
   the typewriter with width=None, the chunk contract, and the render-level theorems of C11. *)
From SL Require Import Tac.
From SL Require Import PyInt Widget TextWrap proofs.TextWrapProofs.
Import ListNotations.
Local Open Scope nat_scope.

(* ------------------------------------------------------------------ vocabulary *)
Definition wrap_chunks' (cs : list str) (w : nat) : list str :=
  match wrap_chunks cs w with Some ls => ls | None => [] end.
(* '\n'.join(wrap(line)) of a line that wraps to nothing is '' : one empty line *)
Definition or_blank (ls : list str) : list str := match ls with [] => [[]] | _ => ls end.
(* typing the text '' leaves the buffer untouched: no line at all *)
Definition drop_lone_empty (ls : list str) : list str := match ls with [[]] => [] | _ => ls end.
Definition no_nl (l : str) : Prop := Forall (fun c => c <> NL) l.
Definition short (w : nat) (l : str) : Prop := length l <= w.
Definition line_ok (line : str) (cs : list str) : Prop := concat cs = munge line /\ Forall nonempty cs.

Lemma wrap_chunks_total cs w : wrap_chunks cs w = Some (wrap_chunks' cs w).
Proof.
  unfold wrap_chunks'. destruct (wrap_chunks cs w) eqn:E; [reflexivity|].
  exfalso. eapply wrap_chunks_fuel_enough; eauto.
Qed.

Lemma wrap_all_total' chunkss w :
  wrap_all chunkss w = Some (map (fun cs => join_nl (wrap_chunks' cs w)) chunkss).
Proof.
  induction chunkss as [|cs r IH]; [reflexivity|].
  cbn [wrap_all map]. rewrite wrap_chunks_total, IH. reflexivity.
Qed.

(* ------------------------------------------------------------------ whitespace *)
Lemma tw_space_py c : is_tw_space c = true -> is_py_space c = true.
Proof. unfold is_tw_space, is_py_space. lia. Qed.

Lemma nonblank_cons c s : nonblank (c :: s) = nonblank [c] ++ nonblank s.
Proof. apply (nonblank_app [c] s). Qed.

Lemma nonblank_repeat_sp n : nonblank (repeat SP n) = [].
Proof. induction n as [|n IH]; [reflexivity|]. cbn [repeat]. rewrite nonblank_cons, IH. reflexivity. Qed.

Lemma nonblank_expandtabs s : forall col, nonblank (expandtabs s col) = nonblank s.
Proof.
  induction s as [|c r IH]; intros col; cbn [expandtabs]; [reflexivity|].
  destruct (c =? 9)%N eqn:E9.
  - apply N.eqb_eq in E9. subst c. rewrite nonblank_app, nonblank_repeat_sp, IH. reflexivity.
  - destruct ((c =? 10) || (c =? 13))%N; rewrite nonblank_cons, IH, <- nonblank_cons; reflexivity.
Qed.

Lemma nonblank_munge s : nonblank (munge s) = nonblank s.
Proof.
  unfold munge. rewrite <- (nonblank_expandtabs s 0).
  induction (expandtabs s 0) as [|c r IH]; [reflexivity|].
  cbn [map]. rewrite nonblank_cons, IH, (nonblank_cons c r). f_equal.
  destruct (is_tw_space c) eqn:E; [|reflexivity].
  apply tw_space_py in E. unfold nonblank. cbn [filter]. rewrite E. reflexivity.
Qed.

Lemma munge_no_nl s : no_nl (munge s).
Proof.
  unfold no_nl, munge. apply Forall_forall. intros x Hin. apply in_map_iff in Hin.
  destruct Hin as (y & <- & _). destruct (is_tw_space y) eqn:E; [discriminate|].
  intros ->. discriminate E.
Qed.

(* ------------------------------------------------------------------ split('\n') and '\n'.join *)
Lemma split_nl_app_nonl l : forall cur rest,
  no_nl l -> split_nl (l ++ rest) cur = split_nl rest (rev l ++ cur).
Proof.
  induction l as [|a l IH]; intros cur rest H; [reflexivity|].
  inversion H as [|? ? Ha Hl]; subst. cbn [app split_nl rev].
  destruct (a =? NL)%N eqn:E; [apply N.eqb_eq in E; contradiction|].
  rewrite IH by exact Hl. rewrite <- app_assoc. reflexivity.
Qed.

Lemma split_nl_nonl l : no_nl l -> split_lines l = [l].
Proof.
  intros H. unfold split_lines. rewrite <- (app_nil_r l) at 1. rewrite split_nl_app_nonl by exact H.
  cbn [split_nl]. rewrite app_nil_r, rev_involutive. reflexivity.
Qed.

Lemma join_nl_cons2 l l2 r : join_nl (l :: l2 :: r) = l ++ NL :: join_nl (l2 :: r).
Proof. reflexivity. Qed.

Lemma split_join ls : ls <> [] -> Forall no_nl ls -> split_lines (join_nl ls) = ls.
Proof.
  induction ls as [|l r IH]; [congruence|]. intros _ H. inversion H as [|? ? Hl Hr]; subst.
  destruct r as [|l2 r'].
  - cbn [join_nl]. apply split_nl_nonl. exact Hl.
  - rewrite join_nl_cons2. unfold split_lines. rewrite split_nl_app_nonl by exact Hl.
    cbn [split_nl]. change (NL =? NL)%N with true. cbv iota. rewrite app_nil_r, rev_involutive. f_equal.
    apply IH; [discriminate|exact Hr].
Qed.

Lemma join_nl_app a b : a <> [] -> b <> [] -> join_nl (a ++ b) = join_nl a ++ NL :: join_nl b.
Proof.
  intros Ha Hb. induction a as [|x a IH]; [congruence|].
  destruct a as [|y a'].
  - destruct b as [|z b']; [congruence|]. reflexivity.
  - cbn [app]. rewrite join_nl_cons2. cbn [app] in IH. rewrite IH by discriminate.
    rewrite join_nl_cons2, <- app_assoc. reflexivity.
Qed.

Lemma join_nl_or_blank ls : join_nl (or_blank ls) = join_nl ls.
Proof. destruct ls; reflexivity. Qed.

Lemma join_nl_concat (xs : list (list str)) :
  Forall (fun x => x <> []) xs -> join_nl (map join_nl xs) = join_nl (concat xs).
Proof.
  induction xs as [|x xs IH]; [reflexivity|]. intros H. inversion H as [|? ? Hx Hxs]; subst.
  destruct xs as [|x2 xs'].
  - cbn [map concat join_nl]. rewrite app_nil_r. reflexivity.
  - cbn [map]. rewrite join_nl_cons2. cbn [map] in IH. rewrite IH by exact Hxs.
    change (concat (x :: x2 :: xs')) with (x ++ concat (x2 :: xs')).
    rewrite join_nl_app; [reflexivity|exact Hx|]. cbn [concat].
    inversion Hxs; subst. destruct x2; [congruence|discriminate].
Qed.

Lemma join_nl_nil_inv ls : join_nl ls = [] -> ls = [] \/ ls = [[]].
Proof.
  destruct ls as [|l r]; [auto|]. destruct r as [|l2 r'].
  - cbn [join_nl]. intros ->. auto.
  - rewrite join_nl_cons2. intros H. destruct l; discriminate.
Qed.

Lemma nonblank_join_nl ls : nonblank (join_nl ls) = nonblank (concat ls).
Proof.
  induction ls as [|l r IH]; [reflexivity|]. destruct r as [|l2 r'].
  - cbn [join_nl concat]. rewrite app_nil_r. reflexivity.
  - rewrite join_nl_cons2, nonblank_app, nonblank_cons, IH. cbn [concat]. rewrite !nonblank_app. reflexivity.
Qed.

Lemma nonblank_concat_split s : forall cur, nonblank (concat (split_nl s cur)) = nonblank (rev cur ++ s).
Proof.
  induction s as [|c r IH]; intros cur; cbn [split_nl].
  - cbn [concat]. reflexivity.
  - destruct (c =? NL)%N eqn:E.
    + apply N.eqb_eq in E. subst c. cbn [concat]. rewrite !nonblank_app, IH, (nonblank_cons NL r). reflexivity.
    + rewrite IH. cbn [rev]. rewrite <- app_assoc. reflexivity.
Qed.

(* width of the lines of a joined text *)
Lemma split_nl_short w l : forall cur, length cur + length l <= w -> Forall (short w) (split_nl l cur).
Proof.
  unfold short. induction l as [|a l IH]; intros cur H; cbn [split_nl].
  - constructor; [rewrite rev_length; simpl in H; lia|constructor].
  - simpl in H. destruct (a =? NL)%N.
    + constructor; [rewrite rev_length; lia|apply IH; simpl; lia].
    + apply IH; simpl; lia.
Qed.

Lemma split_nl_app_short w a b : forall cur,
  Forall (short w) (split_nl a cur) -> Forall (short w) (split_nl b []) ->
  Forall (short w) (split_nl (a ++ NL :: b) cur).
Proof.
  induction a as [|c a IH]; intros cur Ha Hb; cbn [app split_nl] in *.
  - change (NL =? NL)%N with true. cbv iota. inversion Ha; subst. constructor; assumption.
  - destruct (c =? NL)%N.
    + inversion Ha; subst. constructor; auto.
    + auto.
Qed.

Lemma split_join_short w ss :
  Forall (fun s => Forall (short w) (split_lines s)) ss -> Forall (short w) (split_lines (join_nl ss)).
Proof.
  induction ss as [|s r IH]; intros H.
  - cbn. constructor; [unfold short; simpl; lia|constructor].
  - inversion H as [|? ? Hs Hr]; subst. destruct r as [|s2 r'].
    + exact Hs.
    + rewrite join_nl_cons2. apply split_nl_app_short; [exact Hs|apply IH; exact Hr].
Qed.

(* ------------------------------------------------------------------ the typewriter with width=None *)
Lemma ensure_row_noop pre (cur : line) : ensure_row (pre ++ [cur]) (length pre) = pre ++ [cur].
Proof.
  unfold ensure_row. rewrite app_length. cbn [length].
  replace (S (length pre) - (length pre + 1)) with 0 by lia. apply app_nil_r.
Qed.

Lemma ensure_row_next pre (cur : line) : ensure_row (pre ++ [cur]) (S (length pre)) = (pre ++ [cur]) ++ [[]].
Proof.
  unfold ensure_row. rewrite app_length. cbn [length].
  replace (S (S (length pre)) - (length pre + 1)) with 1 by lia. reflexivity.
Qed.

Lemma set_cell_last pre cur ch : set_cell (pre ++ [cur]) (length pre) (length cur) ch = pre ++ [cur ++ [ch]].
Proof.
  induction pre as [|p pre IH]; cbn [app length set_cell].
  - f_equal. unfold set_in_line. replace (S (length cur) - length cur) with 1 by lia. cbn [repeat].
    rewrite firstn_app, firstn_all, Nat.sub_diag. cbn [firstn]. rewrite app_nil_r.
    rewrite skipn_all2; [reflexivity|]. rewrite app_length. simpl. lia.
  - rewrite IH. reflexivity.
Qed.

Lemma typewriter_lines s : forall pre cur,
  fst (typewriter s (pre ++ [cur]) (length pre) (length cur) 0 None false) = pre ++ split_nl s (rev cur).
Proof.
  induction s as [|ch rest IH]; intros pre cur; cbn [typewriter split_nl].
  - rewrite rev_involutive. reflexivity.
  - destruct (ch =? NL)%N.
    + rewrite ensure_row_next. specialize (IH (pre ++ [cur]) []).
      rewrite app_length in IH. cbn [length] in IH. rewrite Nat.add_1_r in IH.
      etransitivity; [exact IH|]. rewrite rev_involutive, <- app_assoc. reflexivity.
    + rewrite ensure_row_noop, set_cell_last. specialize (IH pre (cur ++ [ch])).
      rewrite app_length in IH. cbn [length] in IH. rewrite Nat.add_1_r in IH.
      etransitivity; [exact IH|]. rewrite rev_app_distr. reflexivity.
Qed.

(* typing a text from the empty buffer without a width: its lines, and no line for the empty text *)
Lemma typewriter_split s :
  fst (typewriter s [] 0 0 0 None false) = match s with [] => [] | _ => split_lines s end.
Proof.
  destruct s as [|ch rest]; [reflexivity|]. unfold split_lines. cbn [typewriter split_nl].
  destruct (ch =? NL)%N.
  - change (ensure_row [] 1) with ([[]] ++ [[]] : buffer). apply (typewriter_lines rest [[]] []).
  - change (set_cell (ensure_row [] 0) 0 0 ch) with ([] ++ [[ch]] : buffer).
    apply (typewriter_lines rest [] [ch]).
Qed.

Lemma typewriter_join ls :
  Forall no_nl ls ->
  fst (typewriter (join_nl ls) [] 0 0 0 None false) = drop_lone_empty ls.
Proof.
  intros H. rewrite typewriter_split. destruct ls as [|l r]; [reflexivity|].
  destruct (join_nl (l :: r)) as [|c s] eqn:E.
  - apply join_nl_nil_inv in E. destruct E as [E|E]; [discriminate|]. rewrite E. reflexivity.
  - rewrite <- E. rewrite split_join; [|discriminate|exact H].
    destruct l as [|c0 l']; [|reflexivity]. destruct r; [discriminate|reflexivity].
Qed.

(* ------------------------------------------------------------------ the chunk contract *)
Lemma str_eqb_eq : forall a b, str_eqb a b = true -> a = b.
Proof.
  induction a as [|x a IH]; intros [|y b] H; unfold str_eqb in H; cbn [length combine forallb fst snd Nat.eqb] in H;
    try discriminate; [reflexivity|].
  apply andb_true_iff in H. destruct H as [H1 H2]. apply andb_true_iff in H2. destruct H2 as [H2 H3].
  apply N.eqb_eq in H2. subst y. f_equal. apply IH. unfold str_eqb. rewrite H1, H3. reflexivity.
Qed.

Lemma str_eqb_refl a : str_eqb a a = true.
Proof.
  unfold str_eqb. rewrite Nat.eqb_refl. cbn [andb].
  induction a as [|x a IH]; [reflexivity|]. cbn [combine forallb fst snd]. rewrite N.eqb_refl, IH. reflexivity.
Qed.

Lemma forallb_combine {A B} (f : A * B -> bool) : forall (a : list A) (b : list B),
  length a = length b -> forallb f (combine a b) = true -> Forall2 (fun x y => f (x, y) = true) a b.
Proof.
  induction a as [|x a IH]; intros [|y b] L H; try discriminate; [constructor|].
  cbn [combine forallb] in H. apply andb_true_iff in H. destruct H as [H1 H2].
  constructor; [exact H1|]. apply IH; [simpl in L; lia|exact H2].
Qed.

Lemma Forall2_weaken {A B} (R S : A -> B -> Prop) (a : list A) (b : list B) :
  (forall x y, R x y -> S x y) -> Forall2 R a b -> Forall2 S a b.
Proof. intros H. induction 1; constructor; auto. Qed.

Lemma Forall2_len {A B} (R : A -> B -> Prop) (a : list A) (b : list B) : Forall2 R a b -> length a = length b.
Proof. induction 1; simpl; congruence. Qed.

Lemma nonempty_forallb cs :
  forallb (fun c : str => negb (length c =? 0)) cs = true <-> Forall nonempty cs.
Proof.
  induction cs as [|c cs IH]; cbn [forallb]; [split; [constructor|reflexivity]|].
  rewrite andb_true_iff, IH. split.
  - intros [H1 H2]. constructor; [|exact H2]. intros ->. discriminate H1.
  - intros H. inversion H as [|? ? Hc Hcs]; subst. split; [|exact Hcs].
    destruct c; [unfold nonempty in Hc; congruence|reflexivity].
Qed.

Lemma chunks_ok_spec t :
  chunks_ok t = true -> Forall2 line_ok (split_lines (t_text t)) (t_chunks t).
Proof.
  unfold chunks_ok. intros H. apply andb_true_iff in H. destruct H as [H1 H2].
  apply Nat.eqb_eq in H1. apply forallb_combine in H2; [|exact H1].
  eapply Forall2_weaken; [|exact H2]. intros line cs H. cbn [fst snd] in H.
  apply andb_true_iff in H. destruct H as [Ha Hb]. split; [apply str_eqb_eq; exact Ha|].
  apply nonempty_forallb. exact Hb.
Qed.

Lemma Forall2_in_r {A B} (R : A -> B -> Prop) (a : list A) (b : list B) y :
  Forall2 R a b -> In y b -> exists x, R x y.
Proof.
  induction 1 as [|x0 y0 a b Hxy _ IH]; intros Hin; [destruct Hin|].
  destruct Hin as [<-|Hin]; [exists x0; exact Hxy|auto].
Qed.

Lemma line_ok_no_nl line cs : line_ok line cs -> Forall no_nl cs.
Proof.
  intros [H _]. unfold no_nl. apply Forall_concat. rewrite H. apply munge_no_nl.
Qed.

(* ------------------------------------------------------------------ render_text *)
Lemma render_text_eq t w :
  t_text t <> [] -> (1 <= w)%Z ->
  render_text t w =
    ROk (fst (typewriter (join_nl (map (fun cs => join_nl (wrap_chunks' cs (Z.to_nat w))) (t_chunks t)))
                         [] 0 0 0 None false)).
Proof.
  intros Ht Hw. unfold render_text. destruct (t_text t); [congruence|].
  destruct (w <=? 0)%Z eqn:E; [lia|]. rewrite wrap_all_total'. reflexivity.
Qed.

Lemma render_text_cases t w :
  render_text t w = ROk [] /\ t_text t = [] \/
  render_text t w = RValueError /\ t_text t <> [] /\ (w <= 0)%Z \/
  t_text t <> [] /\ (1 <= w)%Z.
Proof.
  unfold render_text. destruct (t_text t); [left; auto|right].
  destruct (w <=? 0)%Z eqn:E; [left|right]; repeat split; try discriminate; lia.
Qed.

(* 1 *)
Lemma render_never_out_of_model t w : render_text t w <> ROutOfModel.
Proof.
  destruct (render_text_cases t w) as [[H _]|[[H _]|[H1 H2]]]; try (rewrite H; discriminate).
  rewrite render_text_eq by assumption. discriminate.
Qed.

(* 7 *)
Lemma render_nonpositive t w : t_text t <> [] -> (w <= 0)%Z -> render_text t w = RValueError.
Proof.
  intros Ht Hw. unfold render_text. destruct (t_text t); [congruence|].
  destruct (w <=? 0)%Z eqn:E; [reflexivity|lia].
Qed.

Lemma render_empty t w : t_text t = [] -> render_text t w = ROk [].
Proof. intros H. unfold render_text. rewrite H. reflexivity. Qed.

(* 2 *)
Lemma render_width t w b : render_text t w = ROk b -> Forall (fun l => Z.of_nat (length l) <= w)%Z b.
Proof.
  intros H. destruct (render_text_cases t w) as [[H1 _]|[[H1 _]|[H1 H2]]].
  - rewrite H1 in H. inversion H; subst. constructor.
  - rewrite H1 in H. discriminate.
  - rewrite render_text_eq in H by assumption. inversion H; subst. clear H.
    rewrite typewriter_split.
    assert (G : Forall (short (Z.to_nat w))
                  (split_lines (join_nl (map (fun cs => join_nl (wrap_chunks' cs (Z.to_nat w))) (t_chunks t))))).
    { apply split_join_short. apply Forall_forall. intros s Hin. apply in_map_iff in Hin.
      destruct Hin as (cs & <- & _). apply split_join_short.
      pose proof (wrap_chunks_width cs (Z.to_nat w) _ ltac:(lia) (wrap_chunks_total cs (Z.to_nat w))) as W.
      eapply Forall_impl; [|exact W]. intros l Hl. apply (split_nl_short _ l []). simpl. exact Hl. }
    destruct (join_nl _); [constructor|].
    eapply Forall_impl; [|exact G]. intros l Hl. unfold short in Hl.
    apply Nat2Z.inj_le in Hl. rewrite Z2Nat.id in Hl by lia. exact Hl.
Qed.

(* 4 *)
Lemma render_structure t w b :
  chunks_ok t = true -> render_text t w = ROk b ->
  b = drop_lone_empty (concat (map (fun cs => or_blank (wrap_chunks' cs (Z.to_nat w))) (t_chunks t))).
Proof.
  intros Hok H. apply chunks_ok_spec in Hok.
  destruct (render_text_cases t w) as [[H1 H2]|[[H1 _]|[H1 H2]]].
  - rewrite H1 in H. inversion H; subst. clear H. rewrite H2 in Hok. cbn in Hok.
    inversion Hok as [|? cs ? ? [Hc Hn] Hr]; subst. inversion Hr; subst.
    destruct cs as [|c cs']; [reflexivity|]. exfalso. inversion Hn as [|? ? Hc1 _]; subst.
    destruct c; [unfold nonempty in Hc1; congruence|discriminate Hc].
  - rewrite H1 in H. discriminate.
  - rewrite render_text_eq in H by assumption. inversion H; subst. clear H.
    rewrite <- (map_map (fun cs => wrap_chunks' cs (Z.to_nat w)) join_nl).
    rewrite <- (map_map (fun cs => wrap_chunks' cs (Z.to_nat w)) or_blank).
    set (Ls := map (fun cs => wrap_chunks' cs (Z.to_nat w)) (t_chunks t)).
    assert (Hnl : Forall (Forall no_nl) Ls).
    { unfold Ls. apply Forall_forall. intros L Hin. apply in_map_iff in Hin. destruct Hin as (cs & <- & Hin).
      destruct (Forall2_in_r _ _ _ _ Hok Hin) as (line & Hline).
      eapply (wrap_chunks_chars (fun c => c <> NL)); [|apply wrap_chunks_total].
      eapply line_ok_no_nl; eauto. }
    replace (map join_nl Ls) with (map join_nl (map or_blank Ls))
      by (rewrite map_map; apply map_ext; intros; apply join_nl_or_blank).
    rewrite join_nl_concat.
    + apply typewriter_join. apply -> (@Forall_concat str). apply Forall_forall. intros L Hin.
      apply in_map_iff in Hin. destruct Hin as (L0 & <- & Hin).
      rewrite Forall_forall in Hnl. specialize (Hnl _ Hin).
      destruct L0; [constructor; [constructor|constructor]|exact Hnl].
    + apply Forall_forall. intros L Hin. apply in_map_iff in Hin. destruct Hin as (L0 & <- & _).
      destruct L0; discriminate.
Qed.

(* 3 *)
Lemma nonblank_or_blank L : nonblank (concat (or_blank L)) = nonblank (concat L).
Proof. destruct L; reflexivity. Qed.

Lemma nonblank_drop_lone L : nonblank (concat (drop_lone_empty L)) = nonblank (concat L).
Proof. destruct L as [|[|] [|]]; reflexivity. Qed.

Lemma wrapped_conserves w : forall lines chunkss,
  Forall2 line_ok lines chunkss ->
  nonblank (concat (concat (map (fun cs => or_blank (wrap_chunks' cs w)) chunkss))) = nonblank (concat lines).
Proof.
  induction 1 as [|line cs lines chunkss [Hc _] _ IH]; [reflexivity|].
  cbn [map concat]. rewrite concat_app, !nonblank_app, IH, nonblank_or_blank. f_equal.
  rewrite (wrap_chunks_conserves cs w _ (wrap_chunks_total cs w)), Hc. apply nonblank_munge.
Qed.

Lemma render_conservation t w b :
  chunks_ok t = true -> render_text t w = ROk b -> nonblank (concat b) = nonblank (t_text t).
Proof.
  intros Hok H. rewrite (render_structure t w b Hok H), nonblank_drop_lone.
  apply chunks_ok_spec in Hok. rewrite (wrapped_conserves _ _ _ Hok).
  unfold split_lines. rewrite nonblank_concat_split. reflexivity.
Qed.

(* 4, continued: wrapped lines are never empty; a source line wraps to nothing only if it is blank *)
Lemma wrapped_lines_nonempty t w :
  chunks_ok t = true -> (1 <= w)%Z ->
  Forall (fun cs => Forall nonempty (wrap_chunks' cs (Z.to_nat w))) (t_chunks t).
Proof.
  intros Hok Hw. apply chunks_ok_spec in Hok. apply Forall_forall. intros cs Hin.
  destruct (Forall2_in_r _ _ _ _ Hok Hin) as (line & _ & Hne).
  apply (wrap_chunks_nonempty cs (Z.to_nat w)); [lia|exact Hne|apply wrap_chunks_total].
Qed.

Lemma blank_only_from_blank t w :
  chunks_ok t = true ->
  Forall2 (fun line cs => wrap_chunks' cs w = [] -> nonblank line = []) (split_lines (t_text t)) (t_chunks t).
Proof.
  intros Hok. apply chunks_ok_spec in Hok. eapply Forall2_weaken; [|exact Hok].
  intros line cs [Hc _] He.
  rewrite <- nonblank_munge, <- Hc, <- (wrap_chunks_conserves cs w _ (wrap_chunks_total cs w)), He. reflexivity.
Qed.

Lemma length_concat_or_blank {A} (g : A -> list str) (l : list A) :
  length l <= length (concat (map (fun x => or_blank (g x)) l)).
Proof.
  induction l as [|x l IH]; [simpl; lia|]. cbn [map concat length]. rewrite app_length.
  assert (G : 1 <= length (or_blank (g x))) by (destruct (g x); simpl; lia). lia.
Qed.

(* every source line starts a new output line *)
Lemma render_line_count t w b :
  chunks_ok t = true -> render_text t w = ROk b ->
  b = [] \/ length (split_lines (t_text t)) <= length b.
Proof.
  intros Hok H. pose proof (render_structure t w b Hok H) as S.
  apply chunks_ok_spec in Hok. apply Forall2_len in Hok.
  pose proof (length_concat_or_blank (fun cs => wrap_chunks' cs (Z.to_nat w)) (t_chunks t)) as L.
  destruct (concat (map (fun cs => or_blank (wrap_chunks' cs (Z.to_nat w))) (t_chunks t))) as [|[|] [|]];
    cbn [drop_lone_empty] in S; subst b; auto; right; rewrite Hok; exact L.
Qed.

(* ------------------------------------------------------------------ 8. the oracle-free chunker meets the contract *)
Lemma simple_chunks_aux_concat s : forall cur b, concat (simple_chunks_aux s cur b) = rev cur ++ s.
Proof.
  induction s as [|c r IH]; intros cur b; cbn [simple_chunks_aux].
  - destruct cur; [reflexivity|]. cbn [concat]. reflexivity.
  - destruct cur as [|x cur'].
    + rewrite IH. reflexivity.
    + destruct (Bool.eqb (c =? SP)%N b).
      * rewrite IH. cbn [rev]. rewrite <- !app_assoc. reflexivity.
      * cbn [concat]. rewrite IH. reflexivity.
Qed.

Lemma rev_cons_nonempty (x : char) cur : nonempty (rev (x :: cur)).
Proof. unfold nonempty. cbn [rev]. intros H. apply app_eq_nil in H. destruct H; discriminate. Qed.

Lemma simple_chunks_aux_nonempty s : forall cur b, Forall nonempty (simple_chunks_aux s cur b).
Proof.
  induction s as [|c r IH]; intros cur b; cbn [simple_chunks_aux].
  - destruct cur; constructor; [apply rev_cons_nonempty|constructor].
  - destruct cur as [|x cur']; [apply IH|].
    destruct (Bool.eqb (c =? SP)%N b); [apply IH|]. constructor; [apply rev_cons_nonempty|apply IH].
Qed.

Lemma simple_text_ok s : chunks_ok (simple_text s) = true.
Proof.
  unfold chunks_ok, simple_text. cbn [t_text t_chunks]. rewrite map_length, Nat.eqb_refl. cbn [andb].
  induction (split_lines s) as [|l ls IH]; [reflexivity|].
  cbn [map combine forallb fst snd]. rewrite IH, andb_true_r. apply andb_true_iff. split.
  - unfold simple_chunks. rewrite simple_chunks_aux_concat. apply str_eqb_refl.
  - apply nonempty_forallb. apply simple_chunks_aux_nonempty.
Qed.

(* the splitter turns a source line of whitespace only into one blank chunk (none for the empty line):
   such a line wraps to nothing, hence renders as exactly one empty line (or_blank) *)
Lemma blank_run_wraps_to_nothing c w : all_blank c = true -> wrap_chunks' [c] w = [] /\ wrap_chunks' [] w = [].
Proof.
  intros H. split; [|reflexivity].
  apply (wrap_chunks_blank c w _ H). apply wrap_chunks_total.
Qed.

(* ------------------------------------------------------------------ the code before commit 628ec11 (finding F3), for the record:
   _wrap_words appended '\n' only after sub-lines shorter than the width and popped a trailing '\n' of each source
   line; write() kept the typewriter's own width wrap on top of it *)
Fixpoint legacy_join (ls : list str) (w : nat) : str :=
  match ls with
  | [] => []
  | l :: r => l ++ (if length l <? w then [NL] else []) ++ legacy_join r w
  end.
Definition legacy_line (ls : list str) (w : nat) : str :=
  let s := legacy_join ls w in
  match rev s with c :: before => if (c =? NL)%N then rev before else s | [] => s end.
Definition legacy_render_text (t : text) (w : nat) : buffer :=
  fst (typewriter (join_nl (map (fun cs => legacy_line (wrap_chunks' cs w) w) (t_chunks t))) [] 0 0 0 (Some w) false).
