(* PagingProofs.v — proofs about Paging.print_widget (property C12, paging part). *)
From SL Require Import Tac.
From SL Require Import Widget Paging.
Import ListNotations.
Local Open Scope Z_scope.

(* ---- slices with in-range non-negative bounds ------------------------------------------ *)
Lemma norm_idx_in_range n i : 0 <= i <= n -> norm_idx n i = i.
Proof. intros Hi. unfold norm_idx. destruct (i <? 0) eqn:E; lia. Qed.

Lemma py_slice_from_nat {A} (l : list A) (k : nat) :
  (k <= length l)%nat -> py_slice_from l (Z.of_nat k) = skipn k l.
Proof.
  intros Hk. unfold py_slice_from. rewrite norm_idx_in_range by lia. now rewrite Nat2Z.id.
Qed.

Lemma py_slice_nat {A} (l : list A) (k p : nat) :
  (k + p <= length l)%nat -> py_slice l (Z.of_nat k) (Z.of_nat k + Z.of_nat p) = firstn p (skipn k l).
Proof.
  intros Hk. unfold py_slice. rewrite !norm_idx_in_range by lia.
  replace (Z.to_nat (Z.of_nat k + Z.of_nat p - Z.of_nat k)) with p by lia.
  now rewrite Nat2Z.id.
Qed.

Lemma skipn_skipn' {A} (a b : nat) (l : list A) : skipn a (skipn b l) = skipn (b + a) l.
Proof.
  revert l. induction b as [|b IH]; intros l; [reflexivity|].
  destruct l as [|x l]; [now rewrite !skipn_nil|]. cbn [skipn Nat.add]. apply IH.
Qed.

(* ---- page_events, prints_of, count_asks ------------------------------------------------ *)
Lemma page_events_cons p rest :
  rest <> [] -> page_events (p :: rest) = map PPrint p ++ PAskContinue :: page_events rest.
Proof. intros Hr. destruct rest as [|q rest']; [congruence | reflexivity]. Qed.

Lemma prints_of_app a b : prints_of (a ++ b) = prints_of a ++ prints_of b.
Proof.
  induction a as [|e a IH]; [reflexivity|]. destruct e; cbn [app prints_of]; now rewrite IH.
Qed.

Lemma prints_of_map_print ls : prints_of (map PPrint ls) = ls.
Proof. induction ls as [|l ls IH]; [reflexivity|]. cbn [map prints_of]. now rewrite IH. Qed.

Lemma count_asks_app a b : count_asks (a ++ b) = (count_asks a + count_asks b)%nat.
Proof.
  induction a as [|e a IH]; [reflexivity|]. destruct e; cbn [app count_asks]; now rewrite IH.
Qed.

Lemma count_asks_map_print ls : count_asks (map PPrint ls) = 0%nat.
Proof. induction ls as [|l ls IH]; [reflexivity|]. exact IH. Qed.

Lemma existsb_oof_app a b :
  existsb is_out_of_fuel (a ++ b) = existsb is_out_of_fuel a || existsb is_out_of_fuel b.
Proof. apply existsb_app. Qed.

Lemma oof_map_print ls : existsb is_out_of_fuel (map PPrint ls) = false.
Proof. induction ls as [|l ls IH]; [reflexivity|]. exact IH. Qed.

Lemma prints_of_page_events pages : prints_of (page_events pages) = concat pages.
Proof.
  induction pages as [|p rest IH]; [reflexivity|].
  destruct rest as [|q rest'].
  - cbn [page_events concat]. now rewrite prints_of_map_print, app_nil_r.
  - rewrite page_events_cons by congruence. rewrite prints_of_app, prints_of_map_print.
    cbn [prints_of]. rewrite IH. reflexivity.
Qed.

Lemma count_asks_page_events pages : count_asks (page_events pages) = (length pages - 1)%nat.
Proof.
  induction pages as [|p rest IH]; [reflexivity|].
  destruct rest as [|q rest'].
  - cbn [page_events]. now rewrite count_asks_map_print.
  - rewrite page_events_cons by congruence. rewrite count_asks_app, count_asks_map_print.
    cbn [count_asks]. rewrite IH. cbn [length]. lia.
Qed.

Lemma oof_page_events pages : existsb is_out_of_fuel (page_events pages) = false.
Proof.
  induction pages as [|p rest IH]; [reflexivity|].
  destruct rest as [|q rest'].
  - cbn [page_events]. apply oof_map_print.
  - rewrite page_events_cons by congruence. rewrite existsb_oof_app, oof_map_print.
    cbn [existsb is_out_of_fuel]. exact IH.
Qed.

Lemma length_concat_full {A} (full : list (list A)) (P : nat) :
  Forall (fun p => length p = P) full -> length (concat full) = (length full * P)%nat.
Proof.
  induction 1 as [|p full Hp _ IH]; [reflexivity|].
  cbn [concat length]. rewrite app_length, IH, Hp. lia.
Qed.

(* ---- the loop --------------------------------------------------------------------------- *)
(* from position k < n, with real height P >= 1, the loop prints the rest of the lines as full pages
   of P lines, each followed by a prompt, and a last page of 1..P lines *)
Lemma page_loop_spec : forall fuel lines (k P : nat),
  (1 <= P)%nat -> (k < length lines)%nat -> (length lines - k <= fuel)%nat ->
  exists full last,
    page_loop fuel lines (Z.of_nat k) (Z.of_nat (length lines) - 1) (Z.of_nat P) (Z.of_nat P + 2)
      = page_events (full ++ [last]) /\
    concat full ++ last = skipn k lines /\
    Forall (fun p => length p = P) full /\
    (1 <= length last <= P)%nat.
Proof.
  induction fuel as [|f IH]; intros lines k P HP Hk Hfuel; [lia|].
  cbn [page_loop].
  destruct (Z.of_nat k <=? Z.of_nat (length lines) - 1) eqn:Ele; [|lia].
  rewrite Z.gtb_ltb.
  destruct (Z.of_nat (length lines) - 1 <? Z.of_nat k + Z.of_nat P) eqn:Elast.
  - (* last page *)
    exists [], (skipn k lines).
    rewrite py_slice_from_nat by lia.
    assert (Hend : page_loop f lines (Z.of_nat k + (Z.of_nat P + 2 - 1)) (Z.of_nat (length lines) - 1)
                     (Z.of_nat P) (Z.of_nat P + 2) = []).
    { destruct f as [|f']; cbn [page_loop];
        destruct (Z.of_nat k + (Z.of_nat P + 2 - 1) <=? Z.of_nat (length lines) - 1) eqn:E2; try reflexivity; lia. }
    rewrite Hend, app_nil_r. cbn [app page_events concat].
    repeat split; try constructor; rewrite skipn_length; lia.
  - (* a full page, a prompt, and the rest *)
    assert (Hk' : (k + P < length lines)%nat) by lia.
    destruct (IH lines (k + P)%nat P HP Hk' ltac:(lia)) as (full & last & Hev & Hcat & Hfull & Hlast).
    exists (firstn P (skipn k lines) :: full), last.
    rewrite py_slice_nat by lia.
    replace (Z.of_nat k + Z.of_nat P) with (Z.of_nat (k + P)) by lia.
    rewrite Hev. cbn [app].
    rewrite page_events_cons by (destruct full; cbn [app]; congruence).
    repeat split; try lia.
    + cbn [concat]. rewrite <- app_assoc, Hcat.
      rewrite <- (firstn_skipn P (skipn k lines)) at 2.
      f_equal. symmetry. apply skipn_skipn'.
    + constructor; [|exact Hfull]. rewrite firstn_length, skipn_length. lia.
Qed.

(* the whole function: pages (full ++ [last]) *)
Lemma print_widget_pages : forall lines H, 3 <= H ->
  let P := Z.to_nat (H - 2) in
  exists full last,
    print_widget lines H = page_events (full ++ [last]) /\
    concat full ++ last = lines /\
    Forall (fun p => length p = P) full /\
    (length last <= P)%nat /\
    (lines <> [] -> 1 <= length last)%nat /\
    ((length lines < P)%nat -> full = []).
Proof.
  intros lines H HH P. unfold print_widget.
  destruct (Z.of_nat (length lines) =? 0) eqn:E0.
  - exists [], []. destruct lines as [|l ls]; [|cbn [length] in E0; lia].
    cbn [app page_events concat map length]. repeat split; try constructor; try lia. congruence.
  - destruct (Z.of_nat (length lines) <? H - 2) eqn:Eshort.
    + exists [], lines. cbn [app page_events concat]. repeat split; try constructor; try lia.
    + destruct (page_loop_spec (S (length lines)) lines 0 P ltac:(lia) ltac:(lia) ltac:(lia))
        as (full & last & Hev & Hcat & Hfull & Hlast).
      exists full, last.
      replace (Z.of_nat P) with (H - 2) in Hev by lia.
      replace (H - 2 + 2) with H in Hev by lia.
      change (Z.of_nat 0) with 0 in Hev. rewrite Hev.
      cbn [skipn] in Hcat. repeat split; try assumption; try lia.
Qed.

(* ---- consequences ----------------------------------------------------------------------- *)
Lemma paging_prints_all : forall lines H, 3 <= H -> prints_of (print_widget lines H) = lines.
Proof.
  intros lines H HH. destruct (print_widget_pages lines H HH) as (full & last & Hev & Hcat & _).
  rewrite Hev, prints_of_page_events, concat_app. cbn [concat]. now rewrite app_nil_r.
Qed.

Lemma paging_terminates : forall lines H, 3 <= H -> existsb is_out_of_fuel (print_widget lines H) = false.
Proof.
  intros lines H HH. destruct (print_widget_pages lines H HH) as (full & last & Hev & _).
  rewrite Hev. apply oof_page_events.
Qed.

Lemma paging_terminates_In : forall lines H, 3 <= H -> ~ In POutOfFuel (print_widget lines H).
Proof.
  intros lines H HH Hin. pose proof (paging_terminates lines H HH) as Hf.
  assert (Ht : existsb is_out_of_fuel (print_widget lines H) = true).
  { apply existsb_exists. exists POutOfFuel. split; [exact Hin | reflexivity]. }
  congruence.
Qed.

Lemma paging_short_no_prompt : forall lines H, 3 <= H ->
  (Z.of_nat (length lines) < H - 2) -> print_widget lines H = map PPrint lines.
Proof.
  intros lines H HH Hs. unfold print_widget.
  destruct (Z.of_nat (length lines) =? 0) eqn:E0.
  - destruct lines; [reflexivity | cbn [length] in E0; lia].
  - destruct (Z.of_nat (length lines) <? H - 2) eqn:E1; [reflexivity | lia].
Qed.

(* number of press-ENTER prompts: (n - 1) / P (truncated subtraction: 0 for n = 0) *)
Lemma paging_ask_count : forall lines H, 3 <= H ->
  count_asks (print_widget lines H) = ((length lines - 1) / Z.to_nat (H - 2))%nat.
Proof.
  intros lines H HH.
  destruct (print_widget_pages lines H HH) as (full & last & Hev & Hcat & Hfull & Hle & Hge & _).
  set (P := Z.to_nat (H - 2)) in *.
  rewrite Hev, count_asks_page_events, app_length. cbn [length].
  replace (length full + 1 - 1)%nat with (length full) by lia.
  assert (Hn : length lines = (length full * P + length last)%nat).
  { rewrite <- Hcat, app_length, (length_concat_full full P Hfull). reflexivity. }
  destruct lines as [|l0 ls].
  - cbn [length] in *. assert (HP : (1 <= P)%nat) by lia.
    destruct full as [|p full']; [cbn [length]; now rewrite Nat.div_0_l by lia|].
    cbn [length] in Hn. lia.
  - specialize (Hge ltac:(congruence)).
    apply Nat.div_unique with (r := (length last - 1)%nat); [lia|].
    rewrite Hn. lia.
Qed.

(* the same count as "number of pages minus one", pages = ceil(n / P), for n >= 1 *)
Lemma paging_ask_count_ceil : forall lines H, 3 <= H -> lines <> [] ->
  S (count_asks (print_widget lines H))
  = ((length lines + Z.to_nat (H - 2) - 1) / Z.to_nat (H - 2))%nat.
Proof.
  intros lines H HH Hne. rewrite paging_ask_count by exact HH.
  set (P := Z.to_nat (H - 2)). assert (HP : (1 <= P)%nat) by lia.
  assert (Hn : (1 <= length lines)%nat) by (destruct lines; [congruence | cbn [length]; lia]).
  replace (length lines + P - 1)%nat with ((length lines - 1) + 1 * P)%nat by lia.
  rewrite Nat.div_add by lia. lia.
Qed.

(* ==== the typed lines: print_widget_in ===================================================== *)
Lemma count_asks_print_app ls r : count_asks (map PPrint ls ++ r) = count_asks r.
Proof. now rewrite count_asks_app, count_asks_map_print. Qed.

Lemma oof_print_app ls r : existsb is_out_of_fuel (map PPrint ls ++ r) = existsb is_out_of_fuel r.
Proof. now rewrite existsb_oof_app, oof_map_print. Qed.

Lemma upto_ask_print_app k ls r : upto_ask k (map PPrint ls ++ r) = map PPrint ls ++ upto_ask k r.
Proof. induction ls as [|l ls IH]; [reflexivity|]. cbn [map app upto_ask]. now rewrite IH. Qed.

Lemma in_spec_print_app ls evs typed :
  pr_prepend (map PPrint ls) (in_spec evs typed) = in_spec (map PPrint ls ++ evs) typed.
Proof.
  unfold in_spec. rewrite count_asks_print_app, oof_print_app, upto_ask_print_app.
  destruct (count_asks evs <=? length typed)%nat; reflexivity.
Qed.

Lemma page_loop_in_spec : forall fuel lines pos last rsh sh typed,
  page_loop_in fuel lines pos last rsh sh typed = in_spec (page_loop fuel lines pos last rsh sh) typed.
Proof.
  induction fuel as [|f IH]; intros lines pos last rsh sh typed; cbn [page_loop page_loop_in].
  - destruct (pos <=? last); reflexivity.
  - destruct (pos <=? last); [|reflexivity].
    destruct (pos + rsh >? last).
    + rewrite IH. apply in_spec_print_app.
    + set (pg := py_slice lines pos (pos + rsh)).
      destruct typed as [|t typed'].
      * unfold in_spec. rewrite count_asks_print_app, upto_ask_print_app. reflexivity.
      * rewrite IH. set (evs := page_loop f lines (pos + rsh) last rsh sh).
        unfold in_spec. rewrite count_asks_print_app, oof_print_app, upto_ask_print_app.
        cbn [count_asks existsb is_out_of_fuel orb length upto_ask skipn].
        change (S (count_asks evs) <=? S (length typed'))%nat with (count_asks evs <=? length typed')%nat.
        destruct (count_asks evs <=? length typed')%nat; unfold pr_prepend; cbn [pr_events pr_left pr_status];
          rewrite <- app_assoc; reflexivity.
Qed.

(* for every height (supported or not) *)
Lemma paging_in_spec : forall lines H typed,
  print_widget_in lines H typed = in_spec (print_widget lines H) typed.
Proof.
  intros lines H typed. unfold print_widget_in, print_widget.
  destruct (Z.of_nat (length lines) =? 0); [reflexivity|].
  destruct (Z.of_nat (length lines) <? H - 2).
  - unfold in_spec. rewrite count_asks_map_print, oof_map_print. reflexivity.
  - apply page_loop_in_spec.
Qed.

(* enough typed lines: exactly the first (n-1)/P are consumed, the rest is left, the output is that
   of print_widget — a function of the content and the height only *)
Lemma paging_consumes_one_line_per_prompt : forall lines H typed, 3 <= H ->
  let asks := ((length lines - 1) / Z.to_nat (H - 2))%nat in
  (asks <= length typed)%nat ->
  print_widget_in lines H typed =
  {| pr_events := print_widget lines H; pr_left := skipn asks typed; pr_status := PgDone |}.
Proof.
  intros lines H typed HH asks Hlen. rewrite paging_in_spec. unfold in_spec.
  rewrite (paging_ask_count lines H HH), (paging_terminates lines H HH). fold asks.
  destruct (asks <=? length typed)%nat eqn:E; [reflexivity | lia].
Qed.

Lemma paging_output_independent_of_typed : forall lines H typed1 typed2, 3 <= H ->
  ((length lines - 1) / Z.to_nat (H - 2) <= length typed1)%nat ->
  ((length lines - 1) / Z.to_nat (H - 2) <= length typed2)%nat ->
  pr_events (print_widget_in lines H typed1) = pr_events (print_widget_in lines H typed2).
Proof.
  intros lines H t1 t2 HH H1 H2.
  rewrite (paging_consumes_one_line_per_prompt lines H t1 HH H1),
          (paging_consumes_one_line_per_prompt lines H t2 HH H2). reflexivity.
Qed.

(* too few typed lines: blocked at the (k+1)-th prompt, k = number of typed lines *)
Definition page_with_prompt (p : list line) : list pevent := map PPrint p ++ [PAskContinue].

Lemma upto_ask_page_events : forall full last k, (k < length full)%nat ->
  upto_ask k (page_events (full ++ [last])) = flat_map page_with_prompt (firstn (S k) full).
Proof.
  induction full as [|p full IH]; intros last k Hk; [cbn [length] in Hk; lia|].
  cbn [app]. rewrite page_events_cons by (destruct full; cbn [app]; congruence).
  rewrite upto_ask_print_app. cbn [upto_ask firstn flat_map]. unfold page_with_prompt at 1.
  rewrite <- app_assoc. cbn [app]. f_equal. f_equal.
  destruct k as [|k']; [reflexivity|].
  cbn [length] in Hk. apply IH. lia.
Qed.

Lemma prints_of_pages_with_prompt pages : prints_of (flat_map page_with_prompt pages) = concat pages.
Proof.
  induction pages as [|p pages IH]; [reflexivity|].
  cbn [flat_map concat]. unfold page_with_prompt at 1.
  rewrite !prints_of_app, prints_of_map_print. cbn [prints_of]. now rewrite app_nil_r, IH.
Qed.

Lemma count_asks_pages_with_prompt pages : count_asks (flat_map page_with_prompt pages) = length pages.
Proof.
  induction pages as [|p pages IH]; [reflexivity|].
  cbn [flat_map length]. unfold page_with_prompt at 1.
  rewrite !count_asks_app, count_asks_map_print. cbn [count_asks]. rewrite IH. lia.
Qed.

Lemma concat_firstn_full {A} (P : nat) : forall (full : list (list A)) (rest : list A) j,
  Forall (fun p => length p = P) full -> (j <= length full)%nat ->
  concat (firstn j full) = firstn (j * P) (concat full ++ rest).
Proof.
  induction full as [|p full IH]; intros rest j HF Hj.
  - cbn [length] in Hj. assert (j = 0)%nat by lia. subst j. reflexivity.
  - inversion HF as [|? ? Hp HF']; subst. destruct j as [|j]; [reflexivity|].
    cbn [firstn concat]. rewrite <- app_assoc.
    replace (S j * length p)%nat with (length p + j * length p)%nat by lia.
    rewrite firstn_app_2. f_equal. apply IH; [exact HF' | cbn [length] in Hj; lia].
Qed.

Lemma paging_blocks_without_typed_line : forall lines H typed, 3 <= H ->
  let P := Z.to_nat (H - 2) in
  (length typed < (length lines - 1) / P)%nat ->
  let r := print_widget_in lines H typed in
  pr_status r = PgBlocked /\ pr_left r = [] /\
  pr_events r = upto_ask (length typed) (print_widget lines H) /\
  prints_of (pr_events r) = firstn (S (length typed) * P) lines /\
  count_asks (pr_events r) = S (length typed) /\
  exists evs, pr_events r = evs ++ [PAskContinue].
Proof.
  intros lines H typed HH P Hlt r. unfold r. rewrite paging_in_spec. unfold in_spec.
  rewrite (paging_ask_count lines H HH). fold P.
  destruct ((length lines - 1) / P <=? length typed)%nat eqn:E; [lia|]. clear E.
  cbn [pr_status pr_left pr_events].
  destruct (print_widget_pages lines H HH) as (full & last & Hev & Hcat & Hfull & _).
  fold P in Hfull.
  assert (Hk : (length typed < length full)%nat).
  { pose proof (paging_ask_count lines H HH) as Hc. rewrite Hev, count_asks_page_events, app_length in Hc.
    cbn [length] in Hc. fold P in Hc. lia. }
  rewrite Hev, (upto_ask_page_events full last _ Hk).
  repeat split.
  - rewrite prints_of_pages_with_prompt, <- Hcat. apply concat_firstn_full; [exact Hfull | lia].
  - rewrite count_asks_pages_with_prompt, firstn_length. lia.
  - assert (Hne : firstn (S (length typed)) full <> []).
    { destruct full; [cbn [length] in Hk; lia | discriminate]. }
    destruct (exists_last Hne) as (ps & p0 & ->).
    rewrite flat_map_app. cbn [flat_map]. rewrite app_nil_r. unfold page_with_prompt at 2.
    rewrite app_assoc. eexists. reflexivity.
Qed.
