(* C17sepProofs.v — (worker s2) the separator clause of C17: every draw of a screen is immediately preceded by
   the separator iff the screen does not disable it.  Projection of proofs/InputLink.v [all_accepted]. *)
From SL Require Import Tac.
From SL Require Import PyInt LoopSem ScreenSem ScreenMon proofs.InputLink.
Import ListNotations.

Lemma chk_all_C17 fresh quit nosep w e : chk_all fresh quit nosep w e = true -> chk_C17sep nosep w e = true.
Proof.
  unfold chk_all, mchk_all. intros H. rewrite chk17_abs.
  apply andb_true_iff in H. destruct H as [H _]. apply andb_true_iff in H. destruct H as [H _].
  apply andb_true_iff in H. destruct H as [H _]. apply andb_true_iff in H. destruct H as [H _]. exact H.
Qed.

Theorem separator_every_draw specs specl typed quit run_empty fuel acts :
  (forall n, specs n = nth n specl default_spec) -> wf_session specl quit acts = true ->
  sok (chk_C17sep (map sc_no_separator specl)) typed
      (rev (trace (snd (app_run_all specs specl typed quit run_empty fuel acts)))) = true.
Proof.
  intros HS WF. eapply sok_weaken; [apply chk_all_C17|].
  apply (all_accepted false specs specl typed quit run_empty fuel acts HS WF).
Qed.

(* what acceptance means, event by event *)
Lemma C17sep_show_meaning nosep w id scr t :
  chk_C17sep nosep w (EUser T_SHOW [id; scr] t) = true ->
  (nth scr nosep false = false <-> exists pa, sw_prev_user w = Some (T_SEPARATOR, pa) /\ nth0 pa 0 = scr).
Proof.
  unfold chk_C17sep. cbn [Nat.eqb T_SHOW nth0 nth]. intros H. apply eqb_prop in H.
  destruct (nth scr nosep false); cbn [negb] in H; split.
  - discriminate.
  - intros (pa & E & X). rewrite E in H. apply andb_false_iff in H. destruct H as [H|H].
    + discriminate H.
    + apply Nat.eqb_neq in H. contradiction.
  - intros _. destruct (sw_prev_user w) as [[tg pa]|]; [|discriminate H]. apply andb_true_iff in H. destruct H as [H1 H2].
    apply Nat.eqb_eq in H1, H2. subst tg. eauto.
  - reflexivity.
Qed.

(* ---- an example session: screen 0 draws with the separator, screen 1 disables it *)
Definition ex17_spec (inp : list (str * (list scmd * ret_val))) (nosep : bool) : screen_spec :=
  {| sc_setup := []; sc_refresh := []; sc_show := []; sc_closed := []; sc_input := inp;
     sc_input_default := ([], None); sc_prompt_none := false; sc_input_required := true;
     sc_no_separator := nosep; sc_skip_check := false; sc_pages := 0; sc_answer0 := AnsNoAttr; sc_custom := []; sc_setup_cmds := [] |}.
Definition ex17_specl : list screen_spec :=
  [ex17_spec [([49%N], ([SPush 1 0], RProcessed))] false; ex17_spec [] true].
Definition ex17_typed : list (option str) := [Some [49%N]; Some [114%N]; Some [99%N]; Some [114%N]].
Definition ex17_acts : list saction := [SACmds [SSchedule 0 0]; SARun].
Definition ex17_trace : list event :=
  rev (trace (snd (app_run_all (fun n => nth n ex17_specl default_spec) ex17_specl ex17_typed None false 400 ex17_acts))).
Definition count_tag (tag : nat) (t : list event) : nat :=
  length (filter (fun e => match e with EUser tg _ _ => (tg =? tag)%nat | _ => false end) t).
