(* C09Exec.v — a big-step relation [Exec] with one constructor per path through [LoopSem.exec], and the
   proof that every run of the interpreter is a derivation ([exec_Exec]).  Proofs about all runs of the
   event loop are then ordinary inductions on derivations.  No new model definitions: [ps_mark],
   [run_enter], [quit_call], [ml_exit] only name sub-terms of [exec]. *)
From SL Require Import Tac.
From RecordUpdate Require Import RecordUpdate.
From SL Require Import LoopSem.
Import ListNotations.

Section Sem.
  Context {U : Type}.
  Variable code : nat -> signal -> nat -> prog U.

  (* _mark_signal_processed, done once per signal (at handler index 0) *)
  Definition ps_mark (sg : signal) (idx : nat) (s : lstate U) : lstate U :=
    if (idx =? 0)%nat then s <| tickets := mark_line_to_go (tickets s) (sg_cls sg) |> else s.
  Definition run_enter (s : lstate U) : lstate U :=
    emit ERunEnter (s <| force_quit := false |> <| run_loop := true |>).
  Definition quit_call (s : lstate U) : lstate U :=
    match quit_cb s with Some a => emit (EQuitCb a) s | None => s end.
  Definition ml_exit (s : lstate U) : lstate U :=
    if force_quit s then s else s <| run_loop := true |>.
  Definition go_ok (prio : option Z) (p : Z) : bool :=
    match prio with None => true | Some p0 => (p =? p0)%Z end.
  Definition disp (sg : signal) (s s1 : lstate U) : lstate U :=
    emit (EDispatch (sg_id sg) (active s) (length (levels s))) s1.
  Definition nl_enter (sg : signal) (s1 : lstate U) : lstate U :=
    do_enqueue (emit (ENewLoopEnter (length (qstore s1)))
                     (s1 <| qstore := qstore s1 ++ [empty_queue] |> <| active := length (qstore s1) |>
                         <| levels := levels s1 ++ [length (qstore s1)] |>)) sg.

  Inductive Exec : call U -> lstate U -> outcome -> lstate U -> Prop :=
  | X_fuel c s : Exec c s OFuel s
  (* run() *)
  | X_run_stop s o s1 :
      Exec CMainloop (run_enter s) o s1 -> (o = ONormal \/ o = OThrow XExit) ->
      Exec CRun s ONormal (emit ERunReturn (quit_call s1))
  | X_run_abort s o s1 :
      Exec CMainloop (run_enter s) o s1 -> o <> ONormal -> o <> OThrow XExit ->
      Exec CRun s o s1
  (* _mainloop *)
  | X_ml_done s : run_loop s = false -> Exec CMainloop s ONormal (ml_exit s)
  | X_ml_iter s s1 o s2 :
      run_loop s = true -> Exec CProcLoop s ONormal s1 -> Exec CMainloop s1 o s2 ->
      Exec CMainloop s o s2
  | X_ml_abort s o s1 :
      run_loop s = true -> Exec CProcLoop s o s1 -> o <> ONormal -> Exec CMainloop s o s1
  (* _process_signals_loop *)
  | X_pl_done s : run_loop s = false -> Exec CProcLoop s ONormal s
  | X_pl_blocked s : run_loop s = true -> do_get s = inl None -> Exec CProcLoop s OBlocked s
  | X_pl_ext s s1 o s2 :
      run_loop s = true -> do_get s = inr s1 -> Exec CProcLoop s1 o s2 -> Exec CProcLoop s o s2
  | X_pl_disp s sg s1 s3 o s4 :
      run_loop s = true -> do_get s = inl (Some (sg, s1)) ->
      Exec (CProcessSignal sg 0) (disp sg s s1) ONormal s3 -> Exec CProcLoop s3 o s4 ->
      Exec CProcLoop s o s4
  | X_pl_abort s sg s1 o s3 :
      run_loop s = true -> do_get s = inl (Some (sg, s1)) ->
      Exec (CProcessSignal sg 0) (disp sg s s1) o s3 -> o <> ONormal ->
      Exec CProcLoop s o s3
  (* _process_signals_with_return *)
  | X_pw_done cls t s : run_loop s = false -> Exec (CProcWait cls t) s ONormal s
  | X_pw_blocked cls t s : run_loop s = true -> do_get s = inl None -> Exec (CProcWait cls t) s OBlocked s
  | X_pw_ext cls t s s1 o s2 :
      run_loop s = true -> do_get s = inr s1 -> Exec (CProcWait cls t) s1 o s2 ->
      Exec (CProcWait cls t) s o s2
  | X_pw_abort cls t s sg s1 o s3 :
      run_loop s = true -> do_get s = inl (Some (sg, s1)) ->
      Exec (CProcessSignal sg 0) (disp sg s s1) o s3 -> o <> ONormal ->
      Exec (CProcWait cls t) s o s3
  | X_pw_released cls t s sg s1 s3 t' :
      run_loop s = true -> do_get s = inl (Some (sg, s1)) ->
      Exec (CProcessSignal sg 0) (disp sg s s1) ONormal s3 ->
      check_ticket (tickets s3) cls t = Some (true, t') ->
      Exec (CProcWait cls t) s ONormal (s3 <| tickets := t' |>)
  | X_pw_again cls t s sg s1 s3 t' o s4 :
      run_loop s = true -> do_get s = inl (Some (sg, s1)) ->
      Exec (CProcessSignal sg 0) (disp sg s s1) ONormal s3 ->
      check_ticket (tickets s3) cls t = Some (false, t') ->
      Exec (CProcWait cls t) s3 o s4 ->
      Exec (CProcWait cls t) s o s4
  | X_pw_keyerror cls t s sg s1 s3 :
      run_loop s = true -> do_get s = inl (Some (sg, s1)) ->
      Exec (CProcessSignal sg 0) (disp sg s s1) ONormal s3 ->
      check_ticket (tickets s3) cls t = None ->
      Exec (CProcWait cls t) s (OThrow XError) s3
  (* _process_signals_iteration *)
  | X_pi_done prio s :
      negb (q_empty (get_q s (active s))) && run_loop s = false -> Exec (CProcIter prio) s ONormal s
  | X_pi_none prio s :
      negb (q_empty (get_q s (active s))) && run_loop s = true ->
      q_pop (get_q s (active s)) = None -> Exec (CProcIter prio) s ONormal s
  | X_pi_go prio s p cnt sg q' s3 o s4 :
      negb (q_empty (get_q s (active s))) && run_loop s = true ->
      q_pop (get_q s (active s)) = Some ((p, cnt, sg), q') -> go_ok prio p = true ->
      Exec (CProcessSignal sg 0) (disp sg s (set_q s (active s) q')) ONormal s3 ->
      Exec (CProcIter (Some p)) s3 o s4 ->
      Exec (CProcIter prio) s o s4
  | X_pi_abort prio s p cnt sg q' o s3 :
      negb (q_empty (get_q s (active s))) && run_loop s = true ->
      q_pop (get_q s (active s)) = Some ((p, cnt, sg), q') -> go_ok prio p = true ->
      Exec (CProcessSignal sg 0) (disp sg s (set_q s (active s) q')) o s3 -> o <> ONormal ->
      Exec (CProcIter prio) s o s3
  | X_pi_requeue prio s p cnt sg q' :
      negb (q_empty (get_q s (active s))) && run_loop s = true ->
      q_pop (get_q s (active s)) = Some ((p, cnt, sg), q') -> go_ok prio p = false ->
      Exec (CProcIter prio) s ONormal
           (emit (ERequeue (sg_id sg) (active s)) (set_q s (active s) (q_put_entry q' (p, cnt, sg))))
  (* _process_signal *)
  | X_ps_kill sg idx s :
      handlers_of (ps_mark sg idx s) (sg_cls sg) = None -> (sg_cls sg =? CLS_EXCEPTION)%nat = true ->
      Exec (CProcessSignal sg idx) s (OThrow XSysExit) (emit EKill (ps_mark sg idx s))
  | X_ps_nohandler sg idx s :
      handlers_of (ps_mark sg idx s) (sg_cls sg) = None -> (sg_cls sg =? CLS_EXCEPTION)%nat = false ->
      Exec (CProcessSignal sg idx) s ONormal (emit (EDispatchEnd (sg_id sg)) (ps_mark sg idx s))
  | X_ps_fq sg idx s hs :
      handlers_of (ps_mark sg idx s) (sg_cls sg) = Some hs -> force_quit (ps_mark sg idx s) = true ->
      Exec (CProcessSignal sg idx) s ONormal (emit (EDispatchEnd (sg_id sg)) (ps_mark sg idx s))
  | X_ps_end sg idx s hs :
      handlers_of (ps_mark sg idx s) (sg_cls sg) = Some hs -> force_quit (ps_mark sg idx s) = false ->
      nth_error hs idx = None ->
      Exec (CProcessSignal sg idx) s ONormal (emit (EDispatchEnd (sg_id sg)) (ps_mark sg idx s))
  | X_ps_ok sg idx s hs hid data s2 o s3 :
      handlers_of (ps_mark sg idx s) (sg_cls sg) = Some hs -> force_quit (ps_mark sg idx s) = false ->
      nth_error hs idx = Some (hid, data) ->
      Exec (CProg (code hid sg data)) (emit (EHandler hid (sg_id sg) data) (ps_mark sg idx s)) ONormal s2 ->
      Exec (CProcessSignal sg (S idx)) (emit (EHandlerEnd hid (sg_id sg) None) s2) o s3 ->
      Exec (CProcessSignal sg idx) s o s3
  | X_ps_error sg idx s hs hid data s2 xs s4 o s5 :
      handlers_of (ps_mark sg idx s) (sg_cls sg) = Some hs -> force_quit (ps_mark sg idx s) = false ->
      nth_error hs idx = Some (hid, data) ->
      Exec (CProg (code hid sg data)) (emit (EHandler hid (sg_id sg) data) (ps_mark sg idx s)) (OThrow XError) s2 ->
      new_signal (emit (EHandlerEnd hid (sg_id sg) (Some XError)) s2) exception_spec = (xs, s4) ->
      Exec (CProcessSignal sg (S idx)) (do_enqueue s4 xs) o s5 ->
      Exec (CProcessSignal sg idx) s o s5
  | X_ps_throw sg idx s hs hid data e s2 :
      handlers_of (ps_mark sg idx s) (sg_cls sg) = Some hs -> force_quit (ps_mark sg idx s) = false ->
      nth_error hs idx = Some (hid, data) ->
      Exec (CProg (code hid sg data)) (emit (EHandler hid (sg_id sg) data) (ps_mark sg idx s)) (OThrow e) s2 ->
      e <> XError ->
      Exec (CProcessSignal sg idx) s (OThrow e) (emit (EHandlerEnd hid (sg_id sg) (Some e)) s2)
  | X_ps_abort sg idx s hs hid data o s2 :
      handlers_of (ps_mark sg idx s) (sg_cls sg) = Some hs -> force_quit (ps_mark sg idx s) = false ->
      nth_error hs idx = Some (hid, data) ->
      Exec (CProg (code hid sg data)) (emit (EHandler hid (sg_id sg) data) (ps_mark sg idx s)) o s2 ->
      (o = OBlocked \/ o = OFuel) ->
      Exec (CProcessSignal sg idx) s o s2
  (* the public API *)
  | X_enqueue sp s sg s1 :
      new_signal s sp = (sg, s1) -> Exec (CApi (AEnqueue sp)) s ONormal (do_enqueue s1 sg)
  | X_force_quit s :
      Exec (CApi AForceQuit) s ONormal
           (emit EForceQuit (s <| force_quit := true |> <| levels := [] |> <| run_loop := false |>))
  | X_nl_fq sp s sg s1 :
      new_signal s sp = (sg, s1) -> force_quit s1 = true -> Exec (CApi (ANewLoop sp)) s ONormal s1
  | X_nl_ok sp s sg s1 s4 :
      new_signal s sp = (sg, s1) -> force_quit s1 = false ->
      Exec CMainloop (nl_enter sg s1) ONormal s4 ->
      Exec (CApi (ANewLoop sp)) s ONormal (emit (ENewLoopReturn (length (qstore s1))) s4)
  | X_nl_abort sp s sg s1 o s4 :
      new_signal s sp = (sg, s1) -> force_quit s1 = false ->
      Exec CMainloop (nl_enter sg s1) o s4 -> o <> ONormal ->
      Exec (CApi (ANewLoop sp)) s o s4
  | X_cl_abort s o s0 :
      Exec (CProcIter None) (emit (EProcEnter None 0) s) o s0 -> o <> ONormal ->
      Exec (CApi ACloseLoop) s o s0
  | X_cl_empty s s0 :
      Exec (CProcIter None) (emit (EProcEnter None 0) s) ONormal s0 -> rev (levels s0) = [] ->
      Exec (CApi ACloseLoop) s (OThrow XError) (emit (EProcReturn None 0) s0)
  | X_cl_last s s0 top :
      Exec (CProcIter None) (emit (EProcEnter None 0) s) ONormal s0 -> rev (levels s0) = [top] ->
      Exec (CApi ACloseLoop) s (OThrow XExit)
           (emit (EClosePop top) (emit (EProcReturn None 0) s0 <| levels := rev [] |>))
  | X_cl_pop s s0 top q rest :
      Exec (CProcIter None) (emit (EProcEnter None 0) s) ONormal s0 -> rev (levels s0) = top :: q :: rest ->
      Exec (CApi ACloseLoop) s ONormal
           (emit (EClosePop top) (emit (EProcReturn None 0) s0 <| levels := rev (q :: rest) |>)
              <| active := q |> <| run_loop := false |>)
  | X_pn_ok s s1 :
      Exec (CProcIter None) (emit (EProcEnter None 0) s) ONormal s1 ->
      Exec (CApi (AProcess None)) s ONormal (emit (EProcReturn None 0) s1)
  | X_pn_abort s o s1 :
      Exec (CProcIter None) (emit (EProcEnter None 0) s) o s1 -> o <> ONormal ->
      Exec (CApi (AProcess None)) s o s1
  | X_pt_ok cls s t tm s2 :
      take_ticket (tickets s) cls = (t, tm) ->
      Exec (CProcWait cls t) (emit (EProcEnter (Some cls) t) (s <| tickets := tm |>)) ONormal s2 ->
      Exec (CApi (AProcess (Some cls))) s ONormal (emit (EProcReturn (Some cls) t) s2)
  | X_pt_abort cls s t tm o s2 :
      take_ticket (tickets s) cls = (t, tm) ->
      Exec (CProcWait cls t) (emit (EProcEnter (Some cls) t) (s <| tickets := tm |>)) o s2 -> o <> ONormal ->
      Exec (CApi (AProcess (Some cls))) s o s2
  | X_reg_source o s :
      Exec (CApi (ARegSource o)) s ONormal
           (emit (ERegSource o (active s)) (set_q s (active s) (q_add_source (get_q s (active s)) o)))
  | X_reg_handler cls hid data s :
      Exec (CApi (ARegHandler cls hid data)) s ONormal
           (emit (ERegHandler cls hid data) (s <| handlers := add_handler (handlers s) cls hid data |>))
  | X_set_quit arg s :
      Exec (CApi (ASetQuitCb arg)) s ONormal (emit (ESetQuitCb arg) (s <| quit_cb := Some arg |>))
  | X_ext_add sp s : Exec (CApi (AExtAdd sp)) s ONormal (s <| ext := ext s ++ [sp] |>)
  (* handler bodies *)
  | X_ret s : Exec (CProg PRet) s ONormal s
  | X_throw e s : Exec (CProg (PThrow e)) s (OThrow e) s
  | X_seq_ok p1 p2 s s1 o s2 :
      Exec (CProg p1) s ONormal s1 -> Exec (CProg p2) s1 o s2 -> Exec (CProg (PSeq p1 p2)) s o s2
  | X_seq_abort p1 p2 s o s1 :
      Exec (CProg p1) s o s1 -> o <> ONormal -> Exec (CProg (PSeq p1 p2)) s o s1
  | X_try_catch p1 h s s1 o s2 :
      Exec (CProg p1) s (OThrow XError) s1 -> Exec (CProg h) s1 o s2 -> Exec (CProg (PTry p1 h)) s o s2
  | X_try_pass p1 h s o s1 :
      Exec (CProg p1) s o s1 -> o <> OThrow XError -> Exec (CProg (PTry p1 h)) s o s1
  | X_api a s o s1 : Exec (CApi a) s o s1 -> Exec (CProg (PApi a)) s o s1
  | X_st g s u' p' o s1 :
      g (ust s) = (u', p') -> Exec (CProg p') (s <| ust := u' |>) o s1 -> Exec (CProg (PSt g)) s o s1
  | X_while_done cnd b s : cnd (ust s) = false -> Exec (CProg (PWhile cnd b)) s ONormal s
  | X_while_iter cnd b s s1 o s2 :
      cnd (ust s) = true -> Exec (CProg b) s ONormal s1 -> Exec (CProg (PWhile cnd b)) s1 o s2 ->
      Exec (CProg (PWhile cnd b)) s o s2
  | X_while_abort cnd b s o s1 :
      cnd (ust s) = true -> Exec (CProg b) s o s1 -> o <> ONormal -> Exec (CProg (PWhile cnd b)) s o s1
  | X_emit e s : Exec (CProg (PEmit e)) s ONormal (emit (user_event e) s).

  (* ---- every run of the interpreter is a derivation ---- *)
  Ltac brk H :=
    match type of H with
    | context [match ?x with _ => _ end] =>
      lazymatch x with
      | context [match _ with _ => _ end] => fail
      | _ => destruct x eqn:?
      end
    end.

  Lemma exec_Exec : forall f c s o s', exec code f c s = (o, s') -> Exec c s o s'.
  Proof.
    induction f as [|f IH]; intros c s o s' H.
    { cbn in H. injection H as <- <-. constructor. }
    destruct c; cbn [exec] in H.
    - (* CRun *)
      fold (run_enter s) in H.
      destruct (exec code f CMainloop (run_enter s)) as [o1 s1] eqn:E. apply IH in E.
      destruct o1 as [|[]| |]; injection H as <- <-;
        first [ eapply X_run_stop; eauto | eapply X_run_abort; eauto; discriminate ].
    - (* CMainloop *)
      destruct (run_loop s) eqn:R.
      + destruct (exec code f CProcLoop s) as [o1 s1] eqn:E. apply IH in E.
        destruct o1; try (injection H as <- <-; eapply X_ml_abort; eauto; discriminate).
        apply IH in H. eapply X_ml_iter; eauto.
      + injection H as <- <-. apply X_ml_done; auto.
    - (* CProcLoop *)
      destruct (run_loop s) eqn:R; [|injection H as <- <-; apply X_pl_done; auto].
      destruct (do_get s) as [[[sg s1]|]|s1] eqn:G.
      + fold (disp sg s s1) in H.
        destruct (exec code f (CProcessSignal sg 0) (disp sg s s1)) as [o1 s3] eqn:E. apply IH in E.
        destruct o1; try (injection H as <- <-; eapply X_pl_abort; eauto; discriminate).
        apply IH in H. eapply X_pl_disp; eauto.
      + injection H as <- <-. apply X_pl_blocked; auto.
      + apply IH in H. eapply X_pl_ext; eauto.
    - (* CProcWait *)
      destruct (run_loop s) eqn:R; [|injection H as <- <-; apply X_pw_done; auto].
      destruct (do_get s) as [[[sg s1]|]|s1] eqn:G.
      + fold (disp sg s s1) in H.
        destruct (exec code f (CProcessSignal sg 0) (disp sg s s1)) as [o1 s3] eqn:E. apply IH in E.
        destruct o1; try (injection H as <- <-; eapply X_pw_abort; eauto; discriminate).
        destruct (check_ticket (tickets s3) cls ticket) as [[[] t']|] eqn:T.
        * injection H as <- <-. eapply X_pw_released; eauto.
        * apply IH in H. eapply X_pw_again; eauto.
        * injection H as <- <-. eapply X_pw_keyerror; eauto.
      + injection H as <- <-. apply X_pw_blocked; auto.
      + apply IH in H. eapply X_pw_ext; eauto.
    - (* CProcIter *)
      destruct (negb (q_empty (get_q s (active s))) && run_loop s) eqn:R;
        [|injection H as <- <-; apply X_pi_done; auto].
      destruct (q_pop (get_q s (active s))) as [[[[p cnt] sg] q']|] eqn:P;
        [|injection H as <- <-; apply X_pi_none; auto].
      fold (disp sg s (set_q s (active s) q')) in H.
      destruct (go_ok prio p) eqn:GO.
      + assert (H' : (let '(o, s3) := exec code f (CProcessSignal sg 0) (disp sg s (set_q s (active s) q')) in
                      match o with ONormal => exec code f (CProcIter (Some p)) s3 | _ => (o, s3) end) = (o, s')).
        { destruct prio as [p0|]; cbn [go_ok] in GO; [rewrite GO in H|]; exact H. }
        clear H.
        destruct (exec code f (CProcessSignal sg 0) (disp sg s (set_q s (active s) q'))) as [o1 s3] eqn:E.
        apply IH in E.
        destruct o1; try (injection H' as <- <-; eapply X_pi_abort; eauto; discriminate).
        apply IH in H'. eapply X_pi_go; eauto.
      + destruct prio as [p0|]; cbn [go_ok] in GO; [|discriminate]. rewrite GO in H.
        injection H as <- <-. eapply X_pi_requeue; eauto.
    - (* CProcessSignal *)
      fold (ps_mark sg idx s) in H.
      destruct (handlers_of (ps_mark sg idx s) (sg_cls sg)) as [hs|] eqn:Hh.
      + destruct (force_quit (ps_mark sg idx s)) eqn:FQ; [injection H as <- <-; eapply X_ps_fq; eauto|].
        destruct (nth_error hs idx) as [[hid data]|] eqn:N; [|injection H as <- <-; eapply X_ps_end; eauto].
        destruct (exec code f (CProg (code hid sg data)) (emit (EHandler hid (sg_id sg) data) (ps_mark sg idx s)))
          as [o1 s2] eqn:E. apply IH in E.
        destruct o1 as [|[]| |].
        * apply IH in H. eapply X_ps_ok; eauto.
        * injection H as <- <-. eapply X_ps_throw; eauto. discriminate.
        * destruct (new_signal (emit (EHandlerEnd hid (sg_id sg) (Some XError)) s2) exception_spec) as [xs s4] eqn:NS.
          apply IH in H. eapply X_ps_error; eauto.
        * injection H as <- <-. eapply X_ps_throw; eauto. discriminate.
        * injection H as <- <-. eapply X_ps_abort; eauto.
        * injection H as <- <-. eapply X_ps_abort; eauto.
      + destruct (sg_cls sg =? CLS_EXCEPTION)%nat eqn:K; injection H as <- <-.
        * apply X_ps_kill; auto.
        * apply X_ps_nohandler; auto.
    - (* CApi *)
      destruct c.
      + destruct (new_signal s sp) as [sg s1] eqn:NS. injection H as <- <-. eapply X_enqueue; eauto.
      + injection H as <- <-. apply X_force_quit.
      + destruct (new_signal s sp) as [sg s1] eqn:NS.
        destruct (force_quit s1) eqn:FQ; [injection H as <- <-; eapply X_nl_fq; eauto|].
        fold (nl_enter sg s1) in H.
        destruct (exec code f CMainloop (nl_enter sg s1)) as [o1 s4] eqn:E. apply IH in E.
        destruct o1; injection H as <- <-;
          first [ eapply X_nl_ok; eauto | eapply X_nl_abort; eauto; discriminate ].
      + destruct (exec code f (CProcIter None) (emit (EProcEnter None 0) s)) as [o1 s0] eqn:E. apply IH in E.
        destruct o1; try (injection H as <- <-; eapply X_cl_abort; eauto; discriminate).
        change (levels (emit (EProcReturn None 0) s0)) with (levels s0) in H.
        destruct (rev (levels s0)) as [|top [|q rest]] eqn:L; injection H as <- <-.
        * eapply X_cl_empty; eauto.
        * eapply X_cl_last; eauto.
        * eapply X_cl_pop; eauto.
      + destruct return_after as [cls|].
        * destruct (take_ticket (tickets s) cls) as [t tm] eqn:T.
          destruct (exec code f (CProcWait cls t) (emit (EProcEnter (Some cls) t) (s <| tickets := tm |>)))
            as [o1 s2] eqn:E. apply IH in E.
          destruct o1; injection H as <- <-;
            first [ eapply X_pt_ok; eauto | eapply X_pt_abort; eauto; discriminate ].
        * destruct (exec code f (CProcIter None) (emit (EProcEnter None 0) s)) as [o1 s1] eqn:E. apply IH in E.
          destruct o1; injection H as <- <-;
            first [ eapply X_pn_ok; eauto | eapply X_pn_abort; eauto; discriminate ].
      + injection H as <- <-. apply X_reg_source.
      + injection H as <- <-. apply X_reg_handler.
      + injection H as <- <-. apply X_set_quit.
      + injection H as <- <-. apply X_ext_add.
    - (* CProg *)
      destruct p.
      + injection H as <- <-. apply X_ret.
      + injection H as <- <-. apply X_throw.
      + destruct (exec code f (CProg p1) s) as [o1 s1] eqn:E. apply IH in E.
        destruct o1; try (injection H as <- <-; eapply X_seq_abort; eauto; discriminate).
        apply IH in H. eapply X_seq_ok; eauto.
      + destruct (exec code f (CProg p1) s) as [o1 s1] eqn:E. apply IH in E.
        destruct o1 as [|[]| |]; try (injection H as <- <-; eapply X_try_pass; eauto; discriminate).
        apply IH in H. eapply X_try_catch; eauto.
      + apply IH in H. apply X_api; auto.
      + destruct (f0 (ust s)) as [u' p'] eqn:G. apply IH in H. eapply X_st; eauto.
      + destruct (c (ust s)) eqn:C; [|injection H as <- <-; apply X_while_done; auto].
        destruct (exec code f (CProg p) s) as [o1 s1] eqn:E. apply IH in E.
        destruct o1; try (injection H as <- <-; eapply X_while_abort; eauto; discriminate).
        apply IH in H. eapply X_while_iter; eauto.
      + injection H as <- <-. apply X_emit.
  Qed.
End Sem.
