(* C06Proofs.v — (worker s2) "each typed line reaches exactly the screen that asked".
   1. chk_C06 (with the comparison of the arguments) accepts every well-formed session: the arguments belong to the
      request (its handler's callback carries them; fix of finding F15);
   2. chk_C06_noargs = chk_C06 without the comparison of the arguments; chk_C06 is the stronger one;
   3. pure corollary of acceptance: a line delivered as a successful result is a typed line, unmodified;
   4. the legacy model (InputManager._input_args read at delivery time: one slot per screen) and the F15 session. *)
From SL Require Import Tac.
From RecordUpdate Require Import RecordUpdate.
From SL Require Import PyInt LoopSem ScreenSem ScreenMon proofs.InputLink.
Import ListNotations.

Lemma chk_all_C06 fresh quit nosep w e : chk_all fresh quit nosep w e = true -> chk_C06 w e = true.
Proof.
  unfold chk_all, mchk_all. intros H. rewrite chk06_abs.
  apply andb_true_iff in H. destruct H as [H _]. apply andb_true_iff in H. destruct H as [_ H]. exact H.
Qed.

Theorem lines_delivered specs specl typed quit run_empty fuel acts :
  (forall n, specs n = nth n specl default_spec) -> wf_session specl quit acts = true ->
  sok chk_C06 typed (rev (trace (snd (app_run_all specs specl typed quit run_empty fuel acts)))) = true.
Proof.
  intros HS WF. eapply sok_weaken; [apply chk_all_C06|].
  apply (all_accepted false specs specl typed quit run_empty fuel acts HS WF).
Qed.

(* chk_C06 is chk_C06_noargs plus the comparison of the arguments *)
Lemma chk_C06_stronger w e : chk_C06 w e = true -> chk_C06_noargs w e = true.
Proof.
  unfold chk_C06, chk_C06_noargs. intros H. apply andb_true_iff in H. destruct H as [H1 H2]. rewrite H2, andb_true_r.
  destruct (sw_must_input w) as [[[scr args] text]|]; [|reflexivity]. destruct e; try exact H1.
  apply andb_true_iff in H1. destruct H1 as [H1 H4]. apply andb_true_iff in H1. destruct H1 as [H1 H3].
  rewrite H1, H4. reflexivity.
Qed.

(* ---- what acceptance means *)
Lemma C06_must_input_meaning w scr args text e : sw_must_input w = Some (scr, args, text) -> chk_C06 w e = true ->
  match e with
  | EUser tag a t => tag = T_INPUT /\ nth0 a 0 = scr /\ nth0 a 1 = args /\ streq t text = true
  | EHandlerEnd _ _ _ => False
  | _ => True
  end.
Proof.
  intros M H. unfold chk_C06 in H. rewrite M in H. apply andb_true_iff in H. destruct H as [H _]. destruct e; auto; [discriminate H|].
  apply andb_true_iff in H. destruct H as [H H4]. apply andb_true_iff in H. destruct H as [H H3]. apply andb_true_iff in H. destruct H as [H1 H2].
  apply Nat.eqb_eq in H1, H2, H3. auto.
Qed.

Lemma C06_input_only_when_due w a t : chk_C06_noargs w (EUser T_INPUT a t) = true -> sw_must_input w <> None.
Proof.
  unfold chk_C06_noargs. intros H. apply andb_true_iff in H. destruct H as [_ H]. cbn [T_INPUT T_READY Nat.eqb] in H.
  destruct (sw_must_input w); [discriminate|discriminate H].
Qed.

(* ---- pure corollary: a successfully delivered line is a typed line (end of file: the empty line), unmodified *)
Definition line_of (l : option str) : str := match l with Some s => s | None => [] end.

Definition mintact (typed : list (option str)) (m : mw) : Prop :=
  exists k, m_typed m = skipn k typed /\
            (m_line m = [] \/ In (m_line m) (map line_of (firstn k typed))) /\
            (forall x, In x (m_hand m) -> snd x = [] \/ In (snd x) (map line_of (firstn k typed))).
Lemma mk_intact typed m k : m_typed m = skipn k typed ->
  (m_line m = [] \/ In (m_line m) (map line_of (firstn k typed))) ->
  (forall x, In x (m_hand m) -> snd x = [] \/ In (snd x) (map line_of (firstn k typed))) -> mintact typed m.
Proof. intros. exists k. auto. Qed.

Lemma remove_first_sub' {A} (f : A -> bool) l x : In x (remove_first f l) -> In x l.
Proof.
  induction l as [|y r IH]; cbn; intros I; [destruct I|]. destruct (f y); [right; exact I|].
  destruct I as [<-|I]; [left; reflexivity|right; auto].
Qed.

Lemma firstn_S_skipn {T} (l : list T) k x r : skipn k l = x :: r -> firstn (S k) l = firstn k l ++ [x] /\ skipn (S k) l = r.
Proof.
  revert l. induction k as [|k IH]; intros l E; cbn in E.
  - subst l. split; reflexivity.
  - destruct l as [|y l]; [discriminate E|]. destruct (IH l E) as [A B]. split; [|exact B].
    change (firstn (S (S k)) (y :: l)) with (y :: firstn (S k) l). rewrite A. reflexivity.
Qed.

Lemma mintact_user typed m tag a t : mintact typed m -> mintact typed (muser m tag a t).
Proof.
  intros (k & T & Ln & H). unfold muser.
  destruct (tag =? T_OP)%nat; [apply (mk_intact typed _ k); cbn; assumption|].
  destruct (tag =? T_STACK)%nat.
  { destruct (nth0 a 0 =? K_APPEND)%nat; [|destruct (nth0 a 0 =? K_ADD_FIRST)%nat]; apply (mk_intact typed _ k); cbn; assumption. }
  destruct (tag =? T_MODAL_RETURN)%nat; [apply (mk_intact typed _ k); cbn; assumption|].
  destruct (tag =? T_REQ)%nat; [apply (mk_intact typed _ k); cbn; assumption|].
  destruct (tag =? T_PROMPT)%nat.
  { destruct (nth0 a 1 =? 0)%nat; [|apply (mk_intact typed _ k); cbn; assumption].
    (* the reader takes the next typed line *)
    destruct (m_typed m) as [|ln r] eqn:E.
    - apply (mk_intact typed _ k); cbn; rewrite ?E; auto.
    - destruct (firstn_S_skipn _ _ _ _ (eq_sym T)) as [A B].
      apply (mk_intact typed _ (S k)); rewrite ?A, ?B; cbn; rewrite ?E.
      + reflexivity.
      + right. rewrite map_app. apply in_or_app. right. left. destruct ln; reflexivity.
      + intros x I. destruct (H x I) as [X|X]; [auto|right]. rewrite map_app. apply in_or_app. left. exact X. }
  destruct (tag =? T_READY)%nat.
  { cbn. match goal with |- context [if ?c then _ else _] => destruct c end;
      [destruct (alookup (nth0 a 0) (m_req m)) as [[scr ar]|]|];
      apply (mk_intact typed _ k); cbn; auto; intros x I; apply H; eapply remove_first_sub', I. }
  destruct (tag =? T_INPUT)%nat; [apply (mk_intact typed _ k); cbn; assumption|].
  destruct (tag =? T_ACTION)%nat; [apply (mk_intact typed _ k); cbn; assumption|].
  apply (mk_intact typed _ k); cbn; assumption.
Qed.

Lemma mintact_step typed m e : mintact typed m -> mintact typed (mstep m e).
Proof.
  intros HI. destruct e; try exact HI; try (apply mintact_user, HI); destruct HI as (k & T & Ln & H).
  - cbn. destruct (m_follow m) as [[| [|?] | | | | |]|]; try (apply (mk_intact typed _ k); assumption);
      destruct (cls =? CLS_RENDER)%nat; apply (mk_intact typed _ k); cbn; assumption.
  - cbn. destruct (m_follow m) as [[| [|[|?]] | | | | |]|]; apply (mk_intact typed _ k); cbn; assumption.
  - cbn. destruct (m_follow m) as [[| [|[|?]] | | | | |]|]; apply (mk_intact typed _ k); cbn; assumption.
  - cbn. destruct (hid =? H_RECEIVED)%nat; [|apply (mk_intact typed _ k); assumption].
    destruct (m_istack m) as [|top rest]; [apply (mk_intact typed _ k); assumption|].
    apply (mk_intact typed _ k); cbn; auto. intros x I. apply in_app_or in I. destruct I as [I|[<-|I]]; [auto|exact Ln|].
    apply in_map_iff in I. destruct I as (r & <- & _). left. reflexivity.
Qed.

Definition intact (typed : list (option str)) (w : sworld) : Prop := mintact typed (absw w).

Lemma intact_step typed w e : intact typed w -> intact typed (sworld_step w e).
Proof. unfold intact. rewrite abs_step. apply mintact_step. Qed.

Lemma intact_init typed : intact typed (sworld0 typed).
Proof. apply (mk_intact typed _ 0); cbn; auto. Qed.

Lemma intact_fold typed t : forall w, intact typed w -> intact typed (fold_left sworld_step t w).
Proof. induction t as [|e r IH]; intros w H; cbn; [exact H|]. apply IH, intact_step, H. Qed.

Lemma firstn_In_sub {T} (l : list T) : forall k x, In x (firstn k l) -> In x l.
Proof. induction l as [|y r IH]; intros [|k] x I; cbn in I; try contradiction. destruct I as [<-|I]; [left; reflexivity|right; eauto]. Qed.

Lemma srun_mon_app_head chk t1 e t2 : forall w i, srun_mon chk w (t1 ++ e :: t2) i = None ->
  chk (fold_left sworld_step t1 w) e = true.
Proof.
  induction t1 as [|x r IH]; intros w i H; cbn in H |- *.
  - destruct (chk w e); [reflexivity|discriminate H].
  - destruct (chk w x); [apply (IH _ _ H)|discriminate H].
Qed.

(* every successful ready signal of an accepted trace carries a typed line (the empty line for end of file) *)
Theorem delivered_lines_intact typed t1 n text t2 :
  sok chk_C06_noargs typed (t1 ++ EUser T_READY [n; 1] text :: t2) = true ->
  streq [] text = true \/ exists l, In l typed /\ streq (line_of l) text = true.
Proof.
  intros H. unfold sok in H.
  assert (X : chk_C06_noargs (fold_left sworld_step t1 (sworld0 typed)) (EUser T_READY [n; 1] text) = true).
  { destruct (srun_mon chk_C06_noargs (sworld0 typed) (t1 ++ EUser T_READY [n; 1] text :: t2) 0) eqn:E; [discriminate H|].
    eapply srun_mon_app_head, E. }
  pose proof (intact_fold typed t1 _ (intact_init typed)) as (k & _ & _ & HH).
  unfold chk_C06_noargs in X. apply andb_true_iff in X. destruct X as [_ X]. cbn [T_READY Nat.eqb] in X.
  apply existsb_exists in X. destruct X as (x & I & C). apply andb_true_iff in C. destruct C as [_ C].
  destruct (HH x I) as [E|E]; [left; rewrite <- E; exact C|right].
  apply in_map_iff in E. destruct E as (l & E & I2). exists l. split; [eapply firstn_In_sub; exact I2|rewrite E; exact C].
Qed.

(* ---- an example session: 3 screens (1 pushed with arguments 3, 2 pushed modally), 7 lines incl. an empty one and EOF *)
Definition ex06_spec (inp : list (str * (list scmd * ret_val))) : screen_spec :=
  {| sc_setup := []; sc_refresh := []; sc_show := []; sc_closed := []; sc_input := inp;
     sc_input_default := ([], None); sc_prompt_none := false; sc_input_required := true;
     sc_no_separator := false; sc_skip_check := false; sc_pages := 0; sc_answer0 := AnsNoAttr; sc_custom := []; sc_setup_cmds := [] |}.
Definition ex06_specl : list screen_spec :=
  [ex06_spec [([49%N], ([SPush 1 3], RProcessed)); ([50%N], ([SPushModal 2 0], RProcessed))];
   ex06_spec []; ex06_spec []].
Definition ex06_fargs (s : nat) : nat := if (s =? 1)%nat then 3 else 0.
Definition ex06_typed : list (option str) :=
  [Some [49%N]; Some []; Some [104%N; 101%N; 108%N; 108%N; 111%N]; Some [99%N]; Some [50%N]; Some [32%N; 120%N; 32%N]; None].
Definition ex06_acts : list saction := [SACmds [SSchedule 0 0]; SARun].
Definition ex06_run := app_run_all (fun n => nth n ex06_specl default_spec) ex06_specl ex06_typed None false 3000 ex06_acts.
Definition ex06_trace : list event := rev (trace (snd ex06_run)).
(* a setup() that runs commands: screen 0's setup() pushes screen 1 modally with arguments 5 (T_SETUP_BEGIN); the modal
   screen gets the first typed line (and closes), then setup() reports success and screen 0 gets the second line *)
Definition su06_spec (cmds : list scmd) (inp : list (str * (list scmd * ret_val))) : screen_spec :=
  {| sc_setup := []; sc_refresh := []; sc_show := []; sc_closed := []; sc_input := inp;
     sc_input_default := ([], None); sc_prompt_none := false; sc_input_required := true;
     sc_no_separator := false; sc_skip_check := false; sc_pages := 0; sc_answer0 := AnsNoAttr; sc_custom := [];
     sc_setup_cmds := cmds |}.
Definition su06_specl : list screen_spec :=
  [su06_spec [SPushModal 1 5] []; su06_spec [] [([49%N], ([SCloseNow], RProcessed))]].
Definition su06_typed : list (option str) := [Some [49%N]; Some [50%N]; None].
Definition su06_acts : list saction := [SACmds [SSchedule 0 0]; SARun].
Definition su06_run := app_run_all (fun n => nth n su06_specl default_spec) su06_specl su06_typed None false 3000 su06_acts.
Definition su06_trace : list event := rev (trace (snd su06_run)).
Definition user_events (tag : nat) (t : list event) : list (list nat * str) :=
  flat_map (fun e => match e with EUser tg a x => if (tg =? tag)%nat then [(a, x)] else [] | _ => [] end) t.

(* ---- the same two corollaries for chk_C06 itself *)
Lemma C06_input_only_when_due_full w a t : chk_C06 w (EUser T_INPUT a t) = true -> sw_must_input w <> None.
Proof. intros H. apply (C06_input_only_when_due w a t), chk_C06_stronger, H. Qed.

Theorem delivered_lines_intact_full typed t1 n text t2 :
  sok chk_C06 typed (t1 ++ EUser T_READY [n; 1] text :: t2) = true ->
  streq [] text = true \/ exists l, In l typed /\ streq (line_of l) text = true.
Proof. intros H. apply (delivered_lines_intact typed t1 n text t2). eapply sok_weaken; [apply chk_C06_stronger|exact H]. Qed.

(* ---- finding F15 (fixed): the arguments handed to input() were the InputManager's latest, not the request's.
   LEGACY model = the code before the fix: InputHandler's callback was InputManager.process_input itself, which read
   self._input_args - written by every get_input() of the screen - at delivery time.  Only the ready handler differs:
   it does not put the request's arguments in place. *)
Definition legacy_input_ready_handler (specs : nat -> screen_spec) (n : nat) (sg : signal) : sprog :=
  if negb (sg_a sg =? n)%nat then PRet
  else
    wr (upd_ih n (fun h => h <| ih_received := true |> <| ih_success := sg_b sg |>)) ;;
    evt T_READY [n; b2n (sg_b sg)] (sg_data sg) ;;
    if negb (sg_b sg) then PRet
    else
      wr (upd_ih n (fun h => h <| ih_value := Some (sg_data sg) |>)) ;;
      rd (fun u => if ih_cb (ih_of u n)
                   then wr (upd_ih n (fun h => h <| ih_cb := false |>)) ;; process_input specs (ih_owner (ih_of u n)) (sg_data sg)
                   else PRet).
Definition legacy_screen_code (specs : nat -> screen_spec) (hid : nat) (sg : signal) (data : nat) : sprog :=
  if (hid =? H_RENDER)%nat || (hid =? H_CLOSE)%nat || (hid =? H_RECEIVED)%nat then screen_code specs hid sg data
  else if (10 <=? hid)%nat then legacy_input_ready_handler specs (hid - 10) sg
  else screen_code specs hid sg data.                (* a screen's own signal callback, or nothing *)
Fixpoint legacy_app_session (specs : nat -> screen_spec) (fuel : nat) (acts : list saction) (s : lstate sstate)
  : list outcome * lstate sstate :=
  match acts with
  | [] => ([], s)
  | a :: r =>
    let '(o, s1) :=
      match a with
      | SACmds l => exec (legacy_screen_code specs) fuel (CProg (run_cmds specs 0 0 l)) (emit ETop s)
      | SARun =>
        match st_stack (ust s), st_run_empty (ust s) with
        | [], false => (OThrow XError, emit ETop s)
        | _, _ => exec (legacy_screen_code specs) fuel CRun (emit ETop s)
        end
      end in
    match o with
    | OBlocked | OFuel | OThrow XSysExit => ([o], s1)
    | _ => let '(os, s2) := legacy_app_session specs fuel r s1 in (o :: os, s2)
    end
  end.
Definition legacy_app_run_all (specs : nat -> screen_spec) (specl : list screen_spec) (typed : list (option str))
           (quit : option nat) (run_empty : bool) (fuel : nat) (acts : list saction) : list outcome * lstate sstate :=
  let s0 := init_state (sstate0 specl typed quit run_empty) in
  let '(_, s1) := exec (legacy_screen_code specs) 20 (CProg app_initialize) s0 in
  legacy_app_session specs fuel acts s1.

(* the F15 session (corpus/screen/regression_F15_args_overwritten.json): run() twice after force_quit; the refused second request
   of the same screen, scheduled a second time with arguments 2, overwrote InputManager._input_args *)
Definition f15_spec : screen_spec :=
  {| sc_setup := []; sc_refresh := [SIfCount 1 [] [SForceQuit]]; sc_show := [SIfCount 1 [SPush 0 2] []]; sc_closed := [];
     sc_input := []; sc_input_default := ([], Some RProcessed); sc_prompt_none := false; sc_input_required := true;
     sc_no_separator := false; sc_skip_check := false; sc_pages := 0; sc_answer0 := AnsNoAttr; sc_custom := []; sc_setup_cmds := [] |}.
Definition f15_typed : list (option str) := [Some [49%N]; Some [50%N]].
Definition f15_acts : list saction := [SACmds [SSchedule 0 1]; SARun; SARun].
Definition f15_trace : list event :=
  rev (trace (snd (app_run_all (fun n => nth n [f15_spec] default_spec) [f15_spec] f15_typed None false 500 f15_acts))).
Definition f15_legacy_trace : list event :=
  rev (trace (snd (legacy_app_run_all (fun n => nth n [f15_spec] default_spec) [f15_spec] f15_typed None false 500 f15_acts))).
