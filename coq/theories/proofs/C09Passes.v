(* C09Passes.v — four inductions on [Exec] derivations (any handler code, any call, any state):
   [inv_Exec]      force-quit in effect implies the stop flag is down;
   [no_error_Exec] an ordinary exception never comes out of _process_signal, the loops or run();
   [phi_Exec]      the counting argument: open levels + raised stop flag never grows, and a main loop
                   that returns normally has consumed one unit (or force-quit happened);
   [ghost_Exec]    the monitor's view of the trace stays linked to the loop's fields; run()'s bookkeeping
                   (in_run, quit_called, run_levels1) is untouched and "cause" only grows outside run(). *)
From SL Require Import Tac.
From RecordUpdate Require Import RecordUpdate.
From SL Require Import LoopSem Monitors.
From SL Require Import proofs.C09Exec proofs.C09Base.
Import ListNotations.

(* the calls an ordinary exception never leaves / that report an exit as a cause *)
Definition is4 {U} (c : call U) : bool :=
  match c with CRun | CMainloop | CProcLoop | CProcessSignal _ _ => true | _ => false end.
Definition is3 {U} (c : call U) : bool :=
  match c with CMainloop | CProcLoop | CProcessSignal _ _ => true | _ => false end.

Ltac inv_eqs :=
  repeat match goal with
  | H : new_signal _ _ = (_, _) |- _ => apply new_signal_eq in H; destruct H as [? ?]; subst
  | H : do_get _ = inl (Some (_, _)) |- _ => apply do_get_some in H; destruct H as [? ?]; subst
  | H : do_get _ = inr _ |- _ => apply do_get_ext in H; destruct H as (? & ? & ?); subst
  end.

Ltac vcbn := cbn [view_step v_levels v_fq v_quit v_in_run v_rl1 v_cause v_exiting v_qc is_exit isnil].
Ltac vcbn_in H := cbn [view_step v_levels v_fq v_quit v_in_run v_rl1 v_cause v_exiting v_qc is_exit isnil] in H.
Ltac nrm := autorewrite with st; vcbn; rewrite ?orb_false_r, ?orb_true_r.
Ltac nrm_in H := autorewrite with st in H; vcbn_in H; rewrite ?orb_false_r, ?orb_true_r in H.

(* forward chaining through induction hypotheses: discharge the premise with [solver], then normalise.
   Premises that are plain equations between outcomes, calls, exceptions or flag tests are only tried
   with a cheap solver (they are either immediate or not provable at all). *)
Ltac cheap := solve [assumption | reflexivity | congruence].
Ltac fwd solver :=
  repeat match goal with
  | IH : ?P -> ?Q |- _ =>
      let HP := fresh "HP" in
      lazymatch P with
      | false = true => fail
      | @eq outcome _ _ => assert (HP : P) by cheap
      | @eq (call _) _ _ => assert (HP : P) by cheap
      | @eq exn _ _ => assert (HP : P) by cheap
      | force_quit _ = true => assert (HP : P) by cheap
      | is3 _ = true => assert (HP : P) by cheap
      | _ => assert (HP : P) by solver
      end;
      specialize (IH HP); clear HP; nrm_in IH
  end.

Lemma isnil_snoc {A} (l : list A) x : isnil (l ++ [x]) = false.
Proof. destruct l; reflexivity. Qed.

Ltac conjs := repeat match goal with H : _ /\ _ |- _ => destruct H end.
Definition done (P : Prop) : Prop := P.

Section P.
  Context {U : Type}.
  Variable code : nat -> signal -> nat -> prog U.
  Notation Exec := (Exec code).

  Lemma inv_Exec c s o s' : Exec c s o s' -> inv s -> inv s'.
  Proof.
    induction 1; intros I; inv_eqs; unfold inv in *;
      fwd ltac:(nrm; solve [auto | intros; discriminate]);
      try solve [nrm; solve [auto | intros; discriminate]].
    - destruct (quit_cb s1) eqn:Q; [rewrite (quit_call_some _ _ Q)|rewrite (quit_call_none _ Q)]; nrm; auto.
    - destruct (force_quit s) eqn:E; [rewrite (ml_exit_fq _ E)|rewrite (ml_exit_nofq _ E)]; nrm; auto; congruence.
  Qed.

  (* ---- a failing handler never ends a dispatch, a loop or run() ---- *)

  Lemma no_error_Exec c s o s' : Exec c s o s' -> is4 c = true -> o <> OThrow XError.
  Proof.
    induction 1; cbn [is4]; intros I; try discriminate; auto.
    - congruence.
    - match goal with D : _ = OBlocked \/ _ = OFuel |- _ => destruct D; subst; discriminate end.
  Qed.

  (* ---- the counting argument: open levels + stop flag ---- *)
  Definition rl (b : bool) : nat := if b then 0 else 1.
  Definition phi (s : lstate U) : nat := length (levels s) + rl (run_loop s).

  Definition quiet (o : outcome) : Prop := o = ONormal \/ o = OThrow XError.

  Lemma phi_Exec c s o s' :
    Exec c s o s' -> c <> CRun -> quiet o -> force_quit s' = false ->
    force_quit s = false /\ phi s' <= phi s /\ (levels s <> [] -> levels s' <> []) /\
    (c = CMainloop -> phi s' + 1 <= phi s).
  Proof.
    unfold quiet, phi.
    induction 1; intros NR Q F; inv_eqs; nrm_in F;
      fwd ltac:(nrm; solve [auto | discriminate | intuition congruence]).
    all: try solve [nrm; intuition (try congruence; try lia)].
    - destruct (force_quit s) eqn:E; [rewrite (ml_exit_fq _ E) in *; congruence|]. rewrite (ml_exit_nofq _ E). nrm.
      match goal with R : run_loop s = false |- _ => rewrite R end. cbn [rl].
      repeat split; auto; lia.
    - exfalso. destruct Q; [congruence|]. subst. eapply no_error_Exec; eauto.
    - destruct IHExec as (A & B & C & D). specialize (D eq_refl). rewrite app_length in *. cbn [length] in *. nrm.
      repeat split; auto; try lia; try discriminate.
      intros _. apply C. intros E. destruct (levels s); discriminate E.
    - exfalso. destruct Q; [congruence|]. subst. eapply no_error_Exec; eauto.
    - destruct IHExec as (A & B & C & D).
      match goal with R : rev (levels _) = _ |- _ => pose proof (length_rev_cons _ _ _ R) as L end. cbn [length] in L.
      nrm. rewrite ?app_length, ?rev_length. cbn [length rl].
      repeat split; auto; try lia; try discriminate.
      intros _ E. apply app_eq_nil in E as [_ E]. discriminate E.
  Qed.

  (* ---- the ghost view across a call: the link is kept, run()'s bookkeeping is left alone ---- *)

  Definition ghost_post (c : call U) (s : lstate U) (o : outcome) (s' : lstate U) : Prop :=
    link s' /\
    (c <> CRun -> v_in_run (G s') = v_in_run (G s) /\ v_qc (G s') = v_qc (G s) /\ v_rl1 (G s') = v_rl1 (G s) /\
                  (v_cause (G s) = true -> v_cause (G s') = true)) /\
    (v_exiting (G s) = false -> o <> OThrow XExit -> v_exiting (G s') = false) /\
    (is3 c = true -> o = OThrow XExit -> v_cause (G s') = true) /\
    (c = CRun -> o = ONormal -> v_in_run (G s') = false).

  Lemma ghost_Exec c s o s' : Exec c s o s' -> link s -> ghost_post c s o s'.
  Proof.
    unfold ghost_post, link.
    induction 1; intros L; destruct L as (L1 & L2 & L3); inv_eqs;
      repeat (fwd ltac:(nrm; solve [intuition congruence]); conjs).
    all: try solve [nrm; cbn [is3]; intuition (try congruence)].
    - destruct (quit_cb s1) eqn:Q; [rewrite (quit_call_some _ _ Q)|rewrite (quit_call_none _ Q)]; nrm; intuition congruence.
    - destruct (force_quit s) eqn:E; [rewrite (ml_exit_fq _ E)|rewrite (ml_exit_nofq _ E)]; nrm; intuition congruence.
    - destruct e; nrm; intuition congruence.
    - match goal with R : rev (levels _) = _ |- _ => pose proof (removelast_rev _ _ _ R) as RL end. nrm.
      repeat match goal with Hl : v_levels _ = levels _ |- _ => rewrite Hl end. rewrite RL. cbn [rev app isnil].
      rewrite ?orb_true_r. intuition congruence.
    - match goal with R : rev (levels _) = _ |- _ => pose proof (removelast_rev _ _ _ R) as RL end. nrm.
      repeat match goal with Hl : v_levels _ = levels _ |- _ => rewrite Hl end. rewrite RL. cbn [rev app].
      rewrite ?isnil_snoc, ?orb_false_r. intuition congruence.
  Qed.

End P.
