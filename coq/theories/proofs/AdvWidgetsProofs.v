(* AdvWidgetsProofs.v — facts about the specs of AdvWidgets.v (the stock dialogs of render/adv_widgets.py)
   inside the screen-layer model: what their input() answers, what the quit protocol does with a
   YesNoDialog, and that they are well-formed members of any session table (so the screen-layer theorems
   cover applications that use them). *)
From SL Require Import Tac.
From RecordUpdate Require Import RecordUpdate.
From SL Require Import PyInt LoopSem ScreenSem ScreenMon AdvWidgets proofs.ScreenLink proofs.C04Proofs proofs.C08Proofs.
Import ListNotations.

(* ================================================================ strings *)
Lemma str_eqb_refl k : str_eqb k k = true.
Proof.
  unfold str_eqb. rewrite Nat.eqb_refl. cbn [andb].
  induction k as [|c k IH]; cbn [combine forallb fst snd]; [reflexivity|]. rewrite N.eqb_refl. exact IH.
Qed.

Lemma str_eqb_eq k : forall k', str_eqb k k' = true -> k = k'.
Proof.
  unfold str_eqb. induction k as [|c k IH]; intros [|c' k'] H; cbn [length] in H; try reflexivity; try discriminate H.
  cbn [combine forallb fst snd] in H. apply andb_true_iff in H. destruct H as [Hl H].
  apply andb_true_iff in H. destruct H as [Hc H]. apply N.eqb_eq in Hc. subst c'.
  f_equal. apply IH. rewrite H, andb_true_r. cbn [Nat.eqb] in Hl. exact Hl.
Qed.

Lemma str_eqb_neq k k' : k <> k' -> str_eqb k k' = false.
Proof. intros H. destruct (str_eqb k k') eqn:E; [|reflexivity]. elim H. apply str_eqb_eq. exact E. Qed.

(* the lookup of ScreenSem.call_input, with the comparison named *)
Lemma assoc_str_cons k k' v l :
  assoc_str k ((k', v) :: l) = if str_eqb k k' then Some v else assoc_str k l.
Proof. reflexivity. Qed.

(* what call_input runs and returns for a key: the table entry or the default *)
Definition input_entry (sp : screen_spec) (key : str) : list scmd * ret_val :=
  match assoc_str key (sc_input sp) with
  | Some (c, r) => (c, r)
  | None => (fst (sc_input_default sp), match snd (sc_input_default sp) with Some r => r | None => RKey key end)
  end.

(* ================================================================ the answer tables *)
Lemma yesno_table key :
  input_entry yes_no_dialog_spec key =
  if str_eqb key s_yes then ([SSetAnswer AnsTrue], RClose)
  else if str_eqb key s_no then ([SSetAnswer AnsOther], RClose)
  else ([], RDiscarded).
Proof.
  unfold input_entry, yes_no_dialog_spec. cbn [sc_input sc_input_default fst snd].
  rewrite !assoc_str_cons. destruct (str_eqb key s_yes); [reflexivity|]. destruct (str_eqb key s_no); reflexivity.
Qed.

Lemma yesno_action key :
  action_of (snd (input_entry yes_no_dialog_spec key)) =
  if str_eqb key s_yes || str_eqb key s_no then AClose else AError.
Proof. rewrite yesno_table. destruct (str_eqb key s_yes), (str_eqb key s_no); reflexivity. Qed.

Lemma help_table key : input_entry help_screen_spec key = ([], RClose).
Proof. reflexivity. Qed.

Lemma error_table key : input_entry error_dialog_spec key = ([SSysExit], RNone).
Proof. reflexivity. Qed.

Lemma password_table key :
  input_entry password_dialog_spec key = match key with [] => ([], RDiscarded) | _ => ([SSetAnswer AnsOther], RClose) end.
Proof. destruct key; reflexivity. Qed.

(* GetInputScreen: the table built from the conditions answers as _test_input does, for EVERY key *)
Lemma assoc_getinput (g : str -> list scmd * ret_val) key : forall keys,
  assoc_str key (map (fun k => (k, g k)) keys) = if mem_str key keys then Some (g key) else None.
Proof.
  induction keys as [|k keys IH]; [reflexivity|].
  cbn [map]. rewrite assoc_str_cons. cbn [mem_str existsb]. fold (mem_str key keys).
  destruct (str_eqb key k) eqn:E; cbn [orb].
  - apply str_eqb_eq in E. subst k. reflexivity.
  - exact IH.
Qed.

Lemma mem_str_app key a b : mem_str key (a ++ b) = mem_str key a || mem_str key b.
Proof. unfold mem_str. apply existsb_app. Qed.

Lemma unmentioned_default key : forall conds,
  mem_str key (flat_map cond_keys conds) = false -> test_input conds key = forallb cond_default conds.
Proof.
  induction conds as [|c conds IH]; [reflexivity|].
  cbn [flat_map]. rewrite mem_str_app. intros H. apply orb_false_iff in H. destruct H as [Hc Hr].
  cbn [test_input forallb]. fold (test_input conds key). rewrite (IH Hr). f_equal.
  destruct c as [l|l]; cbn [cond_keys] in Hc; cbn [cond_accepts cond_default]; rewrite Hc; reflexivity.
Qed.

Lemma getinput_table conds key :
  input_entry (get_input_screen_spec conds) key = ([], accept_ret (test_input conds key)).
Proof.
  unfold input_entry, get_input_screen_spec. cbn [sc_input sc_input_default fst snd].
  rewrite (assoc_getinput (fun k => ([], accept_ret (test_input conds k)))).
  destruct (mem_str key (flat_map cond_keys conds)) eqn:E; [reflexivity|].
  rewrite (unmentioned_default _ _ E). reflexivity.
Qed.

Lemma getinput_action conds key :
  action_of (snd (input_entry (get_input_screen_spec conds) key)) = if test_input conds key then AClose else AError.
Proof. rewrite getinput_table. destruct (test_input conds key); reflexivity. Qed.

(* ================================================================ running input() of a stock dialog *)
Lemma lstate_eta {U} (s : lstate U) : s <| ust := ust s |> = s.
Proof. destruct s; reflexivity. Qed.

Lemma nth_upd_same {A} (l : list A) : forall k (f : A -> A) d, k < length l -> nth k (upd_nth l k f) d = f (nth k l d).
Proof.
  induction l as [|a l IH]; intros [|k] f d H; cbn [length] in H; try lia; cbn [upd_nth nth]; [reflexivity|].
  apply IH. lia.
Qed.

Lemma nth_upd_other {A} (l : list A) : forall k x (f : A -> A) d, x <> k -> nth x (upd_nth l k f) d = nth x l d.
Proof.
  induction l as [|a l IH]; intros [|k] [|x] f d H; cbn [upd_nth nth]; try reflexivity; try (elim H; reflexivity).
  apply IH. lia.
Qed.

Lemma length_upd {A} (l : list A) : forall k (f : A -> A), length (upd_nth l k f) = length l.
Proof. induction l as [|a l IH]; intros [|k] f; cbn [upd_nth length]; auto. Qed.

Lemma nth_upd_cases {A} (l : list A) : forall k x (f : A -> A) d,
  nth x (upd_nth l k f) d = f (nth x l d) \/ nth x (upd_nth l k f) d = nth x l d.
Proof.
  induction l as [|a l IH]; intros [|k] [|x] f d; cbn [upd_nth nth]; auto.
Qed.

Section Run.
  Variable specs : nat -> screen_spec.
  Notation ex := (exec (screen_code specs)).

  Lemma exec_rd f (k : sstate -> sprog) s : ex (S f) (CProg (rd k)) s = ex f (CProg (k (ust s))) s.
  Proof. unfold rd. cbn [exec]. rewrite lstate_eta. reflexivity. Qed.

  Lemma exec_seq f (p q : sprog) s :
    ex (S f) (CProg (p ;; q)) s =
    let '(o, s1) := ex f (CProg p) s in match o with ONormal => ex f (CProg q) s1 | _ => (o, s1) end.
  Proof. reflexivity. Qed.

  (* call_input on a screen whose table entry for the key is (cmds, rv), cmds being at most one SSetAnswer:
     one T_INPUT event, the counter, the answer, the return register; nothing else *)
  Definition after_input (scr : nat) (key : str) (a : option answer) (rv : ret_val) (s : lstate sstate) : lstate sstate :=
    emit (EUser T_INPUT [scr; ss_input_args (scr_of (ust s) scr)] key) s
      <| ust := (match a with
                 | Some a => upd_scr scr (fun x => x <| ss_answer := a |>)
                 | None => fun u => u
                 end (upd_scr scr (fun x => x <| ss_n_input := S (ss_n_input (scr_of (ust s) scr)) |>) (ust s)))
                <| st_rv := rv |> |>.

  Lemma call_input_plain scr key rv f s :
    input_entry (specs scr) key = ([], rv) ->
    ex (8 + f) (CProg (call_input specs scr key)) s = (ONormal, after_input scr key None rv s).
  Proof.
    intros E. unfold call_input, input_entry in *.
    destruct (match assoc_str key (sc_input (specs scr)) with
              | Some (c, r) => (c, r)
              | None => (fst (sc_input_default (specs scr)),
                         match snd (sc_input_default (specs scr)) with Some r => r | None => RKey key end)
              end) as [cmds rv'] eqn:E1.
    inversion E; subst cmds rv'; clear E.
    unfold rd, wr, evt, run_cmds. cbn [Nat.add]. cbn [exec do_scmds user_event].
    unfold after_input, emit. destruct s; reflexivity.
  Qed.

  Lemma call_input_answer scr key a rv f s :
    input_entry (specs scr) key = ([SSetAnswer a], rv) ->
    ex (10 + f) (CProg (call_input specs scr key)) s = (ONormal, after_input scr key (Some a) rv s).
  Proof.
    intros E. unfold call_input, input_entry in *.
    destruct (match assoc_str key (sc_input (specs scr)) with
              | Some (c, r) => (c, r)
              | None => (fst (sc_input_default (specs scr)),
                         match snd (sc_input_default (specs scr)) with Some r => r | None => RKey key end)
              end) as [cmds rv'] eqn:E1.
    inversion E; subst cmds rv'; clear E.
    unfold rd, wr, evt, run_cmds. cbn [Nat.add]. cbn [exec do_scmds do_scmd user_event].
    unfold wr. cbn [exec]. unfold after_input, emit. destruct s; reflexivity.
  Qed.

  Lemma after_input_answer scr key a rv s :
    scr < length (st_scr (ust s)) ->
    ss_answer (scr_of (ust (after_input scr key a rv s)) scr) =
    match a with Some a => a | None => ss_answer (scr_of (ust s) scr) end.
  Proof.
    intros H. unfold after_input, scr_of. destruct a as [a|]; cbn [ust set st_scr upd_scr].
    - rewrite nth_upd_same; [reflexivity|]. rewrite length_upd. exact H.
    - rewrite nth_upd_same; [reflexivity | exact H].
  Qed.

  Lemma after_input_rv scr key a rv s : st_rv (ust (after_input scr key a rv s)) = rv.
  Proof. reflexivity. Qed.

  Lemma after_input_trace scr key a rv s :
    trace (after_input scr key a rv s) = EUser T_INPUT [scr; ss_input_args (scr_of (ust s) scr)] key :: trace s.
  Proof. reflexivity. Qed.

  Lemma after_input_stack scr key a rv s : st_stack (ust (after_input scr key a rv s)) = st_stack (ust s).
  Proof. unfold after_input. destruct a; reflexivity. Qed.

  (* ---- YesNoDialog ---- *)
  Lemma yesno_yes scr f s :
    specs scr = yes_no_dialog_spec ->
    ex (10 + f) (CProg (call_input specs scr s_yes)) s = (ONormal, after_input scr s_yes (Some AnsTrue) RClose s).
  Proof. intros E. apply call_input_answer. rewrite E. reflexivity. Qed.

  Lemma yesno_no scr f s :
    specs scr = yes_no_dialog_spec ->
    ex (10 + f) (CProg (call_input specs scr s_no)) s = (ONormal, after_input scr s_no (Some AnsOther) RClose s).
  Proof. intros E. apply call_input_answer. rewrite E. reflexivity. Qed.

  Lemma yesno_other scr key f s :
    specs scr = yes_no_dialog_spec -> key <> s_yes -> key <> s_no ->
    ex (8 + f) (CProg (call_input specs scr key)) s = (ONormal, after_input scr key None RDiscarded s).
  Proof.
    intros E Hy Hn. apply call_input_plain. rewrite E, yesno_table, (str_eqb_neq _ _ Hy), (str_eqb_neq _ _ Hn). reflexivity.
  Qed.

  (* ---- GetInputScreen ---- *)
  Lemma getinput_run conds scr key f s :
    specs scr = get_input_screen_spec conds ->
    ex (8 + f) (CProg (call_input specs scr key)) s =
    (ONormal, after_input scr key None (accept_ret (test_input conds key)) s).
  Proof. intros E. apply call_input_plain. rewrite E. apply getinput_table. Qed.

  (* ---- HelpScreen ---- *)
  Lemma help_run scr key f s :
    specs scr = help_screen_spec ->
    ex (8 + f) (CProg (call_input specs scr key)) s = (ONormal, after_input scr key None RClose s).
  Proof. intros E. apply call_input_plain. rewrite E. reflexivity. Qed.

  (* ---- refresh() of the dialog: one T_REFRESH event, the answer is left alone (it exists from __init__ on) ---- *)
  Lemma yesno_refresh d f s :
    specs (sd_scr d) = yes_no_dialog_spec ->
    exists s', ex (6 + f) (CProg (call_refresh specs d)) s = (ONormal, s') /\
      trace s' = EUser T_REFRESH [sd_id d; sd_scr d; sd_args d] [] :: trace s /\
      st_stack (ust s') = st_stack (ust s) /\
      ss_answer (scr_of (ust s') (sd_scr d)) = ss_answer (scr_of (ust s) (sd_scr d)).
  Proof.
    intros E. unfold call_refresh. cbn [Nat.add]. rewrite exec_rd. cbv zeta. rewrite E.
    cbn [sc_refresh yes_no_dialog_spec]. unfold wr, ev, run_cmds. cbn [do_scmds exec user_event].
    eexists. split; [reflexivity|]. cbn [trace emit set ust st_stack upd_scr]. repeat split.
    unfold scr_of, upd_scr. cbn [st_scr set].
    destruct (nth_upd_cases (st_scr (ust s)) (sd_scr d) (sd_scr d)
                (fun s0 : scrst => s0 <| ss_n_refresh := S (ss_n_refresh (nth (sd_scr d) (st_scr (ust s)) (scr0 default_spec))) |>)
                (scr0 default_spec)) as [R|R]; rewrite R; reflexivity.
  Qed.

  (* ---- ErrorDialog: input() leaves with SystemExit: one T_INPUT event, no action, no ExceptionSignal ---- *)
  Lemma error_input scr key f s :
    specs scr = error_dialog_spec ->
    exists s', ex (8 + f) (CProg (call_input specs scr key)) s = (OThrow XSysExit, s') /\
      trace s' = EUser T_INPUT [scr; ss_input_args (scr_of (ust s) scr)] key :: trace s /\
      st_stack (ust s') = st_stack (ust s).
  Proof.
    intros E. unfold call_input. rewrite E. cbn [sc_input error_dialog_spec assoc_str sc_input_default fst snd].
    unfold rd, wr, evt, run_cmds. cbn [Nat.add]. cbn [exec do_scmds do_scmd user_event].
    eexists. split; [reflexivity|]. split; reflexivity.
  Qed.

  Lemma exec_try f (p h : sprog) s :
    ex (S f) (CProg (PTry p h)) s =
    let '(o, s1) := ex f (CProg p) s in match o with OThrow XError => ex f (CProg h) s1 | _ => (o, s1) end.
  Proof. reflexivity. Qed.

  Lemma exec_wr f (g : sstate -> sstate) s : ex (S (S f)) (CProg (wr g)) s = (ONormal, s <| ust := g (ust s) |>).
  Proof. reflexivity. Qed.

  Lemma error_process scr key f s :
    specs scr = error_dialog_spec ->
    exists s', ex (12 + f) (CProg (process_input specs scr key)) s = (OThrow XSysExit, s') /\
      trace s' = EUser T_INPUT [scr; ss_input_args (scr_of (ust s) scr)] key :: trace s /\
      st_stack (ust s') = st_stack (ust s).
  Proof.
    intros E. unfold process_input. cbn [Nat.add]. rewrite exec_seq, exec_wr.
    rewrite exec_seq, exec_try, exec_seq.
    destruct (error_input scr key f (s <| ust := ust s <| st_rb := false |> |>) E) as [s' [R [Ht Hs]]].
    cbn [Nat.add] in R. rewrite R. eexists. split; [reflexivity|]. split; [exact Ht | exact Hs].
  Qed.

  (* ---- the quit protocol: one unfolding of process_input_result for the quit key ---- *)
  Lemma quit_protocol qs top rest sr f s :
    st_stack (ust s) = top :: rest -> st_quit (ust s) = Some qs ->
    ex (6 + f) (CProg (process_input_result specs AQuit sr)) s =
    let '(o, s1) := ex (3 + f) (CProg (push_screen_modal specs qs 0)) s in
    match o with
    | ONormal =>
      match ss_answer (scr_of (ust s1) qs) with
      | AnsOther => let '(sg, s2) := new_signal s1 (render_spec None) in (ONormal, do_enqueue s2 sg)
      | _ => (OThrow XExit, s1)
      end
    | _ => (o, s1)
    end.
  Proof.
    intros Hst Hq. unfold process_input_result, with_top. cbn [Nat.add]. rewrite exec_rd, Hst, exec_rd, Hq.
    rewrite exec_seq.
    destruct (ex (S (S (S f))) (CProg (push_screen_modal specs qs 0)) s) as [o s1].
    destruct o; try reflexivity.
    rewrite exec_rd.
    destruct (ss_answer (scr_of (ust s1) qs)); reflexivity.
  Qed.

  Lemma no_quit_screen top rest sr f s :
    st_stack (ust s) = top :: rest -> st_quit (ust s) = None ->
    ex (3 + f) (CProg (process_input_result specs AQuit sr)) s = (OThrow XExit, s).
  Proof.
    intros Hst Hq. unfold process_input_result, with_top. cbn [Nat.add]. rewrite exec_rd, Hst, exec_rd, Hq. reflexivity.
  Qed.
End Run.

(* ================================================================ the `answer` attribute before any callback *)
Lemma initial_answer specl typed quit run_empty : forall i sp,
  nth_error specl i = Some sp -> ss_answer (scr_of (sstate0 specl typed quit run_empty) i) = sc_answer0 sp.
Proof.
  unfold scr_of, sstate0. cbn [st_scr].
  induction specl as [|a l IH]; intros [|i] sp H; cbn [nth_error] in H; try discriminate H.
  - inversion H; subst. reflexivity.
  - cbn [map nth]. apply IH. exact H.
Qed.

Lemma adv_answer0 k :
  sc_answer0 (adv_spec k) = match k with KYesNo | KPassword => AnsOther | _ => AnsNoAttr end.
Proof. destruct k; reflexivity. Qed.

Lemma str_eqb_iff k k' : str_eqb k k' = true <-> k = k'.
Proof. split; [apply str_eqb_eq | intros ->; apply str_eqb_refl]. Qed.

Lemma yesno_answers specs scr f s :
  specs scr = yes_no_dialog_spec -> scr < length (st_scr (ust s)) ->
  (exists s', exec (screen_code specs) (10 + f) (CProg (call_input specs scr s_yes)) s = (ONormal, s') /\
     ss_answer (scr_of (ust s') scr) = AnsTrue /\ action_of (st_rv (ust s')) = AClose /\
     trace s' = EUser T_INPUT [scr; ss_input_args (scr_of (ust s) scr)] s_yes :: trace s /\
     st_stack (ust s') = st_stack (ust s)) /\
  (exists s', exec (screen_code specs) (10 + f) (CProg (call_input specs scr s_no)) s = (ONormal, s') /\
     ss_answer (scr_of (ust s') scr) = AnsOther /\ action_of (st_rv (ust s')) = AClose /\
     trace s' = EUser T_INPUT [scr; ss_input_args (scr_of (ust s) scr)] s_no :: trace s /\
     st_stack (ust s') = st_stack (ust s)) /\
  (forall key, key <> s_yes -> key <> s_no ->
   exists s', exec (screen_code specs) (8 + f) (CProg (call_input specs scr key)) s = (ONormal, s') /\
     ss_answer (scr_of (ust s') scr) = ss_answer (scr_of (ust s) scr) /\ action_of (st_rv (ust s')) = AError /\
     trace s' = EUser T_INPUT [scr; ss_input_args (scr_of (ust s) scr)] key :: trace s /\
     st_stack (ust s') = st_stack (ust s)).
Proof.
  intros E H. split; [|split].
  - eexists. split; [apply yesno_yes; exact E|]. rewrite after_input_answer by exact H. rewrite after_input_stack. repeat split.
  - eexists. split; [apply yesno_no; exact E|]. rewrite after_input_answer by exact H. rewrite after_input_stack. repeat split.
  - intros key Hy Hn. eexists. split; [apply yesno_other; assumption|].
    rewrite after_input_answer by exact H. rewrite after_input_stack. repeat split.
Qed.

Lemma getinput_run_ex specs conds scr key f s :
  specs scr = get_input_screen_spec conds ->
  exists s', exec (screen_code specs) (8 + f) (CProg (call_input specs scr key)) s = (ONormal, s') /\
    st_rv (ust s') = accept_ret (test_input conds key) /\
    trace s' = EUser T_INPUT [scr; ss_input_args (scr_of (ust s) scr)] key :: trace s /\
    st_stack (ust s') = st_stack (ust s).
Proof.
  intros E. eexists. split; [apply getinput_run; exact E|]. rewrite after_input_stack. repeat split.
Qed.

(* ================================================================ well-formedness: members of any table *)
Lemma adv_spec_wf n k : spec_wf n (adv_spec k) = true.
Proof.
  assert (G : forall conds, spec_wf n (get_input_screen_spec conds) = true).
  { intros conds. unfold spec_wf, get_input_screen_spec. cbn [sc_refresh sc_show sc_closed sc_input sc_input_default sc_custom sc_setup_cmds forallb fst andb].
    rewrite andb_true_r. induction (flat_map cond_keys conds) as [|x l IH]; [reflexivity|].
    cbn [map forallb fst snd andb]. exact IH. }
  destruct k; try reflexivity; apply G.
Qed.

Lemma scmd_wf_mono n m : n <= m -> forall c, scmd_wf n c = true -> scmd_wf m c = true.
Proof.
  intros Hnm. apply (scmd_ind' (fun c => scmd_wf n c = true -> scmd_wf m c = true)).
  intros c Hc. destruct c; cbn [scmd_wf]; try (intros H; apply Nat.ltb_lt in H; apply Nat.ltb_lt; lia); try reflexivity.
  destruct Hc as [Ht He]. intros H. apply andb_true_iff in H. destruct H as [H1 H2]. apply andb_true_iff. split.
  - apply forallb_forall. intros x Hx. rewrite Forall_forall in Ht. apply Ht; [exact Hx|].
    rewrite forallb_forall in H1. apply H1. exact Hx.
  - apply forallb_forall. intros x Hx. rewrite Forall_forall in He. apply He; [exact Hx|].
    rewrite forallb_forall in H2. apply H2. exact Hx.
Qed.

Lemma cmds_wf_mono n m l : n <= m -> forallb (scmd_wf n) l = true -> forallb (scmd_wf m) l = true.
Proof.
  intros Hnm H. apply forallb_forall. intros x Hx. rewrite forallb_forall in H. apply (scmd_wf_mono n m Hnm). apply H. exact Hx.
Qed.

Lemma spec_wf_mono n m sp : n <= m -> spec_wf n sp = true -> spec_wf m sp = true.
Proof.
  intros Hnm. unfold spec_wf. rewrite !andb_true_iff. intros [[[[[[H1 H2] H3] H4] H5] H6] H7].
  repeat split; try (eapply cmds_wf_mono; eassumption).
  - apply forallb_forall. intros kv Hkv. rewrite forallb_forall in H4. eapply cmds_wf_mono; [exact Hnm|]. apply H4. exact Hkv.
  - apply forallb_forall. intros l Hl. rewrite forallb_forall in H6. eapply cmds_wf_mono; [exact Hnm|]. apply H6. exact Hl.
Qed.

Lemma saction_wf_mono n m a : n <= m -> saction_wf n a = true -> saction_wf m a = true.
Proof. intros Hnm. destruct a; cbn [saction_wf]; [apply cmds_wf_mono; exact Hnm | auto]. Qed.

(* the application's own screens [own] (well-formed among themselves or referring to the dialogs) plus stock
   dialogs: a well-formed session *)
Lemma adv_wf_session own ks quit acts :
  forallb (spec_wf (length own + length ks)) own = true ->
  match quit with Some q => q < length own + length ks | None => True end ->
  forallb (saction_wf (length own + length ks)) acts = true ->
  wf_session (own ++ map adv_spec ks) quit acts = true.
Proof.
  intros Ho Hq Ha. unfold wf_session. rewrite app_length, map_length, forallb_app, Ho, Ha, andb_true_r. cbn [andb].
  apply andb_true_iff. split.
  - apply forallb_forall. intros sp Hsp. apply in_map_iff in Hsp. destruct Hsp as [k [<- _]]. apply adv_spec_wf.
  - destruct quit as [q|]; [apply Nat.ltb_lt; exact Hq | reflexivity].
Qed.

(* adding stock dialogs to a well-formed session keeps it well-formed *)
Lemma adv_wf_extend own ks quit acts :
  wf_session own quit acts = true -> wf_session (own ++ map adv_spec ks) quit acts = true.
Proof.
  intros H. destruct (wf_session_parts _ _ _ H) as [H1 [H2 H3]].
  apply adv_wf_session.
  - apply forallb_forall. intros sp Hsp. rewrite forallb_forall in H1. eapply spec_wf_mono; [|apply H1; exact Hsp]. lia.
  - destruct quit as [q|]; [|exact I]. specialize (H2 q eq_refl). lia.
  - apply forallb_forall. intros a Ha. rewrite forallb_forall in H3. eapply saction_wf_mono; [|apply H3; exact Ha]. lia.
Qed.

(* the stock dialogs' setup() does nothing of its own: only the application's own screens matter for the hypothesis
   about setup() with commands *)
Lemma adv_spec_setup_plain k : sc_setup_cmds (adv_spec k) = [].
Proof. destruct k; reflexivity. Qed.

Lemma adv_failing_setup_plain specs own ks :
  (forall n, specs n = nth n (own ++ map adv_spec ks) default_spec) ->
  (forall sp, In sp own -> In false (sc_setup sp) -> sc_setup_cmds sp = []) ->
  failing_setup_plain specs.
Proof.
  intros Hs Ho n Hf. rewrite Hs in *.
  destruct (Nat.lt_ge_cases n (length (own ++ map adv_spec ks))) as [Hlt|Hge].
  - pose proof (nth_In (own ++ map adv_spec ks) default_spec Hlt) as Hin. apply in_app_or in Hin as [Hin|Hin].
    + apply Ho; assumption.
    + apply in_map_iff in Hin. destruct Hin as [k [<- _]]. apply adv_spec_setup_plain.
  - rewrite nth_overflow by exact Hge. reflexivity.
Qed.

(* ================================================================ the screen-layer theorems, instantiated *)
Lemma adv_C04 specs own ks typed quit run_empty fuel acts :
  failing_setup_plain specs ->
  (forall n, specs n = nth n (own ++ map adv_spec ks) default_spec) ->
  sok chk_C04 typed (rev (trace (snd (app_run_all specs (own ++ map adv_spec ks) typed quit run_empty fuel acts)))) = true.
Proof. intros Hpl H. apply C04_honest_stack_proof; [exact Hpl | exact H]. Qed.

Lemma adv_C08 specs own ks typed quit run_empty fuel acts :
  failing_setup_plain specs ->
  (forall n, specs n = nth n (own ++ map adv_spec ks) default_spec) ->
  forallb (spec_wf (length own + length ks)) own = true ->
  match quit with Some q => q < length own + length ks | None => True end ->
  forallb (saction_wf (length own + length ks)) acts = true ->
  sok chk_C08 typed (rev (trace (snd (app_run_all specs (own ++ map adv_spec ks) typed quit run_empty fuel acts)))) = true.
Proof. intros Hpl H Ho Hq Ha. apply C08_lifecycle_proof; [exact Hpl | exact H|]. apply adv_wf_session; assumption. Qed.
