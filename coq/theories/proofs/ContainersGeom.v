(* ContainersGeom.v — C13: where a list container draws every item (closed form of the two
   loops of ListRowContainer.render) and that the rectangles of different items are disjoint. *)
From SL Require Import Tac.
From SL Require Import PyInt Widget TextWrap KeyPattern Containers proofs.ContainersProofs proofs.ContainersLayout.
Import ListNotations.

(* the first line of row r: the sum of the heights of the rows above *)
Definition rowstart (lpr : list nat) (r : nat) : nat := list_sum (firstn r lpr).

Lemma rowstart_0 lpr : rowstart lpr 0 = 0.
Proof. reflexivity. Qed.

Lemma rowstart_S lpr : forall r, rowstart lpr (S r) = rowstart lpr r + nth r lpr 0.
Proof.
  unfold rowstart. induction lpr as [|x l IH]; intros r.
  - destruct r; reflexivity.
  - destruct r as [|r].
    + cbn. lia.
    + change (firstn (S (S r)) (x :: l)) with (x :: firstn (S r) l).
      change (firstn (S r) (x :: l)) with (x :: firstn r l).
      change (nth (S r) (x :: l) 0) with (nth r l 0).
      change (list_sum (x :: firstn (S r) l)) with (x + list_sum (firstn (S r) l)).
      change (list_sum (x :: firstn r l)) with (x + list_sum (firstn r l)).
      rewrite IH. lia.
Qed.

Lemma rowstart_mono lpr r r' : r <= r' -> rowstart lpr r <= rowstart lpr r'.
Proof.
  induction 1 as [|r' Hle IH]; [lia|]. rewrite rowstart_S. lia.
Qed.

(* one step of the inner loop: label at (row_pos, col_pos), item right of it (block mode) *)
Definition draw_item (rendered : list (buffer * option (buffer * nat))) (b : buffer) (p : nat * (nat * nat)) : buffer :=
  let '(ib, lab) := nth (fst p) rendered ([], None) in
  match lab with
  | Some (lb, lw) => fst (draw (fst (draw b (fst (snd p)) (snd (snd p)) false lb)) (fst (snd p)) (snd (snd p) + lw) true ib)
  | None => fst (draw b (fst (snd p)) (snd (snd p)) true ib)
  end.

(* (item, (first row, first column)) for the items of one column / of the whole map *)
Fixpoint col_placements (col : list nat) (row_id : nat) (lpr : list nat) (cp : nat) : list (nat * (nat * nat)) :=
  match col with
  | [] => []
  | i :: r => (i, (rowstart lpr row_id, cp)) :: col_placements r (S row_id) lpr cp
  end.

Fixpoint all_placements (omap : list (list nat)) (lpr : list nat) (k pitch : nat) : list (nat * (nat * nat)) :=
  match omap with
  | [] => []
  | col :: r => col_placements col 0 lpr (k * pitch) ++ all_placements r lpr (S k) pitch
  end.

Lemma draw_list_col_fold rendered lpr cp : forall col row_id b,
  draw_list_col col row_id rendered lpr b (rowstart lpr row_id) cp =
  fold_left (draw_item rendered) (col_placements col row_id lpr cp) b.
Proof.
  induction col as [|i col IH]; intros row_id b; cbn [draw_list_col col_placements fold_left]; [reflexivity|].
  rewrite <- rowstart_S. unfold draw_item at 2. cbn [fst snd].
  destruct (nth i rendered ([], None)) as [ib [[lb lw]|]]; apply IH.
Qed.

(* the closed form of the whole drawing: column k starts at k * (columns_width + spacing) *)
Lemma draw_list_cols_fold rendered lpr cw s :
  (0 <= cw)%Z -> (0 <= s)%Z -> Forall (item_fits (Z.to_nat cw)) rendered ->
  forall omap b k, (Z.of_nat (buf_width b) <= Z.max 0 (Z.of_nat k * (cw + s) - s))%Z ->
  draw_list_cols omap rendered lpr cw s b (Z.of_nat k * (cw + s))%Z =
  ROk (fold_left (draw_item rendered) (all_placements omap lpr k (Z.to_nat (cw + s))) b).
Proof.
  intros Hcw Hs Hf. induction omap as [|col omap IH]; intros b k Hb; cbn [draw_list_cols all_placements].
  - reflexivity.
  - assert (Hk : (0 <= Z.of_nat k * (cw + s))%Z) by (apply Z.mul_nonneg_nonneg; lia).
    unfold nat_of_Z. destruct (_ <? 0)%Z eqn:E; [lia|]. cbn [bind].
    assert (Hcp : Z.to_nat (Z.of_nat k * (cw + s)) = k * Z.to_nat (cw + s)).
    { rewrite Z2Nat.inj_mul, Nat2Z.id by lia. reflexivity. }
    rewrite Hcp. pose proof (draw_list_col_fold rendered lpr (k * Z.to_nat (cw + s)) col 0 b) as Hfold.
    change (rowstart lpr 0) with 0 in Hfold. rewrite !Hfold.
    set (b' := fold_left (draw_item rendered) (col_placements col 0 lpr (k * Z.to_nat (cw + s))) b).
    assert (Hb' : buf_width b' <= Z.to_nat (Z.of_nat k * (cw + s) + cw)).
    { unfold b'. rewrite <- Hfold.
      apply draw_list_col_width with (cwn := Z.to_nat cw); [exact Hf|lia|lia]. }
    replace (Z.max (Z.of_nat k * (cw + s) + cw) (Z.of_nat (buf_width b')) + s)%Z
      with (Z.of_nat (S k) * (cw + s))%Z by (rewrite Nat2Z.inj_succ; lia).
    rewrite IH by (rewrite Nat2Z.inj_succ; lia). now rewrite fold_left_app.
Qed.

Lemma in_col_placements lpr cp i rp cp' : forall col r0,
  In (i, (rp, cp')) (col_placements col r0 lpr cp) <->
  exists r, nth_error col r = Some i /\ rp = rowstart lpr (r0 + r) /\ cp' = cp.
Proof.
  induction col as [|x col IH]; intros r0; cbn [col_placements In].
  - split; [tauto|]. intros [[|r] [H _]]; discriminate.
  - rewrite IH. split.
    + intros [H|[r [H1 [H2 H3]]]].
      * injection H as -> <- <-. exists 0. rewrite Nat.add_0_r. now repeat split.
      * exists (S r). replace (r0 + S r) with (S r0 + r) by lia. now repeat split.
    + intros [[|r] [H1 [H2 H3]]]; cbn [nth_error] in H1.
      * left. injection H1 as ->. rewrite Nat.add_0_r in H2. now subst.
      * right. exists r. replace (S r0 + r) with (r0 + S r) by lia. now repeat split.
Qed.

Lemma in_all_placements lpr pitch i rp cp : forall omap k0,
  In (i, (rp, cp)) (all_placements omap lpr k0 pitch) <->
  exists k r, k < length omap /\ nth_error (nth k omap []) r = Some i /\
              rp = rowstart lpr r /\ cp = (k0 + k) * pitch.
Proof.
  induction omap as [|col omap IH]; intros k0; cbn [all_placements].
  - split; [intros []|]. intros [k [r [H _]]]. cbn in H. lia.
  - rewrite in_app_iff, IH, in_col_placements. split.
    + intros [[r [H1 [H2 H3]]]|[k [r [H1 [H2 [H3 H4]]]]]].
      * exists 0, r. cbn [nth length]. rewrite Nat.add_0_r. repeat split; [lia|assumption|assumption|assumption].
      * exists (S k), r. cbn [nth length]. replace (k0 + S k) with (S k0 + k) by lia.
        repeat split; [lia|assumption|assumption|assumption].
    + intros [[|k] [r [H1 [H2 [H3 H4]]]]]; cbn [nth length] in *.
      * left. exists r. rewrite Nat.add_0_r in H4. now repeat split.
      * right. exists k, r. replace (S k0 + k) with (k0 + S k) by lia. repeat split; [lia|assumption|assumption|assumption].
Qed.

(* C13_no_overlap (geometry): the rectangle of the item at (column k, row r) is
     rows    [rowstart r, rowstart r + height of the item)        (within the row's band)
     columns [k * (cw + s), k * (cw + s) + cw)
   and the rectangles at two different grid positions are disjoint *)
Lemma rects_disjoint omap hs cwn sn k r i k' r' i' :
  k < length omap -> nth_error (nth k omap []) r = Some i ->
  k' < length omap -> nth_error (nth k' omap []) r' = Some i' ->
  (k, r) <> (k', r') ->
  let lpr := lines_per_every_row omap hs in
  let pitch := cwn + sn in
  k * pitch + cwn <= k' * pitch \/ k' * pitch + cwn <= k * pitch \/
  rowstart lpr r + nth i hs 0 <= rowstart lpr r' \/ rowstart lpr r' + nth i' hs 0 <= rowstart lpr r.
Proof.
  intros Hk Hi Hk' Hi' Hne lpr pitch.
  assert (Hh : forall k r i, k < length omap -> nth_error (nth k omap []) r = Some i ->
                             rowstart lpr r + nth i hs 0 <= rowstart lpr (S r)).
  { intros k0 r0 i0 Hk0 Hi0. rewrite rowstart_S. apply Nat.add_le_mono_l.
    apply row_height_bounds_item. apply in_row_items. exists (nth k0 omap []). split; [now apply nth_In|exact Hi0]. }
  destruct (Nat.lt_trichotomy k k') as [Hlt|[Heq|Hgt]].
  - left. assert (S k * pitch <= k' * pitch) by (apply Nat.mul_le_mono_r; lia). unfold pitch in *. lia.
  - subst k'. destruct (Nat.lt_trichotomy r r') as [Hlt|[Heq|Hgt]].
    + right. right. left. pose proof (Hh k r i Hk Hi). pose proof (rowstart_mono lpr (S r) r' ltac:(lia)). lia.
    + subst r'. congruence.
    + right. right. right. pose proof (Hh k r' i' Hk' Hi'). pose proof (rowstart_mono lpr (S r') r ltac:(lia)). lia.
  - right. left. assert (S k' * pitch <= k * pitch) by (apply Nat.mul_le_mono_r; lia). unfold pitch in *. lia.
Qed.

(* what is drawn for an item stays inside its rectangle, and the label stays left of the item *)
Lemma item_inside_rect cwn x :
  item_fits cwn x ->
  length (fst x) <= item_height x /\
  match snd x with
  | Some (lb, lw) => length lb <= item_height x /\ buf_width lb <= lw /\ lw + buf_width (fst x) <= cwn
  | None => buf_width (fst x) <= cwn
  end.
Proof.
  destruct x as [ib [[lb lw]|]]; unfold item_fits, item_height; cbn [fst snd]; lia.
Qed.

(* the whole render of a list container in closed form *)
Lemma render_list_closed_form kind columns items forced spacing kp w b :
  (0 <= spacing)%Z ->
  (forall it w' b', In it items -> (0 < w')%Z -> render_tree it w' = ROk b' -> (Z.of_nat (buf_width b') <= w')%Z) ->
  (forall kp' i lb, kp = Some kp' -> label_buffer kp' i = ROk lb -> buf_width lb <= length (get_widget_label kp' i)) ->
  render_tree (WList kind columns items forced spacing kp) w = ROk b ->
  items <> [] ->
  let cw := list_columns_width columns forced spacing w in
  let omap := ordered_map kind (length items) (Z.to_nat columns) in
  exists rendered,
    render_all_items render_tree items 0 cw kp = ROk rendered /\
    Forall (item_fits (Z.to_nat cw)) rendered /\
    b = fold_left (draw_item rendered)
          (all_placements omap (lines_per_every_row omap (map item_height rendered)) 0 (Z.to_nat (cw + spacing))) [].
Proof.
  intros Hs Hitems Hlabels H Hne cw omap. rewrite render_tree_list in H.
  destruct (columns <=? 0)%Z eqn:Ec; [discriminate|]. cbv zeta in H. fold cw omap in H.
  destruct (render_all_items render_tree items 0 cw kp) as [res| |] eqn:Eres; cbn [bind] in H; try discriminate.
  exists res. split; [reflexivity|].
  pose proof (render_all_items_spec _ _ _ _ _ _ Eres) as [Hcw _].
  destruct Hcw as [->|Hcw]; [congruence|].
  pose proof (rendered_items_fit items cw kp res Hitems Hlabels Eres) as Hf. split; [exact Hf|].
  pose proof (draw_list_cols_fold res (lines_per_every_row omap (map item_height res)) cw spacing
                ltac:(lia) Hs Hf omap [] 0) as Hfold.
  change (Z.of_nat 0 * (cw + spacing))%Z with 0%Z in Hfold.
  rewrite Hfold in H by (cbn; lia). now injection H as <-.
Qed.
