(* C17Proofs.v — C17: console output is append-only and stays within the configured width.
   1. where the characters of a rendered widget tree come from (draw, write, wrapping, munge, containers);
   2. the characters of a prompt and of a whole draw; 3. the separator; 4. the width of every line of a draw. *)
From SL Require Import Tac.
From SL Require Import PyInt Widget TextWrap KeyPattern Containers Prompt Paging ScreenOut
     proofs.PyIntProofs proofs.TextWrapProofs proofs.TextWrapRender proofs.ContainersProofs
     proofs.ContainersLayout proofs.ContainersFinal proofs.PromptProofs proofs.PagingProofs.
From SL Require proofs.C12Proofs.
Import ListNotations.
Local Open Scope nat_scope.

(* ================================================================== 1. characters *)
(* an output character is a blank or a character of the source that is not in textwrap._whitespace *)
Definition okc (src : list char) (c : char) : Prop := c = SP \/ (In c src /\ is_tw_space c = false).

Lemma okc_sp src : okc src SP.
Proof. now left. Qed.

Lemma okc_mono s1 s2 c : incl s1 s2 -> okc s1 c -> okc s2 c.
Proof. intros Hi [H|[H1 H2]]; [now left|right; split; [now apply Hi|exact H2]]. Qed.

Lemma okc_not_nl src c : okc src c -> c <> NL.
Proof. intros [->|[_ H]] E; [discriminate|]. subst c. discriminate. Qed.

Section Chars.
  Variable P : char -> Prop.
  Hypothesis P_sp : P SP.

  Definition okb (b : buffer) : Prop := Forall (Forall P) b.

  Lemma Forall_repeat_sp n : Forall P (repeat SP n).
  Proof. induction n; cbn [repeat]; constructor; auto. Qed.

  Lemma okb_repeat_nil n : okb (repeat [] n).
  Proof. unfold okb. induction n; cbn [repeat]; constructor; auto. Qed.

  (* ---- draw *)
  Lemma chars_put_line tl col src : Forall P tl -> Forall P src -> Forall P (put_line tl col src).
  Proof.
    intros Ht Hs. unfold put_line.
    assert (H : Forall P (tl ++ repeat SP (col + length src - length tl))).
    { apply Forall_app. split; [exact Ht|apply Forall_repeat_sp]. }
    apply Forall_app. split; [now apply Forall_firstn|].
    apply Forall_app. split; [exact Hs|now apply Forall_skipn].
  Qed.

  Lemma chars_overlay : forall src b col, okb b -> okb src -> okb (overlay b col src).
  Proof.
    unfold okb. induction src as [|s src IH]; intros b col Hb Hs; cbn [overlay]; [exact Hb|].
    inversion Hs as [|? ? Hs1 Hs2]; subst. destruct b as [|l b].
    - constructor; [apply chars_put_line; [constructor|exact Hs1]|]. apply IH; [constructor|exact Hs2].
    - inversion Hb as [|? ? Hb1 Hb2]; subst.
      constructor; [now apply chars_put_line|]. now apply IH.
  Qed.

  Lemma chars_draw_at : forall row b col src, okb b -> okb src -> okb (draw_at b row col src).
  Proof.
    unfold okb. induction row as [|row IH]; intros b col src Hb Hs; cbn [draw_at].
    - now apply chars_overlay.
    - destruct b as [|l b].
      + constructor; [constructor|]. apply IH; [constructor|exact Hs].
      + inversion Hb as [|? ? Hb1 Hb2]; subst. constructor; [exact Hb1|]. now apply IH.
  Qed.

  Lemma chars_draw b row col block src : okb b -> okb src -> okb (fst (draw b row col block src)).
  Proof. intros Hb Hs. unfold draw. cbn [fst]. now apply chars_draw_at. Qed.

  (* ---- write: the typewriter *)
  Lemma chars_ensure_row b x : okb b -> okb (ensure_row b x).
  Proof. intros H. unfold ensure_row, okb. apply Forall_app. split; [exact H|apply okb_repeat_nil]. Qed.

  Lemma chars_set_in_line l y ch : Forall P l -> P ch -> Forall P (set_in_line l y ch).
  Proof.
    intros Hl Hc. unfold set_in_line.
    assert (H : Forall P (l ++ repeat SP (S y - length l))).
    { apply Forall_app. split; [exact Hl|apply Forall_repeat_sp]. }
    apply Forall_app. split; [now apply Forall_firstn|].
    constructor; [exact Hc|now apply Forall_skipn].
  Qed.

  Lemma chars_set_cell : forall x b y ch, okb b -> P ch -> okb (set_cell b x y ch).
  Proof.
    unfold okb. induction x as [|x IH]; intros b y ch Hb Hc; destruct b as [|l b]; cbn [set_cell];
      try constructor; inversion Hb as [|? ? Hb1 Hb2]; subst.
    - now apply chars_set_in_line.
    - exact Hb2.
    - exact Hb1.
    - now apply IH.
  Qed.

  Lemma chars_typewriter : forall text b x y col width block,
    okb b -> Forall (fun c => c = NL \/ P c) text -> okb (fst (typewriter text b x y col width block)).
  Proof.
    induction text as [|ch rest IH]; intros b x y col width block Hb Ht; cbn [typewriter]; [exact Hb|].
    inversion Ht as [|? ? Hc Hr]; subst.
    destruct (ch =? NL)%N eqn:E.
    - apply IH; [now apply chars_ensure_row|exact Hr].
    - assert (Hp : P ch). { destruct Hc as [->|Hc]; [discriminate E|exact Hc]. }
      assert (Hb1 : okb (set_cell (ensure_row b x) x y ch)).
      { apply chars_set_cell; [now apply chars_ensure_row|exact Hp]. }
      destruct width as [w|]; [destruct (col + w <=? S y)|]; apply IH; assumption.
  Qed.

  Lemma chars_write b cur text row col width block :
    okb b -> Forall (fun c => c = NL \/ P c) text -> okb (fst (write b cur text row col width block)).
  Proof.
    intros Hb Ht. unfold write. destruct text as [|c r]; [exact Hb|]. now apply chars_typewriter.
  Qed.

  (* ---- wrapping: lines come from the chunks (wrap_chunks_chars), '\n'.join adds line breaks *)
  Lemma chars_join_nl (Q : char -> Prop) ls : Q NL -> Forall (Forall Q) ls -> Forall Q (join_nl ls).
  Proof.
    intros Hn. induction ls as [|l r IH]; intros H; [constructor|].
    inversion H as [|? ? H1 H2]; subst. destruct r as [|l2 r]; [exact H1|].
    rewrite join_nl_cons2. apply Forall_app. split; [exact H1|]. constructor; [exact Hn|]. now apply IH.
  Qed.

  (* TextWidget.render: whatever the chunk oracle says, the output is made of the chunks' characters *)
  Lemma chars_render_text_chunks t w b :
    Forall (Forall (Forall P)) (t_chunks t) -> render_text t w = ROk b -> okb b.
  Proof.
    intros Hc H. unfold render_text in H. destruct (t_text t) as [|c0 s0]; [injection H as <-; constructor|].
    destruct (w <=? 0)%Z; [discriminate|]. rewrite wrap_all_total' in H. injection H as <-.
    apply chars_typewriter; [constructor|].
    apply (chars_join_nl (fun c => c = NL \/ P c)); [now left|].
    apply Forall_forall. intros l Hl. apply in_map_iff in Hl. destruct Hl as (cs & <- & Hcs).
    apply (chars_join_nl (fun c => c = NL \/ P c)); [now left|].
    rewrite Forall_forall in Hc. specialize (Hc cs Hcs).
    pose proof (wrap_chunks_chars P cs (Z.to_nat w) _ Hc (wrap_chunks_total cs (Z.to_nat w))) as Hw.
    eapply Forall_impl; [|exact Hw]. intros l Hl. eapply Forall_impl; [|exact Hl]. intros c Hc'. now right.
  Qed.
End Chars.

(* ---- _munge_whitespace: tabs and every other textwrap._whitespace character become blanks,
   everything else is copied *)
Lemma in_expandtabs s : forall col c, In c (expandtabs s col) -> c = SP \/ In c s.
Proof.
  induction s as [|a r IH]; intros col c H; cbn [expandtabs] in H; [destruct H|].
  destruct (a =? 9)%N.
  - apply in_app_or in H. destruct H as [H|H]; [left; now apply repeat_spec in H|].
    destruct (IH _ _ H) as [->|Hin]; [now left|right; now right].
  - destruct ((a =? 10) || (a =? 13))%N; destruct H as [<-|H]; try (right; now left);
      (destruct (IH _ _ H) as [->|Hin]; [now left|right; now right]).
Qed.

Lemma chars_munge s : Forall (okc s) (munge s).
Proof.
  unfold munge. apply Forall_forall. intros c Hc. apply in_map_iff in Hc. destruct Hc as (a & <- & Ha).
  destruct (is_tw_space a) eqn:E; [now left|].
  destruct (in_expandtabs _ _ _ Ha) as [->|Hin]; [now left|]. right. now split.
Qed.

Lemma in_split_nl s : forall cur l c, In l (split_nl s cur) -> In c l -> In c s \/ In c cur.
Proof.
  induction s as [|a r IH]; intros cur l c Hl Hc; cbn [split_nl] in Hl.
  - destruct Hl as [<-|[]]. right. now apply in_rev.
  - destruct (a =? NL)%N.
    + destruct Hl as [<-|Hl]; [right; now apply in_rev|].
      destruct (IH _ _ _ Hl Hc) as [H|[]]. left. now right.
    + destruct (IH _ _ _ Hl Hc) as [H|[<-|H]]; [left; now right|left; now left|now right].
Qed.

Lemma in_split_lines s l c : In l (split_lines s) -> In c l -> In c s.
Proof. intros Hl Hc. destruct (in_split_nl s [] l c Hl Hc) as [H|[]]. exact H. Qed.

Lemma Forall2_in_r_wit {A B} (R : A -> B -> Prop) (a : list A) (b : list B) y :
  Forall2 R a b -> In y b -> exists x, In x a /\ R x y.
Proof.
  induction 1 as [|x0 y0 a b Hxy _ IH]; intros Hin; [destruct Hin|].
  destruct Hin as [<-|Hin]; [exists x0; split; [now left|exact Hxy]|].
  destruct (IH Hin) as (x & Hx & Hr). exists x. split; [now right|exact Hr].
Qed.

(* TextWidget.render with the chunks of CPython's splitter: every character is a blank or a
   character of the text outside textwrap._whitespace *)
Lemma chars_render_text t w b src :
  chunks_ok t = true -> incl (t_text t) src -> render_text t w = ROk b -> okb (okc src) b.
Proof.
  intros Hok Hi H. apply (chars_render_text_chunks (okc src) (okc_sp src) t w b); [|exact H].
  apply chunks_ok_spec in Hok. apply Forall_forall. intros cs Hcs.
  destruct (Forall2_in_r_wit _ _ _ cs Hok Hcs) as (line & Hin & [Hcat _]).
  apply (proj2 (Forall_concat (okc src) cs)).
  assert (G : Forall (okc src) (munge line)); [|rewrite <- Hcat in G; exact G].
  eapply Forall_impl; [|apply chars_munge]. intros c Hc. apply (okc_mono line); [|exact Hc].
  intros x Hx. apply Hi. now apply (in_split_lines _ line).
Qed.

(* ---- containers: everything is drawn from the items' buffers *)
Section TreeChars.
  Variable P : char -> Prop.
  Hypothesis P_sp : P SP.
  Variable r : wtree -> Z -> rres buffer.

  Lemma chars_draw_items_block items :
    (forall it w b, In it items -> r it w = ROk b -> okb P b) ->
    forall w b0 row col res, okb P b0 -> draw_items_block r items w b0 row col = ROk res -> okb P (fst res).
  Proof.
    induction items as [|it items IH]; intros Hit w b0 row col res Hb H; cbn [draw_items_block] in H.
    - injection H as <-. exact Hb.
    - destruct (r it w) as [ib| |] eqn:Eib; cbn [bind] in H; try discriminate.
      destruct (draw b0 row col true ib) as [b' [row' c']] eqn:Ed.
      apply (IH (fun it' w' b'' Hin => Hit it' w' b'' (or_intror Hin)) w b' row' col res); [|exact H].
      replace b' with (fst (draw b0 row col true ib)) by (rewrite Ed; reflexivity).
      apply chars_draw; [exact P_sp|exact Hb|]. apply (Hit it w ib); [now left|exact Eib].
  Qed.

  Lemma chars_render_columns cols :
    (forall c it w b, In c cols -> In it (snd c) -> r it w = ROk b -> okb P b) ->
    forall sp width b0 cp b, okb P b0 -> render_columns r cols sp width b0 cp = ROk b -> okb P b.
  Proof.
    induction cols as [|[cw items] cols IH]; intros Hc sp width b0 cp b Hb H; cbn [render_columns] in H.
    - injection H as <-. exact Hb.
    - destruct (nat_of_Z cp) as [cpn| |]; cbn [bind] in H; try discriminate.
      assert (Hi : forall it w b, In it items -> r it w = ROk b -> okb P b).
      { intros it w' b' Hin. apply (Hc (cw, items)); [now left|exact Hin]. }
      assert (Hr : forall c it w b, In c cols -> In it (snd c) -> r it w = ROk b -> okb P b).
      { intros c it w' b' Hin. apply (Hc c). now right. }
      destruct cw as [w0|]; cbv beta iota zeta in H.
      + destruct (draw_items_block r items w0 b0 0 cpn) as [res| |] eqn:E; cbn [bind] in H; try discriminate.
        apply (IH Hr _ _ _ _ _ (chars_draw_items_block items Hi _ _ _ _ _ Hb E) H).
      + destruct (draw_items_block r items (width - cp)%Z b0 0 cpn) as [res| |] eqn:E; cbn [bind] in H; try discriminate.
        apply (IH Hr _ _ _ _ _ (chars_draw_items_block items Hi _ _ _ _ _ Hb E) H).
  Qed.

  Definition ok_item (x : buffer * option (buffer * nat)) : Prop :=
    okb P (fst x) /\ match snd x with Some (lb, _) => okb P lb | None => True end.

  Lemma chars_render_all_items items :
    (forall it w b, In it items -> r it w = ROk b -> okb P b) ->
    forall id cw kp res,
    (forall kp' i lb, kp = Some kp' -> label_buffer kp' i = ROk lb -> okb P lb) ->
    render_all_items r items id cw kp = ROk res -> Forall ok_item res.
  Proof.
    induction items as [|it0 items IH]; intros Hit id cw kp res Hlab H; cbn [render_all_items] in H.
    - injection H as <-. constructor.
    - assert (Hit' : forall it w b, In it items -> r it w = ROk b -> okb P b).
      { intros it w b Hin. apply Hit. now right. }
      destruct (cw <=? 0)%Z; [discriminate|]. destruct kp as [kp'|].
      + unfold bind in H.
        destruct (label_buffer kp' id) as [lb| |] eqn:Elb; try discriminate.
        destruct (cw - Z.of_nat (length (get_widget_label kp' id)) <=? 0)%Z; [discriminate|].
        destruct (r it0 (cw - Z.of_nat (length (get_widget_label kp' id)))%Z) as [ib| |] eqn:Eib; try discriminate.
        destruct (render_all_items r items (S id) cw (Some kp')) as [rest| |] eqn:Erest; try discriminate.
        injection H as <-. constructor; [|apply (IH Hit' _ _ _ _ Hlab Erest)].
        split; cbn [fst snd]; [apply (Hit it0 _ ib (or_introl eq_refl) Eib)|apply (Hlab kp' id lb eq_refl Elb)].
      + unfold bind in H.
        destruct (r it0 cw) as [ib| |] eqn:Eib; try discriminate.
        destruct (render_all_items r items (S id) cw None) as [rest| |] eqn:Erest; try discriminate.
        injection H as <-. constructor; [|apply (IH Hit' _ _ _ _ Hlab Erest)].
        split; cbn [fst snd]; [apply (Hit it0 _ ib (or_introl eq_refl) Eib)|exact I].
  Qed.

  Lemma chars_draw_list_col (rendered : list (buffer * option (buffer * nat))) lpr :
    Forall ok_item rendered ->
    forall col row_id b row_pos col_pos, okb P b -> okb P (draw_list_col col row_id rendered lpr b row_pos col_pos).
  Proof.
    intros Hr. induction col as [|item_id col IH]; intros row_id b row_pos col_pos Hb; cbn [draw_list_col]; [exact Hb|].
    assert (Hn : ok_item (nth item_id rendered ([], None))).
    { destruct (nth_in_or_default item_id rendered ([], None)) as [Hin| ->].
      - rewrite Forall_forall in Hr. now apply Hr.
      - split; cbn [fst snd]; [constructor|exact I]. }
    destruct (nth item_id rendered ([], None)) as [ib lab]. destruct Hn as [Hib Hlab]. cbn [fst snd] in Hib, Hlab.
    apply IH. destruct lab as [[lb lw]|].
    - apply chars_draw; [exact P_sp| |exact Hib]. apply chars_draw; [exact P_sp|exact Hb|exact Hlab].
    - apply chars_draw; [exact P_sp|exact Hb|exact Hib].
  Qed.

  Lemma chars_draw_list_cols (rendered : list (buffer * option (buffer * nat))) lpr cw sp :
    Forall ok_item rendered ->
    forall omap b0 col_pos b, okb P b0 -> draw_list_cols omap rendered lpr cw sp b0 col_pos = ROk b -> okb P b.
  Proof.
    intros Hr. induction omap as [|col omap IH]; intros b0 col_pos b Hb H; cbn [draw_list_cols] in H.
    - injection H as <-. exact Hb.
    - destruct (nat_of_Z col_pos) as [cp| |]; cbn [bind] in H; try discriminate.
      apply (IH _ _ _ (chars_draw_list_col rendered lpr Hr col 0 b0 0 cp Hb) H).
  Qed.

  Lemma chars_draw_items_plain items :
    (forall it w b, In it items -> r it w = ROk b -> okb P b) ->
    forall w b0 row b, okb P b0 -> draw_items_plain r items w b0 row = ROk b -> okb P b.
  Proof.
    induction items as [|it items IH]; intros Hit w b0 row b Hb H; cbn [draw_items_plain] in H.
    - injection H as <-. exact Hb.
    - destruct (r it w) as [ib| |] eqn:Eib; cbn [bind] in H; try discriminate.
      destruct (draw b0 row 0 false ib) as [b' [row' c']] eqn:Ed.
      apply (IH (fun it' w' b'' Hin => Hit it' w' b'' (or_intror Hin)) w b' row' b); [|exact H].
      replace b' with (fst (draw b0 row 0 false ib)) by (rewrite Ed; reflexivity).
      apply chars_draw; [exact P_sp|exact Hb|]. apply (Hit it w ib); [now left|exact Eib].
  Qed.
End TreeChars.

(* ---- labels: prefix, decimal digits (and '-'), suffix *)
Lemma digit_in_list c : is_digit c = true -> In c [45; 48; 49; 50; 51; 52; 53; 54; 55; 56; 57]%N.
Proof.
  unfold is_digit. intros H.
  assert (E : (c = 48 \/ c = 49 \/ c = 50 \/ c = 51 \/ c = 52 \/ c = 53 \/ c = 54 \/ c = 55 \/ c = 56 \/ c = 57)%N) by lia.
  cbn [In]. intuition.
Qed.

Lemma dec_chars z c : In c (dec z) -> In c [45; 48; 49; 50; 51; 52; 53; 54; 55; 56; 57]%N.
Proof.
  assert (HN : forall n, In c (dec_N n) -> In c [45; 48; 49; 50; 51; 52; 53; 54; 55; 56; 57]%N).
  { intros n Hin. apply digit_in_list. pose proof (dec_N_digits n) as Hd. unfold all_digits in Hd.
    rewrite forallb_forall in Hd. now apply Hd. }
  destruct z as [|p|p]; cbn [dec]; intros H; [now apply (HN 0%N)|now apply (HN (Npos p))|].
  destruct H as [<-|H]; [now left|now apply (HN (Npos p))].
Qed.

Lemma label_chars kp i : incl (get_widget_label kp i) (pattern_chars kp).
Proof.
  intros c H. unfold get_widget_label, shown_number in H. unfold pattern_chars.
  apply in_app_or in H. destruct H as [H|H]; [apply in_or_app; now left|].
  apply in_app_or in H. apply in_or_app. right. apply in_or_app.
  destruct H as [H|H]; [right; now apply (dec_chars _ _ H)|now left].
Qed.

Lemma chars_label_buffer kp i lb src :
  incl (pattern_chars kp) src -> label_buffer kp i = ROk lb -> okb (okc src) lb.
Proof.
  intros Hi H. unfold label_buffer in H. cbv zeta in H.
  apply (chars_render_text _ _ _ src (simple_text_ok _)) in H; [exact H|].
  cbn [t_text simple_text]. intros c Hc. apply Hi. now apply (label_chars kp i).
Qed.

(* ---- the whole tree *)
Lemma Forall_flat_map_in {A B} (Q : B -> Prop) (g : A -> list B) l x :
  Forall Q (flat_map g l) -> In x l -> Forall Q (g x).
Proof.
  intros H Hin. apply Forall_forall. intros y Hy. rewrite Forall_forall in H. apply H.
  apply in_flat_map. exists x. now split.
Qed.

Lemma incl_flat_map_in {A B} (g : A -> list B) l x : In x l -> incl (g x) (flat_map g l).
Proof. intros Hin y Hy. apply in_flat_map. exists x. now split. Qed.

Lemma chars_render_fuel : forall f t src w b,
  tree_texts_ok t -> incl (chars_of_tree t) src -> render f t w = ROk b -> okb (okc src) b.
Proof.
  induction f as [|f IH]; intros t src w b Hok Hi H; [discriminate|].
  unfold tree_texts_ok in Hok.
  destruct t as [tx|n|c|cols sp|box data|kind columns items forced sp kp|title items];
    cbn [render] in H; cbn [texts_of_tree] in Hok; cbn [chars_of_tree] in Hi.
  - (* TextWidget *)
    inversion Hok as [|? ? Hx _]; subst. now apply (chars_render_text tx w b src).
  - (* SeparatorWidget *)
    injection H as <-. apply okb_repeat_nil.
  - (* CenterWidget *)
    destruct (render f c w) as [cb| |] eqn:Ecb; cbn [bind] in H; try discriminate.
    destruct (nat_of_Z _) as [col| |]; cbn [bind] in H; try discriminate. injection H as <-.
    apply (chars_draw (okc src) (okc_sp src) [] 0 col false cb); [constructor|]. now apply (IH c src w cb).
  - (* ColumnWidget *)
    apply (chars_render_columns (okc src) (okc_sp src) (render f) cols) in H; [exact H| |constructor].
    intros c it w' b' Hc Hit Hr. apply (IH it src w' b'); [| |exact Hr].
    + unfold tree_texts_ok. apply (Forall_flat_map_in _ _ _ it (Forall_flat_map_in _ _ _ c Hok Hc) Hit).
    + intros x Hx. apply Hi. apply (incl_flat_map_in _ cols c Hc). now apply (incl_flat_map_in _ (snd c) it Hit).
  - (* CheckboxWidget *)
    match type of H with bind ?e _ = _ => destruct e as [cb| |] eqn:Ecb; cbn [bind] in H; try discriminate end.
    injection H as <-. apply (chars_draw (okc src) (okc_sp src) [] 0 0 false cb); [constructor|].
    apply (chars_render_columns (okc src) (okc_sp src) (render f)) in Ecb; [exact Ecb| |constructor].
    inversion Hok as [|? ? Hbox Hdata]; subst.
    intros c it w' b' Hc Hit Hr.
    assert (Hleaf : exists x, it = WText x /\ chunks_ok x = true /\ incl (t_text x) src).
    { destruct Hc as [<-|[<-|[]]]; cbn [snd] in Hit.
      - destruct Hit as [<-|[]]. exists box. split; [reflexivity|]. split; [exact Hbox|].
        intros y Hy. apply Hi. apply in_or_app. now left.
      - apply in_map_iff in Hit. destruct Hit as (d & <- & Hd). exists d. split; [reflexivity|].
        rewrite Forall_forall in Hdata. split; [now apply Hdata|].
        intros y Hy. apply Hi. apply in_or_app. right. now apply (incl_flat_map_in _ data d Hd). }
    destruct Hleaf as (x & -> & Hx & Hix). apply (IH (WText x) src w' b'); [|exact Hix|exact Hr].
    unfold tree_texts_ok. cbn [texts_of_tree]. constructor; [exact Hx|constructor].
  - (* ListRowContainer / ListColumnContainer *)
    destruct (columns <=? 0)%Z; [discriminate|].
    match type of H with bind ?e _ = _ => destruct e as [rendered| |] eqn:Er; cbn [bind] in H; try discriminate end.
    apply (chars_render_all_items (okc src) (render f) items) in Er.
    + apply (chars_draw_list_cols (okc src) (okc_sp src) rendered _ _ _ Er) in H; [exact H|constructor].
    + intros it w' b' Hit Hr. apply (IH it src w' b'); [| |exact Hr].
      * unfold tree_texts_ok. apply (Forall_flat_map_in _ _ _ it Hok Hit).
      * intros x Hx. apply Hi. apply in_or_app. right. now apply (incl_flat_map_in _ items it Hit).
    + intros kp' i lb -> Hlb. apply (chars_label_buffer kp' i lb src); [|exact Hlb].
      intros x Hx. apply Hi. apply in_or_app. now left.
  - (* WindowContainer *)
    match type of H with bind ?e _ = _ => destruct e as [[b0 r0]| |] eqn:E0; cbn [bind fst snd] in H; try discriminate end.
    assert (Hb0 : okb (okc src) b0).
    { destruct title as [tt|]; [|injection E0 as <- <-; constructor].
      destruct (t_text tt) eqn:Et; [injection E0 as <- <-; constructor|].
      destruct (render_text tt w) as [tb| |] eqn:Etb; cbn [bind] in E0; try discriminate.
      destruct (draw [] 0 0 false tb) as [b1 [r1 c1]] eqn:E1.
      destruct (draw b1 r1 0 false (render_sep 1)) as [b2 [r2 c2]] eqn:E2.
      injection E0 as <- <-.
      replace b2 with (fst (draw b1 r1 0 false (render_sep 1))) by (rewrite E2; reflexivity).
      apply chars_draw; [apply okc_sp| |apply okb_repeat_nil].
      replace b1 with (fst (draw [] 0 0 false tb)) by (rewrite E1; reflexivity).
      apply chars_draw; [apply okc_sp|constructor|].
      cbn [app] in Hok. inversion Hok as [|? ? Htt _]; subst.
      apply (chars_render_text tt w tb src Htt); [|exact Etb].
      rewrite Et. intros x Hx. apply Hi. apply in_or_app. now left. }
    apply (chars_draw_items_plain (okc src) (okc_sp src) (render f) items) in H; [exact H| |exact Hb0].
    intros it w' b' Hit Hr. apply (IH it src w' b'); [| |exact Hr].
    + unfold tree_texts_ok. apply Forall_app in Hok. apply (Forall_flat_map_in _ _ _ it (proj2 Hok) Hit).
    + intros x Hx. apply Hi. apply in_or_app. right. now apply (incl_flat_map_in _ items it Hit).
Qed.

(* C17_charset_render *)
Lemma charset_render t w b c :
  tree_texts_ok t -> render_tree t w = ROk b -> In c (concat b) ->
  c = SP \/ (In c (chars_of_tree t) /\ is_tw_space c = false).
Proof.
  intros Hok H Hc. apply (chars_render_fuel _ t (chars_of_tree t) w b Hok (incl_refl _)) in H.
  apply (proj1 (Forall_concat _ _)) in H. rewrite Forall_forall in H. exact (H c Hc).
Qed.

(* no line of a rendered tree contains a line break, a tab, a carriage return, a vertical tab or a
   form feed, whatever the application's strings contain *)
Lemma render_no_layout_chars t w b c :
  tree_texts_ok t -> render_tree t w = ROk b -> In c (concat b) -> is_tw_space c = true -> c = SP.
Proof.
  intros Hok H Hc Hs. destruct (charset_render t w b c Hok H Hc) as [E|[_ E]]; [exact E|congruence].
Qed.

Lemma render_lines_no_nl t w b : tree_texts_ok t -> render_tree t w = ROk b -> Forall no_nl b.
Proof.
  intros Hok H. apply Forall_forall. intros l Hl. unfold no_nl. apply Forall_forall. intros c Hc E.
  assert (Hin : In c (concat b)) by (apply in_concat; exists l; now split).
  subst c. pose proof (render_no_layout_chars t w b NL Hok H Hin eq_refl). discriminate.
Qed.

(* ================================================================== 2. prompts and whole draws *)
Local Open Scope N_scope.

Lemma in_join sep l c : In c (join sep l) -> In c sep \/ exists x, In x l /\ In c x.
Proof.
  induction l as [|x r IH]; intros H; cbn [join] in H; [destruct H|].
  destruct r as [|y r'].
  - right. exists x. split; [now left|exact H].
  - apply in_app_or in H. destruct H as [H|H]; [right; exists x; split; [now left|exact H]|].
    apply in_app_or in H. destruct H as [H|H]; [now left|].
    destruct (IH H) as [Hs|(z & Hz & Hc)]; [now left|]. right. exists z. split; [now right|exact Hc].
Qed.

Lemma in_opt_item k d c : In c (opt_item k d) -> c = 39 \/ c = 32 \/ In c k \/ In c d.
Proof.
  unfold opt_item, QUOTE. intros [<-|H]; [now left|].
  apply in_app_or in H. destruct H as [H|H]; [tauto|].
  apply in_app_or in H. destruct H as [H|H]; [|tauto].
  destruct H as [<-|[<-|[]]]; tauto.
Qed.

Lemma in_listing (listing : list (str * str)) c :
  In c (join [44; 32] (map (fun kd => opt_item (fst kd) (snd kd)) listing)) ->
  In c prompt_literals \/ exists kd, In kd listing /\ (In c (fst kd) \/ In c (snd kd)).
Proof.
  intros H. apply in_join in H. destruct H as [H|(x & Hx & Hc)].
  - left. unfold prompt_literals. cbn [In] in *. intuition.
  - apply in_map_iff in Hx. destruct Hx as (kd & <- & Hkd). apply in_opt_item in Hc.
    destruct Hc as [->|[->|Hc]]; [left; unfold prompt_literals; cbn [In]; tauto|left; unfold prompt_literals; cbn [In]; tauto|].
    right. exists kd. split; [exact Hkd|exact Hc].
Qed.

Lemma in_format_prompt m listing c :
  In c (format_prompt m listing) ->
  In c prompt_literals \/ (exists msg, m = Some msg /\ In c msg) \/
  exists kd, In kd listing /\ (In c (fst kd) \/ In c (snd kd)).
Proof.
  assert (Hl : forall x, In x [91; 93; 58; 32] -> In x prompt_literals).
  { intros x Hx. unfold prompt_literals. cbn [In] in *. intuition. }
  assert (Hj : In c (join [44; 32] (map (fun kd => opt_item (fst kd) (snd kd)) listing)) ->
               In c prompt_literals \/ (exists msg, m = Some msg /\ In c msg) \/
               exists kd, In kd listing /\ (In c (fst kd) \/ In c (snd kd))).
  { intros H. destruct (in_listing listing c H) as [H1|H1]; [now left|right; now right]. }
  intros H. destruct m as [[|c0 m]|]; destruct listing as [|kd0 l]; cbn [format_prompt] in H;
    try (destruct H; fail).
  - apply in_app_or in H. destruct H as [H|H]; [left; apply Hl; cbn [In] in *; intuition|].
    apply in_app_or in H. destruct H as [H|H]; [now apply Hj|left; apply Hl; cbn [In] in *; intuition].
  - apply in_app_or in H. destruct H as [H|H]; [right; left; eexists; split; [reflexivity|exact H]|].
    left; apply Hl; cbn [In] in *; intuition.
  - apply in_app_or in H. destruct H as [H|H]; [right; left; eexists; split; [reflexivity|exact H]|].
    apply in_app_or in H. destruct H as [H|H]; [left; apply Hl; cbn [In] in *; intuition|].
    apply in_app_or in H. destruct H as [H|H]; [now apply Hj|left; apply Hl; cbn [In] in *; intuition].
  - apply in_app_or in H. destruct H as [H|H]; [left; apply Hl; cbn [In] in *; intuition|].
    apply in_app_or in H. destruct H as [H|H]; [now apply Hj|left; apply Hl; cbn [In] in *; intuition].
Qed.

Lemma dict_get_some_in d k v : dict_get d k = Some v -> exists k', In (k', v) d.
Proof.
  induction d as [|[k0 v0] r IH]; cbn [dict_get]; [discriminate|].
  destruct (str_eq k k0).
  - intros E. injection E as <-. exists k0. now left.
  - intros E. destruct (IH E) as (k' & Hk). exists k'. now right.
Qed.

(* Prompt.__str__ adds only "[", "]", "'", " ", ",", ":" to the message, the keys and the descriptions *)
Lemma prompt_str_chars p c : In c (prompt_str p) -> In c prompt_literals \/ In c (prompt_app_chars p).
Proof.
  rewrite prompt_str_format. intros H. apply in_format_prompt in H.
  destruct H as [H|[(msg & Em & Hc)|(kd & Hkd & Hc)]]; [now left| |]; right; unfold prompt_app_chars.
  - rewrite Em. apply in_or_app. now left.
  - apply in_or_app. right. apply in_map_iff in Hkd. destruct Hkd as (k & <- & Hk). cbn [fst snd] in Hc.
    apply (proj1 (sort_keys_in _ _)) in Hk. unfold dict_keys in Hk. apply in_map_iff in Hk. destruct Hk as ([k0 v0] & E & Hin).
    cbn [fst] in E. subst k0. destruct Hc as [Hc|Hc].
    + apply in_flat_map. exists (k, v0). split; [exact Hin|]. cbn [fst snd]. apply in_or_app. now left.
    + destruct (dict_get (p_options p) k) as [d|] eqn:Ed; cbn [default_desc] in Hc; [|destruct Hc].
      destruct (dict_get_some_in _ _ _ Ed) as (k' & Hk'). apply in_flat_map. exists (k', d).
      split; [exact Hk'|]. cbn [fst snd]. apply in_or_app. now right.
Qed.

(* InputHandlerRequest.text_prompt: line breaks, blanks, and the non-blank characters of str(prompt) *)
Lemma chars_text_prompt t w s src :
  chunks_ok t = true -> incl (t_text t) src -> text_prompt t w = ROk s ->
  Forall (fun c => c = NL \/ okc src c) s.
Proof.
  intros Hok Hi H. unfold text_prompt in H. destruct (render_text t w) as [b| |] eqn:Eb; try discriminate.
  injection H as <-. apply (chars_render_text t w b src Hok Hi) in Eb.
  apply Forall_app. split; [|constructor; [right; now left|constructor]].
  apply chars_join_nl; [now left|]. eapply Forall_impl; [|exact Eb].
  intros l Hl. eapply Forall_impl; [|exact Hl]. intros c Hc. now right.
Qed.

Lemma chars_prompt_output p chunks w s c :
  chunks_ok {| t_text := prompt_str p; t_chunks := chunks |} = true ->
  prompt_output p chunks w = ROk s -> In c s ->
  c = NL \/ c = SP \/
  ((In c prompt_literals \/ In c (prompt_app_chars p)) /\ is_tw_space c = false).
Proof.
  intros Hok H Hc. unfold prompt_output in H.
  apply (chars_text_prompt _ w s (prompt_str p) Hok (incl_refl _)) in H.
  rewrite Forall_forall in H. destruct (H c Hc) as [E|[E|[Hin Hs]]]; [now left|right; now left|].
  right. right. split; [now apply prompt_str_chars|exact Hs].
Qed.

(* ---- the events of _print_widget print lines of the widget, nothing else *)
Lemma in_py_slice_from {A} (l : list A) a x : In x (py_slice_from l a) -> In x l.
Proof. unfold py_slice_from. intros H. rewrite <- (firstn_skipn (Z.to_nat (norm_idx (Z.of_nat (length l)) a)) l). apply in_or_app. now right. Qed.

Lemma in_firstn {A} n (l : list A) x : In x (firstn n l) -> In x l.
Proof. intros H. rewrite <- (firstn_skipn n l). apply in_or_app. now left. Qed.

Lemma in_skipn {A} n (l : list A) x : In x (skipn n l) -> In x l.
Proof. intros H. rewrite <- (firstn_skipn n l). apply in_or_app. now right. Qed.

Lemma in_py_slice {A} (l : list A) a b x : In x (py_slice l a b) -> In x l.
Proof. unfold py_slice. intros H. apply in_firstn in H. now apply in_skipn in H. Qed.

Lemma page_loop_prints_in lines : forall fuel pos last rsh sh l,
  In (PPrint l) (page_loop fuel lines pos last rsh sh) -> In l lines.
Proof.
  induction fuel as [|f IH]; intros pos last rsh sh l H; cbn [page_loop] in H;
    destruct (pos <=? last)%Z; try (destruct H as [H|[]]; discriminate); try (destruct H; fail).
  destruct (pos + rsh >? last)%Z.
  - apply in_app_or in H. destruct H as [H|H]; [|now apply IH in H].
    apply in_map_iff in H. destruct H as (x & E & Hx). injection E as ->. now apply in_py_slice_from in Hx.
  - apply in_app_or in H. destruct H as [H|[H|H]]; [|discriminate|now apply IH in H].
    apply in_map_iff in H. destruct H as (x & E & Hx). injection E as ->. now apply in_py_slice in Hx.
Qed.

Lemma print_widget_prints_in lines H l : In (PPrint l) (print_widget lines H) -> In l lines.
Proof.
  unfold print_widget. destruct (Z.of_nat (length lines) =? 0)%Z; [intros []|]. cbv zeta.
  destruct (Z.of_nat (length lines) <? H - 2)%Z.
  - intros Hin. apply in_map_iff in Hin. destruct Hin as (x & E & Hx). now injection E as ->.
  - apply page_loop_prints_in.
Qed.

(* ---- the characters of what the events write *)
Definition ev_lines_ok (Q : line -> Prop) (evs : list pevent) : Prop :=
  forall l, In (PPrint l) evs -> Q l.

Lemma chars_events_output (Q : char -> Prop) echo w :
  Q NL -> Forall Q echo ->
  (forall p, text_prompt continue_text w = ROk p -> Forall Q p) ->
  forall evs, ev_lines_ok (Forall Q) evs -> Forall Q (fst (events_output echo evs w)).
Proof.
  intros Hn He Hp. induction evs as [|e evs IH]; intros Hl; cbn [events_output]; [constructor|].
  assert (Hl' : ev_lines_ok (Forall Q) evs) by (intros l Hin; apply Hl; now right).
  specialize (IH Hl'). destruct e as [l| |].
  - destruct (events_output echo evs w) as [o s]. cbn [fst] in *. unfold py_print.
    apply Forall_app. split; [|exact IH]. apply Forall_app. split; [apply Hl; now left|constructor; [exact Hn|constructor]].
  - destruct (text_prompt continue_text w) as [p| |] eqn:Ep; try constructor.
    destruct (events_output echo evs w) as [o s]. cbn [fst] in *.
    apply Forall_app. split; [now apply Hp|]. apply Forall_app. now split.
  - constructor.
Qed.

Lemma continue_prompt_chars w p : text_prompt continue_text w = ROk p -> Forall (fun c => In c own_chars) p.
Proof.
  intros H. apply (chars_text_prompt _ _ _ (prompt_str continue_prompt) (simple_text_ok _) (incl_refl _)) in H.
  eapply Forall_impl; [|exact H]. intros c [->|[->|[Hc _]]]; unfold own_chars.
  - now left.
  - right. now left.
  - right. right. now right.
Qed.

Definition draw_char_ok (echo : list char) (win : wtree) (c : char) : Prop :=
  In c own_chars \/ In c echo \/ (In c (chars_of_tree win) /\ is_tw_space c = false).

Lemma rule_chars w : Forall (fun c => c = EQS) (rule w).
Proof. unfold rule. apply Forall_forall. intros c H. now apply repeat_spec in H. Qed.

Lemma spacer_eq w : spacer w = rule w ++ NL :: rule w.
Proof. reflexivity. Qed.

Lemma charset_draw echo ns win w H c :
  tree_texts_ok win -> In c (fst (draw_output_echo echo ns win w H)) -> draw_char_ok echo win c.
Proof.
  intros Hok Hc.
  assert (Hall : Forall (draw_char_ok echo win) (fst (draw_output_echo echo ns win w H))); [|rewrite Forall_forall in Hall; now apply Hall].
  clear c Hc. unfold draw_output_echo.
  destruct (show_all_output echo win w H) as [o s] eqn:Eo. cbn [fst].
  assert (Hown : forall c, In c own_chars -> draw_char_ok echo win c) by (intros c Hc; now left).
  apply Forall_app. split.
  - destruct ns; [constructor|]. unfold py_print. rewrite spacer_eq.
    assert (Hr : Forall (draw_char_ok echo win) (rule w)).
    { eapply Forall_impl; [|apply rule_chars]. intros c ->. apply Hown. unfold own_chars. cbn [In]. tauto. }
    assert (Hnl : draw_char_ok echo win NL) by (apply Hown; now left).
    repeat (apply Forall_app; split); try exact Hr; repeat constructor; try exact Hnl. exact Hr.
  - replace o with (fst (show_all_output echo win w H)) by (rewrite Eo; reflexivity). clear Eo o s.
    unfold show_all_output, show_all. destruct (render_tree win w) as [b| |] eqn:Eb; try constructor.
    apply chars_events_output.
    + apply Hown. now left.
    + apply Forall_forall. intros c Hc. right. now left.
    + intros p Hp. eapply Forall_impl; [|apply (continue_prompt_chars w p Hp)]. exact Hown.
    + intros l Hl. apply print_widget_prints_in in Hl. apply Forall_forall. intros c Hc.
      assert (Hin : In c (concat b)) by (apply in_concat; exists l; now split).
      destruct (charset_render win w b c Hok Eb Hin) as [->|Hc']; [apply Hown; right; now left|].
      right. now right.
Qed.

(* the framework's own characters: printable ASCII and the line feed *)
Lemma own_chars_plain c : In c own_chars -> c = NL \/ (32 <= c /\ c < 127).
Proof.
  assert (H : forallb (fun c => (c =? NL) || ((32 <=? c) && (c <? 127))) own_chars = true) by reflexivity.
  rewrite forallb_forall in H. intros Hc. specialize (H c Hc). lia.
Qed.

Lemma own_chars_not_forbidden c : In c own_chars -> forbidden c = false.
Proof. intros H. apply own_chars_plain in H. unfold forbidden. unfold NL in H. lia. Qed.

(* C17_charset_framework *)
Lemma charset_framework ns win w H :
  tree_texts_ok win ->
  (forall c, In c (chars_of_tree win) -> is_tw_space c = false -> forbidden c = false) ->
  Forall (fun c => forbidden c = false) (fst (draw_output ns win w H)).
Proof.
  intros Hok Happ. apply Forall_forall. intros c Hc. unfold draw_output in Hc.
  destruct (charset_draw [] ns win w H c Hok Hc) as [H1|[[]|[H1 H2]]]; [now apply own_chars_not_forbidden|now apply Happ].
Qed.

(* C17_append_only *)
Lemma append_only ns win w H c :
  tree_texts_ok win -> In c (fst (draw_output ns win w H)) -> (c < 32 \/ c = 127) ->
  c = NL \/ (In c (chars_of_tree win) /\ is_tw_space c = false).
Proof.
  intros Hok Hc Hlow. unfold draw_output in Hc.
  destruct (charset_draw [] ns win w H c Hok Hc) as [H1|[[]|H1]]; [|now right].
  apply own_chars_plain in H1. left. lia.
Qed.

Lemma prompt_literals_plain c : In c prompt_literals -> 32 <= c /\ c < 127.
Proof. unfold prompt_literals. cbn [In]. intros H. lia. Qed.

Lemma charset_prompt p chunks w s :
  chunks_ok {| t_text := prompt_str p; t_chunks := chunks |} = true ->
  (forall c, In c (prompt_app_chars p) -> is_tw_space c = false -> forbidden c = false) ->
  prompt_output p chunks w = ROk s -> Forall (fun c => forbidden c = false) s.
Proof.
  intros Hok Happ H. apply Forall_forall. intros c Hc.
  destruct (chars_prompt_output p chunks w s c Hok H Hc) as [->|[->|[[Hl|Ha] Hs]]]; try reflexivity.
  - apply prompt_literals_plain in Hl. unfold forbidden. lia.
  - now apply Happ.
Qed.
Local Close Scope N_scope.

(* ================================================================== 3. the separator *)
Lemma rule_length w : length (rule w) = Z.to_nat w.
Proof. apply repeat_length. Qed.

Lemma rule_no_nl w : no_nl (rule w).
Proof. unfold no_nl. eapply Forall_impl; [|apply rule_chars]. intros c -> E. discriminate E. Qed.

(* the stream splits into lines at every line feed *)
Lemma split_nl_app_nl a b : forall cur, split_nl (a ++ NL :: b) cur = split_nl a cur ++ split_nl b [].
Proof.
  induction a as [|c a IH]; intros cur; cbn [app split_nl].
  - change (NL =? NL)%N with true. reflexivity.
  - destruct (c =? NL)%N; [rewrite IH; reflexivity|apply IH].
Qed.

Lemma split_lines_app_nl a b : split_lines (a ++ NL :: b) = split_lines a ++ split_lines b.
Proof. apply split_nl_app_nl. Qed.

Lemma split_lines_print l rest : split_lines (py_print l ++ rest) = split_lines l ++ split_lines rest.
Proof. unfold py_print. rewrite <- app_assoc. apply split_lines_app_nl. Qed.

Lemma split_lines_spacer w : split_lines (spacer w) = [rule w; rule w].
Proof.
  rewrite spacer_eq, split_lines_app_nl, !(split_nl_nonl _ (rule_no_nl w)). reflexivity.
Qed.

(* the separator is exactly two lines of exactly w "=" *)
Lemma separator_width w :
  split_lines (spacer w) = [rule w; rule w] /\ length (rule w) = Z.to_nat w /\ Forall (fun c => c = EQS) (rule w).
Proof. split; [apply split_lines_spacer|]. split; [apply rule_length|apply rule_chars]. Qed.

(* a draw with the separator is the separator, printed, followed by the draw without it *)
Lemma draw_starts_with_separator echo win w H :
  fst (draw_output_echo echo false win w H) = py_print (spacer w) ++ fst (draw_output_echo echo true win w H) /\
  snd (draw_output_echo echo false win w H) = snd (draw_output_echo echo true win w H).
Proof.
  unfold draw_output_echo. destruct (show_all_output echo win w H) as [o s]. cbn [fst snd app]. now split.
Qed.

Lemma draw_no_separator echo win w H : draw_output_echo echo true win w H = show_all_output echo win w H.
Proof. unfold draw_output_echo. destruct (show_all_output echo win w H) as [o s]. reflexivity. Qed.

Lemma draw_separator_lines echo win w H :
  split_lines (fst (draw_output_echo echo false win w H)) =
  rule w :: rule w :: split_lines (fst (draw_output_echo echo true win w H)).
Proof.
  rewrite (proj1 (draw_starts_with_separator echo win w H)), split_lines_print, split_lines_spacer. reflexivity.
Qed.

(* without the separator a "=" in the output is one of the application's *)
Lemma no_separator_no_rule win w H :
  tree_texts_ok win -> In EQS (fst (draw_output true win w H)) -> In EQS (chars_of_tree win).
Proof.
  intros Hok Hc. unfold draw_output in Hc. rewrite draw_no_separator in Hc.
  assert (Hall : Forall (fun c => In c (NL :: SP :: prompt_str continue_prompt) \/
                                  (In c (chars_of_tree win) /\ is_tw_space c = false))
                        (fst (show_all_output [] win w H))).
  { unfold show_all_output, show_all. destruct (render_tree win w) as [b| |] eqn:Eb; try constructor.
    apply chars_events_output.
    - left. now left.
    - constructor.
    - intros p Hp. apply (chars_text_prompt _ _ _ (prompt_str continue_prompt) (simple_text_ok _) (incl_refl _)) in Hp.
      eapply Forall_impl; [|exact Hp]. intros c [->|[->|[Hc' _]]]; left; [now left|right; now left|right; now right].
    - intros l Hl. apply print_widget_prints_in in Hl. apply Forall_forall. intros c Hc'.
      assert (Hin : In c (concat b)) by (apply in_concat; exists l; now split).
      destruct (charset_render win w b c Hok Eb Hin) as [->|Hc'']; [left; right; now left|now right]. }
  rewrite Forall_forall in Hall. destruct (Hall EQS Hc) as [Hin|[Hin _]]; [|exact Hin].
  exfalso. assert (E : existsb (fun c => (c =? EQS)%N) (NL :: SP :: prompt_str continue_prompt) = false) by reflexivity.
  assert (E' : existsb (fun c => (c =? EQS)%N) (NL :: SP :: prompt_str continue_prompt) = true).
  { apply existsb_exists. exists EQS. split; [exact Hin|reflexivity]. }
  congruence.
Qed.

(* ================================================================== 4. width *)
(* a line is within w when, its trailing blanks removed, it has at most w characters *)
Definition fits (w : nat) (l : line) : Prop := length (rstrip_sp l) <= w.

Lemma lstrip_sp_le l : length (lstrip_sp l) <= length l.
Proof. induction l as [|c r IH]; cbn [lstrip_sp]; [lia|]. destruct (c =? SP)%N; cbn [length]; lia. Qed.

Lemma rstrip_sp_le l : length (rstrip_sp l) <= length l.
Proof. unfold rstrip_sp. rewrite rev_length. pose proof (lstrip_sp_le (rev l)) as H. rewrite rev_length in H. exact H. Qed.

Lemma rstrip_sp_snoc l : rstrip_sp (l ++ [SP]) = rstrip_sp l.
Proof. unfold rstrip_sp. rewrite rev_app_distr. cbn [rev app lstrip_sp]. change (SP =? SP)%N with true. reflexivity. Qed.

Lemma short_fits w l : short w l -> fits w l.
Proof. unfold short, fits. intros H. exact (Nat.le_trans _ _ _ (rstrip_sp_le l) H). Qed.

Lemma fits_nil w : fits w [].
Proof. unfold fits. cbn. lia. Qed.

(* text + " ": every line of text that is short stays within w; the last line has the blank *)
Lemma split_nl_snoc_sp w x : forall cur,
  Forall (short w) (split_nl x cur) -> Forall (fits w) (split_nl (x ++ [SP]) cur).
Proof.
  induction x as [|c x IH]; intros cur H; cbn [app split_nl] in *.
  - change (SP =? NL)%N with false. cbv iota. cbn [split_nl]. inversion H as [|? ? H1 _]; subst.
    constructor; [|constructor]. cbn [rev]. unfold fits. rewrite rstrip_sp_snoc. now apply short_fits.
  - destruct (c =? NL)%N.
    + inversion H as [|? ? H1 H2]; subst. constructor; [now apply short_fits|now apply IH].
    + now apply IH.
Qed.

Lemma split_nl_snoc_sp_short w x : forall cur,
  Forall (short w) (split_nl x cur) -> Forall (short (S w)) (split_nl (x ++ [SP]) cur).
Proof.
  induction x as [|c x IH]; intros cur H; cbn [app split_nl] in *.
  - change (SP =? NL)%N with false. cbv iota. cbn [split_nl]. inversion H as [|? ? H1 _]; subst.
    constructor; [|constructor]. unfold short in *. cbn [rev]. rewrite app_length. cbn [length]. lia.
  - destruct (c =? NL)%N.
    + inversion H as [|? ? H1 H2]; subst. constructor; [unfold short in *; lia|now apply IH].
    + now apply IH.
Qed.

(* the prompt: lines of at most w characters, the last one followed by one blank *)
Lemma text_prompt_shape t w s :
  text_prompt t w = ROk s ->
  exists b, render_text t w = ROk b /\ s = join_nl b ++ [SP] /\
            Forall (fun l : line => (Z.of_nat (length l) <= w)%Z) b.
Proof.
  unfold text_prompt. intros H. destruct (render_text t w) as [b| |] eqn:Eb; try discriminate.
  injection H as <-. exists b. split; [reflexivity|]. split; [reflexivity|]. now apply render_width in Eb.
Qed.

Lemma text_prompt_width t w s :
  text_prompt t w = ROk s ->
  Forall (fits (Z.to_nat w)) (split_lines s) /\ Forall (short (S (Z.to_nat w))) (split_lines s).
Proof.
  intros H. destruct (text_prompt_shape t w s H) as (b & _ & -> & Hb).
  assert (Hs : Forall (short (Z.to_nat w)) (split_lines (join_nl b))).
  { apply split_join_short. eapply Forall_impl; [|exact Hb]. intros l Hl. apply (split_nl_short _ l []). cbn [length]. unfold line, char, str in *. lia. }
  split; [now apply split_nl_snoc_sp|].
  now apply split_nl_snoc_sp_short.
Qed.

(* what the events write, on a terminal where the user answers the press-ENTER prompts with ENTER *)
Lemma width_events wn w : wn = Z.to_nat w ->
  forall evs, ev_lines_ok (fun l => length l <= wn) evs ->
  Forall (fits wn) (split_lines (fst (events_output [NL] evs w))).
Proof.
  intros Ew. induction evs as [|e evs IH]; intros Hl; cbn [events_output].
  - constructor; [apply fits_nil|constructor].
  - assert (Hl' : ev_lines_ok (fun l => length l <= wn) evs) by (intros l Hin; apply Hl; now right).
    specialize (IH Hl'). destruct e as [l| |].
    + destruct (events_output [NL] evs w) as [o s]. cbn [fst] in *. rewrite split_lines_print.
      apply Forall_app. split; [|exact IH].
      eapply Forall_impl; [intros a Ha; apply short_fits; exact Ha|].
      apply (split_nl_short _ l []). cbn [length]. apply Hl. now left.
    + destruct (text_prompt continue_text w) as [p| |] eqn:Ep; try (constructor; [apply fits_nil|constructor]).
      destruct (events_output [NL] evs w) as [o s]. cbn [fst app] in *. rewrite split_lines_app_nl.
      apply Forall_app. split; [|exact IH]. subst wn. apply (proj1 (text_prompt_width _ _ _ Ep)).
    + constructor; [apply fits_nil|constructor].
Qed.

(* one draw: separator, content, press-ENTER prompts.  Hypothesis: the window renders within w *)
Lemma width_draw_gen ns win w H :
  (0 <= w)%Z ->
  (forall b, render_tree win w = ROk b -> Forall (fun l : line => (Z.of_nat (length l) <= w)%Z) b) ->
  Forall (fits (Z.to_nat w)) (split_lines (fst (draw_terminal ns win w H))).
Proof.
  intros Hw Hwin.
  assert (Hcontent : Forall (fits (Z.to_nat w)) (split_lines (fst (draw_output_echo [NL] true win w H)))).
  { rewrite draw_no_separator. unfold show_all_output, show_all.
    destruct (render_tree win w) as [b| |] eqn:Eb; try (constructor; [apply fits_nil|constructor]).
    apply (width_events _ w eq_refl). intros l Hl. apply print_widget_prints_in in Hl.
    specialize (Hwin b eq_refl). rewrite Forall_forall in Hwin. specialize (Hwin l Hl). lia. }
  unfold draw_terminal. destruct ns; [exact Hcontent|]. rewrite draw_separator_lines.
  assert (Hr : fits (Z.to_nat w) (rule w)) by (apply short_fits; unfold short; rewrite rule_length; lia).
  constructor; [exact Hr|]. constructor; [exact Hr|exact Hcontent].
Qed.

(* C17_width for plain trees (texts, separators, centred widgets, list containers without forced column
   width and with spacing >= 0, windows - nested in any way) *)
Lemma width_draw ns win w H :
  plain_tree win -> (0 <= w)%Z ->
  Forall (fun l => (Z.of_nat (length (rstrip_sp l)) <= w)%Z) (split_lines (fst (draw_terminal ns win w H))).
Proof.
  intros Hp Hw. eapply Forall_impl; [|apply (width_draw_gen ns win w H Hw)].
  - intros l Hl. unfold fits in Hl. lia.
  - intros b Hb. now apply (plain_tree_within_width win w b).
Qed.

(* content that fits on the screen (fewer than H - 2 lines): no press-ENTER prompt, and the stream is
   the separator and the lines, each followed by a line feed *)
Lemma events_output_prints echo ls w : events_output echo (map PPrint ls) w = (emit_lines ls, ROk tt).
Proof.
  induction ls as [|l ls IH]; cbn [map events_output]; [reflexivity|]. rewrite IH. reflexivity.
Qed.

Lemma draw_fits_screen echo ns win w H b :
  render_tree win w = ROk b -> (Z.of_nat (length b) < H - 2)%Z ->
  draw_output_echo echo ns win w H = ((if ns then [] else py_print (spacer w)) ++ emit_lines b, ROk tt).
Proof.
  intros Hb Hlen. unfold draw_output_echo, show_all_output, show_all. rewrite Hb.
  assert (E : print_widget b H = map PPrint b).
  { unfold print_widget. destruct (Z.of_nat (length b) =? 0)%Z eqn:E0.
    - destruct b; [reflexivity|cbn [length] in E0; lia].
    - cbv zeta. destruct (Z.of_nat (length b) <? H - 2)%Z eqn:E1; [reflexivity|lia]. }
  rewrite E, events_output_prints. reflexivity.
Qed.

Lemma split_lines_emit ls : Forall no_nl ls -> split_lines (emit_lines ls) = ls ++ [[]].
Proof.
  induction ls as [|l ls IH]; intros H; [reflexivity|]. inversion H as [|? ? H1 H2]; subst.
  cbn [emit_lines flat_map]. rewrite split_lines_print, (split_nl_nonl _ H1). cbn [app]. f_equal. now apply IH.
Qed.

(* the lines a reader of the stream sees are exactly the separator and the window's lines: every line feed
   is the end of a printed line *)
Lemma draw_stream_lines ns win w H b :
  tree_texts_ok win -> render_tree win w = ROk b -> (Z.of_nat (length b) < H - 2)%Z ->
  split_lines (fst (draw_output ns win w H)) = (if ns then [] else [rule w; rule w]) ++ b ++ [[]].
Proof.
  intros Hok Hb Hlen. unfold draw_output. rewrite (draw_fits_screen [] ns win w H b Hb Hlen). cbn [fst].
  pose proof (split_lines_emit b (render_lines_no_nl win w b Hok Hb)) as E.
  destruct ns; [exact E|]. rewrite split_lines_print, split_lines_spacer, E. reflexivity.
Qed.

Lemma width_draw_fits_screen_gen ns win w H b :
  Forall (fun l : line => (Z.of_nat (length l) <= w)%Z) b ->
  (0 <= w)%Z -> render_tree win w = ROk b -> (Z.of_nat (length b) < H - 2)%Z ->
  Forall (fun l => (Z.of_nat (length l) <= w)%Z) (split_lines (fst (draw_output ns win w H))).
Proof.
  intros Hp Hw Hb Hlen. unfold draw_output. rewrite (draw_fits_screen [] ns win w H b Hb Hlen). cbn [fst].
  assert (Hs : forall l, (Z.of_nat (length l) <= w)%Z -> Forall (fun l => (Z.of_nat (length l) <= w)%Z) (split_lines l)).
  { intros l Hl. pose proof (split_nl_short (Z.to_nat w) l [] ltac:(cbn [length]; lia)) as S.
    eapply Forall_impl; [|exact S]. unfold short. intros a Ha. lia. }
  assert (Hc : Forall (fun l => (Z.of_nat (length l) <= w)%Z) (split_lines (emit_lines b))).
  { pose proof Hp as Hall. clear Hb Hlen Hp.
    induction b as [|l b IH]; [constructor; [cbn; lia|constructor]|].
    inversion Hall as [|? ? H1 H2]; subst. cbn [emit_lines flat_map]. rewrite split_lines_print.
    apply Forall_app. split; [now apply Hs|now apply IH]. }
  destruct ns; [exact Hc|]. rewrite split_lines_print, split_lines_spacer. cbn [app].
  assert (Hr : (Z.of_nat (length (rule w)) <= w)%Z) by (rewrite rule_length; lia).
  constructor; [exact Hr|]. constructor; [exact Hr|exact Hc].
Qed.

(* the prompt written after the draw *)
Lemma width_prompt p chunks w s :
  (0 <= w)%Z -> prompt_output p chunks w = ROk s ->
  (exists b, s = join_nl b ++ [SP] /\ Forall (fun l : line => (Z.of_nat (length l) <= w)%Z) b) /\
  Forall (fun l => (Z.of_nat (length (rstrip_sp l)) <= w)%Z) (split_lines s) /\
  Forall (fun l => (Z.of_nat (length l) <= w + 1)%Z) (split_lines s).
Proof.
  unfold prompt_output. intros Hw0 H.
  assert (Hw : (1 <= w)%Z \/ s = [SP]).
  { unfold text_prompt, render_text in H. cbn [t_text] in H. destruct (prompt_str p); [right; now injection H as <-|].
    destruct (w <=? 0)%Z eqn:E; [discriminate|left; lia]. }
  split; [destruct (text_prompt_shape _ _ _ H) as (b & _ & E & Hb); now exists b|].
  destruct Hw as [Hw| ->].
  - destruct (text_prompt_width _ _ _ H) as [H1 H2]. split.
    + eapply Forall_impl; [|exact H1]. unfold fits. intros l Hl. lia.
    + eapply Forall_impl; [|exact H2]. unfold short. intros l Hl. lia.
  - split; (constructor; [cbn; lia|constructor]).
Qed.

(* ================================================================== 5. width: checkboxes too *)
Lemma draw_items_block_width (r : wtree -> Z -> rres buffer) items wi m col :
  (forall it b, In it items -> r it wi = ROk b -> col + buf_width b <= m) ->
  forall b0 row res, buf_width b0 <= m -> draw_items_block r items wi b0 row col = ROk res -> buf_width (fst res) <= m.
Proof.
  induction items as [|it items IH]; intros Hit b0 row res Hb H; cbn [draw_items_block] in H.
  - injection H as <-. exact Hb.
  - destruct (r it wi) as [ib| |] eqn:Eib; cbn [bind] in H; try discriminate.
    destruct (draw b0 row col true ib) as [b' [row' c']] eqn:Ed.
    apply (IH (fun it' b'' Hin => Hit it' b'' (or_intror Hin)) b' row' res); [|exact H].
    replace b' with (fst (draw b0 row col true ib)) by (rewrite Ed; reflexivity).
    apply draw_buf_width; [exact Hb|]. apply (Hit it ib); [now left|exact Eib].
Qed.

Lemma draw_items_block_all_ok (r : wtree -> Z -> rres buffer) items wi col :
  forall b0 row res, draw_items_block r items wi b0 row col = ROk res ->
  forall it, In it items -> exists b, r it wi = ROk b.
Proof.
  induction items as [|it0 items IH]; intros b0 row res H it Hin; [destruct Hin|].
  cbn [draw_items_block] in H. destruct (r it0 wi) as [ib| |] eqn:Eib; cbn [bind] in H; try discriminate.
  destruct Hin as [<-|Hin]; [now exists ib|].
  destruct (draw b0 row col true ib) as [b' [row' c']]. now apply (IH b' row' res H it).
Qed.

Lemma text_buf_width t w b : (0 < w)%Z -> render_text t w = ROk b -> (Z.of_nat (buf_width b) <= w)%Z.
Proof. apply text_width_all. exact I. Qed.

Lemma render_leaf_text g x w b : render g (WText x) w = ROk b -> render_text x w = ROk b.
Proof. destruct g; cbn [render]; [discriminate|auto]. Qed.

(* CheckboxWidget with a title or a text: "[x] " then the data in a column of width - 4; rendering
   succeeds only for width >= 5 *)
Lemma checkbox_width g box data w b :
  Exists (fun d => t_text d <> []) data ->
  render (S g) (WCheckbox box data) w = ROk b -> (Z.of_nat (buf_width b) <= w)%Z.
Proof.
  intros Hex H. cbn [render] in H.
  match type of H with bind ?e _ = _ => destruct e as [cb| |] eqn:Ecb; cbn [bind] in H; try discriminate end.
  injection H as <-. change (fst (draw [] 0 0 false cb)) with (overlay [] 0 cb). rewrite C12Proofs.overlay_nil.
  cbn [render_columns] in Ecb. change (nat_of_Z 0) with (ROk 0 : rres nat) in Ecb. cbn [bind] in Ecb.
  destruct (draw_items_block (render g) [WText box] 3 [] 0 0) as [res1| |] eqn:E1; cbn [bind] in Ecb; try discriminate.
  assert (H1 : buf_width (fst res1) <= 3).
  { apply (draw_items_block_width _ _ _ 3 0 ) in E1; [exact E1| |cbn; lia].
    intros it b' [<-|[]] Hr. apply render_leaf_text in Hr. apply text_buf_width in Hr; lia. }
  replace (Z.max (0 + 3) (Z.of_nat (buf_width (fst res1))) + 1)%Z with 4%Z in Ecb by lia.
  change (nat_of_Z 4) with (ROk 4 : rres nat) in Ecb. cbn [bind] in Ecb.
  destruct (draw_items_block (render g) (map WText data) (w - 4) (fst res1) 0 4) as [res2| |] eqn:E2;
    cbn [bind] in Ecb; try discriminate.
  injection Ecb as <-.
  assert (Hw : (5 <= w)%Z).
  { apply Exists_exists in Hex. destruct Hex as (d & Hd & Hne).
    destruct (draw_items_block_all_ok _ _ _ _ _ _ _ E2 (WText d) (in_map WText data d Hd)) as (bd & Hbd).
    apply render_leaf_text in Hbd. destruct (Z_le_gt_dec (w - 4) 0) as [Hle|Hgt]; [|lia].
    rewrite (render_nonpositive d (w - 4) Hne Hle) in Hbd. discriminate. }
  assert (H2 : buf_width (fst res2) <= Z.to_nat w).
  { apply (draw_items_block_width _ _ _ (Z.to_nat w) 4) in E2; [exact E2| |lia].
    intros it b' Hin Hr. apply in_map_iff in Hin. destruct Hin as (d & <- & _). apply render_leaf_text in Hr.
    apply text_buf_width in Hr; lia. }
  lia.
Qed.

Lemma fitting_tree_width_fuel : forall f t, depth t <= f -> fitting_tree t ->
  forall w b, (0 <= w)%Z -> render_tree t w = ROk b -> (Z.of_nat (buf_width b) <= w)%Z.
Proof.
  induction f as [|f IH]; intros t Hd Hfit w b Hw H; [pose proof (ContainersProofs.depth_pos t); lia|].
  inversion Hfit as [tx|n|c Hc|box data Hex|kind columns items spacing kp Hs Hitems|title items Hitems]; subst.
  - unfold render_tree in H. cbn [render depth] in H. now apply (text_width0 (fun _ => True) text_width_all tx).
  - unfold render_tree in H. cbn [render depth] in H. injection H as <-.
    assert (Hz : buf_width (render_sep n) <= 0).
    { apply buf_width_le. unfold render_sep. apply Forall_forall. intros l Hl. apply repeat_spec in Hl. subst. cbn. lia. }
    lia.
  - rewrite render_tree_center in H. cbn [depth] in Hd.
    destruct (render_tree c w) as [cb| |] eqn:Ecb; cbn [bind] in H; try discriminate.
    pose proof (IH c ltac:(lia) Hc w cb Hw Ecb) as Hcb.
    unfold nat_of_Z in H. destruct (_ <? 0)%Z eqn:En; cbn [bind] in H; [discriminate|]. injection H as <-.
    assert (Hb : buf_width (fst (draw [] 0 (Z.to_nat ((w - Z.of_nat (buf_width cb)) / 2)) false cb)) <= Z.to_nat w).
    { apply draw_buf_width; [cbn; lia|]. lia. }
    unfold draw in Hb. cbn [fst draw_at] in Hb. lia.
  - unfold render_tree in H. cbn [depth] in H. now apply (checkbox_width 3 box data w b Hex).
  - cbn [depth] in Hd.
    assert (Hall : Forall (fun l : line => (Z.of_nat (length l) <= w)%Z) b).
    { apply (list_within_width kind columns items spacing kp w b Hs); [| |exact H].
      - intros it w' b' Hin Hw' Hr. rewrite Forall_forall in Hitems.
        apply (IH it); [pose proof (depth_items_le items it Hin); lia|now apply Hitems|lia|exact Hr].
      - apply label_width_all. }
    assert (Hb : buf_width b <= Z.to_nat w).
    { apply buf_width_le. eapply Forall_impl; [|exact Hall]. cbn beta. intros l Hl. lia. }
    lia.
  - cbn [depth] in Hd. rewrite render_tree_window in H.
    assert (Hit : forall it b', In it items -> render_tree it w = ROk b' -> (Z.of_nat (buf_width b') <= w)%Z).
    { intros it b' Hin Hr. rewrite Forall_forall in Hitems.
      apply (IH it); [pose proof (depth_items_le items it Hin); lia|now apply Hitems|exact Hw|exact Hr]. }
    match type of H with bind ?e _ = _ => destruct e as [[b0 r0]| |] eqn:E0; cbn [bind fst snd] in H; try discriminate end.
    assert (Hb0 : buf_width b0 <= Z.to_nat w).
    { destruct title as [t|]; [|injection E0 as <- <-; cbn; lia].
      destruct (t_text t) eqn:Et; [injection E0 as <- <-; cbn; lia|].
      destruct (render_text t w) as [tb| |] eqn:Etb; cbn [bind] in E0; try discriminate.
      pose proof (text_width0 (fun _ => True) text_width_all t w tb I Hw Etb) as Htb.
      destruct (draw [] 0 0 false tb) as [b1 [r1 c1]] eqn:E1.
      destruct (draw b1 r1 0 false (render_sep 1)) as [b2 [r2 c2]] eqn:E2.
      injection E0 as <- <-.
      replace b2 with (fst (draw b1 r1 0 false (render_sep 1))) by (rewrite E2; reflexivity).
      apply draw_buf_width; [|cbn; lia].
      replace b1 with (fst (draw [] 0 0 false tb)) by (rewrite E1; reflexivity).
      apply draw_buf_width; [cbn; lia|lia]. }
    pose proof (draw_items_plain_width (fun _ => True) text_width_all w items Hw Hit b0 r0 b Hb0 H). lia.
Qed.

Lemma fitting_tree_within_width t w b :
  fitting_tree t -> (0 <= w)%Z -> render_tree t w = ROk b -> Forall (fun l : line => (Z.of_nat (length l) <= w)%Z) b.
Proof.
  intros Hfit Hw H. pose proof (fitting_tree_width_fuel (depth t) t (le_n _) Hfit w b Hw H) as Hb.
  assert (Hb' : buf_width b <= Z.to_nat w) by lia.
  apply buf_width_le in Hb'. eapply Forall_impl; [|exact Hb']. cbn beta. intros l Hl. lia.
Qed.

(* every plain tree (C13) is in the class *)
Lemma plain_is_fitting : forall f t, depth t <= f -> plain_tree t -> fitting_tree t.
Proof.
  induction f as [|f IH]; intros t Hd Hp; [pose proof (ContainersProofs.depth_pos t); lia|].
  unfold plain_tree in Hp.
  inversion Hp as [tx _|n|c Hc|kind columns items spacing kp Hs Hitems _|title items _ Hitems]; subst; cbn [depth] in Hd.
  - constructor.
  - constructor.
  - constructor. apply IH; [lia|exact Hc].
  - constructor; [exact Hs|]. apply Forall_forall. intros it Hin. rewrite Forall_forall in Hitems.
    apply IH; [pose proof (depth_items_le items it Hin); lia|now apply Hitems].
  - constructor. apply Forall_forall. intros it Hin. rewrite Forall_forall in Hitems.
    apply IH; [pose proof (depth_items_le items it Hin); lia|now apply Hitems].
Qed.

Lemma plain_fitting t : plain_tree t -> fitting_tree t.
Proof. apply (plain_is_fitting (depth t)). lia. Qed.

(* C17_width *)
Lemma width_draw_fitting ns win w H :
  fitting_tree win -> (0 <= w)%Z ->
  Forall (fun l => (Z.of_nat (length (rstrip_sp l)) <= w)%Z) (split_lines (fst (draw_terminal ns win w H))).
Proof.
  intros Hp Hw. eapply Forall_impl; [|apply (width_draw_gen ns win w H Hw)].
  - intros l Hl. unfold fits in Hl. lia.
  - intros b Hb. now apply (fitting_tree_within_width win w b).
Qed.

Lemma width_draw_fits_screen ns win w H b :
  fitting_tree win -> (0 <= w)%Z -> render_tree win w = ROk b -> (Z.of_nat (length b) < H - 2)%Z ->
  Forall (fun l => (Z.of_nat (length l) <= w)%Z) (split_lines (fst (draw_output ns win w H))).
Proof.
  intros Hp Hw Hb Hlen. apply (width_draw_fits_screen_gen ns win w H b); try assumption.
  now apply (fitting_tree_within_width win w b).
Qed.
