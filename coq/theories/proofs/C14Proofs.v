From SL Require Import Tac.
From SL Require Import PyInt KeyPattern proofs.PyIntProofs.
Import ListNotations.
Local Open Scope Z_scope.

Lemma roundtrip kp items i it :
  nth_error items i = Some it ->
  process_user_input (Some kp) items (KStr (shown_number kp i)) = (true, fire it).
Proof.
  intros H. unfold process_user_input, translate_input_to_widget_id, shown_number.
  rewrite parse_int_dec.
  replace (Z.of_nat i + kp_offset kp - kp_offset kp) with (Z.of_nat i) by lia.
  destruct (0 <=? Z.of_nat i) eqn:E; [|lia].
  rewrite Nat2Z.id, H. reflexivity.
Qed.

Lemma selected kp items s i it :
  parse_int s = Some (Z.of_nat i + kp_offset kp) ->
  nth_error items i = Some it ->
  process_user_input (Some kp) items (KStr s) = (true, fire it).
Proof.
  intros Hp H. unfold process_user_input, translate_input_to_widget_id. rewrite Hp.
  replace (Z.of_nat i + kp_offset kp - kp_offset kp) with (Z.of_nat i) by lia.
  destruct (0 <=? Z.of_nat i) eqn:E; [|lia].
  rewrite Nat2Z.id, H. reflexivity.
Qed.

Lemma not_selected kp items s :
  (forall i, (i < length items)%nat -> parse_int s <> Some (Z.of_nat i + kp_offset kp)) ->
  process_user_input (Some kp) items (KStr s) = (false, []).
Proof.
  intros H. unfold process_user_input, translate_input_to_widget_id.
  destruct (parse_int s) as [z|] eqn:Hp; [|reflexivity].
  destruct (0 <=? z - kp_offset kp) eqn:E; [|reflexivity].
  destruct (nth_error items (Z.to_nat (z - kp_offset kp))) as [it|] eqn:Hn; [|reflexivity].
  exfalso. apply (H (Z.to_nat (z - kp_offset kp))).
  - apply nth_error_Some. congruence.
  - f_equal. lia.
Qed.

Lemma at_most_one kp items k : (length (snd (process_user_input kp items k)) <= 1)%nat.
Proof.
  unfold process_user_input.
  destruct kp as [kp|]; [|cbn; lia]. destruct k as [s|]; [|cbn; lia].
  destruct (translate_input_to_widget_id kp s) as [r|]; [|cbn; lia].
  destruct (0 <=? r); [|cbn; lia].
  destruct (nth_error items (Z.to_nat r)) as [it|]; [|cbn; lia].
  unfold fire. destruct (it_callback it); cbn; lia.
Qed.

Lemma numbers_distinct kp i j : shown_number kp i = shown_number kp j -> i = j.
Proof.
  unfold shown_number. intros H. apply (f_equal parse_int) in H.
  rewrite !parse_int_dec in H. injection H. lia.
Qed.
