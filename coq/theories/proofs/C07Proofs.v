(* C07Proofs.v — (worker s2) "what input() returns decides exactly one follow-up action".
   1. the acceptor chk_C07 accepts every well-formed session (projection of proofs/InputLink.v [all_accepted]);
   2. the table InputState / global keys -> UserInputAction; 3. the rejection counter. *)
From SL Require Import Tac.
From RecordUpdate Require Import RecordUpdate.
From SL Require Import PyInt LoopSem ScreenSem ScreenMon proofs.InputLink.
Import ListNotations.

Lemma chk_all_C07 fresh quit nosep w e : chk_all fresh quit nosep w e = true -> chk_C07 quit w e = true.
Proof.
  unfold chk_all, mchk_all. intros H. rewrite chk07_abs.
  apply andb_true_iff in H. destruct H as [H _]. apply andb_true_iff in H. destruct H as [H _].
  apply andb_true_iff in H. destruct H as [H _]. apply andb_true_iff in H. destruct H as [_ H]. exact H.
Qed.

Theorem one_followup specs specl typed quit run_empty fuel acts :
  (forall n, specs n = nth n specl default_spec) -> wf_session specl quit acts = true ->
  sok (chk_C07 quit) typed (rev (trace (snd (app_run_all specs specl typed quit run_empty fuel acts)))) = true.
Proof.
  intros HS WF. eapply sok_weaken; [apply chk_all_C07|].
  apply (all_accepted false specs specl typed quit run_empty fuel acts HS WF).
Qed.

(* ---- the table *)
Lemma str1_spec c s : str1 c s = true <-> s = [c].
Proof.
  destruct s as [|x [|y r]]; cbn; split; try discriminate.
  - intros H. apply N.eqb_eq in H. subst. reflexivity.
  - intros H. inversion H. apply N.eqb_refl.
Qed.

Lemma action_table :
  action_of RProcessed = ANoop /\ action_of RRedraw = ARedraw /\ action_of RClose = AClose /\
  action_of RDiscarded = AError /\ action_of RNone = AError /\
  action_of (RKey [114%N]) = ARedraw /\ action_of (RKey [99%N]) = AClose /\ action_of (RKey [113%N]) = AQuit /\
  (forall s, s <> [114%N] -> s <> [99%N] -> s <> [113%N] -> action_of (RKey s) = AError).
Proof.
  repeat split; try reflexivity. intros s H1 H2 H3. unfold action_of.
  destruct (str1 114 s) eqn:E1; [apply str1_spec in E1; contradiction|].
  destruct (str1 99 s) eqn:E2; [apply str1_spec in E2; contradiction|].
  destruct (str1 113 s) eqn:E3; [apply str1_spec in E3; contradiction|]. reflexivity.
Qed.

(* ---- the counter: InputManager.process_input updates the screen's counter with [err_step] *)
Definition err_step (act : action) (s : scrst) : scrst :=
  match act with AError => s <| ss_err := S (ss_err s) |> | _ => s <| ss_err := 0 |> end.
Definition is_rejection (act : action) : bool := match act with AError => true | _ => false end.
(* length of the run of rejections at the end of the sequence, counting from [acc] if it reaches the beginning *)
Fixpoint rejection_run (acts : list action) (acc : nat) : nat :=
  match acts with
  | [] => acc
  | a :: r => rejection_run r (if is_rejection a then S acc else 0)
  end.

Lemma counter_is_run acts : forall s, ss_err (fold_left (fun s a => err_step a s) acts s) = rejection_run acts (ss_err s).
Proof.
  induction acts as [|a r IH]; intros s; cbn [fold_left rejection_run]; [reflexivity|].
  rewrite IH. destruct a; reflexivity.
Qed.

(* the update in process_input is err_step, and the redraw decision reads the updated counter *)
Lemma process_input_uses_err_step specs scr line :
  process_input specs scr line =
  (wr (fun u => u <| st_rb := false |>) ;;
   PTry (call_input specs scr line ;; wr (fun u => u <| st_rb := true |>))
        (raise_exception_signal ;; wr (fun u => u <| st_rb := false |>)) ;;
   rd (fun u => if st_rb u then
      let act := action_of (st_rv u) in
      ev T_ACTION [scr; match act with ANoop => 0 | ARedraw => 1 | AClose => 2 | AQuit => 3 | AError => 4 end] ;;
      wr (upd_scr scr (err_step act)) ;;
      rd (fun u => process_input_result specs act (Nat.modulo (ss_err (scr_of u scr)) 5 =? 0)%nat)
    else PRet)).
Proof. reflexivity. Qed.

(* a run of rejections of length k since the last accepted line redraws iff 5 divides k *)
Lemma rejection_run_app acts k acc : rejection_run (acts ++ repeat AError k) acc =
  rejection_run (repeat AError k) (rejection_run acts acc).
Proof. revert acc. induction acts as [|a r IH]; intros acc; cbn; [reflexivity|apply IH]. Qed.
Lemma rejection_run_repeat k acc : rejection_run (repeat AError k) acc = k + acc.
Proof. revert acc. induction k as [|k IH]; intros acc; cbn; [reflexivity|]. rewrite IH. lia. Qed.

Lemma streak_after_accept acts a k s :
  is_rejection a = false ->
  ss_err (fold_left (fun s x => err_step x s) (acts ++ a :: repeat AError k) s) = k.
Proof.
  intros NA. rewrite counter_is_run.
  change (acts ++ a :: repeat AError k) with (acts ++ [a] ++ repeat AError k).
  rewrite app_assoc, rejection_run_app, rejection_run_repeat.
  assert (X : forall l acc, rejection_run (l ++ [a]) acc = 0).
  { induction l as [|x r IH]; intros acc; cbn; [rewrite NA; reflexivity|apply IH]. }
  rewrite X. lia.
Qed.

(* ---- an example session: screen 0 rejects "x", processes "1", redraws on "r", quits on "q" through the dialog 1 *)
Definition ex07_spec (inp : list (str * (list scmd * ret_val))) (dflt : option ret_val) : screen_spec :=
  {| sc_setup := []; sc_refresh := []; sc_show := []; sc_closed := []; sc_input := inp;
     sc_input_default := ([], dflt); sc_prompt_none := false; sc_input_required := true;
     sc_no_separator := false; sc_skip_check := false; sc_pages := 0; sc_answer0 := AnsNoAttr; sc_custom := []; sc_setup_cmds := [] |}.
Definition ex07_specl : list screen_spec :=
  [ex07_spec [([49%N], ([], RProcessed)); ([50%N], ([], RDiscarded)); ([51%N], ([], RNone))] None;
   ex07_spec [([49%N], ([SSetAnswer AnsTrue], RClose)); ([50%N], ([SSetAnswer AnsOther], RClose))] None].
Definition L (c : N) : option str := Some [c].
(* x x 2 3 x (5th rejection: redraw) r x q 2 (dialog says no: redraw) q 1 (yes: exit) *)
Definition ex07_typed : list (option str) :=
  [L 120; L 120; L 50; L 51; L 120; L 114; L 120; L 113; L 50; L 113; L 49].
Definition ex07_acts : list saction := [SACmds [SSchedule 0 0]; SARun].
Definition ex07_run := app_run_all (fun n => nth n ex07_specl default_spec) ex07_specl ex07_typed (Some 1) false 2000 ex07_acts.
Definition ex07_trace : list event := rev (trace (snd ex07_run)).
Definition count_tag (tag : nat) (t : list event) : nat :=
  length (filter (fun e => match e with EUser tg _ _ => (tg =? tag)%nat | _ => false end) t).
Definition actions_of (t : list event) : list nat :=
  flat_map (fun e => match e with EUser tg [_; a] _ => if (tg =? T_ACTION)%nat then [a] else [] | _ => [] end) t.
