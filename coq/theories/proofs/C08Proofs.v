(* C08Proofs.v -- screen lifecycle: set up once, refreshed before every draw, closed once.
   Every well-formed session is accepted by [chk_C08] (from proofs/ScreenLink.v); what acceptance means
   event by event; examples; non-vacuity of the monitor. *)
From SL Require Import Tac.
From RecordUpdate Require Import RecordUpdate.
From SL Require Import PyInt LoopSem ScreenSem ScreenMon proofs.ScreenLink proofs.C04Proofs.
Import ListNotations.

Theorem C08_lifecycle_proof specs specl typed quit run_empty fuel acts :
  failing_setup_plain specs ->
  (forall n, specs n = nth n specl default_spec) -> wf_session specl quit acts = true ->
  sok chk_C08 typed (rev (trace (snd (app_run_all specs specl typed quit run_empty fuel acts)))) = true.
Proof.
  intros Hpl Hs Hw. apply acc_sok.
  eapply acc_weaken; [|apply (app_accepted true); [exact Hpl | intros _; split; [exact Hs | exact Hw]]].
  intros w e H. unfold chkb in H. apply andb_true_iff in H. exact (proj2 H).
Qed.

(* both acceptors at once (used by the examples) *)
Theorem C04_C08_proof specs specl typed quit run_empty fuel acts :
  failing_setup_plain specs ->
  (forall n, specs n = nth n specl default_spec) -> wf_session specl quit acts = true ->
  sok (chkb true) typed (rev (trace (snd (app_run_all specs specl typed quit run_empty fuel acts)))) = true.
Proof. intros Hpl Hs Hw. apply acc_sok. apply (app_accepted true); [exact Hpl|]. intros _. split; assumption. Qed.

(* ---------------------------------------------------------------- what acceptance says, event by event *)
Notation world typed t := (fold_left sworld_step t (sworld0 typed)).

Lemma chk08_split w e : chk_C08 w e = true ->
  (match sw_closed_pending w, e with
   | Some id, EUser tag a _ => (tag =? T_CLOSED)%nat && (nth0 a 0 =? id)%nat
   | _, _ => true end) = true.
Proof. unfold chk_C08. intros H. apply andb_true_iff in H. exact (proj1 H). Qed.

(* closed() fires only for the entry just popped by close_screen ... *)
Lemma accepted_closed typed t1 i scr tx t2 :
  sok chk_C08 typed (t1 ++ EUser T_CLOSED [i; scr] tx :: t2) = true ->
  sw_closed_pending (world typed t1) = Some i.
Proof.
  intros H. apply sok_event in H. unfold chk_C08 in H. apply andb_true_iff in H as [_ H].
  cbn [Nat.eqb T_CLOSED T_SETUP T_REFRESH T_SHOW nth0 nth] in H.
  destruct (sw_closed_pending (world typed t1)) as [j|]; [|discriminate]. apply Nat.eqb_eq in H. congruence.
Qed.

(* ... and it fires at once: while it is pending no other screen-layer event is accepted *)
Lemma accepted_closed_next typed t1 tag a tx t2 i :
  sok chk_C08 typed (t1 ++ EUser tag a tx :: t2) = true ->
  sw_closed_pending (world typed t1) = Some i -> tag = T_CLOSED /\ nth0 a 0 = i.
Proof.
  intros H Hp. apply sok_event in H. apply chk08_split in H. rewrite Hp in H.
  apply andb_true_iff in H as [H1 H2]. apply Nat.eqb_eq in H1, H2. auto.
Qed.

(* only the pop announced by close_screen arms closed(): not the pop of a replace, not the discard *)
Lemma closed_pending_armed w e i :
  sw_closed_pending (sworld_step w e) = Some i -> sw_closed_pending w = Some i \/
  exists a t r, e = EUser T_STACK a t /\ sw_expect w = XPop true :: r /\ nth0 a 1 = i.
Proof.
  change (sw_closed_pending (sworld_step w e)) with (c_cpend (core (sworld_step w e))). rewrite core_step.
  change (sw_closed_pending w) with (c_cpend (core w)). change (sw_expect w) with (c_expect (core w)).
  destruct e; cbn [cstep]; auto; try discriminate.
  - destruct (hid =? H_RENDER)%nat; auto.
  - unfold cuser.
    destruct (tag =? T_OP)%nat; [auto|].
    destruct (tag =? T_STACK)%nat eqn:Et.
    + apply Nat.eqb_eq in Et. subst tag.
      destruct (nth0 args 0 =? K_APPEND)%nat; [auto|]. destruct (nth0 args 0 =? K_ADD_FIRST)%nat; [auto|].
      destruct (c_expect (core w)) as [|[[]| |] r]; cbn [c_cpend]; auto.
      intros E. right. exists args, text, r. inversion E. auto.
    + destruct (tag =? T_SETUP)%nat; [destruct (nth0 args 3 =? 1)%nat; auto|].
      destruct (tag =? T_REFRESH)%nat; [auto|]. destruct (tag =? T_SHOW)%nat; [auto|].
      destruct (tag =? T_CLOSED)%nat; [discriminate|].
      destruct (tag =? T_SETUP_BEGIN)%nat; auto.
Qed.

(* a draw happens only right after the refresh of the same entry in the same _process_screen *)
Lemma accepted_show typed t1 i scr tx t2 :
  sok chk_C08 typed (t1 ++ EUser T_SHOW [i; scr] tx :: t2) = true ->
  exists f r, sw_pframes (world typed t1) = f :: r /\ pf_state f = 1 /\ pf_id f = i.
Proof.
  intros H. apply sok_event in H. unfold chk_C08 in H. apply andb_true_iff in H as [_ H].
  cbn [Nat.eqb T_SETUP T_REFRESH T_SHOW nth0 nth] in H.
  destruct (sw_pframes (world typed t1)) as [|f r]; [discriminate|].
  apply andb_true_iff in H as [H1 H2]. apply Nat.eqb_eq in H1, H2. eauto.
Qed.

(* frame state 1 with id i means exactly: the last lifecycle event of the innermost open _process_screen
   was T_REFRESH of entry i *)
Lemma pframe_refreshed w e f r :
  sw_pframes (sworld_step w e) = f :: r -> pf_state f = 1 ->
  (exists a t, e = EUser T_REFRESH a t /\ pf_id f = nth0 a 0) \/
  (sw_pframes w = f :: r) \/ (exists h sid how g, e = EHandlerEnd h sid how /\ sw_pframes w = g :: f :: r).
Proof.
  change (sw_pframes (sworld_step w e)) with (c_pframes (core (sworld_step w e))). rewrite core_step.
  change (sw_pframes w) with (c_pframes (core w)).
  destruct e; cbn [cstep]; auto; try discriminate.
  - destruct (hid =? H_RENDER)%nat; auto. cbn [c_pframes]. intros E Hs. inversion E; subst. discriminate.
  - destruct (hid =? H_RENDER)%nat; auto. cbn [c_pframes].
    destruct (c_pframes (core w)) as [|g l]; cbn [tl]; [discriminate|]. intros -> _. right. right. eauto 6.
  - unfold cuser.
    destruct (tag =? T_OP)%nat; [auto|].
    destruct (tag =? T_STACK)%nat.
    { destruct (nth0 args 0 =? K_APPEND)%nat; [auto|]. destruct (nth0 args 0 =? K_ADD_FIRST)%nat; [auto|].
      destruct (c_expect (core w)) as [|[[]| |] l]; auto. }
    destruct (tag =? T_SETUP)%nat; [destruct (nth0 args 3 =? 1)%nat; auto|].
    destruct (tag =? T_REFRESH)%nat eqn:Er.
    { apply Nat.eqb_eq in Er. subst tag. cbn [c_pframes]. destruct (c_pframes (core w)); [discriminate|].
      intros E _. inversion E; subst. left. eauto. }
    destruct (tag =? T_SHOW)%nat.
    { cbn [c_pframes]. destruct (c_pframes (core w)); [discriminate|]. intros E Hs. inversion E; subst. discriminate. }
    destruct (tag =? T_CLOSED)%nat; [auto|].
    destruct (tag =? T_SETUP_BEGIN)%nat; [|auto].
    cbn [c_pframes]. destruct (c_pframes (core w)); [discriminate|]. intros E Hs. inversion E; subst. discriminate.
Qed.

(* setup() only for a screen that is not ready yet, refresh() only for a ready one; both with the arguments
   of the top entry, at the start of a _process_screen *)
(* (T_SETUP is logged when setup() RETURNS; a setup() that runs commands of its own logs T_SETUP_BEGIN on entry, and the
   conditions are checked there: [accepted_setup_begin]; its return is recognised by [in_setup_of]) *)
Lemma accepted_setup typed t1 i scr args ok tx t2 :
  sok chk_C08 typed (t1 ++ EUser T_SETUP [i; scr; args; ok] tx :: t2) = true ->
  (mem scr (sw_ready (world typed t1)) = false /\
   (exists e, top_entry (world typed t1) = Some e /\ en_args e = args) \/
   in_setup_of (world typed t1) i = true) /\
  exists f r, sw_pframes (world typed t1) = f :: r /\ pf_state f = 0.
Proof.
  intros H. apply sok_event in H. unfold chk_C08 in H. apply andb_true_iff in H as [_ H].
  cbn [Nat.eqb T_SETUP nth0 nth] in H. apply andb_true_iff in H as [H12 H3]. split.
  - apply orb_true_iff in H12 as [H12|H12]; [left | right; exact H12].
    apply andb_true_iff in H12 as [H1 H2]. split; [apply negb_true_iff; exact H1|].
    destruct (top_entry (world typed t1)) as [e|]; [|discriminate]. apply Nat.eqb_eq in H2. eauto.
  - destruct (sw_pframes (world typed t1)) as [|f r]; [discriminate|]. apply Nat.eqb_eq in H3. eauto.
Qed.

(* a setup() that runs commands is ENTERED only for a screen not yet ready, with the top entry's arguments, as the first
   thing of a _process_screen frame, and not while a failed entry waits for its discard *)
Lemma accepted_setup_begin typed t1 i scr args tx t2 :
  sok chk_C08 typed (t1 ++ EUser T_SETUP_BEGIN [i; scr; args] tx :: t2) = true ->
  mem scr (sw_ready (world typed t1)) = false /\
  (exists e, top_entry (world typed t1) = Some e /\ en_args e = args) /\
  (exists f r, sw_pframes (world typed t1) = f :: r /\ pf_state f = 0 /\ pf_id f = 0) /\
  sw_failed (world typed t1) = None.
Proof.
  intros H. apply sok_event in H. unfold chk_C08 in H. apply andb_true_iff in H as [_ H].
  cbn [Nat.eqb T_SETUP T_SETUP_BEGIN nth0 nth] in H. rewrite !andb_true_iff in H. destruct H as [[[H1 H2] H3] H4].
  split; [apply negb_true_iff; exact H1|]. split; [|split].
  - destruct (top_entry (world typed t1)) as [e|]; [|discriminate]. apply Nat.eqb_eq in H2. eauto.
  - destruct (sw_pframes (world typed t1)) as [|f r]; [discriminate|].
    apply andb_true_iff in H3 as [H3 H3']. apply Nat.eqb_eq in H3, H3'. eauto.
  - destruct (sw_failed (world typed t1)); [discriminate | reflexivity].
Qed.

(* "inside the setup() of entry i" is a state of the innermost frame that only T_SETUP_BEGIN of entry i creates; the
   frame's T_REFRESH / T_SHOW end it; nested frames leave it alone *)
Lemma in_setup_armed w e i :
  in_setup_of (sworld_step w e) i = true ->
  (exists a t, e = EUser T_SETUP_BEGIN a t /\ nth0 a 0 = i) \/ in_setup_of w i = true \/
  (exists h sid how g r, e = EHandlerEnd h sid how /\ sw_pframes w = g :: r /\ sw_pframes (sworld_step w e) = r).
Proof.
  unfold in_setup_of.
  change (sw_pframes (sworld_step w e)) with (c_pframes (core (sworld_step w e))). rewrite core_step.
  change (sw_pframes w) with (c_pframes (core w)).
  destruct e; cbn [cstep]; auto; try discriminate.
  - destruct (hid =? H_RENDER)%nat; auto. cbn [c_pframes pf_state pf_id Nat.eqb andb]. discriminate.
  - destruct (hid =? H_RENDER)%nat; auto. cbn [c_pframes].
    destruct (c_pframes (core w)) as [|g l]; cbn [tl]; [discriminate|]. intros H. right. right. eauto 8.
  - unfold cuser.
    destruct (tag =? T_OP)%nat; [auto|].
    destruct (tag =? T_STACK)%nat.
    { destruct (nth0 args 0 =? K_APPEND)%nat; [auto|]. destruct (nth0 args 0 =? K_ADD_FIRST)%nat; [auto|].
      destruct (c_expect (core w)) as [|[[]| |] l]; auto. }
    destruct (tag =? T_SETUP)%nat; [destruct (nth0 args 3 =? 1)%nat; auto|].
    destruct (tag =? T_REFRESH)%nat.
    { cbn [c_pframes]. destruct (c_pframes (core w)); [discriminate|]. cbn [pf_state Nat.eqb andb]. discriminate. }
    destruct (tag =? T_SHOW)%nat.
    { cbn [c_pframes]. destruct (c_pframes (core w)); [discriminate|]. cbn [pf_state Nat.eqb andb]. discriminate. }
    destruct (tag =? T_CLOSED)%nat; [auto|].
    destruct (tag =? T_SETUP_BEGIN)%nat eqn:Eb; [|auto].
    apply Nat.eqb_eq in Eb. subst tag. cbn [c_pframes]. destruct (c_pframes (core w)); [discriminate|].
    cbn [pf_state pf_id Nat.eqb andb]. intros H. apply Nat.eqb_eq in H. left. eauto.
Qed.

Lemma accepted_refresh typed t1 i scr args tx t2 :
  sok chk_C08 typed (t1 ++ EUser T_REFRESH [i; scr; args] tx :: t2) = true ->
  mem scr (sw_ready (world typed t1)) = true /\
  ((exists e, top_entry (world typed t1) = Some e /\ en_args e = args) \/ in_setup_of (world typed t1) i = true) /\
  exists f r, sw_pframes (world typed t1) = f :: r /\ pf_state f = 0.
Proof.
  intros H. apply sok_event in H. unfold chk_C08 in H. apply andb_true_iff in H as [_ H].
  cbn [Nat.eqb T_SETUP T_SETUP_BEGIN T_REFRESH nth0 nth] in H. rewrite !andb_true_iff in H. destruct H as [[H1 H2] H3].
  split; [exact H1|]. split.
  - apply orb_true_iff in H2 as [H2|H2]; [left | right; exact H2].
    destruct (top_entry (world typed t1)) as [e|]; [|discriminate]. apply Nat.eqb_eq in H2. eauto.
  - destruct (sw_pframes (world typed t1)) as [|f r]; [discriminate|]. apply Nat.eqb_eq in H3. eauto.
Qed.

(* a screen becomes ready exactly by a successful setup, and stays so *)
Lemma ready_grows w e x : mem x (sw_ready w) = true -> mem x (sw_ready (sworld_step w e)) = true.
Proof.
  change (sw_ready (sworld_step w e)) with (c_ready (core (sworld_step w e))). rewrite core_step.
  change (sw_ready w) with (c_ready (core w)).
  destruct e; cbn [cstep]; auto.
  - destruct (hid =? H_RENDER)%nat; auto.
  - unfold cuser.
    destruct (tag =? T_OP)%nat; [auto|].
    destruct (tag =? T_STACK)%nat.
    { destruct (nth0 args 0 =? K_APPEND)%nat; [auto|]. destruct (nth0 args 0 =? K_ADD_FIRST)%nat; [auto|].
      destruct (c_expect (core w)) as [|[[]| |] l]; auto. }
    destruct (tag =? T_SETUP)%nat.
    { destruct (nth0 args 3 =? 1)%nat; auto. cbn [c_ready]. intros H. unfold mem in *. cbn [existsb]. rewrite H. apply orb_true_r. }
    destruct (tag =? T_REFRESH)%nat; [auto|]. destruct (tag =? T_SHOW)%nat; [auto|].
    destruct (tag =? T_CLOSED)%nat; [auto|]. destruct (tag =? T_SETUP_BEGIN)%nat; auto.
Qed.

(* after a failed setup: the entry is discarded at once (any other stack / operation / prompt event is rejected) *)
Lemma accepted_failed_discard typed t1 i scr args tx0 tag a tx t2 :
  sok chk_C08 typed (t1 ++ EUser T_SETUP [i; scr; args; 0] tx0 :: EUser tag a tx :: t2) = true ->
  tag <> T_SETUP -> tag <> T_REFRESH -> tag <> T_SHOW -> tag <> T_CLOSED ->
  tag = T_STACK /\ nth0 a 0 = K_POP /\ nth0 a 1 = i.
Proof.
  intros H N1 N2 N3 N4.
  replace (t1 ++ EUser T_SETUP [i; scr; args; 0] tx0 :: EUser tag a tx :: t2)
    with ((t1 ++ [EUser T_SETUP [i; scr; args; 0] tx0]) ++ EUser tag a tx :: t2) in H
    by (rewrite <- app_assoc; reflexivity).
  apply sok_event in H. rewrite fold_left_app in H. cbn [fold_left] in H.
  set (w := world typed t1) in *.
  assert (Hf : sw_failed (sworld_step w (EUser T_SETUP [i; scr; args; 0] tx0)) = Some i).
  { change (c_failed (core (sworld_step w (EUser T_SETUP [i; scr; args; 0] tx0))) = Some i). rewrite core_step. reflexivity. }
  unfold chk_C08 in H. apply andb_true_iff in H as [_ H]. rewrite Hf in H.
  apply Nat.eqb_neq in N1, N2, N3, N4. rewrite N1, N2, N3, N4 in H.
  destruct (tag =? T_SETUP_BEGIN)%nat; [rewrite andb_false_r in H; discriminate|].
  destruct ((tag =? T_STACK)%nat && (nth0 a 0 =? K_POP)%nat) eqn:E; [|discriminate].
  apply andb_true_iff in E as [E1 E2]. apply Nat.eqb_eq in E1, E2, H. auto.
Qed.

(* ---------------------------------------------------------------- packaged statements for props/C08.v *)
Lemma ready_link specs specl typed quit run_empty fuel acts :
  failing_setup_plain specs ->
  (forall n, specs n = nth n specl default_spec) -> wf_session specl quit acts = true ->
  Forall finished (fst (app_run_all specs specl typed quit run_empty fuel acts)) ->
  slink typed (snd (app_run_all specs specl typed quit run_empty fuel acts)).
Proof. intros. apply (app_slink true); [assumption | intros _; split; assumption | assumption]. Qed.

Lemma frames_balanced typed specs nscr Ps pf f c s o s' :
  failing_setup_plain specs ->
  (forall x, spec_wf nscr (specs x) = true) ->
  is_prog c = false -> Inv typed true nscr Ps pf s ->
  exec (screen_code specs) f c s = (o, s') ->
  match o with
  | OFuel | OBlocked => acc_tr (chkb true) typed (trace s')
  | _ => Inv typed true nscr Ps pf s' /\ sw_pframes (SW typed s') = pf
  end.
Proof.
  intros Hpl Hw Hc HI E.
  pose proof (exec_inv typed true specs Hpl nscr (fun _ => Hw) Ps pf f c s o s' Hc HI E) as P.
  destruct o as [|x| |]; try exact P; (split; [exact P | eapply Inv_pframes; exact P]).
Qed.

Definition count_tag (tag : nat) (t : list event) : nat :=
  length (filter (fun e => match e with EUser g _ _ => (g =? tag)%nat | _ => false end) t).

(* ---------------------------------------------------------------- the monitor is not vacuous *)
(* a draw without a refresh *)
Definition bad_show_without_refresh : list event :=
  [ETop; EUser T_OP [O_SCHEDULE; 0; 0] []; EUser T_STACK [K_ADD_FIRST; 0; 0; 0; 0] [];
   EHandler H_RENDER 0 0; EUser T_SETUP [0; 0; 0; 1] []; EUser T_SHOW [0; 0] []].
Definition good_setup_refresh_show : list event :=
  [ETop; EUser T_OP [O_SCHEDULE; 0; 0] []; EUser T_STACK [K_ADD_FIRST; 0; 0; 0; 0] [];
   EHandler H_RENDER 0 0; EUser T_SETUP [0; 0; 0; 1] []; EUser T_REFRESH [0; 0; 0] []; EUser T_SHOW [0; 0] []].
(* closed() for the entry popped by a replace *)
Definition bad_closed_after_replace : list event :=
  [ETop; EUser T_OP [O_PUSH; 0; 0] []; EUser T_STACK [K_APPEND; 0; 0; 0; 0] [];
   EUser T_OP [O_REPLACE; 1; 0] []; EUser T_STACK [K_POP; 0; 0; 0; 0] []; EUser T_CLOSED [0; 0] []].
(* closed() for the entry popped by close_screen is fine, a second one is not *)
Definition good_closed_after_close : list event :=
  [ETop; EUser T_OP [O_PUSH; 0; 0] []; EUser T_STACK [K_APPEND; 0; 0; 0; 0] [];
   EUser T_OP [O_CLOSE; 0; 0] []; EUser T_STACK [K_POP; 0; 0; 0; 0] []; EUser T_CLOSED [0; 0] []].
Definition bad_closed_twice : list event := good_closed_after_close ++ [EUser T_CLOSED [0; 0] []].
(* close_screen not followed by closed() *)
Definition bad_close_without_closed : list event :=
  [ETop; EUser T_OP [O_PUSH; 0; 0] []; EUser T_STACK [K_APPEND; 0; 0; 0; 0] [];
   EUser T_OP [O_CLOSE; 0; 0] []; EUser T_STACK [K_POP; 0; 0; 0; 0] []; EUser T_MARK [0; 1] []].
(* setup() twice *)
Definition bad_setup_twice : list event :=
  good_setup_refresh_show ++ [EHandlerEnd H_RENDER 0 None; EHandler H_RENDER 1 0; EUser T_SETUP [0; 0; 0; 1] []].
(* a refresh of a screen whose setup failed *)
Definition bad_refresh_after_failed_setup : list event :=
  [ETop; EUser T_OP [O_SCHEDULE; 0; 0] []; EUser T_STACK [K_ADD_FIRST; 0; 0; 0; 0] [];
   EHandler H_RENDER 0 0; EUser T_SETUP [0; 0; 0; 0] []; EUser T_REFRESH [0; 0; 0] []].

(* ---------------------------------------------------------------- a setup() that pushes a screen and then reports failure *)
(* the session of proofs/C04Proofs.v ([fs_specl]): screen 0's setup() pushes screen 1 and reports failure.  The
   scheduler's discard pops the pushed screen, not the failed entry: "an entry whose setup failed is discarded at once"
   is violated (finding: a failing setup() must not have changed the stack) *)
Example C08_failed_setup_after_push_refuted :
  sok chk_C08 fs_typed (rev (trace (snd (app_run_all (fs_specs [false]) (fs_specl [false]) fs_typed None false fs_fuel fs_acts)))) = false.
Proof. vm_compute; reflexivity. Qed.

(* what is popped: the first discard concerns entry 1 (the pushed screen 1), after T_SETUP [0; 0; 0; 0] of entry 0 *)
Example C08_failed_setup_after_push_trace :
  filter (fun e => match e with EUser g _ _ => (g =? T_SETUP)%nat || (g =? T_SETUP_BEGIN)%nat || (g =? T_STACK)%nat | _ => false end)
         (firstn 22 (rev (trace (snd (app_run_all (fs_specs [false]) (fs_specl [false]) fs_typed None false fs_fuel fs_acts))))) =
  [EUser T_STACK [K_ADD_FIRST; 0; 0; 0; 0] []; EUser T_SETUP_BEGIN [0; 0; 0] []; EUser T_STACK [K_APPEND; 1; 1; 0; 0] [];
   EUser T_SETUP [0; 0; 0; 0] []; EUser T_STACK [K_POP; 1; 1; 0; 0] []].
Proof. vm_compute. reflexivity. Qed.

(* the same session with a setup() that succeeds is accepted (and is well formed) *)
Example C08_setup_push_accepted :
  wf_session (fs_specl []) None fs_acts = true /\
  sok chk_C08 fs_typed (rev (trace (snd (app_run_all (fs_specs []) (fs_specl []) fs_typed None false fs_fuel fs_acts)))) = true /\
  fst (app_run_all (fs_specs []) (fs_specl []) fs_typed None false fs_fuel fs_acts) = [ONormal; ONormal].
Proof. vm_compute. repeat split. Qed.

(* this session satisfies the hypothesis of the theorems: the setup() that pushes never reports failure *)
Lemma fs_failing_setup_plain : failing_setup_plain (fs_specs []).
Proof. intros s H. destruct s as [|[|[|s]]]; cbn in H; destruct H. Qed.
(* ... the failing variant does not *)
Lemma fs_not_failing_setup_plain : ~ failing_setup_plain (fs_specs [false]).
Proof. intros H. specialize (H 0 (or_introl eq_refl)). discriminate H. Qed.
