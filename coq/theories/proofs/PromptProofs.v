(* PromptProofs.v — proofs about Prompt.v (property C12, prompt part). *)
From SL Require Import Tac.
From Coq Require Import Sorting.Permutation Sorting.Sorted.
From SL Require Import PyInt Prompt.
Import ListNotations.
Local Open Scope N_scope.

(* ---- str_compare is the lexicographic order by code point ------------------------------- *)
Lemma str_compare_eq a b : str_compare a b = Eq <-> a = b.
Proof.
  revert b. induction a as [|x a IH]; intros [|y b]; cbn [str_compare]; try (split; congruence).
  destruct (N.compare x y) eqn:E.
  - apply N.compare_eq_iff in E. subst y. rewrite IH. split; congruence.
  - split; [congruence|]. intros Heq. injection Heq as -> _. rewrite N.compare_refl in E. congruence.
  - split; [congruence|]. intros Heq. injection Heq as -> _. rewrite N.compare_refl in E. congruence.
Qed.

Lemma str_compare_refl a : str_compare a a = Eq.
Proof. now apply str_compare_eq. Qed.

Lemma str_compare_antisym a b : str_compare b a = CompOpp (str_compare a b).
Proof.
  revert b. induction a as [|x a IH]; intros [|y b]; cbn [str_compare]; try reflexivity.
  rewrite (N.compare_antisym x y). destruct (N.compare x y); cbn [CompOpp]; [apply IH | reflexivity | reflexivity].
Qed.

Lemma str_lt_trans a b c : str_lt a b -> str_lt b c -> str_lt a c.
Proof.
  unfold str_lt. revert b c. induction a as [|x a IH]; intros [|y b] [|z c]; cbn [str_compare]; try congruence.
  destruct (N.compare x y) eqn:Exy; destruct (N.compare y z) eqn:Eyz; try congruence; intros H1 H2.
  - apply N.compare_eq_iff in Exy, Eyz. subst. rewrite N.compare_refl. eapply IH; eassumption.
  - apply N.compare_eq_iff in Exy. subst. now rewrite Eyz.
  - apply N.compare_eq_iff in Eyz. subst. now rewrite Exy.
  - rewrite N.compare_lt_iff in Exy, Eyz. assert (Hxz : x < z) by lia.
    apply N.compare_lt_iff in Hxz. now rewrite Hxz.
Qed.

Lemma str_lt_irrefl a : ~ str_lt a a.
Proof. unfold str_lt. rewrite str_compare_refl. congruence. Qed.

(* the definition is the usual one: first difference decides, a proper prefix is smaller *)
Lemma str_lt_spec a b :
  str_lt a b <->
  (exists c r, b = a ++ c :: r) \/
  (exists p x y a' b', a = p ++ x :: a' /\ b = p ++ y :: b' /\ x < y).
Proof.
  unfold str_lt. revert b. induction a as [|x a IH]; intros [|y b]; cbn [str_compare].
  - split; [congruence|]. intros [(c & r & H)|(p & x & y & a' & b' & H & _)]; [discriminate H|].
    destruct p; discriminate H.
  - split; [|reflexivity]. intros _. left. now exists y, b.
  - split; [congruence|]. intros [(c & r & H)|(p & x' & y & a' & b' & _ & H & _)]; [discriminate H|].
    destruct p; discriminate H.
  - destruct (N.compare x y) eqn:E.
    + apply N.compare_eq_iff in E. subst y. rewrite IH. split.
      * intros [(c & r & H)|(p & x' & y & a' & b' & Ha & Hb & Hlt)].
        -- left. exists c, r. cbn [app]. now rewrite H.
        -- right. exists (x :: p), x', y, a', b'. cbn [app]. now rewrite Ha, Hb.
      * intros [(c & r & H)|(p & x' & y & a' & b' & Ha & Hb & Hlt)].
        -- left. exists c, r. cbn [app] in H. now injection H.
        -- destruct p as [|q p]; cbn [app] in Ha, Hb.
           ++ injection Ha as Hx _. injection Hb as Hy _. lia.
           ++ right. exists p, x', y, a', b'. injection Ha as _ Ha. injection Hb as _ Hb. now rewrite Ha, Hb.
    + split; [|reflexivity]. intros _. right. exists [], x, y, a, b. cbn [app].
      apply N.compare_lt_iff in E. now repeat split.
    + apply N.compare_gt_iff in E. split; [congruence|].
      intros [(c & r & H)|(p & x' & y' & a' & b' & Ha & Hb & Hlt)].
      * cbn [app] in H. injection H as Hy _. lia.
      * destruct p as [|q p]; cbn [app] in Ha, Hb.
        -- injection Ha as Hx _. injection Hb as Hy _. lia.
        -- injection Ha as Hx _. injection Hb as Hy _. lia.
Qed.

Lemma str_eq_spec a b : reflect (a = b) (str_eq a b).
Proof.
  unfold str_eq. destruct (str_compare a b) eqn:E.
  - constructor. now apply str_compare_eq.
  - constructor. intros ->. rewrite str_compare_refl in E. congruence.
  - constructor. intros ->. rewrite str_compare_refl in E. congruence.
Qed.

Lemma str_eq_refl a : str_eq a a = true.
Proof. destruct (str_eq_spec a a); congruence. Qed.

Definition le_p (a b : str) : Prop := str_le a b = true.

Lemma le_p_total a b : str_le a b = false -> le_p b a.
Proof.
  unfold le_p, str_le. rewrite (str_compare_antisym a b).
  destruct (str_compare a b); cbn [CompOpp]; congruence.
Qed.

Lemma le_p_cases a b : le_p a b <-> a = b \/ str_lt a b.
Proof.
  unfold le_p, str_le, str_lt. destruct (str_compare a b) eqn:E.
  - apply str_compare_eq in E. tauto.
  - tauto.
  - split; [congruence|]. intros [->|H]; [rewrite str_compare_refl in E|]; congruence.
Qed.

Lemma le_p_trans a b c : le_p a b -> le_p b c -> le_p a c.
Proof.
  rewrite !le_p_cases. intros [->|H1] [->|H2]; auto. right. eapply str_lt_trans; eassumption.
Qed.

(* ---- sorted(): insertion sort gives a sorted permutation -------------------------------- *)
Lemma insert_key_perm k l : Permutation (insert_key k l) (k :: l).
Proof.
  induction l as [|h t IH]; cbn [insert_key]; [apply Permutation_refl|].
  destruct (str_le k h); [apply Permutation_refl|].
  eapply Permutation_trans; [apply perm_skip, IH | apply perm_swap].
Qed.

Lemma sort_keys_perm l : Permutation (sort_keys l) l.
Proof.
  induction l as [|k l IH]; [apply Permutation_refl|].
  cbn [sort_keys fold_right]. eapply Permutation_trans; [apply insert_key_perm|]. now apply perm_skip.
Qed.

Lemma insert_key_sorted k l : StronglySorted le_p l -> StronglySorted le_p (insert_key k l).
Proof.
  induction 1 as [|h t Ht IH Hh]; cbn [insert_key]; [repeat constructor|].
  destruct (str_le k h) eqn:E.
  - constructor; [constructor; assumption|].
    constructor; [exact E|]. rewrite Forall_forall in *. intros x Hx. eapply le_p_trans; [exact E | now apply Hh].
  - constructor; [exact IH|].
    rewrite Forall_forall in *. intros x Hx.
    apply (Permutation_in _ (insert_key_perm k t)) in Hx. destruct Hx as [<-|Hx]; [now apply le_p_total | now apply Hh].
Qed.

Lemma sort_keys_sorted_le l : StronglySorted le_p (sort_keys l).
Proof.
  induction l as [|k l IH]; [constructor|]. cbn [sort_keys fold_right]. now apply insert_key_sorted.
Qed.

Lemma sorted_le_nodup_lt l : StronglySorted le_p l -> NoDup l -> StronglySorted str_lt l.
Proof.
  induction 1 as [|h t Ht IH Hh]; intros Hnd; [constructor|].
  inversion Hnd as [|? ? Hnotin Hnd']; subst. constructor; [now apply IH|].
  rewrite Forall_forall in *. intros x Hx. destruct (proj1 (le_p_cases h x) (Hh x Hx)) as [->|Hlt]; [contradiction | exact Hlt].
Qed.

Lemma sort_keys_sorted l : NoDup l -> StronglySorted str_lt (sort_keys l).
Proof.
  intros Hnd. apply sorted_le_nodup_lt; [apply sort_keys_sorted_le|].
  eapply Permutation_NoDup; [apply Permutation_sym, sort_keys_perm | exact Hnd].
Qed.

Lemma sort_keys_in l k : In k (sort_keys l) <-> In k l.
Proof.
  split; apply Permutation_in; [apply sort_keys_perm | apply Permutation_sym, sort_keys_perm].
Qed.

(* a strictly increasing list is determined by its set of elements *)
Lemma sorted_lt_unique : forall l1 l2,
  StronglySorted str_lt l1 -> StronglySorted str_lt l2 -> (forall k, In k l1 <-> In k l2) -> l1 = l2.
Proof.
  induction l1 as [|a l1 IH]; intros l2 H1 H2 Hin.
  - destruct l2 as [|b l2]; [reflexivity|]. exfalso. apply (proj2 (Hin b)). now left.
  - destruct l2 as [|b l2]; [exfalso; apply (proj1 (Hin a)); now left|].
    inversion H1 as [|? ? H1t H1h]; subst. inversion H2 as [|? ? H2t H2h]; subst.
    rewrite Forall_forall in H1h, H2h.
    assert (Hab : a = b).
    { destruct (proj1 (Hin a) (or_introl eq_refl)) as [Hba|Ha2]; [now symmetry|].
      destruct (proj2 (Hin b) (or_introl eq_refl)) as [Hab|Hb1]; [assumption|].
      exfalso. apply (str_lt_irrefl a). eapply str_lt_trans; [apply H1h, Hb1 | apply H2h, Ha2]. }
    subst b. f_equal. apply IH; try assumption.
    intros k. split; intros Hk.
    + destruct (proj1 (Hin k) (or_intror Hk)) as [<-|Hk2]; [|exact Hk2].
      exfalso. apply (str_lt_irrefl a). now apply H1h.
    + destruct (proj2 (Hin k) (or_intror Hk)) as [<-|Hk1]; [|exact Hk1].
      exfalso. apply (str_lt_irrefl a). now apply H2h.
Qed.

(* ---- dict ------------------------------------------------------------------------------ *)
Lemma dict_get_in d k : dict_get d k <> None <-> In k (dict_keys d).
Proof.
  induction d as [|[k' v] r IH]; cbn [dict_get dict_keys map fst In]; [tauto|].
  destruct (str_eq_spec k k') as [->|Hne].
  - split; [now left | congruence].
  - fold (dict_keys r). rewrite IH. split; [now right|]. intros [Heq|Hin]; [congruence | exact Hin].
Qed.

Lemma dict_get_notin d k : ~ In k (dict_keys d) -> dict_get d k = None.
Proof.
  intros Hn. destruct (dict_get d k) eqn:E; [|reflexivity].
  exfalso. apply Hn, dict_get_in. congruence.
Qed.

Lemma dict_get_set d k v k' :
  dict_get (dict_set d k v) k' = if str_eq k' k then Some v else dict_get d k'.
Proof.
  induction d as [|[k0 v0] r IH]; cbn [dict_set dict_get].
  - reflexivity.
  - destruct (str_eq_spec k k0) as [->|Hne]; cbn [dict_get].
    + destruct (str_eq_spec k' k0); reflexivity.
    + rewrite IH. destruct (str_eq_spec k' k0) as [->|Hne']; [|reflexivity].
      destruct (str_eq_spec k0 k) as [Heq|_]; [congruence | reflexivity].
Qed.

Lemma dict_keys_set d k v :
  dict_keys (dict_set d k v) = if dict_mem d k then dict_keys d else dict_keys d ++ [k].
Proof.
  unfold dict_mem. induction d as [|[k0 v0] r IH]; cbn [dict_set dict_get dict_keys map fst app]; [reflexivity|].
  destruct (str_eq_spec k k0) as [->|Hne]; cbn [map fst]; [reflexivity|].
  fold (dict_keys r) in *. fold (dict_keys (dict_set r k v)). rewrite IH.
  destruct (dict_get r k); reflexivity.
Qed.

Lemma dict_set_nodup d k v : NoDup (dict_keys d) -> NoDup (dict_keys (dict_set d k v)).
Proof.
  intros Hnd. rewrite dict_keys_set. unfold dict_mem. destruct (dict_get d k) eqn:E; [exact Hnd|].
  eapply Permutation_NoDup; [apply Permutation_cons_append|]. constructor; [|exact Hnd].
  intros Hin. apply dict_get_in in Hin. congruence.
Qed.

Lemma dict_keys_pop_incl d k x : In x (dict_keys (dict_pop d k)) -> In x (dict_keys d).
Proof.
  induction d as [|[k0 v0] r IH]; cbn [dict_pop dict_keys map fst In]; [tauto|].
  destruct (str_eq k k0); cbn [map fst In]; [now right|]. intros [H|H]; [now left | right; now apply IH].
Qed.

Lemma dict_pop_nodup d k : NoDup (dict_keys d) -> NoDup (dict_keys (dict_pop d k)).
Proof.
  induction d as [|[k0 v0] r IH]; cbn [dict_pop dict_keys map fst]; [constructor|].
  intros Hnd. inversion Hnd as [|? ? Hnotin Hnd']; subst.
  destruct (str_eq k k0); [exact Hnd'|]. cbn [map fst]. constructor; [|now apply IH].
  intros Hin. apply Hnotin. eapply dict_keys_pop_incl. exact Hin.
Qed.

Lemma dict_get_pop d k k' : NoDup (dict_keys d) ->
  dict_get (dict_pop d k) k' = if str_eq k' k then None else dict_get d k'.
Proof.
  induction d as [|[k0 v0] r IH]; cbn [dict_pop dict_get dict_keys map fst]; intros Hnd.
  - destruct (str_eq k' k); reflexivity.
  - inversion Hnd as [|? ? Hnotin Hnd']; subst.
    destruct (str_eq_spec k k0) as [->|Hne].
    + destruct (str_eq_spec k' k0) as [Heq|Hne']; [rewrite Heq; now apply dict_get_notin | reflexivity].
    + cbn [dict_get]. rewrite (IH Hnd').
      destruct (str_eq_spec k' k0) as [Heq|Hne']; [|reflexivity].
      destruct (str_eq_spec k' k) as [Heq2|_]; [congruence | reflexivity].
Qed.

(* ---- the prompt refines the abstract map ------------------------------------------------ *)
Definition refines (p : prompt) (m : amap) (msg : option str) : Prop :=
  NoDup (dict_keys (p_options p)) /\ (forall k, dict_get (p_options p) k = m k) /\ p_message p = msg.

Lemma refines_set p m msg k d :
  refines p m msg ->
  refines {| p_message := p_message p; p_options := dict_set (p_options p) k d |} (amap_set m k d) msg.
Proof.
  intros (Hnd & Hget & Hmsg). repeat split; cbn [p_options p_message].
  - now apply dict_set_nodup.
  - intros k'. rewrite dict_get_set. unfold amap_set. now rewrite Hget.
  - exact Hmsg.
Qed.

Lemma refines_special key p m msg d :
  refines p m msg -> refines (add_special key p d) (amap_set m key d) msg.
Proof.
  intros Hr. unfold add_special, update_option, add_option.
  destruct (dict_mem (p_options p) key); now apply refines_set.
Qed.

Lemma refines_step p m msg o :
  refines p m msg -> refines (apply_pop p o) (amap_apply m o) (amsg_apply msg o).
Proof.
  intros Hr. destruct o as [k d|k d|k|m'|d|d|d|d]; cbn [apply_pop amap_apply amsg_apply].
  - now apply refines_set.
  - now apply refines_set.
  - destruct Hr as (Hnd & Hget & Hmsg). repeat split; cbn [remove_option p_options p_message].
    + now apply dict_pop_nodup.
    + intros k'. rewrite dict_get_pop by exact Hnd. unfold amap_del. now rewrite Hget.
    + exact Hmsg.
  - destruct Hr as (Hnd & Hget & Hmsg). repeat split; assumption.
  - now apply refines_special.
  - now apply refines_special.
  - now apply refines_special.
  - now apply refines_special.
Qed.

Lemma refines_run ops : forall p m msg,
  refines p m msg ->
  refines (run_pops p ops) (fold_left amap_apply ops m) (fold_left amsg_apply ops msg).
Proof.
  induction ops as [|o ops IH]; intros p m msg Hr; [exact Hr|].
  cbn [run_pops fold_left]. apply IH. now apply refines_step.
Qed.

Lemma prompt_refines_map m0 ops :
  refines (run_pops (new_prompt m0) ops) (amap_of ops) (amsg_of m0 ops).
Proof.
  apply refines_run. repeat split; cbn [new_prompt p_options p_message dict_keys map dict_get]; constructor.
Qed.

(* ---- the listing is sorted and complete -------------------------------------------------- *)
Lemma prompt_sorted m0 ops :
  let p := run_pops (new_prompt m0) ops in
  let ks := sort_keys (dict_keys (p_options p)) in
  StronglySorted str_lt ks /\ Permutation ks (dict_keys (p_options p)) /\
  (forall k, In k ks <-> amap_of ops k <> None).
Proof.
  intros p ks. destruct (prompt_refines_map m0 ops) as (Hnd & Hget & _). fold p in Hnd, Hget.
  split; [now apply sort_keys_sorted|]. split; [apply sort_keys_perm|].
  intros k. unfold ks. rewrite sort_keys_in, <- dict_get_in, Hget. reflexivity.
Qed.

(* ---- the format --------------------------------------------------------------------------- *)
Definition default_desc (o : option str) : str := match o with Some d => d | None => [] end.

Lemma insert_key_not_nil k l : insert_key k l <> [].
Proof. destruct l as [|h t]; cbn [insert_key]; [congruence|]. destruct (str_le k h); congruence. Qed.

Lemma prompt_str_format p :
  prompt_str p =
  format_prompt (p_message p)
    (map (fun k => (k, default_desc (dict_get (p_options p) k))) (sort_keys (dict_keys (p_options p)))).
Proof.
  unfold prompt_str. destruct (p_options p) as [|[k0 v0] r] eqn:Eopts.
  - cbn [dict_keys map sort_keys fold_right format_prompt message_part].
    destruct (p_message p) as [[|c m]|]; cbn [message_part join app]; reflexivity.
  - set (opts := (k0, v0) :: r).
    set (ks := sort_keys (dict_keys opts)).
    assert (Hks : ks <> []).
    { unfold ks, opts. cbn [dict_keys map fst sort_keys fold_right]. apply insert_key_not_nil. }
    assert (Hmm : map (fun kd : str * str => opt_item (fst kd) (snd kd))
                      (map (fun k => (k, default_desc (dict_get opts k))) ks)
                  = map (fun key => opt_item key (match dict_get opts key with Some d => d | None => [] end)) ks).
    { rewrite map_map. apply map_ext. intros k. reflexivity. }
    destruct ks as [|k1 ks'] eqn:Eks; [congruence|].
    rewrite <- Eks in *. clear Hks.
    assert (Hl : map (fun k => (k, default_desc (dict_get opts k))) ks <> []).
    { rewrite Eks. cbn [map]. congruence. }
    destruct (map (fun k => (k, default_desc (dict_get opts k))) ks) as [|kd lst] eqn:El; [congruence|].
    rewrite <- El in *. clear Hl.
    destruct (p_message p) as [[|c m]|]; cbn [message_part format_prompt]; rewrite El, <- El, Hmm;
      cbn [join app]; repeat (rewrite <- app_assoc; cbn [app]); reflexivity.
Qed.

Lemma prompt_format m0 ops :
  let p := run_pops (new_prompt m0) ops in
  prompt_str p =
  format_prompt (amsg_of m0 ops)
    (map (fun k => (k, default_desc (amap_of ops k))) (sort_keys (dict_keys (p_options p)))).
Proof.
  intros p. destruct (prompt_refines_map m0 ops) as (_ & Hget & Hmsg). fold p in Hget, Hmsg.
  rewrite prompt_str_format, Hmsg. f_equal. apply map_ext. intros k. now rewrite Hget.
Qed.

(* everything at once, without mentioning the concrete dict *)
Lemma prompt_str_spec m0 ops :
  exists ks,
    StronglySorted str_lt ks /\ (forall k, In k ks <-> amap_of ops k <> None) /\
    prompt_str (run_pops (new_prompt m0) ops)
    = format_prompt (amsg_of m0 ops) (map (fun k => (k, default_desc (amap_of ops k))) ks).
Proof.
  destruct (prompt_sorted m0 ops) as (Hs & _ & Hin).
  eexists. split; [exact Hs|]. split; [exact Hin|]. apply prompt_format.
Qed.
