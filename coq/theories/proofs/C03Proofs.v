(* C03Proofs.v — a nested (modal) loop is isolated: outer work is held, not lost, then resumed. *)
From SL Require Import Tac.
From Coq Require Import Permutation.
From RecordUpdate Require Import RecordUpdate.
From SL Require Import LoopSem Monitors proofs.LoopLink proofs.C01Proofs.
Import ListNotations.

Lemma existsb_eqb_in q l : existsb (Nat.eqb q) l = true <-> In q l.
Proof.
  rewrite existsb_exists. split.
  - intros (x & I & E). apply Nat.eqb_eq in E. subst. exact I.
  - intros I. exists q. split; [exact I|apply Nat.eqb_refl].
Qed.

(* ---- held, not lost: while a level is not the active one, its pending content only grows, by stable
        insertion of the signals routed to it (a fact about worlds and the monitor alone) ---- *)
Lemma held_not_lost w e : chk_C03_partial w e = true -> forall q, q <> w_active w ->
  pend (world_step w e) q = pend w q \/
  exists p sid, e = EEnq sid q /\ pend (world_step w e) q = stable_insert p sid (pend w q).
Proof.
  intros C q N. destruct (pend_step w e q) as [H|[(sid & -> & H)|(sid & d & -> & H)]].
  - left; exact H.
  - right. eauto.
  - exfalso. cbn in C. apply andb_true_iff in C. destruct C as [C _]. apply Nat.eqb_eq in C. congruence.
Qed.

(* nothing is ever removed from a queue except its head, by a dispatch from the active level *)
Lemma only_active_dispatched w e q : chk_C03_partial w e = true ->
  pend (world_step w e) q = tl (pend w q) -> pend (world_step w e) q <> pend w q ->
  exists sid d, e = EDispatch sid q d /\ q = w_active w /\ d = length (w_levels w).
Proof.
  intros C H N. destruct (pend_step w e q) as [H'|[(sid & -> & H')|(sid & d & -> & H')]].
  - congruence.
  - exfalso. rewrite H' in H. destruct (stable_insert_spec (sig_prio w sid) sid (pend w q)) as (l1 & l2 & E1 & E2 & _).
    rewrite E2, E1 in H. apply (f_equal (@length _)) in H. destruct l1, l2; cbn in H; rewrite ?app_length in H; cbn in H; lia.
  - exists sid, d. cbn in C. apply andb_true_iff in C. destruct C as [C1 C2].
    apply Nat.eqb_eq in C1, C2. auto.
Qed.

(* closing the nested loop resumes the enclosing one where it stopped: the level below becomes the active one
   and no queue content changes *)
Lemma closepop_resumes w q : let w' := world_step w (EClosePop q) in
  w_levels w' = removelast (w_levels w) /\
  (forall a, last_opt (removelast (w_levels w)) = Some a -> w_active w' = a) /\
  (forall q0, pend w' q0 = pend w q0) /\ (forall q0, sources w' q0 = sources w q0).
Proof.
  destruct (ws_closepop w q) as (_ & _ & S3 & S4 & S5 & S6 & _). cbn zeta. repeat split.
  - exact S3.
  - intros a E. rewrite S4, E. reflexivity.
  - intros q0. unfold pend. rewrite S6. reflexivity.
  - intros q0. unfold sources. rewrite S5. reflexivity.
Qed.

Section Iso.
  Context {U : Type}.
  Variable code : nat -> signal -> nat -> prog U.

  Lemma link_w_route (s : lstate U) src : link s -> forall l, w_route (W s) l src = route s l src.
  Proof.
    intros L l. induction l as [|q r IH]; cbn [w_route route]; [reflexivity|].
    unfold q_contains_source. destruct src as [o|].
    - rewrite (link_sources s q L), IH. reflexivity.
    - rewrite <- IH. destruct r; reflexivity.
  Qed.

  Lemma link_route_target_eq (s : lstate U) sg : link s -> sig_rec (W s) sg ->
    route_target (W s) (sig_src (W s) (sg_id sg)) =
    match route s (rev (levels s)) (sg_src sg) with Some q => q | None => active s end.
  Proof.
    intros L R. unfold route_target. rewrite (sig_rec_src _ _ R), (link_levels s L), (link_w_route s _ L), (link_active s L).
    reflexivity.
  Qed.

  Lemma astep_acc_C03 (s s' : lstate U) : link s -> acc chk_C03_partial s -> astep s s' -> acc chk_C03_partial s'.
  Proof.
    intros L A St.
    destruct St as [s s' C T|s e P|s sp|s sg R F|s p c sg q' P|s p c sg q' P|s|s|s FQ|s top rest_rev R|s o|s cls hid data|s arg|s|s q H1 H2].
    - eapply acc_trace; eauto.
    - apply acc_emit. split; [exact A|]. destruct e; try reflexivity; discriminate P.
    - unfold new_signal. cbn [snd]. apply acc_emit. split; [exact A|reflexivity].
    - unfold do_enqueue. destruct (force_quit s); apply acc_emit; (split; [exact A|]); [reflexivity|].
      change (W (set_q s ?q ?v)) with (W s). cbn [chk_C03_partial chk_C03_gen].
      rewrite (link_route_target_eq s sg L R). apply Nat.eqb_refl.
    - apply acc_emit. split; [exact A|]. change (W (set_q s (active s) q')) with (W s).
      cbn [chk_C03_partial chk_C03_gen]. rewrite (link_active s L), (link_levels s L), !Nat.eqb_refl. reflexivity.
    - apply acc_emit. split; [exact A|]. change (W (set_q s (active s) (q_put_entry q' (p, c, sg)))) with (W s).
      cbn [chk_C03_partial chk_C03_gen]. rewrite (link_active s L). apply Nat.eqb_refl.
    - apply acc_emit. split; [exact A|reflexivity].
    - apply acc_emit. split; [exact A|reflexivity].
    - apply acc_emit. split; [exact A|reflexivity].
    - assert (C : chk_C03_partial (W s) (EClosePop top) = true).
      { cbn [chk_C03_partial chk_C03_gen]. rewrite (link_levels s L). unfold last_opt. rewrite R. apply Nat.eqb_refl. }
      destruct rest_rev as [|q r].
      + apply acc_emit. split; [exact A|exact C].
      + eapply acc_trace with (s := emit (EClosePop top) (s <| levels := rev (q :: r) |>)); [reflexivity|].
        apply acc_emit. split; [exact A|exact C].
    - apply acc_emit. split; [exact A|reflexivity].
    - apply acc_emit. split; [exact A|reflexivity].
    - apply acc_emit. split; [exact A|reflexivity].
    - eapply acc_trace; [|exact A]. reflexivity.
    - apply acc_emit. split; [exact A|]. cbn [chk_C03_partial chk_C03_gen negb andb].
      rewrite (link_levels s L). apply orb_true_iff. destruct H2 as [H2|H2].
      + left. apply negb_true_iff. destruct (existsb (Nat.eqb q) (levels s)) eqn:E; [|reflexivity].
        apply existsb_eqb_in in E. contradiction.
      + right. apply existsb_eqb_in, H2.
  Qed.

  Theorem isolation : forall fuel acts (u : U),
    ok_C03_partial (rev (trace (snd (run_session code fuel acts (init_state u))))) = true.
  Proof. apply session_acc. exact astep_acc_C03. Qed.

  Theorem world_is_state : forall fuel acts (u : U),
    let s := snd (run_session code fuel acts (init_state u)) in
    w_levels (W s) = levels s /\ w_active (W s) = active s /\
    (forall q, sources (W s) q = eq_sources (get_q s q)) /\ (forall q, pend (W s) q = abs (get_q s q)).
  Proof.
    intros fuel acts u s. pose proof (link_session code fuel acts u) as L. fold s in L.
    repeat split; [exact (link_levels s L)|exact (link_active s L)|intros q; exact (link_sources s q L)|
                   intros q; exact (link_pend s q L)].
  Qed.

  (* execute_new_loop does not come back before its loop has been stopped: whenever it returns normally the
     stop flag had been cleared (and re-armed by _mainloop), or everything was force-quit *)
  Theorem newloop_blocks_until_closed : forall fuel sp (s : lstate U) s',
    link s -> exec code fuel (CApi (ANewLoop sp)) s = (ONormal, s') ->
    length (levels s') <= length (levels s) + (if run_loop s then 0 else 1) \/ force_quit s' = true.
  Proof.
    intros fuel sp s s' L H. pose proof (exec_post code _ _ _ _ _ L H (or_introl eq_refl)) as P. cbn in P.
    unfold psi in P. destruct (force_quit s') eqn:F'; [right; reflexivity|left].
    destruct (force_quit s) eqn:F.
    - (* the call was a no-op: the signal was created, nothing else *)
      destruct fuel; [discriminate H|]. cbn [exec] in H. unfold new_signal in H.
      set (s1 := emit _ _) in H. assert (F1 : force_quit s1 = true) by exact F.
      rewrite F1 in H. inversion H; subst s'. unfold s1 in F'. st_simpl_in F'. congruence.
    - destruct (run_loop s'), (run_loop s); lia.
  Qed.
End Iso.
