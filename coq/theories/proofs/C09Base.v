(* C09Base.v — what the C09 monitor looks at: the [view] of a world, its step function, the link between
   the ghost world of a trace and the loop's own state, and rewriting lemmas for the state transformers. *)
From SL Require Import Tac.
From RecordUpdate Require Import RecordUpdate.
From SL Require Import LoopSem Monitors.
From SL Require Import proofs.C09Exec.
Import ListNotations.

(* ------------------------------------------------------------------ traces and worlds *)
Definition world_of (t : list event) : world := fold_left world_step t world0.     (* t oldest first *)
Definition Wt (t : list event) : world := world_of (rev t).                         (* t newest first *)

Lemma Wt_cons e t : Wt (e :: t) = world_step (Wt t) e.
Proof. unfold Wt, world_of. cbn [rev]. rewrite fold_left_app. reflexivity. Qed.

Lemma run_mon_snoc chk t : forall w i e,
  run_mon chk w (t ++ [e]) i =
  match run_mon chk w t i with
  | Some j => Some j
  | None => if chk (fold_left world_step t w) e then None else Some (i + length t)
  end.
Proof.
  induction t as [|a t IH]; intros w i e; cbn [app run_mon fold_left length].
  - destruct (chk w e); [reflexivity|]. f_equal. lia.
  - destruct (chk w a); [|reflexivity]. rewrite IH. destruct (run_mon chk (world_step w a) t (S i)); [reflexivity|].
    destruct (chk _ e); [reflexivity|]. f_equal. lia.
Qed.

Lemma ok_snoc chk t e : ok chk (t ++ [e]) = ok chk t && chk (world_of t) e.
Proof.
  unfold ok, world_of. rewrite run_mon_snoc. destruct (run_mon chk world0 t 0); [reflexivity|].
  destruct (chk _ e); reflexivity.
Qed.

Definition accT (t : list event) : bool := ok_C09 (rev t).            (* t newest first *)
Lemma accT_cons e t : accT (e :: t) = accT t && chk_C09 (Wt t) e.
Proof. unfold accT, ok_C09. cbn [rev]. apply ok_snoc. Qed.
Lemma accT_nil : accT [] = true.
Proof. reflexivity. Qed.

(* ------------------------------------------------------------------ the view *)
Record view := {
  v_levels : list nat; v_fq : bool; v_quit : option nat;
  v_in_run : bool; v_rl1 : bool; v_cause : bool; v_exiting : bool; v_qc : bool }.

Definition view_of (w : world) : view :=
  {| v_levels := w_levels w; v_fq := w_fq w; v_quit := w_quit w; v_in_run := w_in_run w;
     v_rl1 := w_run_levels1 w; v_cause := w_cause w; v_exiting := w_exiting w; v_qc := w_quit_called w |}.

Definition isnil {A} (l : list A) : bool := match l with [] => true | _ => false end.
Definition is_exit (how : option exn) : bool := match how with Some XExit => true | _ => false end.

(* field by field, so that every projection of a step reduces *)
Definition view_step (v : view) (e : event) : view :=
  {| v_levels := match e with
                 | ENewLoopEnter q => v_levels v ++ [q]
                 | EClosePop _ => removelast (v_levels v)
                 | EForceQuit => []
                 | _ => v_levels v end;
     v_fq := match e with EForceQuit => true | ERunEnter => false | _ => v_fq v end;
     v_quit := match e with ESetQuitCb a => Some a | _ => v_quit v end;
     v_in_run := match e with ERunEnter => true | ERunReturn => false | _ => v_in_run v end;
     v_rl1 := match e with ERunEnter => (length (v_levels v) =? 1)%nat | _ => v_rl1 v end;
     v_cause := match e with
                | EHandlerEnd _ _ how => v_cause v || is_exit how
                | EClosePop _ => v_cause v || isnil (removelast (v_levels v))
                | EForceQuit => true
                | ERunEnter => false
                | _ => v_cause v end;
     v_exiting := match e with
                  | EHandlerEnd _ _ how => v_exiting v || is_exit how
                  | EClosePop _ => v_exiting v || isnil (removelast (v_levels v))
                  | ERunEnter | ERunReturn | ETop => false
                  | _ => v_exiting v end;
     v_qc := match e with EQuitCb _ => true | ERunEnter => false | _ => v_qc v end |}.

Lemma last_opt_nil {A} (l : list A) : last_opt l = None <-> l = [].
Proof.
  unfold last_opt. split.
  - intros H. destruct (rev l) eqn:E; [|discriminate]. apply (f_equal (@rev A)) in E. rewrite rev_involutive in E. exact E.
  - intros ->. reflexivity.
Qed.

Lemma view_of_step w e : view_of (world_step w e) = view_step (view_of w) e.
Proof.
  destruct e; try reflexivity.
  - (* ESigNew *) cbn. destruct (w_expect_exc w =? 1)%nat; reflexivity.
  - (* EEnq *) cbn. destruct (w_expect_exc w =? 2)%nat; reflexivity.
  - (* EDropped *) cbn. destruct (w_expect_exc w =? 2)%nat; reflexivity.
  - (* EHandlerEnd *) destruct how as [[]|]; cbn; unfold view_of, view_step; cbn;
      rewrite ?orb_true_r, ?orb_false_r; reflexivity.
  - (* ENewLoopReturn *) cbn. destruct (w_fq w); reflexivity.
  - (* EClosePop *)
    cbn. destruct (last_opt (removelast (w_levels w))) eqn:L; unfold view_of, view_step; cbn.
    + destruct (removelast (w_levels w)); [discriminate L|]. cbn. rewrite !orb_false_r. reflexivity.
    + apply last_opt_nil in L. rewrite L. cbn. rewrite !orb_true_r. reflexivity.
  - (* EProcEnter *) destruct wait; reflexivity.
  - (* EProcReturn *) destruct wait; reflexivity.
Qed.

Definition V (t : list event) : view := view_of (Wt t).
Lemma V_cons e t : V (e :: t) = view_step (V t) e.
Proof. unfold V. rewrite Wt_cons. apply view_of_step. Qed.
Lemma V_nil : V [] = view_of world0.
Proof. reflexivity. Qed.

(* the monitor on views *)
Definition chk_view (v : view) (e : event) : bool :=
  (if v_fq v then
     match e with EHandler _ _ _ | EEnq _ _ | ENewLoopEnter _ | EDispatch _ _ _ => false | _ => true end
   else true) &&
  (if v_exiting v && v_in_run v then
     match e with
     | EHandlerEnd _ _ (Some XExit) | EQuitCb _ | ERunReturn => true
     | _ => false
     end
   else true) &&
  match e with
  | EQuitCb a => v_in_run v && negb (v_qc v) &&
                 match v_quit v with Some a' => (a =? a')%nat | None => false end
  | ERunReturn =>
    v_in_run v &&
    (match v_quit v with Some _ => v_qc v | None => true end) &&
    (negb (v_rl1 v) || v_cause v)
  | _ => true
  end.

Lemma chk_C09_view w e : chk_C09 w e = chk_view (view_of w) e.
Proof. unfold chk_C09, chk_view. destruct e; reflexivity. Qed.

Lemma accT_cons_view e t : accT (e :: t) = accT t && chk_view (V t) e.
Proof. rewrite accT_cons, chk_C09_view. reflexivity. Qed.

(* events that are never refused outside an exit in flight *)
Definition fq_sensitive (e : event) : bool :=
  match e with EHandler _ _ _ | EEnq _ _ | ENewLoopEnter _ | EDispatch _ _ _ => true | _ => false end.
Definition run_event (e : event) : bool :=
  match e with EQuitCb _ | ERunReturn => true | _ => false end.

Lemma chk_ok v e :
  v_exiting v = false -> run_event e = false -> (fq_sensitive e = true -> v_fq v = false) ->
  chk_view v e = true.
Proof.
  intros X R F. unfold chk_view. rewrite X. cbn [andb].
  destruct (v_fq v); [|destruct e; try reflexivity; discriminate R].
  destruct e; try reflexivity; try discriminate R; cbn in F; discriminate F; reflexivity.
Qed.

Lemma chk_exit_end v h sid : chk_view v (EHandlerEnd h sid (Some XExit)) = true.
Proof. unfold chk_view. destruct (v_fq v), (v_exiting v && v_in_run v); reflexivity. Qed.

Lemma chk_quitcb v a :
  v_in_run v = true -> v_qc v = false -> v_quit v = Some a -> chk_view v (EQuitCb a) = true.
Proof.
  intros R Q A. unfold chk_view. rewrite R, Q, A, Nat.eqb_refl.
  destruct (v_fq v), (v_exiting v); reflexivity.
Qed.
Lemma chk_runreturn v :
  v_in_run v = true -> match v_quit v with Some _ => v_qc v | None => true end = true ->
  (v_rl1 v = true -> v_cause v = true) -> chk_view v ERunReturn = true.
Proof.
  intros R Q C. unfold chk_view. rewrite R, Q.
  destruct (v_rl1 v); [rewrite C by reflexivity|]; destruct (v_fq v), (v_exiting v); reflexivity.
Qed.

(* two facts about every trace *)
Definition winv (v : view) : Prop :=
  (v_fq v = true -> v_cause v = true) /\
  (v_rl1 v = true -> v_cause v = false -> v_levels v <> []).

Lemma winv_step v e : winv v -> winv (view_step v e).
Proof.
  intros [A B]. split.
  - destruct e; cbn; auto; intros H; rewrite (A H); reflexivity.
  - destruct e; cbn; auto.
    + intros R C. apply orb_false_elim in C as [C _]. auto.
    + intros R C E. symmetry in E. revert E. apply app_cons_not_nil.
    + intros R C. apply orb_false_elim in C as [C N]. destruct (removelast (v_levels v)); [discriminate N|discriminate].
    + discriminate.
    + intros R _. destruct (v_levels v); [discriminate R|discriminate].
Qed.

Lemma winv_V t : winv (V t).
Proof.
  induction t as [|e t IH].
  - split; cbn; [discriminate|discriminate].
  - rewrite V_cons. apply winv_step, IH.
Qed.

Lemma removelast_rev {A} (l : list A) x r : rev l = x :: r -> removelast l = rev r.
Proof.
  intros H. apply (f_equal (@rev A)) in H. rewrite rev_involutive in H. subst l.
  cbn [rev]. apply removelast_last.
Qed.
Lemma length_rev_cons {A} (l : list A) x r : rev l = x :: r -> length l = S (length r).
Proof. intros H. apply (f_equal (@length A)) in H. rewrite rev_length in H. exact H. Qed.
Lemma rev_nil_inv {A} (l : list A) : rev l = [] -> l = [].
Proof. intros H. apply (f_equal (@rev A)) in H. rewrite rev_involutive in H. exact H. Qed.

(* ------------------------------------------------------------------ state transformers *)
Section St.
  Context {U : Type}.
  Implicit Types s : lstate U.

  Definition enq_ev s (sg : signal) : event :=
    if force_quit s then EDropped (sg_id sg)
    else EEnq (sg_id sg) (match route s (rev (levels s)) (sg_src sg) with Some q => q | None => active s end).

  Lemma levels_emit e s : levels (emit e s) = levels s. Proof. reflexivity. Qed.
  Lemma run_loop_emit e s : run_loop (emit e s) = run_loop s. Proof. reflexivity. Qed.
  Lemma force_quit_emit e s : force_quit (emit e s) = force_quit s. Proof. reflexivity. Qed.
  Lemma quit_cb_emit e s : quit_cb (emit e s) = quit_cb s. Proof. reflexivity. Qed.
  Lemma trace_emit e s : trace (emit e s) = e :: trace s. Proof. reflexivity. Qed.
  Lemma qstore_emit e s : qstore (emit e s) = qstore s. Proof. reflexivity. Qed.

  (* projections of record updates, as rewriting rules (the kernel must never compare two updated states) *)
  Lemma levels_set_qstore f s : levels (set qstore f s) = levels s. Proof. reflexivity. Qed.
  Lemma levels_set_levels v s : levels (s <| levels := v |>) = v. Proof. reflexivity. Qed.
  Lemma levels_set_active f s : levels (set active f s) = levels s. Proof. reflexivity. Qed.
  Lemma levels_set_handlers f s : levels (set handlers f s) = levels s. Proof. reflexivity. Qed.
  Lemma levels_set_tickets f s : levels (set tickets f s) = levels s. Proof. reflexivity. Qed.
  Lemma levels_set_run_loop f s : levels (set run_loop f s) = levels s. Proof. reflexivity. Qed.
  Lemma levels_set_force_quit f s : levels (set force_quit f s) = levels s. Proof. reflexivity. Qed.
  Lemma levels_set_quit_cb f s : levels (set quit_cb f s) = levels s. Proof. reflexivity. Qed.
  Lemma levels_set_next_sig f s : levels (set next_sig f s) = levels s. Proof. reflexivity. Qed.
  Lemma levels_set_ext f s : levels (set ext f s) = levels s. Proof. reflexivity. Qed.
  Lemma levels_set_ust f s : levels (set ust f s) = levels s. Proof. reflexivity. Qed.
  Lemma run_loop_set_qstore f s : run_loop (set qstore f s) = run_loop s. Proof. reflexivity. Qed.
  Lemma run_loop_set_levels f s : run_loop (set levels f s) = run_loop s. Proof. reflexivity. Qed.
  Lemma run_loop_set_active f s : run_loop (set active f s) = run_loop s. Proof. reflexivity. Qed.
  Lemma run_loop_set_handlers f s : run_loop (set handlers f s) = run_loop s. Proof. reflexivity. Qed.
  Lemma run_loop_set_tickets f s : run_loop (set tickets f s) = run_loop s. Proof. reflexivity. Qed.
  Lemma run_loop_set_run_loop v s : run_loop (s <| run_loop := v |>) = v. Proof. reflexivity. Qed.
  Lemma run_loop_set_force_quit f s : run_loop (set force_quit f s) = run_loop s. Proof. reflexivity. Qed.
  Lemma run_loop_set_quit_cb f s : run_loop (set quit_cb f s) = run_loop s. Proof. reflexivity. Qed.
  Lemma run_loop_set_next_sig f s : run_loop (set next_sig f s) = run_loop s. Proof. reflexivity. Qed.
  Lemma run_loop_set_ext f s : run_loop (set ext f s) = run_loop s. Proof. reflexivity. Qed.
  Lemma run_loop_set_ust f s : run_loop (set ust f s) = run_loop s. Proof. reflexivity. Qed.
  Lemma force_quit_set_qstore f s : force_quit (set qstore f s) = force_quit s. Proof. reflexivity. Qed.
  Lemma force_quit_set_levels f s : force_quit (set levels f s) = force_quit s. Proof. reflexivity. Qed.
  Lemma force_quit_set_active f s : force_quit (set active f s) = force_quit s. Proof. reflexivity. Qed.
  Lemma force_quit_set_handlers f s : force_quit (set handlers f s) = force_quit s. Proof. reflexivity. Qed.
  Lemma force_quit_set_tickets f s : force_quit (set tickets f s) = force_quit s. Proof. reflexivity. Qed.
  Lemma force_quit_set_run_loop f s : force_quit (set run_loop f s) = force_quit s. Proof. reflexivity. Qed.
  Lemma force_quit_set_force_quit v s : force_quit (s <| force_quit := v |>) = v. Proof. reflexivity. Qed.
  Lemma force_quit_set_quit_cb f s : force_quit (set quit_cb f s) = force_quit s. Proof. reflexivity. Qed.
  Lemma force_quit_set_next_sig f s : force_quit (set next_sig f s) = force_quit s. Proof. reflexivity. Qed.
  Lemma force_quit_set_ext f s : force_quit (set ext f s) = force_quit s. Proof. reflexivity. Qed.
  Lemma force_quit_set_ust f s : force_quit (set ust f s) = force_quit s. Proof. reflexivity. Qed.
  Lemma quit_cb_set_qstore f s : quit_cb (set qstore f s) = quit_cb s. Proof. reflexivity. Qed.
  Lemma quit_cb_set_levels f s : quit_cb (set levels f s) = quit_cb s. Proof. reflexivity. Qed.
  Lemma quit_cb_set_active f s : quit_cb (set active f s) = quit_cb s. Proof. reflexivity. Qed.
  Lemma quit_cb_set_handlers f s : quit_cb (set handlers f s) = quit_cb s. Proof. reflexivity. Qed.
  Lemma quit_cb_set_tickets f s : quit_cb (set tickets f s) = quit_cb s. Proof. reflexivity. Qed.
  Lemma quit_cb_set_run_loop f s : quit_cb (set run_loop f s) = quit_cb s. Proof. reflexivity. Qed.
  Lemma quit_cb_set_force_quit f s : quit_cb (set force_quit f s) = quit_cb s. Proof. reflexivity. Qed.
  Lemma quit_cb_set_quit_cb v s : quit_cb (s <| quit_cb := v |>) = v. Proof. reflexivity. Qed.
  Lemma quit_cb_set_next_sig f s : quit_cb (set next_sig f s) = quit_cb s. Proof. reflexivity. Qed.
  Lemma quit_cb_set_ext f s : quit_cb (set ext f s) = quit_cb s. Proof. reflexivity. Qed.
  Lemma quit_cb_set_ust f s : quit_cb (set ust f s) = quit_cb s. Proof. reflexivity. Qed.
  Lemma trace_set_qstore f s : trace (set qstore f s) = trace s. Proof. reflexivity. Qed.
  Lemma trace_set_levels f s : trace (set levels f s) = trace s. Proof. reflexivity. Qed.
  Lemma trace_set_active f s : trace (set active f s) = trace s. Proof. reflexivity. Qed.
  Lemma trace_set_handlers f s : trace (set handlers f s) = trace s. Proof. reflexivity. Qed.
  Lemma trace_set_tickets f s : trace (set tickets f s) = trace s. Proof. reflexivity. Qed.
  Lemma trace_set_run_loop f s : trace (set run_loop f s) = trace s. Proof. reflexivity. Qed.
  Lemma trace_set_force_quit f s : trace (set force_quit f s) = trace s. Proof. reflexivity. Qed.
  Lemma trace_set_quit_cb f s : trace (set quit_cb f s) = trace s. Proof. reflexivity. Qed.
  Lemma trace_set_next_sig f s : trace (set next_sig f s) = trace s. Proof. reflexivity. Qed.
  Lemma trace_set_ext f s : trace (set ext f s) = trace s. Proof. reflexivity. Qed.
  Lemma trace_set_ust f s : trace (set ust f s) = trace s. Proof. reflexivity. Qed.

  Lemma levels_set_q s q v : levels (set_q s q v) = levels s. Proof. reflexivity. Qed.
  Lemma run_loop_set_q s q v : run_loop (set_q s q v) = run_loop s. Proof. reflexivity. Qed.
  Lemma force_quit_set_q s q v : force_quit (set_q s q v) = force_quit s. Proof. reflexivity. Qed.
  Lemma quit_cb_set_q s q v : quit_cb (set_q s q v) = quit_cb s. Proof. reflexivity. Qed.
  Lemma trace_set_q s q v : trace (set_q s q v) = trace s. Proof. reflexivity. Qed.

  Lemma levels_do_enqueue s sg : levels (do_enqueue s sg) = levels s.
  Proof. unfold do_enqueue. destruct (force_quit s); reflexivity. Qed.
  Lemma run_loop_do_enqueue s sg : run_loop (do_enqueue s sg) = run_loop s.
  Proof. unfold do_enqueue. destruct (force_quit s); reflexivity. Qed.
  Lemma force_quit_do_enqueue s sg : force_quit (do_enqueue s sg) = force_quit s.
  Proof. unfold do_enqueue. destruct (force_quit s) eqn:E; exact E. Qed.
  Lemma quit_cb_do_enqueue s sg : quit_cb (do_enqueue s sg) = quit_cb s.
  Proof. unfold do_enqueue. destruct (force_quit s); reflexivity. Qed.
  Lemma trace_do_enqueue s sg : trace (do_enqueue s sg) = enq_ev s sg :: trace s.
  Proof. unfold do_enqueue, enq_ev. destruct (force_quit s); reflexivity. Qed.

  Lemma levels_ps_mark sg idx s : levels (ps_mark sg idx s) = levels s.
  Proof. unfold ps_mark. destruct (idx =? 0)%nat; reflexivity. Qed.
  Lemma run_loop_ps_mark sg idx s : run_loop (ps_mark sg idx s) = run_loop s.
  Proof. unfold ps_mark. destruct (idx =? 0)%nat; reflexivity. Qed.
  Lemma force_quit_ps_mark sg idx s : force_quit (ps_mark sg idx s) = force_quit s.
  Proof. unfold ps_mark. destruct (idx =? 0)%nat; reflexivity. Qed.
  Lemma quit_cb_ps_mark sg idx s : quit_cb (ps_mark sg idx s) = quit_cb s.
  Proof. unfold ps_mark. destruct (idx =? 0)%nat; reflexivity. Qed.
  Lemma trace_ps_mark sg idx s : trace (ps_mark sg idx s) = trace s.
  Proof. unfold ps_mark. destruct (idx =? 0)%nat; reflexivity. Qed.

  (* what queue.get() does to the state *)
  Lemma do_get_some s sg s1 : do_get s = inl (Some (sg, s1)) -> exists q', s1 = set_q s (active s) q'.
  Proof.
    unfold do_get. destruct (q_pop (get_q s (active s))) as [[[[p c] sg'] q']|].
    - intros H. injection H as <- <-. eauto.
    - destruct (ext s); [discriminate|]. cbn. discriminate.
  Qed.
  Lemma do_get_ext s s1 : do_get s = inr s1 ->
    exists sp r,
      s1 = do_enqueue (emit (EExt (next_sig s))
                         (emit (ESigNew (next_sig s) (sp_cls sp) (sp_prio sp) (sp_src sp))
                               (s <| ext := r |> <| next_sig := S (next_sig s) |>)))
                      (mk_signal (next_sig s) sp).
  Proof.
    unfold do_get. destruct (q_pop (get_q s (active s))) as [[[[p c] sg'] q']|]; [discriminate|].
    destruct (ext s) as [|sp r]; [discriminate|]. cbn. intros H. injection H as <-. exists sp, r. reflexivity.
  Qed.
  Lemma new_signal_eq s sp sg s1 : new_signal s sp = (sg, s1) ->
    sg = mk_signal (next_sig s) sp /\
    s1 = emit (ESigNew (next_sig s) (sp_cls sp) (sp_prio sp) (sp_src sp)) (s <| next_sig := S (next_sig s) |>).
  Proof. unfold new_signal. intros H. injection H as <- <-. auto. Qed.

  (* plain events leave the view's fields alone *)
  Lemma view_step_enq_ev v s sg : view_step v (enq_ev s sg) = view_step v (EMark 0).
  Proof. unfold enq_ev. destruct (force_quit s); reflexivity. Qed.
  Lemma view_step_user v e : view_step v (user_event e) = view_step v (EMark 0).
  Proof. destruct e; reflexivity. Qed.

  Lemma chk_enq_ev v s sg : v_exiting v = false -> v_fq v = force_quit s -> chk_view v (enq_ev s sg) = true.
  Proof.
    intros X F. unfold enq_ev. destruct (force_quit s).
    - apply chk_ok; auto. discriminate.
    - apply chk_ok; auto.
  Qed.
  Lemma chk_user v e : v_exiting v = false -> chk_view v (user_event e) = true.
  Proof. intros X. apply chk_ok; auto; destruct e; cbn; auto; discriminate. Qed.

  (* the named sub-terms of [exec]: projections as rewriting rules (never unfolded by conversion) *)
  Lemma levels_disp sg s s1 : levels (disp sg s s1) = levels s1. Proof. reflexivity. Qed.
  Lemma run_loop_disp sg s s1 : run_loop (disp sg s s1) = run_loop s1. Proof. reflexivity. Qed.
  Lemma force_quit_disp sg s s1 : force_quit (disp sg s s1) = force_quit s1. Proof. reflexivity. Qed.
  Lemma quit_cb_disp sg s s1 : quit_cb (disp sg s s1) = quit_cb s1. Proof. reflexivity. Qed.
  Lemma trace_disp sg s s1 :
    trace (disp sg s s1) = EDispatch (sg_id sg) (active s) (length (levels s)) :: trace s1.
  Proof. reflexivity. Qed.

  Lemma levels_run_enter s : levels (run_enter s) = levels s. Proof. reflexivity. Qed.
  Lemma run_loop_run_enter s : run_loop (run_enter s) = true. Proof. reflexivity. Qed.
  Lemma force_quit_run_enter s : force_quit (run_enter s) = false. Proof. reflexivity. Qed.
  Lemma quit_cb_run_enter s : quit_cb (run_enter s) = quit_cb s. Proof. reflexivity. Qed.
  Lemma trace_run_enter s : trace (run_enter s) = ERunEnter :: trace s. Proof. reflexivity. Qed.

  Definition nl_pre (s1 : lstate U) : lstate U :=
    emit (ENewLoopEnter (length (qstore s1)))
         (s1 <| qstore := qstore s1 ++ [empty_queue] |> <| active := length (qstore s1) |>
             <| levels := levels s1 ++ [length (qstore s1)] |>).
  Lemma levels_nl_pre s1 : levels (nl_pre s1) = levels s1 ++ [length (qstore s1)]. Proof. reflexivity. Qed.
  Lemma run_loop_nl_pre s1 : run_loop (nl_pre s1) = run_loop s1. Proof. reflexivity. Qed.
  Lemma force_quit_nl_pre s1 : force_quit (nl_pre s1) = force_quit s1. Proof. reflexivity. Qed.
  Lemma quit_cb_nl_pre s1 : quit_cb (nl_pre s1) = quit_cb s1. Proof. reflexivity. Qed.
  Lemma trace_nl_pre s1 : trace (nl_pre s1) = ENewLoopEnter (length (qstore s1)) :: trace s1. Proof. reflexivity. Qed.
  Lemma nl_enter_eq sg s1 : nl_enter sg s1 = do_enqueue (nl_pre s1) sg. Proof. reflexivity. Qed.

  Lemma quit_call_some s a : quit_cb s = Some a -> quit_call s = emit (EQuitCb a) s.
  Proof. unfold quit_call. intros ->. reflexivity. Qed.
  Lemma quit_call_none s : quit_cb s = None -> quit_call s = s.
  Proof. unfold quit_call. intros ->. reflexivity. Qed.
  Lemma ml_exit_fq s : force_quit s = true -> ml_exit s = s.
  Proof. unfold ml_exit. intros ->. reflexivity. Qed.
  Lemma ml_exit_nofq s : force_quit s = false -> ml_exit s = s <| run_loop := true |>.
  Proof. unfold ml_exit. intros ->. reflexivity. Qed.

  (* ---- the link of the ghost view [V (trace s)] with the loop's own fields ---- *)
  Definition link s : Prop :=
    v_levels (V (trace s)) = levels s /\ v_fq (V (trace s)) = force_quit s /\ v_quit (V (trace s)) = quit_cb s.
  (* the stop flag is down whenever force-quit is in effect *)
  Definition inv s : Prop := force_quit s = true -> run_loop s = false.
End St.

#[global] Hint Rewrite @levels_emit @run_loop_emit @force_quit_emit @quit_cb_emit @trace_emit
  @levels_set_q @run_loop_set_q @force_quit_set_q @quit_cb_set_q @trace_set_q
  @levels_do_enqueue @run_loop_do_enqueue @force_quit_do_enqueue @quit_cb_do_enqueue @trace_do_enqueue
  @levels_ps_mark @run_loop_ps_mark @force_quit_ps_mark @quit_cb_ps_mark @trace_ps_mark
  @V_cons @view_step_enq_ev @view_step_user
  @levels_disp @run_loop_disp @force_quit_disp @quit_cb_disp @trace_disp
  @levels_run_enter @run_loop_run_enter @force_quit_run_enter @quit_cb_run_enter @trace_run_enter
  @nl_enter_eq @levels_nl_pre @run_loop_nl_pre @force_quit_nl_pre @quit_cb_nl_pre @trace_nl_pre
  @levels_set_qstore @levels_set_levels @levels_set_active @levels_set_handlers @levels_set_tickets @levels_set_run_loop @levels_set_force_quit @levels_set_quit_cb @levels_set_next_sig @levels_set_ext @levels_set_ust @run_loop_set_qstore @run_loop_set_levels @run_loop_set_active @run_loop_set_handlers @run_loop_set_tickets @run_loop_set_run_loop @run_loop_set_force_quit @run_loop_set_quit_cb @run_loop_set_next_sig @run_loop_set_ext @run_loop_set_ust @force_quit_set_qstore @force_quit_set_levels @force_quit_set_active @force_quit_set_handlers @force_quit_set_tickets @force_quit_set_run_loop @force_quit_set_force_quit @force_quit_set_quit_cb @force_quit_set_next_sig @force_quit_set_ext @force_quit_set_ust @quit_cb_set_qstore @quit_cb_set_levels @quit_cb_set_active @quit_cb_set_handlers @quit_cb_set_tickets @quit_cb_set_run_loop @quit_cb_set_force_quit @quit_cb_set_quit_cb @quit_cb_set_next_sig @quit_cb_set_ext @quit_cb_set_ust @trace_set_qstore @trace_set_levels @trace_set_active @trace_set_handlers @trace_set_tickets @trace_set_run_loop @trace_set_force_quit @trace_set_quit_cb @trace_set_next_sig @trace_set_ext @trace_set_ust : st.

Arguments V : simpl never.
Arguments accT : simpl never.
Arguments do_enqueue : simpl never.
Arguments enq_ev : simpl never.
Arguments user_event : simpl never.
Arguments ps_mark : simpl never.
Notation G s := (V (trace s)) (only parsing).
